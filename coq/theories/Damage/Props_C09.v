(* Props_C09.v — the property theorems for C09 and nothing else.
   C09: "Damage to persistent files is detected or harmless, never silent, never a panic".

   Models: Damage/ModelSst.v (the SST readers of sst/src/lib.rs and block.rs on arbitrary bytes,
   decoding through the generic prototk decoder of area Wire), Log/Model.v (LogIterator),
   Mani/Model.v (ManifestIterator, read_mani), Damage/ModelOps.v (flip, overwrite, truncate,
   extend).  `crc` is crc32c: a Section variable of the models, an arbitrary function here; `sip`
   is SipHash-2-4; `pp` is slice::partition_point.

   THIS PROPERTY IS PARTIAL BY CONSTRUCTION.  Whether damage inside a checksummed region is
   detected depends on CRC32C telling the damaged bytes from the original ones.  Every theorem
   that needs that says so with an explicit hypothesis on `crc` (crc_detects, or an inequality of
   two checksums); that CRC32C has the property for single-bit flips and short bursts is a known
   fact about the polynomial that is NOT proved here.  What is proved without any assumption on
   crc: the readers are total and bounded on all byte strings; damage never changes what a reader
   returned before reaching it; everything a reader accepts has passed a checksum comparison;
   damage to a stored checksum is always detected; the unchecksummed regions (SST final block and
   trailing offset, log header-size byte, manifest separator lines) by case analysis.

   Outcomes of the SST model: SOk / SErr are what the Rust returns; SPanic = the Rust would panic,
   SHuge = an allocation larger than the whole file, SFuel = a loop of the model ran out of fuel. *)
From Coq Require Import NArith ZArith List Bool.
From Blue Require Import Gen.Const_Wire Wire.Model Wire.ModelMsg.
From Blue Require Table.ModelBloom.
From Blue Require Log.ModelWire Log.Model Log.ProofsWire Log.ProofsWriter Log.ProofsReader Log.ProofsTop Log.Props_C12.
From Blue Require Mani.Model Mani.ProofsOrder Mani.Props_C13.
From Blue Require Import Damage.ModelOps Damage.ModelSst Damage.ModelFiles.
From Blue Require Import Damage.ProofsOps Damage.ProofsSstBlock Damage.ProofsSstTotal Damage.ProofsSstDamage Damage.ProofsSstExample.
From Blue Require Damage.ProofsLog Damage.ProofsMani.
Import ListNotations.
Open Scope N_scope.

(* ================================================================ SST *)

(* ---- the central theorem: damage anywhere in front of the final block (data blocks, index block,
   filter block, their frame envelopes), any number of bytes, the file length unchanged.  Two
   explicit hypotheses on crc, for every frame position at which both files hold a frame:
     crc_detects_payload   a damaged payload of the SAME length with the same checksum is the
                           original payload (for CRC32C: true of single-bit flips and bursts of at
                           most 32 bits, a fact about the polynomial NOT proved here; otherwise a
                           2^-32 event);
     crc_detects_envelope  a payload of ANOTHER length (the frame's tag or length varint was hit;
                           load_block does not insist that the SstEntry fills [start, limit)) has
                           another checksum — no property of CRC32C covers this; a 2^-32 event,
                           assumed away here and swept exhaustively by the check.
   Then: the damaged file fails to open or opens as the same table; a full forward walk returns
   exactly the original entries, or fails after returning a prefix of them; every point read
   returns what it returned on the original, or fails.  Never different data.
   (C09_example_crc_hypotheses: both hypotheses hold for a concrete file and a damaged copy.) *)
Theorem C09_sst_damage_detected_or_harmless : forall crc sip pp f f' t,
  sst_open crc f = SOk t ->
  len f' = len f ->
  agree_on (tail_start f) (len f) f f' ->
  crc_detects_payload crc f f' -> crc_detects_envelope crc f f' ->
  same_or_failed (sst_open crc f') (SOk (with_file t f')) /\
  (forall es, sst_walk crc t = (es, WEnd) ->
     sst_walk crc (with_file t f') = (es, WEnd) \/
     exists es' w, sst_walk crc (with_file t f') = (es', w) /\ w <> WEnd /\ exists tl, es = es' ++ tl) /\
  (forall es, sst_walk_back crc t = (es, WEnd) ->
     sst_walk_back crc (with_file t f') = (es, WEnd) \/
     exists es' w, sst_walk_back crc (with_file t f') = (es', w) /\ w <> WEnd /\ exists tl, es = es' ++ tl) /\
  (forall r, sst_meta_keys crc t = SOk r -> same_or_failed (sst_meta_keys crc (with_file t f')) (SOk r)) /\
  (forall key ts r, sst_load crc sip pp t key ts = SOk r ->
     same_or_failed (sst_load crc sip pp (with_file t f') key ts) (SOk r)).
Proof.
  intros crc sip pp f f' t Ho Hl Ha Hp He.
  pose proof (crc_detects_of_split crc f f' Hp He) as Hd.
  assert (Hf : t_file t = f) by (destruct (sst_open_layout crc f t Ho) as (H & _); exact H).
  split; [exact (sst_open_damaged' crc f f' t Hd Hl Ha Ho)|]. split.
  - intros es H. apply sst_walk_damaged; [rewrite Hf; exact Hd|exact H].
  - split; [|split].
    + intros es H. apply sst_walk_back_damaged; [rewrite Hf; exact Hd|exact H].
    + intros r H. apply sst_meta_keys_damaged; [rewrite Hf; exact Hd|exact H].
    + intros key ts r H. apply sst_load_damaged; [rewrite Hf; exact Hd|exact H].
Qed.

(* ---- the unchecksummed tail (final block, trailing offset).
   KNOWN CLASS sst-final-block-metadata-unchecksummed (known_findings.txt).  The final block carries
   three fields of its own — setsum, smallest_timestamp, biggest_timestamp — that no checksum covers
   and no other part of the file repeats.
   _refuted: a single bit flip there is accepted: the file opens, the walk and the index are what
   they were, and the table presents a biggest_timestamp (4 instead of 0), a smallest_timestamp
   (64, above the biggest) resp. a setsum that the file never held, as genuine — contrary to
   "never returns different ... timestamps ... as if they were genuine".  Confirmed on the real
   Sst::metadata(), and on a real store: lsmtk takes its next sequence number and the level order
   from these fields (one flipped bit in the newest table made an acknowledged write vanish and an
   overwritten value reappear after reopen; see the check's store probe).
   _outside_known: any damage that leaves the bytes in front of the end of the filter frame alone
   (flips and overwrites in the final block or the trailing offset, truncation inside it, any
   appended suffix), no assumption on crc: if the damaged file still opens and names the same
   index and filter frames, then the index, the filter, every walk, the first key and every point
   read are exactly the original's — so the three fields are the ONLY thing that can differ, and
   outside the class (the three fields equal) nothing observable of the table differs. *)
Definition final_meta_known (t t' : sst) : Prop :=
  fb_setsum (t_final t') <> fb_setsum (t_final t) \/
  fb_smallest (t_final t') <> fb_smallest (t_final t) \/
  fb_biggest (t_final t') <> fb_biggest (t_final t).

(* what a table presents: its entries, its index, and the final block's own three fields *)
Definition sst_presents (crc : list N -> N) (f : list N) :=
  t <-- sst_open crc f ;;
  SOk (sst_walk crc t, t_index t, fb_setsum (t_final t), fb_smallest (t_final t), fb_biggest (t_final t)).

Theorem C09_sst_final_metadata_refuted :
  exists crc f walk idx ss sm bg,
    sst_presents crc f = SOk (walk, idx, ss, sm, bg) /\ snd walk = WEnd /\
    (exists i k bg', tail_start f <= i /\ bg' <> bg /\
       sst_presents crc (flip i k f) = SOk (walk, idx, ss, sm, bg')) /\
    (exists i k sm', tail_start f <= i /\ bg < sm' /\
       sst_presents crc (flip i k f) = SOk (walk, idx, ss, sm', bg)) /\
    (exists i k ss', tail_start f <= i /\ ss' <> ss /\
       sst_presents crc (flip i k f) = SOk (walk, idx, ss', sm, bg)).
Proof.
  exists ex_crc, ex_sst. do 5 eexists.
  split; [vm_compute; reflexivity|]. split; [reflexivity|]. split; [|split].
  - exists 213, 2. eexists. split; [vm_compute; discriminate|]. split; [|vm_compute; reflexivity]. discriminate.
  - exists 210, 6. eexists. split; [vm_compute; discriminate|]. split; [|vm_compute; reflexivity]. reflexivity.
  - exists 180, 3. eexists. split; [vm_compute; discriminate|]. split; [|vm_compute; reflexivity]. discriminate.
Qed.

Theorem C09_sst_tail_damage_outside_known : forall crc sip pp f f' t t',
  sst_open crc f = SOk t -> sst_open crc f' = SOk t' ->
  fb_index (t_final t') = fb_index (t_final t) -> fb_filter (t_final t') = fb_filter (t_final t) ->
  agree_on 0 (bm_limit (fb_filter (t_final t))) f f' ->
  (t_index t' = t_index t /\ t_filter t' = t_filter t /\
   sst_walk crc t' = sst_walk crc t /\
   sst_walk_back crc t' = sst_walk_back crc t /\
   sst_meta_keys crc t' = sst_meta_keys crc t /\
   (forall key ts, sst_load crc sip pp t' key ts = sst_load crc sip pp t key ts)) /\
  (~ final_meta_known t t' ->
   fb_setsum (t_final t') = fb_setsum (t_final t) /\ fb_smallest (t_final t') = fb_smallest (t_final t) /\
   fb_biggest (t_final t') = fb_biggest (t_final t)).
Proof.
  intros crc sip pp f f' t t' H1 H2 H3 H4 H5. split; [exact (tail_damage_harmless crc sip pp f f' t t' H1 H2 H3 H4 H5)|].
  intros Hk. unfold final_meta_known in Hk.
  destruct (list_eq_dec N.eq_dec (fb_setsum (t_final t')) (fb_setsum (t_final t))) as [E1|E1]; [|exfalso; apply Hk; left; exact E1].
  destruct (N.eq_dec (fb_smallest (t_final t')) (fb_smallest (t_final t))) as [E2|E2]; [|exfalso; apply Hk; right; left; exact E2].
  destruct (N.eq_dec (fb_biggest (t_final t')) (fb_biggest (t_final t))) as [E3|E3]; [|exfalso; apply Hk; right; right; exact E3].
  auto.
Qed.

(* ---- the other case of tail damage, stated as what it takes: when the damaged file opens and
   names an index or filter frame the original did not name, a checksum comparison has passed on
   that other (start, limit, crc32c) triple — on intact bytes of the original file or on bytes
   the damage supplied.  (The final block is the root of trust of an SST and is not itself
   checksummed; the check records as accepted-metadata-only vs. error what every single-byte
   damage there does.) *)
Theorem C09_sst_accepted_block_passed_crc : forall crc f m k p,
  load_entry crc f m = SOk (k, p) ->
  bm_start m < bm_limit m /\ payload_at f m = Some (k, p) /\ crc32 crc p = bm_crc m.
Proof. exact load_entry_inv. Qed.

Theorem C09_sst_open_names_checked_frames : forall crc f t, sst_open crc f = SOk t ->
  t_file t = f /\
  bm_start (fb_index (t_final t)) < bm_limit (fb_index (t_final t)) /\
  bm_limit (fb_index (t_final t)) <= bm_start (fb_filter (t_final t)) /\
  bm_start (fb_filter (t_final t)) < bm_limit (fb_filter (t_final t)) /\
  bm_limit (fb_filter (t_final t)) <= len f /\
  Forall (fun km => bm_limit (snd km) <= bm_start (fb_index (t_final t))) (t_index t) /\
  (exists ib, load_block crc f (fb_index (t_final t)) = SOk ib /\ load_index_entries ib = SOk (t_index t)) /\
  load_filter_block crc f (fb_filter (t_final t)) = SOk (t_filter t).
Proof. exact sst_open_layout. Qed.

(* ---- readers total and bounded, for ALL byte strings and every crc / hash: opening, the full
   forward walk, metadata()'s first and last key (seek_to_last + prev) and every point read return a value or an error — never a panic
   (index or slice out of range, failed assert, usize underflow in Block::new), never an
   allocation larger than the file itself, never out of the model's fuel. *)
Theorem C09_sst_readers_total_bounded : forall crc sip pp f,
  bytes_ok f -> (forall l k, pp l k <= N.of_nat (length l)) ->
  (sst_open crc f <> SPanic /\ sst_open crc f <> SHuge /\ sst_open crc f <> SFuel) /\
  forall t, sst_open crc f = SOk t ->
    (snd (sst_walk crc t) <> WPanic /\ snd (sst_walk crc t) <> WHuge /\ snd (sst_walk crc t) <> WFuel) /\
    (sst_meta_keys crc t <> SPanic /\ sst_meta_keys crc t <> SHuge /\ sst_meta_keys crc t <> SFuel) /\
    (forall key ts, sst_load crc sip pp t key ts <> SPanic /\ sst_load crc sip pp t key ts <> SHuge /\
                    sst_load crc sip pp t key ts <> SFuel) /\
    (* the backward walk: every prev() returns a value or an error (C09_block_prev_total), so the
       walk never panics and never over-allocates; that it ENDS on a forged block (prev() making
       progress) is not proved — the model's fuel outcome is not excluded here; decided by samples *)
    (snd (sst_walk_back crc t) <> WPanic /\ snd (sst_walk_back crc t) <> WHuge).
Proof.
  intros crc sip pp f Hb Hpp.
  assert (F : forall A (r : sres A), fine r -> r <> SPanic /\ r <> SHuge /\ r <> SFuel).
  { intros A [a|e| | |] H; cbn in H; try contradiction; repeat split; discriminate. }
  split; [apply F; apply sst_open_fine; exact Hb|].
  intros t Ho. destruct (sst_open_spec crc f Hb) as [(t0 & E & Hw & _)|[e E]]; rewrite E in Ho; [|discriminate].
  inversion Ho; subst t0. split; [|split; [|split]].
  - pose proof (sst_walk_fine crc t Hw) as H. destruct (snd (sst_walk crc t)); cbn in H; try contradiction; repeat split; discriminate.
  - apply F. apply sst_meta_keys_fine. exact Hw.
  - intros key ts. apply F. apply (sst_load_fine crc sip pp Hpp); assumption.
  - pose proof (sst_walk_back_no_panic crc t Hw) as H. destruct (snd (sst_walk_back crc t)); cbn in H; try contradiction; split; discriminate.
Qed.

(* ---- the block reader by itself (Block::new is public): any bytes.  With the repaired footer
   arithmetic Block::new returns a block whose restart array and capstone fit, or block-too-small;
   cursor steps and seeks stay inside the block. *)
Theorem C09_block_new_total : forall bs, bytes_ok bs ->
  (exists b, block_new bs = SOk b /\ block_wf b /\ b_bytes b = bs) \/ (exists e, block_new bs = SErr e).
Proof. exact block_new_spec. Qed.

Theorem C09_block_cursor_total : forall bs b p key,
  bytes_ok bs -> block_new bs = SOk b -> pos_wf b p ->
  fine (bc_next b p) /\ fine (bc_seek b p key) /\ fine (snd (iter_block b is_last p)) /\ fine (bc_prev b p) /\
  (forall q, bc_next b p = SOk q -> pos_wf b q) /\ (forall q, bc_seek b p key = SOk q -> pos_wf b q) /\
  (forall q, bc_prev b p = SOk q -> pos_wf b q).
Proof.
  intros bs b p key Hb E Hp. destruct (block_new_spec bs Hb) as [(b0 & E0 & Hw & _)|[e E0]]; rewrite E0 in E; [|discriminate].
  inversion E; subst b0.
  split; [apply bc_next_fine; assumption|]. split; [apply bc_seek_fine; assumption|].
  split; [apply iter_block_fine; [exact Hw|reflexivity|exact Hp]|]. split; [apply bc_prev_fine; assumption|]. split; [|split].
  - intros q H. destruct (bc_next_spec b p Hw Hp) as [(p' & E1 & Hr)|[e E1]]; rewrite E1 in H; [|discriminate].
    inversion H; subst. eapply next_rel_wf; eassumption.
  - intros q H. eapply bc_seek_wf; eassumption.
  - intros q H. exact (proj2 (bc_prev_spec b p Hw Hp) q H).
Qed.

(* ================================================================ write-ahead log *)

(* ---- total and bounded on all byte strings: the drain ends or errors, returns at most one entry
   per byte, and no frame buffer exceeds 2 * TABLE_FULL_SIZE (a FIRST frame plus a SECOND frame,
   each accepted only with a size of at most TABLE_FULL_SIZE): bounded by a constant, NOT by the
   length of the file — a damaged size field makes LogIterator allocate up to that much before
   read_exact fails. *)
Theorem C09_log_reader_total_bounded : forall bits crc,
  (forall file, exists es r, Log.Model.read_log bits crc file = (es, r) /\ r <> Log.Model.RFuel /\
                             (length es <= length file)%nat) /\
  (forall f pos rest h pos' rest', Log.Model.next_header bits f pos rest = Log.Model.HSome h pos' rest' ->
     Log.ModelWire.h_size h <= Gen.Const_Log.TABLE_FULL_SIZE) /\
  (forall hf pos rest h1 pos1 rest1 buf1 pos2 rest2 h2 pos3 rest3 buf3,
     Log.Model.next_frame bits crc hf pos rest [] = Log.Model.FrSome h1 pos1 rest1 buf1 ->
     Log.Model.next_frame bits crc hf pos2 rest2 buf1 = Log.Model.FrSome h2 pos3 rest3 buf3 ->
     Log.ModelWire.len buf1 <= Gen.Const_Log.TABLE_FULL_SIZE /\ Log.ModelWire.len buf3 <= LOG_ALLOC_BOUND).
Proof.
  intros bits crc. split; [intros file; exact (Log.Props_C12.C12_reader_total bits crc file)|].
  destruct (Damage.ProofsLog.log_reader_allocation_bounded bits crc) as (H1 & _ & H3). split; [exact H1|exact H3].
Qed.

(* ---- damage never affects what precedes it.  A log of batches ess1 ++ ess2 written by the real
   writer's model; f' is ANY byte string that agrees with the file up to the end of the batches
   ess1 (every flip, overwrite, truncation point or appended suffix at or after that offset, and
   any combination).  Reading f' returns the entries of the successfully appended batches of ess1
   first, in order, then whatever reading the rest from that stream position gives (es2, r2) —
   which the theorems below show is an error for a damaged frame. *)
Theorem C09_log_damage_preserves_earlier_batches : forall bits crc,
  Gen.Const_Log.HEADER_MAX_SIZE < 2 ^ bits ->
  forall rollover ess1 ess2 rs file,
  Forall (Forall Log.ProofsWire.wf_entry) ess1 ->
  Log.Model.write_log bits crc rollover (map Log.ProofsWire.ebytes (ess1 ++ ess2)) = (rs, file) ->
  exists rs1 file1,
    Log.Model.write_log bits crc rollover (map Log.ProofsWire.ebytes ess1) = (rs1, file1) /\
    rs1 = firstn (length ess1) rs /\ firstn (length file1) file = file1 /\
    (exists rest, Log.ProofsTop.ok_batches rs (ess1 ++ ess2) = Log.ProofsTop.ok_batches rs1 ess1 ++ rest) /\
    forall f', firstn (length file1) f' = file1 ->
      exists es2 r2,
        Log.Model.read_log bits crc f' = (concat (Log.ProofsTop.ok_batches rs1 ess1) ++ es2, r2) /\
        r2 <> Log.Model.RFuel /\
        (forall hf, (length (skipn (length file1) f') < hf)%nat ->
           Log.ProofsReader.Reads bits crc hf
             {| Log.Model.r_pos := Log.ModelWire.len file1; Log.Model.r_rest := skipn (length file1) f'; Log.Model.r_pend := [] |}
             es2 r2).
Proof. intros bits crc HB. exact (Damage.ProofsLog.log_damage_after_boundary bits crc HB). Qed.

(* ---- a damaged frame body is detected, under the explicit hypothesis that the CRC of the
   damaged body differs from the CRC of the original body: the drain returns exactly the earlier
   batches and then corruption-crc-checksum-failed.  Any discriminant (WHOLE, FIRST; the damaged
   SECOND frame of a split batch is the next theorem), any bytes Y behind the frame. *)
Theorem C09_log_body_damage_detected : forall bits crc,
  Gen.Const_Log.HEADER_MAX_SIZE < 2 ^ bits ->
  forall rollover ess1 rs1 file1 k disc b b' Y,
  Forall (Forall Log.ProofsWire.wf_entry) ess1 ->
  Log.Model.write_log bits crc rollover (map Log.ProofsWire.ebytes ess1) = (rs1, file1) ->
  Log.ProofsWriter.pad_at bits (Log.ModelWire.len file1) k ->
  disc < 128 -> Log.ModelWire.len b <= Gen.Const_Log.TABLE_FULL_SIZE -> Log.ModelWire.len b' = Log.ModelWire.len b ->
  Log.Model.crc32 crc b' <> Log.Model.crc32 crc b ->
  Log.Model.read_log bits crc
    (file1 ++ Log.ProofsWriter.zeros k ++ Log.ModelWire.header_frame (Log.ProofsWriter.hdr crc disc b) ++ b' ++ Y)
  = (concat (Log.ProofsTop.ok_batches rs1 ess1), Log.Model.RErr Log.Model.ECrc).
Proof. intros bits crc HB. exact (Damage.ProofsLog.log_body_damage_detected bits crc HB). Qed.

Theorem C09_log_second_body_damage_detected : forall bits crc,
  Gen.Const_Log.HEADER_MAX_SIZE < 2 ^ bits ->
  forall rollover ess1 rs1 file1 k first k2 second second' Y,
  Forall (Forall Log.ProofsWire.wf_entry) ess1 ->
  Log.Model.write_log bits crc rollover (map Log.ProofsWire.ebytes ess1) = (rs1, file1) ->
  Log.ProofsWriter.pad_at bits (Log.ModelWire.len file1) k ->
  Log.ModelWire.len first <= Gen.Const_Log.TABLE_FULL_SIZE -> k2 <= Gen.Const_Log.HEADER_MAX_SIZE ->
  (Log.ModelWire.len file1 + k + Log.ModelWire.len (Log.ProofsWriter.frame crc Gen.Const_Log.HEADER_FIRST first) + k2) mod 2 ^ bits = 0 ->
  Log.ModelWire.len second <= Gen.Const_Log.TABLE_FULL_SIZE -> Log.ModelWire.len second' = Log.ModelWire.len second ->
  Log.Model.crc32 crc second' <> Log.Model.crc32 crc second ->
  Log.Model.read_log bits crc
    (file1 ++ Log.ProofsWriter.zeros k ++ Log.ProofsWriter.frame crc Gen.Const_Log.HEADER_FIRST first ++ Log.ProofsWriter.zeros k2 ++
     Log.ModelWire.header_frame (Log.ProofsWriter.hdr crc Gen.Const_Log.HEADER_SECOND second) ++ second' ++ Y)
  = (concat (Log.ProofsTop.ok_batches rs1 ess1), Log.Model.RErr Log.Model.ECrc).
Proof. intros bits crc HB. exact (Damage.ProofsLog.log_body_damage_detected_second bits crc HB). Qed.

(* ---- a damaged stored checksum is ALWAYS detected (no assumption on crc) *)
Theorem C09_log_crc_field_damage_detected : forall bits crc,
  Gen.Const_Log.HEADER_MAX_SIZE < 2 ^ bits ->
  forall rollover ess1 rs1 file1 k disc b c' Y,
  Forall (Forall Log.ProofsWire.wf_entry) ess1 ->
  Log.Model.write_log bits crc rollover (map Log.ProofsWire.ebytes ess1) = (rs1, file1) ->
  Log.ProofsWriter.pad_at bits (Log.ModelWire.len file1) k ->
  disc < 128 -> Log.ModelWire.len b <= Gen.Const_Log.TABLE_FULL_SIZE -> c' < Log.ModelWire.W32 ->
  c' <> Log.Model.crc32 crc b ->
  Log.Model.read_log bits crc
    (file1 ++ Log.ProofsWriter.zeros k ++
     Log.ModelWire.header_frame {| Log.ModelWire.h_size := Log.ModelWire.len b; Log.ModelWire.h_disc := disc; Log.ModelWire.h_crc := c' |} ++ b ++ Y)
  = (concat (Log.ProofsTop.ok_batches rs1 ess1), Log.Model.RErr Log.Model.ECrc).
Proof. intros bits crc HB. exact (Damage.ProofsLog.log_crc_field_damage_detected bits crc HB). Qed.

(* ---- the unchecksummed header-size byte overwritten with 0 (which the reader takes for padding).
   KNOWN CLASS log-tiny-frame-at-block-end (known_findings.txt): _refuted — a frame that starts
   within HEADER_MAX_SIZE + 1 bytes of the next block boundary (so the whole frame is at most that
   long) is silently skipped: the drain returns the batches before it AND the batches after it
   and ends cleanly.  Witness: 64-byte blocks, three batches, the second one an 18-byte frame at
   offset 45; confirmed on the real LogIterator with 1 MiB blocks.
   _outside_known — for a frame that starts more than HEADER_MAX_SIZE + 1 bytes before the
   boundary the overwrite is detected: earlier batches, then corruption-true-up-exceeds-header-max. *)
Theorem C09_log_zero_size_byte_refuted :
  exists bits crc rollover b1 b2 b3 file i,
    Gen.Const_Log.HEADER_MAX_SIZE < 2 ^ bits /\ Forall (Forall Log.ProofsWire.wf_entry) [b1; b2; b3] /\
    Log.Model.write_log bits crc rollover (map Log.ProofsWire.ebytes [b1; b2; b3]) = ([(Log.Model.WOk, i); (Log.Model.WOk, 63); (Log.Model.WOk, 83)], file) /\
    skipn (N.to_nat i) file = Log.ProofsWriter.frame crc Gen.Const_Log.HEADER_WHOLE (Log.ProofsWire.ebytes b2) ++ Log.ProofsWriter.zeros 1 ++
                              Log.ProofsWriter.frame crc Gen.Const_Log.HEADER_WHOLE (Log.ProofsWire.ebytes b3) /\
    nth_error file (N.to_nat i) = Some 9 /\
    Log.Model.next_boundary bits i - i <= Gen.Const_Log.HEADER_MAX_SIZE + 1 /\
    Log.Model.read_log bits crc file = (b1 ++ b2 ++ b3, Log.Model.REnd) /\
    Log.Model.read_log bits crc (overwrite i 0 file) = (b1 ++ b3, Log.Model.REnd) /\
    b2 <> [] /\ b1 ++ b3 <> b1 ++ b2 ++ b3 /\ ~ (exists t, (b1 ++ b3) ++ t = b1 ++ b2 ++ b3).
Proof. exact Damage.ProofsLog.log_zero_size_byte_refuted. Qed.

Theorem C09_log_zero_size_byte_outside_known : forall bits crc,
  Gen.Const_Log.HEADER_MAX_SIZE < 2 ^ bits ->
  forall rollover ess1 rs1 file1 k disc b Y,
  Forall (Forall Log.ProofsWire.wf_entry) ess1 ->
  Log.Model.write_log bits crc rollover (map Log.ProofsWire.ebytes ess1) = (rs1, file1) ->
  Log.ProofsWriter.pad_at bits (Log.ModelWire.len file1) k ->
  Gen.Const_Log.HEADER_MAX_SIZE + 1 < Log.Model.next_boundary bits (Log.ModelWire.len file1 + k) - (Log.ModelWire.len file1 + k) ->
  Log.Model.read_log bits crc (file1 ++ Log.ProofsWriter.zeros k ++ (0 :: tl (Log.ProofsWriter.frame crc disc b)) ++ Y)
  = (concat (Log.ProofsTop.ok_batches rs1 ess1), Log.Model.RErr Log.Model.ETrueUp).
Proof. intros bits crc HB. exact (Damage.ProofsLog.log_zero_size_byte_detected bits crc HB). Qed.

(* ---- truncation at ANY length loses only the tail (C12's theorem, restated with the damage
   operator): the batches whose last byte is inside the cut, then a clean end or an error *)
Theorem C09_log_truncation_loses_only_tail : forall bits crc,
  Gen.Const_Log.HEADER_MAX_SIZE < 2 ^ bits ->
  forall rollover ess rs file n,
  Forall (Forall Log.ProofsWire.wf_entry) ess ->
  Log.Model.write_log bits crc rollover (map Log.ProofsWire.ebytes ess) = (rs, file) ->
  exists j r,
    Log.Model.read_log bits crc (truncate n file) = (concat (firstn j (Log.ProofsTop.ok_batches rs ess)), r) /\
    (r = Log.Model.REnd \/ exists e, r = Log.Model.RErr e).
Proof.
  intros bits crc HB rollover ess rs file n Hw H.
  destruct (Log.Props_C12.C12_torn_tail bits crc HB rollover ess rs file (N.to_nat n) Hw H) as (j & r & H1 & H2 & _).
  exists j, r. split; [exact H1|exact H2].
Qed.

(* ================================================================ manifest *)

(* ---- total and bounded: read_mani returns a state or an error on every byte string, and no line
   it reads is longer than the file *)
Theorem C09_mani_reader_total_bounded : forall crc bs,
  Mani.Model.read_mani crc (Some bs) <> Mani.Model.Panic /\
  Forall (fun l => (length l <= length bs)%nat) (Mani.Model.lines bs).
Proof.
  intros crc bs. split; [unfold Mani.Model.read_mani; apply Damage.ProofsMani.read_lines_never_panics|apply Damage.ProofsMani.lines_bounded].
Qed.

(* ---- every line the reader accepts is the separator or has passed the comparison of its eight
   hex digits with the checksum of the rest of the line *)
Theorem C09_mani_accepted_line_passed_crc : forall crc acc l,
  (forall acc', Mani.Model.do_line crc acc l = Mani.Model.LCont acc' ->
     (9 < length l)%nat /\
     exists x, Mani.Model.parse_hex_u32 (firstn 8 l) = Some x /\ Mani.Model.crc32 crc (skipn 8 l) = x) /\
  (forall e, Mani.Model.do_line crc acc l = Mani.Model.LYield e -> Mani.Model.str_eqb l Mani.Model.SEP = true /\ e = acc).
Proof.
  intros crc acc l. split; [intros acc'; apply Damage.ProofsMani.do_line_cont_checked|intros e; apply Damage.ProofsMani.do_line_yield].
Qed.

(* ---- the unchecksummed separator line: whatever a damaged separator (or any other line of at
   most nine characters) has become, if it is not the separator the reader reports an error there
   or earlier; no assumption on crc *)
Theorem C09_mani_damaged_separator_detected : forall crc l' pre post acc st,
  (length l' <= 9)%nat -> Mani.Model.str_eqb l' Mani.Model.SEP = false ->
  exists x, Mani.Model.read_lines crc (pre ++ l' :: post) acc st = Mani.Model.Err x.
Proof.
  intros crc l' pre post acc st Hl Hs. apply Damage.ProofsMani.read_lines_rejected.
  apply Damage.ProofsMani.short_line_rejected; assumption.
Qed.

(* ---- a damaged checksummed line: the damaged line has the length of the original and the
   damage is confined to the eight digits or to the rest of the line; the explicit hypothesis on
   crc: it tells the damaged rest from the original rest.  Then the line is read exactly as the
   original (harmless: e.g. a hex digit in the other case, '+' for a leading '0') or rejected. *)
Theorem C09_mani_line_damage_detected_or_harmless : forall crc acc l l' acc1,
  Mani.Model.do_line crc acc l = Mani.Model.LCont acc1 ->
  length l' = length l ->
  (firstn 8 l' = firstn 8 l \/ skipn 8 l' = skipn 8 l) ->
  (Mani.Model.crc32 crc (skipn 8 l') = Mani.Model.crc32 crc (skipn 8 l) -> skipn 8 l' = skipn 8 l) ->
  Mani.Model.do_line crc acc l' = Mani.Model.do_line crc acc l \/ Damage.ProofsMani.rejects crc acc l'.
Proof. exact Damage.ProofsMani.line_damage_detected_or_harmless. Qed.

(* ---- the same from the bytes: ONE byte of a manifest that reads to the end is overwritten (every
   single-bit flip is such an overwrite), neither the old nor the new byte being a line feed or a
   carriage return.  Exactly one line changes, in one position; under the hypothesis that crc tells
   the rest of that damaged line from the rest of the original line, the damaged manifest reads to
   the same state or fails with an error.  (Damage that creates or destroys a line break is
   decided on samples.) *)
Theorem C09_mani_byte_overwrite_detected_or_harmless : forall crc pre b b' post st1,
  b <> 10 -> b <> 13 -> b' <> 10 -> b' <> 13 -> b' <> b ->
  Mani.Model.read_mani crc (Some (pre ++ b :: post)) = Mani.Model.Ok st1 ->
  (forall A u v B, Mani.Model.lines (pre ++ b :: post) = A ++ (u ++ b :: v) :: B ->
     Mani.Model.lines (pre ++ b' :: post) = A ++ (u ++ b' :: v) :: B ->
     Mani.Model.crc32 crc (skipn 8 (u ++ b' :: v)) = Mani.Model.crc32 crc (skipn 8 (u ++ b :: v)) ->
     skipn 8 (u ++ b' :: v) = skipn 8 (u ++ b :: v)) ->
  Mani.Model.read_mani crc (Some (pre ++ b' :: post)) = Mani.Model.Ok st1 \/
  exists x, Mani.Model.read_mani crc (Some (pre ++ b' :: post)) = Mani.Model.Err x.
Proof. exact Damage.ProofsMani.mani_byte_overwrite_detected_or_harmless. Qed.

(* ... and a rejected line is an error of the whole read, whatever follows it *)
Theorem C09_mani_rejected_line_is_error : forall crc l', Damage.ProofsMani.rejected crc l' ->
  forall pre post acc st, exists x, Mani.Model.read_lines crc (pre ++ l' :: post) acc st = Mani.Model.Err x.
Proof. exact Damage.ProofsMani.read_lines_rejected. Qed.

(* ---- damage never affects what precedes it: two files with the same lines up to some point
   that both read to the end went through the same state at that point *)
Theorem C09_mani_damage_preserves_earlier_edits : forall crc pre rest rest' acc st st1 st2,
  Mani.Model.read_lines crc (pre ++ rest) acc st = Mani.Model.Ok st1 ->
  Mani.Model.read_lines crc (pre ++ rest') acc st = Mani.Model.Ok st2 ->
  exists acc' st', Damage.ProofsMani.run_lines crc pre acc st = inl (acc', st') /\
                   Mani.Model.read_lines crc rest acc' st' = Mani.Model.Ok st1 /\
                   Mani.Model.read_lines crc rest' acc' st' = Mani.Model.Ok st2.
Proof. exact Damage.ProofsMani.read_lines_prefix_independent. Qed.

(* ---- truncation at ANY length (C13's theorem, restated with the damage operator) *)
Theorem C09_mani_truncation_prefix : forall crc es n, Forall Mani.ProofsOrder.wf_edit es ->
  (exists x, Mani.Model.read_mani crc (Some (truncate n (Mani.Model.ser_edits crc es))) = Mani.Model.Err x) \/
  (exists j, (j <= length es)%nat /\
     Mani.Model.read_mani crc (Some (truncate n (Mani.Model.ser_edits crc es))) = Mani.Model.Ok (Mani.Model.spec_state (firstn j es))).
Proof.
  intros crc es n H. destruct (Mani.Props_C13.C13_truncation_prefix crc es (N.to_nat n) H) as [(x & E & _)|(j & Hj & E & _)].
  - left. exists x. exact E.
  - right. exists j. split; [exact Hj|exact E].
Qed.

(* ================================================================ the damage operators *)

(* damage produces bytes from bytes; a flip really changes the byte it hits; and damage is local:
   an overwrite or flip at offset i, a truncation to n >= L, an extension leave every byte in front
   of L alone (which is the hypothesis `agree_on` of the theorems above) *)
Theorem C09_damage_operators : forall f,
  (forall ds, forallb damage_ok ds = true -> bytes_ok f -> bytes_ok (apply_all ds f)) /\
  (forall i k, length (flip i k f) = length f) /\ (forall i b, length (overwrite i b f) = length f) /\
  (forall x k, flip_bit x k <> x) /\
  (forall i b L, L <= i -> agree_on 0 L (overwrite i b f) f) /\
  (forall i k L, L <= i -> agree_on 0 L (flip i k f) f) /\
  (forall i b lo hi, i < lo -> agree_on lo hi (overwrite i b f) f) /\
  (forall i k lo hi, i < lo -> agree_on lo hi (flip i k f) f) /\
  (forall n L, L <= n -> agree_on 0 L (truncate n f) f) /\
  (forall s, agree_on 0 (len f) (extend s f) f).
Proof.
  intros f. split; [intros ds; apply damage_all_keeps_bytes|]. split; [intros; apply flip_length|].
  split; [intros; apply overwrite_length|]. split; [exact flip_bit_neq|].
  split; [intros; apply overwrite_agree; right; assumption|]. split; [intros; apply flip_agree; right; assumption|].
  split; [intros; apply overwrite_agree; left; assumption|]. split; [intros; apply flip_agree; left; assumption|].
  split; [intros; apply truncate_agree; assumption|intros; apply extend_agree].
Qed.

(* ================================================================ non-vacuity *)
(* a concrete SST (two data blocks, index, filter, final block; toy checksum ex_crc) that opens and
   walks; a bit flipped in a data block is reported as crc32c-failure on the walk and on the read
   of that block while the other block still reads; a bit flipped in the setsum of the final block
   changes nothing but the metadata; the final-block offset overwritten gives an error at open *)
(* the two hypotheses on crc of the central theorem are satisfiable: they hold for ex_sst and its
   copy with bit 2 of byte 45 (inside the second data block) flipped, with the toy checksum
   ex_crc — proved by a sweep over every frame position of the 224-byte file *)
Example C09_example_crc_hypotheses :
  flip 45 2 ex_sst <> ex_sst /\ len (flip 45 2 ex_sst) = len ex_sst /\
  agree_on (tail_start ex_sst) (len ex_sst) ex_sst (flip 45 2 ex_sst) /\
  crc_detects_payload ex_crc ex_sst (flip 45 2 ex_sst) /\
  crc_detects_envelope ex_crc ex_sst (flip 45 2 ex_sst).
Proof.
  split; [vm_compute; discriminate|]. split; [reflexivity|].
  split; [apply agree_on_sym; apply flip_agree; left; vm_compute; reflexivity|].
  exact (crc_detects_split ex_crc ex_sst _ ex_crc_detects).
Qed.

Definition ex_walk (f : list N) : sres (list entry * wend) :=
  t <-- sst_open ex_crc f ;; SOk (sst_walk ex_crc t).

Example C09_example_sst :
  bytes_ok ex_sst /\ len ex_sst = 224 /\ tail_start ex_sst = 148 /\
  ex_walk ex_sst = SOk ([([97], 5, Some [120]); ([97; 98], 4, None); ([99], 3, Some [122; 122])], WEnd) /\
  (t <-- sst_open ex_crc ex_sst ;; sst_load ex_crc (fun _ => 0) ex_pp t [99] 9) = SOk (Some [122; 122], false) /\
  (* a flipped bit in the second data block *)
  ex_walk (flip 45 2 ex_sst) = SOk ([([97], 5, Some [120]); ([97; 98], 4, None)], WErr SCrc) /\
  (t <-- sst_open ex_crc (flip 45 2 ex_sst) ;; sst_load ex_crc (fun _ => 0) ex_pp t [99] 9) = SErr SCrc /\
  (t <-- sst_open ex_crc (flip 45 2 ex_sst) ;; sst_load ex_crc (fun _ => 0) ex_pp t [97] 9) = SOk (Some [120], false) /\
  (* a flipped bit in the index block: the file does not open *)
  sst_open ex_crc (flip 70 0 ex_sst) = SErr SCrc /\
  (* the unchecksummed tail: a flipped bit in the setsum is accepted and changes only the metadata *)
  ex_walk (flip 180 3 ex_sst) = ex_walk ex_sst /\
  (t <-- sst_open ex_crc (flip 180 3 ex_sst) ;; SOk (fb_setsum (t_final t))) <>
  (t <-- sst_open ex_crc ex_sst ;; SOk (fb_setsum (t_final t))) /\
  (* ... a flipped bit in the stored checksum of the index block, or in the trailing offset, is an error *)
  sst_open ex_crc (flip 158 0 ex_sst) = SErr SCrc /\
  sst_open ex_crc (flip 216 1 ex_sst) = SErr SUnpackFinal /\
  (* truncation and extension *)
  sst_open ex_crc (truncate 100 ex_sst) = SErr SFinalOffsetTooLarge /\
  sst_open ex_crc (extend [0] ex_sst) = SErr SUnpackFinal.
Proof.
  split; [apply Wire.ProofsScalar.bytes_okb_iff; vm_compute; reflexivity|].
  vm_compute. repeat split; try reflexivity; discriminate.
Qed.
