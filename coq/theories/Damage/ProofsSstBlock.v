(* Damage/ProofsSstBlock.v — the block reader on arbitrary bytes: Block::new establishes the
   footer invariant, every cursor step keeps offsets inside the block, no step panics, and the
   fuelled loops of the model never run out. *)
From Coq Require Import NArith ZArith List Bool Lia ZifyN ZifyNat ZifyBool.
From Blue Require Import Gen.Const_Wire Wire.Model Wire.ModelMsg Wire.ProofsVarint Wire.ProofsScalar
  Wire.ProofsPk Wire.ProofsMsg Wire.ProofsTotal Wire.Props_C15.
From Blue Require Import Damage.ModelOps Damage.ModelSst Damage.ProofsOps.
Import ListNotations.
Open Scope N_scope.
Arguments N.add : simpl never. Arguments N.sub : simpl never. Arguments N.mul : simpl never.
Arguments N.div : simpl never. Arguments N.modulo : simpl never. Arguments N.leb : simpl never.
Arguments N.ltb : simpl never. Arguments N.eqb : simpl never. Arguments N.pow : simpl never.

(* ---------------------------------------------------------------- results that are fine *)
(* a value or an error: not a panic, not an over-sized allocation, not out of fuel *)
Definition fine {A} (r : sres A) : Prop :=
  match r with SOk _ | SErr _ => True | _ => False end.

Lemma fine_ok : forall {A} (a : A), fine (SOk a).
Proof. intros. exact I. Qed.
Lemma fine_err : forall {A} e, fine (@SErr A e).
Proof. intros. exact I. Qed.

Lemma fine_bind : forall {A B} (r : sres A) (k : A -> sres B),
  fine r -> (forall a, r = SOk a -> fine (k a)) -> fine (sbind r k).
Proof. intros A B [a|e| | |] k Hr Hk; cbn [sbind fine] in *; auto. Qed.

(* decoding with the generic prototk decoder never panics and hands back a suffix *)
Lemma of_wire_unpack : forall m buf e, bytes_ok buf ->
  (exists v rest pre, of_wire (msg_unpack m buf) e = SOk (v, rest) /\ msg_unpack m buf = Ok (v, rest) /\ buf = pre ++ rest) \/
  of_wire (msg_unpack m buf) e = SErr e.
Proof.
  intros m buf e Hb. destruct (C15_unpack_total m buf Hb) as [(v & r & pre & H & Hp)|[x H]]; rewrite H; cbn [of_wire].
  - left. exists v, r, pre. auto.
  - right. reflexivity.
Qed.

(* an enum consumes at least its tag *)
Lemma enum_unpack_consumes : forall vs buf v rest, bytes_ok buf ->
  msg_unpack (MEnum vs) buf = Ok (v, rest) -> exists pre, buf = pre ++ rest /\ 1 <= len pre.
Proof.
  intros vs buf v rest Hb H. cbn [msg_unpack] in H.
  destruct (tag_unpack_total buf Hb) as [(f & w & pre & r & Heq & Hbuf & Hlen & _)|[e Heq]].
  - unfold unpack_from in H. rewrite Heq in H. cbn [bind] in H.
    unfold sub64 in H. subst buf. rewrite len_app in H.
    destruct (N.leb_spec (len r) (len pre + len r)); [|lia]. cbn [bind] in H.
    replace (len pre + len r - len r) with (len pre) in H by lia. rewrite advance_app in H by reflexivity.
    destruct total_all as (_ & _ & _ & Hv).
    assert (Hr : bytes_ok r) by (apply bytes_ok_app in Hb; tauto).
    destruct (Hv vs O f w r Hr) as [a r' [pre2 Hp2]|e]; [|discriminate].
    inversion H; subst. exists (pre ++ pre2). split; [now rewrite app_assoc|]. rewrite len_app. lia.
  - unfold unpack_from in H. rewrite Heq in H. discriminate.
Qed.

Lemma le_unpack_ok : forall k buf, N.of_nat k <= len buf ->
  le_unpack k buf = Ok (of_le_bytes (firstn k buf), skipn k buf).
Proof.
  intros k buf H. unfold le_unpack. destruct (N.leb_spec (N.of_nat k) (len buf)); [|lia].
  unfold slice_to, slice_from. destruct (N.leb_spec (N.of_nat k) (len buf)); [|lia]. cbn [bind].
  rewrite Nat2N.id. reflexivity.
Qed.

(* ---------------------------------------------------------------- Block::new *)
Definition block_wf (b : block) : Prop :=
  bytes_ok (b_bytes b) /\ b_ridx b + 4 * b_nrest b + 5 = len (b_bytes b) /\ b_boundary b <= b_ridx b.

Lemma block_new_spec : forall bs, bytes_ok bs ->
  (exists b, block_new bs = SOk b /\ block_wf b /\ b_bytes b = bs) \/ (exists e, block_new bs = SErr e).
Proof.
  intros bs Hb. unfold block_new.
  destruct (N.ltb_spec (len bs) 4) as [H4|H4]; [right; eexists; reflexivity|].
  rewrite le_unpack_ok.
  2:{ unfold len in *. rewrite skipn_length. lia. }
  cbn [of_wire sbind fst].
  set (nr := of_le_bytes (firstn 4 (skipn (N.to_nat (len bs - 4)) bs))).
  destruct (N.ltb_spec (len bs) (1 + v64_pack_sz (nr * 4) + nr * 4 + 5)) as [Hf|Hf]; [right; eexists; reflexivity|].
  left. eexists. split; [reflexivity|]. split; [|reflexivity].
  unfold block_wf. cbn [b_bytes b_ridx b_nrest b_boundary]. split; [exact Hb|]. split; lia.
Qed.

Lemma block_wf_boundary_le : forall b, block_wf b -> b_boundary b <= len (b_bytes b).
Proof. intros b (_ & H1 & H2). lia. Qed.

Lemma restart_point_ok : forall b i, block_wf b -> i < b_nrest b -> exists x, restart_point b i = SOk x.
Proof.
  intros b i (Hb & H1 & H2) Hi. unfold restart_point.
  destruct (N.leb_spec (b_nrest b) i); [lia|].
  rewrite le_unpack_ok; [eexists; reflexivity|].
  unfold len in *. rewrite skipn_length. lia.
Qed.

Lemma restart_point_fine : forall b i, block_wf b -> i < b_nrest b -> fine (restart_point b i).
Proof. intros b i Hw Hi. destruct (restart_point_ok b i Hw Hi) as [x ->]. exact I. Qed.

(* ---------------------------------------------------------------- positions *)
Definition pos_wf (b : block) (p : pos) : Prop :=
  match p with
  | PAt ri off noff _ _ _ => ri < b_nrest b /\ off < noff /\ noff <= b_boundary b
  | _ => True
  end.

Lemma extract_key_spec : forall b ri off key, block_wf b ->
  (extract_key b ri off key = SOk PLast /\ b_boundary b <= off) \/
  (exists noff k t v, extract_key b ri off key = SOk (PAt ri off noff k t v) /\ off < noff <= b_boundary b) \/
  (exists e, extract_key b ri off key = SErr e).
Proof.
  intros b ri off key Hw. pose proof (block_wf_boundary_le b Hw) as Hbl. destruct Hw as (Hb & H1 & H2).
  unfold extract_key. destruct (N.leb_spec (b_boundary b) off) as [Ho|Ho]; [left; split; [reflexivity|exact Ho]|].
  destruct (N.ltb_spec (len (b_bytes b)) (b_boundary b)) as [Hx|Hx]; [lia|]. right.
  set (buf := slice (b_bytes b) off (b_boundary b - off)).
  assert (Hbuf : bytes_ok buf) by (apply slice_bytes_ok; exact Hb).
  assert (Hlen : len buf = b_boundary b - off) by (apply slice_length; lia).
  destruct (of_wire_unpack KVE buf SUnpackKvp Hbuf) as [(v & rest & pre & Ho1 & Ho2 & Hp)|He].
  - rewrite Ho1. cbn [sbind fst snd].
    destruct (enum_unpack_consumes _ _ _ _ Hbuf Ho2) as (pre2 & Hp2 & Hl2).
    destruct (kve_of_val v) as [e|]; [|right; eexists; reflexivity].
    left. do 4 eexists. split; [reflexivity|].
    rewrite Hp2, len_app in Hlen. lia.
  - rewrite He. right. eexists. reflexivity.
Qed.

Lemma extract_key_fine : forall b ri off key, block_wf b -> fine (extract_key b ri off key).
Proof.
  intros b ri off key Hw. destruct (extract_key_spec b ri off key Hw) as [[-> _]|[(n & k & t & v & -> & _)|[e ->]]]; exact I.
Qed.

Lemma seek_restart_spec : forall b p ri, block_wf b ->
  (exists off noff k t v, seek_restart b p ri = SOk (PAt ri off noff k t v) /\ ri < b_nrest b /\ off < noff <= b_boundary b) \/
  (exists e, seek_restart b p ri = SErr e).
Proof.
  intros b p ri Hw. unfold seek_restart.
  destruct (N.leb_spec (b_nrest b) ri) as [Hr|Hr]; [right; eexists; reflexivity|].
  destruct (restart_point_ok b ri Hw Hr) as [off ->]. cbn [sbind].
  destruct (N.leb_spec (b_boundary b) off) as [Ho|Ho]; [right; eexists; reflexivity|].
  destruct (extract_key_spec b ri off [] Hw) as [[_ Hc]|[(n & k & t & v & -> & Hn)|[e ->]]]; [lia| |right; eexists; reflexivity].
  left. exists off, n, k, t, v. auto.
Qed.

Lemma seek_restart_fine : forall b p ri, block_wf b -> fine (seek_restart b p ri).
Proof.
  intros b p ri Hw. destruct (seek_restart_spec b p ri Hw) as [(o & n & k & t & v & -> & _)|[e ->]]; exact I.
Qed.

(* what one call of next() does to the position *)
Inductive next_rel (b : block) : pos -> pos -> Prop :=
| NrFirstLast : next_rel b PFirst PLast
| NrFirstAt : forall off noff k t v, 0 < b_nrest b -> off < noff <= b_boundary b -> next_rel b PFirst (PAt 0 off noff k t v)
| NrLast : next_rel b PLast PLast
| NrAtLast : forall ri off noff k t v, next_rel b (PAt ri off noff k t v) PLast
| NrJump : forall ri off noff k t v off' noff' k' t' v',
    ri + 1 < b_nrest b -> off' < noff' <= b_boundary b ->
    next_rel b (PAt ri off noff k t v) (PAt (ri + 1) off' noff' k' t' v')
| NrStep : forall ri off noff k t v noff' k' t' v',
    noff < noff' <= b_boundary b ->
    next_rel b (PAt ri off noff k t v) (PAt ri noff noff' k' t' v').

Lemma bc_next_spec : forall b p, block_wf b -> pos_wf b p ->
  (exists p', bc_next b p = SOk p' /\ next_rel b p p') \/ (exists e, bc_next b p = SErr e).
Proof.
  intros b p Hw Hp. destruct p as [| |ri off noff key ts val]; cbn [bc_next].
  - destruct (N.eqb_spec (b_boundary b) 0); [left; eexists; split; [reflexivity|constructor]|].
    destruct (seek_restart_spec b PFirst 0 Hw) as [(o & n' & k & t & v & -> & H1 & H2)|[e ->]]; [left|right; eexists; reflexivity].
    eexists. split; [reflexivity|]. constructor; assumption.
  - left. eexists. split; [reflexivity|constructor].
  - cbn [pos_wf] in Hp. destruct Hp as (Hri & Ho & Hn).
    destruct (N.leb_spec (b_boundary b) noff); [left; eexists; split; [reflexivity|constructor]|].
    destruct (N.ltb_spec (ri + 1) (b_nrest b)) as [Hj|Hj].
    + destruct (restart_point_ok b (ri + 1) Hw Hj) as [rp ->]. cbn [sbind].
      destruct (N.leb_spec rp noff).
      * destruct (seek_restart_spec b (PAt ri off noff key ts val) (ri + 1) Hw) as [(o & n' & k & t & v & -> & H1 & H2)|[e ->]];
          [left|right; eexists; reflexivity].
        eexists. split; [reflexivity|]. apply NrJump; assumption.
      * destruct (extract_key_spec b ri noff key Hw) as [[_ Hc]|[(n' & k & t & v & -> & Hn')|[e ->]]]; [lia| |right; eexists; reflexivity].
        left. eexists. split; [reflexivity|]. apply NrStep. exact Hn'.
    + cbn [sbind].
      destruct (extract_key_spec b ri noff key Hw) as [[_ Hc]|[(n' & k & t & v & -> & Hn')|[e ->]]]; [lia| |right; eexists; reflexivity].
      left. eexists. split; [reflexivity|]. apply NrStep. exact Hn'.
Qed.

Lemma next_rel_wf : forall b p p', pos_wf b p -> next_rel b p p' -> pos_wf b p'.
Proof.
  intros b p p' Hp H. destruct H; cbn [pos_wf] in *; auto; try lia.
Qed.

Lemma bc_next_fine : forall b p, block_wf b -> pos_wf b p -> fine (bc_next b p).
Proof. intros b p Hw Hp. destruct (bc_next_spec b p Hw Hp) as [(p' & -> & _)|[e ->]]; exact I. Qed.

(* ---------------------------------------------------------------- the fuelled loop *)
(* steps still possible inside the current restart interval / changes of interval still possible *)
Definition steps_left (b : block) (p : pos) : nat :=
  match p with
  | PAt _ off _ _ _ _ => S (N.to_nat (b_boundary b - off))
  | _ => 1
  end.
Definition jumps_left (b : block) (p : pos) : nat :=
  match p with
  | PFirst => S (N.to_nat (b_nrest b))
  | PAt ri _ _ _ _ _ => N.to_nat (b_nrest b - ri)
  | PLast => 0
  end.

Definition fine2 {A} (r : list entry * sres A) : Prop := fine (snd r).

Lemma inner_loop_fine : forall b stop k, block_wf b -> stop PLast = true ->
  forall fi p acc,
  pos_wf b p -> (steps_left b p <= fi)%nat ->
  (forall p1 acc1, pos_wf b p1 -> (jumps_left b p1 < jumps_left b p)%nat -> fine2 (k p1 acc1)) ->
  fine2 (inner_loop k fi b stop p acc).
Proof.
  intros b stop k Hw Hstop. induction fi as [|fi IH]; intros p acc Hp Hfi Hk.
  - destruct p; cbn [steps_left] in Hfi; lia.
  - cbn [inner_loop]. destruct (stop p) eqn:Es; [exact I|].
    destruct (bc_next_spec b p Hw Hp) as [(p' & E & Hrel)|[e E]]; rewrite E; [|exact I].
    pose proof (next_rel_wf _ _ _ Hp Hrel) as Hp'.
    destruct Hrel; cbn [is_jump pos_entry].
    + (* First -> Last: a "jump" *) apply Hk; [exact Hp'|cbn [jumps_left]; lia].
    + apply Hk; [exact Hp'|cbn [jumps_left]; lia].
    + rewrite Hstop in Es. discriminate.
    + (* At -> Last *) apply (IH PLast _); [exact I|cbn [steps_left]; cbn [steps_left] in Hfi; cbn [pos_wf] in Hp; lia|].
      intros p1 acc1 Hp1 Hj. cbn [jumps_left] in Hj. lia.
    + destruct (N.ltb_spec ri (ri + 1)); [|lia]. apply Hk; [exact Hp'|cbn [jumps_left]; lia].
    + destruct (N.ltb_spec ri ri); [lia|]. apply (IH _ _); [exact Hp'| |].
      * cbn [steps_left] in *. cbn [pos_wf] in Hp. lia.
      * intros p1 acc1 Hp1 Hj. apply Hk; [exact Hp1|]. cbn [jumps_left] in *. exact Hj.
Qed.

Lemma iter_next_fine : forall b stop, block_wf b -> stop PLast = true ->
  forall fo p acc, pos_wf b p -> (jumps_left b p < fo)%nat ->
  fine2 (iter_next fo (block_fi b) b stop p acc).
Proof.
  intros b stop Hw Hstop. induction fo as [|fo IH]; intros p acc Hp Hfo; [lia|].
  cbn [iter_next]. apply (inner_loop_fine b stop _ Hw Hstop _ _ _ Hp).
  - pose proof (block_wf_boundary_le b Hw) as Hbl. unfold block_fi. unfold len in Hbl.
    destruct p; cbn [steps_left]; lia.
  - intros p1 acc1 Hp1 Hj. apply IH; [exact Hp1|lia].
Qed.

Lemma jumps_left_bound : forall b p, (jumps_left b p < block_fo b)%nat.
Proof. intros b p. unfold block_fo. destruct p; cbn [jumps_left]; lia. Qed.

Lemma iter_block_fine : forall b stop p, block_wf b -> stop PLast = true -> pos_wf b p ->
  fine (snd (iter_next (block_fo b) (block_fi b) b stop p [])).
Proof. intros b stop p Hw Hs Hp. apply (iter_next_fine b stop Hw Hs). exact Hp. apply jumps_left_bound. Qed.

(* the position a loop stops at is a position of the block, and the stop test holds there *)
Lemma inner_loop_result : forall b stop k, block_wf b ->
  (forall p1 acc1 acc' q, pos_wf b p1 -> k p1 acc1 = (acc', SOk q) -> pos_wf b q /\ stop q = true) ->
  forall fi p acc acc' q, pos_wf b p -> inner_loop k fi b stop p acc = (acc', SOk q) -> pos_wf b q /\ stop q = true.
Proof.
  intros b stop k Hw Hk. induction fi as [|fi IH]; intros p acc acc' q Hp H; [cbn in H; discriminate|].
  cbn [inner_loop] in H. destruct (stop p) eqn:Es; [inversion H; subst; auto|].
  destruct (bc_next_spec b p Hw Hp) as [(p' & E & Hrel)|[e E]]; rewrite E in H; [|discriminate].
  pose proof (next_rel_wf _ _ _ Hp Hrel) as Hp'.
  destruct (is_jump p p'); [eapply Hk; eassumption|eapply IH; eassumption].
Qed.

Lemma iter_next_result : forall b stop, block_wf b ->
  forall fo fi p acc acc' q, pos_wf b p -> iter_next fo fi b stop p acc = (acc', SOk q) -> pos_wf b q /\ stop q = true.
Proof.
  intros b stop Hw. induction fo as [|fo IH]; intros fi p acc acc' q Hp H; [cbn in H; discriminate|].
  cbn [iter_next] in H. eapply (inner_loop_result b stop _ Hw); [|exact Hp|exact H].
  intros p1 acc1 acc2 q2 Hp1 H2. eapply IH; eassumption.
Qed.

(* ---------------------------------------------------------------- seek *)
Lemma bsearch_fine : forall b key, block_wf b ->
  forall fuel p lo hi, hi < b_nrest b -> (N.to_nat (hi - lo) < fuel)%nat ->
  fine (bsearch fuel b p key lo hi) /\
  (forall p' lo' hi', bsearch fuel b p key lo hi = SOk (p', lo', hi') -> pos_wf b p -> pos_wf b p').
Proof.
  intros b key Hw. induction fuel as [|fuel IH]; intros p lo hi Hhi Hf; [lia|].
  cbn [bsearch]. destruct (N.ltb_spec lo hi) as [Hlt|Hge].
  2:{ split; [exact I|]. intros p' lo' hi' H Hp. inversion H; subst. exact Hp. }
  set (mid := lo + (hi - lo + 1) / 2).
  assert (Hmid : lo < mid <= hi).
  { unfold mid. pose proof (N.div_mod (hi - lo + 1) 2 ltac:(lia)).
    pose proof (N.mod_lt (hi - lo + 1) 2 ltac:(lia)). lia. }
  destruct (seek_restart_spec b p mid Hw) as [(o & n & k & t & v & -> & H1 & H2)|[e ->]]; cbn [sbind]; [|split; [exact I|discriminate]].
  destruct (lex_cmp key k).
  - destruct (IH (PAt mid o n k t v) lo (mid - 1) ltac:(lia) ltac:(lia)) as [Hf1 Hf2]. split; [exact Hf1|].
    intros p' lo' hi' H _. eapply Hf2; [exact H|]. cbn [pos_wf]. lia.
  - destruct (IH (PAt mid o n k t v) lo (mid - 1) ltac:(lia) ltac:(lia)) as [Hf1 Hf2]. split; [exact Hf1|].
    intros p' lo' hi' H _. eapply Hf2; [exact H|]. cbn [pos_wf]. lia.
  - destruct (IH (PAt mid o n k t v) mid hi ltac:(lia) ltac:(lia)) as [Hf1 Hf2]. split; [exact Hf1|].
    intros p' lo' hi' H _. eapply Hf2; [exact H|]. cbn [pos_wf]. lia.
Qed.

Lemma key_gt_stop_last : forall key, (fun q => negb (key_gt key q)) PLast = true.
Proof. reflexivity. Qed.

Lemma bc_seek_fine : forall b p key, block_wf b -> pos_wf b p -> fine (bc_seek b p key).
Proof.
  intros b p key Hw Hp. unfold bc_seek.
  destruct (N.eqb_spec (b_nrest b) 0) as [E0|E0]; [exact I|].
  destruct (N.eqb_spec (b_boundary b) 0); [exact I|].
  destruct (bsearch_fine b key Hw (S (N.to_nat (b_nrest b))) p 0 (b_nrest b - 1) ltac:(lia) ltac:(lia)) as [Hf Hwf].
  apply fine_bind; [exact Hf|]. intros [[p1 lo] hi] E.
  destruct (negb (lo =? hi)); [exact I|].
  destruct (seek_restart_spec b p1 lo Hw) as [(o & n' & k & t & v & -> & H1 & H2)|[e ->]]; cbn [sbind]; [|exact I].
  cbn [is_at]. unfold iter_block. apply iter_block_fine; [exact Hw|reflexivity|cbn [pos_wf]; lia].
Qed.

Lemma bc_seek_wf : forall b p key q, block_wf b -> pos_wf b p -> bc_seek b p key = SOk q -> pos_wf b q.
Proof.
  intros b p key q Hw Hp H. unfold bc_seek in H.
  destruct (N.eqb_spec (b_nrest b) 0) as [E0|E0]; [discriminate|].
  destruct (N.eqb_spec (b_boundary b) 0); [inversion H; exact I|].
  destruct (bsearch (S (N.to_nat (b_nrest b))) b p key 0 (b_nrest b - 1)) as [[[p1 lo] hi]|e| | |] eqn:Eb; cbn [sbind] in H; try discriminate.
  destruct (negb (lo =? hi)); [discriminate|].
  destruct (seek_restart_spec b p1 lo Hw) as [(o & n' & k & t & v & E & H1 & H2)|[e E]]; rewrite E in H; cbn [sbind] in H; [|discriminate].
  cbn [is_at] in H. unfold iter_block in H.
  destruct (iter_next (block_fo b) (block_fi b) b (fun q0 => negb (key_gt key q0)) (PAt lo o n' k t v) []) as [acc r] eqn:Ei.
  cbn [snd] in H. subst r. eapply (iter_next_result b _ Hw); [|exact Ei]. cbn [pos_wf]. lia.
Qed.

(* ---------------------------------------------------------------- prev *)
Lemma cache_loop_spec : forall b ri, block_wf b -> ri < b_nrest b ->
  forall fuel off limit key acc, Forall (pos_wf b) acc ->
  (N.to_nat (b_boundary b - off) < fuel)%nat ->
  match cache_loop fuel b ri off limit key acc with
  | SOk ps => Forall (pos_wf b) ps
  | SErr _ => True
  | _ => False
  end.
Proof.
  intros b ri Hw Hri. induction fuel as [|fuel IH]; intros off limit key acc Ha Hf; [lia|].
  cbn [cache_loop]. destruct (off <? limit); [|exact Ha].
  destruct (extract_key_spec b ri off key Hw) as [[-> _]|[(n & k & t & v & -> & Hn)|[e ->]]]; cbn [sbind]; [exact Ha| |exact I].
  apply IH; [|lia]. apply Forall_app. split; [exact Ha|]. constructor; [cbn [pos_wf]; lia|constructor].
Qed.

Lemma cache_restart_spec : forall b ri, block_wf b -> ri < b_nrest b ->
  match cache_restart b ri with
  | SOk ps => Forall (pos_wf b) ps
  | SErr _ => True
  | _ => False
  end.
Proof.
  intros b ri Hw Hri. unfold cache_restart.
  destruct (restart_point_ok b ri Hw Hri) as [off ->]. cbn [sbind].
  assert (Hl : exists limit, (if ri + 1 <? b_nrest b then restart_point b (ri + 1) else SOk (b_boundary b)) = SOk limit).
  { destruct (N.ltb_spec (ri + 1) (b_nrest b)) as [H|H]; [apply restart_point_ok; assumption|eexists; reflexivity]. }
  destruct Hl as [limit ->]. cbn [sbind].
  apply cache_loop_spec; [exact Hw|exact Hri|constructor|].
  pose proof (block_wf_boundary_le b Hw) as Hbl. unfold block_fi. unfold len in Hbl. lia.
Qed.

Lemma bc_prev_spec : forall b p, block_wf b -> pos_wf b p ->
  fine (bc_prev b p) /\ (forall q, bc_prev b p = SOk q -> pos_wf b q).
Proof.
  intros b p Hw Hp.
  assert (Main : forall target cur, target <= b_boundary b -> cur <= b_nrest b ->
    let r := (if target =? 0 then SOk PFirst
              else
                back <-- (if b_nrest b <=? cur then SOk true
                          else rp <-- restart_point b cur ;; SOk (target <=? rp)) ;;
                ri <-- (if back then (if cur =? 0 then SErr SLogicNegRestart else SOk (cur - 1)) else SOk cur) ;;
                ps <-- cache_restart b ri ;;
                match find (pos_noff_is target) (rev ps) with
                | Some q => SOk q
                | None => p1 <-- seek_restart b p ri ;;
                          snd (iter_block b (fun q => target <=? next_offset_of b q) p1)
                end) in
    fine r /\ (forall q, r = SOk q -> pos_wf b q)).
  { intros target cur Ht Hc. cbv zeta.
    destruct (N.eqb_spec target 0); [split; [exact I|intros q H; inversion H; exact I]|].
    assert (Hback : exists back, (if b_nrest b <=? cur then SOk true
                                  else rp <-- restart_point b cur ;; SOk (target <=? rp)) = SOk back /\
                                 (back = false -> cur < b_nrest b)).
    { destruct (N.leb_spec (b_nrest b) cur) as [H|H]; [exists true; split; [reflexivity|discriminate]|].
      destruct (restart_point_ok b cur Hw H) as [rp ->]. cbn [sbind]. eexists. split; [reflexivity|intros _; exact H]. }
    destruct Hback as (back & -> & Hb). cbn [sbind].
    assert (Hri : (exists e, (if back then (if cur =? 0 then SErr SLogicNegRestart else SOk (cur - 1)) else SOk cur) = SErr e) \/
                  (exists ri, (if back then (if cur =? 0 then SErr SLogicNegRestart else SOk (cur - 1)) else SOk cur) = SOk ri /\ ri < b_nrest b)).
    { destruct back.
      - destruct (N.eqb_spec cur 0); [left; eexists; reflexivity|right; eexists; split; [reflexivity|lia]].
      - right. eexists. split; [reflexivity|]. apply Hb. reflexivity. }
    destruct Hri as [[e ->]|(ri & -> & Hri)]; cbn [sbind]; [split; [exact I|discriminate]|].
    pose proof (cache_restart_spec b ri Hw Hri) as Hc2.
    destruct (cache_restart b ri) as [ps|e| | |]; try contradiction; cbn [sbind]; [|split; [exact I|discriminate]].
    destruct (find (pos_noff_is target) (rev ps)) as [q|] eqn:Ef.
    - split; [exact I|]. intros q' H. inversion H; subst q'.
      apply find_some in Ef. destruct Ef as [Hin _]. apply in_rev in Hin.
      rewrite Forall_forall in Hc2. apply Hc2. exact Hin.
    - destruct (seek_restart_spec b p ri Hw) as [(o & n' & k & t & v & -> & H1 & H2)|[e ->]]; cbn [sbind]; [|split; [exact I|discriminate]].
      assert (Hstop : (fun q => target <=? next_offset_of b q) PLast = true).
      { cbn [next_offset_of]. apply N.leb_le. exact Ht. }
      assert (Hp1 : pos_wf b (PAt ri o n' k t v)) by (cbn [pos_wf]; lia).
      split.
      + unfold iter_block. apply iter_block_fine; assumption.
      + intros q H. unfold iter_block in H.
        destruct (iter_next (block_fo b) (block_fi b) b (fun q0 => target <=? next_offset_of b q0) (PAt ri o n' k t v) []) as [acc r] eqn:Ei.
        cbn [snd] in H. subst r. apply (proj1 (iter_next_result b _ Hw _ _ _ _ _ _ Hp1 Ei)). }
  destruct p as [| |ri off noff key ts val]; cbn [bc_prev].
  - split; [exact I|intros q H; inversion H; exact I].
  - apply (Main (b_boundary b) (b_nrest b)); [apply N.le_refl|apply N.le_refl].
  - cbn [pos_wf] in Hp. apply (Main off ri); lia.
Qed.

Lemma bc_prev_fine : forall b p, block_wf b -> pos_wf b p -> fine (bc_prev b p).
Proof. intros b p Hw Hp. exact (proj1 (bc_prev_spec b p Hw Hp)). Qed.

(* the backward walk of a block never panics; the only bad outcome left open is the model's fuel,
   which is reached only if prev() makes no progress (not excluded for forged blocks) *)
Definition no_panic {A} (r : sres A) : Prop := match r with SPanic | SHuge => False | _ => True end.

Lemma back_loop_no_panic : forall b, block_wf b -> forall fuel p acc, pos_wf b p ->
  no_panic (snd (back_loop fuel b p acc)).
Proof.
  intros b Hw. induction fuel as [|fuel IH]; intros p acc Hp; [exact I|].
  cbn [back_loop]. destruct (bc_prev_spec b p Hw Hp) as [Hf Hq].
  destruct (bc_prev b p) as [q|e| | |]; cbn [fine] in Hf; try contradiction; [|exact I].
  destruct (pos_entry q); [apply IH; apply Hq; reflexivity|exact I].
Qed.
