(* Damage/ModelSst.v — the SST readers of sst/src/lib.rs and sst/src/block.rs on ARBITRARY bytes:
   Sst::from_file_handle (trailing offset, final block, sanity checks, index block, index
   entries, filter block), Sst::load_block / load_filter_block with the CRC check, Block::new with
   its footer arithmetic, BlockCursor (seek_restart, extract_key, next, seek), SstCursor::seek and
   the block-crossing of SstCursor::next, Sst::load, the first-key half of Sst::metadata, and the
   full forward walk.  Definitions only.

   Byte layer.  A file is `list N`; every structure is decoded with the generic prototk decoder of
   area Wire (Wire.ModelMsg.msg_unpack) at the message shapes below, which are retyped from the
   #[prototk(..)] attributes of the Rust structs (the check compares the numbers with the source
   text on every run).  This is the model of the code AFTER two repairs made for C09:
     [fix f47c368]  Block::new checks that the footer fits (was: usize underflow / panic);
     [fix 1da1fc5]  from_file_handle rejects an index entry whose block runs past the index block
                    (was: `vec![0u8; limit - start]` with an arbitrary u64 difference).
   External code: crc32c is the Section variable `crc` (u32 result = mod 2^32); SipHash-2-4 is
   `sip`; `pp` is slice::partition_point on the index keys (std's binary search: the model assumes
   only that it returns an index within the slice; the driver instantiates it with the count of
   leading smaller keys, which is what it returns on sorted keys).
   Explicit bad outcomes: SPanic (the Rust would panic: index / slice out of range, failed
   assert), SHuge (an allocation larger than the whole file), SFuel (a fuelled loop of the model
   ran out; theorems exclude all three on every input). *)
From Coq Require Import NArith ZArith List Bool.
From Blue Require Import Gen.Const_Wire Wire.Model Wire.ModelMsg.
From Blue Require Table.ModelBloom.
From Blue Require Import Damage.ModelOps.
Import ListNotations.
Open Scope N_scope.

(* ---------------------------------------------------------------- results *)
(* error classes = the `code` of the SError the Rust returns *)
Inductive serr :=
| SFileTooSmall          (* corruption-file-too-small *)
| SUnpackFinalOffset     (* unpack-final-block-offset *)
| SFinalOffsetTooLarge   (* corruption-final-block-offset-too-large *)
| SUnpackFinal           (* unpack-final-block *)
| SMetaStartGteLimit     (* corruption-block-metadata-start-gte-limit *)
| SIndexPastFilter       (* corruption-index-block-runs-past-filter-block *)
| SFilterPastFinal       (* corruption-filter-block-runs-past-final-block *)
| SDataPastIndex         (* corruption-data-block-runs-past-index-block  [fix 1da1fc5] *)
| SSystem                (* system-error: read_exact_at hit the end of the file *)
| SUnpackTableEntry      (* unpack-table-entry *)
| SCrc                   (* crc32c-failure *)
| SFilterAsPlain         (* corruption-tried-loading-filter-block-as-plain *)
| SFinalAsPlain          (* corruption-tried-loading-final-block-as-plain *)
| SPlainAsFilter         (* corruption-tried-loading-plain-block-as-filter *)
| SFinalAsFilter         (* corruption-tried-loading-final-block-as-filter *)
| SBadFilter             (* corruption-bad-filter-block *)
| SBlockTooSmall         (* block-too-small *)
| SUnpackRestarts        (* unpack-block-restarts *)
| SMetaNull              (* corruption-meta-block-null-value *)
| SUnpackMeta            (* unpack-block-metadata *)
| SZeroRestarts          (* corruption-block-with-zero-restarts *)
| SNoKvp                 (* corruption-restart-point-no-key-value-pair *)
| SBinSearch             (* corruption-binary-search-left-ne-right *)
| SOffsetBoundary        (* corruption-offset-exceeds-restarts-boundary *)
| SUnpackKvp             (* unpack-key-value-pair *)
| SLogicRestartIdx       (* logic-error-restart-idx-exceeds-num-restarts *)
| SLogicNegRestart.      (* logic-error-tried-taking-negative-restart-idx *)

Inductive sres (A : Type) : Type :=
| SOk (a : A)
| SErr (e : serr)
| SPanic
| SHuge
| SFuel.
Arguments SOk {A} a.
Arguments SErr {A} e.
Arguments SPanic {A}.
Arguments SHuge {A}.
Arguments SFuel {A}.

Definition sbind {A B} (r : sres A) (f : A -> sres B) : sres B :=
  match r with SOk a => f a | SErr e => SErr e | SPanic => SPanic | SHuge => SHuge | SFuel => SFuel end.
Notation "x <-- r ;; k" := (sbind r (fun x => k)) (at level 61, r at next level, right associativity).

(* a prototk error becomes the sst error the call site maps it to *)
Definition of_wire {A} (r : res A) (e : serr) : sres A :=
  match r with Ok a => SOk a | Err _ => SErr e | Panic => SPanic | OutOfFuel => SFuel end.

(* ---------------------------------------------------------------- message shapes *)
(* struct BlockMetadata { 13 uint64 start, 14 uint64 limit, 15 fixed32 crc32c } *)
Definition BM : msg :=
  MStruct (FCons 13 CPlain (TSc UInt64) (FCons 14 CPlain (TSc UInt64) (FCons 15 CPlain (TSc Fixed32) FNil))).
(* struct FinalBlock { 16 message index_block, 17 message filter_block, 19 bytes32 setsum,
                       20 uint64 smallest_timestamp, 21 uint64 biggest_timestamp, 18 fixed64 final_block_offset } *)
Definition FB : msg :=
  MStruct (FCons 16 CPlain (TMsg BM) (FCons 17 CPlain (TMsg BM) (FCons 19 CPlain (TSc Bytes32)
          (FCons 20 CPlain (TSc UInt64) (FCons 21 CPlain (TSc UInt64) (FCons 18 CPlain (TSc Fixed64) FNil)))))).
(* struct KeyValuePut { 1 uint64 shared, 2 bytes key_frag, 3 uint64 timestamp, 4 bytes value } *)
Definition KVPUT : msg :=
  MStruct (FCons 1 CPlain (TSc UInt64) (FCons 2 CPlain (TSc Bytes) (FCons 3 CPlain (TSc UInt64)
          (FCons 4 CPlain (TSc Bytes) FNil)))).
(* struct KeyValueDel { 5 uint64 shared, 6 bytes key_frag, 7 uint64 timestamp } *)
Definition KVDEL : msg :=
  MStruct (FCons 5 CPlain (TSc UInt64) (FCons 6 CPlain (TSc Bytes) (FCons 7 CPlain (TSc UInt64) FNil))).
(* enum KeyValueEntry { 8 message Put(KeyValuePut), 9 message Del(KeyValueDel) } *)
Definition KVE : msg := MEnum (VOne 8 (TMsg KVPUT) (VOne 9 (TMsg KVDEL) VNil)).
(* enum SstEntry { 10 bytes PlainBlock, 13 bytes FilterBlock, 12 bytes FinalBlock }  (declaration order) *)
Definition SSTENTRY : msg := MEnum (VOne 10 (TSc Bytes) (VOne 13 (TSc Bytes) (VOne 12 (TSc Bytes) VNil))).

(* ---------------------------------------------------------------- decoded records *)
Definition zN (v : val) : N := match v with VZ z => Z.to_N z | _ => 0 end.
Definition vB (v : val) : list N := match v with VB b => b | _ => [] end.

Record bmeta := { bm_start : N; bm_limit : N; bm_crc : N }.
Definition bm_of_val (v : val) : bmeta :=
  match v with
  | VL [s; l; c] => {| bm_start := zN s; bm_limit := zN l; bm_crc := zN c |}
  | _ => {| bm_start := 0; bm_limit := 0; bm_crc := 0 |}
  end.

Record finalblk := {
  fb_index : bmeta; fb_filter : bmeta; fb_setsum : list N; fb_smallest : N; fb_biggest : N;
  fb_offset : N }.
Definition fb_of_val (v : val) : finalblk :=
  match v with
  | VL [i; f; s; a; b; o] =>
      {| fb_index := bm_of_val i; fb_filter := bm_of_val f; fb_setsum := vB s;
         fb_smallest := zN a; fb_biggest := zN b; fb_offset := zN o |}
  | _ => {| fb_index := bm_of_val (VL []); fb_filter := bm_of_val (VL []); fb_setsum := [];
            fb_smallest := 0; fb_biggest := 0; fb_offset := 0 |}
  end.

(* KeyValueEntry::{shared, key_frag, timestamp, value} *)
Record kve := { k_shared : N; k_frag : list N; k_ts : N; k_val : option (list N) }.
Definition kve_of_val (v : val) : option kve :=
  match v with
  | VV O (VL [s; k; t; x]) => Some {| k_shared := zN s; k_frag := vB k; k_ts := zN t; k_val := Some (vB x) |}
  | VV (S O) (VL [s; k; t]) => Some {| k_shared := zN s; k_frag := vB k; k_ts := zN t; k_val := None |}
  | _ => None
  end.

(* a key-value pair as a cursor shows it: value None = tombstone *)
Definition entry : Type := (list N * N * option (list N))%type.

(* <[u8] as Ord>::cmp and KeyRef::cmp (key ascending, then timestamp DESCENDING) *)
Fixpoint lex_cmp (a b : list N) : comparison :=
  match a, b with
  | [], [] => Eq
  | [], _ :: _ => Lt
  | _ :: _, [] => Gt
  | x :: a', y :: b' => match x ?= y with Eq => lex_cmp a' b' | c => c end
  end.
Definition kref_cmp (k1 : list N) (t1 : N) (k2 : list N) (t2 : N) : comparison :=
  match lex_cmp k1 k2 with Eq => CompOpp (t1 ?= t2) | c => c end.
Definition bytes_eqb (a b : list N) : bool := match lex_cmp a b with Eq => true | _ => false end.

(* ---------------------------------------------------------------- file access *)
(* `let mut buf = vec![0u8; n]; file.read_exact_at(&mut buf, pos)`.  The allocation comes first:
   a request for more bytes than the file holds is the explicit outcome SHuge. *)
Definition read_at (f : list N) (pos n : N) : sres (list N) :=
  if len f <? n then SHuge
  else if pos + n <=? len f then SOk (slice f pos n)
  else SErr SSystem.

(* ---------------------------------------------------------------- Block *)
Record block := { b_bytes : list N; b_boundary : N; b_ridx : N; b_nrest : N }.

(* Block::new *)
Definition block_new (bs : list N) : sres block :=
  if len bs <? 4 then SErr SBlockTooSmall
  else
    r <-- of_wire (le_unpack 4 (skipn (N.to_nat (len bs - 4)) bs)) SUnpackRestarts ;;
    let nr := fst r in
    let capstone := 5 in
    let footer_body := nr * 4 in
    let footer_head := 1 + v64_pack_sz footer_body in
    (* [fix f47c368] *)
    if len bs <? footer_head + footer_body + capstone then SErr SBlockTooSmall
    else
      let ridx := len bs - capstone - footer_body in
      SOk {| b_bytes := bs; b_boundary := ridx - footer_head; b_ridx := ridx; b_nrest := nr |}.

(* Block::restart_point: assert!(restart_idx < num_restarts); bytes[restarts_idx + idx * 4 + i] *)
Definition restart_point (b : block) (i : N) : sres N :=
  if b_nrest b <=? i then SPanic
  else match le_unpack 4 (skipn (N.to_nat (b_ridx b + i * 4)) (b_bytes b)) with
       | Ok (x, _) => SOk x
       | _ => SPanic
       end.

Inductive pos :=
| PFirst | PLast
| PAt (ri off noff : N) (key : list N) (ts : N) (val : option (list N)).

Definition pos_key (p : pos) : list N := match p with PAt _ _ _ k _ _ => k | _ => [] end.
Definition pos_entry (p : pos) : option entry :=
  match p with PAt _ _ _ k t v => Some (k, t, v) | _ => None end.

(* key.truncate(shared): shorter than `shared` = unchanged *)
Definition trunc_key (shared : N) (key : list N) : list N :=
  if len key <=? shared then key else firstn (N.to_nat shared) key.

(* BlockCursor::extract_key *)
Definition extract_key (b : block) (ri off : N) (key : list N) : sres pos :=
  if b_boundary b <=? off then SOk PLast
  else if len (b_bytes b) <? b_boundary b then SPanic          (* &bytes[offset..restarts_boundary] *)
  else
    r <-- of_wire (msg_unpack KVE (slice (b_bytes b) off (b_boundary b - off))) SUnpackKvp ;;
    match kve_of_val (fst r) with
    | None => SErr SUnpackKvp
    | Some e =>
        SOk (PAt ri off (b_boundary b - len (snd r)) (trunc_key (k_shared e) key ++ k_frag e) (k_ts e) (k_val e))
    end.

(* BlockCursor::seek_restart.  The key of the current position is cleared before it is handed to
   extract_key (`key.clear(); std::mem::swap(&mut ret, key)`: the buffer is reused, its contents
   are not), so the pair at a restart point is decoded against the empty key whatever its
   `shared` says. *)
Definition seek_restart (b : block) (p : pos) (ri : N) : sres pos :=
  if b_nrest b <=? ri then SErr SLogicRestartIdx
  else
    off <-- restart_point b ri ;;
    if b_boundary b <=? off then SErr SOffsetBoundary
    else extract_key b ri off [].

(* BlockCursor::next *)
Definition bc_next (b : block) (p : pos) : sres pos :=
  match p with
  | PFirst => if b_boundary b =? 0 then SOk PLast else seek_restart b p 0
  | PLast => SOk PLast
  | PAt ri off noff key ts val =>
      if b_boundary b <=? noff then SOk PLast
      else
        jump <-- (if ri + 1 <? b_nrest b
                  then rp <-- restart_point b (ri + 1) ;; SOk (rp <=? noff)
                  else SOk false) ;;
        if jump then seek_restart b p (ri + 1) else extract_key b ri noff key
  end.

(* a step of next() changed the restart interval (or left First) *)
Definition is_jump (p p1 : pos) : bool :=
  match p, p1 with
  | PFirst, _ => true
  | PAt ri _ _ _ _ _, PAt ri1 _ _ _ _ _ => ri <? ri1
  | _, _ => false
  end.

(* `while !stop(position) { next()? }`, remembering the pairs next() arrived at.  Two fuels: the
   outer one counts changes of the restart interval (at most num_restarts + 1), the inner one the
   steps inside one interval (each moves the offset forward). *)
Fixpoint inner_loop (k : pos -> list entry -> list entry * sres pos) (fi : nat) (b : block)
         (stop : pos -> bool) (p : pos) (acc : list entry) : list entry * sres pos :=
  match fi with
  | O => (acc, SFuel)
  | S fi' =>
      if stop p then (acc, SOk p)
      else match bc_next b p with
           | SOk p1 =>
               let acc1 := match pos_entry p1 with Some e => acc ++ [e] | None => acc end in
               if is_jump p p1 then k p1 acc1 else inner_loop k fi' b stop p1 acc1
           | SErr e => (acc, SErr e)
           | SPanic => (acc, SPanic)
           | SHuge => (acc, SHuge)
           | SFuel => (acc, SFuel)
           end
  end.

Fixpoint iter_next (fo : nat) (fi0 : nat) (b : block) (stop : pos -> bool) (p : pos) (acc : list entry)
  : list entry * sres pos :=
  match fo with
  | O => (acc, SFuel)
  | S fo' => inner_loop (iter_next fo' fi0 b stop) fi0 b stop p acc
  end.

Definition block_fo (b : block) : nat := S (S (N.to_nat (b_nrest b))).
Definition block_fi (b : block) : nat := S (length (b_bytes b)).
Definition iter_block (b : block) (stop : pos -> bool) (p : pos) : list entry * sres pos :=
  iter_next (block_fo b) (block_fi b) b stop p [].

Definition is_at (p : pos) : bool := match p with PAt _ _ _ _ _ _ => true | _ => false end.
Definition is_last (p : pos) : bool := match p with PLast => true | _ => false end.

(* the binary search of BlockCursor::seek over the restart points: (position, left, right) *)
Fixpoint bsearch (fuel : nat) (b : block) (p : pos) (key : list N) (lo hi : N) : sres (pos * N * N) :=
  match fuel with
  | O => SFuel
  | S f =>
      if lo <? hi then
        let mid := lo + (hi - lo + 1) / 2 in
        p1 <-- seek_restart b p mid ;;
        match p1 with
        | PAt _ _ _ k _ _ =>
            match lex_cmp key k with
            | Gt => bsearch f b p1 key mid hi
            | _ => bsearch f b p1 key lo (mid - 1)
            end
        | _ => SErr SNoKvp
        end
      else SOk (p, lo, hi)
  end.

Definition key_gt (key : list N) (p : pos) : bool :=
  match p with PAt _ _ _ k _ _ => match lex_cmp key k with Gt => true | _ => false end | _ => false end.

(* BlockCursor::seek *)
Definition bc_seek (b : block) (p : pos) (key : list N) : sres pos :=
  if b_nrest b =? 0 then SErr SZeroRestarts
  else if b_boundary b =? 0 then SOk PLast
  else
    r <-- bsearch (S (N.to_nat (b_nrest b))) b p key 0 (b_nrest b - 1) ;;
    let '(p1, lo, hi) := r in
    if negb (lo =? hi) then SErr SBinSearch
    else
      p2 <-- seek_restart b p1 lo ;;
      if is_at p2 then snd (iter_block b (fun q => negb (key_gt key q)) p2)
      else SErr SNoKvp.

(* ---------------------------------------------------------------- BlockCursor::prev *)
(* cache_restart: the positions of one restart interval, decoded front to back from its restart
   point up to the next restart point (or the restarts boundary).  The Rust keeps the list of the
   interval it computed last; the list is a function of (block, restart_idx), so recomputing it
   is the same. *)
Fixpoint cache_loop (fuel : nat) (b : block) (ri off limit : N) (key : list N) (acc : list pos)
  : sres (list pos) :=
  match fuel with
  | O => SFuel
  | S f =>
      if off <? limit then
        p <-- extract_key b ri off key ;;
        match p with
        | PAt _ _ noff k _ _ => cache_loop f b ri noff limit k (acc ++ [p])
        | _ => SOk acc
        end
      else SOk acc
  end.

Definition cache_restart (b : block) (ri : N) : sres (list pos) :=
  off <-- restart_point b ri ;;
  limit <-- (if ri + 1 <? b_nrest b then restart_point b (ri + 1) else SOk (b_boundary b)) ;;
  cache_loop (block_fi b) b ri off limit [] [].

Definition pos_noff_is (target : N) (p : pos) : bool :=
  match p with PAt _ _ noff _ _ _ => noff =? target | _ => false end.
Definition next_offset_of (b : block) (p : pos) : N :=
  match p with PFirst => 0 | PLast => b_boundary b | PAt _ _ noff _ _ _ => noff end.

Definition bc_prev (b : block) (p : pos) : sres pos :=
  match p with
  | PFirst => SOk PFirst
  | _ =>
      let target := match p with PAt _ off _ _ _ _ => off | _ => b_boundary b end in
      if target =? 0 then SOk PFirst
      else
        let cur := match p with PAt ri _ _ _ _ _ => ri | _ => b_nrest b end in
        back <-- (if b_nrest b <=? cur then SOk true
                  else rp <-- restart_point b cur ;; SOk (target <=? rp)) ;;
        ri <-- (if back then (if cur =? 0 then SErr SLogicNegRestart else SOk (cur - 1)) else SOk cur) ;;
        ps <-- cache_restart b ri ;;
        match find (pos_noff_is target) (rev ps) with
        | Some q => SOk q
        | None =>
            (* self.seek_restart(restart_idx)?; while self.next_offset() < target { self.next()?; } *)
            p1 <-- seek_restart b p ri ;;
            snd (iter_block b (fun q => target <=? next_offset_of b q) p1)
        end
  end.

(* `seek_to_last(); loop { prev()?; match key_value() { None => break, Some(kv) => push } }` on one
   block.  On a well-formed block every prev() moves to a smaller offset; the fuel (four calls per
   byte) is only reached by a forged block on which prev() makes no progress. *)
Fixpoint back_loop (fuel : nat) (b : block) (p : pos) (acc : list entry) : list entry * sres pos :=
  match fuel with
  | O => (acc, SFuel)
  | S f =>
      match bc_prev b p with
      | SOk q => match pos_entry q with
                 | Some e => back_loop f b q (acc ++ [e])
                 | None => (acc, SOk q)
                 end
      | SErr e => (acc, SErr e)
      | SPanic => (acc, SPanic)
      | SHuge => (acc, SHuge)
      | SFuel => (acc, SFuel)
      end
  end.
Definition back_block (b : block) : list entry * sres pos :=
  back_loop (4 * length (b_bytes b) + 4) b PLast [].

(* ---------------------------------------------------------------- Filter (sbbf.rs) *)
Fixpoint words_of (k : nat) (bs : list N) : list N :=
  match k with
  | O => []
  | S k' => of_le_bytes (firstn 4 bs) :: words_of k' (skipn 4 bs)
  end.
Fixpoint fblocks_of (fuel : nat) (bs : list N) : list Table.ModelBloom.fblock :=
  match fuel with
  | O => []
  | S f => match bs with [] => [] | _ => words_of 8 (firstn 32 bs) :: fblocks_of f (skipn 32 bs) end
  end.
(* Filter::try_from(&[u8]) *)
Definition filter_of_bytes (bs : list N) : option Table.ModelBloom.filter :=
  match bs with
  | [] => None
  | _ => if len bs mod 32 =? 0 then Some (fblocks_of (length bs) bs) else None
  end.

Section Sst.
  Variable crc : list N -> N.                       (* crc32c::crc32c *)
  Variable sip : list N -> N.                       (* SipHasher24 with the fixed key *)
  Variable pp : list (list N) -> list N -> N.       (* index keys .partition_point(|k| k < key) *)

  Definition crc32 (b : list N) : N := crc b mod W32.

  Definition meta_sanity (m : bmeta) : sres unit :=
    if bm_limit m <=? bm_start m then SErr SMetaStartGteLimit else SOk tt.

  (* the common part of load_block / load_filter_block: sanity check, read, unpack the SstEntry
     frame, compare the checksum of its payload.  Result: variant index (0 plain, 1 filter,
     2 final) and payload. *)
  Definition load_entry (f : list N) (m : bmeta) : sres (nat * list N) :=
    _ <-- meta_sanity m ;;
    buf <-- read_at f (bm_start m) (bm_limit m - bm_start m) ;;
    r <-- of_wire (msg_unpack SSTENTRY buf) SUnpackTableEntry ;;
    match fst r with
    | VV k (VB payload) => if crc32 payload =? bm_crc m then SOk (k, payload) else SErr SCrc
    | _ => SErr SUnpackTableEntry
    end.

  Definition load_block (f : list N) (m : bmeta) : sres block :=
    r <-- load_entry f m ;;
    match fst r with
    | O => block_new (snd r)
    | S O => SErr SFilterAsPlain
    | _ => SErr SFinalAsPlain
    end.

  Definition load_filter_block (f : list N) (m : bmeta) : sres Table.ModelBloom.filter :=
    r <-- load_entry f m ;;
    match fst r with
    | O => SErr SPlainAsFilter
    | S O => match filter_of_bytes (snd r) with Some flt => SOk flt | None => SErr SBadFilter end
    | _ => SErr SFinalAsFilter
    end.

  (* SstCursor::metadata_from_kvr *)
  Definition metadata_from_entry (e : entry) : sres bmeta :=
    match snd e with
    | None => SErr SMetaNull
    | Some v => r <-- of_wire (msg_unpack BM v) SUnpackMeta ;; SOk (bm_of_val (fst r))
    end.

  Fixpoint metas_of (es : list entry) : sres (list (list N * bmeta)) :=
    match es with
    | [] => SOk []
    | e :: r => m <-- metadata_from_entry e ;; ms <-- metas_of r ;; SOk ((fst (fst e), m) :: ms)
    end.

  (* Sst::load_index_entries: every pair of the index block, in order; the first error ends it *)
  Definition load_index_entries (b : block) : sres (list (list N * bmeta)) :=
    let '(es, r) := iter_block b is_last PFirst in
    (* the loop decodes each pair before it moves on: an undecodable value is reported before a
       later cursor error *)
    match metas_of es with
    | SOk ms => _ <-- r ;; SOk ms
    | bad => bad
    end.

  Record sst := {
    t_file : list N; t_final : finalblk; t_index : list (list N * bmeta);
    t_filter : Table.ModelBloom.filter; t_size : N }.

  (* [fix 1da1fc5] *)
  Fixpoint check_index (istart : N) (ies : list (list N * bmeta)) : sres unit :=
    match ies with
    | [] => SOk tt
    | (_, m) :: r =>
        _ <-- meta_sanity m ;;
        if istart <? bm_limit m then SErr SDataPastIndex else check_index istart r
    end.

  (* Sst::from_file_handle *)
  Definition sst_open (f : list N) : sres sst :=
    let file_size := len f in
    if file_size <? 8 then SErr SFileTooSmall
    else
      let position := file_size - 8 in
      buf <-- read_at f position 8 ;;
      r <-- of_wire (le_unpack 8 buf) SUnpackFinalOffset ;;
      let final_block_offset := fst r in
      if file_size <? final_block_offset then SErr SFinalOffsetTooLarge
      else
        buf <-- read_at f final_block_offset (position + 8 - final_block_offset) ;;
        r <-- of_wire (msg_unpack FB buf) SUnpackFinal ;;
        let fb := fb_of_val (fst r) in
        _ <-- meta_sanity (fb_index fb) ;;
        _ <-- meta_sanity (fb_filter fb) ;;
        if bm_start (fb_filter fb) <? bm_limit (fb_index fb) then SErr SIndexPastFilter
        else if final_block_offset <? bm_limit (fb_filter fb) then SErr SFilterPastFinal
        else
          ib <-- load_block f (fb_index fb) ;;
          ies <-- load_index_entries ib ;;
          _ <-- check_index (bm_start (fb_index fb)) ies ;;
          flt <-- load_filter_block f (fb_filter fb) ;;
          SOk {| t_file := f; t_final := fb; t_index := ies; t_filter := flt; t_size := file_size |}.

  (* ------------------------------------------------------------ walking *)
  (* how a walk ends: the cursor shows no pair, or a call failed *)
  Inductive wend := WEnd | WErr (e : serr) | WPanic | WHuge | WFuel.
  Definition wend_of {A} (r : sres A) : wend :=
    match r with SOk _ => WEnd | SErr e => WErr e | SPanic => WPanic | SHuge => WHuge | SFuel => WFuel end.

  (* `cursor.seek_to_first(); loop { cursor.next()?; match cursor.key_value() { None => break, Some(kv) => push } }`
     on an SstCursor: block after block in index order (SstCursor::next loads block meta_idx, walks
     it with BlockCursor::next and moves on when it shows no pair), up to the first error *)
  Fixpoint walk_blocks (f : list N) (ies : list (list N * bmeta)) : list entry * wend :=
    match ies with
    | [] => ([], WEnd)
    | (_, m) :: rest =>
        match load_block f m with
        | SOk b =>
            let '(es, r) := iter_block b is_last PFirst in
            match r with
            | SOk _ => let '(es2, w) := walk_blocks f rest in (es ++ es2, w)
            | bad => (es, wend_of bad)
            end
        | bad => ([], wend_of bad)
        end
    end.

  Definition sst_walk (t : sst) : list entry * wend := walk_blocks (t_file t) (t_index t).

  (* ------------------------------------------------------------ Sst::load *)
  Definition lt_target (key : list N) (ts : N) (p : pos) : bool :=
    match p with
    | PAt _ _ _ k t _ => match kref_cmp k t key ts with Lt => true | _ => false end
    | _ => false
    end.

  (* SstCursor::next from a block that has run out: the following blocks until one shows a pair;
     then `stop` decides whether the caller's loop goes on *)
  Fixpoint cross (f : list N) (stop : pos -> bool) (rest : list (list N * bmeta)) : sres (option entry) :=
    match rest with
    | [] => SOk None
    | (_, m) :: rest' =>
        b <-- load_block f m ;;
        p1 <-- bc_next b PFirst ;;
        if is_at p1 then
          p2 <-- snd (iter_next (block_fo b) (block_fi b) b stop p1 []) ;;
          if is_at p2 then SOk (pos_entry p2) else cross f stop rest'
        else cross f stop rest'
    end.

  Definition nth_meta (t : sst) (idx : N) : sres bmeta :=
    match nth_error (t_index t) (N.to_nat idx) with
    | Some (_, m) => SOk m
    | None => SPanic                                   (* index_entries[idx] *)
    end.

  (* SstCursor::seek: (meta_idx, block cursor) *)
  Definition sc_seek (t : sst) (key : list N) : sres (N * option (block * pos)) :=
    let n := N.of_nat (length (t_index t)) in
    let idx := pp (map fst (t_index t)) key in
    if n <=? idx then SOk (n, None)
    else
      m <-- nth_meta t idx ;;
      b <-- load_block (t_file t) m ;;
      p <-- bc_seek b PFirst key ;;
      if is_at p then SOk (idx, Some (b, p))
      else
        let idx := idx + 1 in
        if n <=? idx then SOk (n, None)
        else
          m <-- nth_meta t idx ;;
          b <-- load_block (t_file t) m ;;
          p <-- bc_seek b PFirst key ;;
          SOk (idx, Some (b, p)).

  (* load: (value, is_tombstone) *)
  Definition load_result (kv : option entry) (key : list N) : option (list N) * bool :=
    match kv with
    | Some e => if bytes_eqb (fst (fst e)) key
                then (snd e, match snd e with None => true | Some _ => false end)
                else (None, false)
    | None => (None, false)
    end.

  Definition sst_load (t : sst) (key : list N) (ts : N) : sres (option (list N) * bool) :=
    match Table.ModelBloom.filter_check (t_filter t) (sip key mod W64) with
    | None => SPanic
    | Some false => SOk (None, false)
    | Some true =>
        r <-- sc_seek t key ;;
        match snd r with
        | None => SOk (None, false)
        | Some (b, p) =>
            if is_at p then
              let stop := fun q => negb (lt_target key ts q) in
              p2 <-- snd (iter_next (block_fo b) (block_fi b) b stop p []) ;;
              if is_at p2 then SOk (load_result (pos_entry p2) key)
              else
                kv <-- cross (t_file t) stop (skipn (S (N.to_nat (fst r))) (t_index t)) ;;
                SOk (load_result kv key)
            else SOk (None, false)
        end
    end.

  (* the first key of Sst::metadata: seek_to_first(); next(); key() *)
  Definition sst_first_key (t : sst) : sres (list N) :=
    kv <-- cross (t_file t) (fun _ => true) (t_index t) ;;
    SOk (match kv with Some e => fst (fst e) | None => [] end).

  (* ------------------------------------------------------------ backwards *)
  (* the backward walk of an SstCursor: the blocks in reverse index order (SstCursor::prev loads
     block meta_idx - 1, positions its cursor at Last, calls prev and moves on when it shows no
     pair), up to the first error; `ies` is the index REVERSED *)
  Fixpoint walk_back_blocks (f : list N) (ies : list (list N * bmeta)) : list entry * wend :=
    match ies with
    | [] => ([], WEnd)
    | (_, m) :: rest =>
        match load_block f m with
        | SOk b =>
            let '(es, r) := back_block b in
            match r with
            | SOk _ => let '(es2, w) := walk_back_blocks f rest in (es ++ es2, w)
            | bad => (es, wend_of bad)
            end
        | bad => ([], wend_of bad)
        end
    end.
  Definition sst_walk_back (t : sst) : list entry * wend := walk_back_blocks (t_file t) (rev (t_index t)).

  (* the last key of Sst::metadata: seek_to_last(); prev(); key() — one prev per block, from the
     last block down, until a block shows a pair; MAX_KEY when none does *)
  Fixpoint cross_back (f : list N) (ies : list (list N * bmeta)) : sres (option entry) :=
    match ies with
    | [] => SOk None
    | (_, m) :: rest =>
        b <-- load_block f m ;;
        q <-- bc_prev b PLast ;;
        if is_at q then SOk (pos_entry q) else cross_back f rest
    end.
  Definition MAX_KEY : list N := repeat 255 11.      (* `&[0xffu8; 11]`, a literal in the source *)
  Definition sst_last_key (t : sst) : sres (list N) :=
    kv <-- cross_back (t_file t) (rev (t_index t)) ;;
    SOk (match kv with Some e => fst (fst e) | None => MAX_KEY end).

  (* Sst::metadata's two keys, in its order: an error of the first half is returned first *)
  Definition sst_meta_keys (t : sst) : sres (list N * list N) :=
    a <-- sst_first_key t ;; z <-- sst_last_key t ;; SOk (a, z).

  (* ------------------------------------------------------------ whole cases *)
  Record sst_outcome := {
    so_open : sres unit;
    so_walk : list entry * wend;
    so_back : list entry * wend;
    so_first : sres (list N * list N);
    so_meta : list N * N * N * N;                (* setsum, smallest, biggest, file size *)
    so_gets : list (sres (option (list N) * bool)) }.

  Definition sst_case (f : list N) (queries : list (list N * N)) : sst_outcome :=
    match sst_open f with
    | SOk t =>
        {| so_open := SOk tt; so_walk := sst_walk t; so_back := sst_walk_back t; so_first := sst_meta_keys t;
           so_meta := (fb_setsum (t_final t), fb_smallest (t_final t), fb_biggest (t_final t), t_size t);
           so_gets := map (fun q => sst_load t (fst q) (snd q)) queries |}
    | SErr e => {| so_open := SErr e; so_walk := ([], WEnd); so_back := ([], WEnd); so_first := SErr e; so_meta := ([], 0, 0, 0); so_gets := [] |}
    | SPanic => {| so_open := SPanic; so_walk := ([], WEnd); so_back := ([], WEnd); so_first := SPanic; so_meta := ([], 0, 0, 0); so_gets := [] |}
    | SHuge => {| so_open := SHuge; so_walk := ([], WEnd); so_back := ([], WEnd); so_first := SHuge; so_meta := ([], 0, 0, 0); so_gets := [] |}
    | SFuel => {| so_open := SFuel; so_walk := ([], WEnd); so_back := ([], WEnd); so_first := SFuel; so_meta := ([], 0, 0, 0); so_gets := [] |}
    end.

  (* a block on its own: Block::new, forward walk, Block::load *)
  Definition block_load (b : block) (key : list N) (ts : N) : sres (option (list N) * bool) :=
    p <-- bc_seek b PFirst key ;;
    p2 <-- snd (iter_block b (fun q => negb (lt_target key ts q)) p) ;;
    SOk (load_result (pos_entry p2) key).

  Definition block_case (bs : list N) (queries : list (list N * N))
    : sres (list entry * wend * (list entry * wend) * list (sres (option (list N) * bool))) :=
    b <-- block_new bs ;;
    let '(es, r) := iter_block b is_last PFirst in
    let '(bs', r') := back_block b in
    SOk (es, wend_of r, (bs', wend_of r'), map (fun q => block_load b (fst q) (snd q)) queries).
End Sst.
