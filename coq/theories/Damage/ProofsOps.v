(* Damage/ProofsOps.v — facts about the damage operators and about `slice`. *)
From Coq Require Import NArith List Bool Lia ZifyN ZifyNat ZifyBool.
From Blue Require Import Wire.Model Wire.ProofsVarint Wire.ProofsMsg Damage.ModelOps.
Import ListNotations.
Open Scope N_scope.
Arguments N.add : simpl never. Arguments N.sub : simpl never. Arguments N.mul : simpl never.
Arguments N.div : simpl never. Arguments N.modulo : simpl never. Arguments N.leb : simpl never.
Arguments N.ltb : simpl never. Arguments N.eqb : simpl never.

Lemma len_nat : forall (l : list N), len l = N.of_nat (length l).
Proof. reflexivity. Qed.

(* ---------------------------------------------------------------- set_nth / overwrite *)
Lemma set_nth_length : forall i b f, length (set_nth i b f) = length f.
Proof. induction i as [|i IH]; intros b [|x f]; cbn [set_nth length]; auto. Qed.

Lemma set_nth_nth_same : forall i b f, (i < length f)%nat -> nth_error (set_nth i b f) i = Some b.
Proof.
  induction i as [|i IH]; intros b [|x f] H; cbn [length] in H; try lia; cbn [set_nth nth_error]; auto.
  apply IH. lia.
Qed.

Lemma set_nth_nth_other : forall i j b f, i <> j -> nth_error (set_nth i b f) j = nth_error f j.
Proof.
  induction i as [|i IH]; intros [|j] b [|x f] H; cbn [set_nth nth_error]; auto; try congruence.
Qed.

Lemma set_nth_beyond : forall i b f, (length f <= i)%nat -> set_nth i b f = f.
Proof.
  induction i as [|i IH]; intros b [|x f] H; cbn [length] in H; cbn [set_nth]; auto; try lia.
  f_equal. apply IH. lia.
Qed.

Lemma set_nth_split : forall i b f, (i < length f)%nat ->
  set_nth i b f = firstn i f ++ b :: skipn (S i) f.
Proof.
  induction i as [|i IH]; intros b [|x f] H; cbn [length] in H; try lia; cbn [set_nth firstn skipn app]; auto.
  f_equal. apply IH. lia.
Qed.

Lemma overwrite_length : forall i b f, length (overwrite i b f) = length f.
Proof. intros. apply set_nth_length. Qed.

Lemma overwrite_len : forall i b f, len (overwrite i b f) = len f.
Proof. intros. unfold len. now rewrite overwrite_length. Qed.

Lemma flip_length : forall i k f, length (flip i k f) = length f.
Proof. intros. unfold flip. destruct (nth_error f (N.to_nat i)); [apply overwrite_length|reflexivity]. Qed.

Lemma truncate_length : forall n f, (length (truncate n f) <= length f)%nat.
Proof. intros. unfold truncate. rewrite firstn_length. lia. Qed.

Lemma extend_length : forall s f, length (extend s f) = (length f + length s)%nat.
Proof. intros. unfold extend. apply app_length. Qed.

(* a flipped bit is a different byte, and still a byte *)
Lemma flip_bit_sweep :
  forallb (fun x => forallb (fun k => flip_bit (N.of_nat x) (N.of_nat k) <? 256) (seq 0 8)) (seq 0 256) = true.
Proof. vm_compute. reflexivity. Qed.

Lemma flip_bit_lt : forall x k, x < 256 -> k < 8 -> flip_bit x k < 256.
Proof.
  intros x k Hx Hk. pose proof flip_bit_sweep as H. rewrite forallb_forall in H.
  specialize (H (N.to_nat x)). rewrite in_seq in H. specialize (H ltac:(lia)).
  rewrite forallb_forall in H. specialize (H (N.to_nat k)). rewrite in_seq in H. specialize (H ltac:(lia)).
  rewrite !N2Nat.id in H. lia.
Qed.

Lemma flip_bit_neq : forall x k, flip_bit x k <> x.
Proof.
  intros x k H. unfold flip_bit in H.
  assert (E : N.lxor x (N.lxor x (N.shiftl 1 k)) = 0) by (rewrite H; apply N.lxor_nilpotent).
  rewrite <- N.lxor_assoc, N.lxor_nilpotent, N.lxor_0_l in E.
  apply N.shiftl_eq_0_iff in E. discriminate.
Qed.

(* ---------------------------------------------------------------- bytes stay bytes *)
Lemma bytes_ok_set_nth : forall i b f, b < 256 -> bytes_ok f -> bytes_ok (set_nth i b f).
Proof.
  induction i as [|i IH]; intros b [|x f] Hb Hf; cbn [set_nth]; auto;
    inversion Hf; subst; constructor; auto. apply IH; assumption.
Qed.

Lemma bytes_ok_nth : forall f i x, bytes_ok f -> nth_error f i = Some x -> x < 256.
Proof.
  intros f i x Hf H. apply nth_error_In in H. unfold bytes_ok in Hf. rewrite Forall_forall in Hf. auto.
Qed.

Lemma bytes_ok_firstn' : forall n (f : list N), bytes_ok f -> bytes_ok (firstn n f).
Proof. exact bytes_ok_firstn. Qed.
Lemma bytes_ok_skipn' : forall n (f : list N), bytes_ok f -> bytes_ok (skipn n f).
Proof. exact bytes_ok_skipn. Qed.
Lemma bytes_ok_app' : forall (a b : list N), bytes_ok a -> bytes_ok b -> bytes_ok (a ++ b).
Proof. intros. apply bytes_ok_app. tauto. Qed.

Lemma damage_keeps_bytes : forall d f, damage_ok d = true -> bytes_ok f -> bytes_ok (apply1 d f).
Proof.
  intros [i k|i b|n|s] f Hd Hf; cbn [apply1 damage_ok] in *.
  - unfold flip. destruct (nth_error f (N.to_nat i)) as [x|] eqn:E; [|exact Hf].
    apply bytes_ok_set_nth; [|exact Hf]. apply flip_bit_lt; [eapply bytes_ok_nth; eauto|lia].
  - apply bytes_ok_set_nth; [lia|exact Hf].
  - apply bytes_ok_firstn'. exact Hf.
  - apply bytes_ok_app'; [exact Hf|]. unfold bytes_ok. rewrite Forall_forall. intros x Hx.
    rewrite forallb_forall in Hd. specialize (Hd x Hx). lia.
Qed.

Lemma damage_all_keeps_bytes : forall ds f, forallb damage_ok ds = true -> bytes_ok f -> bytes_ok (apply_all ds f).
Proof.
  induction ds as [|d ds IH]; intros f Hd Hf; cbn [apply_all fold_left forallb] in *; [exact Hf|].
  apply andb_prop in Hd. destruct Hd as [H1 H2]. apply IH; [exact H2|]. apply damage_keeps_bytes; assumption.
Qed.

Lemma In_skipn' : forall {A} n (l : list A) x, In x (skipn n l) -> In x l.
Proof.
  induction n as [|n IH]; intros l x H; [exact H|]. destruct l as [|y l]; [exact H|]. right. apply IH. exact H.
Qed.

(* ---------------------------------------------------------------- slice *)
Lemma slice_length : forall f pos n, pos + n <= len f -> len (slice f pos n) = n.
Proof.
  intros f pos n H. unfold slice, len in *. rewrite firstn_length, skipn_length. lia.
Qed.

Lemma slice_bytes_ok : forall f pos n, bytes_ok f -> bytes_ok (slice f pos n).
Proof. intros. unfold slice. apply bytes_ok_firstn'. apply bytes_ok_skipn'. assumption. Qed.

(* two files that agree on [pos, pos+n) have the same slice there *)
Definition agree_on (lo hi : N) (f g : list N) : Prop :=
  forall i, lo <= i < hi -> nth_error f (N.to_nat i) = nth_error g (N.to_nat i).

Lemma firstn_ext_nth : forall n (a b : list N), (n <= length a)%nat -> (n <= length b)%nat ->
  (forall i, (i < n)%nat -> nth_error a i = nth_error b i) -> firstn n a = firstn n b.
Proof.
  induction n as [|n IH]; intros a b Ha Hb H; [reflexivity|].
  destruct a as [|x a]; [cbn in Ha; lia|]. destruct b as [|y b]; [cbn in Hb; lia|].
  cbn [firstn]. pose proof (H O ltac:(lia)) as H0. cbn in H0. injection H0 as ->. f_equal.
  apply IH; cbn [length] in *; try lia. intros i Hi. apply (H (S i)). lia.
Qed.

Lemma nth_error_skipn' : forall {A} n (l : list A) i, nth_error (skipn n l) i = nth_error l (n + i).
Proof.
  induction n as [|n IH]; intros l i; [reflexivity|]. destruct l as [|x l]; [destruct i; reflexivity|].
  cbn [skipn Nat.add nth_error]. apply IH.
Qed.

Lemma nth_error_firstn' : forall {A} n (l : list A) i, (i < n)%nat -> nth_error (firstn n l) i = nth_error l i.
Proof.
  induction n as [|n IH]; intros l i H; [lia|]. destruct l as [|x l]; [reflexivity|].
  destruct i as [|i]; [reflexivity|]. cbn [firstn nth_error]. apply IH. lia.
Qed.

Lemma slice_agree : forall f g pos n, pos + n <= len f -> pos + n <= len g ->
  agree_on pos (pos + n) f g -> slice f pos n = slice g pos n.
Proof.
  intros f g pos n Hf Hg H. unfold slice. unfold len in *.
  apply firstn_ext_nth; try (rewrite skipn_length; lia).
  intros i Hi. rewrite !nth_error_skipn'.
  specialize (H (pos + N.of_nat i) ltac:(lia)).
  replace (N.to_nat (pos + N.of_nat i)) with (N.to_nat pos + i)%nat in H by lia. exact H.
Qed.

Lemma agree_on_sub : forall lo hi lo' hi' f g, lo <= lo' -> hi' <= hi -> agree_on lo hi f g -> agree_on lo' hi' f g.
Proof. intros lo hi lo' hi' f g H1 H2 H i Hi. apply H. lia. Qed.

Lemma agree_on_refl : forall lo hi f, agree_on lo hi f f.
Proof. intros lo hi f i _. reflexivity. Qed.

Lemma agree_on_sym : forall lo hi f g, agree_on lo hi f g -> agree_on lo hi g f.
Proof. intros lo hi f g H i Hi. symmetry. apply H. exact Hi. Qed.

(* an overwrite (hence a flip) outside a range leaves the range alone *)
Lemma overwrite_agree : forall i b f lo hi, (i < lo \/ hi <= i) -> agree_on lo hi (overwrite i b f) f.
Proof.
  intros i b f lo hi Hi j Hj. unfold overwrite. apply set_nth_nth_other. lia.
Qed.

Lemma flip_agree : forall i k f lo hi, (i < lo \/ hi <= i) -> agree_on lo hi (flip i k f) f.
Proof.
  intros i k f lo hi Hi. unfold flip. destruct (nth_error f (N.to_nat i)); [apply overwrite_agree; exact Hi|apply agree_on_refl].
Qed.

(* truncation and extension leave everything in front of the cut / the old end alone *)
Lemma truncate_agree : forall n f hi, hi <= n -> agree_on 0 hi (truncate n f) f.
Proof.
  intros n f hi H i Hi. unfold truncate. apply nth_error_firstn'. lia.
Qed.

Lemma extend_agree : forall s f, agree_on 0 (len f) (extend s f) f.
Proof.
  intros s f i Hi. unfold extend. apply nth_error_app1. unfold len in Hi. lia.
Qed.

(* what an in-range overwrite of one byte is, as an append *)
Lemma overwrite_split : forall i b f, i < len f ->
  overwrite i b f = firstn (N.to_nat i) f ++ b :: skipn (S (N.to_nat i)) f.
Proof. intros i b f H. unfold overwrite. apply set_nth_split. unfold len in H. lia. Qed.
