(* Damage/ProofsMani.v — the manifest reader (Mani/Model.v: ManifestIterator::next, read_mani)
   under damage, line by line.  Every line the reader accepts other than the separator has passed
   the comparison of its eight hex digits with the checksum of the rest of the line; a damaged
   separator is rejected by its shape alone; what precedes a damaged line is read as before. *)
From Coq Require Import NArith Arith PeanoNat List Bool Lia ZifyN ZifyNat ZifyBool.
From Blue Require Import Mani.Model.
Import ListNotations.
Open Scope N_scope.

Lemma skipn_S_tl : forall {A} n (l : list A), skipn (S n) l = tl (skipn n l).
Proof.
  induction n as [|n IH]; intros l; [destruct l; reflexivity|]. destruct l as [|x l]; [reflexivity|].
  cbn [skipn] in *. apply IH.
Qed.

  Lemma long_line_not_sep : forall l, (9 < length l)%nat -> str_eqb l SEP = false.
  Proof.
    intros l Hl. unfold str_eqb. destruct (lex_cmp l SEP) eqn:Ec; try reflexivity.
    assert (Hlen : forall a b, lex_cmp a b = Eq -> length a = length b).
    { induction a as [|x a IH]; intros [|y b] Hc; cbn in Hc; try discriminate; [reflexivity|].
      destruct (N.compare x y); try discriminate. cbn [length]. f_equal. apply IH. exact Hc. }
    apply Hlen in Ec. cbn in Ec. lia.
  Qed.

  (* ---- allocation: a line is never longer than the file *)
  Lemma lines_bounded : forall bs, Forall (fun l => (length l <= length bs)%nat) (lines bs).
  Proof.
    induction bs as [|b r IH]; cbn [lines]; [constructor|].
    assert (IH' : Forall (fun l => (length l <= length (b :: r))%nat) (lines r)).
    { eapply Forall_impl; [|exact IH]. cbn. intros. lia. }
    destruct (b =? 10); [constructor; [cbn; lia|exact IH']|].
    destruct ((b =? 13) && starts_with_nl r); [exact IH'|].
    destruct (lines r) as [|l ls] eqn:E; [constructor; [cbn [length]; lia|constructor]|].
    inversion IH as [|? ? Hl Hls]; subst. constructor; [cbn [length]; lia|].
    eapply Forall_impl; [|exact Hls]. cbn. intros. lia.
  Qed.

Section ManiDamage.
  Variable crc : list N -> N.

  (* a line is rejected at an accumulated edit: the iterator returns an error item *)
  Definition rejects (acc : edit) (l : str) : Prop :=
    match do_line crc acc l with LErr _ | LErrSoft _ => True | _ => False end.
  Definition rejected (l : str) : Prop := forall acc, rejects acc l.

  (* ---- what is accepted was checked *)
  Lemma lift_edit_cases : forall r, match lift_edit r with LCont _ | LErr _ => True | _ => False end.
  Proof. intros [e|x|]; exact I. Qed.

  Lemma do_line_cont_checked : forall acc l acc', do_line crc acc l = LCont acc' ->
    (9 < length l)%nat /\ exists x, parse_hex_u32 (firstn 8 l) = Some x /\ crc32 crc (skipn 8 l) = x.
  Proof.
    intros acc l acc' H. unfold do_line in H.
    destruct (negb (valid_utf8 l)); [discriminate|]. destruct (negb (is_ascii l)); [discriminate|].
    destruct (str_eqb l SEP); [discriminate|].
    destruct (Nat.ltb_spec 9 (length l)) as [Hl|Hl]; [|discriminate]. split; [exact Hl|].
    destruct (parse_hex_u32 (firstn 8 l)) as [x|]; [|discriminate]. exists x. split; [reflexivity|].
    destruct (N.eqb_spec (crc32 crc (skipn 8 l)) x); [assumption|discriminate].
  Qed.

  Lemma do_line_yield : forall acc l e, do_line crc acc l = LYield e -> str_eqb l SEP = true /\ e = acc.
  Proof.
    intros acc l e H. unfold do_line in H.
    destruct (negb (valid_utf8 l)); [discriminate|]. destruct (negb (is_ascii l)); [discriminate|].
    destruct (str_eqb l SEP) eqn:E; [inversion H; auto|].
    destruct (Nat.ltb 9 (length l)); [|discriminate].
    destruct (parse_hex_u32 (firstn 8 l)) as [x|]; [|discriminate].
    destruct (negb (crc32 crc (skipn 8 l) =? x)); [discriminate|].
    repeat match type of H with (if ?c then _ else _) = _ => destruct c end;
      try discriminate;
      match type of H with lift_edit ?r = _ => pose proof (lift_edit_cases r) as Hc; rewrite H in Hc; contradiction end.
  Qed.

  (* ---- rejected by shape: anything of at most nine characters that is not the separator
          (every damaged separator line, whatever bytes it has become) *)
  Lemma short_line_rejected : forall l, (length l <= 9)%nat -> str_eqb l SEP = false -> rejected l.
  Proof.
    intros l Hl Hs acc. unfold rejects, do_line.
    destruct (negb (valid_utf8 l)); [exact I|]. destruct (negb (is_ascii l)); [exact I|]. rewrite Hs.
    destruct (Nat.ltb_spec 9 (length l)); [lia|exact I].
  Qed.

  (* ---- rejected by the checksum: the digits do not parse, or say something else than the
          checksum of the rest of the line *)
  Lemma bad_hex_rejected : forall l, (9 < length l)%nat -> parse_hex_u32 (firstn 8 l) = None -> rejected l.
  Proof.
    intros l Hl Hp acc. unfold rejects, do_line.
    destruct (negb (valid_utf8 l)); [exact I|]. destruct (negb (is_ascii l)); [exact I|].
    destruct (str_eqb l SEP) eqn:Es.
    - (* a line longer than nine characters is not the separator *)
      exfalso. unfold str_eqb in Es. destruct (lex_cmp l SEP) eqn:Ec; try discriminate.
      assert (Hlen : forall a b, lex_cmp a b = Eq -> length a = length b).
      { induction a as [|x a IH]; intros [|y b] Hc; cbn in Hc; try discriminate; [reflexivity|].
        destruct (N.compare x y); try discriminate. cbn [length]. f_equal. apply IH. exact Hc. }
      apply Hlen in Ec. cbn in Ec. lia.
    - destruct (Nat.ltb_spec 9 (length l)); [|lia]. rewrite Hp. exact I.
  Qed.

  Lemma bad_crc_rejected : forall l x, parse_hex_u32 (firstn 8 l) = Some x -> crc32 crc (skipn 8 l) <> x -> rejected l.
  Proof.
    intros l x Hp Hc acc. unfold rejects, do_line.
    destruct (negb (valid_utf8 l)); [exact I|]. destruct (negb (is_ascii l)); [exact I|].
    destruct (str_eqb l SEP) eqn:Es.
    - exfalso. unfold str_eqb in Es. destruct (lex_cmp l SEP) eqn:Ec; try discriminate.
      assert (Heq : forall a b, lex_cmp a b = Eq -> a = b).
      { induction a as [|y a IH]; intros [|z b] H0; cbn in H0; try discriminate; [reflexivity|].
        destruct (N.compare_spec y z); try discriminate. subst. f_equal. apply IH. exact H0. }
      apply Heq in Ec. subst l. vm_compute in Hp. discriminate.
    - destruct (Nat.ltb 9 (length l)); [|exact I]. rewrite Hp.
      destruct (N.eqb_spec (crc32 crc (skipn 8 l)) x); [contradiction|exact I].
  Qed.

  (* ---- one damaged line: the reader reports an error, whatever follows *)
  Lemma read_lines_never_panics : forall ls acc st, read_lines crc ls acc st <> Panic.
  Proof.
    induction ls as [|l ls IH]; intros acc st; cbn [read_lines]; [discriminate|].
    destruct (do_line crc acc l); try discriminate; apply IH.
  Qed.

  Lemma read_lines_rejected : forall l', rejected l' ->
    forall pre post acc st, exists x, read_lines crc (pre ++ l' :: post) acc st = Err x.
  Proof.
    intros l' Hr. induction pre as [|l pre IH]; intros post acc st; cbn [app read_lines].
    - specialize (Hr acc). unfold rejects in Hr. destruct (do_line crc acc l'); try contradiction; eexists; reflexivity.
    - destruct (do_line crc acc l); try apply IH; eexists; reflexivity.
  Qed.

  (* ---- the lines in front of the damage are processed as before *)
  Fixpoint run_lines (ls : list str) (acc : edit) (st : state) : (edit * state) + err :=
    match ls with
    | [] => inl (acc, st)
    | l :: rest =>
        match do_line crc acc l with
        | LCont acc' => run_lines rest acc' st
        | LYield e => run_lines rest empty_edit (apply_edit e st)
        | LErrSoft x => inr x
        | LErr x => inr x
        end
    end.

  Lemma read_lines_app : forall pre rest acc st,
    read_lines crc (pre ++ rest) acc st =
    match run_lines pre acc st with
    | inl (acc', st') => read_lines crc rest acc' st'
    | inr x => Err x
    end.
  Proof.
    induction pre as [|l pre IH]; intros rest acc st; cbn [app read_lines run_lines]; [reflexivity|].
    destruct (do_line crc acc l); try apply IH; reflexivity.
  Qed.

  (* the state a reader has reached after the complete edits of a prefix does not depend on what
     follows: reading pre ++ anything either fails or starts from the same point *)
  Lemma read_lines_prefix_independent : forall pre rest rest' acc st st1 st2,
    read_lines crc (pre ++ rest) acc st = Ok st1 -> read_lines crc (pre ++ rest') acc st = Ok st2 ->
    exists acc' st', run_lines pre acc st = inl (acc', st') /\
                     read_lines crc rest acc' st' = Ok st1 /\ read_lines crc rest' acc' st' = Ok st2.
  Proof.
    intros pre rest rest' acc st st1 st2 H1 H2. rewrite read_lines_app in H1, H2.
    destruct (run_lines pre acc st) as [[acc' st']|x]; [|discriminate]. exists acc', st'. auto.
  Qed.

  (* ---- a damaged checksummed line: detected or harmless.  The original line l was accepted.  The
          damaged line l' has the same length and the damage is confined to the eight digits or to
          the rest of the line.  The one hypothesis on crc: it tells the damaged rest from the
          original rest.  Then l' is rejected or is read exactly as l was. *)
  Lemma do_line_depends : forall acc l l', length l' = length l -> skipn 8 l' = skipn 8 l ->
    parse_hex_u32 (firstn 8 l') = parse_hex_u32 (firstn 8 l) -> (9 < length l)%nat ->
    valid_utf8 l' = true -> is_ascii l' = true -> valid_utf8 l = true -> is_ascii l = true ->
    str_eqb l SEP = false -> str_eqb l' SEP = false ->
    do_line crc acc l' = do_line crc acc l.
  Proof.
    intros acc l l' Hlen Hsk Hp Hl Hu' Ha' Hu Ha Hs Hs'. unfold do_line.
    rewrite Hu, Hu', Ha, Ha', Hs, Hs', Hlen, Hp, Hsk. cbn [negb].
    destruct (Nat.ltb 9 (length l)); [|reflexivity].
    destruct (parse_hex_u32 (firstn 8 l)); [|reflexivity].
    destruct (negb (crc32 crc (skipn 8 l) =? n)); [reflexivity|].
    assert (Hn : nth 8 l' 0 = nth 8 l 0).
    { rewrite <- (firstn_skipn 8 l'), <- (firstn_skipn 8 l).
      assert (L1 : length (firstn 8 l') = 8%nat) by (rewrite firstn_length; lia).
      assert (L2 : length (firstn 8 l) = 8%nat) by (rewrite firstn_length; lia).
      rewrite !app_nth2 by lia. rewrite L1, L2, Hsk. reflexivity. }
    assert (H9 : skipn 9 l' = skipn 9 l).
    { rewrite !(skipn_S_tl 8). rewrite Hsk. reflexivity. }
    rewrite Hn, H9. reflexivity.
  Qed.


  Theorem line_damage_detected_or_harmless : forall acc l l' acc1,
    do_line crc acc l = LCont acc1 ->
    length l' = length l ->
    (firstn 8 l' = firstn 8 l \/ skipn 8 l' = skipn 8 l) ->
    (crc32 crc (skipn 8 l') = crc32 crc (skipn 8 l) -> skipn 8 l' = skipn 8 l) ->
    do_line crc acc l' = do_line crc acc l \/ rejects acc l'.
  Proof.
    intros acc l l' acc1 H Hlen Hreg Hcrc.
    destruct (do_line_cont_checked acc l acc1 H) as (Hl & x & Hx & Hc).
    assert (Hul : valid_utf8 l = true /\ is_ascii l = true).
    { unfold do_line in H. destruct (valid_utf8 l); [|discriminate]. destruct (is_ascii l); [auto|discriminate]. }
    destruct Hul as [Hu Ha].
    destruct (valid_utf8 l') eqn:Hu'; [|right; unfold rejects, do_line; rewrite Hu'; exact I].
    destruct (is_ascii l') eqn:Ha'; [|right; unfold rejects, do_line; rewrite Hu', Ha'; exact I].
    pose proof (long_line_not_sep l Hl) as Hs. pose proof (long_line_not_sep l' ltac:(lia)) as Hs'.
    destruct (parse_hex_u32 (firstn 8 l')) as [x'|] eqn:Hx'.
    2:{ right. apply bad_hex_rejected; [lia|exact Hx']. }
    destruct (N.eq_dec (crc32 crc (skipn 8 l')) x') as [Ec'|Ec'].
    2:{ right. eapply bad_crc_rejected; eassumption. }
    destruct Hreg as [Hd|Hp].
    - (* the digits are intact: x' = x, so the checksums agree and the rest is intact as well *)
      rewrite Hd, Hx in Hx'. inversion Hx'; subst x'.
      left. apply do_line_depends; try assumption; [apply Hcrc; congruence|rewrite Hd; reflexivity].
    - (* the rest of the line is intact: the digits must still say its checksum *)
      left. apply do_line_depends; try assumption. rewrite Hx', Hx. f_equal. rewrite Hp in Ec'. congruence.
  Qed.

End ManiDamage.

(* ---------------------------------------------------------------- from bytes to lines *)
(* overwriting one byte that is neither '\n' nor '\r' with another such byte changes exactly one
   line, in exactly one position *)
Lemma starts_with_nl_app : forall pre b post, b <> 10 ->
  forall b', b' <> 10 -> starts_with_nl (pre ++ b :: post) = starts_with_nl (pre ++ b' :: post).
Proof.
  intros [|y pre] b post Hb b' Hb'; cbn [app starts_with_nl]; [|reflexivity].
  destruct (N.eqb_spec b 10); [contradiction|]. destruct (N.eqb_spec b' 10); [contradiction|]. reflexivity.
Qed.

Lemma lines_overwrite : forall pre b b' post, b <> 10 -> b <> 13 -> b' <> 10 -> b' <> 13 ->
  exists A u v B,
    lines (pre ++ b :: post) = A ++ (u ++ b :: v) :: B /\
    lines (pre ++ b' :: post) = A ++ (u ++ b' :: v) :: B.
Proof.
  induction pre as [|x pre IH]; intros b b' post H1 H2 H3 H4.
  - cbn [app lines].
    destruct (N.eqb_spec b 10); [contradiction|]. destruct (N.eqb_spec b' 10); [contradiction|].
    destruct (N.eqb_spec b 13); [contradiction|]. destruct (N.eqb_spec b' 13); [contradiction|]. cbn [andb].
    destruct (lines post) as [|l0 ls].
    + exists [], [], [], []. split; reflexivity.
    + exists [], [], l0, ls. split; reflexivity.
  - destruct (IH b b' post H1 H2 H3 H4) as (A & u & v & B & E1 & E2).
    cbn [app lines]. rewrite (starts_with_nl_app pre b post H1 b' H3).
    destruct (x =? 10).
    + exists ([] :: A), u, v, B. rewrite E1, E2. split; reflexivity.
    + destruct ((x =? 13) && starts_with_nl (pre ++ b' :: post)).
      * exists A, u, v, B. auto.
      * rewrite E1, E2. destruct A as [|a0 A].
        -- exists [], (x :: u), v, B. split; reflexivity.
        -- exists ((x :: a0) :: A), u, v, B. split; reflexivity.
Qed.

Section ManiBytes.
  Variable crc : list N -> N.

  Lemma one_position_region : forall (u v : list N) b b',
    firstn 8 (u ++ b' :: v) = firstn 8 (u ++ b :: v) \/ skipn 8 (u ++ b' :: v) = skipn 8 (u ++ b :: v).
  Proof.
    intros u v b b'. destruct (Nat.le_gt_cases 8 (length u)) as [H|H].
    - left. rewrite !firstn_app. replace (8 - length u)%nat with O by lia. reflexivity.
    - right. rewrite !skipn_app. rewrite !(skipn_all2 u) by lia.
      destruct (8 - length u)%nat as [|k] eqn:E; [lia|]. reflexivity.
  Qed.

  Lemma sep_one_byte_changed : forall u v b b', b' <> b -> str_eqb (u ++ b :: v) SEP = true -> str_eqb (u ++ b' :: v) SEP = false.
  Proof.
    intros u v b b' Hne H.
    assert (Heq : forall a c, lex_cmp a c = Eq -> a = c).
    { induction a as [|y a IH]; intros [|z c] H0; cbn in H0; try discriminate; [reflexivity|].
      destruct (N.compare_spec y z); try discriminate. subst. f_equal. apply IH. exact H0. }
    unfold str_eqb in *. destruct (lex_cmp (u ++ b :: v) SEP) eqn:E1; try discriminate.
    destruct (lex_cmp (u ++ b' :: v) SEP) eqn:E2; try reflexivity.
    apply Heq in E1. apply Heq in E2. rewrite <- E1 in E2. apply app_inv_head in E2. congruence.
  Qed.

  (* the byte-level statement: one byte of a manifest that reads to the end is overwritten, neither
     the old nor the new byte being '\n' or '\r'.  Under the hypothesis that crc tells the rest of
     the damaged line from the rest of the original line, the damaged manifest reads to the same
     state or fails with an error. *)
  Theorem mani_byte_overwrite_detected_or_harmless : forall pre b b' post st1,
    b <> 10 -> b <> 13 -> b' <> 10 -> b' <> 13 -> b' <> b ->
    read_mani crc (Some (pre ++ b :: post)) = Ok st1 ->
    (forall A u v B, lines (pre ++ b :: post) = A ++ (u ++ b :: v) :: B ->
       lines (pre ++ b' :: post) = A ++ (u ++ b' :: v) :: B ->
       crc32 crc (skipn 8 (u ++ b' :: v)) = crc32 crc (skipn 8 (u ++ b :: v)) ->
       skipn 8 (u ++ b' :: v) = skipn 8 (u ++ b :: v)) ->
    read_mani crc (Some (pre ++ b' :: post)) = Ok st1 \/
    exists x, read_mani crc (Some (pre ++ b' :: post)) = Err x.
  Proof.
    intros pre b b' post st1 H1 H2 H3 H4 Hne Hr Hcrc. unfold read_mani in *.
    destruct (lines_overwrite pre b b' post H1 H2 H3 H4) as (A & u & v & B & E1 & E2).
    specialize (Hcrc A u v B E1 E2). rewrite E1 in Hr. rewrite E2.
    rewrite read_lines_app in Hr |- *.
    destruct (run_lines crc A empty_edit empty_state) as [[acc st]|x]; [|discriminate].
    cbn [read_lines] in Hr |- *.
    assert (Hlen : length (u ++ b' :: v) = length (u ++ b :: v)) by (rewrite !app_length; reflexivity).
    destruct (do_line crc acc (u ++ b :: v)) as [acc1|e|x|x] eqn:Ed; try discriminate.
    - (* the damaged line was a checksummed line *)
      destruct (line_damage_detected_or_harmless crc acc (u ++ b :: v) (u ++ b' :: v) acc1 Ed Hlen (one_position_region u v b b')) as [Hs|Hrej].
      + exact Hcrc.
      + left. rewrite Hs, Ed. exact Hr.
      + right. unfold rejects in Hrej. destruct (do_line crc acc (u ++ b' :: v)); try contradiction; eexists; reflexivity.
    - (* the damaged line was the separator: it no longer is, and it is too short for anything else *)
      destruct (do_line_yield crc acc _ _ Ed) as [Hsep _].
      pose proof (sep_one_byte_changed u v b b' Hne Hsep) as Hs'.
      assert (Hl8 : (length (u ++ b' :: v) <= 9)%nat).
      { rewrite Hlen. assert (Heq : forall a c, lex_cmp a c = Eq -> length a = length c).
        { induction a as [|y a IH]; intros [|z c] H0; cbn in H0; try discriminate; [reflexivity|].
          destruct (N.compare y z); try discriminate. cbn [length]. f_equal. apply IH. exact H0. }
        unfold str_eqb in Hsep. destruct (lex_cmp (u ++ b :: v) SEP) eqn:Ec; try discriminate.
        apply Heq in Ec. rewrite Ec. cbn. lia. }
      right. pose proof (short_line_rejected crc _ Hl8 Hs' acc) as Hrej. unfold rejects in Hrej.
      destruct (do_line crc acc (u ++ b' :: v)); try contradiction; eexists; reflexivity.
  Qed.
End ManiBytes.
