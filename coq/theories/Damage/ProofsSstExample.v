(* Damage/ProofsSstExample.v — a concrete SST with a toy checksum, and the proof that the two
   hypotheses on crc of the central theorem hold for a concrete damaged copy of it (a finite sweep
   over every frame position of the 224-byte file). *)
From Coq Require Import NArith ZArith List Bool Lia ZifyN ZifyNat ZifyBool.
From Blue Require Import Gen.Const_Wire Wire.Model Wire.ModelMsg Wire.ProofsVarint.
From Blue Require Import Damage.ModelOps Damage.ModelSst Damage.ProofsOps Damage.ProofsSstDamage.
Import ListNotations.
Open Scope N_scope.

Definition ex_crc (l : list N) : N := fold_left (fun a b => a * 31 + b + 7) l 5.
Definition ex_sst : list N :=
  [82; 32; 66; 10; 8; 0; 18; 1; 97; 24; 5; 34; 1; 120; 74; 7; 40; 1; 50; 1; 98; 56; 4; 82; 4; 0; 0; 0; 0; 93; 1; 0; 0; 0;
   82; 24; 66; 11; 8; 0; 18; 1; 99; 24; 3; 34; 2; 122; 122; 82; 4; 0; 0; 0; 0; 93; 1; 0; 0; 0;
   82; 52; 66; 19; 8; 0; 18; 2; 97; 98; 24; 0; 34; 9; 104; 0; 112; 34; 125; 224; 44; 36; 149; 66; 18; 8; 0; 18; 1; 99; 24; 0;
   34; 9; 104; 34; 112; 60; 125; 17; 73; 160; 248; 82; 4; 0; 0; 0; 0; 93; 1; 0; 0; 0;
   106; 32; 255; 255; 255; 255; 255; 255; 255; 255; 255; 255; 255; 255; 255; 255; 255; 255; 255; 255; 255; 255; 255; 255;
   255; 255; 255; 255; 255; 255; 255; 255; 255; 255;
   130; 1; 9; 104; 60; 112; 114; 125; 28; 162; 248; 84; 138; 1; 10; 104; 114; 112; 148; 1; 125; 5; 56; 10; 141; 154; 1; 32;
   0; 0; 0; 0; 0; 0; 0; 0; 0; 0; 0; 0; 0; 0; 0; 0; 0; 0; 0; 0; 0; 0; 0; 0; 0; 0; 0; 0; 0; 0; 0; 0; 160; 1; 0; 168; 1; 0;
   145; 1; 148; 0; 0; 0; 0; 0; 0; 0].
Definition ex_pp (keys : list (list N)) (key : list N) : N :=
  N.of_nat (length (filter (fun k => match lex_cmp k key with Lt => true | _ => false end) keys)).

(* the frame a file holds in the window (pos, n) *)
Definition payload_of (f : list N) (pos n : N) : option (nat * list N) :=
  match read_at f pos n with
  | SOk buf => match msg_unpack SSTENTRY buf with
               | Ok (VV k (VB p), _) => Some (k, p)
               | _ => None
               end
  | _ => None
  end.

Lemma payload_at_of : forall f m, payload_at f m = payload_of f (bm_start m) (bm_limit m - bm_start m).
Proof. reflexivity. Qed.

Lemma lex_cmp_eq : forall a b, lex_cmp a b = Eq -> a = b.
Proof.
  induction a as [|x a IH]; intros [|y b] H; cbn in H; try discriminate; [reflexivity|].
  destruct (N.compare_spec x y); try discriminate. subst. f_equal. apply IH. exact H.
Qed.

Definition window_ok (crc : list N -> N) (f f' : list N) (pos n : N) : bool :=
  match payload_of f pos n, payload_of f' pos n with
  | Some (_, p), Some (_, p') => if crc32 crc p' =? crc32 crc p then bytes_eqb p' p else true
  | _, _ => true
  end.

Definition ex_damaged : list N := flip 45 2 ex_sst.

Lemma ex_sweep :
  forallb (fun pos => forallb (fun n => window_ok ex_crc ex_sst ex_damaged (N.of_nat pos) (N.of_nat n)) (seq 0 225)) (seq 0 225) = true.
Proof. vm_compute. reflexivity. Qed.

Lemma payload_of_outside : forall f pos n, len f < pos + n -> payload_of f pos n = None.
Proof.
  intros f pos n H. unfold payload_of, read_at. destruct (N.ltb_spec (len f) n); [reflexivity|].
  destruct (N.leb_spec (pos + n) (len f)); [lia|reflexivity].
Qed.

Lemma ex_crc_detects : crc_detects ex_crc ex_sst ex_damaged.
Proof.
  intros m k p k' p' H1 H2 Hc. rewrite payload_at_of in H1, H2.
  remember (bm_start m) as pos eqn:Epos. remember (bm_limit m - pos) as n eqn:En. clear Epos En m.
  assert (Hlen : len ex_sst = 224) by reflexivity.
  destruct (N.lt_ge_cases (len ex_sst) (pos + n)) as [Hout|Hin].
  { rewrite payload_of_outside in H1 by exact Hout. discriminate. }
  pose proof ex_sweep as Hs. rewrite forallb_forall in Hs.
  specialize (Hs (N.to_nat pos)). rewrite in_seq in Hs. specialize (Hs ltac:(lia)).
  rewrite forallb_forall in Hs. specialize (Hs (N.to_nat n)). rewrite in_seq in Hs. specialize (Hs ltac:(lia)).
  rewrite !N2Nat.id in Hs. unfold window_ok in Hs. rewrite H1, H2 in Hs.
  destruct (N.eqb_spec (crc32 ex_crc p') (crc32 ex_crc p)) as [_|Hne]; [|contradiction].
  unfold bytes_eqb in Hs. destruct (lex_cmp p' p) eqn:E; try discriminate. apply lex_cmp_eq. exact E.
Qed.
