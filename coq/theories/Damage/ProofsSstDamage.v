(* Damage/ProofsSstDamage.v — what damage can do to an SST.
   (1) Damage outside the final block (data, index, filter frames): under the explicit hypothesis
       that the CRC tells the damaged payload of a frame from the original one, every read of the
       damaged file returns what the original returned or fails.
   (2) Damage confined to the unchecksummed tail (final block, trailing offset; also truncation
       inside it and any extension): if the file still opens and names the same index and filter
       frames, every entry and every point read is unchanged — only metadata() can differ. *)
From Coq Require Import NArith ZArith List Bool Lia ZifyN ZifyNat ZifyBool.
From Blue Require Import Gen.Const_Wire Wire.Model Wire.ModelMsg Wire.ProofsVarint.
From Blue Require Table.ModelBloom.
From Blue Require Import Damage.ModelOps Damage.ModelSst Damage.ProofsOps Damage.ProofsSstBlock.
Import ListNotations.
Open Scope N_scope.
Arguments N.add : simpl never. Arguments N.sub : simpl never. Arguments N.mul : simpl never.
Arguments N.div : simpl never. Arguments N.modulo : simpl never. Arguments N.leb : simpl never.
Arguments N.ltb : simpl never. Arguments N.eqb : simpl never. Arguments N.pow : simpl never.

Definition failed {A} (r : sres A) : Prop := match r with SOk _ => False | _ => True end.
Definition same_or_failed {A} (r' r : sres A) : Prop := r' = r \/ failed r'.

Lemma failed_bind_l : forall {A B} (r : sres A) (k : A -> sres B), failed r -> failed (sbind r k).
Proof. intros A B [a|e| | |] k H; cbn in *; try contradiction; auto. Qed.

(* the frame a file holds at a block's metadata, before the checksum is looked at *)
Definition payload_at (f : list N) (m : bmeta) : option (nat * list N) :=
  match read_at f (bm_start m) (bm_limit m - bm_start m) with
  | SOk buf => match msg_unpack SSTENTRY buf with
               | Ok (VV k (VB p), _) => Some (k, p)
               | _ => None
               end
  | _ => None
  end.

Section Damage.
  Variable crc : list N -> N.

  Lemma load_entry_inv : forall f m k p, load_entry crc f m = SOk (k, p) ->
    bm_start m < bm_limit m /\ payload_at f m = Some (k, p) /\ crc32 crc p = bm_crc m.
  Proof.
    intros f m k p H. unfold load_entry, meta_sanity in H. unfold payload_at.
    destruct (N.leb_spec (bm_limit m) (bm_start m)); cbn [sbind] in H; [discriminate|].
    destruct (read_at f (bm_start m) (bm_limit m - bm_start m)) as [buf|e| | |]; cbn [sbind] in H; try discriminate.
    destruct (msg_unpack SSTENTRY buf) as [[v rest]|e| |]; cbn [of_wire sbind fst] in H; try discriminate.
    destruct v as [z|bs|l|k0 [z|p0|l|k2 v2]]; try discriminate.
    destruct (N.eqb_spec (crc32 crc p0) (bm_crc m)); [|discriminate]. inversion H; subst. auto.
  Qed.

  Lemma load_entry_of_payload : forall f m k p, bm_start m < bm_limit m -> payload_at f m = Some (k, p) ->
    load_entry crc f m = if crc32 crc p =? bm_crc m then SOk (k, p) else SErr SCrc.
  Proof.
    intros f m k p Hs H. unfold load_entry, meta_sanity. unfold payload_at in H.
    destruct (N.leb_spec (bm_limit m) (bm_start m)); [lia|]. cbn [sbind].
    destruct (read_at f (bm_start m) (bm_limit m - bm_start m)) as [buf|e| | |]; try discriminate. cbn [sbind].
    destruct (msg_unpack SSTENTRY buf) as [[v rest]|e| |]; try discriminate. cbn [of_wire sbind fst].
    destruct v as [z|bs|l|k0 [z|p0|l|k2 v2]]; try discriminate. inversion H; subst. reflexivity.
  Qed.

  Lemma load_entry_no_payload : forall f m, payload_at f m = None -> failed (load_entry crc f m).
  Proof.
    intros f m H. unfold load_entry, meta_sanity. unfold payload_at in H.
    destruct (bm_limit m <=? bm_start m); cbn [sbind]; [exact I|].
    destruct (read_at f (bm_start m) (bm_limit m - bm_start m)) as [buf|e| | |]; cbn [sbind]; try exact I.
    destruct (msg_unpack SSTENTRY buf) as [[v rest]|e| |]; cbn [of_wire sbind fst]; try exact I.
    destruct v as [z|bs|l|k0 [z|p0|l|k2 v2]]; try exact I. discriminate.
  Qed.

  (* ============================================================ (1) checksummed frames *)
  (* THE hypotheses on crc, for every frame position (start, limit) at which the original file
     holds a frame with payload p and the damaged file a frame with payload p':

     crc_detects_payload — p' has the LENGTH of p: if it also has the checksum of p, it is p.
       This is the case of damage inside a payload (the envelope — tag and length varint — is
       intact).  CRC32C has this property whenever p' differs from p by one bit or by a burst of
       at most 32 bits (a fact about the polynomial, not proved here); for other differences it
       fails with probability about 2^-32 per frame.

     crc_detects_envelope — p' has ANOTHER length (the frame's length varint or tag was damaged;
       load_block does not check that the SstEntry fills [start, limit), so a shorter payload
       followed by unread bytes is decoded): then the checksums differ.  No property of CRC32C
       covers a change of length; this is an event of probability about 2^-32 per damaged
       envelope, assumed away here and sampled exhaustively by the check (every single-bit flip,
       byte overwrite and window over every envelope). *)
  Definition crc_detects_payload (f f' : list N) : Prop :=
    forall m k p k' p', payload_at f m = Some (k, p) -> payload_at f' m = Some (k', p') ->
                        len p' = len p -> crc32 crc p' = crc32 crc p -> p' = p.
  Definition crc_detects_envelope (f f' : list N) : Prop :=
    forall m k p k' p', payload_at f m = Some (k, p) -> payload_at f' m = Some (k', p') ->
                        len p' <> len p -> crc32 crc p' <> crc32 crc p.

  (* what the proofs below use: the two together *)
  Definition crc_detects (f f' : list N) : Prop :=
    forall m k p k' p', payload_at f m = Some (k, p) -> payload_at f' m = Some (k', p') ->
                        crc32 crc p' = crc32 crc p -> p' = p.

  Lemma crc_detects_of_split : forall f f', crc_detects_payload f f' -> crc_detects_envelope f f' -> crc_detects f f'.
  Proof.
    intros f f' Hp He m k p k' p' H1 H2 Hc.
    destruct (N.eq_dec (len p') (len p)) as [El|El]; [exact (Hp m k p k' p' H1 H2 El Hc)|].
    exfalso. exact (He m k p k' p' H1 H2 El Hc).
  Qed.

  Lemma crc_detects_split : forall f f', crc_detects f f' -> crc_detects_payload f f' /\ crc_detects_envelope f f'.
  Proof.
    intros f f' H. split.
    - intros m k p k' p' H1 H2 _ Hc. exact (H m k p k' p' H1 H2 Hc).
    - intros m k p k' p' H1 H2 Hl Hc. apply Hl. rewrite (H m k p k' p' H1 H2 Hc). reflexivity.
  Qed.

  Section Frames.
    Variables f f' : list N.
    Hypothesis Hdet : crc_detects f f'.

    Lemma load_entry_damaged : forall m k p, load_entry crc f m = SOk (k, p) ->
      (exists k', load_entry crc f' m = SOk (k', p)) \/ failed (load_entry crc f' m).
    Proof.
      intros m k p H. destruct (load_entry_inv f m k p H) as (Hs & Hp & Hc).
      destruct (payload_at f' m) as [[k' p']|] eqn:E'; [|right; apply load_entry_no_payload; exact E'].
      rewrite (load_entry_of_payload f' m k' p' Hs E').
      destruct (N.eqb_spec (crc32 crc p') (bm_crc m)) as [Ec|Ec]; [|right; exact I].
      left. exists k'. rewrite (Hdet m k p k' p' Hp E' ltac:(congruence)). reflexivity.
    Qed.

    Lemma load_block_damaged : forall m b, load_block crc f m = SOk b -> same_or_failed (load_block crc f' m) (SOk b).
    Proof.
      intros m b H. unfold load_block in *.
      destruct (load_entry crc f m) as [[k p]|e| | |] eqn:E; cbn [sbind fst snd] in H; try discriminate.
      destruct k as [|[|k]]; try discriminate.
      destruct (load_entry_damaged m O p E) as [[k' E']|Hf]; [|right; apply failed_bind_l; exact Hf].
      rewrite E'. cbn [sbind fst snd]. destruct k' as [|[|k']]; [left; exact H|right; exact I|right; exact I].
    Qed.

    Lemma load_filter_damaged : forall m flt, load_filter_block crc f m = SOk flt ->
      same_or_failed (load_filter_block crc f' m) (SOk flt).
    Proof.
      intros m flt H. unfold load_filter_block in *.
      destruct (load_entry crc f m) as [[k p]|e| | |] eqn:E; cbn [sbind fst snd] in H; try discriminate.
      destruct k as [|[|k]]; try discriminate.
      destruct (load_entry_damaged m 1%nat p E) as [[k' E']|Hf]; [|right; apply failed_bind_l; exact Hf].
      rewrite E'. cbn [sbind fst snd]. destruct k' as [|[|k']]; [right; exact I|left; exact H|right; exact I].
    Qed.

    (* the forward walk: the same entries, or a failure after a prefix of them *)
    Lemma walk_blocks_damaged : forall ies es, walk_blocks crc f ies = (es, WEnd) ->
      walk_blocks crc f' ies = (es, WEnd) \/
      (exists es' w, walk_blocks crc f' ies = (es', w) /\ w <> WEnd /\ exists tl, es = es' ++ tl).
    Proof.
      induction ies as [|[k m] ies IH]; intros es H; [left; exact H|].
      cbn [walk_blocks] in *.
      destruct (load_block crc f m) as [b|e| | |] eqn:Eb; try (inversion H; discriminate).
      destruct (load_block_damaged m b Eb) as [E'|Hf].
      - rewrite E'. destruct (iter_block b is_last PFirst) as [es1 r].
        destruct r as [q|e| | |]; try (inversion H; discriminate).
        destruct (walk_blocks crc f ies) as [es2 w] eqn:E2. inversion H; subst.
        destruct (IH es2 eq_refl) as [IH1|(es' & w' & IH1 & IH2 & tl & IH3)].
        + rewrite IH1. left. reflexivity.
        + rewrite IH1. right. exists (es1 ++ es'), w'. split; [reflexivity|]. split; [exact IH2|].
          exists tl. subst es2. now rewrite app_assoc.
      - right. destruct (load_block crc f' m) as [b'|e| | |]; cbn [failed] in Hf; try contradiction;
          (eexists; eexists; split; [reflexivity|]; split; [discriminate|exists es; reflexivity]).
    Qed.

    Lemma cross_damaged : forall stop ies r, cross crc f stop ies = SOk r ->
      same_or_failed (cross crc f' stop ies) (SOk r).
    Proof.
      intros stop. induction ies as [|[k m] ies IH]; intros r H; [left; exact H|].
      cbn [cross] in *.
      destruct (load_block crc f m) as [b|e| | |] eqn:Eb; cbn [sbind] in H; try discriminate.
      destruct (load_block_damaged m b Eb) as [E'|Hf]; [|right; apply failed_bind_l; exact Hf].
      rewrite E'. cbn [sbind].
      destruct (bc_next b PFirst) as [p1|e| | |]; cbn [sbind] in *; try discriminate.
      destruct (is_at p1); [|apply IH; exact H].
      destruct (snd (iter_next (block_fo b) (block_fi b) b stop p1 [])) as [p2|e| | |]; cbn [sbind] in *; try discriminate.
      destruct (is_at p2); [left; exact H|apply IH; exact H].
    Qed.
    Lemma walk_back_blocks_damaged : forall ies es, walk_back_blocks crc f ies = (es, WEnd) ->
      walk_back_blocks crc f' ies = (es, WEnd) \/
      (exists es' w, walk_back_blocks crc f' ies = (es', w) /\ w <> WEnd /\ exists tl, es = es' ++ tl).
    Proof.
      induction ies as [|[k m] ies IH]; intros es H; [left; exact H|].
      cbn [walk_back_blocks] in *.
      destruct (load_block crc f m) as [b|e| | |] eqn:Eb; try (inversion H; discriminate).
      destruct (load_block_damaged m b Eb) as [E'|Hf].
      - rewrite E'. destruct (back_block b) as [es1 r].
        destruct r as [q|e| | |]; try (inversion H; discriminate).
        destruct (walk_back_blocks crc f ies) as [es2 w] eqn:E2. inversion H; subst.
        destruct (IH es2 eq_refl) as [IH1|(es' & w' & IH1 & IH2 & tl & IH3)].
        + rewrite IH1. left. reflexivity.
        + rewrite IH1. right. exists (es1 ++ es'), w'. split; [reflexivity|]. split; [exact IH2|].
          exists tl. subst es2. now rewrite app_assoc.
      - right. destruct (load_block crc f' m) as [b'|e| | |]; cbn [failed] in Hf; try contradiction;
          (eexists; eexists; split; [reflexivity|]; split; [discriminate|exists es; reflexivity]).
    Qed.

    Lemma cross_back_damaged : forall ies r, cross_back crc f ies = SOk r ->
      same_or_failed (cross_back crc f' ies) (SOk r).
    Proof.
      induction ies as [|[k m] ies IH]; intros r H; [left; exact H|].
      cbn [cross_back] in *.
      destruct (load_block crc f m) as [b|e| | |] eqn:Eb; cbn [sbind] in H; try discriminate.
      destruct (load_block_damaged m b Eb) as [E'|Hf]; [|right; apply failed_bind_l; exact Hf].
      rewrite E'. cbn [sbind].
      destruct (bc_prev b PLast) as [q|e| | |]; cbn [sbind] in *; try discriminate.
      destruct (is_at q); [left; exact H|apply IH; exact H].
    Qed.
  End Frames.

  (* a table as the damaged file presents it when nothing but the bytes differs *)
  Definition with_file (t : sst) (g : list N) : sst :=
    {| t_file := g; t_final := t_final t; t_index := t_index t; t_filter := t_filter t; t_size := t_size t |}.

  (* opening: the trailing offset and the final block are intact, so the same two frames are
     loaded; each is the same or fails *)
  Lemma sst_open_damaged : forall f f' t, crc_detects f f' -> len f' = len f ->
    sst_open crc f = SOk t ->
    slice f' (len f - 8) 8 = slice f (len f - 8) 8 ->
    (let fbo := of_le_bytes (firstn 8 (slice f (len f - 8) 8)) in
     fbo <= len f -> slice f' fbo (len f - fbo) = slice f fbo (len f - fbo)) ->
    same_or_failed (sst_open crc f') (SOk (with_file t f')).
  Proof.
    intros f f' t Hdet Hlen H Htr Htail. unfold sst_open in *. rewrite Hlen.
    destruct (N.ltb_spec (len f) 8); [discriminate|].
    unfold read_at in *. rewrite Hlen.
    destruct (N.ltb_spec (len f) 8); [lia|].
    destruct (N.leb_spec (len f - 8 + 8) (len f)); [|lia]. cbn [sbind] in *. rewrite Htr.
    rewrite le_unpack_ok in * by (rewrite slice_length; cbn; lia).
    cbn [of_wire sbind fst] in *. cbv zeta in Htail.
    set (fbo := of_le_bytes (firstn 8 (slice f (len f - 8) 8))) in *.
    destruct (N.ltb_spec (len f) fbo); [discriminate|].
    replace (len f - 8 + 8 - fbo) with (len f - fbo) in * by lia.
    destruct (N.ltb_spec (len f) (len f - fbo)); [lia|].
    destruct (N.leb_spec (fbo + (len f - fbo)) (len f)); [|lia]. cbn [sbind] in *.
    rewrite Htail by lia.
    destruct (msg_unpack FB (slice f fbo (len f - fbo))) as [[v rest]|e| |]; cbn [of_wire sbind fst] in *; try discriminate.
    set (fb := fb_of_val v) in *.
    destruct (meta_sanity (fb_index fb)) as [[]|e| | |]; cbn [sbind] in *; try discriminate.
    destruct (meta_sanity (fb_filter fb)) as [[]|e| | |]; cbn [sbind] in *; try discriminate.
    destruct (bm_start (fb_filter fb) <? bm_limit (fb_index fb)); [discriminate|].
    destruct (fbo <? bm_limit (fb_filter fb)); [discriminate|].
    destruct (load_block crc f (fb_index fb)) as [ib|e| | |] eqn:Ei; cbn [sbind] in H; try discriminate.
    destruct (load_block_damaged f f' Hdet _ _ Ei) as [E'|Hf]; [|right; apply failed_bind_l; exact Hf].
    rewrite E'. cbn [sbind].
    destruct (load_index_entries ib) as [ies|e| | |]; cbn [sbind] in *; try discriminate.
    destruct (check_index (bm_start (fb_index fb)) ies) as [[]|e| | |]; cbn [sbind] in *; try discriminate.
    destruct (load_filter_block crc f (fb_filter fb)) as [flt|e| | |] eqn:Ef; cbn [sbind] in H; try discriminate.
    destruct (load_filter_damaged f f' Hdet _ _ Ef) as [E2|Hf]; [|right; apply failed_bind_l; exact Hf].
    rewrite E2. cbn [sbind]. left. inversion H; subst. reflexivity.
  Qed.

  (* where the unchecksummed tail of a file starts: the final block offset its last eight bytes
     name, or the trailing offset itself if that comes first *)
  Definition tail_start (f : list N) : N :=
    N.min (of_le_bytes (firstn 8 (slice f (len f - 8) 8))) (len f - 8).

  Lemma sst_open_damaged' : forall f f' t, crc_detects f f' -> len f' = len f ->
    agree_on (tail_start f) (len f) f f' ->
    sst_open crc f = SOk t ->
    same_or_failed (sst_open crc f') (SOk (with_file t f')).
  Proof.
    intros f f' t Hdet Hlen Ha H.
    assert (H8 : 8 <= len f).
    { unfold sst_open in H. destruct (N.ltb_spec (len f) 8); [discriminate|assumption]. }
    apply (sst_open_damaged f f' t Hdet Hlen H).
    - apply slice_agree; [lia|lia|]. apply agree_on_sym. eapply agree_on_sub; [| |exact Ha]; unfold tail_start; lia.
    - cbv zeta. intros Hf.
      apply slice_agree; [lia|lia|]. apply agree_on_sym. eapply agree_on_sub; [| |exact Ha]; unfold tail_start; lia.
  Qed.

  Lemma sst_walk_damaged : forall t f', crc_detects (t_file t) f' -> forall es,
    sst_walk crc t = (es, WEnd) ->
    sst_walk crc (with_file t f') = (es, WEnd) \/
    (exists es' w, sst_walk crc (with_file t f') = (es', w) /\ w <> WEnd /\ exists tl, es = es' ++ tl).
  Proof. intros t f' Hdet es H. unfold sst_walk in *. cbn [with_file t_file t_index]. apply (walk_blocks_damaged (t_file t) f' Hdet). exact H. Qed.

  Lemma sst_walk_back_damaged : forall t f', crc_detects (t_file t) f' -> forall es,
    sst_walk_back crc t = (es, WEnd) ->
    sst_walk_back crc (with_file t f') = (es, WEnd) \/
    (exists es' w, sst_walk_back crc (with_file t f') = (es', w) /\ w <> WEnd /\ exists tl, es = es' ++ tl).
  Proof. intros t f' Hdet es H. unfold sst_walk_back in *. cbn [with_file t_file t_index]. apply (walk_back_blocks_damaged (t_file t) f' Hdet). exact H. Qed.

  Lemma sst_meta_keys_damaged : forall t f' r, crc_detects (t_file t) f' ->
    sst_meta_keys crc t = SOk r -> same_or_failed (sst_meta_keys crc (with_file t f')) (SOk r).
  Proof.
    intros t f' r Hdet H. unfold sst_meta_keys, sst_first_key, sst_last_key in *. cbn [with_file t_file t_index].
    destruct (cross crc (t_file t) (fun _ => true) (t_index t)) as [kv|e| | |] eqn:E1; cbn [sbind] in H; try discriminate.
    destruct (cross_damaged _ f' Hdet _ _ _ E1) as [E1'|Hf]; [|right; do 2 apply failed_bind_l; exact Hf].
    rewrite E1'. cbn [sbind].
    destruct (cross_back crc (t_file t) (rev (t_index t))) as [kv2|e| | |] eqn:E2; cbn [sbind] in H; try discriminate.
    destruct (cross_back_damaged _ f' Hdet _ _ E2) as [E2'|Hf]; [|right; apply failed_bind_l; apply failed_bind_l; exact Hf].
    rewrite E2'. cbn [sbind]. left. exact H.
  Qed.

  Section PointReads.
  Variable sip : list N -> N.
  Variable pp : list (list N) -> list N -> N.

  Lemma sc_seek_damaged : forall t f' key r, crc_detects (t_file t) f' ->
    sc_seek crc pp t key = SOk r -> same_or_failed (sc_seek crc pp (with_file t f') key) (SOk r).
  Proof.
    intros t f' key r Hdet H. unfold sc_seek in *. cbn [with_file t_file t_index]. unfold nth_meta in *. cbn [with_file t_index].
    destruct (N.of_nat (length (t_index t)) <=? pp (map fst (t_index t)) key); [left; exact H|].
    destruct (nth_error (t_index t) (N.to_nat (pp (map fst (t_index t)) key))) as [[k m]|]; cbn [sbind] in *; [|discriminate].
    destruct (load_block crc (t_file t) m) as [b|e| | |] eqn:Eb; cbn [sbind] in H; try discriminate.
    destruct (load_block_damaged _ f' Hdet m b Eb) as [E'|Hf]; [|right; apply failed_bind_l; exact Hf].
    rewrite E'. cbn [sbind].
    destruct (bc_seek b PFirst key) as [p|e| | |]; cbn [sbind] in *; try discriminate.
    destruct (is_at p); [left; exact H|].
    destruct (N.of_nat (length (t_index t)) <=? pp (map fst (t_index t)) key + 1); [left; exact H|].
    destruct (nth_error (t_index t) (N.to_nat (pp (map fst (t_index t)) key + 1))) as [[k2 m2]|]; cbn [sbind] in *; [|discriminate].
    destruct (load_block crc (t_file t) m2) as [b2|e| | |] eqn:Eb2; cbn [sbind] in H; try discriminate.
    destruct (load_block_damaged _ f' Hdet m2 b2 Eb2) as [E2|Hf]; [|right; apply failed_bind_l; exact Hf].
    rewrite E2. cbn [sbind]. left. exact H.
  Qed.

  Lemma sst_load_damaged : forall t f' key ts r, crc_detects (t_file t) f' ->
    sst_load crc sip pp t key ts = SOk r -> same_or_failed (sst_load crc sip pp (with_file t f') key ts) (SOk r).
  Proof.
    intros t f' key ts r Hdet H. unfold sst_load in *. cbn [with_file t_filter].
    destruct (Table.ModelBloom.filter_check (t_filter t) (sip key mod W64)) as [[|]|]; [|left; exact H|discriminate].
    destruct (sc_seek crc pp t key) as [[idx o]|e| | |] eqn:Es; cbn [sbind] in H; try discriminate.
    destruct (sc_seek_damaged t f' key _ Hdet Es) as [E'|Hf]; [|right; apply failed_bind_l; exact Hf].
    rewrite E'. cbn [sbind snd fst] in *.
    destruct o as [[b p]|]; [|left; exact H].
    destruct (is_at p); [|left; exact H].
    destruct (snd (iter_next (block_fo b) (block_fi b) b (fun q => negb (lt_target key ts q)) p [])) as [p2|e| | |];
      cbn [sbind] in *; try discriminate.
    destruct (is_at p2); [left; exact H|].
    cbn [with_file t_file t_index].
    destruct (cross crc (t_file t) (fun q => negb (lt_target key ts q)) (skipn (S (N.to_nat idx)) (t_index t))) as [kv|e| | |] eqn:Ec;
      cbn [sbind] in H; try discriminate.
    destruct (cross_damaged _ f' Hdet _ _ _ Ec) as [E2|Hf]; [|right; apply failed_bind_l; exact Hf].
    rewrite E2. cbn [sbind]. left. exact H.
  Qed.

  End PointReads.

  (* ============================================================ (2) the unchecksummed tail *)
  (* reads below a common, intact prefix are the same in both files *)
  Lemma read_at_agree : forall f f' L s n, agree_on 0 L f f' -> L <= len f -> L <= len f' -> s + n <= L ->
    read_at f' s n = read_at f s n.
  Proof.
    intros f f' L s n Ha Hf Hf' Hs. unfold read_at.
    destruct (N.ltb_spec (len f') n); [lia|]. destruct (N.ltb_spec (len f) n); [lia|].
    destruct (N.leb_spec (s + n) (len f')); [|lia]. destruct (N.leb_spec (s + n) (len f)); [|lia].
    f_equal. symmetry. apply slice_agree; [lia|lia|]. eapply agree_on_sub; [| |exact Ha]; lia.
  Qed.

  Lemma load_entry_agree : forall f f' L m, agree_on 0 L f f' -> L <= len f -> L <= len f' -> bm_limit m <= L ->
    load_entry crc f' m = load_entry crc f m.
  Proof.
    intros f f' L m Ha Hf Hf' Hm. unfold load_entry, meta_sanity.
    destruct (N.leb_spec (bm_limit m) (bm_start m)); cbn [sbind]; [reflexivity|].
    rewrite (read_at_agree f f' L) by (try assumption; lia). reflexivity.
  Qed.

  Lemma load_block_agree : forall f f' L m, agree_on 0 L f f' -> L <= len f -> L <= len f' -> bm_limit m <= L ->
    load_block crc f' m = load_block crc f m.
  Proof. intros. unfold load_block. erewrite load_entry_agree by eassumption. reflexivity. Qed.

  Lemma load_filter_agree : forall f f' L m, agree_on 0 L f f' -> L <= len f -> L <= len f' -> bm_limit m <= L ->
    load_filter_block crc f' m = load_filter_block crc f m.
  Proof. intros. unfold load_filter_block. erewrite load_entry_agree by eassumption. reflexivity. Qed.

  Lemma walk_blocks_agree : forall f f' L ies, agree_on 0 L f f' -> L <= len f -> L <= len f' ->
    Forall (fun km => bm_limit (snd km) <= L) ies -> walk_blocks crc f' ies = walk_blocks crc f ies.
  Proof.
    intros f f' L ies Ha Hf Hf'. induction ies as [|[k m] ies IH]; intros H; [reflexivity|].
    inversion H as [|? ? Hm Hr]; subst. cbn [walk_blocks]. cbn [snd] in Hm.
    rewrite (load_block_agree f f' L m) by assumption. rewrite (IH Hr). reflexivity.
  Qed.

  Lemma cross_agree : forall f f' L stop ies, agree_on 0 L f f' -> L <= len f -> L <= len f' ->
    Forall (fun km => bm_limit (snd km) <= L) ies -> cross crc f' stop ies = cross crc f stop ies.
  Proof.
    intros f f' L stop ies Ha Hf Hf'. induction ies as [|[k m] ies IH]; intros H; [reflexivity|].
    inversion H as [|? ? Hm Hr]; subst. cbn [cross]. cbn [snd] in Hm.
    rewrite (load_block_agree f f' L m) by assumption. rewrite (IH Hr). reflexivity.
  Qed.

  Lemma walk_back_blocks_agree : forall f f' L ies, agree_on 0 L f f' -> L <= len f -> L <= len f' ->
    Forall (fun km => bm_limit (snd km) <= L) ies -> walk_back_blocks crc f' ies = walk_back_blocks crc f ies.
  Proof.
    intros f f' L ies Ha Hf Hf'. induction ies as [|[k m] ies IH]; intros H; [reflexivity|].
    inversion H as [|? ? Hm Hr]; subst. cbn [walk_back_blocks]. cbn [snd] in Hm.
    rewrite (load_block_agree f f' L m) by assumption. rewrite (IH Hr). reflexivity.
  Qed.

  Lemma cross_back_agree : forall f f' L ies, agree_on 0 L f f' -> L <= len f -> L <= len f' ->
    Forall (fun km => bm_limit (snd km) <= L) ies -> cross_back crc f' ies = cross_back crc f ies.
  Proof.
    intros f f' L ies Ha Hf Hf'. induction ies as [|[k m] ies IH]; intros H; [reflexivity|].
    inversion H as [|? ? Hm Hr]; subst. cbn [cross_back]. cbn [snd] in Hm.
    rewrite (load_block_agree f f' L m) by assumption. rewrite (IH Hr). reflexivity.
  Qed.

  (* what a successful open guarantees about where the frames lie *)
  Lemma check_index_bound : forall i ies, check_index i ies = SOk tt -> Forall (fun km => bm_limit (snd km) <= i) ies.
  Proof.
    induction ies as [|[k m] ies IH]; intros H; [constructor|]. cbn [check_index] in H. unfold meta_sanity in H.
    destruct (bm_limit m <=? bm_start m); cbn [sbind] in H; [discriminate|].
    destruct (N.ltb_spec i (bm_limit m)); [discriminate|]. constructor; [exact H0|apply IH; exact H].
  Qed.

  Lemma sst_open_layout : forall f t, sst_open crc f = SOk t ->
    t_file t = f /\
    bm_start (fb_index (t_final t)) < bm_limit (fb_index (t_final t)) /\
    bm_limit (fb_index (t_final t)) <= bm_start (fb_filter (t_final t)) /\
    bm_start (fb_filter (t_final t)) < bm_limit (fb_filter (t_final t)) /\
    bm_limit (fb_filter (t_final t)) <= len f /\
    Forall (fun km => bm_limit (snd km) <= bm_start (fb_index (t_final t))) (t_index t) /\
    (exists ib, load_block crc f (fb_index (t_final t)) = SOk ib /\ load_index_entries ib = SOk (t_index t)) /\
    load_filter_block crc f (fb_filter (t_final t)) = SOk (t_filter t).
  Proof.
    intros f t H. unfold sst_open in H.
    destruct (N.ltb_spec (len f) 8); [discriminate|].
    destruct (read_at f (len f - 8) 8) as [buf|e| | |]; cbn [sbind] in H; try discriminate.
    destruct (le_unpack 8 buf) as [[fbo r0]|e| |]; cbn [of_wire sbind fst] in H; try discriminate.
    destruct (N.ltb_spec (len f) fbo); [discriminate|].
    destruct (read_at f fbo (len f - 8 + 8 - fbo)) as [buf2|e| | |]; cbn [sbind] in H; try discriminate.
    destruct (msg_unpack FB buf2) as [[v rest]|e| |]; cbn [of_wire sbind fst] in H; try discriminate.
    set (fb := fb_of_val v) in *. unfold meta_sanity in H.
    destruct (N.leb_spec (bm_limit (fb_index fb)) (bm_start (fb_index fb))); cbn [sbind] in H; [discriminate|].
    destruct (N.leb_spec (bm_limit (fb_filter fb)) (bm_start (fb_filter fb))); cbn [sbind] in H; [discriminate|].
    destruct (N.ltb_spec (bm_start (fb_filter fb)) (bm_limit (fb_index fb))); [discriminate|].
    destruct (N.ltb_spec fbo (bm_limit (fb_filter fb))); [discriminate|].
    destruct (load_block crc f (fb_index fb)) as [ib|e| | |] eqn:Ei; cbn [sbind] in H; try discriminate.
    destruct (load_index_entries ib) as [ies|e| | |] eqn:Eie; cbn [sbind] in H; try discriminate.
    destruct (check_index (bm_start (fb_index fb)) ies) as [[]|e| | |] eqn:Eci; cbn [sbind] in H; try discriminate.
    destruct (load_filter_block crc f (fb_filter fb)) as [flt|e| | |] eqn:Ef; cbn [sbind] in H; try discriminate.
    inversion H; subst. cbn [t_file t_final t_index t_filter].
    repeat split; try assumption; try lia.
    - apply check_index_bound. exact Eci.
    - exists ib. auto.
  Qed.

  Variable sip : list N -> N.
  Variable pp : list (list N) -> list N -> N.

  (* Both files open, the damaged one names the same index and filter frames, and the two files
     agree below the end of the filter frame (everything the checksums cover): the tables hold the
     same index, the same filter, and every walk and point read gives the same answer. *)
  Lemma tail_damage_harmless : forall f f' t t',
    sst_open crc f = SOk t -> sst_open crc f' = SOk t' ->
    fb_index (t_final t') = fb_index (t_final t) -> fb_filter (t_final t') = fb_filter (t_final t) ->
    agree_on 0 (bm_limit (fb_filter (t_final t))) f f' ->
    t_index t' = t_index t /\ t_filter t' = t_filter t /\
    sst_walk crc t' = sst_walk crc t /\
    sst_walk_back crc t' = sst_walk_back crc t /\
    sst_meta_keys crc t' = sst_meta_keys crc t /\
    (forall key ts, sst_load crc sip pp t' key ts = sst_load crc sip pp t key ts).
  Proof.
    intros f f' t t' Ho Ho' Hi Hf Ha.
    destruct (sst_open_layout f t Ho) as (Hfile & L1 & L2 & L3 & L4 & L5 & (ib & L6 & L7) & L8).
    destruct (sst_open_layout f' t' Ho') as (Hfile' & L1' & L2' & L3' & L4' & L5' & (ib' & L6' & L7') & L8').
    rewrite Hi, Hf in *. set (L := bm_limit (fb_filter (t_final t))) in *.
    assert (Eib : ib' = ib).
    { rewrite (load_block_agree f f' L) in L6' by (try assumption; lia). congruence. }
    subst ib'.
    assert (Eidx : t_index t' = t_index t) by congruence.
    assert (Eflt : t_filter t' = t_filter t).
    { rewrite (load_filter_agree f f' L) in L8' by (try assumption; lia). congruence. }
    assert (Hall : Forall (fun km => bm_limit (snd km) <= L) (t_index t)).
    { eapply Forall_impl; [|exact L5]. cbn beta. intros km Hkm. lia. }
    split; [exact Eidx|]. split; [exact Eflt|].
    assert (Hrev : Forall (fun km => bm_limit (snd km) <= L) (rev (t_index t))) by (apply Forall_rev; exact Hall).
    split; [|split; [|split]].
    - unfold sst_walk. rewrite Hfile, Hfile', Eidx. apply (walk_blocks_agree f f' L); assumption.
    - unfold sst_walk_back. rewrite Hfile, Hfile', Eidx. apply (walk_back_blocks_agree f f' L); assumption.
    - unfold sst_meta_keys, sst_first_key, sst_last_key. rewrite Hfile, Hfile', Eidx.
      rewrite (cross_agree f f' L) by assumption. rewrite (cross_back_agree f f' L) by assumption. reflexivity.
    - intros key ts. unfold sst_load. rewrite Eflt.
      destruct (Table.ModelBloom.filter_check (t_filter t) (sip key mod W64)) as [[|]|]; try reflexivity.
      assert (Hseek : sc_seek crc pp t' key = sc_seek crc pp t key).
      { unfold sc_seek, nth_meta. rewrite Eidx, Hfile, Hfile'.
        destruct (N.of_nat (length (t_index t)) <=? pp (map fst (t_index t)) key); [reflexivity|].
        destruct (nth_error (t_index t) (N.to_nat (pp (map fst (t_index t)) key))) as [[k m]|] eqn:En; [|reflexivity]. cbn [sbind].
        assert (Hm : bm_limit m <= L).
        { rewrite Forall_forall in Hall. apply (Hall (k, m)). eapply nth_error_In; eassumption. }
        rewrite (load_block_agree f f' L m) by assumption.
        destruct (load_block crc f m) as [b|e| | |]; cbn [sbind]; try reflexivity.
        destruct (bc_seek b PFirst key) as [p|e| | |]; cbn [sbind]; try reflexivity.
        destruct (is_at p); [reflexivity|].
        destruct (N.of_nat (length (t_index t)) <=? pp (map fst (t_index t)) key + 1); [reflexivity|].
        destruct (nth_error (t_index t) (N.to_nat (pp (map fst (t_index t)) key + 1))) as [[k2 m2]|] eqn:En2; [|reflexivity]. cbn [sbind].
        assert (Hm2 : bm_limit m2 <= L).
        { rewrite Forall_forall in Hall. apply (Hall (k2, m2)). eapply nth_error_In; eassumption. }
        rewrite (load_block_agree f f' L m2) by assumption. reflexivity. }
      rewrite Hseek. destruct (sc_seek crc pp t key) as [[idx o]|e| | |]; cbn [sbind snd fst]; try reflexivity.
      destruct o as [[b p]|]; [|reflexivity]. destruct (is_at p); [|reflexivity].
      destruct (snd (iter_next (block_fo b) (block_fi b) b (fun q => negb (lt_target key ts q)) p [])) as [p2|e| | |];
        cbn [sbind]; try reflexivity.
      destruct (is_at p2); [reflexivity|]. rewrite Hfile, Hfile', Eidx.
      rewrite (cross_agree f f' L) by (try assumption; rewrite Forall_forall in *; intros km Hkm; apply Hall; eapply In_skipn'; exact Hkm).
      reflexivity.
  Qed.
End Damage.
