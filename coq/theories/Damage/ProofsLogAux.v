(* Damage/ProofsLogAux.v — auxiliary lemmas for Damage/ProofsLog.v about the consumer's loop of the
   write-ahead-log reader (Log/Model.v): `Reads` is deterministic, does not depend on the fuel of
   the zero-skipping loop once that exceeds the remaining input, agrees with `read_all`, and a
   sequence of appends read from where it starts yields the successfully appended batches followed
   by WHATEVER reading the bytes after them yields (those bytes are arbitrary).
   No property of the crc function is used anywhere in this file. *)
From Coq Require Import NArith ZArith List Bool Lia Arith PeanoNat.
From Blue Require Import Gen.Const_Log Log.ModelWire Log.Model Log.ProofsWire Log.ProofsWriter
  Log.ProofsReader Log.ProofsTop Log.ProofsTotal.
Import ListNotations.
Open Scope N_scope.

Arguments N.add : simpl never.
Arguments N.sub : simpl never.
Arguments N.mul : simpl never.
Arguments N.div : simpl never.
Arguments N.modulo : simpl never.
Arguments N.leb : simpl never.
Arguments N.ltb : simpl never.
Arguments N.eqb : simpl never.
Arguments N.pred : simpl never.
Arguments N.of_nat : simpl never.
Arguments N.to_nat : simpl never.
Arguments N.shiftl : simpl never.
Arguments N.shiftr : simpl never.
Arguments N.pow : simpl never.

Lemma ok_batches_app : forall rs1 rs2 ess1 ess2,
  length rs1 = length ess1 ->
  ok_batches (rs1 ++ rs2) (ess1 ++ ess2) = ok_batches rs1 ess1 ++ ok_batches rs2 ess2.
Proof.
  induction rs1 as [|[r1 e1] rs1 IH]; intros rs2 ess1 ess2 HL.
  - destruct ess1; [reflexivity|discriminate].
  - destruct ess1 as [|es ess1]; [discriminate|]. cbn [app]. rewrite !ok_batches_cons.
    cbn [length] in HL. injection HL as HL. rewrite (IH rs2 ess1 ess2 HL).
    destruct (is_ok r1); reflexivity.
Qed.

Section LogAux.
  Variable bits : N.
  Variable crc : list N -> N.

  (* ---------------------------------------------------------------- Reads is a function *)
  Lemma reads_det : forall hf st es r, Reads bits crc hf st es r ->
    forall es' r', Reads bits crc hf st es' r' -> es' = es /\ r' = r.
  Proof.
    induction 1 as [st H|st e st' H|st e st1 es r H HR IH]; intros es' r' H'.
    - inversion H'; subst; try congruence. split; reflexivity.
    - inversion H' as [st0 H0|st0 e0 st0' H0|st0 e0 st2 es0 r0 H0 HR0]; subst; try congruence.
      rewrite H in H0. inversion H0; subst. split; reflexivity.
    - inversion H' as [st0 H0|st0 e0 st0' H0|st0 e0 st2 es0 r0 H0 HR0]; subst; try congruence.
      rewrite H in H0. inversion H0; subst.
      destruct (IH _ _ HR0) as [-> ->]. split; reflexivity.
  Qed.

  Lemma reads_not_fuel : forall hf st es r, Reads bits crc hf st es r -> r <> RFuel.
  Proof. induction 1; try discriminate; assumption. Qed.

  (* read_all computes Reads whenever it does not run out of fuel *)
  Lemma read_all_reads : forall hf fuel st es r,
    read_all bits crc hf fuel st = (es, r) -> r <> RFuel -> Reads bits crc hf st es r.
  Proof.
    intros hf fuel. induction fuel as [|fuel IH]; intros st es r H Hr; cbn [read_all] in H.
    - inversion H; subst. contradiction.
    - destruct (next bits crc hf st) as [|e0 st0| |e st1] eqn:E.
      + inversion H; subst. now apply ReadsEnd.
      + inversion H; subst. eapply ReadsErr; eassumption.
      + inversion H; subst. contradiction.
      + destruct (read_all bits crc hf fuel st1) as [es1 r1] eqn:E1.
        inversion H; subst. eapply ReadsEntry; [exact E|]. apply IH; [exact E1|exact Hr].
  Qed.

  (* on arbitrary bytes: the loop relation has a result (read_log_total as a relation) *)
  Lemma reads_total : forall hf st, (length (r_rest st) < hf)%nat ->
    exists es r, Reads bits crc hf st es r /\ r <> RFuel.
  Proof.
    intros hf st Hhf.
    destruct (read_all_total bits crc hf (S (mu st)) st Hhf (Nat.lt_succ_diag_r _)) as (es & r & E & Hr & _).
    exists es, r. split; [|exact Hr]. eapply read_all_reads; eassumption.
  Qed.

  (* ---------------------------------------------------------------- independence of the header fuel *)
  Lemma next_header_fuel' : forall f1 f2 pos rest,
    (length rest < f1)%nat -> (length rest < f2)%nat ->
    next_header bits f1 pos rest = next_header bits f2 pos rest.
  Proof.
    induction f1 as [|f1 IH]; intros f2 pos rest H1 H2; [inversion H1|].
    destruct f2 as [|f2]; [inversion H2|].
    cbn [next_header]. destruct rest as [|b rest1]; [reflexivity|].
    destruct (b =? 0); [|reflexivity].
    destruct (r_true_up bits (pos + 1) rest1) as [[pos2 rest2]|] eqn:T; [|reflexivity].
    apply r_true_up_len in T. cbn [length] in H1, H2. apply IH; lia.
  Qed.

  Lemma next_frame_fuel : forall f1 f2 pos rest buf,
    (length rest < f1)%nat -> (length rest < f2)%nat ->
    next_frame bits crc f1 pos rest buf = next_frame bits crc f2 pos rest buf.
  Proof.
    intros f1 f2 pos rest buf H1 H2. unfold next_frame.
    rewrite (next_header_fuel' f1 f2 pos rest H1 H2). reflexivity.
  Qed.

  Lemma next_fuel : forall f1 f2 st,
    (length (r_rest st) < f1)%nat -> (length (r_rest st) < f2)%nat ->
    next bits crc f1 st = next bits crc f2 st.
  Proof.
    intros f1 f2 [pos rest pend] H1 H2. cbn [r_rest] in H1, H2. unfold next. cbn [r_pos r_rest r_pend].
    destruct pend as [|x pend']; [|reflexivity].
    rewrite (next_frame_fuel f1 f2 pos rest [] H1 H2).
    destruct (next_frame bits crc f2 pos rest []) as [| | |h pos1 rest1 buf1] eqn:F1; try reflexivity.
    apply next_frame_some in F1. destruct F1 as (body1 & _ & L1).
    destruct (h_disc h =? HEADER_WHOLE); [reflexivity|].
    destruct (h_disc h =? HEADER_FIRST); [|reflexivity].
    destruct (r_true_up bits pos1 rest1) as [[pos2 rest2]|] eqn:T; [|reflexivity].
    apply r_true_up_len in T.
    rewrite (next_frame_fuel f1 f2 pos2 rest2 buf1) by lia. reflexivity.
  Qed.

  Lemma reads_fuel : forall f1 st es r, Reads bits crc f1 st es r ->
    forall f2, (length (r_rest st) < f1)%nat -> (length (r_rest st) < f2)%nat ->
    Reads bits crc f2 st es r.
  Proof.
    induction 1 as [st H|st e st' H|st e st1 es r H HR IH]; intros f2 H1 H2.
    - apply ReadsEnd. rewrite <- H. symmetry. now apply next_fuel.
    - apply (ReadsErr bits crc f2 st e st'). rewrite <- H. symmetry. now apply next_fuel.
    - pose proof (next_progress bits crc f1 st H1) as P. rewrite H in P. destruct P as [_ P].
      eapply ReadsEntry.
      + rewrite <- H. symmetry. now apply next_fuel.
      + apply IH; lia.
  Qed.

  (* ---------------------------------------------------------------- appends *)
  Lemma append_all_app : forall rollover b1 b2 st,
    append_all bits crc rollover st (b1 ++ b2) =
    let '(rs1, st1) := append_all bits crc rollover st b1 in
    let '(rs2, st2) := append_all bits crc rollover st1 b2 in
    (rs1 ++ rs2, st2).
  Proof.
    intros rollover b1. induction b1 as [|b b1 IH]; intros b2 st.
    - cbn [app append_all]. destruct (append_all bits crc rollover st b2); reflexivity.
    - cbn [app]. rewrite !append_all_cons.
      destruct (append bits crc rollover st b) as [r st1].
      rewrite IH.
      destruct (append_all bits crc rollover st1 b1) as [rs1 st2].
      destruct (append_all bits crc rollover st2 b2) as [rs2 st3]. reflexivity.
  Qed.

  Lemma append_all_length : forall rollover bufs st rs st',
    append_all bits crc rollover st bufs = (rs, st') -> length rs = length bufs.
  Proof.
    intros rollover bufs. induction bufs as [|b bufs IH]; intros st rs st' H.
    - cbn [append_all] in H. inversion H; subst. reflexivity.
    - rewrite append_all_cons in H.
      destruct (append bits crc rollover st b) as [r st1].
      destruct (append_all bits crc rollover st1 bufs) as [rs' st2] eqn:E2.
      inversion H; subst. cbn [length]. f_equal. eapply IH. exact E2.
  Qed.

  Hypothesis HB : HEADER_MAX_SIZE < 2 ^ bits.

  (* THE main lemma of this file (the `Complete` half of Log.ProofsReader.read_written with an
     arbitrary continuation): the bytes S a sequence of appends adds to the file, followed by ANY
     bytes X, read from where S starts: the entries of the batches whose append returned Ok, in
     order, then exactly what reading X from the end of S with an empty buffer gives. *)
  Lemma read_written_then : forall rollover ess st rs st',
    wf_w st -> Forall (Forall wf_entry) ess ->
    append_all bits crc rollover st (map ebytes ess) = (rs, st') ->
    wf_w st' /\
    exists S, w_file st' = w_file st ++ S /\
      forall X hf es2 r2, (length (S ++ X) < hf)%nat ->
        Reads bits crc hf {| r_pos := w_bw st'; r_rest := X; r_pend := [] |} es2 r2 ->
        Reads bits crc hf {| r_pos := w_bw st; r_rest := S ++ X; r_pend := [] |}
              (concat (ok_batches rs ess) ++ es2) r2.
  Proof.
    intros rollover ess. induction ess as [|es ess IH]; intros st rs st' Hwf Hes H.
    - cbn [map append_all] in H. inversion H; subst. split; [exact Hwf|].
      exists []. split; [now rewrite app_nil_r|].
      intros X hf es2 r2 _ HR. cbn [app]. exact HR.
    - cbn [map] in H. rewrite append_all_cons in H.
      destruct (append bits crc rollover st (ebytes es)) as [r1 st1] eqn:E1.
      destruct (append_all bits crc rollover st1 (map ebytes ess)) as [rs' st2] eqn:E2.
      inversion H; subst rs st2. clear H.
      inversion Hes as [|? ? Hwes Hess]; subst.
      destruct (append_spec bits crc HB rollover st (ebytes es) r1 st1 Hwf E1) as [Hwf1 Hr1].
      destruct (IH st1 rs' st' Hwf1 Hess E2) as (Hwf' & S' & HS' & HR').
      split; [exact Hwf'|].
      remember (w_bw st) as p eqn:Ep.
      assert (Hc1 : exists k c1, pad_at bits p k /\ w_file st1 = w_file st ++ zeros k ++ c1 /\
                 ((is_ok r1 = false /\ c1 = []) \/
                  (r1 = WOk /\ es <> [] /\ len (ebytes es) <= TABLE_FULL_SIZE /\
                   main_at bits crc (p + k) (ebytes es) c1))).
      { destruct r1; try contradiction.
        - destruct Hr1 as (Hne & Hl & k & c & Hp & Hm & Hf). exists k, c. split; [exact Hp|]. split; [exact Hf|].
          right. split; [reflexivity|]. split; [intros ->; now apply Hne|]. split; [lia|exact Hm].
        - destruct Hr1 as (k & Hp & Hf & _). exists k, []. split; [exact Hp|]. split; [now rewrite app_nil_r|].
          left. split; reflexivity. }
      destruct Hc1 as (k & c1 & Hpad & Hf1 & Hcase).
      assert (Hbw1 : w_bw st1 = p + k + len c1).
      { unfold wf_w in Hwf1, Hwf. rewrite Hwf1, Hf1, !len_app, len_zeros. rewrite Ep, Hwf. lia. }
      exists (zeros k ++ c1 ++ S'). split.
      { rewrite HS', Hf1. now rewrite <- !app_assoc. }
      intros X hf es2 r2 Hhf HRX.
      rewrite <- !app_assoc. rewrite <- !app_assoc in Hhf. rewrite !app_length in Hhf.
      assert (HRd := HR' X hf es2 r2 ltac:(rewrite app_length; lia) HRX).
      rewrite ok_batches_cons.
      eapply reads_next_eq; [apply (next_skip_pad bits crc HB); [exact Hpad|rewrite !app_length; lia]|].
      destruct Hcase as [[Hnok ->]|(-> & Hesne & Hlen1 & Hmain)].
      + rewrite Hnok. cbn [app].
        assert (Ebw : w_bw st1 = p + k) by (rewrite Hbw1, len_nil; lia).
        rewrite Ebw in HRd. exact HRd.
      + cbn [is_ok concat].
        destruct es as [|e es_tl]; [contradiction|].
        pose proof (Forall_inv Hwes) as Hwe. pose proof (Forall_inv_tail Hwes) as Hwtl.
        rewrite <- app_assoc. cbn [app]. eapply ReadsEntry.
        * apply (next_main bits crc HB hf (p + k) (ebytes (e :: es_tl)) c1 (S' ++ X) e (ebytes es_tl));
            try assumption; [reflexivity|lia].
        * apply (reads_pending bits crc); [exact Hwtl|]. rewrite Hbw1 in HRd. exact HRd.
  Qed.
End LogAux.
