(* Damage/ModelOps.v — the damage operators of C09 on byte strings: single-bit flip, byte
   overwrite, truncation, extension, and short sequences of them.  Definitions only.
   Bytes are N (< 256 is the side condition bytes_ok of Wire.Model).  An offset beyond the end of
   the file leaves the file unchanged (there is nothing to damage there). *)
From Coq Require Import NArith List Bool.
Import ListNotations.
Open Scope N_scope.

Fixpoint set_nth (i : nat) (b : N) (f : list N) : list N :=
  match f, i with
  | [], _ => []
  | _ :: r, O => b :: r
  | x :: r, S j => x :: set_nth j b r
  end.

(* byte overwrite at offset i *)
Definition overwrite (i b : N) (f : list N) : list N := set_nth (N.to_nat i) b f.

(* single-bit flip: bit k (0..7) of the byte at offset i *)
Definition flip_bit (x k : N) : N := N.lxor x (N.shiftl 1 k).
Definition flip (i k : N) (f : list N) : list N :=
  match nth_error f (N.to_nat i) with
  | Some x => overwrite i (flip_bit x k) f
  | None => f
  end.

(* truncation to the first n bytes; extension by a suffix *)
Definition truncate (n : N) (f : list N) : list N := firstn (N.to_nat n) f.
Definition extend (s f : list N) : list N := f ++ s.

Inductive damage :=
| DFlip (i k : N)
| DOver (i b : N)
| DTrunc (n : N)
| DExt (s : list N).

Definition apply1 (d : damage) (f : list N) : list N :=
  match d with
  | DFlip i k => flip i k f
  | DOver i b => overwrite i b f
  | DTrunc n => truncate n f
  | DExt s => extend s f
  end.

(* a short sequence of damage, applied left to right *)
Definition apply_all (ds : list damage) (f : list N) : list N :=
  fold_left (fun g d => apply1 d g) ds f.

(* what the damage can produce from bytes: bytes *)
Definition damage_ok (d : damage) : bool :=
  match d with
  | DFlip _ k => k <? 8
  | DOver _ b => b <? 256
  | DTrunc _ => true
  | DExt s => forallb (fun b => b <? 256) s
  end.

(* the bytes of f in [pos, pos + n): read_exact_at(&mut buf[..n], pos) when the file is long enough *)
Definition slice (f : list N) (pos n : N) : list N := firstn (N.to_nat n) (skipn (N.to_nat pos) f).
