(* Scan/Proofs_Extra.v — consequences of the scan theorem: histories, the tree-only scan, where
   a seek lands, full forward / backward walks, no failure and no entry outside the specification. *)
From Coq Require Import NArith ZArith List Bool Lia Arith Permutation.
From Blue Require Import Lsm.Model Lsm.KeyOrder Lsm.LoadProofs Lsm.Ordered Lsm.ListLemmas Lsm.SortLemmas
  Lsm.CompactProofs Lsm.History.
From Blue Require Import Cursor.Iface Cursor.Ref Cursor.Lazy Cursor.Bounds Cursor.Pruning Cursor.Concat
  Cursor.Merging Cursor.Spec Cursor.Compose Cursor.Proofs_Order Cursor.Proofs_Ref Cursor.Proofs_Spec
  Cursor.Proofs_Compose.
From Blue Require Import Scan.Model Scan.Proofs_Bridge Scan.Proofs_Count Scan.Proofs_Wf Scan.Proofs_Scan.
Import ListNotations.

Local Notation Lentry := Lsm.Model.entry.
Local Notation Lek := Lsm.Model.ek.
Local Notation Lets := Lsm.Model.ets.
Local Notation Lev := Lsm.Model.ev.

Arguments N.leb : simpl never.
Arguments N.ltb : simpl never.
Local Close Scope N_scope.
Local Open Scope Z_scope.

(* ---- histories *)
Definition key_in (lo hi : bound) (k : key) : bool := in_bounds lo hi (mkE k 0%N None).

Lemma key_in_entry lo hi x : in_bounds lo hi x = key_in lo hi (ek x).
Proof. unfold key_in. now apply in_bounds_key. Qed.

Theorem scan_after_history n ops lo hi prog : all_accepted (init_at n) ops = true ->
  run_scan (History.run (init_at n) ops) lo hi prog = run_live (History.run (init_at n) ops) lo hi prog.
Proof. intros H. apply scan_correct. now apply run_inv. Qed.

Theorem live_spec_history n ops lo hi k v : all_accepted (init_at n) ops = true ->
  ((exists x, In x (live_spec (History.run (init_at n) ops) lo hi) /\ ek x = k /\ ev x = Some v) <->
   key_in lo hi k = true /\ History.spec ops k = Some v).
Proof.
  intros Hacc. pose proof (run_inv n ops Hacc) as HI.
  pose proof (reads_return_latest_write n ops k Hacc) as Hget. set (s := History.run (init_at n) ops) in *.
  unfold get in Hget. unfold live_spec. split.
  - intros (x & Hx & Hk & Hv). apply (live_spec_at_char s (seq s) lo hi x HI) in Hx. destruct Hx as (Hb & Hl & _).
    subst k. rewrite Hl in Hget. cbn [Lsm.Model.ev uncv] in Hget. split; [now rewrite <- key_in_entry|congruence].
  - intros [Hb Hs]. rewrite Hs in Hget. destruct (load s k (seq s)) as [e|] eqn:El; [|discriminate].
    pose proof (load_key s k (seq s) e El) as Hk. exists (cv e). split; [|split; [exact Hk|exact Hget]].
    apply (live_spec_at_char s (seq s) lo hi (cv e) HI). cbn [ek ev cv]. rewrite uncv_cv, Hk.
    split; [|split; [exact El|congruence]]. rewrite key_in_entry. cbn [ek cv]. now rewrite Hk.
Qed.

(* ---- the tree alone *)
Lemma inv_tree_store s : Inv s -> Inv (tree_store s).
Proof.
  intros HI. assert (Hsub : forall e, In e (all_entries (tree_store s)) -> In e (all_entries s)).
  { intros e He. unfold all_entries, tree_store in *. cbn [mem ver app] in He. apply in_or_app. now right. }
  constructor.
  - exact (inv_wf s HI).
  - intros k. pose proof (inv_ord s HI k) as Hd. unfold kview in *. cbn [tree_store mem ver kfilter filter app].
    apply desc_ts_app in Hd. tauto.
  - intros e He. cbn [tree_store seq]. apply (inv_seq s HI). now apply Hsub.
  - intros e e' He. destruct He.
Qed.

Lemma find_ext_in {A} (p q : A -> bool) l : (forall x, In x l -> p x = q x) -> find p l = find q l.
Proof.
  induction l as [|a l IH]; intros H; [reflexivity|]. cbn [find]. rewrite (H a) by now left.
  destruct (q a); [reflexivity|]. apply IH. intros x Hx. apply H. now right.
Qed.

(* a read timestamp that covers every entry of the store reads what the sequence number reads *)
Definition covers (s : store) (t : N) : Prop := forall e, In e (all_entries s) -> (Lets e <= t)%N.

Lemma load_covering s k t : Inv s -> covers s t -> load s k t = load s k (seq s).
Proof.
  intros HI Ht. rewrite !(load_is_find_kview s k _ (inv_wf s HI)). apply find_ext_in.
  intros e He. apply in_kview in He. destruct He as [He _]. pose proof (inv_seq s HI e He) as Hs.
  specialize (Ht e He).
  transitivity true; [apply N.leb_le; lia|symmetry; apply N.leb_le; lia].
Qed.

Lemma live_spec_covering s t lo hi : Inv s -> covers s t -> live_spec_at s t lo hi = live_spec s lo hi.
Proof.
  intros HI Ht. unfold live_spec, live_spec_at. apply flat_map_ext. intros k. unfold live_at.
  now rewrite (load_covering s k t HI Ht).
Qed.

Lemma covers_above_seq s t : Inv s -> (seq s <= t)%N -> covers s t.
Proof. intros HI Ht e He. pose proof (inv_seq s HI e He). lia. Qed.

Lemma live_spec_above_seq s t lo hi : Inv s -> (seq s <= t)%N -> live_spec_at s t lo hi = live_spec s lo hi.
Proof. intros HI Ht. apply live_spec_covering; [exact HI|now apply covers_above_seq]. Qed.

(* the scan at the timestamp readers take (visible_seq_no: the last completed write) in a store
   whose every entry is a completed write *)
Theorem scan_at_covering s lo hi t prog : Inv s -> covers s t ->
  run_scan_gen [mem s] (ver s) t lo hi prog = run_live s lo hi prog.
Proof.
  intros HI Ht. unfold run_live, ref_new. rewrite <- (live_spec_covering s t lo hi HI Ht).
  apply scan_gen_correct_at; [exact HI|]. cbn [concat]. apply app_nil_r.
Qed.

Lemma in_version_spec v lo hi x : In x (spec_of (version_expr v lo hi)) <-> In (uncv x) (scan_entries [] v lo hi).
Proof.
  unfold scan_entries, mem_entries. cbn [flat_map app]. rewrite <- in_table. split; intros H.
  - eapply Permutation_in; [symmetry; apply version_spec_perm|exact H].
  - eapply Permutation_in; [apply version_spec_perm|exact H].
Qed.

Theorem tree_scan_correct s lo hi prog : Inv s ->
  run_tree_scan (ver s) lo hi prog = run (ref (live_spec_at (tree_store s) U64_MAX lo hi)) prog (-1).
Proof.
  intros HI. pose proof (inv_tree_store s HI) as HT.
  assert (Hw : wf (tree_scan_expr (ver s) lo hi)).
  { unfold tree_scan_expr. cbn [wf]. exact (version_expr_wf (tree_store s) HT lo hi). }
  unfold run_tree_scan. rewrite (run_model_is_run_spec _ prog Hw). unfold run_spec, ref_new.
  replace (spec_of (tree_scan_expr (ver s) lo hi)) with (live_spec_at (tree_store s) U64_MAX lo hi); [reflexivity|].
  symmetry. apply sorted_ext_eq.
  - now apply spec_sorted.
  - apply live_spec_at_sorted.
  - intros x. rewrite (live_spec_at_char (tree_store s) U64_MAX lo hi x HT).
    unfold tree_scan_expr. cbn [spec_of].
    apply (char_core (tree_store s) HT [] eq_refl lo hi U64_MAX (merge_spec (map spec_of (version_kids (ver s) lo hi)))).
    intros y. exact (in_version_spec (ver s) lo hi y).
Qed.

Theorem tree_scan_live s lo hi prog : Inv s -> (seq s <= U64_MAX)%N ->
  run_tree_scan (ver s) lo hi prog = run_live (tree_store s) lo hi prog.
Proof.
  intros HI Hs. rewrite (tree_scan_correct s lo hi prog HI). unfold run_live, ref_new.
  now rewrite (live_spec_above_seq (tree_store s) U64_MAX lo hi (inv_tree_store s HI) Hs).
Qed.

(* ---- facts about the reference cursor, to read the scan theorem concretely *)
Lemma run_ref_no_failure l prog : forall i, Forall (fun o : obs => snd o = None) (run (ref l) prog i).
Proof.
  induction prog as [|o p IH]; intros i; cbn [run]; constructor; try reflexivity; [constructor|apply IH].
Qed.

Lemma run_ref_members l prog : forall i e, In (Some e, None) (run (ref l) prog i) -> In e l.
Proof.
  induction prog as [|o p IH]; intros i e; cbn [run In].
  - intros [H|[]]. unfold observe in H. cbn in H. injection H as H. eapply ent_In; eauto.
  - intros [H|H]; [|eapply IH; eauto]. unfold observe in H. cbn in H. injection H as H. eapply ent_In; eauto.
Qed.

Lemma run_ref_members' l prog i e f : In (Some e, f) (run (ref l) prog i) -> In e l.
Proof.
  intros H. pose proof (run_ref_no_failure l prog i) as Hf. rewrite Forall_forall in Hf.
  pose proof (Hf _ H) as E. cbn in E. subst f. eapply run_ref_members; eauto.
Qed.

(* the state after a program *)
Definition exec {S} (c : cursor S) (prog : list op) (s : S) : S := fold_left (fun s o => step c o s) prog s.

Lemma run_snoc {S} (c : cursor S) prog o : forall s,
  run c (prog ++ [o]) s = run c prog s ++ [observe c (step c o (exec c prog s))].
Proof.
  induction prog as [|a p IH]; intros s; cbn [app run exec fold_left]; [reflexivity|].
  f_equal. apply IH.
Qed.

(* seek on a sorted table lands on the first entry whose key is not below the target *)
Lemma ref_seek_find l k : sorted l -> ent l (count (below k) l) = find (fun e => negb (below k e)) l.
Proof.
  induction 1 as [|a l Hs IH Hf]; [reflexivity|]. rewrite count_cons. cbn [find].
  destruct (below k a) eqn:Ea; cbn [negb].
  - pose proof (count_range (below k) l). replace (1 + count (below k) l) with (count (below k) l + 1) by lia.
    rewrite ent_cons_S by lia. exact IH.
  - rewrite count_none; [apply ent_cons_0|]. intros b Hb. destruct (below k b) eqn:Eb; [|reflexivity].
    rewrite Forall_forall in Hf. specialize (Hf b Hb).
    assert (below k a = true) by (apply (below_downclosed k a b); [clear - Hf; eorder|exact Eb]). congruence.
Qed.

(* walking forward from index i >= 0 to the end *)
Lemma skipn_ent l i : 0 <= i < len l ->
  exists x, ent l i = Some x /\ skipn (Z.to_nat i) l = x :: skipn (Z.to_nat (i + 1)) l.
Proof.
  revert i. induction l as [|a l IH]; intros i Hi; [unfold len in Hi; cbn in Hi; lia|].
  rewrite len_cons in Hi. destruct (Z.eq_dec i 0) as [->|Hn].
  - exists a. split; [apply ent_cons_0|reflexivity].
  - destruct (IH (i - 1)) as (x & Hx & Hsk); [lia|]. exists x. split.
    + rewrite ent_cons_pos by lia. exact Hx.
    + replace (Z.to_nat i) with (Datatypes.S (Z.to_nat (i - 1))) by lia.
      replace (Z.to_nat (i + 1)) with (Datatypes.S (Z.to_nat (i - 1 + 1))) by lia. cbn [skipn]. exact Hsk.
Qed.

Lemma walk_forward_from l : forall m i, 0 <= i -> i + Z.of_nat m = len l ->
  map fst (run (ref l) (repeat ONext m) i) = map Some (skipn (Z.to_nat i) l) ++ [None].
Proof.
  induction m as [|m IH]; intros i Hi Hm; cbn [repeat run map].
  - unfold observe. cbn [c_kv ref fst]. rewrite ent_none by lia.
    rewrite skipn_all2; [reflexivity|]. unfold len in Hm. lia.
  - destruct (skipn_ent l i) as (x & Hx & Hsk); [lia|]. unfold observe at 1. cbn [c_kv ref fst].
    rewrite Hx, Hsk. cbn [map app]. f_equal. cbn [step ref c_next]. unfold ref_next.
    destruct (len l <=? i + 1) eqn:E.
    + apply Z.leb_le in E. replace (len l) with (i + 1) by lia. apply IH; lia.
    + apply IH; lia.
Qed.

Lemma walk_forward l : map fst (run (ref l) (repeat ONext (length l + 1)) (-1)) = None :: map Some l ++ [None].
Proof.
  rewrite Nat.add_1_r. cbn [repeat run map]. unfold observe at 1. cbn [c_kv ref fst].
  rewrite ent_none by lia. f_equal. cbn [step ref c_next]. unfold ref_next.
  pose proof (len_nonneg l). replace (if len l <=? -1 + 1 then len l else -1 + 1) with 0.
  - apply (walk_forward_from l (length l) 0); [lia|reflexivity].
  - destruct (len l <=? -1 + 1) eqn:E; [apply Z.leb_le in E; lia|reflexivity].
Qed.

(* walking backward from index i < len to the beginning *)
Lemma firstn_ent l i : 0 <= i < len l ->
  exists x, ent l i = Some x /\ firstn (Z.to_nat (i + 1)) l = firstn (Z.to_nat i) l ++ [x].
Proof.
  revert i. induction l as [|a l IH]; intros i Hi; [unfold len in Hi; cbn in Hi; lia|].
  rewrite len_cons in Hi. destruct (Z.eq_dec i 0) as [->|Hn].
  - exists a. split; [apply ent_cons_0|reflexivity].
  - destruct (IH (i - 1)) as (x & Hx & Hf); [lia|]. exists x. split.
    + rewrite ent_cons_pos by lia. exact Hx.
    + replace (Z.to_nat (i + 1)) with (Datatypes.S (Z.to_nat (i - 1 + 1))) by lia.
      replace (Z.to_nat i) with (Datatypes.S (Z.to_nat (i - 1))) by lia. cbn [firstn app]. now rewrite Hf.
Qed.

Lemma walk_backward_from l : forall m i, i + 1 = Z.of_nat m -> i < len l ->
  map fst (run (ref l) (repeat OPrev m) i) = map Some (rev (firstn (Z.to_nat (i + 1)) l)) ++ [None].
Proof.
  induction m as [|m IH]; intros i Hm Hi; cbn [repeat run map].
  - unfold observe. cbn [c_kv ref fst]. rewrite ent_none by lia.
    replace (Z.to_nat (i + 1)) with 0%nat by lia. reflexivity.
  - destruct (firstn_ent l i) as (x & Hx & Hf); [lia|]. unfold observe at 1. cbn [c_kv ref fst].
    rewrite Hx, Hf, rev_app_distr. cbn [rev app map]. f_equal. cbn [step ref c_prev]. unfold ref_prev.
    destruct (i - 1 <? 0) eqn:E.
    + apply Z.ltb_lt in E. replace i with 0 by lia. apply (IH (-1)); lia.
    + replace (Z.to_nat i) with (Z.to_nat (i - 1 + 1)) by lia. apply IH; lia.
Qed.

Lemma walk_backward l :
  map fst (run (ref l) (OLast :: repeat OPrev (length l + 1)) (-1)) = None :: None :: map Some (rev l) ++ [None].
Proof.
  cbn [run map]. unfold observe at 1. cbn [c_kv ref fst]. rewrite ent_none by lia. f_equal.
  cbn [step ref c_last]. rewrite Nat.add_1_r. cbn [repeat run map]. unfold observe at 1. cbn [c_kv ref fst].
  rewrite ent_none by lia. f_equal. cbn [step ref c_prev]. unfold ref_prev. pose proof (len_nonneg l).
  destruct (len l - 1 <? 0) eqn:E.
  - apply Z.ltb_lt in E. assert (length l = 0)%nat by (unfold len in *; lia).
    destruct l; [reflexivity|discriminate].
  - apply Z.ltb_ge in E. rewrite (walk_backward_from l (length l) (len l - 1)); [|unfold len; lia|lia].
    replace (Z.to_nat (len l - 1 + 1)) with (length l) by (unfold len; lia). now rewrite firstn_all.
Qed.

(* ---- the scan theorem read concretely *)
Section Concrete.
Variable s : store.
Hypothesis HI : Inv s.
Variables lo hi : bound.

Theorem scan_no_failure prog : Forall (fun o : obs => snd o = None) (run_scan s lo hi prog).
Proof. rewrite (scan_correct s lo hi prog HI). apply run_ref_no_failure. Qed.

(* every entry any program ever observes is in range, is what a point read of its key returns at
   the same moment, and is not a tombstone *)
Theorem scan_observes_only_live prog e f : In (Some e, f) (run_scan s lo hi prog) ->
  in_bounds lo hi e = true /\ load s (ek e) (seq s) = Some (uncv e) /\ ev e <> None.
Proof.
  rewrite (scan_correct s lo hi prog HI). intros H. apply run_ref_members' in H.
  now apply (live_spec_at_char s (seq s) lo hi e HI).
Qed.

Theorem scan_seek_lands prog k :
  last (run_scan s lo hi (prog ++ [OSeek k])) (None, None) =
  (find (fun e => negb (kltb (ek e) k)) (live_spec s lo hi), None).
Proof.
  rewrite (scan_correct s lo hi _ HI). unfold run_live. rewrite run_snoc, last_last.
  unfold observe. cbn [step ref c_seek c_kv c_fail]. f_equal.
  apply ref_seek_find. apply live_spec_at_sorted.
Qed.

Theorem scan_forward_walk :
  map fst (run_scan s lo hi (repeat ONext (length (live_spec s lo hi) + 1))) =
  None :: map Some (live_spec s lo hi) ++ [None].
Proof. rewrite (scan_correct s lo hi _ HI). apply walk_forward. Qed.

Theorem scan_backward_walk :
  map fst (run_scan s lo hi (OLast :: repeat OPrev (length (live_spec s lo hi) + 1))) =
  None :: None :: map Some (rev (live_spec s lo hi)) ++ [None].
Proof. rewrite (scan_correct s lo hi _ HI). apply walk_backward. Qed.
End Concrete.
