(* Scan/Skip.v — the memtable's cursor: a sequential model of skipfree::SkipListIterator as
   lsmtk's SkipListIteratorWrapper drives it (lsmtk/src/kvs/memtable.rs, skipfree/src/lib.rs),
   over the skiplist's contents as a table in Key order; and the sum of two cursor types
   (what `Box<dyn Cursor>` is for the two kinds of children KeyValueStore::range_scan merges).
   Definitions only.

   The iterator holds a node pointer.  Positions are encoded as an index into the table:
     -1  = the head sentinel   (is_valid() false)
     i   = the node of entry i (0 <= i < len)
     len = the null pointer    (is_valid() false)
   NB: SkipListIterator::seek_to_first sets `node = get_next(head, 0)`, i.e. it lands ON the first
   entry (or on null when the list is empty), not before it as sst::Cursor::seek_to_first asks
   (its doc comment says otherwise).  The wrapper forwards the call unchanged, so the wrapper on
   its own does not follow the Cursor convention; BoundsCursor::seek_to_first, the only caller,
   compensates with `if self.cursor.key().is_some() { self.cursor.prev()?; }`.  The model keeps
   this (sk_first); Proofs_Skip.v shows the bounds cursor over it behaves as over a table.
   find_greater_or_equal / find_less_than / find_last are stated by their results on the sorted
   contents (the skiplist itself is property C17's subject): the seek target is
   Key{key, u64::MAX}, the least Key with that key, so seek lands on the first entry whose key
   is not below the target. *)
From Coq Require Import NArith ZArith List Bool.
From Blue Require Import Cursor.Iface Cursor.Ref.
Import ListNotations.
Local Open Scope Z_scope.

Record skstate := mkSk { sk_tab : list entry; sk_idx : Z }.

(* self.node = get_next(head, 0) : the first node, or null *)
Definition sk_first (s : skstate) : skstate :=
  mkSk (sk_tab s) (match sk_tab s with [] => len (sk_tab s) | _ :: _ => 0 end).
(* self.node = null *)
Definition sk_last (s : skstate) : skstate := mkSk (sk_tab s) (len (sk_tab s)).
(* self.node = find_greater_or_equal(Key{key, u64::MAX}) *)
Definition sk_seek (k : key) (s : skstate) : skstate := mkSk (sk_tab s) (count (below k) (sk_tab s)).
(* if node.is_null() { find_last } else if node != head { find_less_than(key(node)) } *)
Definition sk_prev (s : skstate) : skstate :=
  if sk_idx s =? len (sk_tab s) then mkSk (sk_tab s) (len (sk_tab s) - 1)
  else if negb (sk_idx s =? -1) then mkSk (sk_tab s) (sk_idx s - 1)
  else s.
(* if !node.is_null() { node = get_next(node, 0) } *)
Definition sk_next (s : skstate) : skstate :=
  if negb (sk_idx s =? len (sk_tab s)) then mkSk (sk_tab s) (sk_idx s + 1) else s.
(* key()/value(): Some iff is_valid() = !node.is_null() && node != head *)
Definition sk_kv (s : skstate) : option entry := ent (sk_tab s) (sk_idx s).

Definition skcur : cursor skstate := {|
  c_first := sk_first; c_last := sk_last; c_seek := sk_seek; c_prev := sk_prev; c_next := sk_next;
  c_kv := sk_kv; c_fail := fun _ => None |}.

(* SkipList::iter(): node = null *)
Definition sk_new (l : list entry) : skstate := mkSk l (len l).

(* ---- Box<dyn Cursor> over two concrete cursor types *)
Definition sum_map {A B} (f : A -> A) (g : B -> B) (s : A + B) : A + B :=
  match s with inl a => inl (f a) | inr b => inr (g b) end.
Definition sumcur {A B} (ca : cursor A) (cb : cursor B) : cursor (A + B) := {|
  c_first := sum_map (c_first ca) (c_first cb);
  c_last := sum_map (c_last ca) (c_last cb);
  c_seek := fun k => sum_map (c_seek ca k) (c_seek cb k);
  c_prev := sum_map (c_prev ca) (c_prev cb);
  c_next := sum_map (c_next ca) (c_next cb);
  c_kv := fun s => match s with inl a => c_kv ca a | inr b => c_kv cb b end;
  c_fail := fun s => match s with inl a => c_fail ca a | inr b => c_fail cb b end |}.
