(* Scan/Proofs_Count.v — distinctness of (key, timestamp) pairs by counting: a list is `distinct`
   iff no pair occurs twice; sub-multisets (filters, permutations, pointwise smaller flat_maps) of
   a list without repeated pairs have none either; an Ordered store has no repeated pair. *)
From Coq Require Import NArith ZArith List Bool Lia Arith Permutation.
From Blue Require Import Lsm.Model Lsm.KeyOrder Lsm.LoadProofs Lsm.Ordered Lsm.ListLemmas Lsm.SortLemmas.
From Blue Require Import Cursor.Iface Cursor.Ref Cursor.Spec Cursor.Proofs_Order Cursor.Proofs_Ref Cursor.Proofs_Spec.
From Blue Require Import Scan.Model Scan.Proofs_Bridge.
Import ListNotations.

Local Notation Lentry := Lsm.Model.entry.
Local Notation Lek := Lsm.Model.ek.
Local Notation Lets := Lsm.Model.ets.
Local Notation Lev := Lsm.Model.ev.

Arguments N.leb : simpl never.
Arguments N.ltb : simpl never.
Arguments N.eqb : simpl never.

(* ---- counting entries with the (key, timestamp) of a *)
Definition same (a b : entry) : bool := match ecmp a b with Eq => true | _ => false end.
Definition ccnt (a : entry) (l : list entry) : nat := length (filter (same a) l).

Lemma same_iff a b : same a b = true <-> eeq a b.
Proof. unfold same, eeq. destruct (ecmp a b); split; congruence. Qed.

Lemma ccnt_cons a b l : ccnt a (b :: l) = ((if same a b then 1 else 0) + ccnt a l)%nat.
Proof. unfold ccnt. cbn [filter]. destruct (same a b); reflexivity. Qed.

Lemma ccnt_app a l1 l2 : ccnt a (l1 ++ l2) = (ccnt a l1 + ccnt a l2)%nat.
Proof. unfold ccnt. now rewrite filter_app, app_length. Qed.

Lemma filter_perm {A} (p : A -> bool) l l' : Permutation l l' -> Permutation (filter p l) (filter p l').
Proof.
  induction 1 as [| x l l' _ IH | x y l | l l' l'' _ IH1 _ IH2]; cbn [filter].
  - constructor.
  - destruct (p x); [now constructor|exact IH].
  - destruct (p y), (p x); try reflexivity. apply perm_swap.
  - etransitivity; eauto.
Qed.

Lemma ccnt_perm a l l' : Permutation l l' -> ccnt a l = ccnt a l'.
Proof. intros P. unfold ccnt. apply Permutation_length, filter_perm, P. Qed.

Lemma ccnt_zero a l : (forall x, In x l -> same a x = false) -> ccnt a l = 0%nat.
Proof.
  induction l as [|b l IH]; intros H; [reflexivity|]. rewrite ccnt_cons, (H b) by now left.
  rewrite IH; [reflexivity|]. intros x Hx. apply H. now right.
Qed.

Lemma ccnt_pos a l x : In x l -> same a x = true -> (1 <= ccnt a l)%nat.
Proof.
  induction l as [|b l IH]; [intros []|]. intros [->|Hx] Hs; rewrite ccnt_cons.
  - rewrite Hs. lia.
  - specialize (IH Hx Hs). lia.
Qed.

Lemma distinct_ccnt l : distinct l -> forall a, (ccnt a l <= 1)%nat.
Proof.
  induction 1 as [|b l Hb Hd IH]; intros a; [cbn; lia|]. rewrite ccnt_cons.
  destruct (same a b) eqn:E; [|apply IH].
  rewrite ccnt_zero; [lia|]. intros x Hx. destruct (same a x) eqn:E2; [|reflexivity]. exfalso.
  rewrite Forall_forall in Hb. apply (Hb x Hx). apply same_iff in E, E2. clear - E E2. eorder.
Qed.

Lemma ccnt_distinct l : (forall a, (ccnt a l <= 1)%nat) -> distinct l.
Proof.
  induction l as [|b l IH]; intros H; [constructor|]. constructor.
  - apply Forall_forall. intros x Hx Heq. specialize (H b). rewrite ccnt_cons in H.
    assert (same b b = true) as Sb by (apply same_iff; apply ecmp_refl). rewrite Sb in H.
    assert (1 <= ccnt b l)%nat by (eapply ccnt_pos; [exact Hx|now apply same_iff]). lia.
  - apply IH. intros a. specialize (H a). rewrite ccnt_cons in H. lia.
Qed.

Lemma distinct_perm l l' : Permutation l l' -> distinct l -> distinct l'.
Proof.
  intros P Hd. apply ccnt_distinct. intros a. rewrite <- (ccnt_perm a l l' P). now apply distinct_ccnt.
Qed.

(* ---- the same count on the Lsm side *)
Definition lsame (k : key) (t : N) (e : Lentry) : bool := key_eqb (Lek e) k && (Lets e =? t)%N.
Definition lcnt (k : key) (t : N) (l : list Lentry) : nat := length (filter (lsame k t) l).

Lemma same_cv a e : same a (cv e) = lsame (ek a) (ets a) e.
Proof.
  unfold lsame. destruct (same a (cv e)) eqn:E.
  - apply same_iff in E. apply ecmp_eq_iff in E. cbn [ek ets cv] in E. destruct E as [E1 E2].
    symmetry. apply andb_true_iff. split; [apply key_eqb_eq; congruence|apply N.eqb_eq; congruence].
  - symmetry. apply not_true_is_false. intros C. apply andb_true_iff in C. destruct C as [C1 C2].
    apply key_eqb_eq in C1. apply N.eqb_eq in C2.
    assert (same a (cv e) = true) as T by (apply same_iff, ecmp_eq_iff; cbn [ek ets cv]; split; congruence).
    congruence.
Qed.

Lemma ccnt_table a l : ccnt a (table l) = lcnt (ek a) (ets a) l.
Proof.
  unfold ccnt, lcnt, table. induction l as [|e l IH]; [reflexivity|]. cbn [map filter].
  rewrite same_cv. destruct (lsame (ek a) (ets a) e); cbn [length]; now rewrite IH.
Qed.

Lemma lcnt_app k t a b : lcnt k t (a ++ b) = (lcnt k t a + lcnt k t b)%nat.
Proof. unfold lcnt. now rewrite filter_app, app_length. Qed.

Lemma lcnt_perm k t l l' : Permutation l l' -> lcnt k t l = lcnt k t l'.
Proof. intros P. unfold lcnt. apply Permutation_length, filter_perm, P. Qed.

Lemma lcnt_filter_le k t p l : (lcnt k t (filter p l) <= lcnt k t l)%nat.
Proof.
  unfold lcnt. induction l as [|e l IH]; cbn [filter]; [lia|].
  destruct (p e); cbn [filter]; destruct (lsame k t e); cbn [length]; lia.
Qed.

(* sub-multiset, on (key, timestamp) pairs *)
Definition msub (a b : list Lentry) : Prop := forall k t, (lcnt k t a <= lcnt k t b)%nat.

Lemma msub_refl a : msub a a. Proof. intros k t. lia. Qed.
Lemma msub_trans a b c : msub a b -> msub b c -> msub a c.
Proof. intros H1 H2 k t. specialize (H1 k t). specialize (H2 k t). lia. Qed.
Lemma msub_app a a' b b' : msub a a' -> msub b b' -> msub (a ++ b) (a' ++ b').
Proof. intros H1 H2 k t. rewrite !lcnt_app. specialize (H1 k t). specialize (H2 k t). lia. Qed.
Lemma msub_filter p a : msub (filter p a) a.
Proof. intros k t. apply lcnt_filter_le. Qed.
Lemma msub_perm a b : Permutation a b -> msub a b.
Proof. intros P k t. rewrite (lcnt_perm k t a b P). lia. Qed.
Lemma msub_nil a : msub [] a.
Proof. intros k t. cbn. lia. Qed.

Lemma msub_flat_map {A} (g h : A -> list Lentry) l :
  (forall x, In x l -> msub (g x) (h x)) -> msub (flat_map g l) (flat_map h l).
Proof.
  induction l as [|x l IH]; intros H; [apply msub_refl|]. cbn [flat_map]. apply msub_app.
  - apply H. now left.
  - apply IH. intros y Hy. apply H. now right.
Qed.

Lemma msub_flat_map_filter {A} (g : A -> list Lentry) p l : msub (flat_map g (filter p l)) (flat_map g l).
Proof.
  induction l as [|x l IH]; [apply msub_refl|]. cbn [filter flat_map]. destruct (p x); cbn [flat_map].
  - apply msub_app; [apply msub_refl|exact IH].
  - intros k t. rewrite lcnt_app. specialize (IH k t). lia.
Qed.

Lemma msub_concat_flat_map (g : list Lentry -> list Lentry) ls :
  (forall m, In m ls -> msub (g m) m) -> msub (flat_map g ls) (concat ls).
Proof.
  induction ls as [|m ls IH]; intros H; [apply msub_refl|]. cbn [flat_map concat]. apply msub_app.
  - apply H. now left.
  - apply IH. intros y Hy. apply H. now right.
Qed.

(* ---- no repeated pair: from strictly descending per-key views *)
Definition nopair (l : list Lentry) : Prop := forall k t, (lcnt k t l <= 1)%nat.

Lemma msub_nopair a b : msub a b -> nopair b -> nopair a.
Proof. intros H Hb k t. specialize (H k t). specialize (Hb k t). lia. Qed.

Lemma nopair_distinct l : nopair l -> distinct (table l).
Proof. intros H. apply ccnt_distinct. intros a. rewrite ccnt_table. apply H. Qed.

Lemma lcnt_kfilter k t l : lcnt k t l = length (filter (fun e => (Lets e =? t)%N) (kfilter k l)).
Proof.
  unfold lcnt, kfilter, lsame. induction l as [|e l IH]; [reflexivity|]. cbn [filter].
  destruct (key_eqb (Lek e) k); cbn [andb filter]; [destruct (Lets e =? t)%N; cbn [length]; now rewrite IH|exact IH].
Qed.

Lemma desc_ts_one_ts l t : desc_ts l -> (length (filter (fun e => (Lets e =? t)%N) l) <= 1)%nat.
Proof.
  induction l as [|x r IH]; cbn [desc_ts filter]; [cbn; lia|]. intros [Hx Hr].
  destruct (N.eqb_spec (Lets x) t) as [E|NE]; [|now apply IH]. cbn [length].
  replace (filter (fun e => (Lets e =? t)%N) r) with (@nil Lentry); [cbn; lia|].
  symmetry. clear IH Hr. induction r as [|y r IHr]; [reflexivity|]. cbn [filter].
  destruct (N.eqb_spec (Lets y) t) as [E2|_].
  - specialize (Hx y (or_introl eq_refl)). lia.
  - apply IHr. intros z Hz. apply Hx. now right.
Qed.

Lemma kfilter_app k a b : kfilter k (a ++ b) = kfilter k a ++ kfilter k b.
Proof. unfold kfilter. apply filter_app. Qed.

Lemma kview_all_entries s k : kview s k = kfilter k (all_entries s).
Proof. unfold kview, all_entries. now rewrite kfilter_app, kfilter_flat_map. Qed.

Lemma ordered_nopair s : Ordered s -> nopair (all_entries s).
Proof.
  intros Ho k t. rewrite lcnt_kfilter, <- kview_all_entries. apply desc_ts_one_ts, Ho.
Qed.

(* two entries of an Ordered store with the same key and timestamp are the same entry *)
Lemma desc_ts_inj l a b : desc_ts l -> In a l -> In b l -> Lets a = Lets b -> a = b.
Proof.
  induction l as [|x r IH]; [intros _ []|]. cbn [desc_ts]. intros [Hx Hr] [<-|Ha] [<-|Hb] E; auto.
  - specialize (Hx b Hb). lia.
  - specialize (Hx a Ha). lia.
Qed.

Lemma ordered_unique s a b : Ordered s -> In a (all_entries s) -> In b (all_entries s) ->
  Lek a = Lek b -> Lets a = Lets b -> a = b.
Proof.
  intros Ho Ha Hb Ek Et. apply (desc_ts_inj (kview s (Lek a))); [apply Ho| | |exact Et].
  - apply in_kview. auto.
  - apply in_kview. auto.
Qed.
