(* Scan/Proofs_Wf.v — the expression a range scan builds over a store satisfying the Lsm
   invariant is well formed (every combinator's precondition holds at every node), and which
   entries it holds. *)
From Coq Require Import NArith ZArith List Bool Lia Arith Permutation.
From Blue Require Import Lsm.Model Lsm.KeyOrder Lsm.LoadProofs Lsm.Ordered Lsm.ListLemmas Lsm.SortLemmas
  Lsm.CompactProofs Lsm.History.
From Blue Require Import Cursor.Iface Cursor.Ref Cursor.Lazy Cursor.Bounds Cursor.Pruning Cursor.Concat
  Cursor.Merging Cursor.Spec Cursor.Compose Cursor.Proofs_Order Cursor.Proofs_Ref Cursor.Proofs_Spec
  Cursor.Proofs_Compose.
From Blue Require Import Scan.Model Scan.Proofs_Bridge Scan.Proofs_Count.
Import ListNotations.

Local Notation Lentry := Lsm.Model.entry.
Local Notation Lek := Lsm.Model.ek.
Local Notation Lets := Lsm.Model.ets.
Local Notation Lev := Lsm.Model.ev.

Arguments N.leb : simpl never.
Arguments N.ltb : simpl never.

(* ---- the entries under the merge: what each component contributes *)
Definition version_entries (v : version) (lo hi : bound) : list Lentry :=
  flat_map fents (hd [] v) ++
  flat_map (fun lv => flat_map fents (filter (file_selected lo hi) lv)) (tl v).
Definition mem_entries (mems : list (list Lentry)) (lo hi : bound) : list Lentry :=
  flat_map (fun m => filter (inb lo hi) (sort_entries m)) mems.
Definition scan_entries (mems : list (list Lentry)) (v : version) (lo hi : bound) : list Lentry :=
  mem_entries mems lo hi ++ version_entries v lo hi.

Lemma lazy_concat fs : concat (map spec_of (map lazy_file fs)) = table (flat_map fents fs).
Proof.
  induction fs as [|f fs IH]; [reflexivity|]. cbn [map concat flat_map spec_of lazy_file].
  unfold lazy_spec. now rewrite IH, table_app.
Qed.

Lemma level_exprs_concat lo hi lv :
  concat (map spec_of (level_exprs lo hi lv)) = table (flat_map fents (filter (file_selected lo hi) lv)).
Proof.
  unfold level_exprs. destruct (filter (file_selected lo hi) lv) as [|f fs]; [reflexivity|].
  cbn [map concat spec_of]. unfold concat_spec. rewrite app_nil_r. exact (lazy_concat (f :: fs)).
Qed.

Lemma version_kids_concat v lo hi :
  concat (map spec_of (version_kids v lo hi)) = table (version_entries v lo hi).
Proof.
  unfold version_kids, version_entries. rewrite map_app, concat_app, lazy_concat, table_app. f_equal.
  induction (tl v) as [|lv lvs IH]; [reflexivity|]. cbn [flat_map].
  now rewrite map_app, concat_app, level_exprs_concat, IH, table_app.
Qed.

Lemma version_spec_perm v lo hi :
  Permutation (table (version_entries v lo hi)) (spec_of (version_expr v lo hi)).
Proof.
  unfold version_expr. cbn [spec_of]. rewrite <- version_kids_concat. apply merge_spec_perm.
Qed.

Lemma mem_spec m lo hi : spec_of (mem_expr m lo hi) = table (filter (inb lo hi) (sort_entries m)).
Proof. unfold mem_expr. cbn [spec_of]. unfold bounds_spec. apply filter_table. Qed.

Lemma mem_kids_concat mems lo hi :
  concat (map spec_of (map (fun m => mem_expr m lo hi) mems)) = table (mem_entries mems lo hi).
Proof.
  unfold mem_entries. induction mems as [|m ms IH]; [reflexivity|]. cbn [map concat flat_map].
  now rewrite mem_spec, IH, table_app.
Qed.

Lemma table_perm a b : Permutation a b -> Permutation (table a) (table b).
Proof. apply Permutation_map. Qed.

Lemma scan_kids_perm mems v lo hi :
  Permutation (concat (map spec_of (scan_kids mems v lo hi))) (table (scan_entries mems v lo hi)).
Proof.
  unfold scan_kids, scan_entries. rewrite map_app, concat_app, mem_kids_concat, table_app.
  apply Permutation_app_head. cbn [map concat]. rewrite app_nil_r. symmetry. apply version_spec_perm.
Qed.

(* keys are non-decreasing along the (selected) files of a sorted level *)
Lemma level_knd lv p : Forall (fun g => wf_fileb g = true) lv -> level_sortedb lv = true ->
  knd (flat_map fents (filter p lv)).
Proof.
  induction lv as [|f r IH]; intros Hw Hs; [exact I|]. cbn [filter].
  inversion Hw as [|? ? Hwf0 Hwr]; subst.
  assert (IHr : knd (flat_map fents (filter p r))) by (apply IH; [exact Hwr|eapply level_sorted_tail; eauto]).
  destruct (p f); [|exact IHr]. cbn [flat_map]. apply knd_app; [|exact IHr|].
  - apply sorted_entriesb_knd. unfold wf_fileb in Hwf0. destruct (fents f); [discriminate|exact Hwf0].
  - intros x y Hx Hy. apply in_flat_map in Hy. destruct Hy as (g & Hg & Hy).
    apply filter_In in Hg. destruct Hg as [Hg _].
    destruct (file_keys_between f Hwf0 x Hx) as [_ Hxl].
    pose proof (level_first_mono f r Hw Hs g Hg) as Hfg.
    rewrite Forall_forall in Hwr. destruct (file_keys_between g (Hwr g Hg) y Hy) as [Hgy _].
    eapply key_leb_trans; [exact Hxl|]. eapply key_leb_trans; [exact Hfg|exact Hgy].
Qed.

(* ---- consequences of the invariant *)
Section Inv.
Variable s : store.
Hypothesis HI : Inv s.


Lemma l0_files_wf f : In f (hd [] (ver s)) -> wf_fileb f = true.
Proof.
  destruct (wf_version_levels _ (inv_wf s HI)) as [H _]. destruct (ver s) as [|l0 r]; [intros []|].
  cbn [hd]. intros Hf. inversion H as [|? ? H0 _]; subst. rewrite Forall_forall in H0. auto.
Qed.

Lemma deep_level_wf lv : In lv (tl (ver s)) -> Forall (fun g => wf_fileb g = true) lv /\ level_sortedb lv = true.
Proof.
  destruct (wf_version_levels _ (inv_wf s HI)) as [H1 H2]. intros Hlv. split.
  - rewrite Forall_forall in H1. apply H1. destruct (ver s); [destruct Hlv|now right].
  - rewrite Forall_forall in H2. now apply H2.
Qed.

(* per-key views of parts of the store are strictly descending *)
Lemma desc_ts_concat_in (ls : list (list Lentry)) m : desc_ts (concat ls) -> In m ls -> desc_ts m.
Proof.
  intros Hd Hin. apply in_split in Hin. destruct Hin as (a & b & ->).
  rewrite concat_app in Hd. cbn [concat] in Hd. apply desc_ts_app in Hd. destruct Hd as (_ & Hd & _).
  apply desc_ts_app in Hd. tauto.
Qed.

Lemma kfilter_concat k (ls : list (list Lentry)) : kfilter k (concat ls) = concat (map (kfilter k) ls).
Proof. unfold kfilter. apply filter_concat. Qed.

Lemma mem_piece_desc mems m k : concat mems = mem s -> In m mems -> desc_ts (kfilter k m).
Proof.
  intros E Hin. pose proof (kview_mem_desc s k (inv_ord s HI)) as Hd. rewrite <- E, kfilter_concat in Hd.
  apply (desc_ts_concat_in _ _ Hd). now apply in_map.
Qed.

Lemma in_flat_map_filter {A B} (g : A -> list B) p l x : In x (flat_map g (filter p l)) -> In x (flat_map g l).
Proof.
  rewrite !in_flat_map. intros (a & Ha & Hx). apply filter_In in Ha. exists a. tauto.
Qed.

Lemma desc_ts_flat_map_filter {A} (g : A -> list Lentry) p l :
  desc_ts (flat_map g l) -> desc_ts (flat_map g (filter p l)).
Proof.
  induction l as [|x l IH]; [auto|]. cbn [flat_map filter]. intros Hd.
  apply desc_ts_app in Hd. destruct Hd as (H1 & H2 & H12).
  destruct (p x); [|now apply IH]. cbn [flat_map]. apply desc_ts_app. repeat split; auto.
  intros a b Ha Hb. apply H12; [exact Ha|]. eapply in_flat_map_filter; eauto.
Qed.

Lemma level_view_desc lv k : In lv (tl (ver s)) -> desc_ts (flat_map (kf k) lv).
Proof.
  intros Hlv. pose proof (inv_ord s HI k) as Hd. unfold kview, flat in Hd.
  apply desc_ts_app in Hd. destruct Hd as (_ & Hd & _).
  rewrite flat_map_app in Hd. apply desc_ts_app in Hd. destruct Hd as (_ & Hd & _).
  apply in_split in Hlv. destruct Hlv as (a & b & E). rewrite E, concat_app in Hd. cbn [concat] in Hd.
  rewrite !flat_map_app in Hd. apply desc_ts_app in Hd. destruct Hd as (_ & Hd & _).
  apply desc_ts_app in Hd. tauto.
Qed.

Lemma level_sel_desc lv p k : In lv (tl (ver s)) -> desc_ts (kfilter k (flat_map fents (filter p lv))).
Proof.
  intros Hlv. rewrite kfilter_flat_map. apply desc_ts_flat_map_filter. now apply level_view_desc.
Qed.

End Inv.

Lemma msub_app_r a b : msub b (a ++ b).
Proof. intros k t. rewrite lcnt_app. lia. Qed.

(* a file holding an entry within the bounds passes the two compare_bounds_le tests *)
Lemma selected_of_inb lo hi f e : wf_fileb f = true -> In e (fents f) -> inb lo hi e = true ->
  file_selected lo hi f = true.
Proof.
  intros Hw He Hb. destruct (file_keys_between f Hw e He) as [H1 H2].
  apply key_leb_kle in H1, H2. unfold inb, in_bounds in Hb. apply andb_prop in Hb. destruct Hb as [Hlo Hhi].
  cbn [ek cv] in *. unfold file_selected. apply andb_true_iff. split.
  - destruct lo as [|x|x]; cbn [compare_bounds_le in_lo] in *; [reflexivity| |].
    + apply negb_true_iff in Hlo. cbn [ek cv] in Hlo. kdestr; try reflexivity; try discriminate.
      exfalso. clear - H2 n n0. korder.
    + apply negb_true_iff in Hlo. cbn [ek cv] in Hlo. kdestr; try reflexivity; try discriminate.
      exfalso. clear - H2 n n0. korder.
  - destruct hi as [|y|y]; cbn [compare_bounds_le in_hi] in *; [reflexivity| |].
    + cbn [ek cv] in Hhi. kdestr; try reflexivity; try discriminate. exfalso. clear - H1 k n. korder.
    + cbn [ek cv] in Hhi. kdestr; try reflexivity; try discriminate. exfalso. clear - H1 k n. korder.
Qed.

Section Scan.
Variable s : store.
Hypothesis HI : Inv s.
Variable mems : list (list Lentry).
Hypothesis Hmems : concat mems = mem s.
Variables lo hi : bound.

Lemma version_entries_msub : msub (version_entries (ver s) lo hi) (flat_map fents (flat (ver s))).
Proof.
  unfold version_entries, flat. rewrite flat_map_app. apply msub_app.
  - apply msub_perm, Permutation_flat_map. unfold l0_order.
    etransitivity; [apply isort_by_perm|apply Permutation_rev].
  - rewrite flat_map_concat, <- flat_map_concat_map. apply msub_flat_map.
    intros lv _. apply msub_flat_map_filter.
Qed.

Lemma mem_entries_msub : msub (mem_entries mems lo hi) (mem s).
Proof.
  rewrite <- Hmems. apply msub_concat_flat_map. intros m _.
  eapply msub_trans; [apply msub_filter|apply msub_perm, Permutation_sym, sort_entries_perm].
Qed.

Lemma scan_entries_msub : msub (scan_entries mems (ver s) lo hi) (all_entries s).
Proof. apply msub_app; [apply mem_entries_msub|apply version_entries_msub]. Qed.

Lemma scan_entries_nopair : nopair (scan_entries mems (ver s) lo hi).
Proof. eapply msub_nopair; [apply scan_entries_msub|apply ordered_nopair, (inv_ord s HI)]. Qed.

Lemma version_entries_nopair : nopair (version_entries (ver s) lo hi).
Proof.
  eapply msub_nopair; [|apply ordered_nopair, (inv_ord s HI)].
  eapply msub_trans; [apply version_entries_msub|apply msub_app_r].
Qed.

(* ---- well-formedness of every node *)
Lemma mem_expr_wf m : In m mems -> wf (mem_expr m lo hi).
Proof.
  intros Hm. cbn [wf mem_expr]. apply sort_entries_sorted. intros k.
  exact (mem_piece_desc s HI mems m k Hmems Hm).
Qed.

Lemma lazy_file_wf f : wf_fileb f = true -> wf (lazy_file f).
Proof. exact (wf_file_sorted f). Qed.

Lemma level_exprs_wf lv : In lv (tl (ver s)) -> Forall wf (level_exprs lo hi lv).
Proof.
  intros Hlv. destruct (deep_level_wf s HI lv Hlv) as [Hw Hs].
  unfold level_exprs. destruct (filter (file_selected lo hi) lv) as [|f fs] eqn:E; [constructor|].
  constructor; [|constructor]. cbn [wf]. split; [|split].
  - apply wf_all_Forall. apply Forall_forall. intros x Hx. apply in_map_iff in Hx. destruct Hx as (g & <- & Hg).
    apply lazy_file_wf. rewrite <- E in Hg. apply filter_In in Hg. rewrite Forall_forall in Hw. now apply Hw.
  - discriminate.
  - rewrite lazy_concat, <- E. apply knd_desc_sorted.
    + now apply level_knd.
    + intros k. now apply (level_sel_desc s HI).
Qed.

Lemma version_expr_wf : wf (version_expr (ver s) lo hi).
Proof.
  unfold version_expr. cbn [wf]. split.
  - apply wf_all_Forall. unfold version_kids. apply Forall_app. split.
    + apply Forall_forall. intros x Hx. apply in_map_iff in Hx. destruct Hx as (f & <- & Hf).
      apply lazy_file_wf. now apply (l0_files_wf s HI).
    + apply Forall_forall. intros x Hx. apply in_flat_map in Hx. destruct Hx as (lv & Hlv & Hx).
      pose proof (level_exprs_wf lv Hlv) as Hf. rewrite Forall_forall in Hf. now apply Hf.
  - rewrite version_kids_concat. apply nopair_distinct, version_entries_nopair.
Qed.

Lemma scan_expr_gen_wf t : wf (scan_expr_gen mems (ver s) t lo hi).
Proof.
  unfold scan_expr_gen. cbn [wf]. split.
  - apply wf_all_Forall. unfold scan_kids. apply Forall_app. split.
    + apply Forall_forall. intros x Hx. apply in_map_iff in Hx. destruct Hx as (m & <- & Hm). now apply mem_expr_wf.
    + constructor; [apply version_expr_wf|constructor].
  - eapply distinct_perm; [symmetry; apply scan_kids_perm|]. apply nopair_distinct, scan_entries_nopair.
Qed.

(* ---- which entries are under the merge *)
Lemma in_files_iff e : In e (flat_map fents (flat (ver s))) <->
  exists f, (In f (hd [] (ver s)) \/ exists lv, In lv (tl (ver s)) /\ In f lv) /\ In e (fents f).
Proof.
  rewrite in_flat_map. unfold flat. split.
  - intros (f & Hf & He). exists f. split; [|exact He]. apply in_app_or in Hf. destruct Hf as [Hf|Hf].
    + left. now apply in_l0_order.
    + right. apply in_concat in Hf. destruct Hf as (lv & Hlv & Hf). eauto.
  - intros (f & [Hf|(lv & Hlv & Hf)] & He); exists f; (split; [|exact He]); apply in_or_app.
    + left. now apply in_l0_order.
    + right. apply in_concat. eauto.
Qed.

Lemma in_mem_entries e : In e (mem_entries mems lo hi) <-> In e (mem s) /\ inb lo hi e = true.
Proof.
  unfold mem_entries. rewrite in_flat_map, <- Hmems, in_concat. split.
  - intros (m & Hm & He). apply filter_In in He. destruct He as [He Hb]. split; [|exact Hb].
    exists m. split; [exact Hm|]. eapply Permutation_in; [apply Permutation_sym, sort_entries_perm|exact He].
  - intros [(m & Hm & He) Hb]. exists m. split; [exact Hm|]. apply filter_In. split; [|exact Hb].
    eapply Permutation_in; [apply sort_entries_perm|exact He].
Qed.

Lemma in_version_entries e : In e (version_entries (ver s) lo hi) <->
  exists f, (In f (hd [] (ver s)) \/ exists lv, In lv (tl (ver s)) /\ In f lv /\ file_selected lo hi f = true) /\ In e (fents f).
Proof.
  unfold version_entries. rewrite in_app_iff, !in_flat_map. split.
  - intros [(f & Hf & He)|(lv & Hlv & He)]; [exists f; tauto|].
    apply in_flat_map in He. destruct He as (f & Hf & He). apply filter_In in Hf. exists f. split; [right; exists lv; tauto|exact He].
  - intros (f & [Hf|(lv & Hlv & Hf & Hsel)] & He); [left; eauto|]. right. exists lv. split; [exact Hlv|].
    apply in_flat_map. exists f. split; [apply filter_In; tauto|exact He].
Qed.

Lemma scan_entries_in e : In e (scan_entries mems (ver s) lo hi) -> In e (all_entries s).
Proof.
  unfold scan_entries, all_entries. rewrite !in_app_iff. intros [H|H].
  - left. apply in_mem_entries in H. tauto.
  - right. apply in_files_iff. apply in_version_entries in H. destruct H as (f & Hf & He). exists f. split; [|exact He].
    destruct Hf as [Hf|(lv & Hlv & Hf & _)]; [now left|right; eauto].
Qed.

Lemma all_entries_in_scan e : In e (all_entries s) -> inb lo hi e = true -> In e (scan_entries mems (ver s) lo hi).
Proof.
  unfold scan_entries, all_entries. rewrite !in_app_iff. intros [H|H] Hb.
  - left. apply in_mem_entries. tauto.
  - right. apply in_version_entries. apply in_files_iff in H. destruct H as (f & Hf & He). exists f. split; [|exact He].
    destruct Hf as [Hf|(lv & Hlv & Hf)]; [now left|]. right. exists lv. split; [exact Hlv|]. split; [exact Hf|].
    destruct (deep_level_wf s HI lv Hlv) as [Hw _]. rewrite Forall_forall in Hw.
    exact (selected_of_inb lo hi f e (Hw f Hf) He Hb).
Qed.
End Scan.
