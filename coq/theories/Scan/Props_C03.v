(* Props_C03.v — the property theorems for C03 and nothing else.
   C03: "Range scans return exactly the live keys in range, in order, matching reads".

   run_scan s lo hi prog  (Scan/Model.v) is the model of KeyValueStore::range_scan on the store s:
     the list of observations (key_value(), failure) of the returned cursor, first in the state
     range_scan returns, then after every call of the program prog (seek_to_first / seek_to_last
     / seek k / prev / next, in any order and number).
   run_live s lo hi prog  is the same program on the REFERENCE cursor
     (sst::reference::ReferenceCursor, Cursor/Ref.v) over live_spec s lo hi, the specification:
     for every key the store holds anywhere, in ascending order and once each, what a point read
     (Lsm `load` at the store's sequence number) returns, kept iff it is a put (not a tombstone)
     and its key lies within the bounds.
   Inv s (Lsm/History.v) is the invariant of the store model: well-formed levels, every key's
   versions strictly descending in lookup order, timestamps bounded by the sequence number,
   memtable newer than files.  It holds in every state reached by an accepted history
   (C01_invariant_reachable) - writes, flushes, admissible compactions, garbage collections and
   reopens in any arrangement, so versions and tombstones of one key are spread over memtable,
   L0 and deeper levels in every arrangement the tree can produce.
   bound = Unbounded | Included k | Excluded k: all nine combinations, empty and inverted ranges
   included (nothing is assumed about lo and hi).
   The models are those of the repaired code (F1 fixed in db4381b; cursor combinators as repaired
   by the C11 fixes).

   WHAT IS NOT PROVED HERE (stated, not hidden):
   (a) ONE reachable snapshot is outside every theorem of this file.  The memtable thread ingests
       a flushed sst into the tree BEFORE it clears the immutable memtable (lsmtk/src/kvs/mod.rs,
       memtable_thread: `self.tree._ingest(..)`, then `state.imm = None` under the lock).  A
       range_scan snapshot taken in that window holds the immutable memtable and a version that
       already contains its sst, so every (key, timestamp) pair of the immutable memtable is under
       the store's MergingCursor TWICE.  C11's merging theorem (and hence C03_scan_expr_wf) needs
       pairwise distinct pairs, and a PruningCursor over a stream with repeated pairs is not the
       reference cursor over C11's prune_spec of that stream (the spec keeps both copies, the
       cursor skips repeats by key), so covering this class needs duplicate-tolerant versions of
       the C11 merging and pruning theorems, which do not exist.  Model.run_scan_dup is that
       snapshot in the model; ex_dup_snapshot below evaluates it on a concrete store; the
       correspondence run forces the window through lsmtk's gate `f_ingested` (about a thousand
       scans per quick run: real cursor = extracted run_scan_dup = live keys, no disagreement
       seen), and an exhaustive run of the model on this class found none either.  No defect is
       known; the class is UNPROVED.
   (b) A cursor that stays alive while the store changes under it (later writes into the very
       memtable it iterates, rollovers, flush completions, new versions, file removal) is not the
       subject of this file: the theorems here are about the cursor of a FIXED snapshot, at the
       snapshot's read timestamp (C03_scan_at_any_timestamp covers a memtable that already holds
       newer entries when the cursor is built).  That the cursor keeps returning its snapshot
       while the memtable grows and the tree changes is property C07's theorem
       Snap.Props_C07.C07_cursor_snapshot_stable (and C07_cursor_keeps_scan_open_contents); the
       correspondence run of C03 exercises it (`scanw`: cursors used across later writes). *)
From Coq Require Import NArith ZArith List Bool.
From Blue Require Import Lsm.Model Lsm.LoadProofs Lsm.Ordered Lsm.History Lsm.ModelConcurrent Lsm.ConcInv
  Lsm.ConcurrentProofs.
From Blue Require Import Cursor.Iface Cursor.Ref Cursor.Bounds Cursor.Spec Cursor.Compose Cursor.Proofs_Compose.
From Blue Require Import Scan.Skip Scan.Model Scan.Proofs_Bridge Scan.Proofs_Count Scan.Proofs_Wf Scan.Proofs_Skip
  Scan.Proofs_Scan Scan.Proofs_Extra.
Import ListNotations.
Local Close Scope N_scope.
Local Open Scope Z_scope.

(* THE scan theorem.  For every store satisfying the invariant, every pair of bounds and every
   program of cursor calls, the scan cursor gives exactly the observations of the reference cursor
   over the live entries in range: same entries, same order forward and backward, same landing
   position of every seek, no failure (no panic, no logic error, no loop of the model out of fuel). *)
Theorem C03_scan_correct : forall s lo hi prog,
  Inv s -> run_scan s lo hi prog = run_live s lo hi prog.
Proof. exact scan_correct. Qed.

(* ... hence after every accepted history, from any starting sequence number *)
Theorem C03_scan_after_history : forall n ops lo hi prog,
  all_accepted (init_at n) ops = true ->
  run_scan (History.run (init_at n) ops) lo hi prog = run_live (History.run (init_at n) ops) lo hi prog.
Proof. exact scan_after_history. Qed.

(* ... and after every accepted CONCURRENT history (several compactions selected, running and
   applied in any order while writes and flushes go on: Lsm/ModelConcurrent.v) *)
Theorem C03_scan_after_concurrent_history : forall n ops lo hi prog,
  caccepted (cinit_at n) ops = true ->
  run_scan (st (crun (cinit_at n) ops)) lo hi prog = run_live (st (crun (cinit_at n) ops)) lo hi prog.
Proof.
  intros n ops lo hi prog H. apply scan_correct. exact (ci_inv _ (concurrent_invariant_reachable n ops H)).
Qed.

(* what the specification list holds: x is listed iff its key is within the bounds, a point read
   of its key at the same moment returns exactly x, and x is not a tombstone.  (So: scan and point
   read agree for every key; a deleted key is never listed.) *)
Theorem C03_live_spec_characterised : forall s lo hi x, Inv s ->
  (In x (live_spec s lo hi) <->
   in_bounds lo hi x = true /\ load s (ek x) (seq s) = Some (uncv x) /\ ev x <> None).
Proof. intros s lo hi x HI. exact (live_spec_at_char s (seq s) lo hi x HI). Qed.

(* ... in strictly ascending key order: each key at most once
   (kinc l := every element is strictly below, in [u8]::cmp order, all later ones) *)
Theorem C03_live_spec_ascending_once : forall s lo hi,
  kinc (map ek (live_spec s lo hi)) /\ sorted (live_spec s lo hi).
Proof. intros s lo hi. split; [apply live_spec_at_keys|apply live_spec_at_sorted]. Qed.

(* ... and in terms of the history alone: (k, v) is listed iff k is within the bounds and the last
   write to k in the history is a put of v (History.spec is the map "value of the last write") *)
Theorem C03_live_spec_is_latest_puts : forall n ops lo hi k v,
  all_accepted (init_at n) ops = true ->
  ((exists x, In x (live_spec (History.run (init_at n) ops) lo hi) /\ ek x = k /\ ev x = Some v) <->
   key_in lo hi k = true /\ History.spec ops k = Some v).
Proof. exact live_spec_history. Qed.

(* the cursor nesting range_scan builds satisfies every combinator's precondition (sorted tables,
   pairwise distinct (key, timestamp) pairs under each merge, sorted non-empty concatenations),
   and its composed specification (C11's spec_of) IS the live list - for any split of the
   memtable entries into memtables (one, or memtable + immutable memtable) and ANY read
   timestamp t (live_spec_at s t: point reads at t) *)
Theorem C03_scan_expr_wf : forall s mems lo hi t, Inv s -> concat mems = mem s ->
  wf (scan_expr_gen mems (ver s) t lo hi).
Proof. intros s mems lo hi t HI Hm. exact (scan_expr_gen_wf s HI mems Hm lo hi t). Qed.

Theorem C03_scan_spec_is_live : forall s mems lo hi t, Inv s -> concat mems = mem s ->
  spec_of (scan_expr_gen mems (ver s) t lo hi) = live_spec_at s t lo hi.
Proof. exact scan_spec_is_live. Qed.

(* the memtable cursor on its own: BoundsCursor over the skiplist iterator wrapper - whose
   seek_to_first lands ON the first entry, unlike every other sst::Cursor - behaves as the
   reference cursor over the memtable's entries within the bounds *)
Theorem C03_memtable_cursor : forall fuel lo hi l, sorted l -> Z.of_nat fuel >= len l + 2 ->
  refines (bounds skcur fuel lo hi) (b_new skcur lo hi (sk_new l)) (bounds_spec lo hi l) (-1).
Proof. exact memtable_cursor_refines. Qed.

(* a snapshot taken while a flush is in progress (memtable m1, immutable memtable m2, the version
   from before the ingest) scans the same *)
Theorem C03_scan_with_immutable_memtable : forall s m1 m2 lo hi prog, Inv s -> mem s = m1 ++ m2 ->
  run_scan_gen [m1; m2] (ver s) (seq s) lo hi prog = run_live s lo hi prog.
Proof. exact scan_with_imm_correct. Qed.

(* the same at ANY read timestamp t (a snapshot whose seq_no is older than entries already in the
   memtable, as happens when writers run concurrently with the scan): the cursor lists what point
   reads at t return *)
Theorem C03_scan_at_any_timestamp : forall s mems lo hi t prog, Inv s -> concat mems = mem s ->
  run_scan_gen mems (ver s) t lo hi prog = run (ref (live_spec_at s t lo hi)) prog (-1).
Proof. exact scan_gen_correct_at. Qed.

(* KeyValueStore::range_scan reads at visible_seq_no, the sequence number of the last COMPLETED
   write, which may lag behind seq_no (a rollover takes a sequence number without writing).  Any
   timestamp that covers every entry of the store scans as the sequence number does
   (covers s t := every entry of s has timestamp <= t). *)
Theorem C03_scan_at_visible_seq_no : forall s lo hi t prog, Inv s -> covers s t ->
  run_scan_gen [mem s] (ver s) t lo hi prog = run_live s lo hi prog.
Proof. exact scan_at_covering. Qed.

(* ---- the scan theorem read concretely *)
(* no call ever fails *)
Theorem C03_scan_never_fails : forall s lo hi prog, Inv s ->
  Forall (fun o : obs => snd o = None) (run_scan s lo hi prog).
Proof. intros s lo hi prog HI. exact (scan_no_failure s HI lo hi prog). Qed.

(* whatever a program observes anywhere is in range, equals the point read of its key, and is not
   a tombstone *)
Theorem C03_scan_observes_only_live : forall s lo hi prog e f, Inv s ->
  In (Some e, f) (run_scan s lo hi prog) ->
  in_bounds lo hi e = true /\ load s (ek e) (seq s) = Some (uncv e) /\ ev e <> None.
Proof. intros s lo hi prog e f HI. exact (scan_observes_only_live s HI lo hi prog e f). Qed.

(* a seek, after any program, lands on the first live entry in range whose key is >= the target *)
Theorem C03_seek_lands : forall s lo hi prog k, Inv s ->
  last (run_scan s lo hi (prog ++ [OSeek k])) (None, None) =
  (find (fun e => negb (kltb (ek e) k)) (live_spec s lo hi), None).
Proof. intros s lo hi prog k HI. exact (scan_seek_lands s HI lo hi prog k). Qed.

(* walking forward from the returned cursor lists the live entries in ascending order, then ends;
   seek_to_last and walking backward lists them in descending order, then ends *)
Theorem C03_forward_walk : forall s lo hi, Inv s ->
  map fst (run_scan s lo hi (repeat ONext (length (live_spec s lo hi) + 1))) =
  None :: map Some (live_spec s lo hi) ++ [None].
Proof. intros s lo hi HI. exact (scan_forward_walk s HI lo hi). Qed.

Theorem C03_backward_walk : forall s lo hi, Inv s ->
  map fst (run_scan s lo hi (OLast :: repeat OPrev (length (live_spec s lo hi) + 1))) =
  None :: None :: map Some (rev (live_spec s lo hi)) ++ [None].
Proof. intros s lo hi HI. exact (scan_backward_walk s HI lo hi). Qed.

(* ---- LsmTree::range_scan (the tree alone, read at u64::MAX): the live entries of the tree's
   files; tree_store s = the store without its memtable *)
Theorem C03_tree_scan_correct : forall s lo hi prog, Inv s -> (seq s <= U64_MAX)%N ->
  run_tree_scan (ver s) lo hi prog = run_live (tree_store s) lo hi prog.
Proof. exact tree_scan_live. Qed.

(* ---- non-vacuity: a concrete accepted history (three flushes, a merging compaction whose
   output carries a tombstone over an older put and splits into two files, a tombstone in L0 over
   a put in L1, a newer put in the memtable over an older one in L1); the scan's observations are
   the expected ones, and the deleted keys 1 and 2 are not returned *)
Definition ex_ops : list History.op :=
  [ OWrite [([1], Some [10]); ([2], Some [20]); ([3], Some [30])]%N;
    OFlush 100 50;
    OWrite [([1]%N, None)];
    OWrite [([4], Some [40])]%N;
    OFlush 101 50;
    OCompact (mkC 0 1 [1]%N [4]%N [100; 101]%N)
      [mkF 200 [Lsm.Model.mkE [1]%N 3 None; Lsm.Model.mkE [1]%N 1 (Some [10]%N); Lsm.Model.mkE [2]%N 1 (Some [20]%N)] 40;
       mkF 201 [Lsm.Model.mkE [3]%N 1 (Some [30]%N); Lsm.Model.mkE [4]%N 4 (Some [40]%N)] 30];
    OWrite [([2]%N, None)];
    OWrite [([5], Some [50])]%N;
    OFlush 102 50;
    OWrite [([3], Some [31])]%N ].
Definition ex_store : store := History.run (init_at 0) ex_ops.
Definition e3 : entry := mkE [3]%N 9 (Some [31]%N).
Definition e4 : entry := mkE [4]%N 4 (Some [40]%N).
Definition e5 : entry := mkE [5]%N 7 (Some [50]%N).

Example ex_accepted : all_accepted (init_at 0) ex_ops = true.
Proof. vm_compute. reflexivity. Qed.

Example ex_components :
  length (mem ex_store) = 1%nat /\ map (@length file) (firstn 3 (ver ex_store)) = [1; 2; 0]%nat.
Proof. vm_compute. split; reflexivity. Qed.

Example ex_scan_all :
  run_scan ex_store Unbounded Unbounded [ONext; ONext; ONext; ONext; OPrev; OPrev; OSeek [2]%N; OPrev; OLast; OPrev] =
    run_live ex_store Unbounded Unbounded [ONext; ONext; ONext; ONext; OPrev; OPrev; OSeek [2]%N; OPrev; OLast; OPrev] /\
  map fst (run_scan ex_store Unbounded Unbounded [ONext; ONext; ONext; ONext; OPrev; OPrev; OSeek [2]%N; OPrev; OLast; OPrev]) =
    [None; Some e3; Some e4; Some e5; None; Some e5; Some e4; Some e3; None; None; Some e5].
Proof.
  split; [apply C03_scan_after_history; exact ex_accepted|vm_compute; reflexivity].
Qed.

Example ex_scan_bounds :
  map fst (run_scan ex_store (Excluded [3]%N) (Included [5]%N) [ONext; ONext; ONext; OPrev; OSeek [1]%N; OSeek [9]%N; OPrev]) =
    [None; Some e4; Some e5; None; Some e5; Some e4; None; Some e5] /\
  map fst (run_scan ex_store (Included [1]%N) (Excluded [3]%N) [ONext; ONext; OLast; OPrev]) = [None; None; None; None; None] /\
  map fst (run_scan ex_store (Included [4]%N) (Included [2]%N) [ONext; OLast; OPrev; OSeek [3]%N]) = [None; None; None; None; None].
Proof. vm_compute. repeat split; reflexivity. Qed.

(* the tree alone does not see the memtable's newer put of key 3 *)
Example ex_tree_scan :
  map fst (run_tree_scan (ver ex_store) Unbounded Unbounded [ONext; ONext; ONext; ONext; OPrev]) =
    [None; Some (mkE [3]%N 1 (Some [30]%N)); Some e4; Some e5; None; Some e5].
Proof. vm_compute. reflexivity. Qed.

(* a snapshot with an immutable memtable: the memtable entries split over two cursors *)
Definition ex_store2 : store := History.run (init_at 0) (ex_ops ++ [OWrite [([4]%N, None)]]).
Example ex_scan_imm :
  mem ex_store2 = [Lsm.Model.mkE [4]%N 10 None] ++ [Lsm.Model.mkE [3]%N 9 (Some [31]%N)] /\
  map fst (run_scan_gen [[Lsm.Model.mkE [4]%N 10 None]; [Lsm.Model.mkE [3]%N 9 (Some [31]%N)]] (ver ex_store2) (seq ex_store2)
             Unbounded Unbounded [ONext; ONext; ONext; OPrev; OPrev; OPrev]) =
    [None; Some e3; Some e5; None; Some e5; Some e3; None].
Proof. vm_compute. split; reflexivity. Qed.

(* ---- the defect F1 (repaired in db4381b), for the record: the nesting the code built BEFORE the
   repair pruned every component on its own, so the tombstone in the newer component was dropped
   before it could shadow the put in the older one.  `put 1; flush; del 1`: the old shape lists
   the deleted key, the repaired shape (scan_expr) and live_spec do not. *)
Definition f1_ops : list History.op :=
  [ OWrite [([1], Some [10])]%N; OFlush 100 50; OWrite [([1]%N, None)] ].
Definition f1_store : store := History.run (init_at 0) f1_ops.
Definition f1_old_shape (s : store) (lo hi : bound) : expr :=
  EBounds lo hi
    (EMerge [EBounds lo hi (EPrune (seq s) (ETable (table (sort_entries (mem s)))));
             EMerge (map (fun f => EPrune (seq s) (lazy_file f)) (hd [] (ver s)))]).
Example f1_old_shape_lists_deleted_key :
  all_accepted (init_at 0) f1_ops = true /\
  spec_of (f1_old_shape f1_store Unbounded Unbounded) = [mkE [1]%N 1 (Some [10]%N)] /\
  spec_of (scan_expr f1_store Unbounded Unbounded) = [] /\
  live_spec f1_store Unbounded Unbounded = [] /\
  map fst (run_scan f1_store Unbounded Unbounded [ONext; ONext]) = [None; None; None].
Proof. vm_compute. repeat split; reflexivity. Qed.

(* ---- the snapshot outside the theorems (see (a) in the header), evaluated: while ex_store2's
   memtable {4 deleted @10, 3 put @9} is being flushed and its sst is already in the tree, every
   pair of the immutable memtable is merged twice; the model still lists the live keys once *)
Example ex_dup_snapshot :
  map fst (run_scan_dup ex_store2 Unbounded Unbounded [ONext; ONext; ONext; OPrev; OPrev; OPrev; OSeek [3]%N; OPrev; OLast; OPrev; ONext]) =
    [None; Some e3; Some e5; None; Some e5; Some e3; None; Some e3; None; None; Some e5; None] /\
  run_scan_dup ex_store2 (Included [3]%N) (Excluded [5]%N) [ONext; ONext; OPrev; OPrev] =
    run_live ex_store2 (Included [3]%N) (Excluded [5]%N) [ONext; ONext; OPrev; OPrev].
Proof. vm_compute. split; reflexivity. Qed.
