(* Scan/Proofs_Bridge.v — the two areas' entry types and key orders are the same thing: the
   conversion `cv` and what it preserves (keys, order tests, sortedness). *)
From Coq Require Import NArith ZArith List Bool Lia Permutation.
From Blue Require Import Lsm.Model Lsm.KeyOrder Lsm.LoadProofs Lsm.Ordered Lsm.ListLemmas Lsm.SortLemmas.
From Blue Require Import Cursor.Iface Cursor.Ref Cursor.Bounds Cursor.Spec Cursor.Proofs_Order
  Cursor.Proofs_Ref Cursor.Proofs_Spec.
From Blue Require Import Scan.Model.
Import ListNotations.

Local Notation Lentry := Lsm.Model.entry.
Local Notation Lek := Lsm.Model.ek.
Local Notation Lets := Lsm.Model.ets.
Local Notation Lev := Lsm.Model.ev.

Arguments N.leb : simpl never.
Arguments N.ltb : simpl never.

(* ---- keys: lex_cmp (Lsm) and kcmp (Cursor) are the same function *)
Lemma lex_cmp_kcmp a b : lex_cmp a b = kcmp a b.
Proof. reflexivity. Qed.

Lemma key_eqb_keqb a b : key_eqb a b = keqb a b.
Proof. unfold key_eqb, keqb. now rewrite lex_cmp_kcmp. Qed.
Lemma key_ltb_kltb a b : key_ltb a b = kltb a b.
Proof. unfold key_ltb, kltb. now rewrite lex_cmp_kcmp. Qed.
Lemma key_leb_kleb a b : key_leb a b = kleb a b.
Proof. unfold key_leb, kleb. now rewrite lex_cmp_kcmp. Qed.

Lemma key_leb_kle a b : key_leb a b = true <-> kle a b.
Proof. rewrite key_leb_kleb. destruct (kleb_spec a b); split; auto; discriminate. Qed.
Lemma key_ltb_klt a b : key_ltb a b = true <-> klt a b.
Proof. rewrite key_ltb_kltb. destruct (kltb_spec a b); split; auto; discriminate. Qed.

(* ---- entries *)
Lemma cv_uncv x : cv (uncv x) = x.
Proof. destruct x; reflexivity. Qed.
Lemma uncv_cv e : uncv (cv e) = e.
Proof. destruct e; reflexivity. Qed.
Lemma cv_inj a b : cv a = cv b -> a = b.
Proof. intros H. rewrite <- (uncv_cv a), <- (uncv_cv b). now rewrite H. Qed.

Lemma ek_cv e : ek (cv e) = Lek e. Proof. reflexivity. Qed.
Lemma ets_cv e : ets (cv e) = Lets e. Proof. reflexivity. Qed.
Lemma ev_cv e : ev (cv e) = Lev e. Proof. reflexivity. Qed.

Lemma in_table x l : In x (table l) <-> In (uncv x) l.
Proof.
  unfold table. rewrite in_map_iff. split.
  - intros (e & <- & He). now rewrite uncv_cv.
  - intros H. exists (uncv x). split; [apply cv_uncv|exact H].
Qed.
Lemma in_table_cv e l : In (cv e) (table l) <-> In e l.
Proof. rewrite in_table, uncv_cv. reflexivity. Qed.

Lemma table_app a b : table (a ++ b) = table a ++ table b.
Proof. apply map_app. Qed.

(* ---- the KeyRef order on converted entries *)
Lemma entry_leb_ele a b : entry_leb a b = true <-> ele (cv a) (cv b).
Proof.
  unfold entry_leb, ele, ecmp. cbn [ek ets cv]. rewrite lex_cmp_kcmp.
  destruct (kcmp (Lek a) (Lek b)); try (split; [discriminate|congruence]); try (split; congruence).
  rewrite N.leb_le, N.compare_gt_iff. split; lia.
Qed.

Lemma entry_strict_elt a b : entry_leb a b = true -> entry_leb b a = false -> elt (cv a) (cv b).
Proof.
  intros H1 H2. apply entry_leb_ele in H1.
  assert (~ ele (cv b) (cv a)) as H3 by (intros C; apply entry_leb_ele in C; congruence).
  eorder.
Qed.

(* a file's entries (sorted_entriesb: adjacent pairs strictly increasing) are a sorted table *)
Lemma sorted_entriesb_sorted l : sorted_entriesb l = true -> sorted (table l).
Proof.
  induction l as [|x r IH]; [constructor|]. intros Hs.
  assert (Hr : sorted (table r)) by (apply IH; eapply sorted_tail; eauto).
  cbn [table map]. constructor; [exact Hr|].
  destruct r as [|y r']; [constructor|].
  cbn in Hs. apply andb_prop in Hs. destruct Hs as [Hxy _]. apply andb_prop in Hxy. destruct Hxy as [H1 H2].
  apply negb_true_iff in H2. pose proof (entry_strict_elt x y H1 H2) as Hlt.
  cbn [table map] in Hr |- *. apply sorted_inv in Hr. destruct Hr as [_ Hy].
  constructor; [exact Hlt|]. rewrite Forall_forall in *. intros z Hz. specialize (Hy z Hz). clear - Hy Hlt. eorder.
Qed.

Lemma wf_file_sorted f : wf_fileb f = true -> sorted (table (fents f)).
Proof.
  unfold wf_fileb. intros H. apply sorted_entriesb_sorted. destruct (fents f); [discriminate|exact H].
Qed.

(* ---- keys non-decreasing (all-pairs form) + per-key strictly descending timestamps = sorted *)
Fixpoint knd (l : list Lentry) : Prop :=
  match l with
  | [] => True
  | x :: r => (forall y, In y r -> key_leb (Lek x) (Lek y) = true) /\ knd r
  end.

Lemma knd_app a b : knd a -> knd b -> (forall x y, In x a -> In y b -> key_leb (Lek x) (Lek y) = true) -> knd (a ++ b).
Proof.
  induction a as [|x a IH]; cbn [app knd]; [tauto|]. intros [Hx Ha] Hb Hab. split.
  - intros y Hy. apply in_app_or in Hy. destruct Hy; [now apply Hx|apply Hab; [now left|assumption]].
  - apply IH; auto. intros u v Hu Hv. apply Hab; [now right|assumption].
Qed.

Lemma ssorted_knd l : ssorted l -> knd l.
Proof.
  induction l as [|x r IH]; cbn [ssorted knd]; [tauto|]. intros [Hx Hr]. split; [|now apply IH].
  intros y Hy. apply entry_leb_key. now apply Hx.
Qed.

Lemma sorted_entriesb_knd l : sorted_entriesb l = true -> knd l.
Proof.
  induction l as [|x r IH]; [intros; exact I|]. intros Hs. cbn [knd]. split.
  - now apply sorted_head_le.
  - apply IH. eapply sorted_tail; eauto.
Qed.

Lemma kfilter_cons_same x r : kfilter (Lek x) (x :: r) = x :: kfilter (Lek x) r.
Proof. unfold kfilter. cbn [filter]. now rewrite key_eqb_refl. Qed.

Lemma kfilter_cons_desc k x r : desc_ts (kfilter k (x :: r)) -> desc_ts (kfilter k r).
Proof.
  unfold kfilter. cbn [filter]. destruct (key_eqb (Lek x) k); [cbn [desc_ts]; tauto|auto].
Qed.

Lemma knd_desc_sorted l : knd l -> (forall k, desc_ts (kfilter k l)) -> sorted (table l).
Proof.
  induction l as [|x r IH]; [constructor|]. cbn [knd]. intros [Hx Hr] Hd.
  cbn [table map]. constructor.
  - apply IH; [exact Hr|]. intros k. eapply kfilter_cons_desc; eauto.
  - apply Forall_forall. intros z Hz. apply in_map_iff in Hz. destruct Hz as (y & <- & Hy).
    specialize (Hx y Hy). apply key_leb_kle in Hx.
    unfold elt. apply ecmp_lt_iff. cbn [ek ets cv].
    destruct (keqb_spec (Lek x) (Lek y)) as [E|NE].
    + right. split; [exact E|].
      specialize (Hd (Lek x)). rewrite kfilter_cons_same in Hd. cbn [desc_ts] in Hd.
      destruct Hd as [Hd _]. apply Hd. apply in_kfilter. auto.
    + left. korder.
Qed.

(* the skiplist order of a memtable whose per-key versions are strictly descending *)
Lemma sort_entries_sorted m : (forall k, desc_ts (kfilter k m)) -> sorted (table (sort_entries m)).
Proof.
  intros Hd. apply knd_desc_sorted.
  - apply ssorted_knd, sort_entries_ssorted.
  - intros k. rewrite kfilter_sort_entries by apply Hd. apply Hd.
Qed.

(* ---- bounds on converted entries *)
Definition inb (lo hi : bound) (e : Lentry) : bool := in_bounds lo hi (cv e).

Lemma filter_table lo hi l : filter (in_bounds lo hi) (table l) = table (filter (inb lo hi) l).
Proof.
  induction l as [|x r IH]; [reflexivity|]. cbn [table map filter]. unfold inb at 1.
  destruct (in_bounds lo hi (cv x)); cbn [map]; [f_equal|]; exact IH.
Qed.

(* bounds depend on the key only *)
Lemma in_bounds_key lo hi a b : ek a = ek b -> in_bounds lo hi a = in_bounds lo hi b.
Proof. intros E. unfold in_bounds, in_lo, in_hi. now rewrite E. Qed.

(* ---- two sorted lists with the same members are equal *)
Lemma sorted_ext_eq l1 : forall l2, sorted l1 -> sorted l2 -> (forall x, In x l1 <-> In x l2) -> l1 = l2.
Proof.
  induction l1 as [|a r1 IH]; intros [|b r2] H1 H2 Hs.
  - reflexivity.
  - exfalso. apply (proj2 (Hs b)). now left.
  - exfalso. apply (proj1 (Hs a)). now left.
  - apply sorted_inv in H1. destruct H1 as [Hr1 Ha]. apply sorted_inv in H2. destruct H2 as [Hr2 Hb].
    rewrite Forall_forall in Ha, Hb.
    assert (a = b) as ->.
    { destruct (proj1 (Hs a) (or_introl eq_refl)) as [->|Hin]; [reflexivity|].
      destruct (proj2 (Hs b) (or_introl eq_refl)) as [->|Hin']; [reflexivity|].
      specialize (Ha b Hin'). specialize (Hb a Hin). eorder. }
    f_equal. apply IH; auto. intros x. split; intros Hx.
    + destruct (proj1 (Hs x) (or_intror Hx)) as [<-|H]; [|exact H]. specialize (Ha b Hx). eorder.
    + destruct (proj2 (Hs x) (or_intror Hx)) as [<-|H]; [|exact H]. specialize (Hb b Hx). eorder.
Qed.
