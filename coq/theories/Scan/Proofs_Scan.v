(* Scan/Proofs_Scan.v — the scan cursor of a store satisfying the Lsm invariant behaves, on every
   program, as the reference cursor over the live entries in range. *)
From Coq Require Import NArith ZArith List Bool Lia Arith Permutation.
From Blue Require Import Lsm.Model Lsm.KeyOrder Lsm.LoadProofs Lsm.Ordered Lsm.ListLemmas Lsm.SortLemmas
  Lsm.CompactProofs Lsm.History.
From Blue Require Import Cursor.Iface Cursor.Ref Cursor.Lazy Cursor.Bounds Cursor.Pruning Cursor.Concat
  Cursor.Merging Cursor.Spec Cursor.Compose Cursor.Proofs_Order Cursor.Proofs_Ref Cursor.Proofs_Bounds
  Cursor.Proofs_Pruning Cursor.Proofs_Merging Cursor.Proofs_Spec Cursor.Proofs_Compose.
From Blue Require Import Scan.Skip Scan.Model Scan.Proofs_Bridge Scan.Proofs_Count Scan.Proofs_Wf Scan.Proofs_Skip.
Import ListNotations.

Local Notation Lentry := Lsm.Model.entry.
Local Notation Lek := Lsm.Model.ek.
Local Notation Lets := Lsm.Model.ets.
Local Notation Lev := Lsm.Model.ev.

Arguments N.leb : simpl never.
Arguments N.ltb : simpl never.
Local Close Scope N_scope.
Local Open Scope Z_scope.

(* ------------------------------------------------------------------------------------------
   1. the state KeyValueStore::range_scan builds refines the reference cursor over the composed
      specification of its expression (the seek_to_first on the memtable cursors included) *)
Lemma fold_max_bound (es : list expr) n : (forall x, In x es -> (depth x <= n)%nat) ->
  (fold_right (fun x a => Nat.max (depth x) a) 0%nat es <= n)%nat.
Proof.
  induction es as [|x r IH]; cbn [fold_right]; intros H; [lia|].
  specialize (IH (fun y Hy => H y (or_intror Hy))). specialize (H x (or_introl eq_refl)). lia.
Qed.

Lemma lazy_files_depth fs : fold_right (fun x a => Nat.max (depth x) a) 0%nat (map lazy_file fs) = 0%nat.
Proof. induction fs as [|f fs IH]; cbn [map fold_right depth lazy_file]; [reflexivity|]. now rewrite IH. Qed.

Lemma version_expr_depth v lo hi : (depth (version_expr v lo hi) <= 2)%nat.
Proof.
  unfold version_expr. cbn [depth]. apply le_n_S. apply fold_max_bound. intros x Hx.
  unfold version_kids in Hx. apply in_app_or in Hx. destruct Hx as [Hx|Hx].
  - apply in_map_iff in Hx. destruct Hx as (f & <- & _). cbn. lia.
  - apply in_flat_map in Hx. destruct Hx as (lv & _ & Hx). unfold level_exprs in Hx.
    destruct (filter (file_selected lo hi) lv) as [|f fs]; [destruct Hx|]. destruct Hx as [<-|[]].
    cbn [depth]. rewrite (lazy_files_depth (f :: fs)). lia.
Qed.

Lemma scan_kid_size mems v t lo hi x : In x (scan_kids mems v lo hi) ->
  (size x + 2 <= scan_fuel mems v t lo hi)%nat.
Proof.
  intros Hx. unfold scan_fuel, scan_expr_gen. cbn [size].
  pose proof (fold_size_le (scan_kids mems v lo hi) x Hx). lia.
Qed.

Lemma Forall2_map_kids {A S} (c : cursor S) (g : A -> S) (h : A -> list entry) (l : list A) :
  (forall a, In a l -> exists p, refines c (g a) (h a) p) ->
  Forall2 (fun s li => exists p, refines c s li p) (map g l) (map h l).
Proof.
  induction l as [|a l IH]; intros H; cbn [map]; constructor.
  - apply H. now left.
  - apply IH. intros b Hb. apply H. now right.
Qed.

Lemma scan_build_refines mems v t lo hi : wf (scan_expr_gen mems v t lo hi) ->
  refines (scan_cursor (scan_fuel mems v t lo hi) t lo hi) (scan_build mems v t lo hi)
          (spec_of (scan_expr_gen mems v t lo hi)) (-1).
Proof.
  intros Hw. unfold scan_build, scan_cursor. set (fuel := scan_fuel mems v t lo hi).
  set (kc := kid_cursor fuel lo hi).
  assert (Hfuel : fuel = (size (scan_expr_gen mems v t lo hi) + 2)%nat) by reflexivity.
  pose proof Hw as Hw0. unfold scan_expr_gen in Hw0. cbn [wf] in Hw0. destruct Hw0 as [Hall Hdist].
  apply wf_all_Forall in Hall.
  assert (HwM : wf (EMerge (scan_kids mems v lo hi))).
  { cbn [wf]. split; [now apply wf_all_Forall|exact Hdist]. }
  unfold scan_expr_gen. cbn [spec_of].
  apply (bounds_refines (pruning (merging kc) fuel t) fuel lo hi
           (prune_spec t (merge_spec (map spec_of (scan_kids mems v lo hi)))) _ (-1)).
  - exact (spec_sorted (EPrune t (EMerge (scan_kids mems v lo hi))) HwM).
  - pose proof (spec_size (EPrune t (EMerge (scan_kids mems v lo hi)))) as Hsz. cbn [spec_of size] in Hsz.
    unfold scan_expr_gen in Hfuel. cbn [size] in Hfuel. unfold len. lia.
  - apply (pruning_refines (merging kc) fuel t (merge_spec (map spec_of (scan_kids mems v lo hi))) _ (-1)).
    + exact (spec_sorted (EMerge (scan_kids mems v lo hi)) HwM).
    + pose proof (spec_size (EMerge (scan_kids mems v lo hi))) as Hsz. cbn [spec_of size] in Hsz.
      unfold scan_expr_gen in Hfuel. cbn [size] in Hfuel. unfold len. lia.
    + apply (merging_refines kc (merge_spec (map spec_of (scan_kids mems v lo hi))) (map spec_of (scan_kids mems v lo hi))).
      * now apply merge_spec_sorted.
      * apply merge_spec_perm.
      * apply Forall_forall. intros li Hli. apply in_map_iff in Hli. destruct Hli as (x & <- & Hx).
        apply spec_sorted. rewrite Forall_forall in Hall. now apply Hall.
      * rewrite Forall_forall in Hall. unfold scan_kids in *. rewrite map_app. apply Forall2_app.
        -- rewrite map_map. apply Forall2_map_kids. intros m Hm. exists (-1).
           assert (Hin : In (mem_expr m lo hi) (map (fun m0 => mem_expr m0 lo hi) mems ++ [version_expr v lo hi])).
           { apply in_or_app. left. apply in_map_iff. exists m. split; [reflexivity|exact Hm]. }
           unfold kc, kid_cursor. apply sum_refines_l. eapply refines_first.
           unfold mem_cursor, mem_new, mem_expr. cbn [spec_of].
           apply memtable_cursor_refines.
           ++ exact (Hall _ Hin).
           ++ pose proof (scan_kid_size mems v t lo hi _ Hin) as Hk. fold fuel in Hk.
              unfold mem_expr in Hk. cbn [size] in Hk. unfold len. lia.
        -- cbn [map]. constructor; [|constructor]. exists (-1).
           assert (Hin : In (version_expr v lo hi) (map (fun m0 => mem_expr m0 lo hi) mems ++ [version_expr v lo hi])).
           { apply in_or_app. right. now left. }
           unfold kc, kid_cursor. apply sum_refines_r. apply compose_refines.
           ++ exact (Hall _ Hin).
           ++ apply version_expr_depth.
           ++ exact (scan_kid_size mems v t lo hi _ Hin).
Qed.

Lemma run_scan_gen_spec mems v t lo hi prog : wf (scan_expr_gen mems v t lo hi) ->
  run_scan_gen mems v t lo hi prog = run (ref (spec_of (scan_expr_gen mems v t lo hi))) prog (-1).
Proof. intros Hw. destruct (scan_build_refines mems v t lo hi Hw) as [_ H]. apply H. Qed.

(* ------------------------------------------------------------------------------------------
   2. what the composed specification holds: exactly the live entries in range *)
Section Char.
Variable s : store.
Hypothesis HI : Inv s.
Variable mems : list (list Lentry).
Hypothesis Hmems : concat mems = mem s.
Variables lo hi : bound.
Variable t : N.

Lemma char_core (M : list entry) :
  (forall x, In x M <-> In (uncv x) (scan_entries mems (ver s) lo hi)) ->
  forall x, In x (bounds_spec lo hi (prune_spec t M)) <->
    in_bounds lo hi x = true /\ load s (ek x) t = Some (uncv x) /\ ev x <> None.
Proof.
  intros HM x. unfold bounds_spec, prune_spec. rewrite !filter_In, visible_spec.
  pose proof (load_newest s (ek x) t (inv_wf s HI) (inv_ord s HI)) as L.
  split.
  - intros [(Hx & Hle & Hv & Hmax) Hb]. split; [exact Hb|]. split; [|exact Hv].
    apply HM in Hx. pose proof (scan_entries_in s mems Hmems lo hi _ Hx) as HA.
    destruct (load s (ek x) t) as [e|].
    + destruct L as (He & Hk & Het & Hnew). f_equal.
      assert (Hbe : inb lo hi e = true).
      { unfold inb. rewrite (in_bounds_key lo hi (cv e) x); [exact Hb|exact Hk]. }
      assert (HeM : In (cv e) M).
      { apply HM. rewrite uncv_cv. exact (all_entries_in_scan s HI mems Hmems lo hi e He Hbe). }
      specialize (Hmax (cv e) HeM Hk Het). specialize (Hnew (uncv x) HA eq_refl Hle).
      cbn [ets cv Lsm.Model.ets uncv] in Hmax, Hnew.
      apply (ordered_unique s e (uncv x) (inv_ord s HI) He HA); [exact Hk|cbn [Lsm.Model.ets uncv]; lia].
    + exfalso. specialize (L (uncv x) HA eq_refl). cbn [Lsm.Model.ets uncv] in L. lia.
  - intros (Hb & Hl & Hv). rewrite Hl in L. destruct L as (He & Hk & Het & Hnew).
    split; [|exact Hb]. split; [|split; [exact Het|split; [exact Hv|]]].
    + apply HM. apply (all_entries_in_scan s HI mems Hmems lo hi _ He). unfold inb. now rewrite cv_uncv.
    + intros x' Hx' Hk' Ht'. apply HM in Hx'. apply (scan_entries_in s mems Hmems lo hi) in Hx'.
      exact (Hnew (uncv x') Hx' Hk' Ht').
Qed.

Lemma in_merged x : In x (merge_spec (map spec_of (scan_kids mems (ver s) lo hi))) <->
  In (uncv x) (scan_entries mems (ver s) lo hi).
Proof.
  rewrite <- in_table. split; intros H.
  - eapply Permutation_in; [apply scan_kids_perm|]. eapply Permutation_in; [symmetry; apply merge_spec_perm|exact H].
  - eapply Permutation_in; [apply merge_spec_perm|]. eapply Permutation_in; [symmetry; apply scan_kids_perm|exact H].
Qed.

Theorem scan_spec_char x : In x (spec_of (scan_expr_gen mems (ver s) t lo hi)) <->
  in_bounds lo hi x = true /\ load s (ek x) t = Some (uncv x) /\ ev x <> None.
Proof. unfold scan_expr_gen. cbn [spec_of]. apply char_core. exact in_merged. Qed.
End Char.

(* ------------------------------------------------------------------------------------------
   3. the executable specification live_spec: sorted, and characterised the same way *)
Fixpoint kinc (l : list key) : Prop :=
  match l with [] => True | a :: r => (forall b, In b r -> klt a b) /\ kinc r end.

Lemma in_insert_key k a l : In a (insert_key k l) <-> a = k \/ In a l.
Proof.
  induction l as [|b l IH]; cbn [insert_key]; [cbn; intuition|].
  destruct (kcmp k b) eqn:E; cbn [In].
  - apply kcmp_eq in E. subst. intuition.
  - intuition.
  - rewrite IH. intuition.
Qed.

Lemma in_sort_keys a l : In a (sort_keys l) <-> In a l.
Proof.
  unfold sort_keys. induction l as [|k l IH]; cbn [fold_right]; [reflexivity|].
  rewrite in_insert_key, IH. cbn [In]. intuition.
Qed.

Lemma insert_key_kinc k l : kinc l -> kinc (insert_key k l).
Proof.
  induction l as [|a r IH]; cbn [insert_key kinc]; [intros _; split; [intros ? []|exact I]|].
  intros [Ha Hr]. destruct (kcmp k a) eqn:E; cbn [kinc].
  - split; assumption.
  - split; [|split; assumption]. intros b [<-|Hb]; [exact E|]. specialize (Ha b Hb). unfold klt in *. eapply kcmp_lt_trans; eauto.
  - split; [|now apply IH]. intros b Hb. apply in_insert_key in Hb. destruct Hb as [->|Hb]; [|now apply Ha].
    unfold klt. rewrite kcmp_antisym, E. reflexivity.
Qed.

Lemma sort_keys_kinc l : kinc (sort_keys l).
Proof. unfold sort_keys. induction l as [|k l IH]; cbn [fold_right]; [exact I|]. now apply insert_key_kinc. Qed.

Lemma kinc_keys_sorted l : kinc (map ek l) -> sorted l.
Proof.
  induction l as [|a r IH]; [constructor|]. cbn [map kinc]. intros [Ha Hr]. constructor; [now apply IH|].
  apply Forall_forall. intros b Hb. apply klt_elt. apply Ha. now apply in_map.
Qed.

Lemma first_some_key (fs : list file) k t e :
  first_some (fun f => ents_load (fents f) k t) fs = Some e -> Lek e = k.
Proof.
  induction fs as [|f fs IH]; cbn [first_some]; [discriminate|].
  destruct (ents_load (fents f) k t) as [e'|] eqn:E; [|exact IH].
  intros H. injection H as <-. unfold ents_load in E. apply find_some in E. destruct E as [_ E].
  unfold hit in E. apply andb_prop in E. destruct E as [E _]. now apply key_eqb_eq.
Qed.

Lemma load_key s k t e : load s k t = Some e -> Lek e = k.
Proof.
  unfold load. destruct (ents_load (mem s) k t) as [e'|] eqn:E.
  - intros H. injection H as <-. unfold ents_load in E. apply find_some in E. destruct E as [_ E].
    unfold hit in E. apply andb_prop in E. destruct E as [E _]. now apply key_eqb_eq.
  - unfold load_version. apply first_some_key.
Qed.

Lemma live_at_in s t lo hi k x : In x (live_at s t lo hi k) <->
  load s k t = Some (uncv x) /\ ev x <> None /\ in_bounds lo hi x = true.
Proof.
  unfold live_at. destruct (load s k t) as [e|]; [|cbn; split; [tauto|intros [H _]; discriminate]].
  destruct (Lev e) as [v|] eqn:Ev.
  - destruct (in_bounds lo hi (cv e)) eqn:Eb; cbn [In]; split.
    + intros [<-|[]]. rewrite uncv_cv. cbn [ev cv]. rewrite Ev. repeat split; [discriminate|exact Eb].
    + intros (H & _ & _). left. injection H as ->. apply cv_uncv.
    + tauto.
    + intros (H & _ & Hb). injection H as ->. rewrite cv_uncv in Eb. congruence.
  - cbn [In]. split; [tauto|]. intros (H & Hv & _). injection H as ->. cbn in Ev. contradiction.
Qed.

Lemma live_at_key s t lo hi k x : In x (live_at s t lo hi k) -> ek x = k.
Proof. intros H. apply live_at_in in H. destruct H as [H _]. apply load_key in H. exact H. Qed.

Lemma live_at_short s t lo hi k : (length (live_at s t lo hi k) <= 1)%nat.
Proof.
  unfold live_at. destruct (load s k t) as [e|]; [|cbn; lia]. destruct (Lev e); [|cbn; lia].
  destruct (in_bounds lo hi (cv e)); cbn; lia.
Qed.

Lemma live_keys_kinc s t lo hi ks : kinc ks -> kinc (map ek (flat_map (live_at s t lo hi) ks)).
Proof.
  induction ks as [|k ks IH]; cbn [flat_map kinc]; [intros _; exact I|]. intros [Hk Hks].
  specialize (IH Hks). pose proof (live_at_short s t lo hi k) as Hlen.
  pose proof (live_at_key s t lo hi k) as Hkey.
  destruct (live_at s t lo hi k) as [|x [|y r]]; cbn [app map length] in *; [exact IH| |lia].
  cbn [kinc]. split; [|exact IH]. intros b Hb. apply in_map_iff in Hb. destruct Hb as (y & <- & Hy).
  apply in_flat_map in Hy. destruct Hy as (k' & Hk' & Hy). apply live_at_key in Hy.
  rewrite (Hkey x (or_introl eq_refl)), Hy. now apply Hk.
Qed.

Lemma live_spec_at_keys s t lo hi : kinc (map ek (live_spec_at s t lo hi)).
Proof. unfold live_spec_at. apply live_keys_kinc, sort_keys_kinc. Qed.

Lemma live_spec_at_sorted s t lo hi : sorted (live_spec_at s t lo hi).
Proof. apply kinc_keys_sorted, live_spec_at_keys. Qed.

Lemma in_all_keys s e : In e (all_entries s) -> In (Lek e) (all_keys s).
Proof.
  unfold all_entries, all_keys. rewrite !in_app_iff. intros [H|H]; [left; now apply in_map|right].
  apply in_flat_map in H. destruct H as (f & Hf & He). apply in_flat_map. exists f. split; [exact Hf|now apply in_map].
Qed.

Lemma live_spec_at_char s t lo hi x : Inv s ->
  (In x (live_spec_at s t lo hi) <-> in_bounds lo hi x = true /\ load s (ek x) t = Some (uncv x) /\ ev x <> None).
Proof.
  intros HI. unfold live_spec_at. rewrite in_flat_map. split.
  - intros (k & _ & Hx). pose proof (live_at_key _ _ _ _ _ _ Hx) as Hk. apply live_at_in in Hx. subst k. tauto.
  - intros (Hb & Hl & Hv). exists (ek x). split; [|apply live_at_in; tauto].
    apply in_sort_keys. pose proof (load_newest s (ek x) t (inv_wf s HI) (inv_ord s HI)) as L. rewrite Hl in L.
    destruct L as (He & _). apply in_all_keys in He. exact He.
Qed.

(* the composed specification IS the executable specification *)
Theorem scan_spec_is_live s mems lo hi t : Inv s -> concat mems = mem s ->
  spec_of (scan_expr_gen mems (ver s) t lo hi) = live_spec_at s t lo hi.
Proof.
  intros HI Hm. apply sorted_ext_eq.
  - apply spec_sorted. now apply scan_expr_gen_wf.
  - apply live_spec_at_sorted.
  - intros x. rewrite (scan_spec_char s HI mems Hm lo hi t x), (live_spec_at_char s t lo hi x HI). reflexivity.
Qed.

(* ------------------------------------------------------------------------------------------
   4. the scan theorem *)
Theorem scan_gen_correct_at s mems lo hi t prog : Inv s -> concat mems = mem s ->
  run_scan_gen mems (ver s) t lo hi prog = run (ref (live_spec_at s t lo hi)) prog (-1).
Proof.
  intros HI Hm. rewrite run_scan_gen_spec by now apply scan_expr_gen_wf.
  now rewrite (scan_spec_is_live s mems lo hi t HI Hm).
Qed.

Theorem scan_gen_correct s mems lo hi prog : Inv s -> concat mems = mem s ->
  run_scan_gen mems (ver s) (seq s) lo hi prog = run (ref (live_spec s lo hi)) prog (-1).
Proof. intros HI Hm. unfold live_spec. now apply scan_gen_correct_at. Qed.

Theorem scan_correct s lo hi prog : Inv s -> run_scan s lo hi prog = run_live s lo hi prog.
Proof.
  intros HI. unfold run_scan, run_live, ref_new. apply scan_gen_correct; [exact HI|].
  cbn [concat]. apply app_nil_r.
Qed.

(* a snapshot taken while a flush is in progress: memtable m1, immutable memtable m2 *)
Theorem scan_with_imm_correct s m1 m2 lo hi prog : Inv s -> mem s = m1 ++ m2 ->
  run_scan_gen [m1; m2] (ver s) (seq s) lo hi prog = run_live s lo hi prog.
Proof.
  intros HI Hm. unfold run_live, ref_new. apply scan_gen_correct; [exact HI|].
  cbn [concat]. now rewrite app_nil_r.
Qed.
