(* Scan/Model.v — executable model of the range-scan paths of lsmtk, as they are after the F1
   repair (commit db4381b: the components are not pruned individually, the merged stream is
   pruned once).  Definitions only.

   What is transcribed from the Rust:
     KeyValueStore::range_scan (lsmtk/src/kvs/mod.rs): the snapshot (mem, imm, version,
       visible_seq_no) - visible_seq_no is the sequence number of the last completed write; with
       no write in flight every entry of the store is <= it, and reading at it and reading at
       seq_no are the same (C03_scan_at_visible_seq_no); the model's `seq s` stands for both;
       one MemTableCursor per memtable, each seek_to_first()'ed before it is boxed; the version's
       cursor; MergingCursor::new over them; PruningCursor::new at the snapshot's seq_no;
       BoundsCursor::new with the caller's bounds.
     MemTable::range_scan (lsmtk/src/kvs/memtable.rs): BoundsCursor::new over the skiplist
       iterator (no pruning).
     Version::range_scan (lsmtk/src/tree/mod.rs): one LazyCursor per L0 file in the order the
       files are stored in levels[0]; for every deeper level the files passing the two
       compare_bounds_le tests, as LazyCursors under ONE ConcatenatingCursor, the level being
       skipped when no file passes; MergingCursor::new over all of them.
     LsmTree::range_scan: the version's cursor under PruningCursor::new(.., u64::MAX) and
       BoundsCursor::new.
     SnapshotCursor (lsmtk/src/tree/mod.rs), which both range_scans wrap the result in, forwards
       every Cursor method unchanged and only keeps the VersionRef alive (file lifetime is
       property C08's subject): it is the identity in this model.
   The cursor combinators themselves are the models of the Cursor area (property C11); a nesting
   of them is a `Cursor.Compose.expr`, its state a `ust`, its cursor `ucur d`.

   Representation choices (stated, not hidden):
   - a memtable's cursor is the BoundsCursor model over the model of the skiplist iterator wrapper
     (Scan/Skip.v), whose table is the memtable's entries in Key order (key ascending, timestamp
     descending) = `sort_entries` of the Lsm model's newest-first list (that the skiplist holds
     its entries in that order is property C17's subject);
   - an SstCursor under a LazyCursor is the table cursor over the file's entries (property C10);
   - the store model of the Lsm area has no immutable memtable (it exists only while a flush is
     in progress; the sequential model flushes atomically).  The scan model is nevertheless
     written over a LIST of memtables, `[mem]` for the sequential store and `[mem; imm]` for a
     snapshot taken during a flush, because the Rust pushes one cursor per memtable;
   - Sst metadata first_key / last_key are the keys of the first / last entry of the file (what
     SstMetadata records; checked on every dumped file by the correspondence run). *)
From Coq Require Import NArith ZArith List Bool.
From Blue Require Import Lsm.Model.
From Blue Require Import Cursor.Iface Cursor.Ref Cursor.Lazy Cursor.Bounds Cursor.Pruning
  Cursor.Concat Cursor.Merging Cursor.Spec Cursor.Compose.
From Blue Require Import Scan.Skip.
Import ListNotations.

(* The two areas have their own, isomorphic entry types; keys and values are `list N` in both. *)
Definition cv (e : Lsm.Model.entry) : entry :=
  mkE (Lsm.Model.ek e) (Lsm.Model.ets e) (Lsm.Model.ev e).
Definition uncv (e : entry) : Lsm.Model.entry :=
  Lsm.Model.mkE (ek e) (ets e) (ev e).
Definition table (es : list Lsm.Model.entry) : list entry := map cv es.

(* u64::MAX, the literal LsmTree::range_scan passes as the timestamp (no `const` in the Rust) *)
Definition U64_MAX : N := 18446744073709551615%N.

(* ---- MemTable::range_scan: BoundsCursor::new(SkipListIteratorWrapper, start, end) ---- *)
Definition mem_expr (m : list Lsm.Model.entry) (lo hi : bound) : expr :=
  EBounds lo hi (ETable (table (sort_entries m))).

(* ---- Version::range_scan ---- *)
(* fn compare_bounds_le(lhs, rhs), the nine arms in source order *)
Definition compare_bounds_le (lhs rhs : bound) : bool :=
  match lhs, rhs with
  | Unbounded, Unbounded => true
  | Unbounded, Included _ => true
  | Unbounded, Excluded _ => true
  | Included _, Unbounded => true
  | Included x, Included y => kleb x y        (* x <= y *)
  | Included x, Excluded y => kltb x y        (* x <  y *)
  | Excluded _, Unbounded => true
  | Excluded x, Included y => kltb x y        (* x <  y *)
  | Excluded x, Excluded y => kltb x y        (* x <  y *)
  end.

(* let sb = Included(&sst.first_key); let eb = Included(&sst.last_key);
   if compare_bounds_le(start_bound, eb) && compare_bounds_le(sb, end_bound) *)
Definition file_selected (lo hi : bound) (f : file) : bool :=
  compare_bounds_le lo (Included (last_key f)) && compare_bounds_le (Included (first_key f)) hi.

(* LazyCursor::new(move || lazy_cursor(..)) : opens the sst when first needed *)
Definition lazy_file (f : file) : expr := ELazy (table (fents f)).

(* one level below L0: the selected files under one ConcatenatingCursor; nothing if none is
   selected (`if !this_level_cursors.is_empty()`) *)
Definition level_exprs (lo hi : bound) (lv : level) : list expr :=
  match filter (file_selected lo hi) lv with
  | [] => []
  | fs => [EConcat (map lazy_file fs)]
  end.

(* `self.levels[0]` indexes: a version always has NUM_LEVELS levels; hd/tl make the model total *)
Definition version_kids (v : version) (lo hi : bound) : list expr :=
  map lazy_file (hd [] v) ++ flat_map (level_exprs lo hi) (tl v).
Definition version_expr (v : version) (lo hi : bound) : expr := EMerge (version_kids v lo hi).

(* ---- KeyValueStore::range_scan over the snapshot (memtables newest first, version, seq_no) *)
Definition scan_kids (mems : list (list Lsm.Model.entry)) (v : version) (lo hi : bound) : list expr :=
  map (fun m => mem_expr m lo hi) mems ++ [version_expr v lo hi].
Definition scan_expr_gen (mems : list (list Lsm.Model.entry)) (v : version) (t : N) (lo hi : bound) : expr :=
  EBounds lo hi (EPrune t (EMerge (scan_kids mems v lo hi))).

(* the sequential store: no immutable memtable *)
Definition scan_expr (s : store) (lo hi : bound) : expr :=
  scan_expr_gen [mem s] (ver s) (seq s) lo hi.

(* The cursor KeyValueStore::range_scan returns, and its state.
   `scan_expr_gen` above is the SHAPE of the nesting (used to state what the scan lists: C11's
   spec_of).  The cursor itself is built from the combinator models directly, so that the
   memtable cursors are what the Rust has: a BoundsCursor over the skiplist iterator wrapper
   (Scan/Skip.v), seek_to_first()'ed before it is boxed
   (`mem_scan.seek_to_first()?; cursors.push(Box::new(mem_scan));`).  The children of the store's
   MergingCursor are `Box<dyn Cursor>`: memtable cursors or the version's merging cursor (a
   cursor nesting of depth <= 2 of the Cursor area, `ucur 2`); `sumcur` is that dispatch.
   `fuel` bounds the loops of the bounds and pruning models (never exhausted: the theorems say
   so). *)
Definition scan_fuel (mems : list (list Lsm.Model.entry)) (v : version) (t : N) (lo hi : bound) : nat :=
  size (scan_expr_gen mems v t lo hi) + 2.

Definition mem_cursor (fuel : nat) (lo hi : bound) : cursor (bstate skstate) := bounds skcur fuel lo hi.
(* MemTable::range_scan: BoundsCursor::new(SkipListIteratorWrapper{ iter: skiplist.iter() }, ..) *)
Definition mem_new (lo hi : bound) (m : list Lsm.Model.entry) : bstate skstate :=
  b_new skcur lo hi (sk_new (table (sort_entries m))).

Definition kid : Type := (bstate skstate + ust)%type.
Definition kid_cursor (fuel : nat) (lo hi : bound) : cursor kid := sumcur (mem_cursor fuel lo hi) (ucur 2).
Definition scan_state : Type := bstate (pstate (mstate kid)).
Definition scan_cursor (fuel : nat) (t : N) (lo hi : bound) : cursor scan_state :=
  bounds (pruning (merging (kid_cursor fuel lo hi)) fuel t) fuel lo hi.

Definition scan_build (mems : list (list Lsm.Model.entry)) (v : version) (t : N) (lo hi : bound) : scan_state :=
  let fuel := scan_fuel mems v t lo hi in
  let kc := kid_cursor fuel lo hi in
  let mem_kids := map (fun m => inl (c_first (mem_cursor fuel lo hi) (mem_new lo hi m))) mems in
  let kids : list kid := mem_kids ++ [inr (ubuild 2 fuel (version_expr v lo hi))] in
  b_new (pruning (merging kc) fuel t) lo hi (p_new (merging kc) (m_new kc kids)).

(* a program of cursor calls on the cursor returned by KeyValueStore::range_scan: the
   observation (key_value(), failure) in the returned state and after every call *)
Definition run_scan_gen (mems : list (list Lsm.Model.entry)) (v : version) (t : N) (lo hi : bound)
    (prog : list op) : list obs :=
  run (scan_cursor (scan_fuel mems v t lo hi) t lo hi) prog (scan_build mems v t lo hi).
Definition run_scan (s : store) (lo hi : bound) (prog : list op) : list obs :=
  run_scan_gen [mem s] (ver s) (seq s) lo hi prog.

(* The one reachable snapshot OUTSIDE the theorems.  The memtable thread ingests the flushed sst
   into the tree (`self.tree._ingest(..)`) and only afterwards takes the store lock to clear `imm`
   (lsmtk/src/kvs/mod.rs, memtable_thread).  A range_scan whose snapshot falls into that window
   holds the new (possibly empty) memtable, the immutable memtable AND a version that already
   contains the immutable memtable's sst: every one of its (key, timestamp) pairs is under the
   store's MergingCursor twice.  This is that snapshot for a store s whose memtable is being
   flushed, with nothing written since the rollover. *)
Definition run_scan_dup (s : store) (lo hi : bound) (prog : list op) : list obs :=
  run_scan_gen [[]; mem s] (ver (flush s 0%N 0%N)) (seq s) lo hi prog.

(* ---- LsmTree::range_scan: the tree alone, read at u64::MAX ---- *)
Definition tree_scan_expr (v : version) (lo hi : bound) : expr :=
  EBounds lo hi (EPrune U64_MAX (version_expr v lo hi)).
Definition run_tree_scan (v : version) (lo hi : bound) (prog : list op) : list obs :=
  run_model (tree_scan_expr v lo hi) prog.

(* ---- the specification ------------------------------------------------------------------
   The live entries of the store in range, in key order: for every key the store holds anywhere,
   in ascending order and once each, what a point read at the store's sequence number returns,
   kept when it is a put and the key lies within the bounds. *)
Fixpoint insert_key (k : key) (l : list key) : list key :=
  match l with
  | [] => [k]
  | a :: r => match kcmp k a with
              | Lt => k :: l
              | Eq => l
              | Gt => a :: insert_key k r
              end
  end.
Definition sort_keys (l : list key) : list key := fold_right insert_key [] l.

Definition live_at (s : store) (t : N) (lo hi : bound) (k : key) : list entry :=
  match load s k t with
  | Some e =>
      match Lsm.Model.ev e with
      | Some _ => if in_bounds lo hi (cv e) then [cv e] else []
      | None => []
      end
  | None => []
  end.
Definition live_spec_at (s : store) (t : N) (lo hi : bound) : list entry :=
  flat_map (live_at s t lo hi) (sort_keys (all_keys s)).
Definition live_spec (s : store) (lo hi : bound) : list entry := live_spec_at s (seq s) lo hi.

(* the tree alone, as a store with an empty memtable (what LsmTree::range_scan reads) *)
Definition tree_store (s : store) : store := mkS [] (ver s) (seq s).

(* what the correspondence driver prints for one scan: the model's observations and the
   reference cursor over the specification, on the same program *)
Definition run_live (s : store) (lo hi : bound) (prog : list op) : list obs :=
  run (ref (live_spec s lo hi)) prog ref_new.
