(* Scan/Proofs_Skip.v — the memtable cursor (BoundsCursor over the skiplist iterator wrapper)
   behaves as the reference cursor over the memtable's entries within the bounds, although the
   wrapper's seek_to_first lands ON the first entry: BoundsCursor's `if key().is_some() { prev() }`
   makes up for it.  Also: a state of one summand refines what it refined before the sum. *)
From Coq Require Import NArith ZArith List Bool Lia.
From Blue Require Import Cursor.Iface Cursor.Ref Cursor.Bounds Cursor.Spec Cursor.Proofs_Order
  Cursor.Proofs_Ref Cursor.Proofs_Bounds.
From Blue Require Import Scan.Skip.
Import ListNotations.
Local Open Scope Z_scope.

(* ---- cursors with equal steps and observations have equal runs *)
Lemma run_ext {S} (c1 c2 : cursor S) :
  (forall o s, step c1 o s = step c2 o s) -> (forall s, observe c1 s = observe c2 s) ->
  forall prog s, run c1 prog s = run c2 prog s.
Proof.
  intros Hs Ho prog. induction prog as [|o p IH]; intros s; cbn [run]; rewrite Ho; [reflexivity|].
  f_equal. rewrite Hs. apply IH.
Qed.

(* ---- a cursor whose seek_to_first is followed by BoundsCursor's compensation *)
Definition norm {S} (c : cursor S) : cursor S := {|
  c_first := fun s => prev_if_some c (c_first c s);
  c_last := c_last c; c_seek := c_seek c; c_prev := c_prev c; c_next := c_next c;
  c_kv := c_kv c; c_fail := c_fail c |}.

Section Norm.
Context {S : Type} (c : cursor S) (fuel : nat) (lo hi : bound).
Hypothesis Hidem : forall cur, prev_if_some c (prev_if_some c (c_first c cur)) = prev_if_some c (c_first c cur).

Lemma b_first_raw_norm st : b_first_raw (norm c) lo hi st = b_first_raw c lo hi st.
Proof.
  unfold b_first_raw. destruct lo as [|k|k]; [|reflexivity|reflexivity].
  change (prev_if_some (norm c) (c_first (norm c) (b_cur (set_pos st BeforeStart))))
    with (prev_if_some c (prev_if_some c (c_first c (b_cur (set_pos st BeforeStart))))).
  now rewrite Hidem.
Qed.

Lemma b_seek_raw_norm k st : b_seek_raw (norm c) fuel lo hi k st = b_seek_raw c fuel lo hi k st.
Proof.
  unfold b_seek_raw.
  change (check_start (norm c) lo) with (check_start c lo).
  change (check_end (norm c) hi) with (check_end c hi).
  change (c_seek (norm c)) with (c_seek c).
  set (st' := check_start c lo (check_end c hi (set_cur (set_pos st Positioned) (c_seek c k (b_cur (set_pos st Positioned)))))).
  destruct (bpos_eqb (b_pos st') BeforeStart); [now rewrite b_first_raw_norm|reflexivity].
Qed.

Lemma bounds_norm_step o st : step (bounds (norm c) fuel lo hi) o st = step (bounds c fuel lo hi) o st.
Proof.
  destruct o; cbn [step bounds c_first c_last c_seek c_prev c_next]; unfold b_guard; destruct (b_fail st); try reflexivity.
  - apply b_first_raw_norm.
  - apply b_seek_raw_norm.
Qed.

Lemma bounds_norm_run prog st : run (bounds (norm c) fuel lo hi) prog st = run (bounds c fuel lo hi) prog st.
Proof. apply run_ext; [apply bounds_norm_step|reflexivity]. Qed.

Lemma b_new_norm cur : b_new (norm c) lo hi cur = b_new c lo hi cur.
Proof. unfold b_new. apply b_first_raw_norm. Qed.
End Norm.

(* ---- the skiplist iterator: compensation is idempotent, and the compensated cursor refines
        the reference cursor over its table *)
Lemma sk_idem cur : prev_if_some skcur (prev_if_some skcur (c_first skcur cur)) = prev_if_some skcur (c_first skcur cur).
Proof.
  destruct cur as [l i]. cbn [c_first skcur]. unfold sk_first. cbn [sk_tab].
  destruct l as [|a l].
  - unfold prev_if_some, has_key. cbn [c_kv skcur]. unfold sk_kv. cbn [sk_tab sk_idx]. rewrite ent_nil. reflexivity.
  - assert (Hk : has_key skcur (mkSk (a :: l) 0) = true).
    { unfold has_key. cbn [c_kv skcur]. unfold sk_kv. cbn [sk_tab sk_idx]. now rewrite ent_cons_0. }
    unfold prev_if_some at 2. rewrite Hk. cbn [c_prev skcur]. unfold sk_prev. cbn [sk_tab sk_idx].
    pose proof (len_nonneg l). rewrite len_cons.
    destruct (0 =? len l + 1) eqn:E; [apply Z.eqb_eq in E; lia|]. cbn [negb Z.eqb].
    unfold prev_if_some, has_key. cbn [c_kv skcur]. unfold sk_kv. cbn [sk_tab sk_idx].
    rewrite ent_none by lia. reflexivity.
Qed.

Definition sk_R (l : list entry) (s : skstate) (j : Z) : Prop :=
  sk_tab s = l /\ -1 <= sk_idx s <= len l /\ -1 <= j <= len l /\ (l <> [] -> sk_idx s = j).

Lemma sk_norm_sim l : sim (norm skcur) l (sk_R l).
Proof.
  constructor.
  - intros s j (_ & _ & Hj & _). exact Hj.
  - intros s j (Ht & Hi & Hj & He). cbn [c_kv norm skcur]. unfold sk_kv. rewrite Ht.
    destruct l as [|a l]; [now rewrite !ent_nil|]. rewrite He by discriminate. reflexivity.
  - reflexivity.
  - intros o [tab i] j (Ht & Hi & Hj & He). cbn [sk_tab sk_idx] in *. subst tab.
    pose proof (len_nonneg l) as Hl.
    assert (Hne : l <> [] -> 1 <= len l).
    { destruct l as [|a0 l0]; [congruence|]. intros _. rewrite len_cons. pose proof (len_nonneg l0). lia. }
    destruct o; cbn [step norm skcur ref c_first c_last c_seek c_prev c_next].
    + (* seek_to_first; if key().is_some() { prev() } *)
      unfold sk_first. cbn [sk_tab]. destruct l as [|a l'].
      * unfold prev_if_some, has_key. cbn [c_kv skcur]. unfold sk_kv. cbn [sk_tab sk_idx]. rewrite ent_nil.
        unfold sk_R. cbn [sk_tab sk_idx]. rewrite len_nil. repeat split; try lia. congruence.
      * assert (Hk : has_key skcur (mkSk (a :: l') 0) = true).
        { unfold has_key. cbn [c_kv skcur]. unfold sk_kv. cbn [sk_tab sk_idx]. now rewrite ent_cons_0. }
        unfold prev_if_some. rewrite Hk. cbn [c_prev skcur]. unfold sk_prev. cbn [sk_tab sk_idx].
        specialize (Hne ltac:(discriminate)).
        destruct (0 =? len (a :: l')) eqn:E; [apply Z.eqb_eq in E; lia|]. cbn [negb Z.eqb].
        unfold sk_R. cbn [sk_tab sk_idx]. repeat split; lia.
    + unfold sk_last, sk_R. cbn [sk_tab sk_idx]. repeat split; lia.
    + unfold sk_seek, sk_R. cbn [sk_tab sk_idx]. pose proof (count_range (below k) l). repeat split; lia.
    + unfold sk_prev, ref_prev, sk_R. cbn [sk_tab sk_idx].
      destruct (i =? len l) eqn:E1; [apply Z.eqb_eq in E1|apply Z.eqb_neq in E1]; cbn [sk_tab sk_idx].
      * destruct (j - 1 <? 0) eqn:E2; [apply Z.ltb_lt in E2|apply Z.ltb_ge in E2]; repeat split; try lia;
          intros Hn; specialize (He Hn); specialize (Hne Hn); lia.
      * destruct (i =? -1) eqn:E3; [apply Z.eqb_eq in E3|apply Z.eqb_neq in E3]; cbn [negb sk_tab sk_idx];
          destruct (j - 1 <? 0) eqn:E2; [apply Z.ltb_lt in E2|apply Z.ltb_ge in E2| apply Z.ltb_lt in E2|apply Z.ltb_ge in E2];
          repeat split; try lia; intros Hn; specialize (He Hn); specialize (Hne Hn); lia.
    + unfold sk_next, ref_next, sk_R. cbn [sk_tab sk_idx].
      destruct (i =? len l) eqn:E1; [apply Z.eqb_eq in E1|apply Z.eqb_neq in E1]; cbn [negb sk_tab sk_idx];
        destruct (len l <=? j + 1) eqn:E2; [apply Z.leb_le in E2|apply Z.leb_gt in E2|apply Z.leb_le in E2|apply Z.leb_gt in E2];
        repeat split; try lia; intros Hn; specialize (He Hn); specialize (Hne Hn); lia.
Qed.

Lemma sk_norm_refines l : refines (norm skcur) (sk_new l) l (len l).
Proof.
  apply (sim_refines (norm skcur) l (sk_R l) (sk_norm_sim l)).
  unfold sk_R, sk_new. cbn [sk_tab sk_idx]. pose proof (len_nonneg l). repeat split; lia.
Qed.

(* MemTableCursor = BoundsCursor::new(wrapper, lo, hi) refines the reference cursor over the
   memtable's entries within the bounds *)
Theorem memtable_cursor_refines fuel lo hi l : sorted l -> Z.of_nat fuel >= len l + 2 ->
  refines (bounds skcur fuel lo hi) (b_new skcur lo hi (sk_new l)) (bounds_spec lo hi l) (-1).
Proof.
  intros Hs Hf.
  pose proof (bounds_refines (norm skcur) fuel lo hi l (sk_new l) (len l) Hs Hf (sk_norm_refines l)) as [Hr H].
  split; [exact Hr|]. intros prog. rewrite <- (H prog), (b_new_norm skcur lo hi sk_idem).
  symmetry. apply (bounds_norm_run skcur fuel lo hi sk_idem).
Qed.

(* ---- the sum of two cursors *)
Section Sum.
Context {A B : Type} (ca : cursor A) (cb : cursor B).

Lemma sum_refines_l a l i : refines ca a l i -> refines (sumcur ca cb) (inl a) l i.
Proof.
  intros H. apply (sim_refines (sumcur ca cb) l (fun u j => exists a0, u = inl a0 /\ refines ca a0 l j)); [|eauto].
  constructor.
  - intros u j (a0 & -> & Hr). eapply refines_range; eauto.
  - intros u j (a0 & -> & Hr). exact (refines_kv ca a0 l j Hr).
  - intros u j (a0 & -> & Hr). exact (refines_fail ca a0 l j Hr).
  - intros o u j (a0 & -> & Hr). exists (step ca o a0). split; [destruct o; reflexivity|]. now apply refines_step.
Qed.

Lemma sum_refines_r b l i : refines cb b l i -> refines (sumcur ca cb) (inr b) l i.
Proof.
  intros H. apply (sim_refines (sumcur ca cb) l (fun u j => exists b0, u = inr b0 /\ refines cb b0 l j)); [|eauto].
  constructor.
  - intros u j (b0 & -> & Hr). eapply refines_range; eauto.
  - intros u j (b0 & -> & Hr). exact (refines_kv cb b0 l j Hr).
  - intros u j (b0 & -> & Hr). exact (refines_fail cb b0 l j Hr).
  - intros o u j (b0 & -> & Hr). exists (step cb o b0). split; [destruct o; reflexivity|]. now apply refines_step.
Qed.
End Sum.
