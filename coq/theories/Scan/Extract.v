(* Extraction of the executable scan model together with the Lsm store model it runs over (the
   driver replays a recorded history of the real store on the Lsm model, exactly as ocaml/lsm
   does, and evaluates range scans on the model store at every step).
   Directives: ExtrOcamlBasic only; N / positive / nat / Z stay inductive. *)
From Coq Require Import NArith ZArith List.
From Blue Require Import Lsm.Model Lsm.History.
From Blue Require Import Cursor.Iface Cursor.Bounds Cursor.Compose Scan.Model.
Require Import ExtrOcamlBasic.
Extraction Language OCaml.
Extraction "../ocaml/scan/gen_scan.ml"
  run_scan run_scan_gen run_scan_dup run_live run_tree_scan live_spec scan_expr tree_scan_expr spec_of cv uncv
  Lsm.History.init_at Lsm.History.step Lsm.History.acceptedb get load valid_compactionb vc_shape vc_slice vc_rest vc_range
  vc_closed vc_ids outputs_okb gc_outputs_okb wf_versionb orderedb apply_compaction flush subsetb
  file_entries sort_entries all_keys N.of_nat N.to_nat N.add N.mul N.div_eucl.
