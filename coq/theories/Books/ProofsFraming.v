(* Books/ProofsFraming.v — what "the item hash separates the entries" can mean, and where it cannot.

   sst::Setsum::put hashes the bytes  [8] ++ key ++ timestamp_le64 ++ value  with NO length
   prefixes (one hasher over the pieces), del hashes [9] ++ key ++ timestamp_le64.  Two different
   puts can therefore have the SAME frame — `put "a"@1378 = 00` and `put "ab"@5 = ""` both frame
   to 08 61 62 05 00 00 00 00 00 00 00 — and then their setsums are equal FOR ANY HASH: no
   hypothesis on H can separate them.  So the hypothesis of the entry-tamper theorems is split:
     - the frames of the entries involved differ (a property of the entries, decidable), and
     - H is injective (and non-zero) on the frames involved (a property of the hash).
   The first fails exactly on the class `framing_collision` (a tamper that replaces an entry by a
   different entry with the same frame), which is recorded as a known finding; outside it the
   theorems hold as before. *)
From Coq Require Import NArith List Bool Lia Permutation.
From Blue Require Import Gen.Const_Setsum Setsum.Model Setsum.Proofs.
From Blue Require Import Books.Model Books.ProofsGroup Books.ProofsAC Books.ProofsChain Books.ProofsVerify Books.ProofsGc Books.ProofsStore Books.ProofsTamper.
Import ListNotations.
Open Scope N_scope.

(* the tamper replaces one entry by a DIFFERENT entry with the SAME frame *)
Definition framing_collision (es es' : list entry) : Prop :=
  exists l1 e e' l2, es = l1 ++ e :: l2 /\ es' = l1 ++ e' :: l2 /\ e <> e' /\ frame e = frame e'.

(* the witness: put "a"@1378 = 00   vs   put "ab"@5 = "" *)
Definition collide_a : entry := mkE [97] 1378 (Some [0]).
Definition collide_b : entry := mkE [97; 98] 5 (Some []).

Lemma collide_frames : frame collide_a = frame collide_b /\ collide_a <> collide_b.
Proof. split; [vm_compute; reflexivity|discriminate]. Qed.

(* whatever the hash: the two single-entry files have the same setsum, i.e. the same name *)
Theorem framing_collision_same_setsum H : builder_setsum H [collide_a] = builder_setsum H [collide_b].
Proof.
  unfold builder_setsum, builder_add, insert_vectored, item_vectored_to_state. cbn [fold_left].
  replace (concat (entry_pieces collide_a)) with (concat (entry_pieces collide_b)) by (vm_compute; reflexivity).
  reflexivity.
Qed.

Theorem framing_collision_general H l1 e e' l2 : (forall x, bytes_ok (H x) /\ length (H x) = 32%nat) ->
  frame e = frame e' -> builder_setsum H (l1 ++ e :: l2) = builder_setsum H (l1 ++ e' :: l2).
Proof.
  intros Hok Ef. rewrite !builder_setsum_app, !builder_setsum_cons by exact Hok. f_equal. f_equal.
  unfold entry_setsum, builder_add, insert_vectored, item_vectored_to_state. unfold frame in Ef. now rewrite Ef.
Qed.

Section WithHash.
  Variable H : list N -> list N.
  Hypothesis H_ok : forall x, bytes_ok (H x) /\ length (H x) = 32%nat.

  Lemma entry_setsum_frame e : entry_setsum H e = hash_to_state (H (frame e)).
  Proof.
    unfold entry_setsum, builder_add, insert_vectored, item_vectored_to_state, frame.
    apply add_zero_l. destruct (H_ok (concat (entry_pieces e))). now apply hash_to_state_canonical.
  Qed.

  (* the hypothesis on the HASH alone, on the finite set of frames involved: no frame hashes to the
     neutral element, different frames have different item setsums *)
  Definition hash_separates_frames (S : list entry) : Prop :=
    (forall e, In e S -> hash_to_state (H (frame e)) <> zero) /\
    (forall e e', In e S -> In e' S -> frame e <> frame e' ->
       hash_to_state (H (frame e)) <> hash_to_state (H (frame e'))).

  Theorem tampered_entries_change_setsum_outside es es' : entries_tampered es es' ->
    ~ framing_collision es es' -> hash_separates_frames (es ++ es') ->
    builder_setsum H es <> builder_setsum H es'.
  Proof.
    intros Ht Hnk [Hnz Hinj] E.
    pose proof (builder_setsum_canonical H H_ok) as Hc. pose proof (entry_setsum_canonical H H_ok) as Hce.
    destruct Ht as [l1 e l2|l1 e l2|l1 e e' l2 Hne];
      rewrite !builder_setsum_app, !builder_setsum_cons in E by exact H_ok.
    - assert (E2 : add_state (entry_setsum H e) (builder_setsum H l2) = builder_setsum H l2)
        by (apply (add_cancel_l _ _ (builder_setsum H l1)); auto using add_canonical).
      apply add_state_self_zero in E2; auto. rewrite entry_setsum_frame in E2.
      apply (Hnz e); [|assumption]. rewrite !in_app_iff. cbn. tauto.
    - assert (E2 : add_state (entry_setsum H e) (builder_setsum H l2) =
                   add_state (entry_setsum H e) (add_state (entry_setsum H e) (builder_setsum H l2)))
        by (apply (add_cancel_l _ _ (builder_setsum H l1)); auto using add_canonical).
      assert (E3 : builder_setsum H l2 = add_state (entry_setsum H e) (builder_setsum H l2))
        by (apply (add_cancel_l _ _ (entry_setsum H e)); auto using add_canonical).
      symmetry in E3. apply add_state_self_zero in E3; auto. rewrite entry_setsum_frame in E3.
      apply (Hnz e); [|assumption]. rewrite !in_app_iff. cbn. tauto.
    - assert (E2 : add_state (entry_setsum H e) (builder_setsum H l2) = add_state (entry_setsum H e') (builder_setsum H l2))
        by (apply (add_cancel_l _ _ (builder_setsum H l1)); auto using add_canonical).
      apply add_cancel_r in E2; auto. rewrite !entry_setsum_frame in E2.
      apply (Hinj e e'); try assumption; try (rewrite !in_app_iff; cbn; tauto).
      intros Ef. apply Hnk. exists l1, e, e', l2. tauto.
  Qed.

  Theorem store_refuses_tampered_output_ne b inputs o1 es es' o2 input discard roll :
    canonical discard -> canonical input ->
    Forall (fun f => canonical (bsum f)) (o1 ++ o2) ->
    input = add_state (sum (map bsum (o1 ++ build_file H es :: o2))) discard ->
    builder_setsum H es <> builder_setsum H es' ->
    compaction_finish b inputs (o1 ++ build_file H es' :: o2) input discard roll = Err CStoreBalance.
  Proof.
    intros Hd Hi Ho Hbal Hs. unfold compaction_finish.
    assert (Hne : state_eqb input (add_state (sum (map bsum (o1 ++ build_file H es' :: o2))) discard) = false).
    { apply state_eqb_neq. intros E. rewrite Hbal in E.
      apply Forall_app in Ho. destruct Ho as [Ho1 Ho2].
      assert (C1 : Forall canonical (map bsum o1)) by (apply Forall_forall; intros x Hx; apply in_map_iff in Hx; destruct Hx as (f & <- & Hf); rewrite Forall_forall in Ho1; now apply Ho1).
      assert (C2 : Forall canonical (map bsum o2)) by (apply Forall_forall; intros x Hx; apply in_map_iff in Hx; destruct Hx as (f & <- & Hf); rewrite Forall_forall in Ho2; now apply Ho2).
      apply add_cancel_r in E; try assumption;
        try (apply sum_canonical; rewrite map_app; apply Forall_app; split; [assumption|constructor; [now apply builder_setsum_canonical|assumption]]).
      rewrite !map_app in E. cbn [map bsum build_file] in E.
      apply (sum_replace_neq (map bsum o1) (builder_setsum H es) (builder_setsum H es') (map bsum o2)); try assumption;
        try now apply builder_setsum_canonical. }
    now rewrite Hne.
  Qed.

  Lemma tampered_add_digest_ne t l1 es es' l2 : tadds t = l1 ++ builder_setsum H es :: l2 ->
    builder_setsum H es <> builder_setsum H es' ->
    tampered t (mkT (tI t) (tO t) (tD t) (l1 ++ builder_setsum H es' :: l2) (trms t) (tL t)).
  Proof.
    intros E Hs. apply (TamperAdd t l1 (builder_setsum H es) l2); [assumption|now apply builder_setsum_canonical|].
    intros E'. now symmetry in E'.
  Qed.
End WithHash.
