(* Books/ProofsVerify.v — the offline verifier on rendered fragments: it accepts exactly the
   balanced chains (given that its GC replays pass), so it accepts what the store wrote and
   rejects a log in which one digest of one transaction was changed. *)
From Coq Require Import NArith List Bool Lia Permutation.
From Blue Require Import Gen.Const_Setsum Setsum.Model Setsum.Proofs.
From Blue Require Import Books.Model Books.ProofsGroup Books.ProofsAC Books.ProofsChain.
Import ListNotations.
Open Scope N_scope.

Section WithHash.
  Variable H : list N -> list N.
  Variable coll : list entry -> list (key * N).

  (* ---------------------------------------------------------------- rendering and parsing *)
  Lemma from_info_render s : canonical s -> from_info (Some (hexdigest s)) = Ok s.
  Proof. intros Hs. unfold from_info. now rewrite from_hexdigest_hexdigest. Qed.

  Lemma sub_added_render l : forall cd, Forall canonical l -> sub_added cd (map hexdigest l) = sub_all cd l.
  Proof.
    induction l as [|x l IH]; intros cd Hl; cbn [map sub_added sub_all]; [reflexivity|].
    inversion Hl; subst. rewrite from_hexdigest_hexdigest by assumption.
    destruct (sub_r cd x); cbn [bind]; [now apply IH|reflexivity..].
  Qed.

  Lemma add_rmed_render l : forall cd rm, Forall canonical l ->
    add_rmed cd rm (map hexdigest l) = Ok (sum_from cd l, rm ++ l).
  Proof.
    induction l as [|x l IH]; intros cd rm Hl; cbn [map add_rmed sum_from fold_left].
    - now rewrite app_nil_r.
    - inversion Hl; subst. rewrite from_hexdigest_hexdigest by assumption. rewrite IH by assumption.
      unfold sum_from. now rewrite <- app_assoc.
  Qed.

  Definition retain_states (rm : list state) (adds : list state) : list state :=
    fold_left (fun rm s => filter (fun x => negb (state_eqb x s)) rm) adds rm.

  Lemma retain_render l : forall rm, Forall canonical l -> retain_not_added rm (map hexdigest l) = retain_states rm l.
  Proof.
    unfold retain_states. induction l as [|x l IH]; intros rm Hl; cbn [map retain_not_added fold_left]; [reflexivity|].
    inversion Hl; subst. rewrite from_hexdigest_hexdigest by assumption. now apply IH.
  Qed.

  Lemma parse_all_render l : Forall canonical l -> parse_all (map hexdigest l) = l.
  Proof.
    induction 1 as [|x l Hx Hl IH]; cbn [map parse_all]; [reflexivity|].
    rewrite from_hexdigest_hexdigest by assumption. now rewrite IH.
  Qed.

  (* ---------------------------------------------------------------- the step on parsed edits *)
  Definition gc_needed (t : txn) : bool :=
    negb (state_eqb (tD t) zero) && negb (match trms t with [] => true | _ => false end).

  Definition pstep (disk : list bfile) (st : vst) (t : txn) : res vst :=
    if vfirst st && negb (state_eqb (tO t) (vacc st)) then Err CNoContinue else
    if negb (vfirst st) && negb (state_eqb (tI t) (vacc st)) then Err CNoContinue else
    if negb (vfirst st) && negb (state_eqb (tI t) (add_state (tO t) (tD t))) then Err CNoBalance else
    bind (sub_all zero (tadds t)) (fun cd1 =>
    let computed := sum_from cd1 (trms t) in
    let rm2 := retain_states (vrm st ++ trms t) (tadds t) in
    if vfirst st then Ok (mkV false (vacc st) (Some (tO t)) rm2 (vlogs st)) else
    let logs := match tL t with None => vlogs st | Some n => vlogs st ++ [n] end in
    if negb (state_eqb (tD t) computed) then Err CBadDiscard else
    bind (verify_ssts H disk (tadds t)) (fun _ =>
    bind (if gc_needed t then verify_gc H coll disk (trms t) (tadds t) (tD t) else Ok tt) (fun _ =>
    bind (sub_r (vacc st) computed) (fun acc' => Ok (mkV false acc' (Some (tO t)) rm2 logs))))).

  Lemma vstep_render disk st t : txn_canon t -> vstep H coll disk st (render t) = pstep disk st t.
  Proof.
    intros (HI & HO & HD & Ha & Hr). unfold vstep, pstep, render. cbn [rI rO rD radds rrms rL].
    rewrite !from_info_render by assumption. cbn [bind].
    destruct (vfirst st && negb (state_eqb (tO t) (vacc st))); [reflexivity|].
    destruct (negb (vfirst st) && negb (state_eqb (tI t) (vacc st))); [reflexivity|].
    destruct (negb (vfirst st) && negb (state_eqb (tI t) (add_state (tO t) (tD t)))); [reflexivity|].
    rewrite sub_added_render by assumption.
    destruct (sub_all zero (tadds t)) as [cd1| |]; cbn [bind]; [|reflexivity..].
    rewrite add_rmed_render by assumption. cbn [bind]. rewrite retain_render by assumption.
    destruct (vfirst st); [reflexivity|].
    assert (El : match (match tL t with Some n => Some (Some n) | None => None end) with
                 | None => Ok (vlogs st)
                 | Some (Some n) => Ok (vlogs st ++ [n])
                 | Some None => Err CBadL
                 end = Ok (match tL t with None => vlogs st | Some n => vlogs st ++ [n] end))
      by (destruct (tL t); reflexivity).
    rewrite El. cbn [bind].
    destruct (negb (state_eqb (tD t) (sum_from cd1 (trms t)))); [reflexivity|].
    rewrite !parse_all_render by assumption.
    destruct (verify_ssts H disk (tadds t)) as [[]| |]; cbn [bind]; [|reflexivity..].
    assert (Eg : (negb (state_eqb (tD t) zero) && negb (match map hexdigest (trms t) with [] => true | _ :: _ => false end)) = gc_needed t)
      by (unfold gc_needed; destruct (trms t); reflexivity).
    rewrite Eg. reflexivity.
  Qed.

  Fixpoint ploop (disk : list bfile) (st : vst) (ts : list txn) : res vst :=
    match ts with
    | [] => Ok st
    | t :: r => bind (pstep disk st t) (fun st' => ploop disk st' r)
    end.

  Lemma vloop_render disk ts : forall st, Forall txn_canon ts ->
    vloop H coll disk st (map render ts) = ploop disk st ts.
  Proof.
    induction ts as [|t ts IH]; intros st Hc; cbn [map vloop ploop]; [reflexivity|].
    inversion Hc; subst. rewrite vstep_render by assumption.
    destruct (pstep disk st t); cbn [bind]; [now apply IH|reflexivity..].
  Qed.

  (* ---------------------------------------------------------------- the computed discard *)
  Lemma computed_discard_spec adds rms : Forall canonical adds -> Forall canonical rms ->
    exists cd1, sub_all zero adds = Ok cd1 /\ canonical (sum_from cd1 rms) /\
      add_state (sum_from cd1 rms) (sum adds) = sum rms.
  Proof.
    intros Ha Hr. destruct (sub_all_ok adds zero zero_canonical Ha) as (cd1 & E & Hc & Hs).
    exists cd1. split; [assumption|]. split; [now apply sum_from_canonical|].
    rewrite sum_from_add by assumption.
    pose proof (sum_canonical _ Ha) as Hsa. pose proof (sum_canonical _ Hr) as Hsr.
    transitivity (add_state (add_state cd1 (sum adds)) (sum rms)); [ac_group assumption|].
    rewrite Hs. now apply add_zero_l.
  Qed.

  Lemma discard_matches t cd1 : txn_canon t -> sub_all zero (tadds t) = Ok cd1 ->
    (tD t = sum_from cd1 (trms t) <-> disc_ok t).
  Proof.
    intros (HI & HO & HD & Ha & Hr) E.
    destruct (computed_discard_spec (tadds t) (trms t) Ha Hr) as (cd1' & E' & Hc & Hs).
    rewrite E in E'. inversion E'; subst cd1'. unfold disc_ok. split.
    - intros ->. exact Hs.
    - intros Hd. apply (add_cancel_r _ _ (sum (tadds t))); [assumption|assumption|now apply sum_canonical|].
      now rewrite Hs.
  Qed.

  (* what the verifier reads from files for an edit: every added sst holds the entries its name
     stands for (verify_sst), and the GC replay passes when there is one *)
  Definition files_pass (disk : list bfile) (t : txn) : Prop :=
    verify_ssts H disk (tadds t) = Ok tt /\
    (gc_needed t = true -> verify_gc H coll disk (trms t) (tadds t) (tD t) = Ok tt).

  (* ---------------------------------------------------------------- completeness *)
  Lemma pstep_first_ok disk st t : vfirst st = true -> txn_canon t -> tO t = vacc st ->
    exists rm, pstep disk st t = Ok (mkV false (vacc st) (Some (tO t)) rm (vlogs st)).
  Proof.
    intros Hf (HI & HO & HD & Ha & Hr) E. unfold pstep. rewrite Hf, E, state_eqb_refl. cbn [andb negb].
    destruct (sub_all_ok (tadds t) zero zero_canonical Ha) as (cd1 & E1 & _ & _). rewrite E1. cbn [bind]. eauto.
  Qed.

  Lemma pstep_next_ok disk st t : vfirst st = false -> txn_canon t -> txn_ok (vacc st) t -> files_pass disk t ->
    exists rm logs, pstep disk st t = Ok (mkV false (tO t) (Some (tO t)) rm logs).
  Proof.
    intros Hf Hc (EI & Ebal & Hd) [Hssts Hgc]. pose proof Hc as (HI & HO & HD & Ha & Hr). unfold pstep. rewrite Hf. cbn [andb negb].
    rewrite <- EI, state_eqb_refl. cbn [negb]. rewrite <- Ebal, state_eqb_refl. cbn [negb].
    destruct (computed_discard_spec (tadds t) (trms t) Ha Hr) as (cd1 & E1 & Hcc & Hs). rewrite E1. cbn [bind].
    assert (Ed : tD t = sum_from cd1 (trms t)) by (now apply (discard_matches t cd1)).
    rewrite <- Ed, state_eqb_refl. cbn [negb]. rewrite Hssts. cbn [bind].
    assert (Eg : (if gc_needed t then verify_gc H coll disk (trms t) (tadds t) (tD t) else Ok tt) = Ok tt).
    { destruct (gc_needed t) eqn:G; [now apply Hgc|reflexivity]. }
    rewrite Eg. cbn [bind]. rewrite (sub_r_of_add (tI t) (tD t) (tO t)) by (try assumption; now symmetry).
    cbn [bind]. eauto.
  Qed.

  Lemma ploop_chain_ok disk ts : forall st, vfirst st = false -> Forall txn_canon ts -> chain (vacc st) ts ->
    Forall (files_pass disk) ts ->
    exists rm logs, ploop disk st ts = Ok (mkV false (last_O (vacc st) ts) (match ts with [] => vlast st | _ => Some (last_O (vacc st) ts) end) rm logs)
                    \/ (ts = [] /\ ploop disk st ts = Ok st).
  Proof.
    induction ts as [|t ts IH]; intros st Hf Hc Hch Hgc.
    - exists [], []. right. split; reflexivity.
    - inversion Hc; subst. inversion Hgc; subst. destruct Hch as [Ht Hch].
      destruct (pstep_next_ok disk st t Hf) as (rm & logs & E); try assumption.
      cbn [ploop]. rewrite E. cbn [bind].
      destruct (IH (mkV false (tO t) (Some (tO t)) rm logs)) as (rm' & logs' & [E'|[-> E']]); try assumption; try reflexivity.
      + exists rm', logs'. left. rewrite E'. cbn [vacc last_O fold_left]. f_equal. f_equal.
        destruct ts; reflexivity.
      + exists rm, logs. left. cbn [ploop]. reflexivity.
  Qed.

  Theorem verify_one_complete disk fr acc : Forall txn_canon fr -> frag_ok acc fr -> Forall (files_pass disk) fr ->
    exists rm logs, verify_one H coll disk (map render fr) acc = Ok (frag_end fr, rm, logs).
  Proof.
    intros Hc Hok Hgc. destruct fr as [|t0 r]; [destruct Hok|]. destruct Hok as [E0 Hch].
    inversion Hc; subst. inversion Hgc; subst. unfold verify_one. rewrite vloop_render by assumption. cbn [ploop].
    destruct (pstep_first_ok disk (mkV true (tO t0) None [] []) t0) as (rm & E); try assumption; try reflexivity.
    rewrite E. cbn [bind vacc vlogs].
    destruct (ploop_chain_ok disk r (mkV false (tO t0) (Some (tO t0)) rm [])) as (rm' & logs' & [E'|[-> E']]); try assumption; try reflexivity.
    - rewrite E'. cbn [bind vlast vacc vrm vlogs]. rewrite frag_end_cons.
      destruct r as [|t r']; cbn; rewrite state_eqb_refl; eauto.
    - cbn [ploop bind vlast vacc vrm vlogs]. rewrite state_eqb_refl. rewrite frag_end_cons. cbn. eauto.
  Qed.

  Theorem verify_frags_complete disk frs : forall acc, Forall (Forall txn_canon) frs -> frags_ok acc frs ->
    Forall (Forall (files_pass disk)) frs ->
    verify_frags H coll disk (map (map render) frs) acc = Ok (log_end acc frs).
  Proof.
    induction frs as [|fr frs IH]; intros acc Hc Hok Hgc; cbn [map verify_frags log_end fold_left]; [reflexivity|].
    inversion Hc; subst. inversion Hgc; subst. destruct Hok as [Hfr Hrest].
    destruct (verify_one_complete disk fr acc) as (rm & logs & E); try assumption.
    rewrite E. cbn [bind]. now apply IH.
  Qed.

  (* ---------------------------------------------------------------- soundness *)
  Lemma pstep_first_sound disk st t st' : vfirst st = true -> pstep disk st t = Ok st' ->
    tO t = vacc st /\ vfirst st' = false /\ vacc st' = vacc st /\ vlast st' = Some (tO t).
  Proof.
    intros Hf. unfold pstep. rewrite Hf. cbn [andb negb].
    destruct (state_eqb (tO t) (vacc st)) eqn:E; cbn [negb]; [|discriminate].
    apply state_eqb_eq in E. destruct (sub_all zero (tadds t)); cbn [bind]; [|discriminate..].
    intros E'. inversion E'; subst. cbn. tauto.
  Qed.

  Lemma pstep_next_sound disk st t st' : vfirst st = false -> canonical (vacc st) -> txn_canon t ->
    pstep disk st t = Ok st' ->
    txn_ok (vacc st) t /\ files_pass disk t /\ vfirst st' = false /\ vacc st' = tO t /\ vlast st' = Some (tO t).
  Proof.
    intros Hf Hacc Hc. pose proof Hc as (HI & HO & HD & Ha & Hr). unfold pstep. rewrite Hf. cbn [andb negb].
    destruct (state_eqb (tI t) (vacc st)) eqn:E1; cbn [negb]; [|discriminate]. apply state_eqb_eq in E1.
    destruct (state_eqb (tI t) (add_state (tO t) (tD t))) eqn:E2; cbn [negb]; [|discriminate]. apply state_eqb_eq in E2.
    destruct (sub_all zero (tadds t)) as [cd1| |] eqn:E3; cbn [bind]; [|discriminate..].
    destruct (state_eqb (tD t) (sum_from cd1 (trms t))) eqn:E4; cbn [negb]; [|discriminate]. apply state_eqb_eq in E4.
    destruct (verify_ssts H disk (tadds t)) as [[]| |] eqn:E7; cbn [bind]; [|discriminate..].
    destruct (if gc_needed t then verify_gc H coll disk (trms t) (tadds t) (tD t) else Ok tt) as [[]| |] eqn:E5; cbn [bind]; [|discriminate..].
    destruct (sub_r (vacc st) (sum_from cd1 (trms t))) as [acc'| |] eqn:E6; cbn [bind]; [|discriminate..].
    intros E'. inversion E'; subst st'. cbn [vfirst vacc vlast].
    assert (Hd : disc_ok t) by (now apply (discard_matches t cd1)).
    split; [unfold txn_ok; tauto|]. split; [|split; [reflexivity|split; [|reflexivity]]].
    - split; [exact E7|]. intros G. now rewrite G in E5.
    - rewrite <- E4 in E6. rewrite <- E1 in E6. rewrite E2 in E6.
      unfold sub_r in E6. rewrite sub_add in E6 by assumption. now inversion E6.
  Qed.

  Lemma ploop_sound disk ts : forall st st', vfirst st = false -> canonical (vacc st) -> Forall txn_canon ts ->
    ploop disk st ts = Ok st' ->
    chain (vacc st) ts /\ Forall (files_pass disk) ts /\ vacc st' = last_O (vacc st) ts /\
    vlast st' = match ts with [] => vlast st | _ => Some (last_O (vacc st) ts) end.
  Proof.
    induction ts as [|t ts IH]; intros st st' Hf Hacc Hc; cbn [ploop].
    - intros E. inversion E; subst. cbn. repeat split; constructor.
    - inversion Hc as [|? ? Hct Hcts]; subst. destruct (pstep disk st t) as [st1| |] eqn:E1; cbn [bind]; [|discriminate..].
      intros E. destruct (pstep_next_sound disk st t st1 Hf Hacc) as (Ht & Hg & Hf1 & Ha1 & Hl1); try assumption.
      destruct (IH st1 st' Hf1) as (Hch & Hgs & Ha' & Hl'); try assumption.
      { rewrite Ha1. destruct Hct as (_ & HO & _). exact HO. }
      rewrite Ha1 in *. split; [split; assumption|]. split; [now constructor|].
      cbn [last_O fold_left]. split; [exact Ha'|]. rewrite Hl'. destruct ts; [cbn; exact Hl1|reflexivity].
  Qed.

  Theorem verify_one_sound disk fr acc r : canonical acc -> Forall txn_canon fr ->
    verify_one H coll disk (map render fr) acc = Ok r ->
    frag_ok acc fr /\ Forall (files_pass disk) (tl fr) /\ fst (fst r) = frag_end fr.
  Proof.
    intros Hacc Hc. unfold verify_one. rewrite vloop_render by assumption.
    destruct fr as [|t0 ts]; cbn [ploop]; [cbn; discriminate|].
    inversion Hc; subst.
    destruct (pstep disk (mkV true acc None [] []) t0) as [st1| |] eqn:E0; cbn [bind]; [|discriminate..].
    destruct (pstep_first_sound disk (mkV true acc None [] []) t0 st1 eq_refl E0) as (EO & Hf1 & Ha1 & Hl1). cbn [vacc] in *.
    destruct (ploop disk st1 ts) as [st'| |] eqn:E1; cbn [bind]; [|discriminate..].
    destruct (ploop_sound disk ts st1 st' Hf1) as (Hch & Hgs & Ha' & Hl'); try assumption; [now rewrite Ha1|].
    rewrite Ha1 in *.
    destruct (vlast st') as [o|]; [|discriminate].
    destruct (state_eqb o (vacc st')); [|discriminate].
    intros E. inversion E; subst r. cbn [fst tl]. split; [split; assumption|]. split; [assumption|].
    rewrite frag_end_cons, EO. exact Ha'.
  Qed.

  (* the verifier never panics on what ManifestIterator can hand it from canonical digests *)
  Lemma verify_gc_no_panic disk rms adds d : verify_gc H coll disk rms adds d <> Panic.
  Proof.
    unfold verify_gc.
    assert (G : forall l, get_all disk l <> Panic).
    { induction l as [|x l IH]; cbn [get_all]; [discriminate|]. destruct (lookup disk x); [|discriminate].
      destruct (get_all disk l); cbn [bind]; [discriminate|discriminate|contradiction]. }
    assert (V : forall gcs i o cd, vgc_loop H gcs i o cd <> Panic).
    { intros gcs i. revert gcs. induction i as [|x i IH]; intros gcs o cd; cbn [vgc_loop].
      - destruct o; discriminate.
      - destruct o as [|y o]; [apply IH|].
        destruct gcs as [|g gcs].
        + destruct (kcmp (kr x) (kr y)); [apply IH|apply IH|discriminate].
        + destruct (kcmp g (kr x)); [|discriminate|].
          * destruct (kcmp (kr x) (kr y)); [apply IH|discriminate|discriminate].
          * destruct (kcmp (kr x) (kr y)); [apply IH|apply IH|discriminate]. }
    destruct (get_all disk rms) as [ins| |] eqn:E1; cbn [bind]; [|discriminate|destruct (G rms E1)].
    destruct (get_all disk adds) as [outs| |] eqn:E2; cbn [bind]; [|discriminate|destruct (G adds E2)].
    destruct (vgc_loop H _ _ _ zero) eqn:E3; cbn [bind]; [destruct (state_eqb _ d); discriminate|discriminate|destruct (V _ _ _ _ E3)].
  Qed.

  Lemma verify_ssts_no_panic disk l : verify_ssts H disk l <> Panic.
  Proof.
    induction l as [|x l IH]; cbn [verify_ssts]; [discriminate|].
    destruct (lookup disk x); [|discriminate]. destruct (state_eqb _ x); [exact IH|discriminate].
  Qed.

  (* every sst an accepted edit adds is on the disk and holds entries whose setsum is its name *)
  Lemma verify_ssts_ok_in disk l x : verify_ssts H disk l = Ok tt -> In x l ->
    exists es, lookup disk x = Some es /\ builder_setsum H es = x.
  Proof.
    induction l as [|y l IH]; cbn [verify_ssts]; intros E Hin; [destruct Hin|].
    destruct (lookup disk y) as [es|] eqn:El; [|discriminate].
    destruct (state_eqb (builder_setsum H es) y) eqn:Es; [|discriminate]. apply state_eqb_eq in Es.
    destruct Hin as [<-|Hin]; [eauto|now apply IH].
  Qed.

  Lemma sub_all_no_panic l : forall acc, canonical acc -> Forall canonical l -> sub_all acc l <> Panic.
  Proof. intros acc Ha Hl. destruct (sub_all_ok l acc Ha Hl) as (s & E & _). rewrite E. discriminate. Qed.

  Lemma pstep_no_panic disk st t : canonical (vacc st) -> txn_canon t -> pstep disk st t <> Panic.
  Proof.
    intros Hacc (HI & HO & HD & Ha & Hr). unfold pstep.
    destruct (vfirst st && negb (state_eqb (tO t) (vacc st))); [discriminate|].
    destruct (negb (vfirst st) && negb (state_eqb (tI t) (vacc st))); [discriminate|].
    destruct (negb (vfirst st) && negb (state_eqb (tI t) (add_state (tO t) (tD t)))); [discriminate|].
    destruct (sub_all_ok (tadds t) zero zero_canonical Ha) as (cd1 & E1 & Hc1 & _). rewrite E1. cbn [bind].
    destruct (vfirst st); [discriminate|].
    destruct (negb (state_eqb (tD t) (sum_from cd1 (trms t)))); [discriminate|].
    destruct (verify_ssts H disk (tadds t)) as [[]| |] eqn:E0; cbn [bind]; [|discriminate|now apply verify_ssts_no_panic in E0].
    destruct (if gc_needed t then verify_gc H coll disk (trms t) (tadds t) (tD t) else Ok tt) as [[]| |] eqn:E2; cbn [bind]; [|discriminate|].
    - destruct (sub_r_ok (vacc st) (sum_from cd1 (trms t)) Hacc) as (a & Ea & _); [now apply sum_from_canonical|].
      rewrite Ea. discriminate.
    - destruct (gc_needed t); [now apply verify_gc_no_panic in E2|discriminate].
  Qed.

  Lemma pstep_acc_canonical disk st t st' : canonical (vacc st) -> txn_canon t -> pstep disk st t = Ok st' -> canonical (vacc st').
  Proof.
    intros Hacc Hc E. destruct (vfirst st) eqn:Hf.
    - destruct (pstep_first_sound disk st t st' Hf E) as (_ & _ & Ea & _). now rewrite Ea.
    - destruct (pstep_next_sound disk st t st' Hf Hacc Hc E) as (_ & _ & _ & Ea & _). rewrite Ea. now destruct Hc as (_ & HO & _).
  Qed.

  Lemma ploop_no_panic disk ts : forall st, canonical (vacc st) -> Forall txn_canon ts -> ploop disk st ts <> Panic.
  Proof.
    induction ts as [|t ts IH]; intros st Hacc Hc; cbn [ploop]; [discriminate|].
    inversion Hc; subst. destruct (pstep disk st t) as [st1| |] eqn:E; cbn [bind]; [|discriminate|now apply pstep_no_panic in E].
    apply IH; [|assumption]. now apply (pstep_acc_canonical disk st t).
  Qed.

  Lemma verify_one_no_panic disk fr acc : canonical acc -> Forall txn_canon fr ->
    verify_one H coll disk (map render fr) acc <> Panic.
  Proof.
    intros Hacc Hc. unfold verify_one. rewrite vloop_render by assumption.
    destruct (ploop disk _ fr) as [st| |] eqn:E; cbn [bind]; [|discriminate|].
    - destruct (vlast st); [destruct (state_eqb _ _)|]; discriminate.
    - now apply ploop_no_panic in E.
  Qed.

  (* ---------------------------------------------------------------- digit tamper *)
  (* one recorded digest of a transaction replaced by another setsum *)
  Inductive tampered : txn -> txn -> Prop :=
  | TamperI t v : canonical v -> v <> tI t -> tampered t (mkT v (tO t) (tD t) (tadds t) (trms t) (tL t))
  | TamperO t v : canonical v -> v <> tO t -> tampered t (mkT (tI t) v (tD t) (tadds t) (trms t) (tL t))
  | TamperD t v : canonical v -> v <> tD t -> tampered t (mkT (tI t) (tO t) v (tadds t) (trms t) (tL t))
  | TamperAdd t l1 x l2 v : tadds t = l1 ++ x :: l2 -> canonical v -> v <> x ->
      tampered t (mkT (tI t) (tO t) (tD t) (l1 ++ v :: l2) (trms t) (tL t))
  | TamperRm t l1 x l2 v : trms t = l1 ++ x :: l2 -> canonical v -> v <> x ->
      tampered t (mkT (tI t) (tO t) (tD t) (tadds t) (l1 ++ v :: l2) (tL t)).

  Lemma tampered_canon t t' : txn_canon t -> tampered t t' -> txn_canon t'.
  Proof.
    intros (HI & HO & HD & Ha & Hr) Ht. destruct Ht as [t v Hv _|t v Hv _|t v Hv _|t l1 x l2 v E Hv _|t l1 x l2 v E Hv _];
      unfold txn_canon; cbn; repeat split; try assumption.
    - rewrite E in Ha. apply Forall_app in Ha. destruct Ha as [H1 H2]. inversion H2 as [|? ? Hx H2']; subst.
      apply Forall_app. split; [assumption|now constructor].
    - rewrite E in Hr. apply Forall_app in Hr. destruct Hr as [H1 H2]. inversion H2 as [|? ? Hx H2']; subst.
      apply Forall_app. split; [assumption|now constructor].
  Qed.

  Theorem tampered_txn_not_ok acc t t' : txn_canon t -> txn_ok acc t -> tampered t t' -> ~ txn_ok acc t'.
  Proof.
    intros (HI & HO & HD & Ha & Hr) (EI & Ebal & Hd) Ht (EI' & Ebal' & Hd').
    destruct Ht as [t v Hv Hne|t v Hv Hne|t v Hv Hne|t l1 x l2 v E Hv Hne|t l1 x l2 v E Hv Hne];
      unfold disc_ok in *; cbn [tI tO tD tadds trms] in *.
    - congruence.
    - rewrite Ebal in Ebal'. apply add_cancel_r in Ebal'; try assumption. congruence.
    - rewrite Ebal in Ebal'. apply add_cancel_l in Ebal'; try assumption. congruence.
    - rewrite E in *. apply Forall_app in Ha. destruct Ha as [H1 H2]. inversion H2 as [|? ? Hx H2']; subst.
      assert (E2 : add_state (tD t) (sum (l1 ++ x :: l2)) = add_state (tD t) (sum (l1 ++ v :: l2))) by congruence.
      apply add_cancel_l in E2; try assumption;
        try (apply sum_canonical, Forall_app; split; [assumption|now constructor]).
      apply (sum_replace_neq l1 x v l2); try assumption. congruence.
    - rewrite E in *. apply Forall_app in Hr. destruct Hr as [H1 H2]. inversion H2 as [|? ? Hx H2']; subst.
      apply (sum_replace_neq l1 x v l2); try assumption; congruence.
  Qed.

  Lemma chain_split acc pre t post : chain acc (pre ++ t :: post) <->
    chain acc pre /\ txn_ok (last_O acc pre) t /\ chain (tO t) post.
  Proof. rewrite chain_app. cbn [chain]. tauto. Qed.

  (* a fragment with one transaction (not its first edit) tampered is not balanced *)
  Theorem tampered_frag_not_ok acc t0 pre t post t' : Forall txn_canon (t0 :: pre ++ t :: post) ->
    frag_ok acc (t0 :: pre ++ t :: post) -> tampered t t' -> ~ frag_ok acc (t0 :: pre ++ t' :: post).
  Proof.
    intros Hc [E0 Hch] Ht [_ Hch']. apply chain_split in Hch. apply chain_split in Hch'.
    destruct Hch as (_ & Hok & _). destruct Hch' as (_ & Hok' & _).
    inversion Hc as [|? ? _ Hc']; subst. apply Forall_app in Hc'. destruct Hc' as [_ Hc']. inversion Hc' as [|? ? Hct _]; subst.
    exact (tampered_txn_not_ok _ t t' Hct Hok Ht Hok').
  Qed.

  (* the first edit (roll-up) is checked for its O only *)
  Theorem tampered_first_O_not_ok acc t0 v post : frag_ok acc (t0 :: post) -> v <> tO t0 ->
    ~ frag_ok acc (mkT (tI t0) v (tD t0) (tadds t0) (trms t0) (tL t0) :: post).
  Proof. intros [E0 _] Hne [E0' _]. cbn in E0'. congruence. Qed.

  Definition rejects {A} (r : res A) : Prop := exists c, r = Err c.

  Lemma not_ok_rejects {A} (r : res A) : (forall x, r <> Ok x) -> r <> Panic -> rejects r.
  Proof. intros H1 H2. destruct r as [x|c|]; [now destruct (H1 x)|now exists c|contradiction]. Qed.

  Theorem verify_one_rejects_tamper disk acc t0 pre t post t' :
    canonical acc -> Forall txn_canon (t0 :: pre ++ t :: post) ->
    frag_ok acc (t0 :: pre ++ t :: post) -> tampered t t' ->
    rejects (verify_one H coll disk (map render (t0 :: pre ++ t' :: post)) acc).
  Proof.
    intros Hacc Hc Hok Ht.
    assert (Hc' : Forall txn_canon (t0 :: pre ++ t' :: post)).
    { inversion Hc as [|? ? H0 Hr]; subst. constructor; [assumption|]. apply Forall_app in Hr. destruct Hr as [H1 H2].
      inversion H2 as [|? ? Hct Hcp]; subst. apply Forall_app. split; [assumption|]. constructor; [now apply (tampered_canon t)|assumption]. }
    apply not_ok_rejects; [|now apply verify_one_no_panic].
    intros r E. destruct (verify_one_sound disk _ acc r Hacc Hc' E) as (Hok' & _).
    exact (tampered_frag_not_ok acc t0 pre t post t' Hc Hok Ht Hok').
  Qed.

  Theorem verify_one_rejects_first_O disk acc t0 v post :
    canonical acc -> canonical v -> Forall txn_canon (t0 :: post) -> frag_ok acc (t0 :: post) -> v <> tO t0 ->
    rejects (verify_one H coll disk (map render (mkT (tI t0) v (tD t0) (tadds t0) (trms t0) (tL t0) :: post)) acc).
  Proof.
    intros Hacc Hv Hc Hok Hne.
    assert (Hc' : Forall txn_canon (mkT (tI t0) v (tD t0) (tadds t0) (trms t0) (tL t0) :: post)).
    { inversion Hc as [|? ? (HI & HO & HD & Ha & Hr) Hrest]; subst. constructor; [|assumption]. unfold txn_canon. cbn. tauto. }
    apply not_ok_rejects; [|now apply verify_one_no_panic].
    intros r E. destruct (verify_one_sound disk _ acc r Hacc Hc' E) as (Hok' & _).
    exact (tampered_first_O_not_ok acc t0 v post Hok Hne Hok').
  Qed.

  (* an edit that adds an sst whose file holds other entries than its name stands for is rejected,
     balanced or not *)
  Theorem verify_one_rejects_bad_sst disk acc t0 tpre t tpost x es' :
    canonical acc -> Forall txn_canon (t0 :: tpre ++ t :: tpost) ->
    In x (tadds t) -> lookup disk x = Some es' -> builder_setsum H es' <> x ->
    rejects (verify_one H coll disk (map render (t0 :: tpre ++ t :: tpost)) acc).
  Proof.
    intros Hacc Hc Hin Hl Hne. apply not_ok_rejects; [|now apply verify_one_no_panic].
    intros r E. destruct (verify_one_sound disk _ acc r Hacc Hc E) as (_ & Hp & _). cbn [tl] in Hp.
    apply Forall_app in Hp. destruct Hp as [_ Hp]. inversion Hp as [|? ? [Hs _] _]; subst.
    destruct (verify_ssts_ok_in disk (tadds t) x Hs Hin) as (es & El & Es). rewrite Hl in El. injection El as <-. contradiction.
  Qed.

  Lemma retain_states_nil l : retain_states [] l = [].
  Proof. unfold retain_states. induction l as [|x l IH]; cbn [fold_left filter]; [reflexivity|exact IH]. Qed.

  (* the first edit of a fragment (zero edit or roll-up: no removals): only its O is looked at *)
  Theorem first_edit_only_O disk t0 post acc vI vD adds' : txn_canon t0 -> trms t0 = [] ->
    canonical vI -> canonical vD -> Forall canonical adds' ->
    verify_one H coll disk (map render (mkT vI (tO t0) vD adds' [] (tL t0) :: post)) acc =
    verify_one H coll disk (map render (t0 :: post)) acc.
  Proof.
    intros (HI & HO & HD & Ha & Hr) Er HvI HvD Hadds. unfold verify_one. cbn [map vloop].
    rewrite !vstep_render by (unfold txn_canon; cbn; repeat split; try assumption; constructor).
    unfold pstep. cbn [vfirst vacc vrm vlogs tI tO tD tadds trms tL andb negb]. rewrite Er.
    destruct (state_eqb (tO t0) acc); cbn [negb]; [|reflexivity].
    destruct (sub_all_ok adds' zero zero_canonical Hadds) as (c1 & E1 & _). destruct (sub_all_ok (tadds t0) zero zero_canonical Ha) as (c2 & E2 & _).
    rewrite E1, E2. cbn [bind app]. now rewrite !retain_states_nil.
  Qed.

  (* over a whole log: the fragments before the tampered one verify as before, the tampered one is
     rejected, so the pass is rejected *)
  Lemma frags_end_canonical frs : forall acc, canonical acc -> Forall (Forall txn_canon) frs -> frags_ok acc frs ->
    canonical (log_end acc frs).
  Proof.
    induction frs as [|fr frs IH]; intros acc Hacc Hc Hok; cbn [log_end fold_left]; [assumption|].
    inversion Hc as [|? ? Hcfr Hcfrs]; subst. destruct Hok as [Hfr Hrest]. apply IH; try assumption.
    destruct fr as [|t0 r]; [destruct Hfr|]. destruct Hfr as [E0 _]. rewrite frag_end_cons.
    clear -Hcfr E0 Hacc. inversion Hcfr as [|? ? H0 Hr]; subst. clear Hcfr. destruct H0 as (_ & HO & _).
    revert HO. generalize (tO t0). unfold last_O. induction Hr as [|t r Ht Hr IH]; intros o Ho; cbn [fold_left]; [assumption|].
    apply IH. unfold txn_canon in Ht. tauto.
  Qed.

  Theorem verify_frags_rejects disk pre fr' post : forall acc, canonical acc ->
    Forall (Forall txn_canon) pre -> frags_ok acc pre -> Forall (Forall (files_pass disk)) pre ->
    rejects (verify_one H coll disk (map render fr') (log_end acc pre)) ->
    rejects (verify_frags H coll disk (map (map render) (pre ++ fr' :: post)) acc).
  Proof.
    induction pre as [|p pre IH]; intros acc Hacc Hc Hok Hgc Hrej; cbn [app map verify_frags].
    - cbn [log_end fold_left] in Hrej. destruct Hrej as (c & E). rewrite E. cbn [bind]. now exists c.
    - inversion Hc; subst. inversion Hgc; subst. destruct Hok as [Hp Hrest].
      destruct (verify_one_complete disk p acc) as (rm & logs & E); try assumption.
      rewrite E. cbn [bind]. apply IH; try assumption.
      apply (frags_end_canonical [p] acc Hacc); [now constructor|]. cbn. tauto.
  Qed.

  (* ---------------------------------------------------------------- ManifestVerifier::verify *)
  Definition pmvstep (st : mvst) (t : txn) : res mvst :=
    let acc := if mfirst st then tO t else macc st in
    let ret := if mfirst st then mret st else mret st ++ [(tI t, tO t, tD t)] in
    if negb (mfirst st) && negb (state_eqb (tI t) acc) then Err CNoContinue else
    if negb (mfirst st) && negb (state_eqb (tI t) (add_state (tO t) (tD t))) then Err CNoBalance else
    bind (sub_all zero (tadds t)) (fun cd1 =>
    let computed := sum_from cd1 (trms t) in
    if mfirst st then Ok (mkMV false acc ret) else
    if negb (state_eqb (tD t) computed) then Err CBadDiscard else
    bind (sub_r acc computed) (fun acc' => Ok (mkMV false acc' ret))).

  Lemma mvstep_render st t : txn_canon t -> mvstep st (render t) = pmvstep st t.
  Proof.
    intros (HI & HO & HD & Ha & Hr). unfold mvstep, pmvstep, render. cbn [rI rO rD radds rrms rL].
    rewrite !from_info_render by assumption. cbn [bind].
    destruct (negb (mfirst st) && negb (state_eqb (tI t) (if mfirst st then tO t else macc st))); [reflexivity|].
    destruct (negb (mfirst st) && negb (state_eqb (tI t) (add_state (tO t) (tD t)))); [reflexivity|].
    rewrite sub_added_render by assumption.
    destruct (sub_all zero (tadds t)) as [cd1| |]; cbn [bind]; [|reflexivity..].
    rewrite add_rmed_render by assumption. cbn [bind]. reflexivity.
  Qed.

  Lemma pmvloop_ok ts : forall st, mfirst st = false -> Forall txn_canon ts -> chain (macc st) ts ->
    exists st', mvloop st (map render ts) = Ok st'.
  Proof.
    induction ts as [|t ts IH]; intros st Hf Hc Hch; cbn [map mvloop]; [eauto|].
    inversion Hc as [|? ? Ht Hcs]; subst. destruct Hch as [(EI & Ebal & Hd) Hch]. pose proof Ht as (HI & HO & HD & Ha & Hr).
    rewrite mvstep_render by assumption. unfold pmvstep. rewrite Hf. cbn [andb negb].
    rewrite <- EI, state_eqb_refl. cbn [negb]. rewrite <- Ebal, state_eqb_refl. cbn [negb].
    destruct (computed_discard_spec (tadds t) (trms t) Ha Hr) as (cd1 & E1 & Hcc & Hs). rewrite E1. cbn [bind].
    assert (Ed : tD t = sum_from cd1 (trms t)) by (now apply (discard_matches t cd1)).
    rewrite <- Ed, state_eqb_refl. cbn [negb].
    rewrite (sub_r_of_add (tI t) (tD t) (tO t)) by (try assumption; now symmetry). cbn [bind].
    apply IH; [reflexivity|assumption|exact Hch].
  Qed.

  Theorem manifest_verify_complete fr acc : Forall txn_canon fr -> frag_ok acc fr ->
    exists l, manifest_verify (map render fr) = Ok l.
  Proof.
    intros Hc Hok. destruct fr as [|t0 r]; [destruct Hok|]. destruct Hok as [E0 Hch]. inversion Hc as [|? ? Ht Hcs]; subst.
    pose proof Ht as (HI & HO & HD & Ha & Hr).
    unfold manifest_verify. cbn [map mvloop]. rewrite mvstep_render by assumption. unfold pmvstep. cbn [mfirst andb negb].
    destruct (sub_all_ok (tadds t0) zero zero_canonical Ha) as (cd1 & E1 & _ & _). rewrite E1. cbn [bind].
    destruct (pmvloop_ok r (mkMV false (tO t0) [])) as (st' & E); [reflexivity|assumption|exact Hch|].
    cbn [mret] in *. rewrite E. cbn [bind]. eauto.
  Qed.
End WithHash.
