(* Books/ProofsTamper.v — altering one entry of one output file changes the file's setsum (hence
   its name and the digest the manifest records) provided the item hash separates the entries
   involved; the store's own balance check then refuses the compaction, and a manifest that
   records the altered digest is rejected by the verifier (ProofsVerify). *)
From Coq Require Import NArith List Bool Lia Permutation.
From Blue Require Import Gen.Const_Setsum Setsum.Model Setsum.Proofs.
From Blue Require Import Books.Model Books.ProofsGroup Books.ProofsAC Books.ProofsChain Books.ProofsVerify Books.ProofsGc Books.ProofsStore.
Import ListNotations.
Open Scope N_scope.

(* drop, duplicate or modify one key-value entry *)
Inductive entries_tampered : list entry -> list entry -> Prop :=
| EDrop l1 e l2 : entries_tampered (l1 ++ e :: l2) (l1 ++ l2)
| EDup l1 e l2 : entries_tampered (l1 ++ e :: l2) (l1 ++ e :: e :: l2)
| EModify l1 e e' l2 : e <> e' -> entries_tampered (l1 ++ e :: l2) (l1 ++ e' :: l2).

Section WithHash.
  Variable H : list N -> list N.
  Hypothesis H_ok : forall x, bytes_ok (H x) /\ length (H x) = 32%nat.

  (* the hypothesis on the hash, on the finite set of entries involved: no item hashes to the
     neutral element and distinct entries have distinct item setsums *)
  Definition hash_separates (S : list entry) : Prop :=
    (forall e, In e S -> entry_setsum H e <> zero) /\
    (forall e e', In e S -> In e' S -> e <> e' -> entry_setsum H e <> entry_setsum H e').

  Lemma add_state_self_zero a x : canonical a -> canonical x -> add_state a x = x -> a = zero.
  Proof.
    intros Ha Hx E. apply (add_cancel_r a zero x); [assumption|apply zero_canonical|assumption|].
    now rewrite add_zero_l.
  Qed.

  Theorem tampered_entries_change_setsum es es' : entries_tampered es es' -> hash_separates (es ++ es') ->
    builder_setsum H es <> builder_setsum H es'.
  Proof.
    intros Ht [Hnz Hinj] E.
    pose proof (builder_setsum_canonical H H_ok) as Hc. pose proof (entry_setsum_canonical H H_ok) as Hce.
    destruct Ht as [l1 e l2|l1 e l2|l1 e e' l2 Hne];
      rewrite !builder_setsum_app, !builder_setsum_cons in E by exact H_ok.
    - assert (E2 : add_state (entry_setsum H e) (builder_setsum H l2) = builder_setsum H l2)
        by (apply (add_cancel_l _ _ (builder_setsum H l1)); auto using add_canonical).
      apply add_state_self_zero in E2; auto. apply (Hnz e); [|assumption]. rewrite !in_app_iff. cbn. tauto.
    - assert (E2 : add_state (entry_setsum H e) (builder_setsum H l2) =
                   add_state (entry_setsum H e) (add_state (entry_setsum H e) (builder_setsum H l2)))
        by (apply (add_cancel_l _ _ (builder_setsum H l1)); auto using add_canonical).
      assert (E3 : builder_setsum H l2 = add_state (entry_setsum H e) (builder_setsum H l2))
        by (apply (add_cancel_l _ _ (entry_setsum H e)); auto using add_canonical).
      symmetry in E3. apply add_state_self_zero in E3; auto.
      apply (Hnz e); [|assumption]. rewrite !in_app_iff. cbn. tauto.
    - assert (E2 : add_state (entry_setsum H e) (builder_setsum H l2) = add_state (entry_setsum H e') (builder_setsum H l2))
        by (apply (add_cancel_l _ _ (builder_setsum H l1)); auto using add_canonical).
      apply add_cancel_r in E2; auto. apply (Hinj e e'); try assumption; rewrite !in_app_iff; cbn; tauto.
  Qed.

  (* compaction_finish refuses outputs of which one file holds tampered entries *)
  Theorem store_refuses_tampered_output b inputs o1 es es' o2 input discard roll :
    canonical discard -> canonical input ->
    Forall (fun f => canonical (bsum f)) (o1 ++ o2) ->
    input = add_state (sum (map bsum (o1 ++ build_file H es :: o2))) discard ->
    entries_tampered es es' -> hash_separates (es ++ es') ->
    compaction_finish b inputs (o1 ++ build_file H es' :: o2) input discard roll = Err CStoreBalance.
  Proof.
    intros Hd Hi Ho Hbal Ht Hs. unfold compaction_finish.
    assert (Hne : state_eqb input (add_state (sum (map bsum (o1 ++ build_file H es' :: o2))) discard) = false).
    { apply state_eqb_neq. intros E. rewrite Hbal in E.
      apply Forall_app in Ho. destruct Ho as [Ho1 Ho2].
      assert (C1 : Forall canonical (map bsum o1)) by (apply Forall_forall; intros x Hx; apply in_map_iff in Hx; destruct Hx as (f & <- & Hf); rewrite Forall_forall in Ho1; now apply Ho1).
      assert (C2 : Forall canonical (map bsum o2)) by (apply Forall_forall; intros x Hx; apply in_map_iff in Hx; destruct Hx as (f & <- & Hf); rewrite Forall_forall in Ho2; now apply Ho2).
      apply add_cancel_r in E; try assumption;
        try (apply sum_canonical; rewrite map_app; apply Forall_app; split; [assumption|constructor; [now apply builder_setsum_canonical|assumption]]).
      rewrite !map_app in E. cbn [map bsum build_file] in E.
      apply (sum_replace_neq (map bsum o1) (builder_setsum H es) (builder_setsum H es') (map bsum o2)); try assumption;
        try now apply builder_setsum_canonical.
      now apply tampered_entries_change_setsum. }
    now rewrite Hne.
  Qed.

  (* the manifest edit that records the tampered file's digest is a tampered edit *)
  Lemma tampered_add_digest t l1 es es' l2 : tadds t = l1 ++ builder_setsum H es :: l2 ->
    entries_tampered es es' -> hash_separates (es ++ es') ->
    tampered t (mkT (tI t) (tO t) (tD t) (l1 ++ builder_setsum H es' :: l2) (trms t) (tL t)).
  Proof.
    intros E Ht Hs. apply (TamperAdd t l1 (builder_setsum H es) l2); [assumption|now apply builder_setsum_canonical|].
    intros E'. symmetry in E'. revert E'. now apply tampered_entries_change_setsum.
  Qed.
End WithHash.
