(* Books/ProofsDigit.v — the arithmetic core of "one hex digit of a recorded digest was changed":
   changing one hex digit of a 32-bit little-endian column changes its value by d * 16^pos
   (1 <= d <= 15, pos < 8); from_digest reduces a column >= p by one subtraction of p (the repair
   of F10), so the changed column could only alias the old canonical value if p itself were of the
   form d * 16^pos.  None of the setsum primes is (checked by computation on the primes
   re-extracted from the source). *)
From Coq Require Import NArith List Bool Lia.
From Blue Require Import Gen.Const_Setsum Setsum.Model Setsum.Proofs.
Import ListNotations.
Open Scope N_scope.

Definition digit_deltas : list N :=
  flat_map (fun pos => map (fun d => d * 16 ^ pos) (map N.of_nat (seq 1 15))) (map N.of_nat (seq 0 8)).

Lemma primes_are_not_digit_deltas :
  forallb (fun p => forallb (fun x => negb (p =? x) && (0 <? x)) digit_deltas) primes = true.
Proof. vm_compute. reflexivity. Qed.

Lemma in_digit_deltas d pos : 1 <= d <= 15 -> pos < 8 -> In (d * 16 ^ pos) digit_deltas.
Proof.
  intros Hd Hp. unfold digit_deltas. apply in_flat_map. exists pos. split.
  - apply in_map_iff. exists (N.to_nat pos). split; [apply N2Nat.id|]. apply in_seq. lia.
  - apply in_map_iff. exists d. split; [reflexivity|]. apply in_map_iff. exists (N.to_nat d). split; [apply N2Nat.id|].
    apply in_seq. lia.
Qed.

Theorem digit_change_changes_column p c c' delta : In p primes -> In delta digit_deltas -> c < p ->
  (c' = c + delta \/ c = c' + delta) -> reduce_col p c' <> c.
Proof.
  intros Hp Hd Hc Hch.
  pose proof primes_are_not_digit_deltas as Hs. rewrite forallb_forall in Hs. specialize (Hs p Hp).
  rewrite forallb_forall in Hs. specialize (Hs delta Hd). apply andb_prop in Hs. destruct Hs as [H1 H2].
  apply negb_true_iff, N.eqb_neq in H1. apply N.ltb_lt in H2.
  unfold reduce_col. destruct (N.leb_spec p c'); lia.
Qed.
