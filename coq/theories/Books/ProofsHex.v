(* Books/ProofsHex.v — one changed hex digit of a recorded digest is a changed setsum.
   The manifest holds a setsum as the 64 hex characters of its digest (8 little-endian 32-bit
   columns).  Replacing the character at any position by a hex digit of another value makes
   from_hexdigest return a DIFFERENT canonical setsum: the character is one nibble of one byte of
   one column, the column moves by d * 16^pos, and (ProofsDigit) the one subtraction of the prime
   that from_digest applies cannot bring it back; the other seven columns are untouched. *)
From Coq Require Import NArith Arith List Bool Lia.
From Blue Require Import Gen.Const_Setsum Setsum.Model Setsum.Proofs Books.ProofsDigit.
Import ListNotations.
Open Scope N_scope.

Fixpoint replace_nth {A} (i : nat) (x : A) (l : list A) : list A :=
  match l with
  | [] => []
  | y :: r => match i with O => x :: r | S i' => y :: replace_nth i' x r end
  end.

Lemma replace_nth_length {A} i (x : A) l : length (replace_nth i x l) = length l.
Proof. revert i; induction l as [|y l IH]; intros [|i]; cbn; try reflexivity. now rewrite IH. Qed.

Lemma replace_nth_app_l {A} i (x : A) a b : (i < length a)%nat -> replace_nth i x (a ++ b) = replace_nth i x a ++ b.
Proof. revert i; induction a as [|y a IH]; intros [|i] Hi; cbn in *; try lia; [reflexivity|]. rewrite IH by lia. reflexivity. Qed.

Lemma replace_nth_app_r {A} i (x : A) a b : (length a <= i)%nat -> replace_nth i x (a ++ b) = a ++ replace_nth (i - length a) x b.
Proof.
  revert i; induction a as [|y a IH]; intros i Hi; cbn [app length].
  - now rewrite Nat.sub_0_r.
  - destruct i as [|i]; [cbn in Hi; lia|]. cbn [replace_nth]. rewrite IH by (cbn in Hi; lia). reflexivity.
Qed.

(* ------------------------------------------------------------------ characters and nibbles *)
Lemma hexval_spec c v : hexval c = Some v -> v < 16 /\ (c =? 43) = false.
Proof.
  unfold hexval.
  destruct ((48 <=? c) && (c <=? 57)) eqn:E1.
  - apply andb_prop in E1. destruct E1 as [A B]. apply N.leb_le in A, B. intros [= <-]. split; [lia|apply N.eqb_neq; lia].
  - destruct ((97 <=? c) && (c <=? 102)) eqn:E2.
    + apply andb_prop in E2. destruct E2 as [A B]. apply N.leb_le in A, B. intros [= <-]. split; [lia|apply N.eqb_neq; lia].
    + destruct ((65 <=? c) && (c <=? 70)) eqn:E3; [|discriminate].
      apply andb_prop in E3. destruct E3 as [A B]. apply N.leb_le in A, B. intros [= <-]. split; [lia|apply N.eqb_neq; lia].
Qed.

Lemma nib_bounds b : b < 256 -> b / 16 < 16 /\ b mod 16 < 16 /\ b = 16 * (b / 16) + b mod 16.
Proof.
  intros Hb. split; [apply N.div_lt_upper_bound; lia|]. split; [apply N.mod_upper_bound; lia|].
  apply (N.div_mod b 16). lia.
Qed.

(* the byte after replacing its high / low hex digit *)
Lemma parse_hi b c' v' : b < 256 -> hexval c' = Some v' ->
  parse_pair c' (hexchar (b mod 16)) = Some (16 * v' + b mod 16).
Proof.
  intros Hb Hv. destruct (hexval_spec c' v' Hv) as [Hlt Hne]. destruct (nib_bounds b Hb) as (_ & Hlo & _).
  unfold parse_pair. rewrite Hne, Hv, hexval_hexchar by assumption. reflexivity.
Qed.

Lemma parse_lo b c' v' : b < 256 -> hexval c' = Some v' ->
  parse_pair (hexchar (b / 16)) c' = Some (16 * (b / 16) + v').
Proof.
  intros Hb Hv. destruct (nib_bounds b Hb) as (Hhi & _ & _).
  unfold parse_pair. rewrite hexchar_not_plus, Hv, hexval_hexchar by assumption. reflexivity.
Qed.

Lemma parse_same b : b < 256 -> parse_pair (hexchar (b / 16)) (hexchar (b mod 16)) = Some b.
Proof. intros Hb. pose proof (parse_pair_hexbyte b Hb) as P. exact P. Qed.

(* ------------------------------------------------------------------ one column = 8 characters *)
Definition hexcol (c : N) : list N := flat_map hexbyte (le32_of c).

Definition parse_col8 (c0 c1 c2 c3 c4 c5 c6 c7 : N) : option N :=
  match parse_pair c0 c1, parse_pair c2 c3, parse_pair c4 c5, parse_pair c6 c7 with
  | Some b0, Some b1, Some b2, Some b3 => Some (of_le32 b0 b1 b2 b3)
  | _, _, _, _ => None
  end.

Fixpoint parse_cols (cs : list N) : option (list N) :=
  match cs with
  | [] => Some []
  | c0 :: c1 :: c2 :: c3 :: c4 :: c5 :: c6 :: c7 :: r =>
      match parse_col8 c0 c1 c2 c3 c4 c5 c6 c7, parse_cols r with
      | Some w, Some ws => Some (w :: ws)
      | _, _ => None
      end
  | _ => None
  end.

(* column-wise parsing is what parse_pairs + words do *)
Lemma parse_cols_pairs cs : forall ws, parse_cols cs = Some ws ->
  exists d, parse_pairs cs = Some d /\ words d = ws.
Proof.
  revert cs. fix IH 1. intros cs ws.
  destruct cs as [|c0 [|c1 [|c2 [|c3 [|c4 [|c5 [|c6 [|c7 r]]]]]]]]; cbn [parse_cols]; try discriminate.
  - intros [= <-]. exists []. split; reflexivity.
  - unfold parse_col8.
    destruct (parse_pair c0 c1) as [b0|] eqn:E0; [|discriminate].
    destruct (parse_pair c2 c3) as [b1|] eqn:E1; [|discriminate].
    destruct (parse_pair c4 c5) as [b2|] eqn:E2; [|discriminate].
    destruct (parse_pair c6 c7) as [b3|] eqn:E3; [|discriminate].
    destruct (parse_cols r) as [ws'|] eqn:Er; [|discriminate]. intros [= <-].
    destruct (IH r ws' Er) as (d & Ed & Ew).
    exists (b0 :: b1 :: b2 :: b3 :: d). cbn [parse_pairs]. rewrite E0, E1, E2, E3, Ed. split; [reflexivity|].
    cbn [words]. now rewrite Ew.
Qed.

Definition col_bytes (c : N) : N * N * N * N :=
  (c mod 256, (c / 256) mod 256, (c / 65536) mod 256, (c / 16777216) mod 256).

Lemma hexcol_explicit c : hexcol c =
  let '(b0, b1, b2, b3) := col_bytes c in
  [hexchar (b0 / 16); hexchar (b0 mod 16); hexchar (b1 / 16); hexchar (b1 mod 16);
   hexchar (b2 / 16); hexchar (b2 mod 16); hexchar (b3 / 16); hexchar (b3 mod 16)].
Proof. reflexivity. Qed.

Lemma col_bytes_ok c : c < W32 ->
  let '(b0, b1, b2, b3) := col_bytes c in
  b0 < 256 /\ b1 < 256 /\ b2 < 256 /\ b3 < 256 /\ of_le32 b0 b1 b2 b3 = c.
Proof.
  intros Hc. unfold col_bytes.
  pose proof (le32_roundtrip c Hc) as R. unfold le32_of in R.
  repeat split; try (apply N.mod_upper_bound; lia). exact R.
Qed.

Lemma parse_cols_hexcol c r : c < W32 ->
  parse_cols (hexcol c ++ r) = match parse_cols r with Some ws => Some (c :: ws) | None => None end.
Proof.
  intros Hc. rewrite hexcol_explicit. pose proof (col_bytes_ok c Hc) as B.
  destruct (col_bytes c) as [[[b0 b1] b2] b3]. destruct B as (H0 & H1 & H2 & H3 & E).
  cbn [app parse_cols]. unfold parse_col8. rewrite !parse_same by assumption. rewrite E. reflexivity.
Qed.

Lemma parse_cols_roundtrip s : Forall (fun c => c < W32) s -> parse_cols (flat_map hexcol s) = Some s.
Proof.
  induction 1 as [|c s Hc Hs IH]; [reflexivity|]. cbn [flat_map]. rewrite parse_cols_hexcol by assumption. now rewrite IH.
Qed.

Lemma hexcol_length c : length (hexcol c) = 8%nat.
Proof. reflexivity. Qed.

(* one character of a column's 8 replaced by a hex digit of another value: the column parses,
   and moves by a digit delta *)
Lemma tampered_column c q c' v v' : c < W32 -> (q < 8)%nat ->
  hexval c' = Some v' -> hexval (nth q (hexcol c) 0) = Some v -> v' <> v ->
  exists w' delta, In delta digit_deltas /\ (w' = c + delta \/ c = w' + delta) /\
    forall r, parse_cols (replace_nth q c' (hexcol c) ++ r) =
              match parse_cols r with Some ws => Some (w' :: ws) | None => None end.
Proof.
  intros Hc Hq Hv' Hv Hne. rewrite hexcol_explicit in *. pose proof (col_bytes_ok c Hc) as B.
  destruct (col_bytes c) as [[[b0 b1] b2] b3]. destruct B as (H0 & H1 & H2 & H3 & E).
  destruct (hexval_spec c' v' Hv') as [Hv'lt _].
  destruct (nib_bounds b0 H0) as (A0 & A0' & A0''). destruct (nib_bounds b1 H1) as (A1 & A1' & A1'').
  destruct (nib_bounds b2 H2) as (A2 & A2' & A2''). destruct (nib_bounds b3 H3) as (A3 & A3' & A3'').
  unfold of_le32 in E.
  (* the eight positions: even = high digit, odd = low digit of byte q/2 *)
  assert (Hd : forall x y : N, x < 16 -> y < 16 -> x <> y -> exists d, 1 <= d <= 15 /\ (x = y + d \/ y = x + d)).
  { intros x y Hx Hy Hxy. destruct (N.lt_ge_cases x y); [exists (y - x)|exists (x - y)]; lia. }
  assert (Hq8 : (q = 0 \/ q = 1 \/ q = 2 \/ q = 3 \/ q = 4 \/ q = 5 \/ q = 6 \/ q = 7)%nat) by lia.
  destruct Hq8 as [->|[->|[->|[->|[->|[->|[->| ->]]]]]]]; cbn [nth] in Hv; rewrite hexval_hexchar in Hv by assumption; injection Hv as Hv;
    cbn [replace_nth app].
  all: subst v.
  (* position 0: high digit of byte 0, delta d*16 *)
  - destruct (Hd v' (b0 / 16) Hv'lt A0 Hne) as (d & Hdr & Hdd).
    exists (of_le32 (16 * v' + b0 mod 16) b1 b2 b3), (d * 16 ^ 1). split; [now apply in_digit_deltas|].
    split; [unfold of_le32; change (16 ^ 1) with 16; lia|].
    intros r. cbn [parse_cols]. unfold parse_col8. rewrite (parse_hi b0 c' v'), !parse_same by assumption. reflexivity.
  - destruct (Hd v' (b0 mod 16) Hv'lt A0' Hne) as (d & Hdr & Hdd).
    exists (of_le32 (16 * (b0 / 16) + v') b1 b2 b3), (d * 16 ^ 0). split; [now apply in_digit_deltas|].
    split; [unfold of_le32; change (16 ^ 0) with 1; lia|].
    intros r. cbn [parse_cols]. unfold parse_col8. rewrite (parse_lo b0 c' v'), !parse_same by assumption. reflexivity.
  - destruct (Hd v' (b1 / 16) Hv'lt A1 Hne) as (d & Hdr & Hdd).
    exists (of_le32 b0 (16 * v' + b1 mod 16) b2 b3), (d * 16 ^ 3). split; [now apply in_digit_deltas|].
    split; [unfold of_le32; change (16 ^ 3) with 4096; lia|].
    intros r. cbn [parse_cols]. unfold parse_col8. rewrite (parse_hi b1 c' v'), !parse_same by assumption. reflexivity.
  - destruct (Hd v' (b1 mod 16) Hv'lt A1' Hne) as (d & Hdr & Hdd).
    exists (of_le32 b0 (16 * (b1 / 16) + v') b2 b3), (d * 16 ^ 2). split; [now apply in_digit_deltas|].
    split; [unfold of_le32; change (16 ^ 2) with 256; lia|].
    intros r. cbn [parse_cols]. unfold parse_col8. rewrite (parse_lo b1 c' v'), !parse_same by assumption. reflexivity.
  - destruct (Hd v' (b2 / 16) Hv'lt A2 Hne) as (d & Hdr & Hdd).
    exists (of_le32 b0 b1 (16 * v' + b2 mod 16) b3), (d * 16 ^ 5). split; [now apply in_digit_deltas|].
    split; [unfold of_le32; change (16 ^ 5) with 1048576; lia|].
    intros r. cbn [parse_cols]. unfold parse_col8. rewrite (parse_hi b2 c' v'), !parse_same by assumption. reflexivity.
  - destruct (Hd v' (b2 mod 16) Hv'lt A2' Hne) as (d & Hdr & Hdd).
    exists (of_le32 b0 b1 (16 * (b2 / 16) + v') b3), (d * 16 ^ 4). split; [now apply in_digit_deltas|].
    split; [unfold of_le32; change (16 ^ 4) with 65536; lia|].
    intros r. cbn [parse_cols]. unfold parse_col8. rewrite (parse_lo b2 c' v'), !parse_same by assumption. reflexivity.
  - destruct (Hd v' (b3 / 16) Hv'lt A3 Hne) as (d & Hdr & Hdd).
    exists (of_le32 b0 b1 b2 (16 * v' + b3 mod 16)), (d * 16 ^ 7). split; [now apply in_digit_deltas|].
    split; [unfold of_le32; change (16 ^ 7) with 268435456; lia|].
    intros r. cbn [parse_cols]. unfold parse_col8. rewrite (parse_hi b3 c' v'), !parse_same by assumption. reflexivity.
  - destruct (Hd v' (b3 mod 16) Hv'lt A3' Hne) as (d & Hdr & Hdd).
    exists (of_le32 b0 b1 b2 (16 * (b3 / 16) + v')), (d * 16 ^ 6). split; [now apply in_digit_deltas|].
    split; [unfold of_le32; change (16 ^ 6) with 16777216; lia|].
    intros r. cbn [parse_cols]. unfold parse_col8. rewrite (parse_lo b3 c' v'), !parse_same by assumption. reflexivity.
Qed.

(* ------------------------------------------------------------------ all columns *)
Lemma tampered_columns ps s : canon ps s -> Forall (fun c => c < W32) s -> (forall p, In p ps -> In p primes) ->
  forall i c' v v', (i < 8 * length s)%nat ->
  hexval c' = Some v' -> hexval (nth i (flat_map hexcol s) 0) = Some v -> v' <> v ->
  exists ws', parse_cols (replace_nth i c' (flat_map hexcol s)) = Some ws' /\ map2 reduce_col ps ws' <> s.
Proof.
  induction 1 as [|p c ps s Hcp Hcs IH]; intros Hw Hp i c' v v' Hi Hv' Hv Hne; [cbn in Hi; lia|].
  inversion Hw as [|? ? Hc Hws]; subst. cbn [flat_map] in *.
  destruct (Nat.lt_ge_cases i 8) as [Hlt|Hge].
  - rewrite replace_nth_app_l by (rewrite hexcol_length; exact Hlt).
    rewrite app_nth1 in Hv by (rewrite hexcol_length; exact Hlt).
    destruct (tampered_column c i c' v v' Hc Hlt Hv' Hv Hne) as (w' & delta & Hd & Hch & Hparse).
    rewrite Hparse, parse_cols_roundtrip by assumption.
    exists (w' :: s). split; [reflexivity|]. cbn [map2]. intros E. injection E as E1 _.
    revert E1. apply (digit_change_changes_column p c w' delta); [apply Hp; now left|assumption|assumption|assumption].
  - rewrite replace_nth_app_r by (rewrite hexcol_length; exact Hge).
    rewrite app_nth2 in Hv by (rewrite hexcol_length; exact Hge). rewrite hexcol_length in *.
    destruct (IH Hws (fun q Hq => Hp q (or_intror Hq)) (i - 8)%nat c' v v') as (ws' & Eparse & Hdiff); try assumption.
    { cbn [length] in Hi. lia. }
    rewrite parse_cols_hexcol by assumption. rewrite Eparse.
    exists (c :: ws'). split; [reflexivity|]. cbn [map2]. intros E. injection E as _ E2. contradiction.
Qed.

Lemma hexdigest_cols s : hexdigest s = flat_map hexcol s.
Proof.
  unfold hexdigest, digest, hexcol. induction s as [|c s IH]; [reflexivity|].
  cbn [flat_map]. rewrite flat_map_app. now rewrite IH.
Qed.

(* THE theorem: the 64-character hexdigest of a canonical setsum with the character at ANY
   position i replaced by a hex digit (0-9, a-f, A-F) of another value parses, to a different
   canonical setsum *)
Theorem hex_digit_tamper s i c' v v' : canonical s -> (i < 64)%nat ->
  hexval c' = Some v' -> hexval (nth i (hexdigest s) 0) = Some v -> v' <> v ->
  exists s', from_hexdigest (replace_nth i c' (hexdigest s)) = Some s' /\ s' <> s /\ canonical s'.
Proof.
  intros Hs Hi Hv' Hv Hne.
  pose proof (canonical_length s Hs) as Hl.
  rewrite hexdigest_cols in *.
  destruct (tampered_columns primes s Hs (canonical_lt_W32 s Hs) (fun p Hp => Hp) i c' v v') as (ws' & Eparse & Hdiff); try assumption.
  { rewrite Hl. exact Hi. }
  destruct (parse_cols_pairs _ ws' Eparse) as (d & Ed & Ew).
  assert (Efh : from_hexdigest (replace_nth i c' (flat_map hexcol s)) = Some (from_digest d)).
  { unfold from_hexdigest. rewrite replace_nth_length, <- hexdigest_cols, (hexdigest_length s Hl).
    replace (N.of_nat 64 =? 2 * SETSUM_BYTES) with true by (vm_compute; reflexivity).
    rewrite hexdigest_cols. now rewrite Ed. }
  exists (from_digest d). split; [exact Efh|]. split.
  - unfold from_digest. rewrite Ew. exact Hdiff.
  - exact (from_hexdigest_canonical _ _ Efh).
Qed.

(* every character of a hexdigest is a hex digit: the hypothesis on the old character is never vacuous *)
Lemma hexcol_chars c : c < W32 -> forall q, (q < 8)%nat -> exists v, hexval (nth q (hexcol c) 0) = Some v.
Proof.
  intros Hc q Hq. rewrite hexcol_explicit. pose proof (col_bytes_ok c Hc) as B.
  destruct (col_bytes c) as [[[b0 b1] b2] b3]. destruct B as (H0 & H1 & H2 & H3 & _).
  destruct (nib_bounds b0 H0) as (A0 & A0' & _). destruct (nib_bounds b1 H1) as (A1 & A1' & _).
  destruct (nib_bounds b2 H2) as (A2 & A2' & _). destruct (nib_bounds b3 H3) as (A3 & A3' & _).
  assert (Hq8 : (q = 0 \/ q = 1 \/ q = 2 \/ q = 3 \/ q = 4 \/ q = 5 \/ q = 6 \/ q = 7)%nat) by lia.
  destruct Hq8 as [->|[->|[->|[->|[->|[->|[->| ->]]]]]]]; cbn [nth]; eexists; apply hexval_hexchar; assumption.
Qed.

Lemma hexdigest_chars s i : canonical s -> (i < 64)%nat -> exists v, hexval (nth i (hexdigest s) 0) = Some v.
Proof.
  intros Hs Hi. pose proof (canonical_length s Hs) as Hl. pose proof (canonical_lt_W32 s Hs) as Hw.
  rewrite hexdigest_cols.
  assert (G : forall l, Forall (fun c => c < W32) l -> forall j, (j < 8 * length l)%nat ->
              exists v, hexval (nth j (flat_map hexcol l) 0) = Some v).
  { clear. intros l Hw. induction Hw as [|c l Hc Hws IH]; intros j Hj; [cbn in Hj; lia|]. cbn [flat_map].
    destruct (Nat.lt_ge_cases j 8) as [Hlt|Hge].
    - rewrite app_nth1 by (rewrite hexcol_length; exact Hlt). now apply hexcol_chars.
    - rewrite app_nth2 by (rewrite hexcol_length; exact Hge). rewrite hexcol_length. apply IH. cbn [length] in Hj. lia. }
  apply G; [assumption|]. rewrite Hl. exact Hi.
Qed.
