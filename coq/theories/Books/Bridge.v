(* Books/Bridge.v — every history of the C01 model (Lsm/History.v: OWrite / OIngest / OFlush /
   OCompact / OGc / OReopen on levels of files) as a history of the Books model.  Definitions only.

     OWrite                 nothing (the memtable has no books)
     OFlush                 BFlush of the memtable (nothing when it is empty)
     OIngest f              BIngest of f's entries
     OCompact c outs        BCompact: inputs named by the setsums of the input files' entries, the
                            outputs' lengths as the multi-builder's cuts
     OGc c outs             BGc with the same naming; the collector is the history's own table:
                            merged input -> KeyRefs of what the outputs hold
     OReopen                BReopen with the memtable as the log

   The acceptance conditions of the bridge, all boolean (`bridge_okb`): the Books acceptance of
   every mapped step (no setsum collision between different files, distinct inputs, distinct
   (key, timestamp) pairs in a GC's merged input), the collector table is a function (two GCs over
   the same merged input kept the same entries), a reopen keeps the files (recovery re-levels
   files, it does not rewrite them) and its log file is not already listed. *)
From Coq Require Import NArith List Bool.
From Blue Require Import Gen.Const_Setsum Setsum.Model.
From Blue Require Lsm.Model Lsm.History.
From Blue Require Import Books.Model.
Import ListNotations.
Open Scope N_scope.

Module LM := Lsm.Model.
Module LH := Lsm.History.

Section WithHash.
  Variable H : list N -> list N.
  (* a rollover of the manifest may follow any edit: rolls k says whether it follows the edit of
     the step that has k steps after it *)
  Variable rolls : nat -> bool.

  Definition fname (f : LM.file) : state := builder_setsum H (LM.fents f).
  Definition input_names (v : LM.version) (c : LM.compaction) : list state := map fname (LM.input_files v c).
  Definition out_lens (outs : list LM.file) : list nat := map (fun f => length (LM.fents f)) outs.

  Definition bop_of (s : LM.store) (o : LH.op) (k : nat) : option bop :=
    match o with
    | LH.OWrite _ => None
    | LH.OFlush _ _ => match LM.mem s with [] => None | _ => Some (BFlush (LM.mem s) (LM.seq s) (rolls k)) end
    | LH.OIngest f => Some (BIngest (LM.fents f) (rolls k))
    | LH.OCompact c outs => Some (BCompact (input_names (LM.ver s) c) (out_lens outs) (rolls k))
    | LH.OGc c outs => Some (BGc (input_names (LM.ver s) c) (out_lens outs) (rolls k))
    | LH.OReopen _ _ _ _ => Some (BReopen (LM.mem s) (rolls k))
    end.

  Fixpoint books_of (s : LM.store) (ops : list LH.op) : list bop :=
    match ops with
    | [] => []
    | o :: r => (match bop_of s o (length r) with Some bo => [bo] | None => [] end) ++ books_of (LH.step s o) r
    end.

  (* the collector of the history: what each GC kept, by merged input *)
  Definition gc_entry (s : LM.store) (o : LH.op) : list (list entry * list (key * N)) :=
    match o with
    | LH.OGc c outs => [(LM.sort_entries (LM.input_entries (LM.ver s) c), map kr (flat_map LM.fents outs))]
    | _ => []
    end.
  Fixpoint gc_table (s : LM.store) (ops : list LH.op) : list (list entry * list (key * N)) :=
    match ops with
    | [] => []
    | o :: r => gc_entry s o ++ gc_table (LH.step s o) r
    end.
  Definition coll_of (tab : list (list entry * list (key * N))) (main : list entry) : list (key * N) :=
    match find (fun p => entries_eqb (fst p) main) tab with
    | Some p => snd p
    | None => []
    end.

  Fixpoint keyrefs_eqb (a b : list (key * N)) : bool :=
    match a, b with
    | [], [] => true
    | x :: a', y :: b' => match kcmp x y with Eq => keyrefs_eqb a' b' | _ => false end
    | _, _ => false
    end.

  (* multiset equality of two lists of entry lists *)
  Fixpoint remove1 (x : list entry) (l : list (list entry)) : option (list (list entry)) :=
    match l with
    | [] => None
    | y :: r => if entries_eqb x y then Some r
                else match remove1 x r with Some r' => Some (y :: r') | None => None end
    end.
  Fixpoint permb (a b : list (list entry)) : bool :=
    match a with
    | [] => match b with [] => true | _ => false end
    | x :: a' => match remove1 x b with Some b' => permb a' b' | None => false end
    end.

  Variable coll : list entry -> list (key * N).

  Definition step_okb (s : LM.store) (b : bstore) (o : LH.op) (k : nat) : bool :=
    match bop_of s o k with
    | None => true
    | Some bo =>
        accepted H coll b bo &&
        match o with
        | LH.OGc c outs =>
            keyrefs_eqb (coll (LM.sort_entries (LM.input_entries (LM.ver s) c))) (map kr (flat_map LM.fents outs))
        | LH.OReopen id sz v' seq' =>
            permb (map LM.fents (LM.flat v')) (map LM.fents (LM.flat (LM.ver (LM.flush s id sz)))) &&
            match LM.mem s with
            | [] => true
            | _ => negb (existsb (state_eqb (builder_setsum H (LM.sort_entries (LM.mem s)))) (mstrs (bman b)))
            end
        | _ => true
        end
    end.

  Fixpoint bridge_okb (s : LM.store) (b : bstore) (ops : list LH.op) : bool :=
    match ops with
    | [] => true
    | o :: r =>
        step_okb s b o (length r) &&
        match bop_of s o (length r) with
        | None => bridge_okb (LH.step s o) b r
        | Some bo => match bstep H coll b bo with
                     | Ok b' => bridge_okb (LH.step s o) b' r
                     | _ => true
                     end
        end
    end.
End WithHash.
