(* Books/ProofsAC.v — a small reflective tactic for equations between sums of canonical setsums
   (associativity and commutativity of add_state).  `ac_group tac` proves `l = r` when both sides
   are add_state-trees over the same multiset of atoms; `tac` proves each atom canonical. *)
From Coq Require Import NArith List Bool Permutation Sorting.Mergesort.
From Blue Require Import Setsum.Model Setsum.Proofs Books.Model Books.ProofsGroup.
Import ListNotations.

Inductive gexp := GA (n : nat) | GP (a b : gexp).

Fixpoint gden (env : list state) (e : gexp) : state :=
  match e with
  | GA n => nth n env zero
  | GP a b => add_state (gden env a) (gden env b)
  end.
Fixpoint gflat (e : gexp) : list nat :=
  match e with GA n => [n] | GP a b => gflat a ++ gflat b end.

Lemma nth_canonical env n : Forall canonical env -> canonical (nth n env zero).
Proof.
  intros He. revert n. induction He as [|x env Hx He IH]; intros [|n]; cbn; try apply zero_canonical; [assumption|apply IH].
Qed.

Lemma atoms_canonical env l : Forall canonical env -> Forall canonical (map (fun n => nth n env zero) l).
Proof. intros He. apply Forall_forall. intros x Hx. apply in_map_iff in Hx. destruct Hx as (n & <- & _). now apply nth_canonical. Qed.

Lemma gden_flat env e : Forall canonical env -> gden env e = sum (map (fun n => nth n env zero) (gflat e)).
Proof.
  intros He. induction e as [n|a IHa b IHb]; cbn [gden gflat map].
  - symmetry. apply sum_single. now apply nth_canonical.
  - rewrite IHa, IHb, map_app. symmetry. apply sum_app; now apply atoms_canonical.
Qed.

Lemma ac_eq env e1 e2 : Forall canonical env -> NatSort.sort (gflat e1) = NatSort.sort (gflat e2) ->
  gden env e1 = gden env e2.
Proof.
  intros He Hs. rewrite !gden_flat by assumption. apply sum_perm; [|now apply atoms_canonical].
  apply Permutation_map.
  eapply Permutation_trans; [apply NatSort.Permuted_sort|]. rewrite Hs. apply Permutation_sym, NatSort.Permuted_sort.
Qed.

Ltac ac_mem x env :=
  match env with
  | nil => constr:(false)
  | x :: _ => constr:(true)
  | _ :: ?r => ac_mem x r
  end.
Ltac ac_collect e env :=
  match e with
  | add_state ?a ?b => let env1 := ac_collect a env in ac_collect b env1
  | _ => match ac_mem e env with true => env | false => constr:(e :: env) end
  end.
Ltac ac_idx x env :=
  match env with
  | x :: _ => constr:(O)
  | _ :: ?r => let n := ac_idx x r in constr:(S n)
  end.
Ltac ac_reify e env :=
  match e with
  | add_state ?a ?b => let ra := ac_reify a env in let rb := ac_reify b env in constr:(GP ra rb)
  | _ => let n := ac_idx e env in constr:(GA n)
  end.
Ltac ac_group tac :=
  match goal with
  | |- ?l = ?r =>
      let env0 := ac_collect l (@nil state) in
      let env := ac_collect r env0 in
      let el := ac_reify l env in
      let er := ac_reify r env in
      change (gden env el = gden env er);
      apply ac_eq; [repeat (apply Forall_cons; [tac|]); apply Forall_nil | vm_compute; reflexivity]
  end.

(* smoke test *)
Goal forall a b c d, canonical a -> canonical b -> canonical c -> canonical d ->
  add_state (add_state a b) (add_state c d) = add_state d (add_state (add_state c a) b).
Proof. intros. ac_group assumption. Qed.
