(* Props_C04.v — the property theorems for C04 and nothing else.
   C04: "One setsum covers all data: manifest, files and contents always balance".
   H is SHA3-256 (any function producing 32 bytes); coll is the GC policy's collector (C05): any
   function.  A history is a list of store steps (flush, merging compaction, garbage collection,
   trivial move, reopen with log recovery) with arbitrary entries, arbitrary cuts of the outputs
   into files and a rollover of the manifest after any edit; `all_accepted` asks that output names
   are new or name identical contents (no setsum collision), that a compaction names distinct
   inputs and that the merged input of a GC holds distinct (key, timestamp) pairs.

   MODELLED ASSUMPTION (atomic commit).  A step of the model commits its transaction atomically:
   [take the tree; record I = its setsum, O = I - D, D; write the edit; install the new tree] is one
   transition, so I is read AT THE COMMIT POINT and the next transaction starts from this one's O.
   In lsmtk that is what holding the `compaction` mutex across take_snapshot / compute_setsum /
   mani.apply / install_version in apply_manifest_ingest and apply_manifest_compaction provides;
   a history of the model is therefore an interleaving of ingests and compaction COMMITS, not of
   their unlocked preparations.  The theorems say nothing about a store that reads the tree before
   it takes that lock.  The assumption is validated against the real threads on every run by the
   concurrent stage of checks/c04.py (real compaction_thread()s racing with ingesting threads; the
   recorded manifest history is audited by the oracle and by the extracted verifier). *)
From Coq Require Import NArith List Permutation Lia.
From Blue Require Import Gen.Const_Setsum Setsum.Model Setsum.Proofs Setsum.Props_C14.
From Blue Require Lsm.Model Lsm.History.
From Blue Require Import Books.Model Books.ProofsGroup Books.ProofsChain Books.ProofsVerify Books.ProofsGc
                         Books.ProofsStore Books.ProofsTamper Books.ProofsDigit Books.ProofsHex Books.ProofsRaw
                         Books.Bridge Books.ProofsBridgeLsm Books.ProofsBridge Books.ProofsFraming.
Import ListNotations.
Open Scope N_scope.

(* 1. The books balance at every committed state of every history:
   - the manifest lists exactly the files of the tree, each once;
   - the recorded O is the sum of the listed files' setsums, which is the setsum (in the sense of
     C14: setsum_of over the framed items) of all entries actually stored in those files;
   - every file's recorded setsum (= its name) is the setsum recomputed from its entries;
   - over all fragments ever written, roll-ups included: every transaction has I = O + D with
     D + sum(added) = sum(removed), starts from the previous transaction's O (I_n = O_{n-1}), every
     fragment starts with the O its predecessor ended in, and the log ends in the recorded O. *)
Theorem C04_books_balance : forall H, hash_ok H -> forall coll ops b,
  all_accepted H coll (open_fresh) ops = true -> brun H coll (open_fresh) ops = Ok b ->
  Permutation (mstrs (bman b)) (names (btree b)) /\
  mO (bman b) = sum (mstrs (bman b)) /\
  mO (bman b) = setsum_of H (map frame (concat (map bents (btree b)))) /\
  (forall f, In f (btree b) -> bsum f = builder_setsum H (bents f) /\ bsum f = setsum_of H (map frame (bents f))) /\
  frags_ok zero (fragments b) /\ log_end zero (fragments b) = mO (bman b).
Proof.
  intros H Hok coll ops b Hacc Hrun.
  destruct (brun_inv H Hok coll ops open_fresh (inv_open_fresh H coll) Hacc) as [(b' & E & I)|(c & E & _)]; rewrite E in Hrun; [|discriminate].
  inversion Hrun; subst b'.
  assert (Hperm : Permutation (mstrs (bman b)) (names (btree b))).
  { apply NoDup_Permutation; [apply (inv_strs_nodup H coll b I)|apply (inv_nodup H coll b I)|apply (inv_strs H coll b I)]. }
  split; [exact Hperm|]. split.
  { rewrite (inv_O H coll b I). unfold compute_setsum. symmetry. apply sum_perm; [exact Hperm|now apply (inv_strs_canonical H Hok coll)]. }
  split.
  { rewrite (inv_O H coll b I), (compute_setsum_entries H Hok) by apply (inv_files H coll b I). apply builder_setsum_setsum_of. }
  split.
  { intros f Hf. pose proof (inv_files H coll b I) as Hall. rewrite Forall_forall in Hall. split; [now apply Hall|].
    rewrite (Hall f Hf). apply builder_setsum_setsum_of. }
  destruct (inv_log H coll b I) as (Hf & Hne & He). split; [exact Hf|].
  unfold fragments. rewrite log_end_snoc. exact He.
Qed.

(* 2. None of the store's own bookkeeping checks ever fires on such a history: no panic (the
   assert_eq! after every install, u32 underflow in Setsum subtraction), no "setsum does not
   balance" in compaction_finish, no "Memtable checksum inconsistent", no "setsum of tree does not
   match setsum of manifest" on open.  (The remaining errors are refusals of the step's inputs:
   an ingest of an existing name, an input that is not in the tree, a collector out of sync.) *)
Theorem C04_store_checks_never_fire : forall H, hash_ok H -> forall coll ops,
  all_accepted H coll (open_fresh) ops = true ->
  (exists b, brun H coll (open_fresh) ops = Ok b) \/
  (exists c, brun H coll (open_fresh) ops = Err c /\ (c = CDuplicate \/ c = CNotFound \/ c = CGcLogic)).
Proof.
  intros H Hok coll ops Hacc.
  destruct (brun_inv H Hok coll ops open_fresh (inv_open_fresh H coll) Hacc) as [(b' & E & I)|(c & E & Hc)]; [left; eauto|right; eauto].
Qed.

(* 3. The offline verifier accepts every such history: LsmVerifier's verify_one, chained over all
   fragments through the accumulated setsum from zero, GC replays (verify_gc) included, ends in the
   recorded O; ManifestVerifier::verify accepts every fragment. *)
Theorem C04_verifier_accepts_store_histories : forall H, hash_ok H -> forall coll ops b,
  all_accepted H coll (open_fresh) ops = true -> brun H coll (open_fresh) ops = Ok b ->
  verify_frags H coll (bdisk b) (rfragments b) zero = Ok (mO (bman b)) /\
  Forall (fun fr => exists l, manifest_verify (map render fr) = Ok l) (fragments b).
Proof.
  intros H Hok coll ops b Hacc Hrun.
  destruct (brun_inv H Hok coll ops open_fresh (inv_open_fresh H coll) Hacc) as [(b' & E & I)|(c & E & _)]; rewrite E in Hrun; [|discriminate].
  inversion Hrun; subst b'.
  destruct (inv_log H coll b I) as (Hf & Hne & He).
  split.
  - unfold rfragments. rewrite (verify_frags_complete H coll (bdisk b) (fragments b) zero);
      [|apply (inv_canon H coll b I)|exact Hf|apply (inv_files_pass H coll b I)].
    unfold fragments. now rewrite log_end_snoc, He.
  - pose proof (inv_canon H coll b I) as Hc. change (mfragments (bman b)) with (fragments b) in Hc, Hf.
    clear -Hc Hf. revert Hc Hf. generalize zero. induction (fragments b) as [|fr frs IH]; intros acc Hc Hf; [constructor|].
    inversion Hc; subst. destruct Hf as [Hfr Hrest]. constructor; [now apply (manifest_verify_complete fr acc)|].
    now apply (IH (frag_end fr)).
Qed.

(* 3b. The GC replay in isolation: whatever the collector returns, if the store's walk over a
   strictly sorted merged input went through, verify_gc accepts the resulting transaction. *)
Theorem C04_verify_gc_accepts_store_gc : forall H, hash_ok H -> forall coll disk (fs : list bfile) lens kept discard,
  (forall f, In f fs -> lookup disk (bsum f) = Some (bents f)) ->
  (forall f, In f (map (build_file H) (cut lens kept)) -> lookup disk (bsum f) = Some (bents f)) ->
  kstrict (merged fs) ->
  gc_walk H (coll (merged fs)) (merged fs) [] zero = Some (kept, discard) ->
  verify_gc H coll disk (map bsum fs) (map bsum (map (build_file H) (cut lens kept))) discard = Ok tt.
Proof. intros H Hok coll. exact (verify_gc_accepts_walk H Hok coll). Qed.

(* 4. Digit tamper (pure group algebra).  In ANY balanced log (in particular every log the store
   wrote): replace, in one transaction that is not the first edit of its fragment, one of I, O, D
   or one added or removed digest by a different setsum: the verifier's pass over the log is
   rejected (an error, never a panic).  The fragments before the tampered one are accepted as
   before. *)
Theorem C04_verifier_rejects_digit_tamper : forall H coll disk pre t0 tpre t tpost t' post,
  Forall (Forall txn_canon) (pre ++ [t0 :: tpre ++ t :: tpost]) ->
  frags_ok zero (pre ++ [t0 :: tpre ++ t :: tpost]) ->
  Forall (Forall (files_pass H coll disk)) pre ->
  tampered t t' ->
  rejects (verify_frags H coll disk (map (map render) (pre ++ (t0 :: tpre ++ t' :: tpost) :: post)) zero).
Proof.
  intros H coll disk pre t0 tpre t tpost t' post Hc Hok Hgc Ht.
  apply Forall_app in Hc. destruct Hc as [Hc1 Hc2]. inversion Hc2 as [|? ? Hcf _]; subst.
  apply frags_ok_snoc in Hok. destruct Hok as [Hok1 Hok2].
  apply verify_frags_rejects; try assumption; [apply zero_canonical|].
  apply verify_one_rejects_tamper with (t := t); try assumption.
  now apply frags_end_canonical; [apply zero_canonical|..].
Qed.

(* ... and the first edit of a fragment (the roll-up) is checked for its O *)
Theorem C04_verifier_rejects_rollup_O_tamper : forall H coll disk pre t0 tpost v post,
  Forall (Forall txn_canon) (pre ++ [t0 :: tpost]) -> frags_ok zero (pre ++ [t0 :: tpost]) ->
  Forall (Forall (files_pass H coll disk)) pre -> canonical v -> v <> tO t0 ->
  rejects (verify_frags H coll disk
             (map (map render) (pre ++ (mkT (tI t0) v (tD t0) (tadds t0) (trms t0) (tL t0) :: tpost) :: post)) zero).
Proof.
  intros H coll disk pre t0 tpost v post Hc Hok Hgc Hv Hne.
  apply Forall_app in Hc. destruct Hc as [Hc1 Hc2]. inversion Hc2 as [|? ? Hcf _]; subst.
  apply frags_ok_snoc in Hok. destruct Hok as [Hok1 Hok2].
  apply verify_frags_rejects; try assumption; [apply zero_canonical|].
  apply verify_one_rejects_first_O; try assumption.
  now apply frags_end_canonical; [apply zero_canonical|..].
Qed.

(* 4b. The same on the hex STRINGS the manifest holds.  First the digest itself: the 64-character
   hexdigest of a canonical setsum with the character at ANY position replaced by a hex digit
   (0-9, a-f, A-F) of another value parses to a DIFFERENT canonical setsum.  (The character is one
   nibble of one byte of one little-endian column; the column moves by d * 16^pos, which the single
   subtraction of the prime in from_digest cannot undo for any of the setsum primes as re-extracted
   from the source; the other seven columns are untouched.  Every character of a hexdigest is a hex
   digit, so the hypothesis on the old character is never vacuous: hexdigest_chars.) *)
Theorem C04_hex_digit_tamper_changes_setsum : forall s i c' v v', canonical s -> (i < 64)%nat ->
  hexval c' = Some v' -> hexval (nth i (hexdigest s) 0) = Some v -> v' <> v ->
  exists s', from_hexdigest (replace_nth i c' (hexdigest s)) = Some s' /\ s' <> s /\ canonical s'.
Proof. exact hex_digit_tamper. Qed.

Theorem C04_hex_digit_tamper_changes_column : forall p c c' d pos,
  In p primes -> c < p -> 1 <= d <= 15 -> pos < 8 ->
  (c' = c + d * 16 ^ pos \/ c = c' + d * 16 ^ pos) -> reduce_col p c' <> c.
Proof.
  intros p c c' d pos Hp Hc Hd Hpos Hch.
  exact (digit_change_changes_column p c c' (d * 16 ^ pos) Hp (in_digit_deltas d pos Hd Hpos) Hc Hch).
Qed.

(* ... then the verifier: in any balanced log as the store renders it, replace ONE character at ANY
   position i < 64 of ONE digest string of one transaction (f selects I, O, D, the k-th added or the
   k-th removed digest; the edit is not the first of its fragment) by a hex digit of another value:
   the pass over the log is rejected.  What follows the tampered fragment is arbitrary. *)
Theorem C04_verifier_rejects_hex_digit_tamper : forall H coll disk pre t0 tpre t tpost post f i c' cs v v',
  Forall (Forall txn_canon) (pre ++ [t0 :: tpre ++ t :: tpost]) ->
  frags_ok zero (pre ++ [t0 :: tpre ++ t :: tpost]) ->
  Forall (Forall (files_pass H coll disk)) pre ->
  get_str (render t) f = Some cs -> (i < 64)%nat ->
  hexval c' = Some v' -> hexval (nth i cs 0) = Some v -> v' <> v ->
  rejects (verify_frags H coll disk
             (map (map render) pre ++ (render t0 :: map render tpre ++ tamper_raw (render t) f i c' :: map render tpost) :: post) zero).
Proof.
  intros H coll disk pre t0 tpre t tpost post f i c' cs v v' Hc Hok Hgc Hg Hi Hv' Hv Hne.
  apply Forall_app in Hc. destruct Hc as [Hc1 Hc2]. inversion Hc2 as [|? ? Hcf _]; subst.
  apply frags_ok_snoc in Hok. destruct Hok as [Hok1 Hok2].
  apply verify_frags_rejects_raw; try assumption; [apply zero_canonical|].
  apply (verify_one_rejects_hex_tamper H coll disk _ t0 tpre t tpost f i c' cs v v'); try assumption.
  now apply frags_end_canonical; [apply zero_canonical|..].
Qed.

(* ... and one character of the O of a roll-up *)
Theorem C04_verifier_rejects_hex_digit_tamper_rollup_O : forall H coll disk pre t0 tpost post i c' v v',
  Forall (Forall txn_canon) (pre ++ [t0 :: tpost]) -> frags_ok zero (pre ++ [t0 :: tpost]) ->
  Forall (Forall (files_pass H coll disk)) pre -> (i < 64)%nat ->
  hexval c' = Some v' -> hexval (nth i (hexdigest (tO t0)) 0) = Some v -> v' <> v ->
  rejects (verify_frags H coll disk
             (map (map render) pre ++ (tamper_raw (render t0) DO i c' :: map render tpost) :: post) zero).
Proof.
  intros H coll disk pre t0 tpost post i c' v v' Hc Hok Hgc Hi Hv' Hv Hne.
  apply Forall_app in Hc. destruct Hc as [Hc1 Hc2]. inversion Hc2 as [|? ? Hcf _]; subst.
  apply frags_ok_snoc in Hok. destruct Hok as [Hok1 Hok2].
  apply verify_frags_rejects_raw; try assumption; [apply zero_canonical|].
  apply (verify_one_rejects_hex_tamper_rollup_O H coll disk _ t0 tpost i c' v v'); try assumption.
  now apply frags_end_canonical; [apply zero_canonical|..].
Qed.

(* the same for a history of the store: its log satisfies the hypotheses of the two theorems above *)
Theorem C04_store_log_is_balanced : forall H, hash_ok H -> forall coll ops b,
  all_accepted H coll (open_fresh) ops = true -> brun H coll (open_fresh) ops = Ok b ->
  Forall (Forall txn_canon) (fragments b) /\ frags_ok zero (fragments b) /\
  Forall (Forall (files_pass H coll (bdisk b))) (fragments b).
Proof.
  intros H Hok coll ops b Hacc Hrun.
  destruct (brun_inv H Hok coll ops open_fresh (inv_open_fresh H coll) Hacc) as [(b' & E & I)|(c & E & _)]; rewrite E in Hrun; [|discriminate].
  inversion Hrun; subst b'. destruct (inv_log H coll b I) as (Hf & _).
  split; [apply (inv_canon H coll b I)|]. split; [exact Hf|apply (inv_files_pass H coll b I)].
Qed.

(* 5. Entry tamper.  Drop, duplicate or modify one key-value entry of one output file.

   REFUTED as the property states it ("modify one key-value entry ... rejected"), for ANY hash:
   sst::Setsum frames a put as [8] ++ key ++ timestamp_le64 ++ value without length prefixes, so
   two different entries can have the same frame - put "a"@1378 = 00 and put "ab"@5 = "" both
   frame to 08 61 62 05 00 00 00 00 00 00 00 - and then the same setsum whatever H is: replacing
   one by the other in an output keeps the file's name, the recorded digest and I = O + D, and the
   store and both verifiers accept.  Known finding `setsum-framing-collision` (a repair has to
   length-prefix the key, which changes every setsum and every file name: a format change). *)
Theorem C04_entry_tamper_framing_collision_refuted :
  exists es es', entries_tampered es es' /\ framing_collision es es' /\
    forall H, builder_setsum H es = builder_setsum H es'.
Proof.
  exists [collide_a], [collide_b]. destruct collide_frames as [Ef Hne]. split; [|split].
  - exact (EModify [] collide_a collide_b [] Hne).
  - exists [], collide_a, collide_b, []. repeat split; assumption.
  - exact framing_collision_same_setsum.
Qed.

(* ... and every tamper inside that class is invisible to the setsum, for every hash *)
Theorem C04_framing_collision_keeps_setsum : forall H, hash_ok H -> forall l1 e e' l2,
  frame e = frame e' -> builder_setsum H (l1 ++ e :: l2) = builder_setsum H (l1 ++ e' :: l2).
Proof. intros H Hok l1 e e' l2. now apply framing_collision_general. Qed.

(* OUTSIDE the known class (the tamper does not replace an entry by a different entry with the same
   frame), under the explicit hypothesis on the HASH that it is injective and non-zero on the
   frames of the entries involved:
   (a) the file's setsum, i.e. its name and the digest the manifest records, changes; *)
Theorem C04_entry_tamper_changes_setsum_outside_known : forall H, hash_ok H -> forall es es',
  entries_tampered es es' -> ~ framing_collision es es' -> hash_separates_frames H (es ++ es') ->
  builder_setsum H es <> builder_setsum H es'.
Proof. intros H Hok. exact (tampered_entries_change_setsum_outside H Hok). Qed.

(* (b) the store's own balance check refuses to commit the compaction; *)
Theorem C04_store_refuses_tampered_output_outside_known : forall H, hash_ok H -> forall b inputs o1 es es' o2 input discard roll,
  canonical discard -> canonical input -> Forall (fun f => canonical (bsum f)) (o1 ++ o2) ->
  input = add_state (sum (map bsum (o1 ++ build_file H es :: o2))) discard ->
  entries_tampered es es' -> ~ framing_collision es es' -> hash_separates_frames H (es ++ es') ->
  compaction_finish b inputs (o1 ++ build_file H es' :: o2) input discard roll = Err CStoreBalance.
Proof.
  intros H Hok b inputs o1 es es' o2 input discard roll Hd Hi Ho Hbal Ht Hnk Hs.
  apply (store_refuses_tampered_output_ne H Hok b inputs o1 es es' o2); try assumption.
  now apply (tampered_entries_change_setsum_outside H Hok).
Qed.

(* (c) and a log in which the transaction records the tampered file instead is rejected by the
   verifier. *)
Theorem C04_verifier_rejects_entry_tamper_outside_known : forall H, hash_ok H -> forall coll disk pre t0 tpre t tpost post l1 es es' l2,
  Forall (Forall txn_canon) (pre ++ [t0 :: tpre ++ t :: tpost]) ->
  frags_ok zero (pre ++ [t0 :: tpre ++ t :: tpost]) ->
  Forall (Forall (files_pass H coll disk)) pre ->
  tadds t = l1 ++ builder_setsum H es :: l2 ->
  entries_tampered es es' -> ~ framing_collision es es' -> hash_separates_frames H (es ++ es') ->
  rejects (verify_frags H coll disk
             (map (map render) (pre ++ (t0 :: tpre ++ mkT (tI t) (tO t) (tD t) (l1 ++ builder_setsum H es' :: l2) (trms t) (tL t) :: tpost) :: post)) zero).
Proof.
  intros H Hok coll disk pre t0 tpre t tpost post l1 es es' l2 Hc Hf Hgc Ea Ht Hnk Hs.
  apply (C04_verifier_rejects_digit_tamper H coll disk pre t0 tpre t tpost); try assumption.
  apply (tampered_add_digest_ne H Hok t l1 es es' l2); [assumption|].
  now apply (tampered_entries_change_setsum_outside H Hok).
Qed.

(* 5b. In-place tamper: the ENTRIES of an sst an edit adds are changed while its name, the manifest
   and every digest stay as they were.  Since /repo fix (verify_sst) the verifier reads every sst
   a judged transaction adds, recomputes the setsum of its entries and compares it with the name:
   if the file found under an added name holds entries whose setsum is not that name, the pass is
   rejected - whether or not anything else is in order. *)
Theorem C04_verifier_rejects_inplace_entry_tamper : forall H coll disk pre t0 tpre t tpost post x es',
  Forall (Forall txn_canon) (pre ++ [t0 :: tpre ++ t :: tpost]) ->
  frags_ok zero pre -> Forall (Forall (files_pass H coll disk)) pre ->
  In x (tadds t) -> lookup disk x = Some es' -> builder_setsum H es' <> x ->
  rejects (verify_frags H coll disk (map (map render) (pre ++ (t0 :: tpre ++ t :: tpost) :: post)) zero).
Proof.
  intros H coll disk pre t0 tpre t tpost post x es' Hc Hok Hgc Hin Hl Hne.
  apply Forall_app in Hc. destruct Hc as [Hc1 Hc2]. inversion Hc2 as [|? ? Hcf _]; subst.
  apply verify_frags_rejects; try assumption; [apply zero_canonical|].
  apply (verify_one_rejects_bad_sst H coll disk _ t0 tpre t tpost x es'); try assumption.
  now apply frags_end_canonical; [apply zero_canonical|..].
Qed.

(* ... in particular one entry of the file dropped, duplicated or modified in place, outside the
   framing-collision class and under the hypothesis on the hash *)
Theorem C04_verifier_rejects_inplace_entry_tamper_outside_known : forall H, hash_ok H ->
  forall coll disk pre t0 tpre t tpost post es es',
  Forall (Forall txn_canon) (pre ++ [t0 :: tpre ++ t :: tpost]) ->
  frags_ok zero pre -> Forall (Forall (files_pass H coll disk)) pre ->
  In (builder_setsum H es) (tadds t) -> lookup disk (builder_setsum H es) = Some es' ->
  entries_tampered es es' -> ~ framing_collision es es' -> hash_separates_frames H (es ++ es') ->
  rejects (verify_frags H coll disk (map (map render) (pre ++ (t0 :: tpre ++ t :: tpost) :: post)) zero).
Proof.
  intros H Hok coll disk pre t0 tpre t tpost post es es' Hc Hf Hp Hin Hl Ht Hnk Hs.
  apply (C04_verifier_rejects_inplace_entry_tamper H coll disk pre t0 tpre t tpost post (builder_setsum H es) es'); try assumption.
  intros E. symmetry in E. revert E. now apply (tampered_entries_change_setsum_outside H Hok).
Qed.

(* 6. What the verifier does NOT check (stated so that nobody reads more into 4 and 5): of the first
   edit of a fragment (the zero edit or a roll-up: no removals) only the O is looked at - its I, its
   D and its ADDED digests can be anything, and the ssts it lists are not read. *)
Theorem C04_rollup_I_D_adds_not_checked : forall H coll disk t0 post acc vI vD adds',
  txn_canon t0 -> trms t0 = [] -> canonical vI -> canonical vD -> Forall canonical adds' ->
  verify_one H coll disk (map render (mkT vI (tO t0) vD adds' [] (tL t0) :: post)) acc =
  verify_one H coll disk (map render (t0 :: post)) acc.
Proof. intros H coll. exact (first_edit_only_O H coll). Qed.

(* 6b. LsmVerifier::verify pops the two newest fragments (the newest numbered one and the live
   MANIFEST): a pass judges a fragment only when at least two fragments follow it.  The rejection
   theorems above are stated for verify_frags over `pre ++ tampered :: post` with ANY post; for the
   pass itself they apply when post holds at least two fragments, and a tampered fragment that is
   one of the two newest is not looked at by that pass. *)
Lemma removelast2_app {A} (l : list A) x post : (2 <= length post)%nat ->
  removelast (removelast (l ++ x :: post)) = l ++ x :: removelast (removelast post).
Proof.
  intros Hl. destruct post as [|p [|q post]]; cbn [length] in Hl; try lia.
  rewrite removelast_app by discriminate.
  change (removelast (x :: p :: q :: post)) with (x :: removelast (p :: q :: post)).
  rewrite removelast_app by discriminate.
  change (removelast (x :: removelast (p :: q :: post))) with
    (match removelast (p :: q :: post) with [] => [] | _ => x :: removelast (removelast (p :: q :: post)) end).
  change (removelast (p :: q :: post)) with (p :: removelast (q :: post)). reflexivity.
Qed.

Theorem C04_verify_pass_judges_all_but_two_newest : forall H coll disk l x post acc,
  ((2 <= length post)%nat ->
     verify_pass H coll disk (l ++ x :: post) acc = verify_frags H coll disk (l ++ x :: removelast (removelast post)) acc) /\
  (forall p, verify_pass H coll disk (l ++ [x; p]) acc = verify_frags H coll disk l acc).
Proof.
  intros H coll disk l x post acc. unfold verify_pass. split.
  - intros Hl. now rewrite removelast2_app.
  - intros p. rewrite removelast_app by discriminate. cbn [removelast]. rewrite removelast_app by discriminate.
    cbn [removelast]. now rewrite app_nil_r.
Qed.

Theorem C04_verify_pass_rejects_hex_digit_tamper : forall H coll disk pre t0 tpre t tpost post f i c' cs v v',
  Forall (Forall txn_canon) (pre ++ [t0 :: tpre ++ t :: tpost]) ->
  frags_ok zero (pre ++ [t0 :: tpre ++ t :: tpost]) ->
  Forall (Forall (files_pass H coll disk)) pre ->
  get_str (render t) f = Some cs -> (i < 64)%nat ->
  hexval c' = Some v' -> hexval (nth i cs 0) = Some v -> v' <> v ->
  (2 <= length post)%nat ->
  rejects (verify_pass H coll disk
             (map (map render) pre ++ (render t0 :: map render tpre ++ tamper_raw (render t) f i c' :: map render tpost) :: post) zero).
Proof.
  intros H coll disk pre t0 tpre t tpost post f i c' cs v v' Hc Hok Hgc Hg Hi Hv' Hv Hne Hl.
  rewrite (proj1 (C04_verify_pass_judges_all_but_two_newest H coll disk _ _ post zero) Hl).
  now apply (C04_verifier_rejects_hex_digit_tamper H coll disk pre t0 tpre t tpost _ f i c' cs v v').
Qed.

(* 7. The bridge to the C01 model.  EVERY accepted history of Lsm/History.v (writes, ingests,
   flushes, admissible compactions and GCs on 16 levels, reopens with any admissible re-levelling;
   from any starting sequence number), mapped step by step by Books/Bridge.v (flush = ingest of the
   sorted memtable, compaction = the Books compaction with the inputs named by the setsums of their
   contents and the outputs' lengths as cuts, GC with the collector = what the outputs kept), runs
   in the Books model, and at its end
   - the Books tree holds exactly the files of the Lsm version (as a multiset of entry lists), so
     every file name = setsum of the file's entries and the manifest lists exactly those files;
   - the recorded O is the setsum of ALL entries held by the files of the Lsm version;
   - the whole log balances (I = O + D, D + sum(added) = sum(removed), I_n = O_(n-1), roll-ups) and
     the offline verifier accepts it.
   The hypotheses of the bridge are the boolean `bridge_okb`: per mapped step the Books acceptance
   (no setsum collision between different files, distinct inputs, distinct (key, timestamp) pairs
   in a GC's merged input), the collector returns what that GC's outputs hold, a reopen keeps the
   files and its log's sst is not already listed.  A rollover may follow any edit (`rolls`). *)
Lemma perm_concat {A} (l l' : list (list A)) : Permutation l l' -> Permutation (concat l) (concat l').
Proof.
  induction 1 as [|x l l' _ IH|x y l|l l' l'' _ IH1 _ IH2]; cbn [concat].
  - constructor.
  - now apply Permutation_app_head.
  - rewrite !app_assoc. apply Permutation_app_tail, Permutation_app_comm.
  - now apply Permutation_trans with (concat l').
Qed.

Theorem C04_lsm_histories_balance : forall H, hash_ok H -> forall coll rolls n ops,
  Lsm.History.all_accepted (Lsm.History.init_at n) ops = true ->
  bridge_okb H rolls coll (Lsm.History.init_at n) open_fresh ops = true ->
  exists b, brun H coll open_fresh (books_of H rolls (Lsm.History.init_at n) ops) = Ok b /\
    let v := Lsm.Model.ver (Lsm.History.run (Lsm.History.init_at n) ops) in
    Permutation (map Lsm.Model.fents (Lsm.Model.flat v)) (map bents (btree b)) /\
    Permutation (mstrs (bman b)) (map (builder_setsum H) (map bents (btree b))) /\
    mO (bman b) = builder_setsum H (Lsm.Model.file_entries v) /\
    frags_ok zero (fragments b) /\ log_end zero (fragments b) = mO (bman b) /\
    verify_frags H coll (bdisk b) (rfragments b) zero = Ok (mO (bman b)).
Proof.
  intros H Hok coll rolls n ops Hacc Hbr.
  assert (J0 : J H coll (Lsm.History.init_at n) open_fresh).
  { split; [apply inv_open_fresh|]. split; [unfold R; cbn; constructor|]. cbn. discriminate. }
  destruct (bridge_run H Hok coll rolls ops _ _ J0 Hacc Hbr) as (b & Erun & (I & HR & _)).
  exists b. split; [exact Erun|]. cbv zeta.
  destruct (inv_log H coll b I) as (Hf & Hne & He).
  split; [exact HR|]. split.
  { eapply Permutation_trans.
    - apply NoDup_Permutation; [apply (inv_strs_nodup H coll b I)|apply (inv_nodup H coll b I)|apply (inv_strs H coll b I)].
    - unfold names. rewrite map_map. rewrite (map_ext_in bsum (fun g => builder_setsum H (bents g))); [reflexivity|].
      intros g Hg. now apply (tree_names_are_setsums H coll b I). }
  split.
  { rewrite (inv_O H coll b I), (compute_setsum_entries H Hok) by apply (inv_files H coll b I).
    apply (builder_setsum_perm H Hok). unfold Lsm.Model.file_entries. rewrite flat_map_concat_map.
    apply perm_concat, Permutation_sym, HR. }
  split; [exact Hf|]. split; [unfold fragments; now rewrite log_end_snoc|].
  unfold rfragments. rewrite (verify_frags_complete H coll (bdisk b) (fragments b) zero);
    [|apply (inv_canon H coll b I)|exact Hf|apply (inv_files_pass H coll b I)].
  unfold fragments. now rewrite log_end_snoc, He.
Qed.

(* ---- non-vacuity: a concrete history (two flushes, a merging compaction cut into two files with
   a rollover, a flush, a GC that drops two entries, a trivial move, a reopen that recovers a log)
   is accepted, runs, and its log verifies; the hypotheses of the tamper theorems are satisfiable ---- *)
(* a content-dependent stand-in for SHA3-256 (H_ex of C14 depends on the length only) *)
Definition H_ex (x : list N) : list N :=
  map (fun i => (fold_left (fun a b => (a * 31 + b + i) mod 65521) x (N.of_nat (length x) + 7 * i)) mod 256)
      (map N.of_nat (seq 0 32)).

Example hash_ok_ex : hash_ok H_ex.
Proof.
  intros x. split.
  - unfold bytes_ok, H_ex. apply Forall_forall. intros b Hin.
    apply in_map_iff in Hin. destruct Hin as (i & <- & _). apply N.mod_upper_bound. discriminate.
  - unfold H_ex. now rewrite !map_length, seq_length.
Qed.

Definition coll_newest (main : list entry) : list (key * N) :=
  (* keep the newest version of every key *)
  (fix go (prev : option key) (l : list entry) : list (key * N) :=
     match l with
     | [] => []
     | e :: r => match prev with
                 | Some k => if Lsm.Model.key_eqb k (ek e) then go prev r else kr e :: go (Some (ek e)) r
                 | None => kr e :: go (Some (ek e)) r
                 end
     end) None main.

Definition ex_f1 : list entry := [mkE [1] 3 (Some [10]); mkE [2] 4 (Some [20])].
Definition ex_f2 : list entry := [mkE [2] 6 None; mkE [1] 7 (Some [11])].
Definition ex_f3 : list entry := [mkE [3] 9 (Some [30])].
Definition ex_n (es : list entry) : state := builder_setsum H_ex (Lsm.Model.sort_entries es).
Definition ex_ops : list bop :=
  [ BFlush ex_f1 1 false;
    BFlush ex_f2 4 true;
    BCompact [ex_n ex_f1; ex_n ex_f2] [3%nat] false;
    BFlush ex_f3 7 false;
    BGc [ex_n ex_f3; builder_setsum H_ex [mkE [1] 7 (Some [11]); mkE [1] 3 (Some [10]); mkE [2] 6 None];
         builder_setsum H_ex [mkE [2] 4 (Some [20])]] [2%nat] true;
    BMove (builder_setsum H_ex [mkE [1] 7 (Some [11]); mkE [2] 6 None]);
    BReopen [mkE [4] 11 (Some [40])] false ].

Example ex_accepted : all_accepted H_ex coll_newest open_fresh ex_ops = true.
Proof. vm_compute. reflexivity. Qed.

Example ex_runs : match brun H_ex coll_newest open_fresh ex_ops with
                  | Ok b => length (btree b) = 3%nat /\ length (fragments b) = 4%nat /\ mO (bman b) <> zero /\
                            verify_frags H_ex coll_newest (bdisk b) (rfragments b) zero = Ok (mO (bman b))
                  | _ => False
                  end.
Proof. vm_compute. repeat split; discriminate. Qed.

Example ex_hash_separates :
  hash_separates_frames H_ex ([mkE [1] 3 (Some [10]); mkE [2] 4 (Some [20])] ++ [mkE [1] 3 (Some [10])]) /\
  ~ framing_collision [mkE [1] 3 (Some [10]); mkE [2] 4 (Some [20])] [mkE [1] 3 (Some [10])].
Proof.
  split; [split|].
  - intros e He. cbn in He. destruct He as [<-|[<-|[<-|[]]]]; vm_compute; discriminate.
  - intros e e' He He' Hne. cbn in He, He'.
    destruct He as [<-|[<-|[<-|[]]]]; destruct He' as [<-|[<-|[<-|[]]]]; try (now contradiction Hne); vm_compute; discriminate.
  - intros (l1 & e & e' & l2 & E1 & E2 & _). apply (f_equal (@length _)) in E1, E2. rewrite !app_length in E1, E2. cbn in E1, E2. lia.
Qed.

(* the bridge's hypotheses are satisfiable: the example history of Lsm/Props_C01.v extended by a GC
   into the last level; the collector is the history's own table *)
Definition ex_lsm_ops : list Lsm.History.op :=
  let mkE := Lsm.Model.mkE in let mkF := Lsm.Model.mkF in let mkC := Lsm.Model.mkC in
  [ Lsm.History.OWrite [([1], Some [10]); ([2], Some [20])];
    Lsm.History.OFlush 100 50;
    Lsm.History.OWrite [([1], None)];
    Lsm.History.OWrite [([3], Some [30])];
    Lsm.History.OFlush 101 50;
    Lsm.History.OCompact (mkC 0%nat 1%nat [1] [3] [100; 101])
             [mkF 200 [mkE [1] 5 None; mkE [1] 3 (Some [10]); mkE [2] 3 (Some [20])] 40; mkF 201 [mkE [3] 6 (Some [30])] 30];
    Lsm.History.OCompact (mkC 1%nat 2%nat [3] [3] [201]) [mkF 201 [mkE [3] 6 (Some [30])] 30];
    Lsm.History.OGc (mkC 1%nat 15%nat [1] [2] [200]) [mkF 300 [mkE [1] 5 None; mkE [2] 3 (Some [20])] 30];
    Lsm.History.OWrite [([2], None)];
    Lsm.History.OReopen 102 20
      ([[mkF 102 [mkE [2] 8 None] 20]; []; [mkF 201 [mkE [3] 6 (Some [30])] 30]] ++ repeat [] 12 ++
       [[mkF 300 [mkE [1] 5 None; mkE [2] 3 (Some [20])] 30]]) 10 ].

Example ex_lsm_accepted : Lsm.History.all_accepted (Lsm.History.init_at 2) ex_lsm_ops = true.
Proof. vm_compute. reflexivity. Qed.

Example ex_lsm_bridge_ok :
  bridge_okb H_ex (fun k => Nat.even k) (coll_of (gc_table (Lsm.History.init_at 2) ex_lsm_ops))
             (Lsm.History.init_at 2) open_fresh ex_lsm_ops = true.
Proof. vm_compute. reflexivity. Qed.

(* a digit tamper of a concrete store history, by computation: in the second fragment of the log the
   example history wrote, the first character of the I of the second edit is replaced by another
   hex digit; the pass is rejected *)
Definition ex_b : bstore := match brun H_ex coll_newest open_fresh ex_ops with Ok b => b | _ => open_fresh end.
Definition ex_other_digit (cs : list N) : N := if nth 0%nat cs 0 =? 102 then 48 else 102.
Definition ex_tampered_log : list (list rtxn) :=
  map_nth 1%nat (map_nth 1%nat (fun e => tamper_raw e DI 0%nat (ex_other_digit (match rI e with Some cs => cs | None => [] end)))) (rfragments ex_b).
Example ex_hex_tamper_rejected :
  verify_frags H_ex coll_newest (bdisk ex_b) (rfragments ex_b) zero = Ok (mO (bman ex_b)) /\
  ex_tampered_log <> rfragments ex_b /\
  exists c, verify_frags H_ex coll_newest (bdisk ex_b) ex_tampered_log zero = Err c.
Proof. split; [vm_compute; reflexivity|]. split; [vm_compute; discriminate|]. vm_compute. eexists. reflexivity. Qed.
