(* Books/ProofsBridgeLsm.v — the Lsm side of the bridge: how the multiset of files of a version
   changes under the steps of Lsm/History.v (levels and their order forgotten). *)
From Coq Require Import NArith List Bool Lia Arith Permutation.
From Blue Require Lsm.Model Lsm.History.
From Blue Require Import Lsm.ListLemmas Lsm.CompactProofs Lsm.WfProofs.
Import ListNotations.

Module LM := Lsm.Model.

Lemma l0_order_perm l : Permutation (LM.l0_order l) l.
Proof.
  unfold LM.l0_order. eapply Permutation_trans; [apply Permutation_sym, Permutation_rev|].
  apply Permutation_sym, isort_by_perm.
Qed.

(* appending a file to L0 *)
Lemma flat_push_l0 v f : v <> [] ->
  Permutation (LM.flat (LM.set_nth 0 (hd [] v ++ [f]) v)) (LM.flat v ++ [f]).
Proof.
  destruct v as [|l0 r]; [congruence|]. intros _. cbn [LM.set_nth hd]. unfold LM.flat. cbn [hd tl].
  eapply Permutation_trans; [apply Permutation_app_tail, l0_order_perm|].
  eapply Permutation_trans; [|apply Permutation_app_tail, Permutation_app_tail, Permutation_sym, l0_order_perm].
  rewrite <- !app_assoc. apply Permutation_app_head. apply Permutation_app_comm.
Qed.

(* an admissible compaction replaces its input files by its outputs *)
Lemma flat_compaction_perm v c outs : LM.valid_compactionb v c = true ->
  exists rest, Permutation (LM.flat v) (rest ++ LM.input_files v c) /\
               Permutation (LM.flat (LM.apply_compaction v c outs)) (rest ++ outs).
Proof.
  intros Hv. pose proof (slice_inputs v c Hv) as Hslin.
  unfold LM.valid_compactionb, LM.vc_shape, LM.vc_slice, LM.vc_rest, LM.vc_range, LM.vc_closed, LM.vc_ids in Hv.
  repeat (apply andb_prop in Hv; destruct Hv as [Hv ?]).
  match goal with Hx : (LM.lower_bound _ _ <=? LM.upper_bound _ _)%nat = true |- _ => apply Nat.leb_le in Hx; rename Hx into Hlbub end.
  match goal with Hx : (_ <? length _)%nat = true |- _ => apply Nat.ltb_lt in Hx; rename Hx into Hlen end.
  apply Nat.ltb_lt in Hv. rename Hv into Hlt.
  set (ov := LM.ordered_levels v).
  set (lo := LM.clower c) in *. set (up := LM.cupper c) in *.
  set (u := LM.upper_level v c) in *. set (lb := LM.lower_bound u (LM.cfirst c)) in *. set (ub := LM.upper_bound u (LM.clast c)) in *.
  set (inp := LM.is_input c) in *.
  set (M := LM.mid_files v c) in *.
  assert (HM : M = concat (firstn (up - lo) (skipn lo ov))) by reflexivity.
  assert (Hu : u = nth up ov []) by (unfold u, LM.upper_level, ov; rewrite nth_ordered_levels; [reflexivity|fold up; lia]).
  assert (Hold : LM.flat v = concat (firstn lo ov) ++ M ++ u ++ concat (skipn (S up) ov)).
  { rewrite flat_ordered_levels. fold ov.
    rewrite (split_levels lo up ov []) at 1; [|lia|unfold ov; rewrite length_ordered_levels; lia].
    rewrite !concat_app. cbn [concat]. rewrite app_nil_r, <- Hu, HM. reflexivity. }
  assert (Hnew : LM.flat (LM.apply_compaction v c outs) =
                 concat (firstn lo ov) ++ filter (fun f => negb (inp f)) M ++ (firstn lb u ++ outs ++ skipn ub u) ++ concat (skipn (S up) ov)).
  { rewrite flat_ordered_levels, ordered_levels_apply by assumption.
    fold ov lo up. rewrite !concat_app. cbn [concat]. rewrite app_nil_r, HM, filter_concat. reflexivity. }
  set (sl := LM.upper_slice v c) in *.
  assert (Hsplit : u = firstn lb u ++ sl ++ skipn ub u).
  { unfold sl, LM.upper_slice, LM.slice. fold u lb ub.
    rewrite <- (firstn_skipn lb u) at 1. f_equal.
    rewrite <- (firstn_skipn (ub - lb) (skipn lb u)) at 1. f_equal.
    rewrite skipn_skipn'. f_equal. lia. }
  assert (Hinputs : LM.input_files v c = filter inp M ++ sl).
  { unfold LM.input_files. fold M sl inp. rewrite filter_app. f_equal. exact Hslin. }
  assert (HMperm : Permutation M (filter (fun f => negb (inp f)) M ++ filter inp M)).
  { clear. induction M as [|x l IH]; cbn [filter app]; [constructor|].
    destruct (inp x); cbn [negb app]; [now apply Permutation_cons_app|now constructor]. }
  set (P := concat (firstn lo ov)) in *. set (S' := concat (skipn (S up) ov)) in *.
  set (Mn := filter (fun f => negb (inp f)) M) in *. set (Mi := filter inp M) in *.
  set (A := firstn lb u) in *. set (B := skipn ub u) in *.
  exists (P ++ Mn ++ A ++ B ++ S'). split.
  - rewrite Hold, Hinputs, Hsplit. rewrite <- !app_assoc. apply Permutation_app_head.
    eapply Permutation_trans; [apply Permutation_app_tail, HMperm|]. rewrite <- !app_assoc. apply Permutation_app_head.
    (* Mi ++ A ++ sl ++ B ++ S'  ~  A ++ B ++ S' ++ Mi ++ sl *)
    eapply Permutation_trans; [apply Permutation_app_comm|]. rewrite <- !app_assoc. apply Permutation_app_head.
    eapply Permutation_trans; [apply Permutation_app_comm|]. rewrite <- !app_assoc. reflexivity.
  - rewrite Hnew. rewrite <- !app_assoc. apply Permutation_app_head. apply Permutation_app_head. apply Permutation_app_head.
    eapply Permutation_trans; [apply Permutation_app_comm|]. rewrite <- !app_assoc. reflexivity.
Qed.

Lemma apply_compaction_nonempty v c outs : v <> [] -> LM.apply_compaction v c outs <> [].
Proof.
  intros Hv. unfold LM.apply_compaction. destruct (LM.cupper c <? length v)%nat eqn:E; [|assumption].
  intros E'. apply (f_equal (@length _)) in E'. rewrite !app_length in E'. cbn in E'. lia.
Qed.
