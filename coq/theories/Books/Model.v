(* Books/Model.v — executable model of the setsum bookkeeping of lsmtk (property C04).
   Definitions only.

   What is transcribed from the Rust (function by function, same order of effects, same early
   exits; `None`/`Panic` where the Rust panics):
     sst/src/setsum.rs        Setsum::insert / put / del (framing of one key-value entry)
     sst/src/lib.rs           SstBuilder::put / del / seal  (the final-block setsum is the running
                              setsum of the entries written)
     mani/src/lib.rs          Manifest::apply_edit, to_edit, rollover (strings are setsums here)
     lsmtk/src/tree/mod.rs    Version::compute_setsum, LsmTree::open (the zero edit), _ingest,
                              apply_manifest_ingest, compaction_setup, perform_compaction,
                              perform_garbage_collection (the lock-step walk), compaction_finish
                              (balance check), apply_manifest_compaction, apply_moving_compaction,
                              from_manifest (tree-vs-manifest check)
     lsmtk/src/kvs/mod.rs     _memtable_thread (memtable checksum check + ingest), recover_one
     lsmtk/src/verifier.rs    setsum_from_info, verify_one, verify_sst, verify_gc, ManifestVerifier::verify,
                              the chaining of process_one through the verify manifest's 'O'
   Inputs (oracles) of the model, validated per step by the correspondence check:
     where the multi-builder cuts its output into files (list of lengths), when the manifest rolls
     over (a boolean per edit; the byte-size rule of mani is C13's subject), the entries of the
     memtable at a flush, which compaction the selector picked (input names).
   External code, as Section variables: H = SHA3-256 (any function); coll = the GC policy's
   collector (sst/src/gc.rs, the subject of C05): the KeyRefs it returns, in order, for a merged
   input.
   Abstracted: level placement (compute_setsum sums over all levels, so the tree is a flat list of
   files); the file system (the trash / unlink protocol of the verifier is C08's subject): files
   are looked up by name in a list that is an argument of the verifier functions. *)
From Coq Require Import NArith List Bool.
From Blue Require Import Gen.Const_Setsum Setsum.Model.
From Blue Require Lsm.Model.
Import ListNotations.
Open Scope N_scope.

(* entries and their order come from the Lsm area *)
Notation key := Lsm.Model.key.
Notation entry := Lsm.Model.entry.
Notation mkE := Lsm.Model.mkE.
Notation ek := Lsm.Model.ek.
Notation ets := Lsm.Model.ets.
Notation ev := Lsm.Model.ev.
Notation lex_cmp := Lsm.Model.lex_cmp.
Notation sort_entries := Lsm.Model.sort_entries.

(* ------------------------------------------------------------------ results *)
Inductive code :=
| CMissing            (* "manifest edit missing 'X'" *)
| CBadInfo            (* "manifest 'X' field has bad digest" *)
| CNoContinue         (* "manifest does not continue with accumulated setsum" *)
| CNoBalance          (* "manifest does not balance inputs == outputs + discard" *)
| CBadAdded           (* "manifest added has bad digest" *)
| CBadRmed            (* "manifest rmed has bad digest" *)
| CBadL               (* "manifest has bad L field" *)
| CBadDiscard         (* "manifest has bad discard" *)
| CBadOutput          (* "manifest has bad output setsum" *)
| CGcDiscard          (* "garbage collection has bad discard" *)
| CDataLoss           (* "data loss" *)
| CDataConstruction   (* "data construction" *)
| CGcLogic            (* logic_error "gc key less than input" / "gc iterator out of sync with inputs" *)
| CNotFound           (* a named sst cannot be opened *)
| CBadSst             (* "sst does not hold the entries its name stands for" *)
| CDuplicate          (* duplicate_sst *)
| CStoreBalance       (* compaction_finish: "setsum does not balance input = output + discard" *)
| CMemtable           (* "Memtable checksum inconsistent" *)
| CTreeMani.          (* from_manifest: "setsum of tree does not match setsum of manifest" *)

Inductive res (A : Type) := Ok (a : A) | Err (c : code) | Panic.
Arguments Ok {A} _.
Arguments Err {A} _.
Arguments Panic {A}.

Definition bind {A B} (r : res A) (f : A -> res B) : res B :=
  match r with Ok a => f a | Err c => Err c | Panic => Panic end.

(* ------------------------------------------------------------------ the group (setsum crate) *)
Fixpoint state_eqb (a b : state) : bool :=
  match a, b with
  | [], [] => true
  | x :: a', y :: b' => (x =? y) && state_eqb a' b'
  | _, _ => false
  end.

(* `a - b` on Setsum: invert_state underflow is a panic (overflow checks are on in the harness) *)
Definition sub_r (a b : state) : res state :=
  match sub_state a b with Some s => Ok s | None => Panic end.

(* `acc += x` over a list *)
Definition sum_from (acc : state) (l : list state) : state := fold_left add_state l acc.
Definition sum (l : list state) : state := sum_from zero l.
(* `acc -= x` over a list *)
Fixpoint sub_all (acc : state) (l : list state) : res state :=
  match l with
  | [] => Ok acc
  | x :: r => bind (sub_r acc x) (fun a => sub_all a r)
  end.

(* KeyRef order: key ascending, timestamp descending *)
Definition kcmp (a b : key * N) : comparison :=
  match lex_cmp (fst a) (fst b) with
  | Eq => CompOpp (N.compare (snd a) (snd b))
  | c => c
  end.
Definition kr (e : entry) : key * N := (ek e, ets e).

(* ------------------------------------------------------------------ files and transactions *)
(* an sst: the setsum recorded in its final block (which is also its file name) and its entries *)
Record bfile := mkBF { bsum : state; bents : list entry }.

(* a manifest edit as lsmtk writes it; adds/rms in iteration order of the BTreeSets *)
Record txn := mkT { tI : state; tO : state; tD : state; tadds : list state; trms : list state; tL : option N }.

(* the same edit as ManifestIterator hands it to the verifier: strings *)
(* 'L' is not a setsum: u64::from_str on it is done by the driver; None = absent,
   Some None = present but not a u64, Some (Some n) = the number *)
Record rtxn := mkRT { rI : option (list N); rO : option (list N); rD : option (list N);
                      radds : list (list N); rrms : list (list N); rL : option (option N) }.

Section WithHash.
  Variable H : list N -> list N.

  (* sst::Setsum::insert(kvr): put frames [8] key ts_le value, del frames [9] key ts_le
     (8 and 9 are literals inside sst/src/setsum.rs put/del) *)
  Definition entry_pieces (e : entry) : list (list N) :=
    match ev e with
    | Some v => [[8]; ek e; le64_of (ets e); v]
    | None => [[9]; ek e; le64_of (ets e)]
    end.
  Definition builder_add (s : state) (e : entry) : state := insert_vectored H s (entry_pieces e).
  (* `let mut setsum = sst::Setsum::default(); setsum.insert(kvr); setsum.into_inner()` *)
  Definition entry_setsum (e : entry) : state := builder_add zero e.
  (* SstBuilder::new .. put/del .. seal: FinalBlock.setsum *)
  Definition builder_setsum (es : list entry) : state := fold_left builder_add es zero.
  Definition build_file (es : list entry) : bfile := mkBF (builder_setsum es) es.

  (* ---------------------------------------------------------------- manifest (mani crate) *)
  Record mani := mkM {
    mstrs : list state;                 (* Manifest.strs (a set) *)
    mI : state; mO : state; mD : state; (* Manifest.info 'I' 'O' 'D' (present after the first edit) *)
    mL : option N;                      (* Manifest.info 'L' *)
    mcur : list txn;                    (* edits of MANIFEST, oldest first *)
    mold : list (list txn)              (* MANIFEST.1, MANIFEST.2, ..: oldest first *)
  }.

  Definition set_rm (x : state) (l : list state) : list state := filter (fun y => negb (state_eqb x y)) l.
  Definition set_add (x : state) (l : list state) : list state :=
    if existsb (state_eqb x) l then l else l ++ [x].

  (* Manifest::to_edit *)
  Definition to_edit (m : mani) : txn := mkT (mI m) (mO m) (mD m) (mstrs m) [] (mL m).
  (* Manifest::rollover: MANIFEST becomes the next backup, the new MANIFEST starts with the roll-up *)
  Definition rollover (m : mani) : mani :=
    mkM (mstrs m) (mI m) (mO m) (mD m) (mL m) [to_edit m] (mold m ++ [mcur m]).
  (* Manifest::_apply: apply_edit (removals first, then additions, then info), append, maybe roll *)
  Definition apply_edit (m : mani) (t : txn) (roll : bool) : mani :=
    let strs := fold_left (fun s x => set_add x s) (tadds t) (fold_left (fun s x => set_rm x s) (trms t) (mstrs m)) in
    let m1 := mkM strs (tI t) (tO t) (tD t) (match tL t with Some l => Some l | None => mL m end)
                  (mcur m ++ [t]) (mold m) in
    if roll then rollover m1 else m1.

  (* ---------------------------------------------------------------- the store *)
  (* bdisk: every sst ever linked into sst/ (a file renamed to trash/ is still found by the
     verifier's get_cursor; unlinking is C08's subject).  hard_link onto an existing name keeps the
     existing file (ErrorKind::AlreadyExists is tolerated). *)
  Record bstore := mkBS { btree : list bfile; bman : mani; bdisk : list bfile }.
  Definition add_disk (d : list bfile) (f : bfile) : list bfile :=
    if existsb (fun g => state_eqb (bsum g) (bsum f)) d then d else d ++ [f].
  Definition add_disks (d : list bfile) (fs : list bfile) : list bfile := fold_left add_disk fs d.

  (* Version::compute_setsum *)
  Definition compute_setsum (t : list bfile) : state := sum (map bsum t).
  Definition names (t : list bfile) : list state := map bsum t.

  (* LsmTree::open on an empty directory: the zero edit; no rollover (MANIFEST did not exist) *)
  Definition zero_edit : txn := mkT zero zero zero [] [] None.
  Definition open_fresh : bstore := mkBS [] (mkM [] zero zero zero None [zero_edit] []) [].

  (* LsmTree::_ingest + apply_manifest_ingest *)
  Definition ingest (b : bstore) (f : bfile) (l : option N) (roll : bool) : res bstore :=
    let setsum := bsum f in
    bind (sub_r zero setsum) (fun acc =>                          (* acc -= setsum *)
    if existsb (state_eqb setsum) (names (btree b)) then Err CDuplicate else   (* target.exists() *)
    let tree_setsum := compute_setsum (btree b) in
    bind (sub_r tree_setsum acc) (fun output_setsum =>
    let t := mkT tree_setsum output_setsum acc [setsum] [] l in
    let m' := apply_edit (bman b) t roll in
    let tree' := btree b ++ [f] in                                (* Version::ingest *)
    if state_eqb (compute_setsum tree') output_setsum then Ok (mkBS tree' m' (add_disk (bdisk b) f)) else Panic)).

  (* KeyValueStore::_memtable_thread: [mem] are the entries in the order they were appended to the
     log (its running setsum is imm_setsum); the memtable cursor yields them sorted *)
  Definition flush (b : bstore) (mem : list entry) (l : N) (roll : bool) : res bstore :=
    let imm_setsum := builder_setsum mem in
    let ents := sort_entries mem in
    let got_setsum := builder_setsum ents in
    if negb (state_eqb got_setsum imm_setsum) then Err CMemtable
    else ingest b (build_file ents) (Some l) roll.

  Definition is_input (inputs : list state) (f : bfile) : bool := existsb (state_eqb (bsum f)) inputs.
  (* compaction_setup: `for input in compaction.inputs() { open_sst(input)?; cursors.push(..) }` *)
  Fixpoint open_inputs (t : list bfile) (inputs : list state) : option (list bfile) :=
    match inputs with
    | [] => Some []
    | x :: r =>
        match find (fun f => state_eqb (bsum f) x) t, open_inputs t r with
        | Some f, Some fs => Some (f :: fs)
        | _, _ => None
        end
    end.
  (* MergingCursor over the inputs' cursors *)
  Definition merged (fs : list bfile) : list entry := sort_entries (concat (map bents fs)).

  (* the multi-builder: cut the stream into files of the given lengths (the rest is the last file) *)
  Fixpoint cut (lens : list nat) (l : list entry) : list (list entry) :=
    match l with
    | [] => []
    | _ :: _ =>
        match lens with
        | [] => [l]
        | O :: lens' => cut lens' l
        | S n :: lens' => firstn (S n) l :: cut lens' (skipn (S n) l)
        end
    end.

  (* compaction_finish + apply_manifest_compaction *)
  Definition compaction_finish (b : bstore) (inputs : list state) (outs : list bfile)
             (input_setsum discard_setsum : state) (roll : bool) : res bstore :=
    let output_setsum := sum (map bsum outs) in
    if negb (state_eqb input_setsum (add_state output_setsum discard_setsum)) then Err CStoreBalance else
    let tree_setsum := compute_setsum (btree b) in
    bind (sub_r tree_setsum discard_setsum) (fun new_output =>
    let t := mkT tree_setsum new_output discard_setsum (map bsum outs) inputs None in
    let m' := apply_edit (bman b) t roll in
    let tree' := filter (fun f => negb (is_input inputs f)) (btree b) ++ outs in   (* apply_compaction *)
    if state_eqb (compute_setsum tree') new_output then Ok (mkBS tree' m' (add_disks (bdisk b) outs)) else Panic).

  (* perform_compaction (not a GC): every merged entry goes to the multi-builder *)
  Definition compact (b : bstore) (inputs : list state) (lens : list nat) (roll : bool) : res bstore :=
    match open_inputs (btree b) inputs with
    | None => Err CNotFound
    | Some fs =>
        let input_setsum := sum inputs in
        let outs := map build_file (cut lens (merged fs)) in
        compaction_finish b inputs outs input_setsum zero roll
    end.

  (* ---- garbage collection ---- *)
  Variable coll : list entry -> list (key * N).

  (* perform_garbage_collection's 'looping: retained entries go to the multi-builder, the others to
     the discard setsum; None = logic_error("gc iterator out of sync with inputs") *)
  Fixpoint gc_walk (gcs : list (key * N)) (main : list entry) (kept : list entry) (discard : state)
    : option (list entry * state) :=
    match main with
    | [] => Some (kept, discard)
    | e :: main' =>
        match gcs with
        | g :: gcs' =>
            match kcmp g (kr e) with
            | Lt => None
            | Eq => gc_walk gcs' main' (kept ++ [e]) discard
            | Gt => gc_walk gcs main' kept (add_state discard (entry_setsum e))
            end
        | [] => gc_walk [] main' kept (add_state discard (entry_setsum e))
        end
    end.

  Definition gc (b : bstore) (inputs : list state) (lens : list nat) (roll : bool) : res bstore :=
    match open_inputs (btree b) inputs with
    | None => Err CNotFound
    | Some fs =>
        let input_setsum := sum inputs in
        let main := merged fs in
        match gc_walk (coll main) main [] zero with
        | None => Err CGcLogic
        | Some (kept, discard) =>
            compaction_finish b inputs (map build_file (cut lens kept)) input_setsum discard roll
        end
    end.

  (* apply_moving_compaction: no manifest edit; the assert compares the tree setsum before and after *)
  Definition move (b : bstore) (input : state) : res bstore :=
    match open_inputs (btree b) [input] with
    | None => Err CNotFound
    | Some fs =>
        let tree' := filter (fun f => negb (is_input [input] f)) (btree b) ++ fs in
        if state_eqb (compute_setsum (btree b)) (compute_setsum tree') then Ok (mkBS tree' (bman b) (bdisk b)) else Panic
    end.

  (* exit + KeyValueStore::open: Manifest::open rolls the existing MANIFEST over; recover_one turns
     a non-empty log into an sst and records it unless the manifest already lists it; from_manifest
     rebuilds the tree from the listed files and compares its setsum with the manifest's 'O' *)
  Definition reopen (b : bstore) (log : list entry) (roll : bool) : res bstore :=
    let m1 := rollover (bman b) in
    match log with
    | [] =>
        if state_eqb (compute_setsum (btree b)) (mO m1) then Ok (mkBS (btree b) m1 (bdisk b)) else Err CTreeMani
    | _ :: _ =>
        let f := build_file (sort_entries log) in
        let setsum := bsum f in
        if existsb (state_eqb setsum) (mstrs m1) then
          if state_eqb (compute_setsum (btree b)) (mO m1) then Ok (mkBS (btree b) m1 (bdisk b)) else Err CTreeMani
        else
          let input := mO m1 in
          bind (sub_r zero setsum) (fun discard =>
          bind (sub_r input discard) (fun output =>
          let t := mkT input output discard [setsum] [] None in
          let m2 := apply_edit m1 t roll in
          let tree' := btree b ++ [f] in
          if state_eqb (compute_setsum tree') (mO m2) then Ok (mkBS tree' m2 (add_disk (bdisk b) f)) else Err CTreeMani))
    end.

  (* the same with ANY number of logs: KeyValueStore::recover folds recover_one over the log.<n>
     files in the order of their numbers; every non-empty log that the manifest does not list
     already becomes an sst and its own transaction, which starts from the output of the previous
     one (the manifest's 'O' is read inside recover_one); an empty log is moved to the trash without
     a transaction.  (Two non-empty logs are what a process leaves that dies while it flushes the
     immutable memtable after the new memtable's log took writes.) *)
  Definition recover_one (b : bstore) (log : list entry) (roll : bool) : res bstore :=
    match log with
    | [] => Ok b
    | _ :: _ =>
        let f := build_file (sort_entries log) in
        let setsum := bsum f in
        if existsb (state_eqb setsum) (mstrs (bman b)) then Ok b
        else
          let input := mO (bman b) in
          bind (sub_r zero setsum) (fun discard =>
          bind (sub_r input discard) (fun output =>
          let t := mkT input output discard [setsum] [] None in
          Ok (mkBS (btree b ++ [f]) (apply_edit (bman b) t roll) (add_disk (bdisk b) f))))
    end.
  Fixpoint recover (b : bstore) (logs : list (list entry * bool)) : res bstore :=
    match logs with
    | [] => Ok b
    | (log, roll) :: r => bind (recover_one b log roll) (fun b' => recover b' r)
    end.
  Definition reopen_logs (b : bstore) (logs : list (list entry * bool)) : res bstore :=
    bind (recover (mkBS (btree b) (rollover (bman b)) (bdisk b)) logs) (fun b' =>
    if state_eqb (compute_setsum (btree b')) (mO (bman b')) then Ok b' else Err CTreeMani).

  (* ---- histories ---- *)
  Inductive bop :=
  | BFlush (mem : list entry) (l : N) (roll : bool)
  | BIngest (ents : list entry) (roll : bool)      (* LsmTree::ingest of an external sst: no 'L' *)
  | BCompact (inputs : list state) (lens : list nat) (roll : bool)
  | BGc (inputs : list state) (lens : list nat) (roll : bool)
  | BMove (input : state)
  | BReopen (log : list entry) (roll : bool)
  | BReopenLogs (logs : list (list entry * bool)).

  Definition bstep (b : bstore) (o : bop) : res bstore :=
    match o with
    | BFlush mem l roll => flush b mem l roll
    | BIngest ents roll => ingest b (build_file ents) None roll
    | BCompact inputs lens roll => compact b inputs lens roll
    | BGc inputs lens roll => gc b inputs lens roll
    | BMove input => move b input
    | BReopen log roll => reopen b log roll
    | BReopenLogs logs => reopen_logs b logs
    end.

  Fixpoint brun (b : bstore) (ops : list bop) : res bstore :=
    match ops with
    | [] => Ok b
    | o :: r => bind (bstep b o) (fun b' => brun b' r)
    end.

  (* every fragment the store wrote, oldest first, the live MANIFEST last *)
  Definition fragments (b : bstore) : list (list txn) := mold (bman b) ++ [mcur (bman b)].

  (* What the model's acceptance of a step asks of its inputs.  File names are content-addressed:
     an output whose name is that of another file of the tree, or of a file on disk with other
     contents, would be a setsum collision or a duplicated entry set; the selector names distinct
     inputs; the merged input of a GC holds distinct (key, timestamp) pairs. *)
  Fixpoint entries_eqb (a b : list entry) : bool :=
    match a, b with
    | [], [] => true
    | x :: a', y :: b' =>
        Lsm.Model.key_eqb (ek x) (ek y) && (ets x =? ets y) &&
        match ev x, ev y with
        | None, None => true
        | Some p, Some q => Lsm.Model.key_eqb p q
        | _, _ => false
        end && entries_eqb a' b'
    | _, _ => false
    end.
  Definition out_ok (rest : list state) (d : list bfile) (f : bfile) : bool :=
    negb (existsb (state_eqb (bsum f)) rest) &&
    match find (fun g => state_eqb (bsum g) (bsum f)) d with
    | Some g => entries_eqb (bents g) (bents f)
    | None => true
    end.
  Fixpoint nodup_states (l : list state) : bool :=
    match l with [] => true | x :: r => negb (existsb (state_eqb x) r) && nodup_states r end.
  Fixpoint kstrictb (l : list entry) : bool :=
    match l with
    | [] => true
    | x :: r => match r with
                | [] => true
                | y :: _ => match kcmp (kr x) (kr y) with Lt => kstrictb r | _ => false end
                end
    end.
  Definition outs_ok (b : bstore) (inputs : list state) (outs : list bfile) : bool :=
    let rest := names (filter (fun f => negb (is_input inputs f)) (btree b)) in
    forallb (out_ok rest (bdisk b)) outs && nodup_states (map bsum outs) && nodup_states inputs.

  Fixpoint recover_accepted (b : bstore) (logs : list (list entry * bool)) : bool :=
    match logs with
    | [] => true
    | (log, roll) :: r =>
        match log with
        | [] => true
        | _ :: _ => let f := build_file (sort_entries log) in
                    existsb (state_eqb (bsum f)) (mstrs (bman b)) || outs_ok b [] [f]
        end &&
        match recover_one b log roll with Ok b' => recover_accepted b' r | _ => true end
    end.

  Definition accepted (b : bstore) (o : bop) : bool :=
    match o with
    | BFlush mem _ _ => outs_ok b [] [build_file (sort_entries mem)]
    | BIngest ents _ => outs_ok b [] [build_file ents]
    | BCompact inputs lens _ =>
        match open_inputs (btree b) inputs with
        | Some fs => outs_ok b inputs (map build_file (cut lens (merged fs)))
        | None => true
        end
    | BGc inputs lens _ =>
        match open_inputs (btree b) inputs with
        | Some fs =>
            let main := merged fs in
            kstrictb main &&
            match gc_walk (coll main) main [] zero with
            | Some (kept, _) => outs_ok b inputs (map build_file (cut lens kept))
            | None => true
            end
        | None => true
        end
    | BMove _ => true
    | BReopen [] _ => true
    | BReopen (e :: log) _ =>
        let f := build_file (sort_entries (e :: log)) in
        existsb (state_eqb (bsum f)) (mstrs (bman b)) || outs_ok b [] [f]
    | BReopenLogs logs => recover_accepted (mkBS (btree b) (rollover (bman b)) (bdisk b)) logs
    end.
  Fixpoint all_accepted (b : bstore) (ops : list bop) : bool :=
    match ops with
    | [] => true
    | o :: r => accepted b o && match bstep b o with Ok b' => all_accepted b' r | _ => true end
    end.

  (* ================================================================ the verifier *)
  (* setsum_from_info *)
  Definition from_info (v : option (list N)) : res state :=
    match v with
    | None => Err CMissing
    | Some cs => match from_hexdigest cs with Some s => Ok s | None => Err CBadInfo end
    end.

  (* `for added in edit.added() { computed_discard -= from_hexdigest(added)? }` *)
  Fixpoint sub_added (cd : state) (l : list (list N)) : res state :=
    match l with
    | [] => Ok cd
    | cs :: r =>
        match from_hexdigest cs with
        | None => Err CBadAdded
        | Some s => bind (sub_r cd s) (fun cd' => sub_added cd' r)
        end
    end.
  (* `for rmed in edit.rmed() { computed_discard += s; ssts_to_remove.push(s) }` *)
  Fixpoint add_rmed (cd : state) (rm : list state) (l : list (list N)) : res (state * list state) :=
    match l with
    | [] => Ok (cd, rm)
    | cs :: r =>
        match from_hexdigest cs with
        | None => Err CBadRmed
        | Some s => add_rmed (add_state cd s) (rm ++ [s]) r
        end
    end.
  (* the repair of F17: `for added .. { ssts_to_remove.retain(|sst| *sst != setsum) }` *)
  Fixpoint retain_not_added (rm : list state) (l : list (list N)) : list state :=
    match l with
    | [] => rm
    | cs :: r =>
        match from_hexdigest cs with
        | None => retain_not_added rm r
        | Some s => retain_not_added (filter (fun x => negb (state_eqb x s)) rm) r
        end
    end.

  (* files by name: get_cursor tries trash/, then sst/ *)
  Definition lookup (disk : list bfile) (x : state) : option (list entry) :=
    match find (fun f => state_eqb (bsum f) x) disk with Some f => Some (bents f) | None => None end.
  Fixpoint get_all (disk : list bfile) (l : list state) : res (list (list entry)) :=
    match l with
    | [] => Ok []
    | x :: r =>
        match lookup disk x with
        | None => Err CNotFound
        | Some es => bind (get_all disk r) (fun ess => Ok (es :: ess))
        end
    end.

  (* verify_gc's `while let (Some(i), Some(o))` and the two loops after it *)
  Fixpoint vgc_loop (gcs : list (key * N)) (input output : list entry) (cd : state) : res state :=
    match input with
    | [] =>
        match output with
        | [] => Ok cd
        | _ :: _ => Err CDataConstruction
        end
    | i :: input' =>
        match output with
        | [] => vgc_loop gcs input' [] (add_state cd (entry_setsum i))     (* the trailing while *)
        | o :: output' =>
            let gstate := match gcs with
                          | g :: _ => Some (kcmp g (kr i))
                          | [] => None
                          end in
            match gstate with
            | Some Lt => Err CGcLogic
            | _ =>
                let must_return := match gstate with Some Eq => true | _ => false end in
                match kcmp (kr i) (kr o) with
                | Lt =>
                    if must_return then Err CDataLoss
                    else vgc_loop gcs input' output (add_state cd (entry_setsum i))
                | Gt => Err CDataConstruction
                | Eq => vgc_loop (if must_return then tl gcs else gcs) input' output' cd
                end
            end
        end
    end.

  (* LsmVerifier::verify_gc; the digests were parsed by the caller already, so they re-parse *)
  Definition verify_gc (disk : list bfile) (rms adds : list state) (discard : state) : res unit :=
    bind (get_all disk rms) (fun ins =>
    bind (get_all disk adds) (fun outs =>
    let input := sort_entries (concat ins) in
    let output := sort_entries (concat outs) in
    bind (vgc_loop (coll input) input output zero) (fun computed =>
    if state_eqb computed discard then Ok tt else Err CGcDiscard))).

  (* verify_sst over the ssts an edit adds: recompute the setsum of the entries the file holds and
     compare it with the file's name *)
  Fixpoint verify_ssts (disk : list bfile) (l : list state) : res unit :=
    match l with
    | [] => Ok tt
    | x :: r =>
        match lookup disk x with
        | None => Err CNotFound
        | Some es => if state_eqb (builder_setsum es) x then verify_ssts disk r else Err CBadSst
        end
    end.

  Fixpoint parse_all (l : list (list N)) : list state :=
    match l with
    | [] => []
    | cs :: r => match from_hexdigest cs with Some s => s :: parse_all r | None => parse_all r end
    end.

  (* one iteration of verify_one's loop *)
  Record vst := mkV { vfirst : bool; vacc : state; vlast : option state; vrm : list state; vlogs : list N }.

  Definition vstep (disk : list bfile) (st : vst) (e : rtxn) : res vst :=
    bind (from_info (rI e)) (fun inputs =>
    bind (from_info (rO e)) (fun outputs =>
    bind (from_info (rD e)) (fun discard =>
    if vfirst st && negb (state_eqb outputs (vacc st)) then Err CNoContinue else
    if negb (vfirst st) && negb (state_eqb inputs (vacc st)) then Err CNoContinue else
    if negb (vfirst st) && negb (state_eqb inputs (add_state outputs discard)) then Err CNoBalance else
    bind (sub_added zero (radds e)) (fun cd1 =>
    bind (add_rmed cd1 (vrm st) (rrms e)) (fun '(computed, rm1) =>
    let rm2 := retain_not_added rm1 (radds e) in
    if vfirst st then Ok (mkV false (vacc st) (Some outputs) rm2 (vlogs st)) else
    bind (match rL e with
          | None => Ok (vlogs st)
          | Some (Some n) => Ok (vlogs st ++ [n])
          | Some None => Err CBadL
          end) (fun logs =>
    if negb (state_eqb discard computed) then Err CBadDiscard else
    bind (verify_ssts disk (parse_all (radds e))) (fun _ =>
    bind (if negb (state_eqb discard zero) && negb (match rrms e with [] => true | _ => false end)
          then verify_gc disk (parse_all (rrms e)) (parse_all (radds e)) discard else Ok tt) (fun _ =>
    bind (sub_r (vacc st) computed) (fun acc' =>
    Ok (mkV false acc' (Some outputs) rm2 logs)))))))))).

  Fixpoint vloop (disk : list bfile) (st : vst) (es : list rtxn) : res vst :=
    match es with
    | [] => Ok st
    | e :: r => bind (vstep disk st e) (fun st' => vloop disk st' r)
    end.

  (* LsmVerifier::verify_one(entry, acc) -> (acc, ssts_to_remove, logs_to_remove) *)
  Definition verify_one (disk : list bfile) (es : list rtxn) (acc : state) : res (state * list state * list N) :=
    bind (vloop disk (mkV true acc None [] []) es) (fun st =>
    match vlast st with
    | Some o => if state_eqb o (vacc st) then Ok (vacc st, vrm st, vlogs st) else Err CBadOutput
    | None => Err CBadOutput
    end).

  (* process_one threads the accumulated setsum through the verify manifest's 'O' from one
     fragment to the next: verify() over the fragments given, oldest first *)
  Fixpoint verify_frags (disk : list bfile) (frs : list (list rtxn)) (acc : state) : res state :=
    match frs with
    | [] => Ok acc
    | fr :: r => bind (verify_one disk fr acc) (fun '(acc', _, _) => verify_frags disk r acc')
    end.

  (* LsmVerifier::verify: list_mani_fragments, then `entries.pop(); entries.pop();` - the newest
     numbered fragment and the live MANIFEST are not judged by a pass *)
  Definition verify_pass (disk : list bfile) (frs : list (list rtxn)) (acc : state) : res state :=
    verify_frags disk (removelast (removelast frs)) acc.

  (* ManifestVerifier::verify(entry) *)
  Record mvst := mkMV { mfirst : bool; macc : state; mret : list (state * state * state) }.
  Definition mvstep (st : mvst) (e : rtxn) : res mvst :=
    bind (from_info (rI e)) (fun inputs =>
    bind (from_info (rO e)) (fun outputs =>
    bind (from_info (rD e)) (fun discard =>
    let acc := if mfirst st then outputs else macc st in
    let ret := if mfirst st then mret st else mret st ++ [(inputs, outputs, discard)] in
    if negb (mfirst st) && negb (state_eqb inputs acc) then Err CNoContinue else
    if negb (mfirst st) && negb (state_eqb inputs (add_state outputs discard)) then Err CNoBalance else
    bind (sub_added zero (radds e)) (fun cd1 =>
    bind (add_rmed cd1 [] (rrms e)) (fun '(computed, _) =>
    if mfirst st then Ok (mkMV false acc ret) else
    if negb (state_eqb discard computed) then Err CBadDiscard else
    bind (sub_r acc computed) (fun acc' => Ok (mkMV false acc' ret))))))).
  Fixpoint mvloop (st : mvst) (es : list rtxn) : res mvst :=
    match es with
    | [] => Ok st
    | e :: r => bind (mvstep st e) (fun st' => mvloop st' r)
    end.
  Definition manifest_verify (es : list rtxn) : res (list (state * state * state)) :=
    bind (mvloop (mkMV true zero []) es) (fun st => Ok (mret st)).

  (* ---- rendering: what the store writes is what the iterator reads back (C13) ---- *)
  Definition render (t : txn) : rtxn :=
    mkRT (Some (hexdigest (tI t))) (Some (hexdigest (tO t))) (Some (hexdigest (tD t)))
         (map hexdigest (tadds t)) (map hexdigest (trms t))
         (match tL t with Some n => Some (Some n) | None => None end).
  Definition rfragments (b : bstore) : list (list rtxn) := map (map render) (fragments b).
End WithHash.
