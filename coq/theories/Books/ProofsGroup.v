(* Books/ProofsGroup.v — the abelian group of canonical setsums as the bookkeeping uses it:
   sums of lists, subtraction as the inverse of addition, cancellation, permutation invariance,
   and the setsum a builder accumulates as the sum of its entries' setsums. *)
From Coq Require Import NArith List Bool Lia Permutation.
From Blue Require Import Gen.Const_Setsum Setsum.Model Setsum.Proofs Books.Model.
Import ListNotations.
Open Scope N_scope.

Lemma state_eqb_refl a : state_eqb a a = true.
Proof. induction a as [|x a IH]; cbn; [reflexivity|]. now rewrite N.eqb_refl, IH. Qed.

Lemma state_eqb_eq a b : state_eqb a b = true <-> a = b.
Proof.
  split; [|intros ->; apply state_eqb_refl].
  revert b; induction a as [|x a IH]; intros [|y b]; cbn; try discriminate; [reflexivity|].
  intros E. apply andb_prop in E. destruct E as [E1 E2]. apply N.eqb_eq in E1. now rewrite E1, (IH b E2).
Qed.

Lemma state_eqb_neq a b : state_eqb a b = false <-> a <> b.
Proof.
  split.
  - intros E Heq. subst. now rewrite state_eqb_refl in E.
  - intros Hne. destruct (state_eqb a b) eqn:E; [|reflexivity]. apply state_eqb_eq in E. contradiction.
Qed.

Lemma state_eq_dec (a b : state) : {a = b} + {a <> b}.
Proof. destruct (state_eqb a b) eqn:E; [left; now apply state_eqb_eq|right; now apply state_eqb_neq]. Qed.

(* ---- subtraction ---- *)
Lemma sub_r_ok a b : canonical a -> canonical b ->
  exists s, sub_r a b = Ok s /\ canonical s /\ add_state s b = a.
Proof.
  intros Ha Hb. unfold sub_r. rewrite sub_some by assumption.
  eexists. split; [reflexivity|]. split.
  - apply (sub_canonical a b); [assumption..|]. now apply sub_some.
  - apply add_sub; [assumption..|]. now apply sub_some.
Qed.

Lemma add_cancel_r a b c : canonical a -> canonical b -> canonical c ->
  add_state a c = add_state b c -> a = b.
Proof.
  intros Ha Hb Hc E.
  pose proof (sub_add a c Ha Hc) as E1. pose proof (sub_add b c Hb Hc) as E2.
  rewrite E in E1. congruence.
Qed.

Lemma add_cancel_l a b c : canonical a -> canonical b -> canonical c ->
  add_state c a = add_state c b -> a = b.
Proof. intros Ha Hb Hc. rewrite (add_comm c a), (add_comm c b). now apply add_cancel_r. Qed.

Lemma sub_r_spec a b s : canonical a -> canonical b -> sub_r a b = Ok s -> canonical s /\ add_state s b = a.
Proof.
  intros Ha Hb E. destruct (sub_r_ok a b Ha Hb) as (s' & E' & Hs & Hadd). rewrite E in E'. inversion E'; subst. tauto.
Qed.

Lemma sub_r_of_add a b s : canonical s -> canonical b -> add_state s b = a -> sub_r a b = Ok s.
Proof. intros Hs Hb <-. unfold sub_r. now rewrite sub_add. Qed.

Lemma sub_r_not_panic a b : canonical b -> sub_r a b <> Panic.
Proof. intros Hb. unfold sub_r. rewrite sub_some by assumption. discriminate. Qed.

(* a + b + c with the middle two swapped *)
Lemma add_swap a b c : canonical a -> canonical b -> canonical c ->
  add_state (add_state a b) c = add_state (add_state a c) b.
Proof. intros Ha Hb Hc. rewrite !add_assoc by assumption. f_equal. apply add_comm. Qed.

(* ---- sums ---- *)
Lemma sum_from_canonical l : forall acc, canonical acc -> Forall canonical l -> canonical (sum_from acc l).
Proof.
  induction l as [|x l IH]; intros acc Ha Hl; cbn; [assumption|].
  inversion Hl; subst. apply IH; [now apply add_canonical|assumption].
Qed.

Lemma sum_canonical l : Forall canonical l -> canonical (sum l).
Proof. apply sum_from_canonical, zero_canonical. Qed.

Lemma sum_from_add l : forall acc, canonical acc -> Forall canonical l ->
  sum_from acc l = add_state acc (sum l).
Proof.
  unfold sum. induction l as [|x l IH]; intros acc Ha Hl; cbn [sum_from fold_left].
  - now rewrite add_zero_r.
  - inversion Hl; subst.
    change (fold_left add_state l (add_state acc x)) with (sum_from (add_state acc x) l).
    change (fold_left add_state l (add_state zero x)) with (sum_from (add_state zero x) l).
    rewrite (IH (add_state acc x)) by (try apply add_canonical; assumption).
    rewrite (IH (add_state zero x)) by (try apply add_canonical; try apply zero_canonical; assumption).
    rewrite add_zero_l by assumption.
    apply add_assoc; try assumption. now apply sum_canonical.
Qed.

Lemma sum_cons x l : canonical x -> Forall canonical l -> sum (x :: l) = add_state x (sum l).
Proof.
  intros Hx Hl. unfold sum at 1. cbn [sum_from fold_left].
  change (fold_left add_state l (add_state zero x)) with (sum_from (add_state zero x) l).
  rewrite sum_from_add by (try apply add_canonical; try apply zero_canonical; assumption).
  now rewrite add_zero_l.
Qed.

Lemma sum_nil : sum [] = zero.
Proof. reflexivity. Qed.

Lemma sum_app l1 l2 : Forall canonical l1 -> Forall canonical l2 ->
  sum (l1 ++ l2) = add_state (sum l1) (sum l2).
Proof.
  intros H1 H2. induction H1 as [|x l1 Hx H1 IH]; cbn [app].
  - rewrite sum_nil. symmetry. now apply add_zero_l, sum_canonical.
  - rewrite !sum_cons by (try assumption; apply Forall_app; now split).
    rewrite IH. symmetry. apply add_assoc; [assumption|now apply sum_canonical..].
Qed.

Lemma sum_single x : canonical x -> sum [x] = x.
Proof. intros Hx. rewrite sum_cons by (auto). rewrite sum_nil. now apply add_zero_r. Qed.

Lemma Forall_perm {A} (P : A -> Prop) l l' : Permutation l l' -> Forall P l -> Forall P l'.
Proof. intros Hp Hl. apply Forall_forall. intros x Hx. rewrite Forall_forall in Hl. apply Hl. now apply Permutation_in with l'; [apply Permutation_sym|]. Qed.

Lemma sum_perm l l' : Permutation l l' -> Forall canonical l -> sum l = sum l'.
Proof.
  induction 1 as [|x l l' Hp IH|x y l|l l' l'' Hp1 IH1 Hp2 IH2]; intros Hl.
  - reflexivity.
  - inversion Hl; subst. rewrite !sum_cons; try assumption; [|now apply (Forall_perm _ l)]. now rewrite IH.
  - inversion Hl as [|? ? Hy Hl']; subst. inversion Hl' as [|? ? Hx Hl'']; subst.
    rewrite !sum_cons by (repeat constructor; assumption).
    rewrite <- !add_assoc by (try assumption; now apply sum_canonical). f_equal. apply add_comm.
  - rewrite IH1 by assumption. apply IH2. now apply (Forall_perm _ l).
Qed.

(* replacing one summand by a different one changes the sum *)
Lemma sum_replace_neq l1 x x' l2 : Forall canonical l1 -> Forall canonical l2 -> canonical x -> canonical x' ->
  x <> x' -> sum (l1 ++ x :: l2) <> sum (l1 ++ x' :: l2).
Proof.
  intros H1 H2 Hx Hx' Hne E.
  rewrite !sum_app, !sum_cons in E by (try assumption; constructor; assumption).
  apply add_cancel_l in E; try (apply add_canonical; try assumption; now apply sum_canonical); [|now apply sum_canonical].
  apply add_cancel_r in E; try assumption; [contradiction|now apply sum_canonical].
Qed.

(* `acc -= x` over a list *)
Lemma sub_all_ok l : forall acc, canonical acc -> Forall canonical l ->
  exists s, sub_all acc l = Ok s /\ canonical s /\ add_state s (sum l) = acc.
Proof.
  induction l as [|x l IH]; intros acc Ha Hl; cbn [sub_all].
  - exists acc. split; [reflexivity|]. split; [assumption|]. rewrite sum_nil. now apply add_zero_r.
  - inversion Hl; subst.
    destruct (sub_r_ok acc x Ha) as (a & Ea & Hca & Hadd); [assumption|].
    rewrite Ea. cbn [bind].
    destruct (IH a Hca) as (s & Es & Hcs & Hs); [assumption|].
    exists s. split; [assumption|]. split; [assumption|].
    rewrite sum_cons by assumption. rewrite <- Hadd, <- Hs.
    rewrite (add_comm x (sum l)). symmetry. apply add_assoc; [assumption|now apply sum_canonical|assumption].
Qed.

(* ---- the builder's setsum ---- *)
Section WithHash.
  Variable H : list N -> list N.
  Hypothesis H_ok : forall x, bytes_ok (H x) /\ length (H x) = 32%nat.

  Lemma entry_setsum_canonical e : canonical (entry_setsum H e).
  Proof. unfold entry_setsum, builder_add. apply insert_vectored_canonical; [exact H_ok|apply zero_canonical]. Qed.

  Lemma builder_add_entry s e : canonical s -> builder_add H s e = add_state s (entry_setsum H e).
  Proof.
    intros Hs. unfold entry_setsum, builder_add, insert_vectored.
    rewrite add_zero_l by (apply item_canonical; exact H_ok). reflexivity.
  Qed.

  Lemma builder_add_canonical s e : canonical s -> canonical (builder_add H s e).
  Proof. intros Hs. unfold builder_add. now apply insert_vectored_canonical. Qed.

  Lemma fold_builder es : forall s, canonical s ->
    fold_left (builder_add H) es s = sum_from s (map (entry_setsum H) es).
  Proof.
    induction es as [|e es IH]; intros s Hs; cbn [fold_left map sum_from]; [reflexivity|].
    rewrite IH by now apply builder_add_canonical. unfold sum_from. cbn [fold_left]. now rewrite builder_add_entry.
  Qed.

  Lemma entry_setsums_canonical es : Forall canonical (map (entry_setsum H) es).
  Proof. apply Forall_forall. intros x Hx. apply in_map_iff in Hx. destruct Hx as (e & <- & _). apply entry_setsum_canonical. Qed.

  (* the final-block setsum is the sum of the entries' setsums *)
  Lemma builder_setsum_sum es : builder_setsum H es = sum (map (entry_setsum H) es).
  Proof. unfold builder_setsum. now rewrite fold_builder by apply zero_canonical. Qed.

  Lemma builder_setsum_canonical es : canonical (builder_setsum H es).
  Proof. rewrite builder_setsum_sum. apply sum_canonical, entry_setsums_canonical. Qed.

  Lemma builder_setsum_perm es es' : Permutation es es' -> builder_setsum H es = builder_setsum H es'.
  Proof.
    intros Hp. rewrite !builder_setsum_sum. apply sum_perm; [now apply Permutation_map|apply entry_setsums_canonical].
  Qed.

  Lemma builder_setsum_app es es' :
    builder_setsum H (es ++ es') = add_state (builder_setsum H es) (builder_setsum H es').
  Proof. rewrite !builder_setsum_sum, map_app. apply sum_app; apply entry_setsums_canonical. Qed.

  Lemma builder_setsum_cons e es :
    builder_setsum H (e :: es) = add_state (entry_setsum H e) (builder_setsum H es).
  Proof.
    rewrite !builder_setsum_sum. cbn [map]. apply sum_cons; [apply entry_setsum_canonical|apply entry_setsums_canonical].
  Qed.

  (* the same value in the vocabulary of C14: the setsum of the framed items *)
  Definition frame (e : entry) : list N := concat (entry_pieces e).
  Lemma builder_setsum_setsum_of es : builder_setsum H es = setsum_of H (map frame es).
  Proof.
    unfold builder_setsum, setsum_of. generalize zero. induction es as [|e es IH]; intros s; cbn [fold_left map]; [reflexivity|].
    rewrite IH. f_equal. unfold builder_add, frame. apply insert_vectored_concat.
  Qed.

  (* the sum over several files is the setsum of all their entries *)
  Lemma sum_builder_concat (ess : list (list entry)) :
    sum (map (builder_setsum H) ess) = builder_setsum H (concat ess).
  Proof.
    induction ess as [|es ess IH]; cbn [map concat]; [reflexivity|].
    rewrite sum_cons; [|apply builder_setsum_canonical|].
    - now rewrite IH, builder_setsum_app.
    - apply Forall_forall. intros x Hx. apply in_map_iff in Hx. destruct Hx as (y & <- & _). apply builder_setsum_canonical.
  Qed.
End WithHash.
