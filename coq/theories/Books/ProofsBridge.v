(* Books/ProofsBridge.v — every accepted history of the C01 model (Lsm/History.v), mapped by
   Books/Bridge.v, runs in the Books model, keeps its invariant, and the Books tree holds exactly
   the files of the Lsm version (as a multiset of entry lists): the books balance along every
   history of the C01 model. *)
From Coq Require Import NArith List Bool Lia Arith Permutation.
From Blue Require Import Gen.Const_Setsum Setsum.Model Setsum.Proofs.
From Blue Require Lsm.Model Lsm.History.
From Blue Require Import Lsm.KeyOrder Lsm.SortLemmas Lsm.CompactProofs Lsm.GcProofs.
From Blue Require Import Books.Model Books.ProofsGroup Books.ProofsChain Books.ProofsVerify Books.ProofsGc Books.ProofsStore
                         Books.Bridge Books.ProofsBridgeLsm.
Import ListNotations.
Open Scope N_scope.

(* ------------------------------------------------------------------ lists *)
Lemma cut_concat (ls : list (list entry)) : Forall (fun l => l <> []) ls ->
  cut (map (@length entry) ls) (concat ls) = ls.
Proof.
  induction 1 as [|l ls Hl Hls IH]; [reflexivity|].
  destruct l as [|e l']; [congruence|]. cbn [map concat length].
  change ((e :: l') ++ concat ls) with (e :: (l' ++ concat ls)). cbn [cut].
  change (e :: l' ++ concat ls) with ((e :: l') ++ concat ls).
  assert (E1 : firstn (S (length l')) ((e :: l') ++ concat ls) = e :: l').
  { change (S (length l')) with (length (e :: l')). rewrite firstn_app, Nat.sub_diag, firstn_all. cbn [firstn]. now rewrite app_nil_r. }
  assert (E2 : skipn (S (length l')) ((e :: l') ++ concat ls) = concat ls).
  { change (S (length l')) with (length (e :: l')). rewrite skipn_app, Nat.sub_diag, skipn_all. reflexivity. }
  rewrite E1, E2, IH. reflexivity.
Qed.

Lemma nodup_map_inj {A B} (f : A -> B) l x y : NoDup (map f l) -> In x l -> In y l -> f x = f y -> x = y.
Proof.
  induction l as [|a l IH]; intros Hnd Hx Hy E; [destruct Hx|].
  cbn [map] in Hnd. inversion Hnd as [|? ? Hna Hnd']; subst.
  destruct Hx as [->|Hx], Hy as [->|Hy]; try reflexivity.
  - exfalso. apply Hna. rewrite E. now apply in_map.
  - exfalso. apply Hna. rewrite <- E. now apply in_map.
  - now apply IH.
Qed.

Lemma nodup_app_disjoint {A} (l1 l2 : list A) a : NoDup (l1 ++ l2) -> In a l1 -> ~ In a l2.
Proof.
  induction l1 as [|x l1 IH]; intros Hnd Ha; [destruct Ha|].
  cbn [app] in Hnd. inversion Hnd as [|? ? Hnx Hnd']; subst. destruct Ha as [->|Ha].
  - intros H2. apply Hnx. apply in_or_app. now right.
  - now apply IH.
Qed.

Lemma filter_all {A} (p : A -> bool) l : (forall x, In x l -> p x = true) -> filter p l = l.
Proof. induction l as [|x l IH]; intros Hp; cbn; [reflexivity|]. rewrite (Hp x (or_introl eq_refl)). f_equal. apply IH. intros y Hy. apply Hp. now right. Qed.

Lemma filter_none {A} (p : A -> bool) l : (forall x, In x l -> p x = false) -> filter p l = [].
Proof. induction l as [|x l IH]; intros Hp; cbn; [reflexivity|]. rewrite (Hp x (or_introl eq_refl)). apply IH. intros y Hy. apply Hp. now right. Qed.

Lemma filter_perm {A} (p : A -> bool) l l' : Permutation l l' -> Permutation (filter p l) (filter p l').
Proof.
  induction 1 as [|x l l' _ IH|x y l|l l' l'' _ IH1 _ IH2]; cbn [filter].
  - constructor.
  - destruct (p x); [now constructor|assumption].
  - destruct (p x), (p y); try apply perm_swap; reflexivity.
  - now apply Permutation_trans with (filter p l').
Qed.

Lemma map_filter_comm {A B} (f : A -> B) (p : A -> bool) (q : B -> bool) l :
  (forall x, In x l -> p x = q (f x)) -> map f (filter p l) = filter q (map f l).
Proof.
  induction l as [|x l IH]; intros Hpq; cbn [filter map]; [reflexivity|].
  rewrite <- (Hpq x (or_introl eq_refl)). destruct (p x); cbn [map]; [f_equal|]; apply IH; intros y Hy; apply Hpq; now right.
Qed.

(* ------------------------------------------------------------------ the KeyRef order, again *)
Lemma kcmp_antisym a b : kcmp b a = CompOpp (kcmp a b).
Proof.
  unfold kcmp. rewrite (lex_cmp_antisym (fst a) (fst b)).
  destruct (lex_cmp (fst a) (fst b)); cbn [CompOpp]; try reflexivity.
  rewrite (N.compare_antisym (snd a) (snd b)). now rewrite CompOpp_involutive.
Qed.

Lemma kcmp_eq a b : kcmp a b = Eq -> a = b.
Proof.
  unfold kcmp. destruct (lex_cmp (fst a) (fst b)) eqn:E; try discriminate.
  apply lex_cmp_eq in E. destruct (N.compare_spec (snd a) (snd b)); try discriminate. intros _.
  destruct a, b; cbn in *; now subst.
Qed.

Lemma keyrefs_eqb_eq a : forall b, keyrefs_eqb a b = true -> a = b.
Proof.
  induction a as [|x a IH]; intros [|y b]; cbn [keyrefs_eqb]; try discriminate; [reflexivity|].
  destruct (kcmp x y) eqn:E; try discriminate. intros Hr. apply kcmp_eq in E. subst. f_equal. now apply IH.
Qed.

Section WithHash.
  Variable H : list N -> list N.
  Hypothesis H_ok : forall x, bytes_ok (H x) /\ length (H x) = 32%nat.
  Variable coll : list entry -> list (key * N).
  Variable rolls : nat -> bool.

  Notation Inv := (ProofsStore.Inv H coll).

  (* ---------------------------------------------------------------- the GC walk on a subsequence *)
  Lemma gc_walk_drop_all l : forall k d, exists d', gc_walk H [] l k d = Some (k, d').
  Proof. induction l as [|e l IH]; intros k d; cbn [gc_walk]; [eauto|apply IH]. Qed.

  Lemma gc_walk_subseq E O : subseq O E -> kstrict E -> forall k d,
    exists d', gc_walk H (map kr O) E k d = Some (k ++ O, d').
  Proof.
    induction 1 as [l|a y b Hs IH|x a b Hs IH]; intros Hst k d.
    - cbn [map]. rewrite app_nil_r. apply gc_walk_drop_all.
    - destruct Hst as [Hy Hst]. cbn [gc_walk]. destruct a as [|o a']; cbn [map]; [rewrite app_nil_r; apply gc_walk_drop_all|].
      assert (Hlt : kcmp (kr y) (kr o) = Lt) by (apply Hy; apply (subseq_in _ _ Hs); now left).
      rewrite (kcmp_antisym (kr y) (kr o)), Hlt. cbn [CompOpp]. apply (IH Hst).
    - destruct Hst as [Hx Hst]. cbn [gc_walk map]. rewrite kcmp_refl.
      destruct (IH Hst (k ++ [x]) d) as (d' & E'). rewrite E'. rewrite <- app_assoc. eauto.
  Qed.

  (* ---------------------------------------------------------------- shapes of the Books steps *)
  Lemma sub_r_cases a b : (exists s, sub_r a b = Ok s) \/ sub_r a b = Panic.
  Proof. unfold sub_r. destruct (sub_state a b); eauto. Qed.

  Lemma ingest_shape b f l roll r : ingest b f l roll = r ->
    match r with
    | Ok b' => btree b' = btree b ++ [f]
    | Err c => c = CDuplicate /\ In (bsum f) (names (btree b))
    | Panic => True
    end.
  Proof.
    unfold ingest. intros <-.
    destruct (sub_r_cases zero (bsum f)) as [(acc & ->) | ->]; cbn [bind]; [|exact I].
    destruct (existsb (state_eqb (bsum f)) (names (btree b))) eqn:E; [split; [reflexivity|now apply existsb_state_In]|].
    destruct (sub_r_cases (compute_setsum (btree b)) acc) as [(o & ->) | ->]; cbn [bind]; [|exact I].
    destruct (state_eqb _ o); [reflexivity|exact I].
  Qed.

  Lemma flush_is_ingest b mem l roll :
    flush H b mem l roll = ingest b (build_file H (sort_entries mem)) (Some l) roll.
  Proof.
    unfold flush. rewrite (builder_setsum_perm H H_ok _ _ (Permutation_sym (sort_entries_perm mem))), state_eqb_refl. reflexivity.
  Qed.

  Lemma compaction_finish_shape b inputs outs i d roll r : compaction_finish b inputs outs i d roll = r ->
    match r with
    | Ok b' => btree b' = filter (fun f => negb (is_input inputs f)) (btree b) ++ outs
    | Err c => c = CStoreBalance
    | Panic => True
    end.
  Proof.
    unfold compaction_finish. intros <-. destruct (negb (state_eqb i _)); [reflexivity|].
    destruct (sub_r_cases (compute_setsum (btree b)) d) as [(o & ->) | ->]; cbn [bind]; [|exact I].
    destruct (state_eqb _ o); [reflexivity|exact I].
  Qed.

  Lemma reopen_shape b log roll b' : reopen H b log roll = Ok b' ->
    match log with
    | [] => btree b' = btree b
    | _ => existsb (state_eqb (builder_setsum H (sort_entries log))) (mstrs (bman b)) = false ->
           btree b' = btree b ++ [build_file H (sort_entries log)]
    end.
  Proof.
    unfold reopen. destruct log as [|e log].
    - destruct (state_eqb _ _); [|discriminate]. intros [= <-]. reflexivity.
    - intros E Hex.
      change (mstrs (rollover (bman b))) with (mstrs (bman b)) in E.
      change (bsum (build_file H (sort_entries (e :: log)))) with (builder_setsum H (sort_entries (e :: log))) in E.
      rewrite Hex in E.
      destruct (sub_r_cases zero (builder_setsum H (sort_entries (e :: log)))) as [(dd & Ed)|Ed]; rewrite Ed in E; cbn [bind] in E; [|discriminate].
      change (mO (rollover (bman b))) with (mO (bman b)) in E.
      destruct (sub_r_cases (mO (bman b)) dd) as [(o & Eo)|Eo]; rewrite Eo in E; cbn [bind] in E; [|discriminate].
      destruct (state_eqb _ _); [|discriminate]. injection E as <-. reflexivity.
  Qed.

  (* ---------------------------------------------------------------- the correspondence *)
  Definition R (s : LM.store) (b : bstore) : Prop :=
    Permutation (map LM.fents (LM.flat (LM.ver s))) (map bents (btree b)).

  Lemma tree_names_are_setsums b : Inv b -> forall g, In g (btree b) -> bsum g = builder_setsum H (bents g).
  Proof. intros I g Hg. pose proof (inv_files H coll b I) as F. rewrite Forall_forall in F. now apply F. Qed.

  (* the file found under the name of an entry list the tree holds is that entry list *)
  Lemma find_by_name b es : Inv b -> In es (map bents (btree b)) ->
    exists g, find (fun f => state_eqb (bsum f) (builder_setsum H es)) (btree b) = Some g /\ bents g = es.
  Proof.
    intros I Hin. apply in_map_iff in Hin. destruct Hin as (g & Eg & Hg).
    destruct (find (fun f => state_eqb (bsum f) (builder_setsum H es)) (btree b)) as [g'|] eqn:Ef.
    - exists g'. split; [reflexivity|]. destruct (find_state_some _ _ _ Ef) as [Hg' En].
      assert (g' = g); [|now subst].
      apply (nodup_map_inj bsum (btree b)); try assumption; [apply (inv_nodup H coll b I)|].
      rewrite En, (tree_names_are_setsums b I g Hg), Eg. reflexivity.
    - exfalso. pose proof (find_none _ _ Ef g Hg) as Hn. cbn in Hn.
      rewrite (tree_names_are_setsums b I g Hg), Eg, state_eqb_refl in Hn. discriminate.
  Qed.

  Lemma open_inputs_found b (ess : list (list entry)) : Inv b -> (forall es, In es ess -> In es (map bents (btree b))) ->
    exists fs, open_inputs (btree b) (map (builder_setsum H) ess) = Some fs /\ map bents fs = ess.
  Proof.
    intros I. induction ess as [|es ess IH]; intros Hin; cbn [map open_inputs]; [exists []; split; reflexivity|].
    destruct (find_by_name b es I (Hin es (or_introl eq_refl))) as (g & Eg & Hg). rewrite Eg.
    destruct (IH (fun x Hx => Hin x (or_intror Hx))) as (fs & Efs & Hfs). rewrite Efs.
    exists (g :: fs). split; [reflexivity|]. cbn [map]. now rewrite Hg, Hfs.
  Qed.

  (* removing the files named by Y's setsums from a tree that holds X ++ Y leaves X *)
  Lemma filter_names_perm b (X Y : list (list entry)) : Inv b ->
    Permutation (map bents (btree b)) (X ++ Y) ->
    Permutation X (map bents (filter (fun g => negb (is_input (map (builder_setsum H) Y) g)) (btree b))).
  Proof.
    intros I HP. set (inputs := map (builder_setsum H) Y).
    set (q := fun es : list entry => negb (existsb (state_eqb (builder_setsum H es)) inputs)).
    rewrite (map_filter_comm bents _ q).
    2:{ intros g Hg. unfold q, is_input. now rewrite (tree_names_are_setsums b I g Hg). }
    eapply Permutation_trans; [|apply filter_perm, Permutation_sym, HP]. rewrite filter_app.
    assert (Hnd : NoDup (map (builder_setsum H) (X ++ Y))).
    { eapply Permutation_NoDup; [apply Permutation_map, HP|]. rewrite map_map.
      rewrite (map_ext_in _ bsum); [apply (inv_nodup H coll b I)|]. intros g Hg. symmetry. now apply (tree_names_are_setsums b I). }
    rewrite map_app in Hnd.
    rewrite (filter_all q X), (filter_none q Y), app_nil_r; [reflexivity| |].
    - intros y Hy. unfold q. apply negb_false_iff, existsb_state_In. unfold inputs. now apply in_map.
    - intros x Hx. unfold q. apply negb_true_iff, existsb_state_notIn.
      apply (nodup_app_disjoint _ _ _ Hnd). now apply in_map.
  Qed.

  Lemma remove1_perm x : forall l l', remove1 x l = Some l' -> Permutation l (x :: l').
  Proof.
    induction l as [|y l IH]; intros l'; cbn [remove1]; [discriminate|].
    destruct (entries_eqb x y) eqn:E.
    - intros [= <-]. apply entries_eqb_eq in E. now subst.
    - destruct (remove1 x l) as [r'|]; [|discriminate]. intros [= <-].
      eapply Permutation_trans; [apply perm_skip, (IH r' eq_refl)|]. apply perm_swap.
  Qed.

  Lemma permb_sound a : forall b, permb a b = true -> Permutation a b.
  Proof.
    induction a as [|x a IH]; intros b; cbn [permb].
    - destruct b; [constructor|discriminate].
    - destruct (remove1 x b) as [b'|] eqn:E; [|discriminate]. intros Hp.
      eapply Permutation_trans; [apply perm_skip, (IH b' Hp)|]. apply Permutation_sym. now apply remove1_perm.
  Qed.

  Lemma outs_ok_single b f : outs_ok b [] [f] = true -> ~ In (bsum f) (names (btree b)) /\ disk_agrees (bdisk b) f.
  Proof.
    intros Hacc. destruct (outs_ok_spec _ _ _ Hacc) as (Hf & _ & _). inversion Hf as [|? ? [Hn Hag] _]; subst.
    split; [|assumption]. rewrite (filter_all _ (btree b)) in Hn; [assumption|]. intros g _. reflexivity.
  Qed.

  Lemma flat_map_fents (fs : list LM.file) : flat_map LM.fents fs = concat (map LM.fents fs).
  Proof. apply flat_map_concat_map. Qed.

  Lemma nonempty_all (outs : list LM.file) :
    forallb (fun f => match LM.fents f with [] => false | _ => true end) outs = true ->
    Forall (fun l : list entry => l <> []) (map LM.fents outs).
  Proof.
    intros Hf. apply Forall_forall. intros l Hl. apply in_map_iff in Hl. destruct Hl as (f & <- & Hin).
    rewrite forallb_forall in Hf. specialize (Hf f Hin). destruct (LM.fents f); [discriminate|discriminate].
  Qed.

  (* ---------------------------------------------------------------- one step *)
  Definition J (s : LM.store) (b : bstore) : Prop := Inv b /\ R s b /\ LM.ver s <> [].

  Lemma step_append s b f (g : bfile) v' : J s b -> bents g = LM.fents f ->
    Permutation (LM.flat v') (LM.flat (LM.ver s) ++ [f]) ->
    Permutation (map LM.fents (LM.flat v')) (map bents (btree b ++ [g])).
  Proof.
    intros (_ & HR & _) Eg HP. eapply Permutation_trans; [apply Permutation_map, HP|].
    rewrite !map_app. cbn [map]. rewrite Eg. apply Permutation_app_tail. exact HR.
  Qed.

  Lemma set_nth_nonempty {A} (x : A) v : v <> [] -> LM.set_nth 0 x v <> [].
  Proof. destruct v; [congruence|discriminate]. Qed.

  (* a compaction or GC of the Lsm model whose outputs are [outs], mapped *)
  Lemma compaction_bridge s b c outs (outs_b : list bfile) b' :
    J s b -> LM.valid_compactionb (LM.ver s) c = true ->
    btree b' = filter (fun g => negb (is_input (input_names H (LM.ver s) c) g)) (btree b) ++ outs_b ->
    map bents outs_b = map LM.fents outs ->
    R (LM.compact s c outs) b'.
  Proof.
    intros (I & HR & Hne) Hv Etree Eouts. unfold R, LM.compact. cbn [LM.ver]. rewrite Etree, map_app, Eouts.
    destruct (flat_compaction_perm (LM.ver s) c outs Hv) as (rest & P1 & P2).
    eapply Permutation_trans; [apply Permutation_map, P2|]. rewrite map_app. apply Permutation_app_tail.
    unfold input_names. rewrite <- (map_map LM.fents (builder_setsum H)).
    apply (filter_names_perm b (map LM.fents rest) (map LM.fents (LM.input_files (LM.ver s) c)) I).
    rewrite <- map_app. eapply Permutation_trans; [apply Permutation_sym, HR|]. now apply Permutation_map.
  Qed.

  Lemma inputs_open s b c : J s b -> LM.valid_compactionb (LM.ver s) c = true ->
    exists fs, open_inputs (btree b) (input_names H (LM.ver s) c) = Some fs /\
               merged fs = LM.sort_entries (LM.input_entries (LM.ver s) c).
  Proof.
    intros (I & HR & _) Hv. destruct (flat_compaction_perm (LM.ver s) c [] Hv) as (rest & P1 & _).
    destruct (open_inputs_found b (map LM.fents (LM.input_files (LM.ver s) c)) I) as (fs & Efs & Hfs).
    { intros es Hes. eapply Permutation_in; [exact HR|]. apply in_map_iff in Hes. destruct Hes as (f & <- & Hf).
      apply in_map. eapply Permutation_in; [apply Permutation_sym, P1|]. apply in_or_app. now right. }
    exists fs. unfold input_names. rewrite <- (map_map LM.fents (builder_setsum H)). split; [exact Efs|].
    unfold merged, LM.input_entries. now rewrite Hfs, flat_map_fents.
  Qed.

  Lemma bridge_step s b o k : J s b -> LH.acceptedb s o = true -> step_okb H rolls coll s b o k = true ->
    match bop_of H rolls s o k with
    | None => J (LH.step s o) b
    | Some bo => exists b', bstep H coll b bo = Ok b' /\ J (LH.step s o) b'
    end.
  Proof.
    intros HJ Hacc Hok. pose proof HJ as (I & HR & Hne). unfold step_okb in Hok.
    destruct o as [wb|id sz|c outs|f|c outs|id sz v' seq']; cbn [bop_of LH.step] in *.
    - (* write *) exact HJ.
    - (* flush *)
      unfold LM.flush. destruct (LM.mem s) as [|e m] eqn:Em; [exact HJ|].
      apply andb_prop in Hok. destruct Hok as [Hb _]. cbn [accepted] in Hb.
      destruct (outs_ok_single b _ Hb) as [Hfresh Hag].
      destruct (bstep_inv H H_ok coll b (BFlush (e :: m) (LM.seq s) (rolls k)) I Hb) as [(b' & E & I')|(cc & E & _)];
        cbn [bstep] in E; rewrite flush_is_ingest in E; pose proof (ingest_shape _ _ _ _ _ E) as Sh; cbn in Sh.
      + exists b'. cbn [bstep]. rewrite flush_is_ingest. split; [exact E|]. split; [exact I'|]. split.
        * unfold R. cbn [LM.ver]. rewrite Sh.
          apply (step_append s b (LM.mkF id (LM.sort_entries (e :: m)) sz)); [exact HJ|reflexivity|now apply flat_push_l0].
        * cbn [LM.ver]. now apply set_nth_nonempty.
      + destruct Sh as [_ Hdup]. contradiction.
    - (* compact *)
      apply andb_prop in Hok. destruct Hok as [Hb _].
      unfold LH.acceptedb in Hacc. apply andb_prop in Hacc. destruct Hacc as [Hv Hout].
      unfold LM.outputs_okb in Hout. apply andb_prop in Hout. destruct Hout as [Heq Hnonempty].
      apply CompactProofs.entries_eqb_eq in Heq.
      destruct (inputs_open s b c HJ Hv) as (fs & Efs & Em).
      assert (Ecut : cut (out_lens outs) (merged fs) = map LM.fents outs).
      { rewrite Em, <- Heq, flat_map_fents. unfold out_lens. rewrite <- (map_map LM.fents (@length entry)).
        apply cut_concat. now apply nonempty_all. }
      destruct (bstep_inv H H_ok coll b (BCompact (input_names H (LM.ver s) c) (out_lens outs) (rolls k)) I Hb) as [(b' & E & I')|(cc & E & _)];
        cbn [bstep] in E; unfold compact in E; rewrite Efs in E; pose proof (compaction_finish_shape _ _ _ _ _ _ _ E) as Sh; cbn in Sh.
      + exists b'. cbn [bstep]. unfold compact. rewrite Efs. split; [exact E|]. split; [exact I'|]. split.
        * apply (compaction_bridge s b c outs _ b' HJ Hv Sh). rewrite Ecut, map_map. cbn [bents build_file]. now rewrite map_id.
        * cbn [LM.compact LM.ver]. now apply apply_compaction_nonempty.
      + subst cc. exfalso. destruct (compact_inv H H_ok coll b _ _ _ I Hb) as [(b2 & E2 & _)|E2];
          unfold compact in E2; rewrite Efs in E2; congruence.
    - (* ingest *)
      apply andb_prop in Hok. destruct Hok as [Hb _]. cbn [accepted] in Hb.
      destruct (outs_ok_single b _ Hb) as [Hfresh Hag].
      destruct (bstep_inv H H_ok coll b (BIngest (LM.fents f) (rolls k)) I Hb) as [(b' & E & I')|(cc & E & _)];
        cbn [bstep] in E; pose proof (ingest_shape _ _ _ _ _ E) as Sh; cbn in Sh.
      + exists b'. cbn [bstep]. split; [exact E|]. split; [exact I'|]. split.
        * unfold R, LH.ingest. cbn [LM.ver]. rewrite Sh.
          apply (step_append s b f); [exact HJ|reflexivity|now apply flat_push_l0].
        * unfold LH.ingest. cbn [LM.ver]. now apply set_nth_nonempty.
      + destruct Sh as [_ Hdup]. contradiction.
    - (* gc *)
      apply andb_prop in Hok. destruct Hok as [Hb Hcoll]. apply keyrefs_eqb_eq in Hcoll.
      unfold LH.acceptedb in Hacc. apply andb_prop in Hacc. destruct Hacc as [Hacc Hout]. apply andb_prop in Hacc. destruct Hacc as [Hv _].
      unfold LM.gc_outputs_okb in Hout. apply andb_prop in Hout. destruct Hout as [Hout Hnonempty]. apply andb_prop in Hout. destruct Hout as [Hsub _].
      apply subseqb_sound in Hsub.
      destruct (inputs_open s b c HJ Hv) as (fs & Efs & Em).
      pose proof Hb as Hb0. cbn [accepted] in Hb0. rewrite Efs in Hb0. apply andb_prop in Hb0. destruct Hb0 as [Hstrict _].
      apply kstrictb_spec in Hstrict. rewrite Em in Hstrict.
      destruct (gc_walk_subseq _ _ Hsub Hstrict [] zero) as (dd & Ew). cbn [app] in Ew.
      assert (Ecut : cut (out_lens outs) (flat_map LM.fents outs) = map LM.fents outs).
      { rewrite flat_map_fents. unfold out_lens. rewrite <- (map_map LM.fents (@length entry)). apply cut_concat. now apply nonempty_all. }
      destruct (bstep_inv H H_ok coll b (BGc (input_names H (LM.ver s) c) (out_lens outs) (rolls k)) I Hb) as [(b' & E & I')|(cc & E & _)];
        cbn [bstep] in E; unfold gc in E; rewrite Efs, Em, Hcoll, Ew in E; pose proof (compaction_finish_shape _ _ _ _ _ _ _ E) as Sh; cbn in Sh.
      + exists b'. cbn [bstep]. unfold gc. rewrite Efs, Em, Hcoll, Ew. split; [exact E|]. split; [exact I'|]. split.
        * apply (compaction_bridge s b c outs _ b' HJ Hv Sh). rewrite Ecut, map_map. cbn [bents build_file]. now rewrite map_id.
        * cbn [LM.compact LM.ver]. now apply apply_compaction_nonempty.
      + subst cc. exfalso. destruct (gc_inv H H_ok coll b _ _ _ I Hb) as [(b2 & E2 & _)|[E2|E2]];
          unfold gc in E2; rewrite Efs, Em, Hcoll, Ew in E2; congruence.
    - (* reopen *)
      apply andb_prop in Hok. destruct Hok as [Hb Hok]. apply andb_prop in Hok. destruct Hok as [Hperm Hfreshlog].
      apply permb_sound in Hperm.
      unfold LH.acceptedb in Hacc. repeat (apply andb_prop in Hacc; destruct Hacc as [Hacc ?]).
      assert (Hv' : v' <> []) by (destruct v'; [discriminate|discriminate]).
      destruct (reopen_inv H H_ok coll b (LM.mem s) (rolls k) I Hb) as (b' & E & I').
      exists b'. cbn [bstep]. split; [exact E|]. split; [exact I'|]. split; [|exact Hv'].
      unfold R. cbn [LM.ver]. eapply Permutation_trans; [exact Hperm|].
      pose proof (reopen_shape b _ _ b' E) as Sh. unfold LM.flush. destruct (LM.mem s) as [|e m] eqn:Em.
      + rewrite Sh. exact HR.
      + apply negb_true_iff in Hfreshlog. rewrite (Sh Hfreshlog). cbn [LM.ver].
        apply (step_append s b (LM.mkF id (LM.sort_entries (e :: m)) sz)); [exact HJ|reflexivity|now apply flat_push_l0].
  Qed.

  (* ---------------------------------------------------------------- every history *)
  Lemma bridge_run ops : forall s b, J s b -> LH.all_accepted s ops = true -> bridge_okb H rolls coll s b ops = true ->
    exists b', brun H coll b (books_of H rolls s ops) = Ok b' /\ J (LH.run s ops) b'.
  Proof.
    induction ops as [|o ops IH]; intros s b HJ Hacc Hok; cbn [books_of brun LH.run]; [eauto|].
    cbn [LH.all_accepted] in Hacc. apply andb_prop in Hacc. destruct Hacc as [Ha Hr].
    cbn [bridge_okb] in Hok. apply andb_prop in Hok. destruct Hok as [Hs Hrest].
    pose proof (bridge_step s b o (length ops) HJ Ha Hs) as St.
    destruct (bop_of H rolls s o (length ops)) as [bo|]; cbn [app].
    - destruct St as (b1 & E1 & J1). cbn [brun]. rewrite E1 in *. cbn [bind]. now apply IH.
    - now apply IH.
  Qed.
End WithHash.
