(* Books/ProofsChain.v — what "the books balance" means for a manifest log (chains of
   transactions over fragments), the manifest's set operations, and how one applied edit extends a
   balanced log. *)
From Coq Require Import NArith List Bool Lia Permutation.
From Blue Require Import Gen.Const_Setsum Setsum.Model Setsum.Proofs Books.Model Books.ProofsGroup.
Import ListNotations.
Open Scope N_scope.

(* ------------------------------------------------------------------ balanced logs *)
Definition txn_canon (t : txn) : Prop :=
  canonical (tI t) /\ canonical (tO t) /\ canonical (tD t) /\ Forall canonical (tadds t) /\ Forall canonical (trms t).

(* D = sum(removed) - sum(added), stated without subtraction *)
Definition disc_ok (t : txn) : Prop := add_state (tD t) (sum (tadds t)) = sum (trms t).

(* one transaction continues from acc: I = acc, I = O + D, D is the discard of its adds/removes *)
Definition txn_ok (acc : state) (t : txn) : Prop :=
  tI t = acc /\ tI t = add_state (tO t) (tD t) /\ disc_ok t.

Fixpoint chain (acc : state) (ts : list txn) : Prop :=
  match ts with
  | [] => True
  | t :: r => txn_ok acc t /\ chain (tO t) r
  end.

Definition last_O (acc : state) (ts : list txn) : state := fold_left (fun _ t => tO t) ts acc.

(* a fragment: the first edit (zero edit or roll-up) carries the accumulated O; the rest chain *)
Definition frag_ok (acc : state) (fr : list txn) : Prop :=
  match fr with
  | [] => False
  | t0 :: r => tO t0 = acc /\ chain acc r
  end.
Definition frag_end (fr : list txn) : state := last_O zero fr.

Fixpoint frags_ok (acc : state) (frs : list (list txn)) : Prop :=
  match frs with
  | [] => True
  | fr :: r => frag_ok acc fr /\ frags_ok (frag_end fr) r
  end.
Definition log_end (acc : state) (frs : list (list txn)) : state := fold_left (fun _ fr => frag_end fr) frs acc.

Lemma last_O_app acc ts t : last_O acc (ts ++ [t]) = tO t.
Proof. unfold last_O. now rewrite fold_left_app. Qed.

Lemma chain_app acc ts ts' : chain acc (ts ++ ts') <-> chain acc ts /\ chain (last_O acc ts) ts'.
Proof.
  revert acc; induction ts as [|t ts IH]; intros acc; cbn [app chain last_O fold_left].
  - tauto.
  - rewrite IH. unfold last_O. tauto.
Qed.

Lemma frag_end_cons t0 r : frag_end (t0 :: r) = last_O (tO t0) r.
Proof. reflexivity. Qed.

Lemma frag_ok_snoc acc fr t : fr <> [] ->
  (frag_ok acc (fr ++ [t]) <-> frag_ok acc fr /\ txn_ok (frag_end fr) t).
Proof.
  destruct fr as [|t0 r]; [congruence|]. intros _. cbn [app frag_ok]. rewrite chain_app. cbn [chain].
  rewrite frag_end_cons. split.
  - intros (E & Hc & Ht & _). subst acc. tauto.
  - intros ((E & Hc) & Ht). subst acc. tauto.
Qed.

Lemma frag_end_snoc fr t : frag_end (fr ++ [t]) = tO t.
Proof. apply last_O_app. Qed.

Lemma frags_ok_app acc frs frs' : frags_ok acc (frs ++ frs') <-> frags_ok acc frs /\ frags_ok (log_end acc frs) frs'.
Proof.
  revert acc; induction frs as [|fr frs IH]; intros acc; cbn [app frags_ok log_end fold_left].
  - tauto.
  - rewrite IH. unfold log_end. tauto.
Qed.

Lemma log_end_snoc acc frs fr : log_end acc (frs ++ [fr]) = frag_end fr.
Proof. unfold log_end. now rewrite fold_left_app. Qed.

Lemma frags_ok_snoc acc frs fr : frags_ok acc (frs ++ [fr]) <-> frags_ok acc frs /\ frag_ok (log_end acc frs) fr.
Proof. rewrite frags_ok_app. cbn [frags_ok]. tauto. Qed.

(* ------------------------------------------------------------------ the manifest's string set *)
Lemma existsb_state_In x l : existsb (state_eqb x) l = true <-> In x l.
Proof.
  rewrite existsb_exists. split.
  - intros (y & Hy & E). apply state_eqb_eq in E. now subst.
  - intros Hx. exists x. split; [assumption|apply state_eqb_refl].
Qed.

Lemma existsb_state_notIn x l : existsb (state_eqb x) l = false <-> ~ In x l.
Proof.
  split.
  - intros E Hin. apply existsb_state_In in Hin. congruence.
  - intros Hn. destruct (existsb (state_eqb x) l) eqn:E; [|reflexivity]. apply existsb_state_In in E. contradiction.
Qed.

Lemma in_set_rm x y l : In x (set_rm y l) <-> In x l /\ x <> y.
Proof.
  unfold set_rm. rewrite filter_In. split; intros [H1 H2]; split; try assumption.
  - apply negb_true_iff, state_eqb_neq in H2. congruence.
  - apply negb_true_iff, state_eqb_neq. congruence.
Qed.

Lemma in_set_add x y l : In x (set_add y l) <-> x = y \/ In x l.
Proof.
  unfold set_add. destruct (existsb (state_eqb y) l) eqn:E.
  - apply existsb_state_In in E. split; [tauto|]. intros [->|Hx]; assumption.
  - rewrite in_app_iff. cbn [In]. split; [intros [Hx|[->|[]]]; tauto|intros [->|Hx]; tauto].
Qed.

Lemma nodup_app {A} (l l' : list A) : NoDup l -> NoDup l' -> (forall x, In x l -> ~ In x l') -> NoDup (l ++ l').
Proof.
  induction l as [|a l IH]; intros Hl Hl' Hd; cbn [app]; [assumption|].
  inversion Hl; subst. constructor.
  - rewrite in_app_iff. intros [Ha|Ha]; [contradiction|]. apply (Hd a); [now left|assumption].
  - apply IH; [assumption..|]. intros x Hx. apply Hd. now right.
Qed.

Lemma nodup_set_rm y l : NoDup l -> NoDup (set_rm y l).
Proof. apply NoDup_filter. Qed.

Lemma nodup_set_add y l : NoDup l -> NoDup (set_add y l).
Proof.
  intros Hl. unfold set_add. destruct (existsb (state_eqb y) l) eqn:E; [assumption|].
  apply existsb_state_notIn in E. apply nodup_app; [assumption|repeat constructor; intros []|].
  intros x Hx [<-|[]]. contradiction.
Qed.

Lemma in_fold_set_rm rms : forall l x, In x (fold_left (fun s y => set_rm y s) rms l) <-> In x l /\ ~ In x rms.
Proof.
  induction rms as [|y rms IH]; intros l x; cbn [fold_left In]; [tauto|].
  rewrite IH, in_set_rm. split; [intros [[H1 H2] H3]; split; [assumption|intros [->|H4]; tauto]|].
  intros [H1 H2]. split; [split; [assumption|intros ->; tauto]|tauto].
Qed.

Lemma in_fold_set_add adds : forall l x, In x (fold_left (fun s y => set_add y s) adds l) <-> In x adds \/ In x l.
Proof.
  induction adds as [|y adds IH]; intros l x; cbn [fold_left In]; [tauto|].
  rewrite IH, in_set_add. split; [intros [H1|[->|H2]]; tauto|intros [[<-|H1]|H2]; tauto].
Qed.

Lemma nodup_fold_set_rm rms : forall l, NoDup l -> NoDup (fold_left (fun s y => set_rm y s) rms l).
Proof. induction rms as [|y rms IH]; intros l Hl; cbn [fold_left]; [assumption|]. now apply IH, nodup_set_rm. Qed.

Lemma nodup_fold_set_add adds : forall l, NoDup l -> NoDup (fold_left (fun s y => set_add y s) adds l).
Proof. induction adds as [|y adds IH]; intros l Hl; cbn [fold_left]; [assumption|]. now apply IH, nodup_set_add. Qed.

(* ------------------------------------------------------------------ one applied edit *)
Definition new_strs (m : mani) (t : txn) : list state :=
  fold_left (fun s x => set_add x s) (tadds t) (fold_left (fun s x => set_rm x s) (trms t) (mstrs m)).

Lemma apply_edit_fields m t roll :
  let m' := apply_edit m t roll in
  mstrs m' = new_strs m t /\ mI m' = tI t /\ mO m' = tO t /\ mD m' = tD t.
Proof. unfold apply_edit, rollover, new_strs. destruct roll; cbn; tauto. Qed.

Lemma in_new_strs m t x : In x (new_strs m t) <-> In x (tadds t) \/ (In x (mstrs m) /\ ~ In x (trms t)).
Proof. unfold new_strs. now rewrite in_fold_set_add, in_fold_set_rm. Qed.

Lemma nodup_new_strs m t : NoDup (mstrs m) -> NoDup (new_strs m t).
Proof. intros Hn. unfold new_strs. now apply nodup_fold_set_add, nodup_fold_set_rm. Qed.

Definition mfragments (m : mani) : list (list txn) := mold m ++ [mcur m].

Definition log_ok (m : mani) : Prop :=
  frags_ok zero (mfragments m) /\ mcur m <> [] /\ frag_end (mcur m) = mO m.

Lemma rollover_log_ok m : log_ok m -> log_ok (rollover m).
Proof.
  intros (Hf & Hne & He). unfold log_ok, mfragments, rollover. cbn [mold mcur mO].
  split; [|split; [discriminate|reflexivity]].
  apply frags_ok_snoc. split; [exact Hf|].
  rewrite log_end_snoc. unfold to_edit. cbn [frag_ok tO chain]. split; [now rewrite He|exact I].
Qed.

Lemma apply_edit_log_ok m t roll : log_ok m -> txn_ok (mO m) t -> log_ok (apply_edit m t roll).
Proof.
  intros (Hf & Hne & He) Ht.
  set (m1 := mkM (new_strs m t) (tI t) (tO t) (tD t) (match tL t with Some l => Some l | None => mL m end) (mcur m ++ [t]) (mold m)).
  assert (H1 : log_ok m1).
  { unfold log_ok, mfragments, m1. cbn [mold mcur mO].
    split; [|split; [destruct (mcur m); discriminate|apply frag_end_snoc]].
    unfold mfragments in Hf. apply frags_ok_snoc in Hf. destruct Hf as [Hf1 Hf2].
    apply frags_ok_snoc. split; [assumption|].
    apply frag_ok_snoc; [assumption|]. split; [assumption|]. now rewrite He. }
  unfold apply_edit. fold (new_strs m t). fold m1. destruct roll; [now apply rollover_log_ok|assumption].
Qed.

Lemma apply_edit_fragments_canon m t roll :
  Forall (Forall txn_canon) (mfragments m) -> txn_canon t -> Forall canonical (new_strs m t) ->
  Forall (Forall txn_canon) (mfragments (apply_edit m t roll)).
Proof.
  intros Hc Ht Hs. unfold mfragments in *. apply Forall_app in Hc. destruct Hc as [Hc1 Hc2].
  inversion Hc2 as [|? ? Hcur _]; subst.
  assert (Hcur' : Forall txn_canon (mcur m ++ [t])) by (apply Forall_app; split; [assumption|now constructor]).
  unfold apply_edit. fold (new_strs m t). destruct roll; cbn [rollover mold mcur].
  - apply Forall_app. split; [apply Forall_app; split; [assumption|now constructor]|].
    constructor; [|constructor]. constructor; [|constructor].
    destruct Ht as (H1 & H2 & H3 & _). unfold txn_canon, to_edit. cbn. repeat split; try assumption. constructor.
  - apply Forall_app. split; [assumption|now constructor].
Qed.

(* the same for any predicate on edits that the roll-up satisfies *)
Lemma apply_edit_forall (P : txn -> Prop) m t roll :
  Forall (Forall P) (mfragments m) -> P t ->
  P (mkT (tI t) (tO t) (tD t) (new_strs m t) [] (match tL t with Some l => Some l | None => mL m end)) ->
  Forall (Forall P) (mfragments (apply_edit m t roll)).
Proof.
  intros Hc Ht Hroll. unfold mfragments in *. apply Forall_app in Hc. destruct Hc as [Hc1 Hc2].
  inversion Hc2 as [|? ? Hcur _]; subst.
  assert (Hcur' : Forall P (mcur m ++ [t])) by (apply Forall_app; split; [assumption|now constructor]).
  unfold apply_edit. fold (new_strs m t). destruct roll; cbn [rollover mold mcur].
  - apply Forall_app. split; [apply Forall_app; split; [assumption|now constructor]|].
    constructor; [|constructor]. constructor; [exact Hroll|constructor].
  - apply Forall_app. split; [assumption|now constructor].
Qed.

Lemma rollover_forall (P : txn -> Prop) m :
  Forall (Forall P) (mfragments m) -> P (to_edit m) -> Forall (Forall P) (mfragments (rollover m)).
Proof.
  intros Hc Hr. unfold mfragments, rollover. cbn [mold mcur].
  apply Forall_app. split; [assumption|]. constructor; [|constructor]. constructor; [assumption|constructor].
Qed.

Lemma rollover_fragments_canon m :
  Forall (Forall txn_canon) (mfragments m) -> canonical (mI m) -> canonical (mO m) -> canonical (mD m) ->
  Forall canonical (mstrs m) -> Forall (Forall txn_canon) (mfragments (rollover m)).
Proof.
  intros Hc HI HO HD Hs. unfold mfragments, rollover. cbn [mold mcur].
  apply Forall_app. split; [assumption|]. constructor; [|constructor]. constructor; [|constructor].
  unfold txn_canon, to_edit. cbn. repeat split; try assumption. constructor.
Qed.

(* ------------------------------------------------------------------ the algebra of a commit *)
(* I = T, O = T - D, and the tree's names change by exactly the edit's adds and removes:
   the new tree's setsum is O *)
Lemma commit_balance T O D adds rms T' :
  canonical T -> canonical D -> canonical T' -> Forall canonical adds -> Forall canonical rms ->
  sub_r T D = Ok O ->
  add_state D (sum adds) = sum rms ->
  add_state T' (sum rms) = add_state T (sum adds) ->
  T' = O /\ canonical O /\ T = add_state O D.
Proof.
  intros HT HD HT' Ha Hr Hsub Hdisc Hcons.
  destruct (sub_r_spec T D O HT HD Hsub) as [HO HOD].
  split; [|split; [assumption|now symmetry]].
  apply (add_cancel_r T' O (sum rms)); [assumption|assumption|now apply sum_canonical|].
  rewrite Hcons, <- HOD, <- Hdisc.
  apply add_assoc; [assumption|assumption|now apply sum_canonical].
Qed.
