(* Books/ProofsRaw.v — the digit-tamper theorem on the hex STRINGS the manifest holds.
   The verifier sees an edit as strings; what it computes depends only on what the strings parse
   to.  A rendered edit in which one character of one digest string (I, O, D, the k-th added or
   the k-th removed digest) is replaced by a hex digit of another value parses to an edit that
   differs from the original in exactly that digest (ProofsHex), i.e. to a `tampered` edit, which
   the verifier rejects (ProofsVerify). *)
From Coq Require Import NArith Arith List Bool Lia.
From Blue Require Import Gen.Const_Setsum Setsum.Model Setsum.Proofs.
From Blue Require Import Books.Model Books.ProofsGroup Books.ProofsChain Books.ProofsVerify Books.ProofsHex.
Import ListNotations.
Open Scope N_scope.

Definition parses (cs : list N) (s : state) : Prop := from_hexdigest cs = Some s.

(* what a raw edit parses to *)
Definition parses_to (e : rtxn) (t : txn) : Prop :=
  (exists ci, rI e = Some ci /\ parses ci (tI t)) /\
  (exists co, rO e = Some co /\ parses co (tO t)) /\
  (exists cd, rD e = Some cd /\ parses cd (tD t)) /\
  Forall2 parses (radds e) (tadds t) /\ Forall2 parses (rrms e) (trms t) /\
  rL e = match tL t with Some n => Some (Some n) | None => None end.

Lemma render_parses_to t : txn_canon t -> parses_to (render t) t.
Proof.
  intros (HI & HO & HD & Ha & Hr). unfold parses_to, render, parses. cbn [rI rO rD radds rrms rL].
  repeat split; try (eexists; split; [reflexivity|now apply from_hexdigest_hexdigest]); try reflexivity.
  - induction Ha as [|x l Hx Hl IH]; cbn [map]; constructor; [now apply from_hexdigest_hexdigest|assumption].
  - induction Hr as [|x l Hx Hl IH]; cbn [map]; constructor; [now apply from_hexdigest_hexdigest|assumption].
Qed.

Lemma parses_to_canon e t : parses_to e t -> txn_canon t.
Proof.
  intros ((ci & _ & Pi) & (co & _ & Po) & (cd & _ & Pd) & Pa & Pr & _). unfold txn_canon, parses in *.
  repeat split; try (eapply from_hexdigest_canonical; eassumption).
  - induction Pa; constructor; [eapply from_hexdigest_canonical; eassumption|assumption].
  - induction Pr; constructor; [eapply from_hexdigest_canonical; eassumption|assumption].
Qed.

Section WithHash.
  Variable H : list N -> list N.
  Variable coll : list entry -> list (key * N).

  Lemma sub_added_parsed ra l : Forall2 parses ra l -> forall cd, sub_added cd ra = sub_all cd l.
  Proof.
    induction 1 as [|cs x ra l Px Pl IH]; intros cd; cbn [sub_added sub_all]; [reflexivity|].
    unfold parses in Px. rewrite Px.
    destruct (sub_r cd x); cbn [bind]; [apply IH|reflexivity..].
  Qed.

  Lemma add_rmed_parsed rr : forall l, Forall2 parses rr l -> forall cd rm,
    add_rmed cd rm rr = Ok (sum_from cd l, rm ++ l).
  Proof.
    induction 1 as [|cs x rr l Px Pl IH]; intros cd rm; cbn [add_rmed sum_from fold_left].
    - now rewrite app_nil_r.
    - unfold parses in Px. rewrite Px, IH. unfold sum_from. now rewrite <- app_assoc.
  Qed.

  Lemma retain_parsed ra : forall l, Forall2 parses ra l -> forall rm, retain_not_added rm ra = retain_states rm l.
  Proof.
    unfold retain_states. induction 1 as [|cs x ra l Px Pl IH]; intros rm; cbn [retain_not_added fold_left]; [reflexivity|].
    unfold parses in Px. rewrite Px. apply IH.
  Qed.

  Lemma parse_all_parsed rl : forall l, Forall2 parses rl l -> parse_all rl = l.
  Proof.
    induction 1 as [|cs x rl l Px Pl IH]; cbn [parse_all]; [reflexivity|]. unfold parses in Px. now rewrite Px, IH.
  Qed.

  Lemma Forall2_nil_iff {A B} (P : A -> B -> Prop) l l' : Forall2 P l l' -> (l = [] <-> l' = []).
  Proof. intros F. destruct F; split; intros E; try reflexivity; discriminate. Qed.

  (* the verifier's step depends on the strings only through what they parse to *)
  Lemma vstep_parsed disk st e t : parses_to e t -> vstep H coll disk st e = pstep H coll disk st t.
  Proof.
    intros ((ci & Ei & Pi) & (co & Eo & Po) & (cd & Ed & Pd) & Pa & Pr & El). unfold parses in *.
    unfold vstep, pstep. rewrite Ei, Eo, Ed. unfold from_info. rewrite Pi, Po, Pd. cbn [bind].
    destruct (vfirst st && negb (state_eqb (tO t) (vacc st))); [reflexivity|].
    destruct (negb (vfirst st) && negb (state_eqb (tI t) (vacc st))); [reflexivity|].
    destruct (negb (vfirst st) && negb (state_eqb (tI t) (add_state (tO t) (tD t)))); [reflexivity|].
    rewrite (sub_added_parsed (radds e) (tadds t) Pa zero).
    destruct (sub_all zero (tadds t)) as [cd1| |]; cbn [bind]; [|reflexivity..].
    rewrite (add_rmed_parsed (rrms e) (trms t) Pr). cbn [bind]. rewrite (retain_parsed (radds e) (tadds t) Pa).
    destruct (vfirst st); [reflexivity|].
    rewrite El.
    assert (Elogs : match (match tL t with Some n => Some (Some n) | None => None end) with
                    | None => Ok (vlogs st)
                    | Some (Some n) => Ok (vlogs st ++ [n])
                    | Some None => Err CBadL
                    end = Ok (match tL t with None => vlogs st | Some n => vlogs st ++ [n] end))
      by (destruct (tL t); reflexivity).
    rewrite Elogs. cbn [bind].
    destruct (negb (state_eqb (tD t) (sum_from cd1 (trms t)))); [reflexivity|].
    rewrite (parse_all_parsed _ _ Pa), (parse_all_parsed _ _ Pr).
    destruct (verify_ssts H disk (tadds t)) as [[]| |]; cbn [bind]; [|reflexivity..].
    assert (Eg : (negb (state_eqb (tD t) zero) && negb (match rrms e with [] => true | _ :: _ => false end)) = gc_needed t).
    { unfold gc_needed. destruct Pr; reflexivity. }
    rewrite Eg. reflexivity.
  Qed.

  Lemma vloop_parsed disk es ts : Forall2 parses_to es ts -> forall st, vloop H coll disk st es = ploop H coll disk st ts.
  Proof.
    induction 1 as [|e t es ts Pe Pes IH]; intros st; cbn [vloop ploop]; [reflexivity|].
    rewrite (vstep_parsed disk st e t Pe). destruct (pstep H coll disk st t); cbn [bind]; [apply IH|reflexivity..].
  Qed.

  Lemma verify_one_parsed disk es ts acc : Forall2 parses_to es ts -> Forall txn_canon ts ->
    verify_one H coll disk es acc = verify_one H coll disk (map render ts) acc.
  Proof.
    intros P Hc. unfold verify_one. rewrite (vloop_parsed disk es ts P). now rewrite vloop_render.
  Qed.

  Lemma render_all_parse ts : Forall txn_canon ts -> Forall2 parses_to (map render ts) ts.
  Proof. induction 1 as [|t ts Ht Hts IH]; cbn [map]; constructor; [now apply render_parses_to|assumption]. Qed.

  (* ---------------------------------------------------------------- tampering one string *)
  Inductive dfield := DI | DO | DD | DAdd (k : nat) | DRm (k : nat).

  Fixpoint map_nth {A} (k : nat) (g : A -> A) (l : list A) : list A :=
    match l with
    | [] => []
    | x :: r => match k with O => g x :: r | S k' => x :: map_nth k' g r end
    end.

  Definition get_str (e : rtxn) (f : dfield) : option (list N) :=
    match f with
    | DI => rI e | DO => rO e | DD => rD e
    | DAdd k => nth_error (radds e) k
    | DRm k => nth_error (rrms e) k
    end.

  (* the raw edit with character i of the chosen digest string replaced by c' *)
  Definition tamper_raw (e : rtxn) (f : dfield) (i : nat) (c' : N) : rtxn :=
    let g := replace_nth i c' in
    match f with
    | DI => mkRT (option_map g (rI e)) (rO e) (rD e) (radds e) (rrms e) (rL e)
    | DO => mkRT (rI e) (option_map g (rO e)) (rD e) (radds e) (rrms e) (rL e)
    | DD => mkRT (rI e) (rO e) (option_map g (rD e)) (radds e) (rrms e) (rL e)
    | DAdd k => mkRT (rI e) (rO e) (rD e) (map_nth k g (radds e)) (rrms e) (rL e)
    | DRm k => mkRT (rI e) (rO e) (rD e) (radds e) (map_nth k g (rrms e)) (rL e)
    end.

  Lemma nth_error_split_map (l : list state) k cs : nth_error (map hexdigest l) k = Some cs ->
    exists l1 x l2, l = l1 ++ x :: l2 /\ cs = hexdigest x /\
      forall g, map_nth k g (map hexdigest l) = map hexdigest l1 ++ g (hexdigest x) :: map hexdigest l2.
  Proof.
    revert k; induction l as [|y l IH]; intros [|k]; cbn [map nth_error]; try discriminate.
    - intros [= <-]. exists [], y, l. split; [reflexivity|]. split; [reflexivity|]. intros g. reflexivity.
    - intros E. destruct (IH k E) as (l1 & x & l2 & -> & -> & Hg).
      exists (y :: l1), x, l2. split; [reflexivity|]. split; [reflexivity|]. intros g. cbn [map_nth map app]. now rewrite Hg.
  Qed.

  Lemma Forall2_render (l : list state) : Forall canonical l -> Forall2 parses (map hexdigest l) l.
  Proof. induction 1; cbn [map]; constructor; [now apply from_hexdigest_hexdigest|assumption]. Qed.

  (* one character of one digest string of a rendered edit replaced by a hex digit of another
     value: the result parses to a tampered edit *)
  Theorem tamper_raw_parses t f i c' cs v v' : txn_canon t ->
    get_str (render t) f = Some cs -> (i < 64)%nat ->
    hexval c' = Some v' -> hexval (nth i cs 0) = Some v -> v' <> v ->
    exists t', tampered t t' /\ parses_to (tamper_raw (render t) f i c') t'.
  Proof.
    intros Hc Hg Hi Hv' Hv Hne. pose proof Hc as (HI & HO & HD & Ha & Hr).
    pose proof (render_parses_to t Hc) as (PI & PO & PD & PA & PR & PL).
    destruct f as [| | |k|k]; cbn [get_str render rI rO rD radds rrms] in Hg.
    - injection Hg as <-. destruct (hex_digit_tamper (tI t) i c' v v' HI Hi Hv' Hv Hne) as (s' & Es & Hs & Hcs).
      exists (mkT s' (tO t) (tD t) (tadds t) (trms t) (tL t)). split; [now apply TamperI|].
      unfold parses_to, tamper_raw, render. cbn. repeat split; try assumption; try (eexists; split; [reflexivity|assumption]).
    - injection Hg as <-. destruct (hex_digit_tamper (tO t) i c' v v' HO Hi Hv' Hv Hne) as (s' & Es & Hs & Hcs).
      exists (mkT (tI t) s' (tD t) (tadds t) (trms t) (tL t)). split; [now apply TamperO|].
      unfold parses_to, tamper_raw, render. cbn. repeat split; try assumption; try (eexists; split; [reflexivity|assumption]).
    - injection Hg as <-. destruct (hex_digit_tamper (tD t) i c' v v' HD Hi Hv' Hv Hne) as (s' & Es & Hs & Hcs).
      exists (mkT (tI t) (tO t) s' (tadds t) (trms t) (tL t)). split; [now apply TamperD|].
      unfold parses_to, tamper_raw, render. cbn. repeat split; try assumption; try (eexists; split; [reflexivity|assumption]).
    - destruct (nth_error_split_map (tadds t) k cs Hg) as (l1 & x & l2 & El & -> & Hmap).
      assert (Hx : canonical x) by (rewrite El in Ha; apply Forall_app in Ha; destruct Ha as [_ Ha2]; now inversion Ha2).
      destruct (hex_digit_tamper x i c' v v' Hx Hi Hv' Hv Hne) as (s' & Es & Hs & Hcs).
      exists (mkT (tI t) (tO t) (tD t) (l1 ++ s' :: l2) (trms t) (tL t)). split; [now apply (TamperAdd t l1 x l2)|].
      unfold parses_to, tamper_raw, render. cbn [rI rO rD radds rrms rL tI tO tD tadds trms tL]. rewrite Hmap.
      repeat split; try assumption.
      rewrite El in Ha. apply Forall_app in Ha. destruct Ha as [Ha1 Ha2]. inversion Ha2 as [|? ? _ Ha2']; subst.
      apply Forall2_app; [now apply Forall2_render|]. constructor; [exact Es|now apply Forall2_render].
    - destruct (nth_error_split_map (trms t) k cs Hg) as (l1 & x & l2 & El & -> & Hmap).
      assert (Hx : canonical x) by (rewrite El in Hr; apply Forall_app in Hr; destruct Hr as [_ Hr2]; now inversion Hr2).
      destruct (hex_digit_tamper x i c' v v' Hx Hi Hv' Hv Hne) as (s' & Es & Hs & Hcs).
      exists (mkT (tI t) (tO t) (tD t) (tadds t) (l1 ++ s' :: l2) (tL t)). split; [now apply (TamperRm t l1 x l2)|].
      unfold parses_to, tamper_raw, render. cbn [rI rO rD radds rrms rL tI tO tD tadds trms tL]. rewrite Hmap.
      repeat split; try assumption.
      rewrite El in Hr. apply Forall_app in Hr. destruct Hr as [Hr1 Hr2]. inversion Hr2 as [|? ? _ Hr2']; subst.
      apply Forall2_app; [now apply Forall2_render|]. constructor; [exact Es|now apply Forall2_render].
  Qed.

  (* ---------------------------------------------------------------- the verifier on the strings *)
  Lemma verify_frags_rejects_raw disk pre fr' post : forall acc, canonical acc ->
    Forall (Forall txn_canon) pre -> frags_ok acc pre -> Forall (Forall (files_pass H coll disk)) pre ->
    rejects (verify_one H coll disk fr' (log_end acc pre)) ->
    rejects (verify_frags H coll disk (map (map render) pre ++ fr' :: post) acc).
  Proof.
    induction pre as [|p pre IH]; intros acc Hacc Hc Hok Hgc Hrej; cbn [app map verify_frags].
    - cbn [log_end fold_left] in Hrej. destruct Hrej as (c & E). rewrite E. cbn [bind]. now exists c.
    - inversion Hc as [|? ? Hcp Hcpre]; subst. inversion Hgc as [|? ? Hgp Hgpre]; subst. destruct Hok as [Hp Hrest].
      destruct (verify_one_complete H coll disk p acc) as (rm & logs & E); try assumption.
      rewrite E. cbn [bind]. apply IH; try assumption.
      apply (frags_end_canonical [p] acc Hacc); [now constructor|]. cbn. tauto.
  Qed.

  Theorem verify_one_rejects_hex_tamper disk acc t0 tpre t tpost f i c' cs v v' :
    canonical acc -> Forall txn_canon (t0 :: tpre ++ t :: tpost) -> frag_ok acc (t0 :: tpre ++ t :: tpost) ->
    get_str (render t) f = Some cs -> (i < 64)%nat ->
    hexval c' = Some v' -> hexval (nth i cs 0) = Some v -> v' <> v ->
    rejects (verify_one H coll disk (render t0 :: map render tpre ++ tamper_raw (render t) f i c' :: map render tpost) acc).
  Proof.
    intros Hacc Hc Hok Hg Hi Hv' Hv Hne.
    inversion Hc as [|? ? Hc0 Hcr]; subst. apply Forall_app in Hcr. destruct Hcr as [Hcpre Hcr]. inversion Hcr as [|? ? Hct Hcpost]; subst.
    destruct (tamper_raw_parses t f i c' cs v v' Hct Hg Hi Hv' Hv Hne) as (t' & Ht & Pt).
    assert (Hct' : txn_canon t') by now apply (tampered_canon t).
    rewrite (verify_one_parsed disk _ (t0 :: tpre ++ t' :: tpost)).
    - now apply (verify_one_rejects_tamper H coll disk acc t0 tpre t tpost t').
    - constructor; [now apply render_parses_to|]. apply Forall2_app; [now apply render_all_parse|].
      constructor; [exact Pt|now apply render_all_parse].
    - constructor; [assumption|]. apply Forall_app. split; [assumption|]. now constructor.
  Qed.

  Theorem verify_one_rejects_hex_tamper_rollup_O disk acc t0 tpost i c' v v' :
    canonical acc -> Forall txn_canon (t0 :: tpost) -> frag_ok acc (t0 :: tpost) -> (i < 64)%nat ->
    hexval c' = Some v' -> hexval (nth i (hexdigest (tO t0)) 0) = Some v -> v' <> v ->
    rejects (verify_one H coll disk (tamper_raw (render t0) DO i c' :: map render tpost) acc).
  Proof.
    intros Hacc Hc Hok Hi Hv' Hv Hne. inversion Hc as [|? ? Hc0 Hcpost]; subst.
    pose proof Hc0 as (HI & HO & HD & Ha & Hr).
    destruct (hex_digit_tamper (tO t0) i c' v v' HO Hi Hv' Hv Hne) as (s' & Es & Hs & Hcs).
    set (t' := mkT (tI t0) s' (tD t0) (tadds t0) (trms t0) (tL t0)).
    assert (Hct' : txn_canon t') by (unfold txn_canon, t'; cbn; tauto).
    assert (Pt : parses_to (tamper_raw (render t0) DO i c') t').
    { pose proof (render_parses_to t0 Hc0) as (PI & PO & PD & PA & PR & PL).
      unfold parses_to, tamper_raw, render, t'. cbn. repeat split; try assumption; try (eexists; split; [reflexivity|assumption]). }
    rewrite (verify_one_parsed disk _ (t' :: tpost)).
    - unfold t'. now apply verify_one_rejects_first_O.
    - constructor; [exact Pt|now apply render_all_parse].
    - now constructor.
  Qed.
End WithHash.
