(* Books/ProofsStore.v — the invariant of the store's books and its preservation by every step
   (flush/ingest, merging compaction, garbage collection, trivial move, reopen with recovery),
   whatever the cuts and rollovers. *)
From Coq Require Import NArith List Bool Lia Permutation.
From Blue Require Import Gen.Const_Setsum Setsum.Model Setsum.Proofs.
From Blue Require Import Lsm.KeyOrder Lsm.SortLemmas.
From Blue Require Import Books.Model Books.ProofsGroup Books.ProofsAC Books.ProofsChain Books.ProofsVerify Books.ProofsGc.
Import ListNotations.
Open Scope N_scope.

(* ------------------------------------------------------------------ small list facts *)
Lemma concat_cut lens : forall l, concat (cut lens l) = l.
Proof.
  induction lens as [|n lens IH]; intros l; destruct l as [|e l]; cbn [cut concat]; try reflexivity.
  - now rewrite app_nil_r.
  - destruct n as [|n]; [apply IH|].
    cbn [concat]. rewrite IH. apply firstn_skipn.
Qed.

Lemma entries_eqb_eq a : forall b, entries_eqb a b = true -> a = b.
Proof.
  induction a as [|x a IH]; intros [|y b]; cbn [entries_eqb]; try discriminate; [reflexivity|].
  intros E. apply andb_prop in E. destruct E as [E E4]. apply andb_prop in E. destruct E as [E E3].
  apply andb_prop in E. destruct E as [E1 E2].
  apply key_eqb_eq in E1. apply N.eqb_eq in E2.
  destruct x as [kx tx vx], y as [ky ty vy]. cbn in *. subst. f_equal; [|now apply IH].
  f_equal. destruct vx, vy; try discriminate; [|reflexivity]. apply key_eqb_eq in E3. now subst.
Qed.

Lemma nodup_states_spec l : nodup_states l = true -> NoDup l.
Proof.
  induction l as [|x l IH]; cbn [nodup_states]; [constructor|].
  intros E. apply andb_prop in E. destruct E as [E1 E2]. constructor; [|now apply IH].
  apply negb_true_iff in E1. now apply existsb_state_notIn.
Qed.

Lemma find_state_some (t : list bfile) x f :
  find (fun g => state_eqb (bsum g) x) t = Some f -> In f t /\ bsum f = x.
Proof. intros E. apply find_some in E. destruct E as [Hin E]. now apply state_eqb_eq in E. Qed.

Lemma find_state_none (t : list bfile) x :
  find (fun g => state_eqb (bsum g) x) t = None -> ~ In x (names t).
Proof.
  intros E Hin. unfold names in Hin. apply in_map_iff in Hin. destruct Hin as (f & Ef & Hf).
  pose proof (find_none _ _ E f Hf) as Hn. cbn in Hn. rewrite Ef, state_eqb_refl in Hn. discriminate.
Qed.

Lemma open_inputs_spec t inputs fs : open_inputs t inputs = Some fs ->
  map bsum fs = inputs /\ Forall (fun f => In f t) fs.
Proof.
  revert fs; induction inputs as [|x r IH]; intros fs; cbn [open_inputs].
  - intros E. inversion E; subst. split; [reflexivity|constructor].
  - destruct (find _ t) as [f|] eqn:Ef; [|discriminate].
    destruct (open_inputs t r) as [fs'|]; [|discriminate]. intros E. inversion E; subst.
    destruct (find_state_some t x f Ef) as [Hin Hx]. destruct (IH fs' eq_refl) as [IH1 IH2].
    split; [cbn; now rewrite Hx, IH1|now constructor].
Qed.

(* ------------------------------------------------------------------ disk *)
Lemma find_app' {A} (p : A -> bool) l l' :
  find p (l ++ l') = match find p l with Some x => Some x | None => find p l' end.
Proof. induction l as [|a l IH]; cbn [app find]; [reflexivity|]. destruct (p a); [reflexivity|exact IH]. Qed.

Lemma lookup_add_disk_old d f x es : lookup d x = Some es -> lookup (add_disk d f) x = Some es.
Proof.
  unfold add_disk. destruct (existsb _ d); [tauto|]. unfold lookup. rewrite find_app'.
  destruct (find _ d); [tauto|discriminate].
Qed.

Lemma find_app_none {A} (p : A -> bool) l l' : find p l = None -> find p (l ++ l') = find p l'.
Proof. intros E. rewrite find_app'. now rewrite E. Qed.

Definition disk_agrees (d : list bfile) (f : bfile) : Prop :=
  match lookup d (bsum f) with Some es => es = bents f | None => True end.

Lemma lookup_add_disk_new d f : disk_agrees d f -> lookup (add_disk d f) (bsum f) = Some (bents f).
Proof.
  unfold disk_agrees, add_disk, lookup. destruct (find (fun g => state_eqb (bsum g) (bsum f)) d) as [g|] eqn:E.
  - intros Hg. assert (Hex : existsb (fun g0 => state_eqb (bsum g0) (bsum f)) d = true).
    { apply existsb_exists. apply find_some in E. exists g. tauto. }
    rewrite Hex, E. now rewrite Hg.
  - intros _. assert (Hex : existsb (fun g0 => state_eqb (bsum g0) (bsum f)) d = false).
    { destruct (existsb _ d) eqn:E'; [|reflexivity]. apply existsb_exists in E'. destruct E' as (g & Hg & Eg).
      pose proof (find_none _ _ E g Hg) as Hn. cbn in Hn. congruence. }
    rewrite Hex, find_app_none by assumption. cbn. now rewrite state_eqb_refl.
Qed.

Lemma lookup_add_disks_old fs : forall d x es, lookup d x = Some es -> lookup (add_disks d fs) x = Some es.
Proof.
  induction fs as [|f fs IH]; intros d x es E; cbn [add_disks fold_left]; [assumption|].
  apply IH. now apply lookup_add_disk_old.
Qed.

Lemma disk_agrees_add_other d f g : bsum f <> bsum g -> disk_agrees d g -> disk_agrees (add_disk d f) g.
Proof.
  intros Hne Hg. unfold disk_agrees in *. destruct (lookup d (bsum g)) as [es|] eqn:E.
  - now rewrite (lookup_add_disk_old d f _ es E).
  - unfold add_disk. destruct (existsb _ d); [now rewrite E|].
    unfold lookup in *. destruct (find _ d) eqn:E'; [discriminate|]. rewrite find_app_none by assumption. cbn.
    destruct (state_eqb (bsum f) (bsum g)) eqn:E2; [apply state_eqb_eq in E2; contradiction|exact I].
Qed.

Lemma lookup_add_disks_new fs : forall d, NoDup (map bsum fs) -> Forall (disk_agrees d) fs ->
  forall f, In f fs -> lookup (add_disks d fs) (bsum f) = Some (bents f).
Proof.
  induction fs as [|g fs IH]; intros d Hnd Hag f Hin; [destruct Hin|].
  cbn [add_disks fold_left]. cbn [map] in Hnd. inversion Hnd as [|? ? Hng Hnd']; subst. inversion Hag as [|? ? Hg Hag']; subst.
  destruct Hin as [<-|Hin].
  - apply lookup_add_disks_old. now apply lookup_add_disk_new.
  - apply IH; [assumption| |assumption].
    apply Forall_forall. intros f' Hf'. rewrite Forall_forall in Hag'. apply disk_agrees_add_other; [|now apply Hag'].
    intros E. apply Hng. rewrite E. now apply in_map.
Qed.

Lemma disk_le_refl d : disk_le d d.
Proof. intros x es E. exact E. Qed.
Lemma disk_le_add_disk d f : disk_le d (add_disk d f).
Proof. intros x es E. now apply lookup_add_disk_old. Qed.
Lemma disk_le_add_disks d fs : disk_le d (add_disks d fs).
Proof. intros x es E. now apply lookup_add_disks_old. Qed.

Section WithHash.
  Variable H : list N -> list N.
  Hypothesis H_ok : forall x, bytes_ok (H x) /\ length (H x) = 32%nat.
  Variable coll : list entry -> list (key * N).

  Lemma verify_ssts_mono d d' l : disk_le d d' -> verify_ssts H d l = Ok tt -> verify_ssts H d' l = Ok tt.
  Proof.
    intros Hle. induction l as [|x l IH]; cbn [verify_ssts]; [tauto|].
    destruct (lookup d x) as [es|] eqn:E; [|discriminate]. rewrite (Hle x es E).
    destruct (state_eqb _ x); [exact IH|discriminate].
  Qed.

  Lemma files_pass_mono d d' t : disk_le d d' -> files_pass H coll d t -> files_pass H coll d' t.
  Proof.
    intros Hle [Hs Hp]. split; [now apply (verify_ssts_mono d d')|].
    intros G. apply (verify_gc_mono H coll d d'); [assumption|now apply Hp].
  Qed.

  Definition gc_part (d : list bfile) (t : txn) : Prop :=
    gc_needed t = true -> verify_gc H coll d (trms t) (tadds t) (tD t) = Ok tt.

  Lemma gc_part_no_rms d t : trms t = [] -> gc_part d t.
  Proof. intros E G. unfold gc_needed in G. rewrite E in G. apply andb_prop in G. destruct G as [_ G]. discriminate. Qed.

  Lemma gc_part_no_discard d t : tD t = zero -> gc_part d t.
  Proof. intros E G. unfold gc_needed in G. rewrite E, state_eqb_refl in G. discriminate. Qed.

  Definition file_ok (f : bfile) : Prop := bsum f = builder_setsum H (bents f).

  Lemma names_canonical t : Forall file_ok t -> Forall canonical (names t).
  Proof.
    intros Ht. unfold names. apply Forall_forall. intros x Hx. apply in_map_iff in Hx. destruct Hx as (f & <- & Hf).
    rewrite Forall_forall in Ht. rewrite (Ht f Hf). now apply builder_setsum_canonical.
  Qed.

  (* the ssts named are files of a tree that the disk holds under their names *)
  Lemma verify_ssts_tree d t l : (forall f, In f t -> lookup d (bsum f) = Some (bents f)) -> Forall file_ok t ->
    (forall x, In x l -> In x (names t)) -> verify_ssts H d l = Ok tt.
  Proof.
    intros Hd Hf. induction l as [|x l IH]; intros Hin; cbn [verify_ssts]; [reflexivity|].
    destruct (proj1 (in_map_iff _ _ _) (Hin x (or_introl eq_refl))) as (f & <- & Hft).
    rewrite (Hd f Hft). rewrite Forall_forall in Hf. rewrite <- (Hf f Hft), state_eqb_refl.
    apply IH. intros y Hy. apply Hin. now right.
  Qed.

  Lemma build_file_ok es : file_ok (build_file H es).
  Proof. reflexivity. Qed.

  Lemma compute_setsum_app t t' : Forall file_ok t -> Forall file_ok t' ->
    compute_setsum (t ++ t') = add_state (compute_setsum t) (compute_setsum t').
  Proof. intros Ht Ht'. unfold compute_setsum. rewrite map_app. apply sum_app; now apply names_canonical. Qed.

  Lemma compute_setsum_canonical t : Forall file_ok t -> canonical (compute_setsum t).
  Proof. intros Ht. apply sum_canonical. now apply names_canonical. Qed.

  Lemma compute_setsum_perm t t' : Permutation t t' -> Forall file_ok t -> compute_setsum t = compute_setsum t'.
  Proof. intros Hp Ht. unfold compute_setsum. apply sum_perm; [now apply Permutation_map|now apply names_canonical]. Qed.

  (* the tree's setsum is the setsum of all entries stored in its files *)
  Lemma compute_setsum_entries t : Forall file_ok t ->
    compute_setsum t = builder_setsum H (concat (map bents t)).
  Proof.
    intros Ht. unfold compute_setsum. rewrite <- sum_builder_concat by exact H_ok. f_equal.
    rewrite map_map. apply map_ext_in. intros f Hf. rewrite Forall_forall in Ht. exact (Ht f Hf).
  Qed.

  Record Inv (b : bstore) : Prop := mkInv {
    inv_files : Forall file_ok (btree b);
    inv_nodup : NoDup (names (btree b));
    inv_strs : forall x, In x (mstrs (bman b)) <-> In x (names (btree b));
    inv_strs_nodup : NoDup (mstrs (bman b));
    inv_O : mO (bman b) = compute_setsum (btree b);
    inv_info : canonical (mI (bman b)) /\ canonical (mD (bman b));
    inv_canon : Forall (Forall txn_canon) (mfragments (bman b));
    inv_log : log_ok (bman b);
    inv_disk : forall f, In f (btree b) -> lookup (bdisk b) (bsum f) = Some (bents f);
    inv_files_pass : Forall (Forall (files_pass H coll (bdisk b))) (mfragments (bman b))
  }.

  Lemma inv_strs_canonical b : Inv b -> Forall canonical (mstrs (bman b)).
  Proof.
    intros I. apply Forall_forall. intros x Hx. apply (inv_strs b I) in Hx.
    pose proof (names_canonical _ (inv_files b I)) as Hc. rewrite Forall_forall in Hc. now apply Hc.
  Qed.

  Lemma inv_open_fresh : Inv (open_fresh).
  Proof.
    constructor; cbn.
    - constructor.
    - constructor.
    - tauto.
    - constructor.
    - reflexivity.
    - split; apply zero_canonical.
    - unfold mfragments. cbn. repeat constructor; apply zero_canonical.
    - unfold log_ok, mfragments. cbn. repeat split; discriminate.
    - intros f [].
    - unfold mfragments. cbn. repeat constructor; intros G; discriminate G.
  Qed.

  (* ---- the generic commit: an edit whose adds/removes are exactly the change of the tree ---- *)
  Lemma commit_inv b t tree' disk' roll :
    Inv b ->
    tI t = compute_setsum (btree b) -> sub_r (tI t) (tD t) = Ok (tO t) ->
    canonical (tD t) -> Forall canonical (tadds t) -> Forall canonical (trms t) ->
    disc_ok t ->
    Forall file_ok tree' -> NoDup (names tree') ->
    (forall x, In x (names tree') <-> In x (tadds t) \/ (In x (names (btree b)) /\ ~ In x (trms t))) ->
    add_state (compute_setsum tree') (sum (trms t)) = add_state (compute_setsum (btree b)) (sum (tadds t)) ->
    (forall f, In f tree' -> lookup disk' (bsum f) = Some (bents f)) ->
    disk_le (bdisk b) disk' -> gc_part disk' t ->
    state_eqb (compute_setsum tree') (tO t) = true /\ Inv (mkBS tree' (apply_edit (bman b) t roll) disk').
  Proof.
    intros I HI Hsub HD Ha Hr Hdisc Hfiles Hnd Hnames Hcons Hdisk Hle Hgc.
    assert (HT : canonical (tI t)) by (rewrite HI; apply compute_setsum_canonical, (inv_files b I)).
    destruct (commit_balance (tI t) (tO t) (tD t) (tadds t) (trms t) (compute_setsum tree')) as (E & HO & Hbal);
      try assumption; [now apply compute_setsum_canonical|now rewrite HI|].
    split; [now apply state_eqb_eq|].
    destruct (apply_edit_fields (bman b) t roll) as (Es & EI & EO & ED).
    assert (Hnew : forall x, In x (new_strs (bman b) t) <-> In x (names tree')).
    { intros x. rewrite in_new_strs, Hnames, (inv_strs b I). tauto. }
    constructor; cbn [btree bman bdisk].
    - assumption.
    - assumption.
    - intros x. rewrite Es. apply Hnew.
    - rewrite Es. apply nodup_new_strs, (inv_strs_nodup b I).
    - now rewrite EO.
    - rewrite EI, ED. tauto.
    - apply apply_edit_fragments_canon; [apply (inv_canon b I)|unfold txn_canon; tauto|].
      apply Forall_forall. intros x Hx. apply Hnew in Hx.
      pose proof (names_canonical _ Hfiles) as Hc. rewrite Forall_forall in Hc. now apply Hc.
    - apply apply_edit_log_ok; [apply (inv_log b I)|].
      unfold txn_ok. rewrite (inv_O b I). tauto.
    - assumption.
    - assert (Hadd : forall l L, (forall x, In x l -> In x (names tree')) -> gc_part disk' (mkT (tI t) (tO t) (tD t) l [] L) ->
                     files_pass H coll disk' (mkT (tI t) (tO t) (tD t) l [] L)).
      { intros l L Hl Hg. split; [|exact Hg]. cbn [tadds]. now apply (verify_ssts_tree disk' tree'). }
      apply apply_edit_forall.
      + pose proof (inv_files_pass b I) as Hg. apply Forall_forall. intros fr Hfr. rewrite Forall_forall in Hg.
        specialize (Hg fr Hfr). apply Forall_forall. intros t0 Ht0. rewrite Forall_forall in Hg.
        apply (files_pass_mono (bdisk b)); [assumption|now apply Hg].
      + split; [|exact Hgc]. apply (verify_ssts_tree disk' tree'); try assumption. intros x Hx. apply Hnames. now left.
      + apply Hadd; [intros x Hx; now apply Hnew|now apply gc_part_no_rms].
  Qed.

  (* ---- ingest ---- *)
  Lemma ingest_inv b f l roll : Inv b -> file_ok f -> disk_agrees (bdisk b) f ->
    (exists b', ingest b f l roll = Ok b' /\ Inv b') \/ ingest b f l roll = Err CDuplicate.
  Proof.
    intros I Hf Hag. unfold ingest.
    assert (Hs : canonical (bsum f)) by (rewrite Hf; now apply builder_setsum_canonical).
    destruct (sub_r_ok zero (bsum f) zero_canonical Hs) as (acc & Eacc & Hacc & Haccadd).
    rewrite Eacc. cbn [bind].
    destruct (existsb (state_eqb (bsum f)) (names (btree b))) eqn:Edup; [now right|left].
    apply existsb_state_notIn in Edup.
    assert (HT : canonical (compute_setsum (btree b))) by apply compute_setsum_canonical, (inv_files b I).
    destruct (sub_r_ok (compute_setsum (btree b)) acc HT Hacc) as (out & Eout & Hout & Houtadd).
    rewrite Eout. cbn [bind].
    set (t := mkT (compute_setsum (btree b)) out acc [bsum f] [] l).
    destruct (commit_inv b t (btree b ++ [f]) (add_disk (bdisk b) f) roll I) as [Eeq I']; unfold t; cbn [tI tO tD tadds trms]; try assumption.
    - reflexivity.
    - repeat constructor; assumption.
    - constructor.
    - unfold disc_ok. cbn [tD tadds trms]. now rewrite sum_single, sum_nil.
    - apply Forall_app. split; [apply (inv_files b I)|now constructor].
    - unfold names. rewrite map_app. apply nodup_app; [apply (inv_nodup b I)|repeat constructor; intros []|].
      intros x Hx [<-|[]]. contradiction.
    - intros x. unfold names. rewrite map_app, in_app_iff. cbn [map In]. tauto.
    - rewrite sum_nil, sum_single by assumption. rewrite compute_setsum_app by (try apply (inv_files b I); now repeat constructor).
      unfold compute_setsum at 2. cbn [map]. rewrite sum_single by assumption.
      apply add_zero_r. apply add_canonical; assumption.
    - intros g Hg. apply in_app_or in Hg. destruct Hg as [Hg|[<-|[]]].
      + apply lookup_add_disk_old. now apply (inv_disk b I).
      + now apply lookup_add_disk_new.
    - apply disk_le_add_disk.
    - now apply gc_part_no_rms.
    - unfold t in *. cbn [tO] in Eeq. rewrite Eeq. eauto.
  Qed.

  (* ---- partition of the tree into the inputs and the rest ---- *)
  Lemma filter_partition_perm {A} (p : A -> bool) l : Permutation l (filter (fun x => negb (p x)) l ++ filter p l).
  Proof.
    induction l as [|x l IH]; cbn [filter app]; [constructor|].
    destruct (p x); cbn [negb app].
    - apply Permutation_cons_app. exact IH.
    - now constructor.
  Qed.

  Lemma is_input_spec inputs f : is_input inputs f = true <-> In (bsum f) inputs.
  Proof. unfold is_input. apply existsb_state_In. Qed.

  Lemma filter_file_ok (p : bfile -> bool) t : Forall file_ok t -> Forall file_ok (filter p t).
  Proof. intros Ht. apply Forall_forall. intros f Hf. apply filter_In in Hf. rewrite Forall_forall in Ht. now apply Ht. Qed.

  Lemma nodup_names_filter (p : bfile -> bool) t : NoDup (names t) -> NoDup (names (filter p t)).
  Proof.
    unfold names. induction t as [|f t IH]; cbn [filter map]; [constructor|].
    intros Hnd. inversion Hnd as [|? ? Hnotin Hnd']; subst. destruct (p f); cbn [map]; [|now apply IH].
    constructor; [|now apply IH]. intros Hx. apply Hnotin. apply in_map_iff in Hx. destruct Hx as (g & Eg & Hg).
    apply filter_In in Hg. apply in_map_iff. exists g. tauto.
  Qed.

  Lemma inputs_names_perm t inputs fs : NoDup (names t) -> NoDup inputs -> open_inputs t inputs = Some fs ->
    Permutation (names (filter (is_input inputs) t)) inputs.
  Proof.
    intros Hnd Hni Hopen. destruct (open_inputs_spec t inputs fs Hopen) as [Hmap Hin].
    apply NoDup_Permutation.
    - now apply nodup_names_filter.
    - assumption.
    - intros x. unfold names. rewrite in_map_iff. split.
      + intros (f & <- & Hf). apply filter_In in Hf. now apply is_input_spec.
      + intros Hx. rewrite <- Hmap in Hx. apply in_map_iff in Hx. destruct Hx as (f & <- & Hf).
        rewrite Forall_forall in Hin. exists f. split; [reflexivity|]. apply filter_In. split; [now apply Hin|].
        apply is_input_spec. rewrite <- Hmap. now apply in_map.
  Qed.

  (* the outputs of an accepted step: distinct new names that agree with the disk *)
  Lemma out_ok_spec rest d f : out_ok rest d f = true -> ~ In (bsum f) rest /\ disk_agrees d f.
  Proof.
    unfold out_ok, disk_agrees, lookup. intros E. apply andb_prop in E. destruct E as [E1 E2].
    apply negb_true_iff, existsb_state_notIn in E1. split; [assumption|].
    destruct (find _ d) as [g|]; [|exact I]. now apply entries_eqb_eq.
  Qed.

  Lemma outs_ok_spec b inputs outs : outs_ok b inputs outs = true ->
    Forall (fun f => ~ In (bsum f) (names (filter (fun g => negb (is_input inputs g)) (btree b))) /\ disk_agrees (bdisk b) f) outs /\
    NoDup (map bsum outs) /\ NoDup inputs.
  Proof.
    unfold outs_ok. intros E. apply andb_prop in E. destruct E as [E E3]. apply andb_prop in E. destruct E as [E1 E2].
    split; [|split; now apply nodup_states_spec].
    apply Forall_forall. intros f Hf. rewrite forallb_forall in E1. now apply out_ok_spec, E1.
  Qed.

  (* ---- compaction_finish ---- *)
  Lemma compaction_finish_inv b inputs fs outs discard roll :
    Inv b -> open_inputs (btree b) inputs = Some fs -> outs_ok b inputs outs = true ->
    Forall file_ok outs -> canonical discard ->
    sum inputs = add_state (sum (map bsum outs)) discard ->
    (discard <> zero -> verify_gc H coll (add_disks (bdisk b) outs) inputs (map bsum outs) discard = Ok tt) ->
    exists b', compaction_finish b inputs outs (sum inputs) discard roll = Ok b' /\ Inv b'.
  Proof.
    intros I Hopen Hacc Houts Hd Hbal Hvgc. unfold compaction_finish.
    assert (Eb : state_eqb (sum inputs) (add_state (sum (map bsum outs)) discard) = true) by (apply state_eqb_eq; exact Hbal).
    rewrite Eb. cbn [negb].
    destruct (outs_ok_spec b inputs outs Hacc) as (Hfresh & Hndo & Hndi).
    assert (HT : canonical (compute_setsum (btree b))) by apply compute_setsum_canonical, (inv_files b I).
    destruct (sub_r_ok (compute_setsum (btree b)) discard HT Hd) as (out & Eout & Hout & Houtadd).
    rewrite Eout. cbn [bind].
    set (rest := filter (fun f => negb (is_input inputs f)) (btree b)).
    set (t := mkT (compute_setsum (btree b)) out discard (map bsum outs) inputs None).
    destruct (open_inputs_spec _ _ _ Hopen) as [Hmap Hfs].
    assert (Hci : Forall canonical inputs).
    { rewrite <- Hmap. change (map bsum fs) with (names fs). apply names_canonical.
      apply Forall_forall. intros f Hf. rewrite Forall_forall in Hfs. pose proof (inv_files b I) as Hall.
      rewrite Forall_forall in Hall. now apply Hall, Hfs. }
    assert (Hco : Forall canonical (map bsum outs)) by (change (map bsum outs) with (names outs); now apply names_canonical).
    assert (Hrest : Forall file_ok rest) by apply filter_file_ok, (inv_files b I).
    destruct (commit_inv b t (rest ++ outs) (add_disks (bdisk b) outs) roll I) as [Eeq I']; unfold t; cbn [tI tO tD tadds trms]; try assumption.
    - reflexivity.
    - unfold disc_ok. cbn [tD tadds trms]. rewrite Hbal. apply add_comm.
    - apply Forall_app. now split.
    - unfold names. rewrite map_app. apply nodup_app; [apply nodup_names_filter, (inv_nodup b I)|assumption|].
      intros x Hx Hx'. apply in_map_iff in Hx'. destruct Hx' as (f & <- & Hf). rewrite Forall_forall in Hfresh.
      now apply (proj1 (Hfresh f Hf)).
    - intros x. unfold names. rewrite map_app, in_app_iff. fold (names rest). fold (names (btree b)).
      assert (Hr : In x (names rest) <-> In x (names (btree b)) /\ ~ In x inputs).
      { unfold names, rest. rewrite !in_map_iff. split.
        - intros (f & <- & Hf). apply filter_In in Hf. destruct Hf as [Hf Hn]. split; [eauto|].
          apply negb_true_iff in Hn. intros Hi. apply is_input_spec in Hi. congruence.
        - intros [(f & <- & Hf) Hn]. exists f. split; [reflexivity|]. apply filter_In. split; [assumption|].
          apply negb_true_iff. destruct (is_input inputs f) eqn:E; [|reflexivity]. apply is_input_spec in E. contradiction. }
      rewrite Hr. tauto.
    - (* conservation of names *)
      rewrite compute_setsum_app by assumption.
      rewrite (compute_setsum_perm (btree b) _ (filter_partition_perm (is_input inputs) (btree b)) (inv_files b I)).
      fold rest. rewrite compute_setsum_app by (try assumption; apply filter_file_ok, (inv_files b I)).
      assert (Ein : compute_setsum (filter (is_input inputs) (btree b)) = sum inputs).
      { unfold compute_setsum. apply sum_perm; [apply (inputs_names_perm _ _ fs); try assumption; apply (inv_nodup b I)|].
        apply names_canonical, filter_file_ok, (inv_files b I). }
      rewrite Ein. unfold compute_setsum at 2. fold (names outs).
      assert (Hcr : canonical (compute_setsum rest)) by now apply compute_setsum_canonical.
      rewrite !add_assoc by (try assumption; now apply sum_canonical). f_equal. apply add_comm.
    - intros g Hg. apply in_app_or in Hg. destruct Hg as [Hg|Hg].
      + apply lookup_add_disks_old. apply (inv_disk b I). unfold rest in Hg. apply filter_In in Hg. tauto.
      + apply lookup_add_disks_new; [assumption| |assumption].
        apply Forall_forall. intros f Hf. rewrite Forall_forall in Hfresh. now apply (proj2 (Hfresh f Hf)).
    - apply disk_le_add_disks.
    - intros G. unfold gc_needed in G. cbn [tD trms tadds] in *. apply andb_prop in G. destruct G as [G _].
      apply Hvgc. apply negb_true_iff in G. now apply state_eqb_neq.
    - unfold t, rest in *. cbn [tO] in Eeq. rewrite Eeq. eauto.
  Qed.

  (* the setsum of the inputs named is the setsum of the entries the merging cursor yields *)
  Lemma inputs_sum_entries b inputs fs : Inv b -> open_inputs (btree b) inputs = Some fs ->
    sum inputs = builder_setsum H (merged fs).
  Proof.
    intros I Hopen. destruct (open_inputs_spec _ _ _ Hopen) as [Hmap Hfs].
    unfold merged. rewrite <- (builder_setsum_perm H H_ok _ _ (sort_entries_perm (concat (map bents fs)))).
    rewrite <- sum_builder_concat by exact H_ok. rewrite <- Hmap. f_equal. rewrite map_map.
    apply map_ext_in. intros f Hf. rewrite Forall_forall in Hfs. pose proof (inv_files b I) as Hall.
    rewrite Forall_forall in Hall. now apply Hall, Hfs.
  Qed.

  Lemma built_files_ok ess : Forall file_ok (map (build_file H) ess).
  Proof. apply Forall_forall. intros f Hf. apply in_map_iff in Hf. destruct Hf as (es & <- & _). apply build_file_ok. Qed.

  Lemma built_files_sum ess : sum (map bsum (map (build_file H) ess)) = builder_setsum H (concat ess).
  Proof. rewrite map_map. cbn [bsum build_file]. now apply sum_builder_concat. Qed.

  Lemma compact_inv b inputs lens roll : Inv b -> accepted H coll b (BCompact inputs lens roll) = true ->
    (exists b', compact H b inputs lens roll = Ok b' /\ Inv b') \/ compact H b inputs lens roll = Err CNotFound.
  Proof.
    intros I Hacc. unfold compact. cbn [accepted] in Hacc.
    destruct (open_inputs (btree b) inputs) as [fs|] eqn:Hopen; [left|now right].
    apply (compaction_finish_inv b inputs fs); try assumption.
    - apply built_files_ok.
    - apply zero_canonical.
    - rewrite built_files_sum, concat_cut. rewrite add_zero_r by now apply builder_setsum_canonical.
      now apply (inputs_sum_entries b).
    - intros Hne. now contradiction Hne.
  Qed.

  (* ---- the GC walk conserves the setsum ---- *)
  Lemma gc_walk_balance gcs main : forall kept d kept' d', canonical d ->
    gc_walk H gcs main kept d = Some (kept', d') ->
    canonical d' /\
    add_state (add_state (builder_setsum H kept) d) (builder_setsum H main) = add_state (builder_setsum H kept') d'.
  Proof.
    revert gcs; induction main as [|e main IH]; intros gcs kept d kept' d' Hd; cbn [gc_walk].
    - intros E. inversion E; subst. split; [assumption|].
      apply add_zero_r. apply add_canonical; [now apply builder_setsum_canonical|assumption].
    - pose proof (builder_setsum_canonical H H_ok kept) as Hk. pose proof (builder_setsum_canonical H H_ok main) as Hm.
      pose proof (entry_setsum_canonical H H_ok e) as He.
      assert (Hdrop : forall g, gc_walk H g main kept (add_state d (entry_setsum H e)) = Some (kept', d') ->
        canonical d' /\ add_state (add_state (builder_setsum H kept) d) (builder_setsum H (e :: main)) = add_state (builder_setsum H kept') d').
      { intros g E. destruct (IH g kept _ kept' d' (add_canonical _ _ Hd He) E) as [Hc Eq].
        split; [assumption|]. rewrite <- Eq. rewrite builder_setsum_cons by exact H_ok. ac_group assumption. }
      destruct gcs as [|g gcs']; [apply Hdrop|].
      destruct (kcmp g (kr e)); [|discriminate|apply Hdrop].
      intros E. destruct (IH gcs' (kept ++ [e]) d kept' d' Hd E) as [Hc Eq]. split; [assumption|].
      rewrite <- Eq. rewrite builder_setsum_app, !builder_setsum_cons by exact H_ok.
      change (builder_setsum H []) with zero. rewrite (add_zero_r (entry_setsum H e)) by assumption.
      ac_group assumption.
  Qed.

  Lemma gc_inv b inputs lens roll : Inv b -> accepted H coll b (BGc inputs lens roll) = true ->
    (exists b', gc H coll b inputs lens roll = Ok b' /\ Inv b') \/
    gc H coll b inputs lens roll = Err CNotFound \/ gc H coll b inputs lens roll = Err CGcLogic.
  Proof.
    intros I Hacc. unfold gc. cbn [accepted] in Hacc.
    destruct (open_inputs (btree b) inputs) as [fs|] eqn:Hopen; [|right; now left].
    apply andb_prop in Hacc. destruct Hacc as [Hstrict Hacc].
    destruct (gc_walk H (coll (merged fs)) (merged fs) [] zero) as [[kept discard]|] eqn:Ew; [left|right; now right].
    destruct (gc_walk_balance _ _ _ _ _ _ zero_canonical Ew) as [Hd Hbal].
    apply (compaction_finish_inv b inputs fs); try assumption.
    - apply built_files_ok.
    - rewrite built_files_sum, concat_cut, <- Hbal.
      change (builder_setsum H []) with zero. rewrite (add_zero_l zero) by apply zero_canonical.
      rewrite add_zero_l by now apply builder_setsum_canonical.
      now apply (inputs_sum_entries b).
    - intros _. destruct (open_inputs_spec _ _ _ Hopen) as [Hmap Hfs]. rewrite <- Hmap.
      destruct (outs_ok_spec _ _ _ Hacc) as (Hfresh & Hndo & _).
      apply (verify_gc_accepts_walk H H_ok coll); try assumption.
      + intros f Hf. apply lookup_add_disks_old. apply (inv_disk b I). rewrite Forall_forall in Hfs. now apply Hfs.
      + intros f Hf. apply lookup_add_disks_new; [assumption| |assumption].
        apply Forall_forall. intros g Hg. rewrite Forall_forall in Hfresh. now apply (proj2 (Hfresh g Hg)).
      + now apply kstrictb_spec.
  Qed.

  (* ---- trivial move ---- *)
  Lemma move_inv b input : Inv b ->
    (exists b', move b input = Ok b' /\ Inv b') \/ move b input = Err CNotFound.
  Proof.
    intros I. unfold move. destruct (open_inputs (btree b) [input]) as [fs|] eqn:Hopen; [left|now right].
    destruct (open_inputs_spec _ _ _ Hopen) as [Hmap Hfs].
    assert (Hfs1 : exists f, fs = [f] /\ In f (btree b) /\ bsum f = input).
    { destruct fs as [|f [|g fs]]; cbn in Hmap; try discriminate. inversion Hmap; subst.
      exists f. inversion Hfs; subst. tauto. }
    destruct Hfs1 as (f & -> & Hf & Ef).
    set (rest := filter (fun g => negb (is_input [input] g)) (btree b)).
    assert (Hperm : Permutation (btree b) (rest ++ [f])).
    { eapply Permutation_trans; [apply (filter_partition_perm (is_input [input]) (btree b))|]. fold rest.
      apply Permutation_app_head.
      (* the only file named input is f *)
      pose proof (inv_nodup b I) as Hnd. clear -Hnd Hf Ef. unfold names in Hnd.
      induction (btree b) as [|g t IH]; [destruct Hf|]. cbn [map] in Hnd. inversion Hnd as [|? ? Hnotin Hnd']; subst. cbn [filter].
      destruct Hf as [->|Hf].
      - assert (E : is_input [bsum f] f = true) by (apply is_input_spec; now left). rewrite E.
        replace (filter (is_input [bsum f]) t) with (@nil bfile); [constructor; constructor|].
        symmetry. clear -Hnotin. induction t as [|h t IH]; [reflexivity|]. cbn [filter].
        destruct (is_input [bsum f] h) eqn:E; [|apply IH; intros Hx; apply Hnotin; now right].
        apply is_input_spec in E. destruct E as [E|[]]. exfalso. apply Hnotin. left. congruence.
      - destruct (is_input [bsum f] g) eqn:E; [|now apply IH].
        apply is_input_spec in E. destruct E as [E|[]]. exfalso. apply Hnotin. rewrite <- E. now apply in_map. }
    assert (Hok : Forall file_ok (rest ++ [f])) by (apply (Forall_perm _ _ _ Hperm), (inv_files b I)).
    rewrite (compute_setsum_perm _ _ Hperm (inv_files b I)). rewrite state_eqb_refl.
    eexists. split; [reflexivity|].
    constructor; cbn [btree bman bdisk].
    - assumption.
    - apply (Permutation_NoDup (l := names (btree b))); [now apply Permutation_map|apply (inv_nodup b I)].
    - intros x. rewrite (inv_strs b I). unfold names. split; intros Hx.
      + apply (Permutation_in _ (Permutation_map bsum Hperm) Hx).
      + apply (Permutation_in _ (Permutation_sym (Permutation_map bsum Hperm)) Hx).
    - apply (inv_strs_nodup b I).
    - rewrite (inv_O b I). apply compute_setsum_perm; [assumption|apply (inv_files b I)].
    - apply (inv_info b I).
    - apply (inv_canon b I).
    - apply (inv_log b I).
    - intros g Hg. apply (inv_disk b I). apply (Permutation_in _ (Permutation_sym Hperm) Hg).
    - apply (inv_files_pass b I).
  Qed.

  (* ---- flush ---- *)
  Lemma flush_inv b mem l roll : Inv b -> accepted H coll b (BFlush mem l roll) = true ->
    (exists b', flush H b mem l roll = Ok b' /\ Inv b') \/ flush H b mem l roll = Err CDuplicate.
  Proof.
    intros I Hacc. unfold flush.
    rewrite (builder_setsum_perm H H_ok _ _ (Permutation_sym (sort_entries_perm mem))), state_eqb_refl. cbn [negb].
    cbn [accepted] in Hacc. destruct (outs_ok_spec _ _ _ Hacc) as (Hf & _ & _). inversion Hf as [|? ? [_ Hag] _]; subst.
    apply ingest_inv; [assumption|apply build_file_ok|assumption].
  Qed.

  (* ---- reopen ---- *)
  Lemma rollover_inv b : Inv b -> Inv (mkBS (btree b) (rollover (bman b)) (bdisk b)).
  Proof.
    intros I. constructor; cbn [btree bman bdisk rollover mstrs mO mI mD].
    - apply (inv_files b I).
    - apply (inv_nodup b I).
    - apply (inv_strs b I).
    - apply (inv_strs_nodup b I).
    - apply (inv_O b I).
    - apply (inv_info b I).
    - apply rollover_fragments_canon; [apply (inv_canon b I)|apply (inv_info b I)| |apply (inv_info b I)|now apply inv_strs_canonical].
      rewrite (inv_O b I). apply compute_setsum_canonical, (inv_files b I).
    - apply rollover_log_ok, (inv_log b I).
    - apply (inv_disk b I).
    - apply rollover_forall; [apply (inv_files_pass b I)|]. split; [|now apply gc_part_no_rms].
      unfold to_edit. cbn [tadds]. apply (verify_ssts_tree (bdisk b) (btree b)); [apply (inv_disk b I)|apply (inv_files b I)|].
      intros x Hx. now apply (inv_strs b I).
  Qed.

  Lemma reopen_inv b log roll : Inv b -> accepted H coll b (BReopen log roll) = true ->
    exists b', reopen H b log roll = Ok b' /\ Inv b'.
  Proof.
    intros I Hacc. pose proof (rollover_inv b I) as I1. unfold reopen.
    assert (Etree : state_eqb (compute_setsum (btree b)) (mO (rollover (bman b))) = true).
    { apply state_eqb_eq. cbn [rollover mO]. symmetry. apply (inv_O b I). }
    destruct log as [|e log]; [rewrite Etree; eauto|].
    set (f := build_file H (sort_entries (e :: log))).
    cbn [rollover mstrs]. destruct (existsb (state_eqb (bsum f)) (mstrs (bman b))) eqn:Ex; [rewrite Etree; eauto|].
    cbn [accepted] in Hacc. fold f in Hacc. rewrite Ex in Hacc. cbn [orb] in Hacc.
    destruct (outs_ok_spec _ _ _ Hacc) as (Hf & _ & _). inversion Hf as [|? ? [_ Hag] _]; subst.
    assert (Hs : canonical (bsum f)) by (cbn; now apply builder_setsum_canonical).
    destruct (sub_r_ok zero (bsum f) zero_canonical Hs) as (disc & Ed & Hd & Hdadd).
    rewrite Ed. cbn [bind].
    assert (HT : canonical (mO (bman b))) by (rewrite (inv_O b I); apply compute_setsum_canonical, (inv_files b I)).
    change (mO (rollover (bman b))) with (mO (bman b)).
    destruct (sub_r_ok (mO (bman b)) disc HT Hd) as (out & Eout & Hout & Houtadd).
    rewrite Eout. cbn [bind].
    set (b1 := mkBS (btree b) (rollover (bman b)) (bdisk b)).
    set (t := mkT (mO (bman b)) out disc [bsum f] [] None).
    apply existsb_state_notIn in Ex.
    destruct (commit_inv b1 t (btree b ++ [f]) (add_disk (bdisk b) f) roll I1) as [Eeq I']; unfold t, b1; cbn [tI tO tD tadds trms btree]; try assumption.
    - apply (inv_O b I).
    - repeat constructor; assumption.
    - constructor.
    - unfold disc_ok. cbn [tD tadds trms]. now rewrite sum_single, sum_nil.
    - apply Forall_app. split; [apply (inv_files b I)|repeat constructor].
    - unfold names. rewrite map_app. apply nodup_app; [apply (inv_nodup b I)|repeat constructor; intros []|].
      intros x Hx [<-|[]]. apply Ex. now apply (inv_strs b I).
    - intros x. unfold names. rewrite map_app, in_app_iff. cbn [map In]. tauto.
    - rewrite sum_nil, sum_single by assumption. rewrite compute_setsum_app by (try apply (inv_files b I); repeat constructor).
      unfold compute_setsum at 2. cbn [map]. rewrite sum_single by assumption.
      apply add_zero_r. apply add_canonical; [apply compute_setsum_canonical, (inv_files b I)|assumption].
    - intros g Hg. apply in_app_or in Hg. destruct Hg as [Hg|[<-|[]]].
      + apply lookup_add_disk_old. now apply (inv_disk b I).
      + now apply lookup_add_disk_new.
    - apply disk_le_add_disk.
    - now apply gc_part_no_rms.
    - unfold b1, t in *. cbn [bman tO] in *.
      destruct (apply_edit_fields (rollover (bman b)) (mkT (mO (bman b)) out disc [bsum f] [] None) roll) as (_ & _ & EO & _).
      cbn [tO] in EO. first [rewrite EO | unfold rollover in *; rewrite EO]. rewrite Eeq. eexists. split; [reflexivity|exact I'].
  Qed.

  (* ---- reopen with any number of logs ---- *)
  Lemma recover_one_inv b log roll : Inv b ->
    (match log with
     | [] => True
     | _ => existsb (state_eqb (bsum (build_file H (sort_entries log)))) (mstrs (bman b)) = true \/
            outs_ok b [] [build_file H (sort_entries log)] = true
     end) ->
    exists b', recover_one H b log roll = Ok b' /\ Inv b'.
  Proof.
    intros I Hacc. unfold recover_one. destruct log as [|e log]; [eauto|].
    set (f := build_file H (sort_entries (e :: log))) in *.
    destruct (existsb (state_eqb (bsum f)) (mstrs (bman b))) eqn:Ex; [eauto|].
    destruct Hacc as [Hacc|Hacc]; [discriminate|].
    destruct (outs_ok_spec _ _ _ Hacc) as (Hf & _ & _). inversion Hf as [|? ? [_ Hag] _]; subst.
    assert (Hs : canonical (bsum f)) by (cbn; now apply builder_setsum_canonical).
    destruct (sub_r_ok zero (bsum f) zero_canonical Hs) as (disc & Ed & Hd & Hdadd).
    rewrite Ed. cbn [bind].
    assert (HT : canonical (mO (bman b))) by (rewrite (inv_O b I); apply compute_setsum_canonical, (inv_files b I)).
    destruct (sub_r_ok (mO (bman b)) disc HT Hd) as (out & Eout & Hout & Houtadd).
    rewrite Eout. cbn [bind].
    set (t := mkT (mO (bman b)) out disc [bsum f] [] None).
    apply existsb_state_notIn in Ex.
    destruct (commit_inv b t (btree b ++ [f]) (add_disk (bdisk b) f) roll I) as [Eeq I']; unfold t; cbn [tI tO tD tadds trms btree]; try assumption.
    - apply (inv_O b I).
    - repeat constructor; assumption.
    - constructor.
    - unfold disc_ok. cbn [tD tadds trms]. now rewrite sum_single, sum_nil.
    - apply Forall_app. split; [apply (inv_files b I)|repeat constructor].
    - unfold names. rewrite map_app. apply nodup_app; [apply (inv_nodup b I)|repeat constructor; intros []|].
      intros x Hx [<-|[]]. apply Ex. now apply (inv_strs b I).
    - intros x. unfold names. rewrite map_app, in_app_iff. cbn [map In]. tauto.
    - rewrite sum_nil, sum_single by assumption. rewrite compute_setsum_app by (try apply (inv_files b I); repeat constructor).
      unfold compute_setsum at 2. cbn [map]. rewrite sum_single by assumption.
      apply add_zero_r. apply add_canonical; [apply compute_setsum_canonical, (inv_files b I)|assumption].
    - intros g Hg. apply in_app_or in Hg. destruct Hg as [Hg|[<-|[]]].
      + apply lookup_add_disk_old. now apply (inv_disk b I).
      + now apply lookup_add_disk_new.
    - apply disk_le_add_disk.
    - now apply gc_part_no_rms.
    - eexists. split; [reflexivity|exact I'].
  Qed.

  Lemma recover_inv logs : forall b, Inv b -> recover_accepted H b logs = true ->
    exists b', recover H b logs = Ok b' /\ Inv b'.
  Proof.
    induction logs as [|[log roll] logs IH]; intros b I Hacc; cbn [recover]; [eauto|].
    cbn [recover_accepted] in Hacc. apply andb_prop in Hacc. destruct Hacc as [Ha Hr].
    destruct (recover_one_inv b log roll I) as (b1 & E1 & I1).
    { destruct log as [|e log]; [exact Logic.I|]. apply orb_prop in Ha. exact Ha. }
    rewrite E1 in *. cbn [bind]. now apply IH.
  Qed.

  Lemma reopen_logs_inv b logs : Inv b -> accepted H coll b (BReopenLogs logs) = true ->
    exists b', reopen_logs H b logs = Ok b' /\ Inv b'.
  Proof.
    intros I Hacc. cbn [accepted] in Hacc. unfold reopen_logs.
    destruct (recover_inv logs _ (rollover_inv b I) Hacc) as (b' & E & I'). rewrite E. cbn [bind].
    rewrite (inv_O b' I'), state_eqb_refl. eauto.
  Qed.

  (* ---- every step, every history ---- *)
  Definition benign (c : code) : Prop := c = CDuplicate \/ c = CNotFound \/ c = CGcLogic.

  Lemma bstep_inv b o : Inv b -> accepted H coll b o = true ->
    (exists b', bstep H coll b o = Ok b' /\ Inv b') \/ (exists c, bstep H coll b o = Err c /\ benign c).
  Proof.
    intros I Hacc. destruct o as [mem l roll|ents roll|inputs lens roll|inputs lens roll|input|log roll|logs]; cbn [bstep].
    - destruct (flush_inv b mem l roll I Hacc) as [?|E]; [now left|right; exists CDuplicate; unfold benign; tauto].
    - cbn [accepted] in Hacc. destruct (outs_ok_spec _ _ _ Hacc) as (Hf & _ & _). inversion Hf as [|? ? [_ Hag] _]; subst.
      destruct (ingest_inv b (build_file H ents) None roll I (build_file_ok ents) Hag) as [?|E]; [now left|right; exists CDuplicate; unfold benign; tauto].
    - destruct (compact_inv b inputs lens roll I Hacc) as [?|E]; [now left|right; exists CNotFound; unfold benign; tauto].
    - destruct (gc_inv b inputs lens roll I Hacc) as [?|[E|E]]; [now left|right; exists CNotFound; unfold benign; tauto|right; exists CGcLogic; unfold benign; tauto].
    - destruct (move_inv b input I) as [?|E]; [now left|right; exists CNotFound; unfold benign; tauto].
    - left. now apply reopen_inv.
    - left. now apply reopen_logs_inv.
  Qed.

  Lemma brun_inv ops : forall b, Inv b -> all_accepted H coll b ops = true ->
    (exists b', brun H coll b ops = Ok b' /\ Inv b') \/ (exists c, brun H coll b ops = Err c /\ benign c).
  Proof.
    induction ops as [|o ops IH]; intros b I Hacc; cbn [brun]; [left; eauto|].
    cbn [all_accepted] in Hacc. apply andb_prop in Hacc. destruct Hacc as [Ha Hr].
    destruct (bstep_inv b o I Ha) as [(b' & E & I')|(c & E & Hc)]; rewrite E in *; cbn [bind].
    - now apply IH.
    - right. eauto.
  Qed.
End WithHash.
