(* Extraction of the executable Books model (setsum bookkeeping of lsmtk + offline verifier) for the
   correspondence check.  Directives in force: those of ExtrOcamlBasic only (bool, option, unit,
   list, prod, sumbool, sumor map to OCaml's own; N, positive, nat, comparison stay inductive).
   No Extract Constant of ours.  The hash H and the collector coll are arguments of the extracted
   functions (the driver supplies SHA3-256 digests computed by Python's hashlib and the collector's
   answers as tables). *)
From Coq Require Import NArith List.
From Blue Require Import Setsum.Model Lsm.Model Books.Model.
Require Import ExtrOcamlBasic.
Extraction Language OCaml.
Extraction "../ocaml/books/gen_books.ml"
  open_fresh bstep accepted fragments rfragments render compute_setsum names builder_setsum entry_setsum build_file
  verify_one verify_frags manifest_verify verify_gc merged gc_walk cut
  hexdigest from_hexdigest from_digest digest zero add_state sub_state state_eqb
  N.of_nat N.to_nat N.add N.mul N.div_eucl.
