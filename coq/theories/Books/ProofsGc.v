(* Books/ProofsGc.v — the verifier's replay of a garbage collection (verify_gc) accepts what the
   store's own walk (perform_garbage_collection) wrote: same collector, same merged input, the
   retained entries as output, and the discard setsum the walk accumulated. *)
From Coq Require Import NArith List Bool Lia Permutation.
From Blue Require Import Gen.Const_Setsum Setsum.Model Setsum.Proofs.
From Blue Require Import Lsm.KeyOrder.
From Blue Require Import Books.Model Books.ProofsGroup Books.ProofsAC.
Import ListNotations.
Open Scope N_scope.

(* ------------------------------------------------------------------ the KeyRef order *)
Lemma kcmp_refl a : kcmp a a = Eq.
Proof. unfold kcmp. rewrite lex_cmp_refl. now rewrite N.compare_refl. Qed.

Lemma kcmp_lt_trans a b c : kcmp a b = Lt -> kcmp b c = Lt -> kcmp a c = Lt.
Proof.
  unfold kcmp. destruct (lex_cmp (fst a) (fst b)) eqn:E1; try discriminate;
  destruct (lex_cmp (fst b) (fst c)) eqn:E2; try discriminate.
  - apply lex_cmp_eq in E1. apply lex_cmp_eq in E2. rewrite E1, E2, lex_cmp_refl.
    destruct (N.compare_spec (snd a) (snd b)); try discriminate.
    destruct (N.compare_spec (snd b) (snd c)); try discriminate. intros _ _.
    destruct (N.compare_spec (snd a) (snd c)); cbn; try reflexivity; lia.
  - apply lex_cmp_eq in E1. rewrite E1, E2. reflexivity.
  - apply lex_cmp_eq in E2. rewrite <- E2, E1. reflexivity.
  - rewrite (lex_cmp_lt_trans _ _ _ E1 E2). reflexivity.
Qed.

(* strictly increasing in the KeyRef order: distinct (key, timestamp) pairs, sorted *)
Fixpoint kstrict (l : list entry) : Prop :=
  match l with
  | [] => True
  | x :: r => (forall y, In y r -> kcmp (kr x) (kr y) = Lt) /\ kstrict r
  end.

Lemma kstrictb_spec l : kstrictb l = true -> kstrict l.
Proof.
  induction l as [|x l IH]; [intros _; exact I|].
  destruct l as [|y r]; [intros _; split; [intros ? []|exact I]|].
  change (kstrictb (x :: y :: r)) with (match kcmp (kr x) (kr y) with Lt => kstrictb (y :: r) | _ => false end).
  destruct (kcmp (kr x) (kr y)) eqn:E; try discriminate. intros Hr. specialize (IH Hr).
  split; [|assumption]. intros z [<-|Hz]; [assumption|].
  destruct IH as [Hy _]. apply (kcmp_lt_trans _ (kr y)); [assumption|now apply Hy].
Qed.

Lemma kcmp_lt_entry_leb x y : kcmp (kr x) (kr y) = Lt -> Lsm.Model.entry_leb x y = true.
Proof.
  unfold kcmp, kr, Lsm.Model.entry_leb. cbn [fst snd].
  destruct (lex_cmp (ek x) (ek y)); try discriminate; [|reflexivity].
  destruct (N.compare_spec (ets x) (ets y)); cbn; try discriminate. intros _. apply N.leb_le. lia.
Qed.

Lemma sort_kstrict l : kstrict l -> sort_entries l = l.
Proof.
  induction l as [|x l IH]; [reflexivity|]. intros [Hx Hl]. cbn [Lsm.Model.sort_entries]. rewrite (IH Hl).
  destruct l as [|y r]; [reflexivity|]. cbn [Lsm.Model.insert_entry].
  now rewrite (kcmp_lt_entry_leb x y (Hx y (or_introl eq_refl))).
Qed.

Section WithHash.
  Variable H : list N -> list N.
  Hypothesis H_ok : forall x, bytes_ok (H x) /\ length (H x) = 32%nat.

  (* the walk and the replay side by side *)
  Lemma vgc_of_walk main : forall gcs k d k' d' cd, kstrict main -> canonical d -> canonical cd ->
    gc_walk H gcs main k d = Some (k', d') ->
    exists kk delta, k' = k ++ kk /\ (forall y, In y kk -> In y main) /\ kstrict kk /\ canonical delta /\
      d' = add_state d delta /\ vgc_loop H gcs main kk cd = Ok (add_state cd delta).
  Proof.
    induction main as [|e main IH]; intros gcs k d k' d' cd Hs Hd Hcd; cbn [gc_walk].
    - intros E. inversion E; subst. exists [], zero. rewrite app_nil_r.
      repeat split; try (intros ? []); try exact I; try apply zero_canonical; try (symmetry; now apply add_zero_r).
      cbn [vgc_loop]. now rewrite add_zero_r.
    - destruct Hs as [He Hs]. pose proof (entry_setsum_canonical H H_ok e) as Hce.
      assert (Hdrop : forall g, (match g with g0 :: _ => kcmp g0 (kr e) <> Lt /\ kcmp g0 (kr e) <> Eq | [] => True end) ->
        gc_walk H g main k (add_state d (entry_setsum H e)) = Some (k', d') ->
        exists kk delta, k' = k ++ kk /\ (forall y, In y kk -> In y (e :: main)) /\ kstrict kk /\ canonical delta /\
          d' = add_state d delta /\ vgc_loop H g (e :: main) kk cd = Ok (add_state cd delta)).
      { intros g Hg E.
        destruct (IH g k _ k' d' (add_state cd (entry_setsum H e)) Hs (add_canonical _ _ Hd Hce) (add_canonical _ _ Hcd Hce) E)
          as (kk & delta & Ek & Hin & Hsk & Hcdl & Ed & Ev).
        exists kk, (add_state (entry_setsum H e) delta).
        split; [assumption|]. split; [intros y Hy; right; now apply Hin|]. split; [assumption|].
        split; [now apply add_canonical|]. split; [rewrite Ed; ac_group assumption|].
        assert (Ev' : vgc_loop H g main kk (add_state cd (entry_setsum H e)) = Ok (add_state cd (add_state (entry_setsum H e) delta))).
        { rewrite Ev. f_equal. ac_group assumption. }
        cbn [vgc_loop]. destruct kk as [|o kk']; [exact Ev'|].
        assert (Hlt : kcmp (kr e) (kr o) = Lt) by (apply He, Hin; now left).
        rewrite Hlt. destruct g as [|g0 g']; [exact Ev'|].
        destruct Hg as [Hg1 Hg2]. destruct (kcmp g0 (kr e)); [contradiction|contradiction|exact Ev']. }
      destruct gcs as [|g gcs']; [apply Hdrop; exact I|].
      destruct (kcmp g (kr e)) eqn:Eg; [|discriminate|apply Hdrop; rewrite Eg; split; discriminate].
      intros E.
      destruct (IH gcs' (k ++ [e]) d k' d' cd Hs Hd Hcd E) as (kk & delta & Ek & Hin & Hsk & Hcdl & Ed & Ev).
      exists (e :: kk), delta. split; [rewrite Ek, <- app_assoc; reflexivity|].
      split; [intros y [<-|Hy]; [now left|right; now apply Hin]|].
      split; [split; [intros y Hy; apply He; now apply Hin|assumption]|].
      split; [assumption|]. split; [assumption|].
      cbn [vgc_loop]. rewrite Eg, kcmp_refl. cbn [tl]. exact Ev.
  Qed.

  (* files by name *)
  Definition disk_le (d d' : list bfile) : Prop := forall x es, lookup d x = Some es -> lookup d' x = Some es.

  Lemma get_all_files d (fs : list bfile) : (forall f, In f fs -> lookup d (bsum f) = Some (bents f)) ->
    get_all d (map bsum fs) = Ok (map bents fs).
  Proof.
    induction fs as [|f fs IH]; intros Hl; cbn [map get_all]; [reflexivity|].
    rewrite (Hl f (or_introl eq_refl)). rewrite IH by (intros g Hg; apply Hl; now right). reflexivity.
  Qed.

  Lemma get_all_mono d d' l r : disk_le d d' -> get_all d l = Ok r -> get_all d' l = Ok r.
  Proof.
    intros Hle. revert r; induction l as [|x l IH]; intros r; cbn [get_all]; [tauto|].
    destruct (lookup d x) as [es|] eqn:E; [|discriminate]. rewrite (Hle x es E).
    destruct (get_all d l) as [ess| |]; cbn [bind]; try discriminate. intros E'. now rewrite (IH ess eq_refl).
  Qed.

  Variable coll : list entry -> list (key * N).

  Lemma verify_gc_mono d d' rms adds disc : disk_le d d' ->
    verify_gc H coll d rms adds disc = Ok tt -> verify_gc H coll d' rms adds disc = Ok tt.
  Proof.
    intros Hle. unfold verify_gc.
    destruct (get_all d rms) as [ins| |] eqn:E1; cbn [bind]; try discriminate. rewrite (get_all_mono d d' rms ins Hle E1). cbn [bind].
    destruct (get_all d adds) as [outs| |] eqn:E2; cbn [bind]; try discriminate. rewrite (get_all_mono d d' adds outs Hle E2). cbn [bind].
    tauto.
  Qed.

  (* the replay of a GC the store performed: inputs fs (found under their names), merged stream
     strictly sorted, walk result (kept, discard), outputs = kept cut anywhere *)
  Theorem verify_gc_accepts_walk disk (fs : list bfile) lens kept discard :
    (forall f, In f fs -> lookup disk (bsum f) = Some (bents f)) ->
    (forall f, In f (map (build_file H) (cut lens kept)) -> lookup disk (bsum f) = Some (bents f)) ->
    kstrict (merged fs) ->
    gc_walk H (coll (merged fs)) (merged fs) [] zero = Some (kept, discard) ->
    verify_gc H coll disk (map bsum fs) (map bsum (map (build_file H) (cut lens kept))) discard = Ok tt.
  Proof.
    intros Hin Hout Hs Hw. unfold verify_gc.
    rewrite (get_all_files disk fs Hin). cbn [bind].
    rewrite (get_all_files disk _ Hout). cbn [bind].
    fold (merged fs).
    destruct (vgc_of_walk (merged fs) (coll (merged fs)) [] zero kept discard zero Hs zero_canonical zero_canonical Hw)
      as (kk & delta & Ek & Hink & Hsk & Hcd & Ed & Ev).
    cbn [app] in Ek. subst kk.
    assert (Eo : sort_entries (concat (map bents (map (build_file H) (cut lens kept)))) = kept).
    { rewrite map_map. cbn [bents build_file]. rewrite map_id.
      assert (Ec : forall lens l, concat (cut lens l) = l).
      { clear. induction lens as [|n lens IH]; intros l; destruct l as [|e l]; cbn [cut concat]; try reflexivity.
        - now rewrite app_nil_r.
        - destruct n as [|n]; [apply IH|]. cbn [concat]. rewrite IH. apply firstn_skipn. }
      rewrite Ec. now apply sort_kstrict. }
    rewrite Eo, Ev. cbn [bind]. rewrite Ed, state_eqb_refl. reflexivity.
  Qed.
End WithHash.
