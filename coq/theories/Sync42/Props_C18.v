(* Props_C18.v — the property theorems for C18 and nothing else.
   C18: "The coalescing queue runs each request once, in order, returning its own result; the wait
   list beneath it always has exactly one head among linked waiters and hands the head position to
   the next waiter when the head leaves; the size-bounded LRU cache behaves as a sequential
   least-recently-used map whose accounted size equals the sum of its entries' sizes and exceeds
   the capacity only by entries inserted with eviction disabled."
   Models: ModelWcq.v (do_work as a small-step interleaving machine over the ring of
   ModelWaitList.v: threads = program counters + locals, mutexes `state` and `core`, condition
   variables with spurious wake-ups and an arbitrary notify_one choice), ModelWaitList.v (the ring),
   ModelLru.v (raw-pointer doubly linked list + index).
   External code, universally quantified: the queue's core (can_batch / batch / work: any
   functions of any state; the one assumption is that work yields at least `taken` outputs), key
   equality `keqb` (reflects equality) and `vsize` (Value::approximate_size: any function).
   A schedule is any list of actions (thread t takes its next step with notify_one choice c |
   thread t wakes spuriously); a blocked or finished thread's action is a no-op, so "for all
   sched" is "for every interleaving"; n is the number of ring slots (any n > 0, so also fewer
   slots than threads), progs gives each thread the inputs it submits one call after the other. *)
From Coq Require Import NArith Arith List Bool Permutation.
From Blue Require Import Gen.Const_Sync42 Sync42.ModelLru Sync42.ModelWaitList Sync42.ModelWcq.
From Blue Require Import Sync42.AcceptWcq Sync42.ProofsLru Sync42.ProofsWaitList Sync42.ProofsC18.
From Blue Require Import Sync42.ProofsWcqInv Sync42.ProofsWcqLive1 Sync42.ProofsWcqProg Sync42.ProofsWcq.
From Blue Require Import Sync42.ProofsWcqTerm Sync42.ProofsWcqStarve Sync42.ProofsAccept Sync42.PropsPrelude.
Import ListNotations.
Open Scope nat_scope.

(* ===================================================================== the coalescing queue *)

(* no interleaving makes do_work panic: none of its assert!/panic! sites, none of the wait list's
   assertions, no unwrap of an empty cell, no underflow of waiting_for_available *)
Theorem C18_queue_no_panic : forall (Inp Outp Acc CS : Type) (acc0 : Acc)
    (can_batch : CS -> Acc -> Inp -> bool) (batch : CS -> Acc -> Inp -> CS * Acc)
    (work : CS -> nat -> Acc -> CS * list Outp),
  (forall cs n acc, n <= length (snd (work cs n acc))) ->
  forall n core progs sched, 0 < n ->
  exists g, ModelWcq.run Inp Outp Acc CS acc0 can_batch batch work
              (ginit Inp Outp Acc CS n core progs) sched = Ok g.
Proof. exact wcq_no_panic. Qed.

(* the core sees each input exactly once, in the order the calls entered the queue: the inputs
   handed to core.batch so far (g_seen) are exactly the inputs of the first |g_seen| links, in
   link (= index) order; the batches given to core.work are consecutive non-empty index ranges
   starting at 0, each answered with at least as many outputs as inputs; once all calls have
   returned, every link has been handed over and batched *)
Theorem C18_queue_exactly_once_in_order : forall (Inp Outp Acc CS : Type) (acc0 : Acc)
    (can_batch : CS -> Acc -> Inp -> bool) (batch : CS -> Acc -> Inp -> CS * Acc)
    (work : CS -> nat -> Acc -> CS * list Outp),
  (forall cs n acc, n <= length (snd (work cs n acc))) ->
  forall n core progs sched g, 0 < n ->
  ModelWcq.run Inp Outp Acc CS acc0 can_batch batch work (ginit Inp Outp Acc CS n core progs) sched = Ok g ->
  length (g_seen g) <= length (g_links g) /\
  g_seen g = map snd (firstn (length (g_seen g)) (g_links g)) /\
  exists e, batches_from 0 (g_batches g) = Some e /\ e <= length (g_seen g) /\
    ((forall t th, nth_error (g_threads g) t = Some th -> mid_batch (t_pc th) = false) ->
     e = length (g_seen g)) /\
    (all_finished g = true -> e = length (g_seen g) /\ length (g_seen g) = length (g_links g)).
Proof. exact wcq_exactly_once_in_order. Qed.

(* every call returns the output produced for its own input: a finished call of thread t that
   was linked at index idx (with t's input) returned the output at position idx - f of the batch
   [f, f+k) containing idx; no two finished calls share an index *)
Theorem C18_queue_own_output : forall (Inp Outp Acc CS : Type) (acc0 : Acc)
    (can_batch : CS -> Acc -> Inp -> bool) (batch : CS -> Acc -> Inp -> CS * Acc)
    (work : CS -> nat -> Acc -> CS * list Outp),
  (forall cs n acc, n <= length (snd (work cs n acc))) ->
  forall n core progs sched g, 0 < n ->
  ModelWcq.run Inp Outp Acc CS acc0 can_batch batch work (ginit Inp Outp Acc CS n core progs) sched = Ok g ->
  (forall t th idx o, nth_error (g_threads g) t = Some th -> In (idx, o) (t_done th) ->
     (exists i, nth_error (g_links g) idx = Some (t, i)) /\ designated g idx o) /\
  (forall t1 t2 th1 th2 idx o1 o2,
     nth_error (g_threads g) t1 = Some th1 -> nth_error (g_threads g) t2 = Some th2 ->
     In (idx, o1) (t_done th1) -> In (idx, o2) (t_done th2) -> t1 = t2) /\
  (forall t th, nth_error (g_threads g) t = Some th -> NoDup (map fst (t_done th))).
Proof. exact wcq_own_output. Qed.

(* each thread's calls enter the queue in its program order, with its own inputs *)
Theorem C18_queue_program_order : forall (Inp Outp Acc CS : Type) (acc0 : Acc)
    (can_batch : CS -> Acc -> Inp -> bool) (batch : CS -> Acc -> Inp -> CS * Acc)
    (work : CS -> nat -> Acc -> CS * list Outp),
  (forall cs n acc, n <= length (snd (work cs n acc))) ->
  forall n core progs sched g, 0 < n ->
  ModelWcq.run Inp Outp Acc CS acc0 can_batch batch work (ginit Inp Outp Acc CS n core progs) sched = Ok g ->
  forall t th, nth_error (g_threads g) t = Some th ->
  exists cur, length cur <= 1 /\
    map (fun io => option_map snd (nth_error (g_links g) (fst io))) (rev (t_done th))
      ++ map Some cur ++ map Some (t_todo th) = map Some (nth t progs []).
Proof. exact wcq_program_order. Qed.

(* when every call has returned the core has seen exactly the submitted inputs *)
Theorem C18_queue_all_inputs_seen : forall (Inp Outp Acc CS : Type) (acc0 : Acc)
    (can_batch : CS -> Acc -> Inp -> bool) (batch : CS -> Acc -> Inp -> CS * Acc)
    (work : CS -> nat -> Acc -> CS * list Outp),
  (forall cs n acc, n <= length (snd (work cs n acc))) ->
  forall n core progs sched g, 0 < n ->
  ModelWcq.run Inp Outp Acc CS acc0 can_batch batch work (ginit Inp Outp Acc CS n core progs) sched = Ok g ->
  all_finished g = true -> Permutation (g_seen g) (concat progs).
Proof. exact wcq_all_done. Qed.

(* no call blocks forever while nothing can move (safety form of progress): in every reachable
   state with an unfinished thread some thread can take a step -- spurious wake-ups NOT counted,
   so no state has all unfinished threads asleep without a pending notification or queued behind a
   mutex that will not be released (no lost wake-up, no lock cycle), also with fewer slots than
   threads.  Fairness of the scheduler / of notify_one is not assumed and starvation is not
   excluded. *)
Theorem C18_queue_no_deadlock : forall (Inp Outp Acc CS : Type) (acc0 : Acc)
    (can_batch : CS -> Acc -> Inp -> bool) (batch : CS -> Acc -> Inp -> CS * Acc)
    (work : CS -> nat -> Acc -> CS * list Outp),
  (forall cs n acc, n <= length (snd (work cs n acc))) ->
  forall n core progs sched g, 0 < n ->
  ModelWcq.run Inp Outp Acc CS acc0 can_batch batch work (ginit Inp Outp Acc CS n core progs) sched = Ok g ->
  all_finished g = false ->
  exists t, enabled Inp Outp Acc CS acc0 can_batch batch work g t = true.
Proof. exact wcq_no_deadlock. Qed.

(* no lost wake-up, named: (a) a waiter that is the head and sleeps without a notification has a
   notifier on its way (the leader still working, or a thread between its unlink and its
   notify_head); (b) a call sleeping in link() while the ring has room has a notifier on its way *)
Theorem C18_queue_no_lost_wakeup : forall (Inp Outp Acc CS : Type) (acc0 : Acc)
    (can_batch : CS -> Acc -> Inp -> bool) (batch : CS -> Acc -> Inp -> CS * Acc)
    (work : CS -> nat -> Acc -> CS * list Outp),
  (forall cs n acc, n <= length (snd (work cs n acc))) ->
  forall n core progs sched g, 0 < n ->
  ModelWcq.run Inp Outp Acc CS acc0 can_batch batch work (ginit Inp Outp Acc CS n core progs) sched = Ok g ->
  (forall t th idx, nth_error (g_threads g) t = Some th -> t_pc th = PSleep idx false ->
     w_head (g_wl g) = idx ->
     g_dw g = true \/
     exists t' th', nth_error (g_threads g) t' = Some th' /\ will_notify_head (t_pc th') = true) /\
  ((exists t th i, nth_error (g_threads g) t = Some th /\ t_pc th = PLinkSleep i false) ->
   wl_full (g_wl g) = false ->
   exists t' th', nth_error (g_threads g) t' = Some th' /\
     ((exists idx, pc_idx (t_pc th') = Some idx) \/
      (exists idx o, t_pc th' = PExitWA idx o) \/ (exists idx o, t_pc th' = PLeaderWA idx o) \/
      (exists i, t_pc th' = PLinkSleep i true))).
Proof. exact wcq_no_lost_wakeup. Qed.

(* progress without any fairness assumption, for the finite workloads of the model: the number of
   effective thread steps (esteps: scheduled steps that were not blocked) of ANY run is at most
   33 per submitted call plus 4 per spurious wake-up (a measure on states decreases with every
   step); so whoever keeps running threads that can move -- in any order -- finishes every call:
   a run that has taken that many effective steps, or that no thread step can extend, has
   finished all calls.  (Together with C18_queue_no_deadlock: such a step exists until then.) *)
Theorem C18_queue_bounded_work : forall (Inp Outp Acc CS : Type) (acc0 : Acc)
    (can_batch : CS -> Acc -> Inp -> bool) (batch : CS -> Acc -> Inp -> CS * Acc)
    (work : CS -> nat -> Acc -> CS * list Outp),
  forall n core progs sched g, 0 < n ->
  ModelWcq.run Inp Outp Acc CS acc0 can_batch batch work (ginit Inp Outp Acc CS n core progs) sched = Ok g ->
  esteps Inp Outp Acc CS acc0 can_batch batch work (ginit Inp Outp Acc CS n core progs) sched + measure g
    <= 33 * length (concat progs) + 4 * nspurious sched.
Proof. exact wcq_bounded_work_init. Qed.

Theorem C18_queue_every_nonidling_run_completes : forall (Inp Outp Acc CS : Type) (acc0 : Acc)
    (can_batch : CS -> Acc -> Inp -> bool) (batch : CS -> Acc -> Inp -> CS * Acc)
    (work : CS -> nat -> Acc -> CS * list Outp),
  (forall cs n acc, n <= length (snd (work cs n acc))) ->
  forall n core progs sched g, 0 < n ->
  ModelWcq.run Inp Outp Acc CS acc0 can_batch batch work (ginit Inp Outp Acc CS n core progs) sched = Ok g ->
  (33 * length (concat progs) + 4 * nspurious sched
     <= esteps Inp Outp Acc CS acc0 can_batch batch work (ginit Inp Outp Acc CS n core progs) sched ->
   all_finished g = true) /\
  ((forall t, enabled Inp Outp Acc CS acc0 can_batch batch work g t = false) -> all_finished g = true).
Proof.
  intros Inp Outp Acc CS acc0 can_batch batch work Hw n core progs sched g Hn Hr.
  exact (conj (wcq_enough_steps_finish Inp Outp Acc CS acc0 can_batch batch work n core progs sched g Hn Hr)
              (wcq_maximal_run_finished Inp Outp Acc CS acc0 can_batch batch work Hw n core progs sched g Hn Hr)).
Qed.

(* "no call blocks forever while other calls keep completing", for calls that are IN the queue
   (linked): nobody overtakes them.  A call linked at index idx in state g1 and not yet handed to
   the core is, in every later state g2 in which it has been handed over, preceded at the core by
   exactly the calls linked before it (indices below idx) and by no call that entered later.
   (This is the `outside the known class` half of link-starvation below.) *)
Theorem C18_link_starvation_outside_known : forall (Inp Outp Acc CS : Type) (acc0 : Acc)
    (can_batch : CS -> Acc -> Inp -> bool) (batch : CS -> Acc -> Inp -> CS * Acc)
    (work : CS -> nat -> Acc -> CS * list Outp),
  (forall cs n acc, n <= length (snd (work cs n acc))) ->
  forall n core progs sched1 g1 sched2 g2, 0 < n ->
  ModelWcq.run Inp Outp Acc CS acc0 can_batch batch work (ginit Inp Outp Acc CS n core progs) sched1 = Ok g1 ->
  ModelWcq.run Inp Outp Acc CS acc0 can_batch batch work g1 sched2 = Ok g2 ->
  forall idx, idx < length (g_links g1) -> length (g_seen g1) <= idx -> idx < length (g_seen g2) ->
  firstn (S idx) (g_links g2) = firstn (S idx) (g_links g1) /\
  firstn (S idx) (g_seen g2) = map snd (firstn (S idx) (g_links g1)).
Proof. exact wcq_linked_fifo. Qed.

(* ... but a call that is still asleep in WaitList::link (more callers than slots) can be
   overtaken without bound by calls that arrive later (known class link-starvation): notify_one
   only makes the sleeper runnable, and an arrival that finds room links without sleeping.  For
   every k there is a schedule on a ring of one slot in which thread 1, which called link first
   after thread 0's first call, is notified k times with the slot free, is scheduled after each
   notification (once in every cycle of 16 steps), finds the ring full again each time and is
   still asleep in link() after thread 0 has completed k calls that all entered the queue later.
   (starved k g: pcs = [PEnter k; PLinkSleep 9 false], thread 0 has k finished calls, thread 1
   none, all k+1 links were made by thread 0, waiting_for_available = 1.)  With finite workloads
   the sleeper does get in once the others stop calling (C18_queue_every_nonidling_run_completes). *)
Theorem C18_link_starvation_refuted : forall k, exists g,
  ModelWcq.run nat nat (list nat) unit [] sv_can sv_batch sv_work
    (ginit nat nat (list nat) unit 1 tt [repeat 7 (S k); [9]]) (starve_sched k) = Ok g /\
  starved k g /\
  length (starve_sched k) = 2 + 16 * k /\
  length (filter (fun a => match a with ARun 1 _ => true | _ => false end) (starve_sched k)) = S k.
Proof.
  intro k. destruct (starve_exists k) as (g & Hr & Hs).
  exists g. exact (conj Hr (conj Hs (starve_sched_fair k))).
Qed.

(* the tie to the code: a trace of the real queue that the acceptor (AcceptWcq.v) accepts is a
   run of the model, so its final state is covered by the theorems above *)
Theorem C18_accepted_trace_is_model_run : forall tr g n g',
  accept_trace g n tr = inl g' -> exists sched, h_run g sched = Ok g'.
Proof. exact accept_trace_sound. Qed.

(* the same for the strict acceptor (every wake-up explained by a notification), whose model
   component is a_g *)
Theorem C18_strictly_accepted_trace_is_model_run : forall strict tr st n st',
  accept_trace_s strict st n tr = inl st' -> exists sched, h_run (a_g st) sched = Ok (a_g st').
Proof. exact accept_trace_s_sound. Qed.

(* the hypothesis on the core is satisfiable (a core that batches everything and answers each
   input with the batch size) and finished states exist (two threads, one slot) *)
Example C18_queue_instance :
  (forall (cs : unit) n (acc : list nat), n <= length (snd (ex_work cs n acc))) /\
  match ModelWcq.run nat nat (list nat) unit [] (fun _ _ _ => true) (fun cs acc i => (cs, acc ++ [i]))
          ex_work (ginit nat nat (list nat) unit 1 tt [[7; 8]; [9]])
          (concat (repeat [ARun 0 0; ARun 1 0] 60)) with
  | Ok g => all_finished g = true /\ g_seen g = [7; 9; 8]
  | _ => False
  end.
Proof. split; [exact ex_work_len | vm_compute; repeat split]. Qed.

(* ===================================================================== the wait list *)

(* every sequence of link (incl. blocked calls and their wake-ups), unlink in any order,
   notify_head, store, load, is_head, count on a ring of any size n > 0 runs without panic
   (no assert fires, no unwrap of None) and gives exactly the outputs of the specification
   "linked waiters in link order, the oldest is the head, link blocks while head + n <= next" *)
Theorem C18_waitlist_refines_spec : forall (T : Type) n ops, 0 < n ->
  exists c, wrun T (client_new T n) ops = Ok (c, snd (sp_run T (spec_new T n) ops)) /\
            wl_rel T c (fst (sp_run T (spec_new T n) ops)).
Proof. exact wl_run_refines. Qed.

(* in every reachable state the linked waiters are exactly the guards handed out and not yet
   unlinked; if there is one, exactly one of them is the head, and it is the oldest *)
Theorem C18_waitlist_one_head : forall (T : Type) n ops c outs, 0 < n ->
  wrun T (client_new T n) ops = Ok (c, outs) ->
  live T (c_wl T c) = c_owned T c /\
  (c_owned T c <> [] ->
     exists h, In h (c_owned T c) /\ is_head T (c_wl T c) h = true /\
       (forall i, In i (c_owned T c) -> is_head T (c_wl T c) i = true -> i = h) /\
       (forall i, In i (c_owned T c) -> h <= i)) /\
  (c_owned T c = [] -> w_head (c_wl T c) = w_tail (c_wl T c)).
Proof. exact wl_reachable_one_head. Qed.

(* when the head leaves, the head position goes to the next (oldest remaining) linked waiter,
   whatever order the others have unlinked in *)
Theorem C18_waitlist_handover : forall (T : Type) n ops c outs h rest, 0 < n ->
  wrun T (client_new T n) ops = Ok (c, outs) -> c_owned T c = h :: rest ->
  exists w' b, wl_unlink T (c_wl T c) h = Ok (w', b) /\ live T w' = rest /\
    w_head w' = hd (w_tail (c_wl T c)) rest /\
    (forall i, In i rest -> is_head T w' i = true <-> i = hd 0 rest).
Proof. exact wl_reachable_handover. Qed.

(* a waiter that is not the head can unlink at any time; the head stays where it is *)
Theorem C18_waitlist_unlink_any_order : forall (T : Type) n ops c outs i, 0 < n ->
  wrun T (client_new T n) ops = Ok (c, outs) ->
  In i (c_owned T c) -> i <> w_head (c_wl T c) ->
  exists w' b, wl_unlink T (c_wl T c) i = Ok (w', b) /\ w_head w' = w_head (c_wl T c) /\
    live T w' = filter (fun j => negb (j =? i)) (c_owned T c).
Proof. exact wl_reachable_unlink_other. Qed.

(* more waiters than slots: link blocks exactly when the ring is spanned; otherwise it hands out
   the next index (index order = order of entry) and the waiter holds its value *)
Theorem C18_waitlist_link : forall (T : Type) n ops c outs t, 0 < n ->
  wrun T (client_new T n) ops = Ok (c, outs) ->
  ((exists w', wl_link_try T (c_wl T c) t = Ok (MustWait T w')) <->
   w_tail (c_wl T c) - w_head (c_wl T c) = nslots T (c_wl T c)) /\
  (forall w' i, wl_link_try T (c_wl T c) t = Ok (Linked T w' i) ->
     i = w_tail (c_wl T c) /\ live T w' = live T (c_wl T c) ++ [i] /\ wl_load T w' i = Ok t).
Proof. exact wl_reachable_link. Qed.

(* the ring size of the code satisfies the hypothesis 0 < n *)
Example C18_ring_size : 0 < N.to_nat MAX_CONCURRENCY.
Proof. apply Nat.ltb_lt. vm_compute. reflexivity. Qed.

(* ===================================================================== the LRU cache *)

(* every operation sequence on the pointer-level model runs without panic, without touching a
   null or freed node and within its fuel, returns what the sequential LRU map returns, and ends
   in a state that represents the map's state (well-formed doubly linked list from head to tail,
   most recently used first; index = exactly the nodes; nothing else allocated) *)
Theorem C18_lru_refines_spec : forall (K V : Type) keqb (vsize : V -> N),
  (forall a b : K, keqb a b = true <-> a = b) -> forall cap ops,
  exists st, ModelLru.run K V keqb vsize cap (ModelLru.init K V) ops
             = Ok (st, snd (s_run K V keqb vsize cap [] ops)) /\
             Rep K V vsize st (fst (s_run K V keqb vsize cap [] ops)).
Proof. exact lru_run_refines. Qed.

(* the accounted size is the sum of the entries' sizes; one heap node and one index entry per
   entry (no leak); keys are distinct; head/tail are null exactly when the cache is empty *)
Theorem C18_lru_size_exact : forall (K V : Type) keqb (vsize : V -> N),
  (forall a b : K, keqb a b = true <-> a = b) -> forall cap ops st outs,
  ModelLru.run K V keqb vsize cap (ModelLru.init K V) ops = Ok (st, outs) ->
  let l := fst (s_run K V keqb vsize cap [] ops) in
  st_size K V st = total K V vsize l /\
  length (st_heap K V st) = length l /\ length (st_keys K V st) = length l /\
  NoDup (map fst l) /\
  (l = [] <-> st_head K V st = null) /\ (l = [] <-> st_tail K V st = null).
Proof. exact lru_size_exact. Qed.

(* the size exceeds the capacity only by entries whose most recent write had eviction disabled *)
Theorem C18_lru_capacity : forall (K V : Type) keqb (vsize : V -> N),
  (forall a b : K, keqb a b = true <-> a = b) -> forall cap ops st outs,
  ModelLru.run K V keqb vsize cap (ModelLru.init K V) ops = Ok (st, outs) ->
  let l := fst (s_run K V keqb vsize cap [] ops) in
  (st_size K V st <= cap + ne_total K V keqb vsize l (ne_run K V keqb vsize cap [] [] ops))%N.
Proof. exact lru_size_capacity. Qed.

(* after an evicting insert the map is within the capacity; without insert_no_evict always *)
Theorem C18_lru_within_capacity : forall (K V : Type) keqb (vsize : V -> N) cap,
  (forall l k v, (total K V vsize (fst (s_step K V keqb vsize cap l (OInsert k v))) <= cap)%N) /\
  (forall ops, (forall k v, ~ In (OInsertNoEvict k v) ops) ->
     (total K V vsize (fst (s_run K V keqb vsize cap [] ops)) <= cap)%N).
Proof.
  intros K V keqb vsize cap.
  exact (conj (lru_insert_within_capacity K V keqb vsize cap)
              (lru_within_capacity_without_no_evict K V keqb vsize cap)).
Qed.

(* eviction removes least recently used entries: what stays is the longest most-recently-used
   prefix that fits *)
Theorem C18_lru_evicts_least_recent : forall (K V : Type) (vsize : V -> N) cap l, exists j,
  s_evict K V vsize cap l = firstn j l /\ (total K V vsize (firstn j l) <= cap)%N /\
  (j < length l -> (cap < total K V vsize (firstn (S j) l))%N).
Proof. exact s_evict_char. Qed.

(* the hypotheses are satisfiable: numeric keys, (id, size) values *)
Example C18_lru_instance : forall a b : N, N.eqb a b = true <-> a = b.
Proof. exact N.eqb_eq. Qed.
