(* Sync42/ProofsWcqProg.v — what the safety invariant of ModelWcq.v says about the observable
   ghost state: exactly-once / in-order hand-over to the core, own outputs, program order,
   completion. *)
From Coq Require Import Arith List Bool Lia Sorted Permutation.
From Blue Require Import Sync42.ModelLru Sync42.ModelWaitList Sync42.ModelWcq Sync42.ProofsWaitList
  Sync42.ProofsWcqBase Sync42.ProofsWcqInv Sync42.ProofsWcqStep1.
Import ListNotations.
Open Scope nat_scope.

Local Arguments Nat.modulo : simpl never.
Local Arguments Nat.div : simpl never.

(* ---- implicit type arguments, local to this file (the same block opens every ProofsWcq* file) *)
Local Arguments s_linked {T}. Local Arguments s_value {T}. Local Arguments w_head {T}. Local Arguments w_tail {T}.
Local Arguments w_waiting {T}. Local Arguments w_slots {T}. Local Arguments mkWl {T}. Local Arguments nslots {T}.
Local Arguments slot_at {T}. Local Arguments set_slot {T}. Local Arguments with_head {T}. Local Arguments with_tail {T}.
Local Arguments with_waiting {T}. Local Arguments invariants_ok {T}. Local Arguments wl_full {T}.
Local Arguments Linked {T}. Local Arguments MustWait {T}. Local Arguments wl_link_try {T}. Local Arguments wl_link_wake {T}.
Local Arguments wl_unlink {T}. Local Arguments wl_notify_head {T}. Local Arguments wl_store {T}. Local Arguments wl_load {T}.
Local Arguments wl_is_head {T}. Local Arguments wl_iter_next {T}. Local Arguments live {T}. Local Arguments wl_new {T}.
Local Arguments wl_wf {T}. Local Arguments link_new {T}.
Local Arguments in_live {T}. Local Arguments live_sorted {T}. Local Arguments live_nodup {T}. Local Arguments live_hd {T}.
Local Arguments live_nil_head {T}. Local Arguments slot_at_set_same {T}. Local Arguments slot_at_set_other {T}.
Local Arguments wf_invariants_ok {T}. Local Arguments unlink_spec {T}. Local Arguments link_new_spec {T}.
Local Arguments wl_link_try_unfold {T}. Local Arguments store_spec {T}. Local Arguments nslots_link_new {T}.
Local Arguments wl_wf_split {T}.

Local Arguments PIdle {Inp Outp Acc}. Local Arguments PLinkSleep {Inp Outp Acc}. Local Arguments PEnter {Inp Outp Acc}.
Local Arguments PTest {Inp Outp Acc}. Local Arguments PLoad {Inp Outp Acc}. Local Arguments PWait {Inp Outp Acc}.
Local Arguments PSleep {Inp Outp Acc}. Local Arguments PExitUnlink {Inp Outp Acc}.
Local Arguments PExitWA {Inp Outp Acc}. Local Arguments PExitNotify {Inp Outp Acc}.
Local Arguments PHead {Inp Outp Acc}. Local Arguments PLockCore {Inp Outp Acc}. Local Arguments PBatch {Inp Outp Acc}.
Local Arguments PWork {Inp Outp Acc}. Local Arguments PDist {Inp Outp Acc}. Local Arguments PLeaderLoad {Inp Outp Acc}.
Local Arguments PLeaderUnlink {Inp Outp Acc}. Local Arguments PLeaderWA {Inp Outp Acc}.
Local Arguments PLeaderClear {Inp Outp Acc}. Local Arguments PLeaderNotify {Inp Outp Acc}.
Local Arguments mkThread {Inp Outp Acc}. Local Arguments t_pc {Inp Outp Acc}. Local Arguments t_todo {Inp Outp Acc}.
Local Arguments t_done {Inp Outp Acc}.
Local Arguments mkG {Inp Outp Acc CS}. Local Arguments g_wl {Inp Outp Acc CS}. Local Arguments g_S {Inp Outp Acc CS}.
Local Arguments g_C {Inp Outp Acc CS}. Local Arguments g_dw {Inp Outp Acc CS}. Local Arguments g_core {Inp Outp Acc CS}.
Local Arguments g_threads {Inp Outp Acc CS}. Local Arguments g_links {Inp Outp Acc CS}.
Local Arguments g_seen {Inp Outp Acc CS}. Local Arguments g_batches {Inp Outp Acc CS}.
Local Arguments with_threads {Inp Outp Acc CS}. Local Arguments with_wl {Inp Outp Acc CS}.
Local Arguments with_S {Inp Outp Acc CS}. Local Arguments with_C {Inp Outp Acc CS}.
Local Arguments with_dw {Inp Outp Acc CS}. Local Arguments set_pc {Inp Outp Acc}.
Local Arguments set_thread {Inp Outp Acc CS}. Local Arguments tokenize {Inp Outp Acc}.
Local Arguments wake_nth {Inp Outp Acc}. Local Arguments count_sel {Inp Outp Acc}.
Local Arguments notify_one {Inp Outp Acc}. Local Arguments sleeps_on {Inp Outp Acc}.
Local Arguments sleeps_wa {Inp Outp Acc}. Local Arguments notify_cond {Inp Outp Acc CS}.
Local Arguments notify_wa {Inp Outp Acc CS}.
Local Arguments SOk {Inp Outp Acc CS}. Local Arguments SBlocked {Inp Outp Acc CS}.
Local Arguments SDone {Inp Outp Acc CS}. Local Arguments SPanic {Inp Outp Acc CS}.
Local Arguments after_link {Inp Outp Acc CS}. Local Arguments finish {Inp Outp Acc}.
Local Arguments spurious {Inp Outp Acc CS}. Local Arguments thread_finished {Inp Outp Acc}.
Local Arguments all_finished {Inp Outp Acc CS}.

(* ---- list facts *)
Section PermOwner.
  Context {B : Type}.

  Lemma concat_map_nil : forall (A : Type) (l : list A), concat (map (fun _ => @nil B) l) = [].
  Proof. induction l; cbn [map concat app]; auto. Qed.

  Lemma concat_insert : forall (F : nat -> list B) (i : B) u n a,
    a <= u < a + n ->
    Permutation (concat (map (fun v => (if u =? v then [i] else []) ++ F v) (seq a n)))
                (i :: concat (map F (seq a n))).
  Proof.
    intros F i u n. induction n as [|n IH]; intros a Ha; [lia|].
    cbn [seq map concat].
    destruct (Nat.eqb_spec u a) as [E | E].
    - subst a. cbn [app].
      replace (map (fun v => (if u =? v then [i] else []) ++ F v) (seq (S u) n))
        with (map F (seq (S u) n)); [apply Permutation_refl|].
      apply map_ext_in. intros v Hv. apply in_seq in Hv.
      destruct (Nat.eqb_spec u v); [lia | reflexivity].
    - cbn [app].
      eapply Permutation_trans; [apply Permutation_app_head; apply IH; lia|].
      apply Permutation_sym. apply Permutation_middle.
  Qed.

  Lemma perm_by_owner : forall (links : list (nat * B)) n,
    (forall idx u i, nth_error links idx = Some (u, i) -> u < n) ->
    Permutation (map snd links)
      (concat (map (fun u => map snd (filter (fun p => fst p =? u) links)) (seq 0 n))).
  Proof.
    induction links as [|[u i] r IH]; intros n Hlt.
    - cbn [map filter]. rewrite concat_map_nil. apply Permutation_refl.
    - assert (Hu : u < n) by (apply (Hlt 0 u i); reflexivity).
      assert (Hr : forall idx u i, nth_error r idx = Some (u, i) -> u < n)
        by (intros idx u' i' H; apply (Hlt (S idx) u' i'); exact H).
      cbn [map snd].
      eapply Permutation_trans; [apply perm_skip; apply (IH n Hr)|].
      apply Permutation_sym.
      eapply Permutation_trans; [|apply (concat_insert _ i u n 0); lia].
      replace (map (fun u0 => map snd (filter (fun p => fst p =? u0) ((u, i) :: r))) (seq 0 n))
        with (map (fun v => (if u =? v then [i] else []) ++
                            map snd (filter (fun p => fst p =? v) r)) (seq 0 n));
        [apply Permutation_refl|].
      apply map_ext. intro v. cbn [filter fst]. destruct (u =? v); reflexivity.
  Qed.

  Lemma map_nth_seq : forall (l : list B) d, map (fun u => nth u l d) (seq 0 (length l)) = l.
  Proof.
    intros l d. induction l as [|x r IH]; [reflexivity|].
    cbn [length seq map nth]. f_equal. rewrite <- seq_shift, map_map. exact IH.
  Qed.
End PermOwner.

Lemma nodup_app_l : forall {A} (l r : list A), NoDup (l ++ r) -> NoDup l.
Proof.
  intros A l r. induction l as [|x l IH]; cbn [app]; intro H; [constructor|].
  inversion H as [|y ys Hnin Hnd]; subst. constructor; [|apply IH; exact Hnd].
  intro Hin. apply Hnin. apply in_or_app. left. exact Hin.
Qed.

Lemma nodup_rev : forall {A} (l : list A), NoDup l -> NoDup (rev l).
Proof.
  intros A l H. induction H as [|x l Hnin Hnd IH]; cbn [rev]; [constructor|].
  assert (Hp : Permutation (x :: rev l) (rev l ++ [x])) by (apply Permutation_cons_append).
  eapply Permutation_NoDup; [exact Hp|]. constructor; [|exact IH].
  intro Hin. apply Hnin. apply in_rev. exact Hin.
Qed.

Section Prog.
  Context {Inp Outp Acc CS : Type}.
  Notation pc := (pc Inp Outp Acc).
  Notation thread := (thread Inp Outp Acc).
  Notation gstate := (gstate Inp Outp Acc CS).
  Variable progs : list (list Inp).

  Definition designated (g : gstate) (idx : nat) (o : Outp) : Prop :=
    exists f k outs, In (f, k, outs) (g_batches g) /\ f <= idx < f + k /\
                     nth_error outs (idx - f) = Some o.

  (* the thread is inside the batching loop or the work call *)
  Definition mid_batch (p : pc) : bool :=
    match p with PBatch _ _ _ _ | PWork _ _ _ => true | _ => false end.

  Lemma all_finished_thread : forall (g : gstate) u th,
    all_finished g = true -> nth_error (g_threads g) u = Some th ->
    t_pc th = PIdle /\ t_todo th = [].
  Proof.
    intros g u th Hf Hu. unfold all_finished in Hf.
    assert (Hin : In th (g_threads g)) by (eapply nth_error_In; exact Hu).
    assert (E := proj1 (forallb_forall _ _) Hf th Hin). unfold thread_finished in E.
    destruct (t_pc th); try discriminate. destruct (t_todo th); [auto | discriminate].
  Qed.

  Lemma finished_quiescent : forall (g : gstate) lo cov ld,
    InvR progs g lo cov ld -> all_finished g = true ->
    ld = None /\ length (g_seen g) = w_tail (g_wl g).
  Proof.
    intros g lo cov ld H Hf.
    assert (Hld : ld = None).
    { destruct ld as [l|]; [|reflexivity]. exfalso.
      destruct (proj2 (i_L _ _ _ _ _ H) l eq_refl) as (thl & Hl & HLP).
      destruct (all_finished_thread g l thl Hf Hl) as [E _]. rewrite E in HLP. discriminate. }
    split; [exact Hld|].
    destruct (i_noleader _ _ _ _ _ H Hld) as [Elo _].
    assert (Hsv := i_served _ _ _ _ _ H).
    destruct (Nat.eq_dec (length (g_seen g)) (w_tail (g_wl g))) as [E | E]; [exact E | exfalso].
    assert (Hl : In (length (g_seen g)) (live (g_wl g))) by (apply (i_live_hi _ _ _ _ _ H); lia).
    destruct (i_live_idx _ _ _ _ _ H _ Hl) as (u & thu & Hu & Hp).
    destruct (all_finished_thread g u thu Hf Hu) as [E' _]. rewrite E' in Hp. discriminate.
  Qed.

  (* T2 *)
  Theorem inv_exactly_once_in_order : forall (g : gstate), Inv progs g ->
    length (g_seen g) <= length (g_links g) /\
    g_seen g = map snd (firstn (length (g_seen g)) (g_links g)) /\
    exists e, batches_from 0 (g_batches g) = Some e /\ e <= length (g_seen g) /\
      ((forall t th, nth_error (g_threads g) t = Some th -> mid_batch (t_pc th) = false) ->
       e = length (g_seen g)) /\
      (all_finished g = true -> e = length (g_seen g) /\ length (g_seen g) = length (g_links g)).
  Proof.
    intros g (lo & cov & ld & H).
    split; [rewrite (i_links_len _ _ _ _ _ H); apply (i_served _ _ _ _ _ H)|].
    split; [apply (i_seen _ _ _ _ _ H)|].
    exists cov. split; [apply (i_batches _ _ _ _ _ H)|]. split; [apply (i_cov _ _ _ _ _ H)|].
    split.
    - intros Hnm. destruct ld as [l|].
      + destruct (proj2 (i_L _ _ _ _ _ H) l eq_refl) as (thl & Hl & HLP).
        assert (Htv := i_tinv _ _ _ _ _ H l thl Hl). specialize (Hnm l thl Hl).
        destruct (t_pc thl); cbn [inLP mid_batch tinv] in *; try discriminate; tauto.
      + apply (i_noleader _ _ _ _ _ H). reflexivity.
    - intros Hf. destruct (finished_quiescent g lo cov ld H Hf) as [Hld Hsv].
      split; [apply (i_noleader _ _ _ _ _ H Hld)|].
      rewrite (i_links_len _ _ _ _ _ H). exact Hsv.
  Qed.

  (* T3 *)
  Theorem inv_own_output : forall (g : gstate), Inv progs g ->
    (forall t th idx o, nth_error (g_threads g) t = Some th -> In (idx, o) (t_done th) ->
       (exists i, nth_error (g_links g) idx = Some (t, i)) /\ designated g idx o) /\
    (forall t1 t2 th1 th2 idx o1 o2,
       nth_error (g_threads g) t1 = Some th1 -> nth_error (g_threads g) t2 = Some th2 ->
       In (idx, o1) (t_done th1) -> In (idx, o2) (t_done th2) -> t1 = t2) /\
    (forall t th, nth_error (g_threads g) t = Some th -> NoDup (map fst (t_done th))).
  Proof.
    intros g (lo & cov & ld & H). split; [|split].
    - intros t th idx o Ht Hin. split.
      + eapply done_links; eassumption.
      + exact (i_done _ _ _ _ _ H t th idx o Ht Hin).
    - intros t1 t2 th1 th2 idx o1 o2 H1 H2 I1 I2.
      destruct (done_links progs g lo cov ld t1 th1 idx o1 H H1 I1) as [i1 E1].
      destruct (done_links progs g lo cov ld t2 th2 idx o2 H H2 I2) as [i2 E2].
      congruence.
    - intros t th Ht.
      assert (Hnd : NoDup (map fst (rev (t_done th)) ++ olist (pc_gidx (t_pc th)))).
      { rewrite (i_own _ _ _ _ _ H t th Ht). apply owned_from_nodup. }
      apply nodup_app_l in Hnd. rewrite map_rev in Hnd.
      apply nodup_rev in Hnd. rewrite rev_involutive in Hnd. exact Hnd.
  Qed.

  (* T4 *)
  Theorem inv_program_order : forall (g : gstate) t th, Inv progs g ->
    nth_error (g_threads g) t = Some th ->
    exists cur, length cur <= 1 /\
      map (fun io => option_map snd (nth_error (g_links g) (fst io))) (rev (t_done th))
        ++ map Some cur ++ map Some (t_todo th) = map Some (nth t progs []).
  Proof.
    intros g t th (lo & cov & ld & H) Ht.
    assert (Hown := i_own _ _ _ _ _ H t th Ht).
    assert (Hprog := i_prog _ _ _ _ _ H t th Ht).
    assert (Hinp := owned_from_inputs (g_links g) [] t). cbn [app length] in Hinp.
    rewrite <- Hown, map_app, map_map in Hinp.
    rewrite <- Hprog, !map_app, <- Hinp, <- app_assoc.
    destruct (pc_gidx (t_pc th)) as [idx|] eqn:Hg.
    - destruct (own_gidx_links progs g lo cov ld t th idx H Ht Hg) as [inp Einp].
      assert (Hpend : pend (t_pc th) = []).
      { destruct (t_pc th); cbn [pc_gidx pend] in *; try reflexivity; discriminate. }
      exists [inp]. split; [cbn; lia|].
      rewrite Hpend. cbn [olist map app]. rewrite Einp. reflexivity.
    - exists (pend (t_pc th)). split.
      + destruct (t_pc th); cbn; lia.
      + cbn [olist map app]. reflexivity.
  Qed.

  (* T5 *)
  Theorem inv_all_done : forall (g : gstate), Inv progs g -> all_finished g = true ->
    Permutation (g_seen g) (concat progs).
  Proof.
    intros g (lo & cov & ld & H) Hf.
    destruct (finished_quiescent g lo cov ld H Hf) as [_ Hsv].
    assert (Hseen : g_seen g = map snd (g_links g)).
    { rewrite (i_seen _ _ _ _ _ H) at 1. rewrite Hsv, <- (i_links_len _ _ _ _ _ H), firstn_all.
      reflexivity. }
    rewrite Hseen.
    eapply Permutation_trans.
    - apply (perm_by_owner (g_links g) (length progs)).
      intros idx u i Hl. rewrite <- (i_nthreads _ _ _ _ _ H). eapply (i_links_thr _ _ _ _ _ H). exact Hl.
    - replace (map (fun u => map snd (filter (fun p => fst p =? u) (g_links g))) (seq 0 (length progs)))
        with (map (fun u => nth u progs []) (seq 0 (length progs))).
      + rewrite map_nth_seq. apply Permutation_refl.
      + apply map_ext_in. intros u Hu. apply in_seq in Hu.
        assert (Hlt : u < length (g_threads g)) by (rewrite (i_nthreads _ _ _ _ _ H); lia).
        destruct (nth_error (g_threads g) u) as [th|] eqn:Eu;
          [|apply nth_error_None in Eu; lia].
        destruct (all_finished_thread g u th Hf Eu) as [Ep Et].
        rewrite <- (i_prog _ _ _ _ _ H u th Eu), Ep, Et. cbn [pend app]. rewrite app_nil_r.
        reflexivity.
  Qed.
End Prog.
