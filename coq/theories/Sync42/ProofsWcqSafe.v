(* Sync42/ProofsWcqSafe.v — every step of every thread preserves the invariant and never panics;
   hence every run from the initial state ends in a state satisfying the invariant. *)
From Coq Require Import Arith List Bool Lia Sorted.
From Blue Require Import Sync42.ModelLru Sync42.ModelWaitList Sync42.ModelWcq Sync42.ProofsWaitList
  Sync42.ProofsWcqBase Sync42.ProofsWcqInv Sync42.ProofsWcqStep1 Sync42.ProofsWcqStep2
  Sync42.ProofsWcqStep3.
Import ListNotations.
Open Scope nat_scope.

Local Arguments Nat.modulo : simpl never.
Local Arguments Nat.div : simpl never.

(* ---- implicit type arguments, local to this file (the same block opens every ProofsWcq* file) *)
Local Arguments s_linked {T}. Local Arguments s_value {T}. Local Arguments w_head {T}. Local Arguments w_tail {T}.
Local Arguments w_waiting {T}. Local Arguments w_slots {T}. Local Arguments mkWl {T}. Local Arguments nslots {T}.
Local Arguments slot_at {T}. Local Arguments set_slot {T}. Local Arguments with_head {T}. Local Arguments with_tail {T}.
Local Arguments with_waiting {T}. Local Arguments invariants_ok {T}. Local Arguments wl_full {T}.
Local Arguments Linked {T}. Local Arguments MustWait {T}. Local Arguments wl_link_try {T}. Local Arguments wl_link_wake {T}.
Local Arguments wl_unlink {T}. Local Arguments wl_notify_head {T}. Local Arguments wl_store {T}. Local Arguments wl_load {T}.
Local Arguments wl_is_head {T}. Local Arguments wl_iter_next {T}. Local Arguments live {T}. Local Arguments wl_new {T}.
Local Arguments wl_wf {T}. Local Arguments link_new {T}.
Local Arguments in_live {T}. Local Arguments live_sorted {T}. Local Arguments live_nodup {T}. Local Arguments live_hd {T}.
Local Arguments live_nil_head {T}. Local Arguments slot_at_set_same {T}. Local Arguments slot_at_set_other {T}.
Local Arguments wf_invariants_ok {T}. Local Arguments unlink_spec {T}. Local Arguments link_new_spec {T}.
Local Arguments wl_link_try_unfold {T}. Local Arguments store_spec {T}. Local Arguments nslots_link_new {T}.
Local Arguments wl_wf_split {T}.

Local Arguments PIdle {Inp Outp Acc}. Local Arguments PLinkSleep {Inp Outp Acc}. Local Arguments PEnter {Inp Outp Acc}.
Local Arguments PTest {Inp Outp Acc}. Local Arguments PLoad {Inp Outp Acc}. Local Arguments PWait {Inp Outp Acc}.
Local Arguments PSleep {Inp Outp Acc}. Local Arguments PExitUnlink {Inp Outp Acc}.
Local Arguments PExitWA {Inp Outp Acc}. Local Arguments PExitNotify {Inp Outp Acc}.
Local Arguments PHead {Inp Outp Acc}. Local Arguments PLockCore {Inp Outp Acc}. Local Arguments PBatch {Inp Outp Acc}.
Local Arguments PWork {Inp Outp Acc}. Local Arguments PDist {Inp Outp Acc}. Local Arguments PLeaderLoad {Inp Outp Acc}.
Local Arguments PLeaderUnlink {Inp Outp Acc}. Local Arguments PLeaderWA {Inp Outp Acc}.
Local Arguments PLeaderClear {Inp Outp Acc}. Local Arguments PLeaderNotify {Inp Outp Acc}.
Local Arguments mkThread {Inp Outp Acc}. Local Arguments t_pc {Inp Outp Acc}. Local Arguments t_todo {Inp Outp Acc}.
Local Arguments t_done {Inp Outp Acc}.
Local Arguments mkG {Inp Outp Acc CS}. Local Arguments g_wl {Inp Outp Acc CS}. Local Arguments g_S {Inp Outp Acc CS}.
Local Arguments g_C {Inp Outp Acc CS}. Local Arguments g_dw {Inp Outp Acc CS}. Local Arguments g_core {Inp Outp Acc CS}.
Local Arguments g_threads {Inp Outp Acc CS}. Local Arguments g_links {Inp Outp Acc CS}.
Local Arguments g_seen {Inp Outp Acc CS}. Local Arguments g_batches {Inp Outp Acc CS}.
Local Arguments with_threads {Inp Outp Acc CS}. Local Arguments with_wl {Inp Outp Acc CS}.
Local Arguments with_S {Inp Outp Acc CS}. Local Arguments with_C {Inp Outp Acc CS}.
Local Arguments with_dw {Inp Outp Acc CS}. Local Arguments set_pc {Inp Outp Acc}.
Local Arguments set_thread {Inp Outp Acc CS}. Local Arguments tokenize {Inp Outp Acc}.
Local Arguments wake_nth {Inp Outp Acc}. Local Arguments count_sel {Inp Outp Acc}.
Local Arguments notify_one {Inp Outp Acc}. Local Arguments sleeps_on {Inp Outp Acc}.
Local Arguments sleeps_wa {Inp Outp Acc}. Local Arguments notify_cond {Inp Outp Acc CS}.
Local Arguments notify_wa {Inp Outp Acc CS}.
Local Arguments SOk {Inp Outp Acc CS}. Local Arguments SBlocked {Inp Outp Acc CS}.
Local Arguments SDone {Inp Outp Acc CS}. Local Arguments SPanic {Inp Outp Acc CS}.
Local Arguments after_link {Inp Outp Acc CS}. Local Arguments finish {Inp Outp Acc}.
Local Arguments spurious {Inp Outp Acc CS}. Local Arguments thread_finished {Inp Outp Acc}.
Local Arguments all_finished {Inp Outp Acc CS}.

Section Safe.
  Context {Inp Outp Acc CS : Type}.
  Context {acc0 : Acc} {can_batch : CS -> Acc -> Inp -> bool} {batch : CS -> Acc -> Inp -> CS * Acc}
          {work : CS -> nat -> Acc -> CS * list Outp}.
  Notation pc := (pc Inp Outp Acc).
  Notation thread := (thread Inp Outp Acc).
  Notation gstate := (gstate Inp Outp Acc CS).
  Notation wst := (wstate Inp Outp).
  Notation TSTEP := (tstep Inp Outp Acc CS acc0 can_batch batch work).
  Variable progs : list (list Inp).
  Hypothesis work_len : forall cs n acc, n <= length (snd (work cs n acc)).

  Definition safe_res (r : sres Inp Outp Acc CS) : Prop :=
    match r with SOk g' => Inv progs g' | SPanic => False | _ => True end.

  Lemma with_waiting_id : forall (w : wl wst), with_waiting w (w_waiting w) = w.
  Proof. intros [h t n s]. reflexivity. Qed.

  (* ---- notification first, then the step *)
  Lemma InvR_notify : forall (g : gstate) lo cov ld sel c,
    InvR progs g lo cov ld ->
    InvR progs (with_threads g (notify_one sel c (g_threads g))) lo cov ld.
  Proof. intros. apply InvR_tokrel; [assumption | apply notify_one_tokrel]. Qed.

  Lemma sleeps_on_false : forall n idx (p : pc),
    (forall j b, p <> PSleep j b) -> sleeps_on n idx p = false.
  Proof. intros n idx p H. destruct p; try reflexivity. exfalso. eapply H. reflexivity. Qed.

  Lemma sleeps_wa_false : forall (p : pc), is_ls p = false -> sleeps_wa p = false.
  Proof. intros p H. destruct p; try reflexivity. discriminate. Qed.

  Lemma pc_not_sleep : forall (p : pc), holdsS p = true \/ holdsC p = true ->
    forall j b, p <> PSleep j b.
  Proof. intros p H j b E. subst p. cbn in H. destruct H; discriminate. Qed.

  Lemma notify_head_inv : forall (g : gstate) lo cov ld t th c,
    InvR progs g lo cov ld -> nth_error (g_threads g) t = Some th ->
    (holdsS (t_pc th) = true \/ holdsC (t_pc th) = true) ->
    let g1 := match wl_notify_head (g_wl g) with Some h => notify_cond g h c | None => g end in
    InvR progs g1 lo cov ld /\ nth_error (g_threads g1) t = Some th /\
    g_wl g1 = g_wl g /\ g_S g1 = g_S g /\ g_C g1 = g_C g /\ g_dw g1 = g_dw g /\
    g_links g1 = g_links g /\ g_seen g1 = g_seen g /\ g_batches g1 = g_batches g.
  Proof.
    intros g lo cov ld t th c H Ht Hh.
    destruct (wl_notify_head (g_wl g)) as [h|]; cbv zeta.
    - split; [apply InvR_notify; exact H|]. split.
      + unfold notify_cond, with_threads. gproj. apply notify_one_unsel; [exact Ht|].
        apply sleeps_on_false. apply pc_not_sleep. exact Hh.
      + repeat split.
    - split; [exact H|]. split; [exact Ht|]. repeat split.
  Qed.

  (* ---- one lemma per program counter *)
  Ltac open_step Ht Hpc :=
    unfold safe_res, tstep; rewrite Ht; cbv beta iota; rewrite Hpc; cbv beta iota.

  Lemma safe_link_try : forall (g : gstate) lo cov ld t th th1 i nw,
    InvR progs g lo cov ld -> nth_error (g_threads g) t = Some th ->
    pc_gidx (t_pc th) = None ->
    nw + (if is_ls (t_pc th) then 1 else 0) = w_waiting (g_wl g) ->
    pend (t_pc th) ++ t_todo th = i :: t_todo th1 -> t_done th1 = t_done th ->
    safe_res (after_link g t th1 i (wl_link_try (with_waiting (g_wl g) nw) (WInput i))).
  Proof.
    intros g lo cov ld t th th1 i nw H Ht Hgidx Hnw Htodo Hdone.
    assert (Hwf : wl_wf (with_waiting (g_wl g) nw)) by exact (i_wf _ _ _ _ _ H).
    rewrite wl_link_try_unfold.
    destruct (wl_full (with_waiting (g_wl g) nw)) eqn:Hfull.
    - rewrite (wf_invariants_ok _ Hwf). cbn [negb after_link safe_res].
      exists lo, cov, ld.
      apply (InvR_mustwait progs g lo cov ld t th (S nw) i (set_pc th1 (PLinkSleep i false)) H Ht Hgidx);
        cbn [set_pc t_todo t_done t_pc]; auto. lia.
    - destruct (link_new_spec _ (WInput i) Hwf Hfull) as (Hwf' & _).
      rewrite (wf_invariants_ok _ Hwf'). cbn [negb after_link safe_res].
      exists lo, cov, ld.
      apply (InvR_link progs g lo cov ld t th nw i (set_pc th1 (PEnter (w_tail (g_wl g)))) H Ht Hgidx);
        cbn [set_pc t_todo t_done t_pc]; auto.
  Qed.

  Lemma safe_PIdle : forall (g : gstate) lo cov ld t th c,
    InvR progs g lo cov ld -> nth_error (g_threads g) t = Some th -> t_pc th = PIdle ->
    safe_res (TSTEP g t c).
  Proof.
    intros g lo cov ld t th c H Ht Hpc. open_step Ht Hpc.
    destruct (t_todo th) as [|i rest] eqn:Htodo; [exact I|].
    assert (Hx : safe_res (after_link g t (mkThread PIdle rest (t_done th)) i
                   (wl_link_try (with_waiting (g_wl g) (w_waiting (g_wl g))) (WInput i)))).
    { eapply (safe_link_try g lo cov ld t th); try eassumption; try rewrite Hpc; cbn; auto. }
    rewrite with_waiting_id in Hx. exact Hx.
  Qed.

  Lemma safe_PLinkSleep : forall (g : gstate) lo cov ld t th c i b,
    InvR progs g lo cov ld -> nth_error (g_threads g) t = Some th -> t_pc th = PLinkSleep i b ->
    safe_res (TSTEP g t c).
  Proof.
    intros g lo cov ld t th c i b H Ht Hpc. open_step Ht Hpc.
    destruct b; [|exact I].
    assert (Hpos : 0 < w_waiting (g_wl g)).
    { rewrite (i_waiting _ _ _ _ _ H). eapply count_sel_pos; [exact Ht | rewrite Hpc; reflexivity]. }
    unfold wl_link_wake. destruct (w_waiting (g_wl g)) as [|n] eqn:Hw; [lia|].
    assert (Hwf : wl_wf (with_waiting (g_wl g) n)) by exact (i_wf _ _ _ _ _ H).
    rewrite (wf_invariants_ok _ Hwf). cbn [negb].
    eapply (safe_link_try g lo cov ld t th th i n); try eassumption; try rewrite Hpc; cbn; auto. lia.
  Qed.

  Lemma safe_PEnter : forall (g : gstate) lo cov ld t th c idx,
    InvR progs g lo cov ld -> nth_error (g_threads g) t = Some th -> t_pc th = PEnter idx ->
    safe_res (TSTEP g t c).
  Proof.
    intros g lo cov ld t th c idx H Ht Hpc. open_step Ht Hpc.
    destruct (g_S g) eqn:HS; cbn [free]; [exact I|].
    exists lo, cov, ld. apply InvR_acquire_S; try assumption; try (try rewrite Hpc; reflexivity); try exact I.
  Qed.

  Lemma safe_PSleep : forall (g : gstate) lo cov ld t th c idx b,
    InvR progs g lo cov ld -> nth_error (g_threads g) t = Some th -> t_pc th = PSleep idx b ->
    safe_res (TSTEP g t c).
  Proof.
    intros g lo cov ld t th c idx b H Ht Hpc. open_step Ht Hpc.
    destruct b; [|exact I].
    destruct (g_S g) eqn:HS; cbn [free]; [exact I|].
    exists lo, cov, ld. apply InvR_acquire_S; try assumption; try (try rewrite Hpc; reflexivity); try exact I.
  Qed.

  Lemma safe_PTest : forall (g : gstate) lo cov ld t th c idx,
    InvR progs g lo cov ld -> nth_error (g_threads g) t = Some th -> t_pc th = PTest idx ->
    safe_res (TSTEP g t c).
  Proof.
    intros g lo cov ld t th c idx H Ht Hpc. open_step Ht Hpc.
    destruct (g_dw g) eqn:Hdw.
    - exists lo, cov, ld. apply InvR_pcstep_same; try assumption; try (try rewrite Hpc; reflexivity); try exact I.
    - unfold wl_is_head. rewrite (wf_invariants_ok _ (i_wf _ _ _ _ _ H)). cbn [negb].
      destruct (Nat.eqb_spec (w_head (g_wl g)) idx) as [E | E].
      + exists lo, cov, ld. apply InvR_pcstep_same; try assumption; try (try rewrite Hpc; reflexivity).
        cbn [tinv]. auto.
      + exists lo, cov, ld. apply InvR_pcstep_same; try assumption; try (try rewrite Hpc; reflexivity); try exact I.
  Qed.

  Lemma safe_PLoad : forall (g : gstate) lo cov ld t th c idx,
    InvR progs g lo cov ld -> nth_error (g_threads g) t = Some th -> t_pc th = PLoad idx ->
    safe_res (TSTEP g t c).
  Proof.
    intros g lo cov ld t th c idx H Ht Hpc. open_step Ht Hpc.
    assert (Hl : In idx (live (g_wl g))).
    { eapply (i_idx_live _ _ _ _ _ H); [exact Ht | rewrite Hpc; reflexivity]. }
    unfold wl_load.
    destruct (cell_cases progs g lo cov ld idx H Hl)
      as [(L & o & E1 & E2) | [(L & E1) | (L & t0 & inp & E0 & E1)]]; rewrite E1.
    - exists lo, cov, ld. apply InvR_pcstep_same; try assumption; try (try rewrite Hpc; reflexivity).
      cbn [tinv]. auto.
    - exists lo, cov, ld. apply InvR_pcstep_same; try assumption; try (try rewrite Hpc; reflexivity); try exact I.
    - exists lo, cov, ld. apply InvR_pcstep_same; try assumption; try (try rewrite Hpc; reflexivity); try exact I.
  Qed.

  Lemma safe_PWait : forall (g : gstate) lo cov ld t th c idx,
    InvR progs g lo cov ld -> nth_error (g_threads g) t = Some th -> t_pc th = PWait idx ->
    safe_res (TSTEP g t c).
  Proof.
    intros g lo cov ld t th c idx H Ht Hpc. open_step Ht Hpc.
    exists lo, cov, ld. apply InvR_release_S; try assumption; try (try rewrite Hpc; reflexivity); try exact I.
  Qed.

  Lemma safe_unlink : forall (g : gstate) lo cov ld t th idx pa pb,
    InvR progs g lo cov ld -> nth_error (g_threads g) t = Some th ->
    pc_idx (t_pc th) = Some idx -> idx < lo ->
    (forall p', p' = pa \/ p' = pb ->
       pc_idx p' = None /\ pc_gidx p' = Some idx /\
       holdsS p' = holdsS (t_pc th) /\ holdsC p' = holdsC (t_pc th) /\ inLP p' = inLP (t_pc th) /\
       is_ls p' = is_ls (t_pc th) /\ pend p' = pend (t_pc th) /\
       forall hd, tinv hd (g_dw g) (length (g_seen g)) (g_batches g) lo cov p') ->
    safe_res (match wl_unlink (g_wl g) idx with
              | Ok (w, true) => SOk (set_thread (with_wl g w) t (set_pc th pa))
              | Ok (w, false) => SOk (set_thread (with_wl g w) t (set_pc th pb))
              | _ => SPanic
              end).
  Proof.
    intros g lo cov ld t th idx pa pb H Ht Hidx Hlt Hp.
    assert (Hl : In idx (live (g_wl g))) by (eapply (i_idx_live _ _ _ _ _ H); eassumption).
    destruct (unlink_spec (g_wl g) idx (i_wf _ _ _ _ _ H) Hl)
      as (w' & Hu & Hwf' & Hn' & Ht' & Hw' & Hl' & Hs' & _ & Hh').
    rewrite Hu.
    destruct (0 <? w_waiting (g_wl g)); cbn [safe_res]; exists lo, cov, ld.
    - destruct (Hp pa (or_introl eq_refl)) as (E1 & E2 & E3 & E4 & E5 & E6 & E7 & E8).
      apply (InvR_unlink progs g lo cov ld t th idx pa w'); auto.
    - destruct (Hp pb (or_intror eq_refl)) as (E1 & E2 & E3 & E4 & E5 & E6 & E7 & E8).
      apply (InvR_unlink progs g lo cov ld t th idx pb w'); auto.
  Qed.

  Lemma safe_PExitUnlink : forall (g : gstate) lo cov ld t th c idx o,
    InvR progs g lo cov ld -> nth_error (g_threads g) t = Some th -> t_pc th = PExitUnlink idx o ->
    safe_res (TSTEP g t c).
  Proof.
    intros g lo cov ld t th c idx o H Ht Hpc. open_step Ht Hpc.
    assert (Htv := i_tinv _ _ _ _ _ H t th Ht). rewrite Hpc in Htv. cbn [tinv] in Htv.
    destruct Htv as [Hlt Hdes].
    apply (safe_unlink g lo cov ld t th idx (PExitWA idx o) (PExitNotify idx o) H Ht);
      [rewrite Hpc; reflexivity | exact Hlt |].
    intros p' [E | E]; subst p'; rewrite Hpc; cbn; repeat split; auto.
  Qed.

  Lemma safe_PLeaderUnlink : forall (g : gstate) lo cov ld t th c idx o,
    InvR progs g lo cov ld -> nth_error (g_threads g) t = Some th -> t_pc th = PLeaderUnlink idx o ->
    safe_res (TSTEP g t c).
  Proof.
    intros g lo cov ld t th c idx o H Ht Hpc. open_step Ht Hpc.
    assert (Htv := i_tinv _ _ _ _ _ H t th Ht). rewrite Hpc in Htv. cbn [tinv] in Htv.
    destruct Htv as (Hhd & Hlo & Hcov & Hlt & Hdes).
    apply (safe_unlink g lo cov ld t th idx (PLeaderWA idx o) (PLeaderClear idx o) H Ht);
      [rewrite Hpc; reflexivity | lia |].
    intros p' [E | E]; subst p'; rewrite Hpc; cbn; repeat split; auto.
  Qed.

  Lemma safe_wa : forall (g : gstate) lo cov ld t th c p',
    InvR progs g lo cov ld -> nth_error (g_threads g) t = Some th ->
    is_ls (t_pc th) = false ->
    pc_idx p' = pc_idx (t_pc th) -> pc_gidx p' = pc_gidx (t_pc th) ->
    is_ls p' = is_ls (t_pc th) -> pend p' = pend (t_pc th) ->
    holdsS p' = holdsS (t_pc th) -> holdsC p' = holdsC (t_pc th) -> inLP p' = inLP (t_pc th) ->
    tinv (w_head (g_wl g)) (g_dw g) (length (g_seen g)) (g_batches g) lo cov p' ->
    Inv progs (set_thread (notify_wa g c) t (set_pc th p')).
  Proof.
    intros g lo cov ld t th c p' H Ht Hls E1 E2 E3 E4 E5 E6 E7 Htv.
    exists lo, cov, ld.
    apply InvR_pcstep_same; try assumption.
    - unfold notify_wa. apply InvR_notify. exact H.
    - unfold notify_wa, with_threads. gproj. apply notify_one_unsel; [exact Ht|].
      apply sleeps_wa_false. exact Hls.
  Qed.

  Lemma safe_PExitWA : forall (g : gstate) lo cov ld t th c idx o,
    InvR progs g lo cov ld -> nth_error (g_threads g) t = Some th -> t_pc th = PExitWA idx o ->
    safe_res (TSTEP g t c).
  Proof.
    intros g lo cov ld t th c idx o H Ht Hpc. open_step Ht Hpc.
    assert (Htv := i_tinv _ _ _ _ _ H t th Ht). rewrite Hpc in Htv. cbn [tinv] in Htv.
    apply (safe_wa g lo cov ld t th c (PExitNotify idx o) H Ht); try (try rewrite Hpc; reflexivity).
    exact Htv.
  Qed.

  Lemma safe_PLeaderWA : forall (g : gstate) lo cov ld t th c idx o,
    InvR progs g lo cov ld -> nth_error (g_threads g) t = Some th -> t_pc th = PLeaderWA idx o ->
    safe_res (TSTEP g t c).
  Proof.
    intros g lo cov ld t th c idx o H Ht Hpc. open_step Ht Hpc.
    assert (Htv := i_tinv _ _ _ _ _ H t th Ht). rewrite Hpc in Htv. cbn [tinv] in Htv.
    apply (safe_wa g lo cov ld t th c (PLeaderClear idx o) H Ht); try (try rewrite Hpc; reflexivity).
    exact Htv.
  Qed.

  Lemma safe_PExitNotify : forall (g : gstate) lo cov ld t th c idx o,
    InvR progs g lo cov ld -> nth_error (g_threads g) t = Some th -> t_pc th = PExitNotify idx o ->
    safe_res (TSTEP g t c).
  Proof.
    intros g lo cov ld t th c idx o H Ht Hpc. open_step Ht Hpc.
    assert (Htv := i_tinv _ _ _ _ _ H t th Ht). rewrite Hpc in Htv. cbn [tinv] in Htv.
    destruct (notify_head_inv g lo cov ld t th c H Ht ltac:(rewrite Hpc; left; reflexivity))
      as (H1 & Ht1 & Ew & ES & EC & Edw & El & Es & Eb).
    set (g1 := match wl_notify_head (g_wl g) with Some h => notify_cond g h c | None => g end) in *.
    exists lo, cov, ld. unfold set_thread, with_threads, with_S. gproj.
    apply (InvR_finish progs g1 lo cov ld t th idx o None (g_C g1) H1 Ht1);
      try (try rewrite Hpc; reflexivity).
    - rewrite Eb. exact Htv.
    - eapply lockinv_upd_rel; [apply (i_S _ _ _ _ _ H1) | exact Ht1 | rewrite Hpc; reflexivity | reflexivity].
    - eapply lockinv_upd_keep; [apply (i_C _ _ _ _ _ H1) | exact Ht1 | rewrite Hpc; reflexivity].
  Qed.

  Lemma safe_PLeaderNotify : forall (g : gstate) lo cov ld t th c idx o,
    InvR progs g lo cov ld -> nth_error (g_threads g) t = Some th -> t_pc th = PLeaderNotify idx o ->
    safe_res (TSTEP g t c).
  Proof.
    intros g lo cov ld t th c idx o H Ht Hpc. open_step Ht Hpc.
    assert (Htv := i_tinv _ _ _ _ _ H t th Ht). rewrite Hpc in Htv. cbn [tinv] in Htv.
    destruct (notify_head_inv g lo cov ld t th c H Ht ltac:(rewrite Hpc; right; reflexivity))
      as (H1 & Ht1 & Ew & ES & EC & Edw & El & Es & Eb).
    set (g1 := match wl_notify_head (g_wl g) with Some h => notify_cond g h c | None => g end) in *.
    exists lo, cov, ld. unfold set_thread, with_threads, with_C. gproj.
    apply (InvR_finish progs g1 lo cov ld t th idx o (g_S g1) None H1 Ht1);
      try (try rewrite Hpc; reflexivity).
    - rewrite Eb. exact Htv.
    - eapply lockinv_upd_keep; [apply (i_S _ _ _ _ _ H1) | exact Ht1 | rewrite Hpc; reflexivity].
    - eapply lockinv_upd_rel; [apply (i_C _ _ _ _ _ H1) | exact Ht1 | rewrite Hpc; reflexivity | reflexivity].
  Qed.

  Lemma safe_PHead : forall (g : gstate) lo cov ld t th c idx,
    InvR progs g lo cov ld -> nth_error (g_threads g) t = Some th -> t_pc th = PHead idx ->
    safe_res (TSTEP g t c).
  Proof.
    intros g lo cov ld t th c idx H Ht Hpc. open_step Ht Hpc.
    assert (Htv := i_tinv _ _ _ _ _ H t th Ht). rewrite Hpc in Htv. cbn [tinv] in Htv.
    destruct Htv as [Hdw Hhd]. rewrite Hdw.
    unfold wl_is_head. rewrite (wf_invariants_ok _ (i_wf _ _ _ _ _ H)). cbn [negb].
    rewrite Hhd, Nat.eqb_refl.
    assert (Hl : In idx (live (g_wl g))).
    { eapply (i_idx_live _ _ _ _ _ H); [exact Ht | rewrite Hpc; reflexivity]. }
    assert (Hld : ld = None).
    { assert (E := i_dw _ _ _ _ _ H). rewrite Hdw in E. destruct ld; [discriminate | reflexivity]. }
    destruct (i_noleader _ _ _ _ _ H Hld) as [Elo Ecov].
    unfold wl_load.
    destruct (cell_cases progs g lo cov ld idx H Hl)
      as [(L & o & E1 & E2) | [(L & E1) | (L & t0 & inp & E0 & E1)]]; rewrite E1.
    - exists lo, cov, ld. apply InvR_pcstep_same; try assumption; try (try rewrite Hpc; reflexivity).
      cbn [tinv]. auto.
    - lia.
    - exists lo, cov, (Some t). eapply InvR_set_dw; try eassumption.
      destruct (Nat.eq_dec idx (length (g_seen g))) as [E | E]; [exact E | exfalso].
      assert (Hs : In (length (g_seen g)) (live (g_wl g))).
      { apply (i_live_hi _ _ _ _ _ H). lia. }
      apply in_live in Hs. lia.
  Qed.

  Lemma safe_PLockCore : forall (g : gstate) lo cov ld t th c idx,
    InvR progs g lo cov ld -> nth_error (g_threads g) t = Some th -> t_pc th = PLockCore idx ->
    safe_res (TSTEP g t c).
  Proof.
    intros g lo cov ld t th c idx H Ht Hpc. open_step Ht Hpc.
    destruct (g_C g) eqn:HC; cbn [free]; [exact I|].
    exists lo, cov, ld. eapply InvR_lock_core; eassumption.
  Qed.

  Lemma safe_PBatch : forall (g : gstate) lo cov ld t th c idx cur taken acc,
    InvR progs g lo cov ld -> nth_error (g_threads g) t = Some th ->
    t_pc th = PBatch idx cur taken acc -> safe_res (TSTEP g t c).
  Proof.
    intros g lo cov ld t th c idx cur taken acc H Ht Hpc. open_step Ht Hpc.
    assert (Htv := i_tinv _ _ _ _ _ H t th Ht). rewrite Hpc in Htv. cbn [tinv] in Htv.
    destruct Htv as (Hhd & Hlo & Hcov & Hcur1 & Hcur2).
    assert (Hl : In idx (live (g_wl g))).
    { eapply (i_idx_live _ _ _ _ _ H); [exact Ht | rewrite Hpc; reflexivity]. }
    assert (Hrel : forall tk, 1 <= tk -> tk = taken ->
              Inv progs (set_thread (with_S g None) t (set_pc th (PWork idx taken acc)))).
    { intros tk Htk Etk. exists lo, cov, ld.
      apply InvR_release_S; try assumption; try (try rewrite Hpc; reflexivity).
      cbn [tinv]. repeat split; lia. }
    unfold wl_iter_next.
    destruct (Nat.leb_spec (w_tail (g_wl g)) cur) as [Hle | Hgt].
    - cbn [safe_res]. apply (Hrel taken); [|reflexivity].
      apply in_live in Hl. lia.
    - destruct (i_input _ _ _ _ _ H cur ltac:(lia)) as (t0 & inp & E0 & E1).
      unfold wl_load. rewrite E1.
      destruct ((taken =? 0) || can_batch (g_core g) acc inp) eqn:Hb.
      + destruct (batch (g_core g) acc inp) as [core' acc'].
        cbn [safe_res]. exists lo, cov, ld.
        unfold set_thread, with_threads, notify_cond. gproj.
        set (sel := sleeps_on (nslots (wl_store (g_wl g) cur WStolen)) cur).
        apply (InvR_steal progs (with_threads g (notify_one sel c (g_threads g)))
                 lo cov ld t th idx cur taken acc acc' core' inp).
        * apply InvR_notify. exact H.
        * unfold with_threads. gproj. apply notify_one_unsel; [exact Ht|].
          apply sleeps_on_false. apply pc_not_sleep. rewrite Hpc. left; reflexivity.
        * exact Hpc.
        * exact Hgt.
        * exact E1.
      + cbn [safe_res]. apply (Hrel taken); [|reflexivity].
        apply orb_false_iff in Hb. destruct Hb as [Hb _]. apply Nat.eqb_neq in Hb. lia.
  Qed.

  Lemma safe_PWork : forall (g : gstate) lo cov ld t th c idx taken acc,
    InvR progs g lo cov ld -> nth_error (g_threads g) t = Some th ->
    t_pc th = PWork idx taken acc -> safe_res (TSTEP g t c).
  Proof.
    intros g lo cov ld t th c idx taken acc H Ht Hpc. open_step Ht Hpc.
    assert (Hlen := work_len (g_core g) taken acc).
    destruct (work (g_core g) taken acc) as [core' outs]. cbn [snd] in Hlen.
    cbn [safe_res]. exists lo, (length (g_seen g)), ld.
    unfold set_thread, with_threads. gproj.
    eapply InvR_work; eassumption.
  Qed.

  Lemma safe_PDist : forall (g : gstate) lo cov ld t th c idx cur rem outs,
    InvR progs g lo cov ld -> nth_error (g_threads g) t = Some th ->
    t_pc th = PDist idx cur rem outs -> safe_res (TSTEP g t c).
  Proof.
    intros g lo cov ld t th c idx cur rem outs H Ht Hpc. open_step Ht Hpc.
    assert (Htv := i_tinv _ _ _ _ _ H t th Ht). rewrite Hpc in Htv. cbn [tinv] in Htv.
    destruct Htv as (Hhd & Hlo & Hcov & Hsv & Hic & Hisv & ao & Hao1 & Hao2 & Hao3).
    destruct rem as [|rem'].
    - cbn [safe_res]. exists lo, cov, ld.
      apply InvR_pcstep_same; try assumption; try (try rewrite Hpc; reflexivity).
      cbn [tinv]. repeat split; lia.
    - unfold wl_iter_next.
      assert (Hsvt := i_served _ _ _ _ _ H).
      destruct (Nat.leb_spec (w_tail (g_wl g)) cur) as [Hle | Hgt]; [lia|].
      destruct outs as [|o outs'].
      + exfalso. assert (E : length (skipn (cur - idx) ao) = 0) by (rewrite <- Hao2; reflexivity).
        rewrite skipn_length in E. lia.
      + cbn [safe_res]. exists (S cur), cov, ld.
        unfold set_thread, with_threads, notify_cond, with_wl. gproj.
        set (sel := sleeps_on (nslots (wl_store (g_wl g) cur (WOutput o))) cur).
        set (ths1 := notify_one sel c (g_threads g)).
        apply (InvR_dist progs (with_threads (with_threads g ths1) (notify_one sel c ths1))
                 lo cov ld t th idx cur rem' o outs').
        * apply (InvR_notify (with_threads g ths1)). apply InvR_notify. exact H.
        * unfold with_threads. gproj.
          assert (Hsel : sel (t_pc th) = false).
          { apply sleeps_on_false. apply pc_not_sleep. rewrite Hpc. right; reflexivity. }
          apply notify_one_unsel; [|exact Hsel]. apply notify_one_unsel; [exact Ht | exact Hsel].
        * exact Hpc.
  Qed.

  Lemma safe_PLeaderLoad : forall (g : gstate) lo cov ld t th c idx,
    InvR progs g lo cov ld -> nth_error (g_threads g) t = Some th -> t_pc th = PLeaderLoad idx ->
    safe_res (TSTEP g t c).
  Proof.
    intros g lo cov ld t th c idx H Ht Hpc. open_step Ht Hpc.
    assert (Htv := i_tinv _ _ _ _ _ H t th Ht). rewrite Hpc in Htv. cbn [tinv] in Htv.
    destruct Htv as (Hhd & Hlo & Hcov & Hlt).
    assert (Hl : In idx (live (g_wl g))).
    { eapply (i_idx_live _ _ _ _ _ H); [exact Ht | rewrite Hpc; reflexivity]. }
    destruct (i_output _ _ _ _ _ H idx Hl ltac:(lia)) as (o & E1 & E2).
    unfold wl_load. rewrite E1. cbn [safe_res]. exists lo, cov, ld.
    apply InvR_pcstep_same; try assumption; try (try rewrite Hpc; reflexivity).
    cbn [tinv]. auto.
  Qed.

  Lemma safe_PLeaderClear : forall (g : gstate) lo cov ld t th c idx o,
    InvR progs g lo cov ld -> nth_error (g_threads g) t = Some th -> t_pc th = PLeaderClear idx o ->
    safe_res (TSTEP g t c).
  Proof.
    intros g lo cov ld t th c idx o H Ht Hpc. open_step Ht Hpc.
    destruct (g_S g) eqn:HS; cbn [free]; [exact I|].
    exists lo, cov, None. eapply InvR_clear_dw; eassumption.
  Qed.

  (* ---- all steps *)
  Theorem tstep_safe : forall (g : gstate) t c, Inv progs g -> safe_res (TSTEP g t c).
  Proof.
    intros g t c (lo & cov & ld & H).
    destruct (nth_error (g_threads g) t) as [th|] eqn:Ht;
      [|unfold safe_res, tstep; rewrite Ht; exact I].
    destruct (t_pc th) eqn:Hpc.
    - eapply safe_PIdle; eassumption.
    - eapply safe_PLinkSleep; eassumption.
    - eapply safe_PEnter; eassumption.
    - eapply safe_PTest; eassumption.
    - eapply safe_PLoad; eassumption.
    - eapply safe_PWait; eassumption.
    - eapply safe_PSleep; eassumption.
    - eapply safe_PExitUnlink; eassumption.
    - eapply safe_PExitWA; eassumption.
    - eapply safe_PExitNotify; eassumption.
    - eapply safe_PHead; eassumption.
    - eapply safe_PLockCore; eassumption.
    - eapply safe_PBatch; eassumption.
    - eapply safe_PWork; eassumption.
    - eapply safe_PDist; eassumption.
    - eapply safe_PLeaderLoad; eassumption.
    - eapply safe_PLeaderUnlink; eassumption.
    - eapply safe_PLeaderWA; eassumption.
    - eapply safe_PLeaderClear; eassumption.
    - eapply safe_PLeaderNotify; eassumption.
  Qed.

  Lemma spurious_inv : forall (g : gstate) t, Inv progs g -> Inv progs (spurious g t).
  Proof.
    intros g t H. unfold spurious.
    destruct (nth_error (g_threads g) t) as [th|] eqn:Ht; [|exact H].
    unfold set_thread. apply Inv_tokrel; [exact H | apply spurious_tokrel; exact Ht].
  Qed.

  Lemma exec_safe : forall (g : gstate) a, Inv progs g ->
    exists g', exec Inp Outp Acc CS acc0 can_batch batch work g a = Ok g' /\ Inv progs g'.
  Proof.
    intros g [t c | t] H; cbn [exec].
    - assert (Hs := tstep_safe g t c H). unfold safe_res in Hs.
      destruct (TSTEP g t c) as [g' | | |]; [eauto | eauto | eauto | destruct Hs].
    - eexists. split; [reflexivity | apply spurious_inv; exact H].
  Qed.

  Lemma run_safe : forall sched (g : gstate), Inv progs g ->
    exists g', run Inp Outp Acc CS acc0 can_batch batch work g sched = Ok g' /\ Inv progs g'.
  Proof.
    induction sched as [|a r IH]; intros g H; cbn [run].
    - eauto.
    - destruct (exec_safe g a H) as (g1 & E1 & H1). rewrite E1. cbn [bind]. apply IH. exact H1.
  Qed.
End Safe.
