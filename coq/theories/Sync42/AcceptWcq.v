(* Sync42/AcceptWcq.v — trace acceptor: replays an event trace recorded from the real
   work_coalescing_queue (hooks under cfg(blue_verif)) on the small-step model of ModelWcq.v.
   Definitions only; extracted and run by the correspondence check.

   Every event of the trace was recorded inside the critical section that makes the
   corresponding model step atomic.  Each model step has one *primary* event (listed in `handle`);
   the other events of a thread are annotations that are only checked against the model's state.
   Two model steps touch nothing but the thread's own locals or data protected by a mutex the
   thread holds (PTest while doing_work is set; PDist with nothing left to give); they have no
   event and are taken just before the thread's next event.
   The plain acceptor takes a wake-up in the trace whether or not the model saw a notification
   (condition variables may wake spuriously); the strict layer at the end of the file requires
   every wake-up to be explained by a notification.  What is checked in both: the order of wait-list indices, head, tail,
   the notify-available flag, doing_work, which waiter is head, mutual exclusion of `state` and
   `core` (a step that needs a held mutex is rejected), the cells the leader steals and fills,
   batch boundaries, and finally the outputs every call returned and the core's batch log. *)
From Coq Require Import NArith Arith List Bool.
From Blue Require Import Sync42.ModelLru Sync42.ModelWaitList Sync42.ModelWcq.
Import ListNotations.
Open Scope nat_scope.

(* ---- the core used by the harness (harness/src/bin/c18.rs, struct HxCore) *)
Record hcore := mkHcore { hc_limit : nat; hc_mod : N; hc_count : N; hc_extra : nat }.
Definition hacc := list N.
Definition hout := (N * N * N)%type.       (* (input, batch number, position in batch) *)

Definition h_can_batch (c : hcore) (acc : hacc) (i : N) : bool :=
  (length acc <? hc_limit c) && ((hc_mod c =? 0)%N || negb ((i mod hc_mod c) =? 0)%N).
Definition h_batch (c : hcore) (acc : hacc) (i : N) : hcore * hacc := (c, acc ++ [i]).
Fixpoint h_outs (b : N) (j : N) (acc : hacc) : list hout :=
  match acc with
  | [] => []
  | x :: r => (x, b, j) :: h_outs b (j + 1)%N r
  end.
(* an over-producing core: after the right outputs come hc_extra junk items (the trait allows an
   output iterator that yields more than `taken` items; do_work must not hand them out) *)
Definition h_junk : N := 999999%N.
Fixpoint h_extra (b : N) (k : N) (n : nat) : list hout :=
  match n with O => [] | S n' => (h_junk, b, k) :: h_extra b (k + 1)%N n' end.
Definition h_work (c : hcore) (taken : nat) (acc : hacc) : hcore * list hout :=
  (mkHcore (hc_limit c) (hc_mod c) (hc_count c + 1)%N (hc_extra c),
   h_outs (hc_count c) 0%N acc ++ h_extra (hc_count c) 0%N (hc_extra c)).

Definition hg := gstate N hout hacc hcore.
Definition hpc := pc N hout hacc.
Definition h_tstep : hg -> nat -> nat -> sres N hout hacc hcore :=
  tstep N hout hacc hcore [] h_can_batch h_batch h_work.
Definition h_init (slots : nat) (limit : nat) (modulus : N) (extra : nat) (progs : list (list N)) : hg :=
  ginit N hout hacc hcore slots (mkHcore limit modulus 0%N extra) progs.

(* ---- events *)
Inductive evk :=
| EvLink | EvLinkWait | EvLinkWake | EvEnter | EvIsHead | EvLoad | EvWait | EvWoke | EvSawOutput
| EvUnlink | EvNotifyAvailable | EvNotifyHead | EvNotifyAvailablePre | EvNotifyHeadPre | EvLeader | EvCoreLocked | EvIterNext | EvStore
| EvStole | EvBreak | EvBatched | EvWork | EvGave | EvClear.

Record event := mkEvent { e_tid : nat; e_kind : evk; e_a : nat; e_b : nat; e_c : nat }.

Definition pc_of (g : hg) (t : nat) : option hpc :=
  match nth_error (g_threads N hout hacc hcore g) t with
  | Some th => Some (t_pc N hout hacc th)
  | None => None
  end.

(* take the step of thread t and require that the new program counter satisfies `chk` *)
Definition step_chk (g : hg) (t : nat) (chk : hg -> hpc -> bool) : option hg :=
  match h_tstep g t 0 with
  | SOk _ _ _ _ g' =>
      match pc_of g' t with
      | Some p => if chk g' p then Some g' else None
      | None => None
      end
  | _ => None
  end.

Definition head_of (g : hg) := w_head _ (g_wl N hout hacc hcore g).
Definition tail_of (g : hg) := w_tail _ (g_wl N hout hacc hcore g).
Definition dw_of (g : hg) := g_dw N hout hacc hcore g.
Definition b2n (b : bool) : nat := if b then 1 else 0.

Inductive verdict :=
| VStep (g : hg)       (* the event was the primary event of a step, taken *)
| VSkip                (* an annotation, consistent with the model *)
| VSilent              (* the thread must first take a silent step *)
| VReject.

Definition opt (o : option hg) : verdict := match o with Some g => VStep g | None => VReject end.
Definition guard (b : bool) (v : verdict) : verdict := if b then v else VReject.

Definition handle (g : hg) (e : event) : verdict :=
  let t := e_tid e in
  match pc_of g t with
  | None => VReject
  | Some p =>
    match p, e_kind e with
    (* ---- link *)
    | PIdle _ _ _, EvLink =>
        opt (step_chk g t (fun g' p' =>
          match p' with PEnter _ _ _ i => (i =? e_a e) && (head_of g' =? e_b e) && (tail_of g' =? e_c e)
                      | _ => false end))
    | PIdle _ _ _, EvLinkWait =>
        opt (step_chk g t (fun g' p' =>
          match p' with PLinkSleep _ _ _ _ false => (head_of g' =? e_a e) && (tail_of g' =? e_b e)
                                                 && (w_waiting _ (g_wl _ _ _ _ g') =? e_c e)
                      | _ => false end))
    | PLinkSleep _ _ _ _ _, EvLinkWake => VStep (spurious N hout hacc hcore g t)
    | PLinkSleep _ _ _ _ true, EvLink =>
        opt (step_chk g t (fun g' p' =>
          match p' with PEnter _ _ _ i => (i =? e_a e) && (head_of g' =? e_b e) && (tail_of g' =? e_c e)
                      | _ => false end))
    | PLinkSleep _ _ _ _ true, EvLinkWait =>
        opt (step_chk g t (fun g' p' =>
          match p' with PLinkSleep _ _ _ _ false => (head_of g' =? e_a e) && (tail_of g' =? e_b e)
                                                 && (w_waiting _ (g_wl _ _ _ _ g') =? e_c e)
                      | _ => false end))
    (* ---- the wait loop *)
    | PEnter _ _ _ idx, EvEnter =>
        guard ((idx =? e_a e) && (b2n (dw_of g) =? e_b e))
              (opt (step_chk g t (fun _ p' => match p' with PTest _ _ _ _ => true | _ => false end)))
    | PTest _ _ _ idx, k =>
        if dw_of g then VSilent else
        match k with
        | EvIsHead =>
            guard ((idx =? e_a e) && (head_of g =? e_b e) && (tail_of g =? e_c e))
                  (opt (step_chk g t (fun _ p' =>
                     match p' with
                     | PHead _ _ _ _ => e_b e =? idx
                     | PLoad _ _ _ _ => negb (e_b e =? idx)
                     | _ => false end)))
        | _ => VReject
        end
    | PLoad _ _ _ idx, EvLoad =>
        guard (idx =? e_a e)
              (opt (step_chk g t (fun _ p' =>
                 match p' with PWait _ _ _ _ => true | PExitUnlink _ _ _ _ _ => true | _ => false end)))
    | PWait _ _ _ idx, EvWait =>
        guard ((idx =? e_a e) && (b2n (dw_of g) =? e_b e) &&
               (* the cell was read at the PLoad step; since then the leader may have moved it
                  on (Input -> Stolen -> Output), never back *)
               match wl_load _ (g_wl _ _ _ _ g) idx with
               | Ok (WInput _) => e_c e =? 0
               | Ok _ => true
               | _ => false
               end)
              (opt (step_chk g t (fun _ p' => match p' with PSleep _ _ _ _ false => true | _ => false end)))
    | PSleep _ _ _ idx _, EvWoke =>
        let g1 := spurious N hout hacc hcore g t in
        guard ((idx =? e_a e) && (b2n (dw_of g) =? e_b e))
              (opt (step_chk g1 t (fun _ p' => match p' with PTest _ _ _ _ => true | _ => false end)))
    (* ---- leaving with an output *)
    | PExitUnlink _ _ _ idx _, EvSawOutput => guard (idx =? e_a e) VSkip
    | PExitUnlink _ _ _ idx _, EvLoad => guard (idx =? e_a e) VSkip
    | PExitUnlink _ _ _ idx _, EvUnlink =>
        guard (idx =? e_a e)
              (opt (step_chk g t (fun g' p' =>
                 (head_of g' =? e_b e) &&
                 match p' with
                 | PExitWA _ _ _ _ _ => e_c e =? 1
                 | PExitNotify _ _ _ _ _ => e_c e =? 0
                 | _ => false end)))
    | PExitWA _ _ _ _ _, EvNotifyAvailablePre =>
        opt (step_chk g t (fun _ p' => match p' with PExitNotify _ _ _ _ _ => true | _ => false end))
    | PExitNotify _ _ _ _ _, EvNotifyAvailable => VSkip
    (* notify_head: when there is a head the event recorded BEFORE cond.notify_one is the step
       (so that the wake-up it causes comes after it in the trace); otherwise the "dropped" event *)
    | PExitNotify _ _ _ _ _, EvNotifyHeadPre =>
        guard ((head_of g <? tail_of g) && (head_of g =? e_b e) && (tail_of g =? e_c e))
              (opt (step_chk g t (fun _ p' => match p' with PIdle _ _ _ => true | _ => false end)))
    | PExitNotify _ _ _ _ _, EvNotifyHead =>
        guard ((e_a e =? 0) && negb (head_of g <? tail_of g) && (head_of g =? e_b e) && (tail_of g =? e_c e))
              (opt (step_chk g t (fun _ p' => match p' with PIdle _ _ _ => true | _ => false end)))
    | PIdle _ _ _, EvNotifyHead => guard (e_a e =? 1) VSkip
    (* ---- becoming the leader *)
    | PHead _ _ _ idx, EvIsHead =>
        guard ((idx =? e_a e) && (e_b e =? idx))
              (opt (step_chk g t (fun _ p' =>
                 match p' with PLockCore _ _ _ _ => true | PExitUnlink _ _ _ _ _ => true | _ => false end)))
    | PLockCore _ _ _ idx, EvLoad => guard (idx =? e_a e) VSkip
    | PLockCore _ _ _ idx, EvLeader => guard (idx =? e_a e) VSkip
    | PLockCore _ _ _ idx, EvCoreLocked =>
        opt (step_chk g t (fun _ p' => match p' with PBatch _ _ _ _ _ _ _ => true | _ => false end))
    (* ---- batching *)
    | PBatch _ _ _ idx cur taken _, EvIterNext =>
        guard ((cur =? e_a e) && (tail_of g =? e_c e))
              (if cur <? tail_of g then VSkip
               else opt (step_chk g t (fun _ p' => match p' with PWork _ _ _ _ _ _ => true | _ => false end)))
    | PBatch _ _ _ idx cur taken _, EvLoad => guard (cur =? e_a e) VSkip
    | PBatch _ _ _ idx cur taken _, EvStore =>
        guard (cur =? e_a e)
              (opt (step_chk g t (fun _ p' =>
                 match p' with PBatch _ _ _ _ cur' _ _ => cur' =? S cur | _ => false end)))
    | PBatch _ _ _ idx cur taken _, EvBreak =>
        guard ((cur =? e_a e) && (taken =? e_b e))
              (opt (step_chk g t (fun _ p' => match p' with PWork _ _ _ _ _ _ => true | _ => false end)))
    | PBatch _ _ _ idx cur taken _, EvStole => guard ((S (e_a e) =? cur) && (taken =? e_b e)) VSkip
    | PWork _ _ _ idx taken _, EvStole => guard (taken =? e_b e) VSkip
    | PWork _ _ _ idx taken _, EvBatched => guard ((idx =? e_a e) && (taken =? e_b e)) VSkip
    | PWork _ _ _ idx taken _, EvWork =>
        guard ((idx =? e_a e) && (taken =? e_b e))
              (opt (step_chk g t (fun _ p' => match p' with PDist _ _ _ _ _ _ _ => true | _ => false end)))
    (* ---- handing out the outputs *)
    | PDist _ _ _ idx cur rem _, k =>
        match rem with
        | O => match k with EvGave => VSkip | _ => VSilent end
        | S _ =>
            match k with
            | EvIterNext => guard ((cur =? e_a e) && (cur <? tail_of g)) VSkip
            | EvGave => guard (S (e_a e) =? cur) VSkip
            | EvStore =>
                guard (cur =? e_a e)
                      (opt (step_chk g t (fun _ p' =>
                         match p' with PDist _ _ _ _ cur' _ _ => cur' =? S cur | _ => false end)))
            | _ => VReject
            end
        end
    | PLeaderLoad _ _ _ idx, EvLoad =>
        guard (idx =? e_a e)
              (opt (step_chk g t (fun _ p' => match p' with PLeaderUnlink _ _ _ _ _ => true | _ => false end)))
    | PLeaderUnlink _ _ _ idx _, EvUnlink =>
        guard (idx =? e_a e)
              (opt (step_chk g t (fun g' p' =>
                 (head_of g' =? e_b e) &&
                 match p' with
                 | PLeaderWA _ _ _ _ _ => e_c e =? 1
                 | PLeaderClear _ _ _ _ _ => e_c e =? 0
                 | _ => false end)))
    | PLeaderWA _ _ _ _ _, EvNotifyAvailablePre =>
        opt (step_chk g t (fun _ p' => match p' with PLeaderClear _ _ _ _ _ => true | _ => false end))
    | PLeaderClear _ _ _ _ _, EvNotifyAvailable => VSkip
    | PLeaderClear _ _ _ _ _, EvClear =>
        opt (step_chk g t (fun _ p' => match p' with PLeaderNotify _ _ _ _ _ => true | _ => false end))
    | PLeaderNotify _ _ _ _ _, EvNotifyHeadPre =>
        guard ((head_of g <? tail_of g) && (head_of g =? e_b e) && (tail_of g =? e_c e))
              (opt (step_chk g t (fun _ p' => match p' with PIdle _ _ _ => true | _ => false end)))
    | PLeaderNotify _ _ _ _ _, EvNotifyHead =>
        guard ((e_a e =? 0) && negb (head_of g <? tail_of g) && (head_of g =? e_b e) && (tail_of g =? e_c e))
              (opt (step_chk g t (fun _ p' => match p' with PIdle _ _ _ => true | _ => false end)))
    | _, _ => VReject
    end
  end.

Fixpoint accept_event (fuel : nat) (g : hg) (e : event) : option hg :=
  match handle g e with
  | VStep g' => Some g'
  | VSkip => Some g
  | VReject => None
  | VSilent =>
      match fuel with
      | O => None
      | S f =>
          match h_tstep g (e_tid e) 0 with
          | SOk _ _ _ _ g' => accept_event f g' e
          | _ => None
          end
      end
  end.

(* result: the final state, or the number of events accepted before the first rejected one *)
Fixpoint accept_trace (g : hg) (n : nat) (tr : list event) : hg + nat :=
  match tr with
  | [] => inl g
  | e :: r =>
      match accept_event 2 g e with
      | Some g' => accept_trace g' (S n) r
      | None => inr n
      end
  end.

(* ---- wake-up discipline (strict mode)
   The plain acceptor above takes every wake-up in the trace as possibly spurious.  The strict
   acceptor also requires every wake-up to be explained by a notification issued since the thread
   decided to sleep.  A hook event of a notification is recorded just BEFORE the call of
   notify_one, and the call happens before the notifier's next event; a thread's decision to
   sleep is recorded just before it really sleeps.  So a notification explains the wake-up of
     * a thread that was asleep on that condition variable when the event was recorded (for a
       waiter's own condition variable this is the model's token: `PSleep idx true`);
     * a thread that was then between its loop test and its wait (PTest/PLoad/PWait) on it;
     * a thread that records its decision to sleep on it while the notifier is still between the
       event and its next event (the window in which the real notify_one happens).
   notify_one on wait_waiter_available may wake more than one sleeper when one of them is just
   going to sleep (std's futex condition variable), so there one notification is taken to explain
   one wake-up of EVERY call then asleep in link().  What the strict acceptor rejects is a
   wake-up with no notification at all since the thread went to sleep: a dropped notification or
   one sent to the wrong waiter.
   The model state is moved only by the plain acceptor, so an accepted trace is still a run of
   the model (ProofsAccept.v). *)
Record astate := mkA {
  a_g : hg;
  a_early : list nat;           (* threads whose next wake-up from their waiter is explained *)
  a_waflag : list nat;          (* threads whose next wake-up from link() is explained *)
  a_open_c : list (nat * nat);  (* (notifier, index): notify_one on that waiter is in flight *)
  a_open_wa : list nat }.       (* notifiers with a notify_one on wait_waiter_available in flight *)

Fixpoint remove_nat (x : nat) (l : list nat) : list nat :=
  match l with [] => [] | y :: r => if x =? y then remove_nat x r else y :: remove_nat x r end.

Definition about_to_sleep_on (n idx : nat) (p : hpc) : bool :=
  match p with
  | PTest _ _ _ j | PLoad _ _ _ j | PWait _ _ _ j => j mod n =? idx mod n
  | _ => false
  end.
Definition in_link_sleep (p : hpc) : bool :=
  match p with PLinkSleep _ _ _ _ _ => true | _ => false end.
Fixpoint select_threads (sel : hpc -> bool) (k : nat) (ths : list (thread N hout hacc)) : list nat :=
  match ths with
  | [] => []
  | th :: r => (if sel (t_pc N hout hacc th) then [k] else []) ++ select_threads sel (S k) r
  end.

(* the index whose condition variable the step taken at event e notifies, if any *)
Definition notified_index (g : hg) (e : event) : option nat :=
  match pc_of g (e_tid e), e_kind e with
  | Some (PBatch _ _ _ _ cur _ _), EvStore => Some cur
  | Some (PDist _ _ _ _ cur _ _), EvStore => Some cur
  | Some (PExitNotify _ _ _ _ _), EvNotifyHeadPre => Some (head_of g)
  | Some (PLeaderNotify _ _ _ _ _), EvNotifyHeadPre => Some (head_of g)
  | _, _ => None
  end.

Definition accept_event_s (strict : bool) (st : astate) (e : event) : option astate :=
  let g := a_g st in
  let t := e_tid e in
  let n := nslots _ (g_wl _ _ _ _ g) in
  (* 0. the notifier is at its next event: its notify_one calls have happened *)
  let open_c := filter (fun x => negb (fst x =? t)) (a_open_c st) in
  let open_wa := remove_nat t (a_open_wa st) in
  (* 1. is a wake-up explained?  2. a decision to sleep inside a window *)
  let pre : option (list nat * list nat) :=
    match pc_of g t, e_kind e with
    | Some (PLinkSleep _ _ _ _ _), EvLinkWake =>
        if negb strict || existsb (Nat.eqb t) (a_waflag st)
        then Some (a_early st, remove_nat t (a_waflag st)) else None
    | Some (PSleep _ _ _ _ tok), EvWoke =>
        if negb strict || tok || existsb (Nat.eqb t) (a_early st)
        then Some (remove_nat t (a_early st), a_waflag st) else None
    | Some (PEnter _ _ _ _), EvEnter => Some (remove_nat t (a_early st), a_waflag st)
    | Some (PWait _ _ _ j), EvWait =>
        if existsb (fun x => (snd x) mod n =? j mod n) open_c
        then Some (t :: a_early st, a_waflag st) else Some (a_early st, a_waflag st)
    | _, EvLinkWait =>
        match open_wa with
        | [] => Some (a_early st, remove_nat t (a_waflag st))
        | _ => Some (a_early st, t :: a_waflag st)
        end
    | _, _ => Some (a_early st, a_waflag st)
    end in
  match pre with
  | None => None
  | Some (early, waflag) =>
      (* 3. notifications issued by this step *)
      let ths := g_threads _ _ _ _ g in
      let '(early', open_c') :=
        match notified_index g e with
        | Some idx => (select_threads (about_to_sleep_on n idx) 0 ths ++ early, (t, idx) :: open_c)
        | None => (early, open_c)
        end in
      let '(waflag', open_wa') :=
        match e_kind e with
        | EvNotifyAvailablePre => (select_threads in_link_sleep 0 ths ++ waflag, t :: open_wa)
        | _ => (waflag, open_wa)
        end in
      match accept_event 2 g e with
      | Some g' => Some (mkA g' early' waflag' open_c' open_wa')
      | None => None
      end
  end.

Fixpoint accept_trace_s (strict : bool) (st : astate) (n : nat) (tr : list event) : astate + nat :=
  match tr with
  | [] => inl st
  | e :: r =>
      match accept_event_s strict st e with
      | Some st' => accept_trace_s strict st' (S n) r
      | None => inr n
      end
  end.

Definition accept (strict : bool) (slots limit : nat) (modulus : N) (extra : nat)
           (progs : list (list N)) (tr : list event)
  : (bool * list (list (nat * hout)) * list (nat * nat * list hout) * list (nat * N)) + nat :=
  match accept_trace_s strict (mkA (h_init slots limit modulus extra progs) [] [] [] []) 0 tr with
  | inr n => inr n
  | inl st =>
      let g := a_g st in
      inl (all_finished N hout hacc hcore g,
           map (fun th => rev (t_done N hout hacc th)) (g_threads N hout hacc hcore g),
           g_batches N hout hacc hcore g,
           g_links N hout hacc hcore g)
  end.
