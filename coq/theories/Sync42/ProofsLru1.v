(* Sync42/ProofsLru1.v — list, heap and chain (doubly linked list) lemmas for the LRU proofs. *)
From Coq Require Import NArith List Bool Lia Permutation.
From Blue Require Import Sync42.ModelLru.
Import ListNotations.
Open Scope N_scope.
#[local] Arguments N.add : simpl never.
#[local] Arguments N.sub : simpl never.
#[local] Arguments N.mul : simpl never.
#[local] Arguments N.div : simpl never.
#[local] Arguments N.modulo : simpl never.
#[local] Arguments N.leb : simpl never.
#[local] Arguments N.ltb : simpl never.
#[local] Arguments N.eqb : simpl never.

(* ------------------------------------------------------------------ lists *)
Section ListAux.
  Variable A : Type.

  Lemma last_cons (l : list A) p a : last (p :: l) a = last l p.
  Proof.
    revert p a; induction l as [|q l IH]; intros p a; [reflexivity|].
    change (last (p :: q :: l) a) with (last (q :: l) a).
    rewrite (IH q a), (IH q p). reflexivity.
  Qed.

  Lemma last_app (l1 l2 : list A) d : last (l1 ++ l2) d = last l2 (last l1 d).
  Proof.
    revert d; induction l1 as [|x l1 IH]; intros d; [reflexivity|].
    rewrite <- app_comm_cons, !last_cons. apply IH.
  Qed.

  Lemma last_in (l : list A) d : l <> [] -> In (last l d) l.
  Proof.
    revert d; induction l as [|x l IH]; intros d H; [congruence|].
    rewrite last_cons. destruct l as [|y l]; [left; reflexivity|].
    right. apply IH. discriminate.
  Qed.

  Lemma hd_app (l1 l2 : list A) d : hd d (l1 ++ l2) = hd (hd d l2) l1.
  Proof. destruct l1; reflexivity. Qed.

  Lemma hd_in (l : list A) d : l <> [] -> In (hd d l) l.
  Proof. destruct l; [congruence|]. intros _. left. reflexivity. Qed.

  Lemma NoDup_app_iff (l1 l2 : list A) :
    NoDup (l1 ++ l2) <-> NoDup l1 /\ NoDup l2 /\ (forall x, In x l1 -> In x l2 -> False).
  Proof.
    induction l1 as [|x l1 IH]; cbn [app].
    - split; [intros H; repeat split; [constructor|assumption|intros ? []]|intros (_ & H & _); exact H].
    - rewrite !NoDup_cons_iff, IH, in_app_iff. split.
      + intros (Hx & H1 & H2 & H3). repeat split; try tauto.
        intros y [<-|Hy] Hy2; [tauto|eauto].
      + intros ((Hx & H1) & H2 & H3). repeat split; try tauto.
        * intros [H|H]; [tauto|]. apply (H3 x); [left; reflexivity|assumption].
        * intros y Hy Hy2. apply (H3 y); [right; assumption|assumption].
  Qed.

  Lemma list_rev_cases (l : list A) : l = [] \/ exists l' x, l = l' ++ [x].
  Proof.
    destruct l as [|a l]; [left; reflexivity|right].
    destruct (@exists_last A (a :: l)) as (l' & x & E); [discriminate|].
    exists l', x. exact E.
  Qed.
End ListAux.
Arguments last_cons {A}.
Arguments last_app {A}.
Arguments last_in {A}.
Arguments hd_app {A}.
Arguments hd_in {A}.
Arguments NoDup_app_iff {A}.
Arguments list_rev_cases {A}.

(* ------------------------------------------------------------------ heaps *)
Section Heap.
  Variables K V : Type.
  #[local] Arguments hget {K V}.
  #[local] Arguments hset {K V}.
  #[local] Arguments hfree {K V}.
  #[local] Arguments rd {K V}.
  #[local] Arguments wr {K V}.
  #[local] Arguments n_next {K V}.
  #[local] Arguments n_prev {K V}.
  #[local] Arguments n_key {K V}.
  #[local] Arguments n_val {K V}.
  #[local] Arguments set_next {K V}.
  #[local] Arguments set_prev {K V}.
  #[local] Arguments set_val {K V}.

  Lemma hget_hset (h : heap K V) p n q :
    hget (hset h p n) q =
    if p =? q then match hget h p with Some _ => Some n | None => None end else hget h q.
  Proof.
    induction h as [|[q0 m] r IH]; cbn [hget hset].
    - destruct (p =? q); reflexivity.
    - destruct (N.eqb_spec q0 p) as [E|E]; cbn [hget].
      + subst q0. destruct (p =? q); reflexivity.
      + rewrite IH.
        destruct (N.eqb_spec p q) as [E1|E1]; destruct (N.eqb_spec q0 q) as [E2|E2];
          try reflexivity; congruence.
  Qed.

  Lemma map_fst_hset (h : heap K V) p n : map fst (hset h p n) = map fst h.
  Proof.
    induction h as [|[q0 m] r IH]; cbn [hset map fst]; [reflexivity|].
    destruct (q0 =? p); cbn [map fst]; [reflexivity|]. rewrite IH. reflexivity.
  Qed.

  Lemma hget_none (h : heap K V) q : ~ In q (map fst h) -> hget h q = None.
  Proof.
    induction h as [|[q0 m] r IH]; cbn [hget map fst In]; intros H; [reflexivity|].
    destruct (N.eqb_spec q0 q) as [E|E]; [tauto|]. apply IH. tauto.
  Qed.

  Lemma hget_in (h : heap K V) q : In q (map fst h) <-> hget h q <> None.
  Proof.
    induction h as [|[q0 m] r IH]; cbn [hget map fst In].
    - split; [intros []|congruence].
    - destruct (N.eqb_spec q0 q) as [E|E].
      + split; [discriminate|intros _; left; exact E].
      + rewrite <- IH. tauto.
  Qed.

  Lemma hget_hfree (h : heap K V) p q :
    NoDup (map fst h) -> hget (hfree h p) q = if p =? q then None else hget h q.
  Proof.
    induction h as [|[q0 m] r IH]; cbn [hget hfree map fst]; intros ND.
    - destruct (p =? q); reflexivity.
    - apply NoDup_cons_iff in ND. destruct ND as [Hn ND].
      destruct (N.eqb_spec q0 p) as [E|E].
      + subst q0. destruct (N.eqb_spec p q) as [E1|E1]; [|reflexivity].
        subst q. apply hget_none. exact Hn.
      + cbn [hget]. rewrite (IH ND).
        destruct (N.eqb_spec p q) as [E1|E1]; destruct (N.eqb_spec q0 q) as [E2|E2];
          try reflexivity; congruence.
  Qed.

  Lemma in_hfree (h : heap K V) p q :
    NoDup (map fst h) -> (In q (map fst (hfree h p)) <-> In q (map fst h) /\ q <> p).
  Proof.
    induction h as [|[q0 m] r IH]; cbn [hfree map fst In]; intros ND.
    - tauto.
    - apply NoDup_cons_iff in ND. destruct ND as [Hn ND].
      destruct (N.eqb_spec q0 p) as [E|E].
      + subst q0. split.
        * intros H. split; [right; exact H|]. intros ->. tauto.
        * intros [[H|H] Hne]; [congruence|exact H].
      + cbn [map fst In]. rewrite (IH ND). split.
        * intros [H|[H1 H2]]; [split; [left; exact H|congruence]|tauto].
        * intros [[H|H] Hne]; [left; exact H|right; tauto].
  Qed.

  Lemma nodup_hfree (h : heap K V) p : NoDup (map fst h) -> NoDup (map fst (hfree h p)).
  Proof.
    induction h as [|[q0 m] r IH]; cbn [hfree map fst]; intros ND; [constructor|].
    pose proof ND as ND0.
    apply NoDup_cons_iff in ND. destruct ND as [Hn ND].
    destruct (q0 =? p); [exact ND|].
    cbn [map fst]. constructor; [|apply IH; exact ND].
    intros H. apply (in_hfree r p q0 ND) in H. tauto.
  Qed.

  (* update of an allocated cell through a function of its content *)
  Definition hupd (h : heap K V) (p : ptr) (f : node K V -> node K V) : heap K V :=
    match hget h p with Some n => hset h p (f n) | None => h end.

  Lemma hget_hupd h p f q :
    hget (hupd h p f) q = if p =? q then option_map f (hget h p) else hget h q.
  Proof.
    unfold hupd. destruct (hget h p) as [n|] eqn:E.
    - rewrite hget_hset, E. reflexivity.
    - destruct (N.eqb_spec p q) as [E1|E1]; [|reflexivity]. subst q. rewrite E. reflexivity.
  Qed.

  Lemma map_fst_hupd h p f : map fst (hupd h p f) = map fst h.
  Proof. unfold hupd. destruct (hget h p); [apply map_fst_hset|reflexivity]. Qed.

  Lemma rd_ok (h : heap K V) p n : p <> 0 -> hget h p = Some n -> rd h p = Ok n.
  Proof.
    intros Hp Hg. unfold rd, null. destruct (N.eqb_spec p 0) as [E|E]; [contradiction|].
    rewrite Hg. reflexivity.
  Qed.

  Lemma wr_ok (h : heap K V) p f : p <> 0 -> In p (map fst h) -> wr h p f = Ok (hupd h p f).
  Proof.
    intros Hp Hin. apply hget_in in Hin. unfold wr, hupd.
    destruct (hget h p) as [n|] eqn:E; [|congruence].
    rewrite (rd_ok h p n Hp E). reflexivity.
  Qed.

  (* ---------------------------------------------------------------- chains *)
  Notation elt := (ptr * (K * V))%type.
  Definition eadr (x : elt) : ptr := fst x.
  Definition ekey (x : elt) : K := fst (snd x).
  Definition evl (x : elt) : V := snd (snd x).

  (* the nodes of `ns`, in order, form a doubly linked chain whose first node has prev = a and
     whose last node has next = z; each node carries the key and value listed *)
  Fixpoint chain (h : heap K V) (a : ptr) (ns : list elt) (z : ptr) : Prop :=
    match ns with
    | [] => True
    | x :: r =>
        hget h (eadr x) = Some (mkNode (hd z (map eadr r)) a (ekey x) (evl x)) /\
        chain h (eadr x) r z
    end.

  Lemma chain_app h n1 : forall a n2 z,
    chain h a (n1 ++ n2) z <->
    chain h a n1 (hd z (map eadr n2)) /\ chain h (last (map eadr n1) a) n2 z.
  Proof.
    induction n1 as [|x n1 IH]; intros a n2 z.
    - cbn [app chain map last]. tauto.
    - cbn [app chain map]. rewrite map_app, hd_app, IH, last_cons. tauto.
  Qed.

  Lemma chain_frame h h' ns : forall a z,
    (forall q, In q (map eadr ns) -> hget h' q = hget h q) ->
    chain h a ns z -> chain h' a ns z.
  Proof.
    induction ns as [|x r IH]; intros a z Hf; cbn [chain map]; [tauto|].
    intros [H1 H2]. split.
    - rewrite Hf; [exact H1|left; reflexivity].
    - apply IH; [|exact H2]. intros q Hq. apply Hf. right. exact Hq.
  Qed.

  Lemma chain_get h ns : forall a z x,
    chain h a ns z -> In x ns ->
    exists nx pv, hget h (eadr x) = Some (mkNode nx pv (ekey x) (evl x)).
  Proof.
    induction ns as [|y r IH]; intros a z x; cbn [chain In]; [tauto|].
    intros [H1 H2] [E|Hin].
    - subst y. eauto.
    - eapply IH; eassumption.
  Qed.

  (* changing the successor of the chain = rewriting the next field of its last node *)
  Lemma chain_set_last h h' n1 : forall a z z',
    NoDup (map eadr n1) ->
    chain h a n1 z ->
    (forall q, In q (map eadr n1) -> q <> last (map eadr n1) a -> hget h' q = hget h q) ->
    (n1 <> [] ->
     hget h' (last (map eadr n1) a) =
     option_map (fun n => set_next n z') (hget h (last (map eadr n1) a))) ->
    chain h' a n1 z'.
  Proof.
    induction n1 as [|x r IH]; intros a z z' ND C Hf Hl; cbn [chain]; [exact I|].
    cbn [chain map] in *. rewrite last_cons in *.
    apply NoDup_cons_iff in ND. destruct ND as [Hx ND]. destruct C as [C1 C2].
    destruct r as [|y r'].
    - cbn [map last hd chain] in *. split; [|exact I].
      rewrite Hl by discriminate. rewrite C1. reflexivity.
    - assert (Hne : eadr x <> last (map eadr (y :: r')) (eadr x)).
      { intros E. apply Hx. rewrite E. apply last_in. discriminate. }
      split.
      + rewrite Hf; [exact C1|left; reflexivity|exact Hne].
      + apply (IH (eadr x) z z' ND C2).
        * intros q Hq Hq'. apply Hf; [right; exact Hq|exact Hq'].
        * intros _. apply Hl. discriminate.
  Qed.

  (* changing the predecessor of the chain = rewriting the prev field of its first node *)
  Lemma chain_set_first h h' n2 a a' z :
    NoDup (map eadr n2) ->
    chain h a n2 z ->
    (forall q, In q (map eadr n2) -> q <> hd 0 (map eadr n2) -> hget h' q = hget h q) ->
    (n2 <> [] ->
     hget h' (hd 0 (map eadr n2)) =
     option_map (fun n => set_prev n a') (hget h (hd 0 (map eadr n2)))) ->
    chain h' a' n2 z.
  Proof.
    destruct n2 as [|x r]; intros ND C Hf Hh; cbn [chain]; [exact I|].
    cbn [chain map hd] in *.
    apply NoDup_cons_iff in ND. destruct ND as [Hx ND]. destruct C as [C1 C2].
    split.
    - rewrite Hh by discriminate. rewrite C1. reflexivity.
    - apply (chain_frame h h' r (eadr x) z); [|exact C2].
      intros q Hq. apply Hf; [right; exact Hq|]. intros ->. contradiction.
  Qed.

  (* removing x from n1 ++ x :: n2: the neighbours are linked to each other *)
  Lemma unlink_spec h h' n1 x n2 :
    NoDup (map eadr (n1 ++ x :: n2)) -> ~ In 0 (map eadr (n1 ++ x :: n2)) ->
    chain h 0 (n1 ++ x :: n2) 0 ->
    (forall q, In q (map eadr (n1 ++ n2)) ->
               q <> last (map eadr n1) 0 -> q <> hd 0 (map eadr n2) -> hget h' q = hget h q) ->
    (n1 <> [] ->
     hget h' (last (map eadr n1) 0) =
     option_map (fun n => set_next n (hd 0 (map eadr n2))) (hget h (last (map eadr n1) 0))) ->
    (n2 <> [] ->
     hget h' (hd 0 (map eadr n2)) =
     option_map (fun n => set_prev n (last (map eadr n1) 0)) (hget h (hd 0 (map eadr n2)))) ->
    chain h' 0 (n1 ++ n2) 0.
  Proof.
    intros ND NZ C Hf Hl Hh.
    rewrite map_app in ND, NZ. cbn [map] in ND, NZ.
    apply NoDup_app_iff in ND. destruct ND as (ND1 & ND2 & Dj).
    apply NoDup_cons_iff in ND2. destruct ND2 as [Hx ND2].
    apply chain_app in C. destruct C as [C1 C2]. cbn [chain map hd] in C1, C2.
    destruct C2 as [Cx C2].
    apply chain_app. split.
    - apply (chain_set_last h h' n1 0 (eadr x) _ ND1 C1).
      + intros q Hq Hq'. apply Hf; [rewrite map_app; apply in_or_app; left; exact Hq|exact Hq'|].
        destruct n2 as [|y n2']; cbn [map hd].
        * intros ->. apply NZ. apply in_or_app. left. exact Hq.
        * intros ->. apply (Dj (eadr y) Hq). right. left. reflexivity.
      + exact Hl.
    - apply (chain_set_first h h' n2 (eadr x) _ 0 ND2 C2).
      + intros q Hq Hq'. apply Hf; [rewrite map_app; apply in_or_app; right; exact Hq| |exact Hq'].
        destruct (list_rev_cases n1) as [->|(n1' & y & ->)]; cbn [map last].
        * intros ->. apply NZ. apply in_or_app. right. right. exact Hq.
        * rewrite map_app, last_app. cbn [map last]. intros ->.
          apply (Dj (eadr y)); [rewrite map_app; apply in_or_app; right; left; reflexivity|].
          right. exact Hq.
      + exact Hh.
  Qed.

End Heap.
