(* Sync42/ProofsWcqLive2.v — every step preserves the liveness invariant LInv (given the safety
   invariant). *)
From Coq Require Import Arith List Bool Lia Sorted.
From Blue Require Import Sync42.ModelLru Sync42.ModelWaitList Sync42.ModelWcq Sync42.ProofsWaitList
  Sync42.ProofsWcqBase Sync42.ProofsWcqInv Sync42.ProofsWcqStep1 Sync42.ProofsWcqStep3
  Sync42.ProofsWcqSafe Sync42.ProofsWcqLive1.
Import ListNotations.
Open Scope nat_scope.

Local Arguments Nat.modulo : simpl never.
Local Arguments Nat.div : simpl never.

(* ---- implicit type arguments, local to this file (the same block opens every ProofsWcq* file) *)
Local Arguments s_linked {T}. Local Arguments s_value {T}. Local Arguments w_head {T}. Local Arguments w_tail {T}.
Local Arguments w_waiting {T}. Local Arguments w_slots {T}. Local Arguments mkWl {T}. Local Arguments nslots {T}.
Local Arguments slot_at {T}. Local Arguments set_slot {T}. Local Arguments with_head {T}. Local Arguments with_tail {T}.
Local Arguments with_waiting {T}. Local Arguments invariants_ok {T}. Local Arguments wl_full {T}.
Local Arguments Linked {T}. Local Arguments MustWait {T}. Local Arguments wl_link_try {T}. Local Arguments wl_link_wake {T}.
Local Arguments wl_unlink {T}. Local Arguments wl_notify_head {T}. Local Arguments wl_store {T}. Local Arguments wl_load {T}.
Local Arguments wl_is_head {T}. Local Arguments wl_iter_next {T}. Local Arguments live {T}. Local Arguments wl_new {T}.
Local Arguments wl_wf {T}. Local Arguments link_new {T}.
Local Arguments in_live {T}. Local Arguments live_sorted {T}. Local Arguments live_nodup {T}. Local Arguments live_hd {T}.
Local Arguments live_nil_head {T}. Local Arguments slot_at_set_same {T}. Local Arguments slot_at_set_other {T}.
Local Arguments wf_invariants_ok {T}. Local Arguments unlink_spec {T}. Local Arguments link_new_spec {T}.
Local Arguments wl_link_try_unfold {T}. Local Arguments store_spec {T}. Local Arguments nslots_link_new {T}.
Local Arguments wl_wf_split {T}.

Local Arguments PIdle {Inp Outp Acc}. Local Arguments PLinkSleep {Inp Outp Acc}. Local Arguments PEnter {Inp Outp Acc}.
Local Arguments PTest {Inp Outp Acc}. Local Arguments PLoad {Inp Outp Acc}. Local Arguments PWait {Inp Outp Acc}.
Local Arguments PSleep {Inp Outp Acc}. Local Arguments PExitUnlink {Inp Outp Acc}.
Local Arguments PExitWA {Inp Outp Acc}. Local Arguments PExitNotify {Inp Outp Acc}.
Local Arguments PHead {Inp Outp Acc}. Local Arguments PLockCore {Inp Outp Acc}. Local Arguments PBatch {Inp Outp Acc}.
Local Arguments PWork {Inp Outp Acc}. Local Arguments PDist {Inp Outp Acc}. Local Arguments PLeaderLoad {Inp Outp Acc}.
Local Arguments PLeaderUnlink {Inp Outp Acc}. Local Arguments PLeaderWA {Inp Outp Acc}.
Local Arguments PLeaderClear {Inp Outp Acc}. Local Arguments PLeaderNotify {Inp Outp Acc}.
Local Arguments mkThread {Inp Outp Acc}. Local Arguments t_pc {Inp Outp Acc}. Local Arguments t_todo {Inp Outp Acc}.
Local Arguments t_done {Inp Outp Acc}.
Local Arguments mkG {Inp Outp Acc CS}. Local Arguments g_wl {Inp Outp Acc CS}. Local Arguments g_S {Inp Outp Acc CS}.
Local Arguments g_C {Inp Outp Acc CS}. Local Arguments g_dw {Inp Outp Acc CS}. Local Arguments g_core {Inp Outp Acc CS}.
Local Arguments g_threads {Inp Outp Acc CS}. Local Arguments g_links {Inp Outp Acc CS}.
Local Arguments g_seen {Inp Outp Acc CS}. Local Arguments g_batches {Inp Outp Acc CS}.
Local Arguments with_threads {Inp Outp Acc CS}. Local Arguments with_wl {Inp Outp Acc CS}.
Local Arguments with_S {Inp Outp Acc CS}. Local Arguments with_C {Inp Outp Acc CS}.
Local Arguments with_dw {Inp Outp Acc CS}. Local Arguments set_pc {Inp Outp Acc}.
Local Arguments set_thread {Inp Outp Acc CS}. Local Arguments tokenize {Inp Outp Acc}.
Local Arguments wake_nth {Inp Outp Acc}. Local Arguments count_sel {Inp Outp Acc}.
Local Arguments notify_one {Inp Outp Acc}. Local Arguments sleeps_on {Inp Outp Acc}.
Local Arguments sleeps_wa {Inp Outp Acc}. Local Arguments notify_cond {Inp Outp Acc CS}.
Local Arguments notify_wa {Inp Outp Acc CS}.
Local Arguments SOk {Inp Outp Acc CS}. Local Arguments SBlocked {Inp Outp Acc CS}.
Local Arguments SDone {Inp Outp Acc CS}. Local Arguments SPanic {Inp Outp Acc CS}.
Local Arguments after_link {Inp Outp Acc CS}. Local Arguments finish {Inp Outp Acc}.
Local Arguments spurious {Inp Outp Acc CS}. Local Arguments thread_finished {Inp Outp Acc}.
Local Arguments all_finished {Inp Outp Acc CS}.

Ltac lcbn :=
  cbn [set_pc finish t_pc t_todo t_done will_notify_head wa_witness pc_idx isSome holdsS
       g_wl g_S g_C g_dw g_core g_threads g_links g_seen g_batches
       set_thread with_threads with_S with_C with_dw with_wl] in *.

Ltac lauto :=
  lcbn;
  try solve [intros; discriminate];
  try solve [intros; exfalso; intuition discriminate];
  try solve [left; reflexivity];
  try solve [right; left; reflexivity | right; left; assumption];
  try solve [right; right; split; [intros; assumption | left; reflexivity]];
  try solve [intros; left; assumption];
  try solve [intros; left; reflexivity];
  try solve [intros; right; right; reflexivity];
  try solve [right; right; reflexivity];
  try solve [intros; right; reflexivity];
  try solve [intros; assumption].

Section Live2.
  Context {Inp Outp Acc CS : Type}.
  Context {acc0 : Acc} {can_batch : CS -> Acc -> Inp -> bool} {batch : CS -> Acc -> Inp -> CS * Acc}
          {work : CS -> nat -> Acc -> CS * list Outp}.
  Notation pc := (pc Inp Outp Acc).
  Notation thread := (thread Inp Outp Acc).
  Notation gstate := (gstate Inp Outp Acc CS).
  Notation wst := (wstate Inp Outp).
  Notation TSTEP := (tstep Inp Outp Acc CS acc0 can_batch batch work).
  Variable progs : list (list Inp).

  Ltac open_live Ht Hpc Hstep :=
    unfold tstep in Hstep; rewrite Ht in Hstep; cbv beta iota in Hstep; rewrite Hpc in Hstep;
    cbv beta iota in Hstep.

  (* steps without notification *)
  Ltac lstep0 H HL Ht :=
    match goal with
    | Hstep : SOk _ = SOk _ |- _ => injection Hstep as Hstep; subst
    end;
    eapply (LInv_step progs _ _ _ _ _ _ _ _ _ H HL Ht);
    [apply tokrel_refl | exact Ht | reflexivity | ..].

  Lemma live_PEnter : forall (g g' : gstate) lo cov ld t th c idx,
    InvR progs g lo cov ld -> LInv g -> nth_error (g_threads g) t = Some th ->
    t_pc th = PEnter idx -> TSTEP g t c = SOk g' -> LInv g'.
  Proof.
    intros g g' lo cov ld t th c idx H HL Ht Hpc Hstep. open_live Ht Hpc Hstep.
    destruct (g_S g) eqn:HS; cbn [free] in Hstep; [discriminate|].
    lstep0 H HL Ht; rewrite ?Hpc; lauto.
  Qed.
  Lemma live_PSleep : forall (g g' : gstate) lo cov ld t th c idx b,
    InvR progs g lo cov ld -> LInv g -> nth_error (g_threads g) t = Some th ->
    t_pc th = PSleep idx b -> TSTEP g t c = SOk g' -> LInv g'.
  Proof.
    intros g g' lo cov ld t th c idx b H HL Ht Hpc Hstep. open_live Ht Hpc Hstep.
    destruct b; [|discriminate].
    destruct (g_S g) eqn:HS; cbn [free] in Hstep; [discriminate|].
    lstep0 H HL Ht; rewrite ?Hpc; lauto.
  Qed.

  Lemma live_PTest : forall (g g' : gstate) lo cov ld t th c idx,
    InvR progs g lo cov ld -> LInv g -> nth_error (g_threads g) t = Some th ->
    t_pc th = PTest idx -> TSTEP g t c = SOk g' -> LInv g'.
  Proof.
    intros g g' lo cov ld t th c idx H HL Ht Hpc Hstep. open_live Ht Hpc Hstep.
    destruct (g_dw g) eqn:Hdw.
    - lstep0 H HL Ht; rewrite ?Hpc; lauto.
    - unfold wl_is_head in Hstep.
      destruct (negb (invariants_ok (g_wl g))); [discriminate|].
      destruct (Nat.eqb_spec (w_head (g_wl g)) idx) as [E | E].
      + lstep0 H HL Ht; rewrite ?Hpc; lauto.
      + lstep0 H HL Ht; rewrite ?Hpc; lauto.
        intros idx0 [E0 | E0] Hhd; [injection E0 as E0; congruence | discriminate].
  Qed.

  Lemma live_PLoad : forall (g g' : gstate) lo cov ld t th c idx,
    InvR progs g lo cov ld -> LInv g -> nth_error (g_threads g) t = Some th ->
    t_pc th = PLoad idx -> TSTEP g t c = SOk g' -> LInv g'.
  Proof.
    intros g g' lo cov ld t th c idx H HL Ht Hpc Hstep. open_live Ht Hpc Hstep.
    assert (P1 : w_head (g_wl g) = idx -> g_dw g = true).
    { apply (l_p1 _ HL t th idx Ht). left; exact Hpc. }
    destruct (wl_load (g_wl g) idx) as [[inp | | o] | | |]; try discriminate.
    - lstep0 H HL Ht; rewrite ?Hpc; lauto.
      intros idx0 [E0 | E0] Hhd; [discriminate | injection E0 as E0; subst idx0; auto].
    - lstep0 H HL Ht; rewrite ?Hpc; lauto.
      intros idx0 [E0 | E0] Hhd; [discriminate | injection E0 as E0; subst idx0; auto].
    - lstep0 H HL Ht; rewrite ?Hpc; lauto.
  Qed.

  Lemma live_PWait : forall (g g' : gstate) lo cov ld t th c idx,
    InvR progs g lo cov ld -> LInv g -> nth_error (g_threads g) t = Some th ->
    t_pc th = PWait idx -> TSTEP g t c = SOk g' -> LInv g'.
  Proof.
    intros g g' lo cov ld t th c idx H HL Ht Hpc Hstep. open_live Ht Hpc Hstep.
    assert (P1 : w_head (g_wl g) = idx -> g_dw g = true).
    { apply (l_p1 _ HL t th idx Ht). right; exact Hpc. }
    lstep0 H HL Ht; rewrite ?Hpc; lauto.
    intros idx0 E0 Hhd; injection E0 as E0; subst idx0; auto.
  Qed.

  Lemma live_PHead : forall (g g' : gstate) lo cov ld t th c idx,
    InvR progs g lo cov ld -> LInv g -> nth_error (g_threads g) t = Some th ->
    t_pc th = PHead idx -> TSTEP g t c = SOk g' -> LInv g'.
  Proof.
    intros g g' lo cov ld t th c idx H HL Ht Hpc Hstep. open_live Ht Hpc Hstep.
    destruct (g_dw g) eqn:Hdw; [discriminate|].
    destruct (wl_is_head (g_wl g) idx) as [[|] | | |]; try discriminate.
    destruct (wl_load (g_wl g) idx) as [[inp | | o] | | |]; try discriminate.
    - lstep0 H HL Ht; rewrite ?Hpc; lauto.
    - lstep0 H HL Ht; rewrite ?Hpc; lauto.
  Qed.

  Lemma live_PLockCore : forall (g g' : gstate) lo cov ld t th c idx,
    InvR progs g lo cov ld -> LInv g -> nth_error (g_threads g) t = Some th ->
    t_pc th = PLockCore idx -> TSTEP g t c = SOk g' -> LInv g'.
  Proof.
    intros g g' lo cov ld t th c idx H HL Ht Hpc Hstep. open_live Ht Hpc Hstep.
    destruct (g_C g) eqn:HC; cbn [free] in Hstep; [discriminate|].
    lstep0 H HL Ht; rewrite ?Hpc; lauto.
  Qed.

  Lemma live_PWork : forall (g g' : gstate) lo cov ld t th c idx taken acc,
    InvR progs g lo cov ld -> LInv g -> nth_error (g_threads g) t = Some th ->
    t_pc th = PWork idx taken acc -> TSTEP g t c = SOk g' -> LInv g'.
  Proof.
    intros g g' lo cov ld t th c idx taken acc H HL Ht Hpc Hstep. open_live Ht Hpc Hstep.
    destruct (work (g_core g) taken acc) as [core' outs].
    lstep0 H HL Ht; rewrite ?Hpc; lauto.
  Qed.

  Lemma live_PLeaderLoad : forall (g g' : gstate) lo cov ld t th c idx,
    InvR progs g lo cov ld -> LInv g -> nth_error (g_threads g) t = Some th ->
    t_pc th = PLeaderLoad idx -> TSTEP g t c = SOk g' -> LInv g'.
  Proof.
    intros g g' lo cov ld t th c idx H HL Ht Hpc Hstep. open_live Ht Hpc Hstep.
    destruct (wl_load (g_wl g) idx) as [[inp | | o] | | |]; try discriminate.
    lstep0 H HL Ht; rewrite ?Hpc; lauto.
  Qed.

  Lemma live_PLeaderClear : forall (g g' : gstate) lo cov ld t th c idx o,
    InvR progs g lo cov ld -> LInv g -> nth_error (g_threads g) t = Some th ->
    t_pc th = PLeaderClear idx o -> TSTEP g t c = SOk g' -> LInv g'.
  Proof.
    intros g g' lo cov ld t th c idx o H HL Ht Hpc Hstep. open_live Ht Hpc Hstep.
    destruct (g_S g) eqn:HS; cbn [free] in Hstep; [discriminate|].
    lstep0 H HL Ht; rewrite ?Hpc; lauto.
  Qed.
  (* ---- link *)
  Lemma live_link_try : forall (g g' : gstate) lo cov ld t th th1 i w1,
    InvR progs g lo cov ld -> LInv g -> nth_error (g_threads g) t = Some th ->
    will_notify_head (t_pc th) = false ->
    w_head w1 = w_head (g_wl g) -> wl_full w1 = wl_full (g_wl g) ->
    after_link g t th1 i (wl_link_try w1 (WInput i)) = SOk g' -> LInv g'.
  Proof.
    intros g g' lo cov ld t th th1 i w1 H HL Ht Hwn Hhd Hfl Hstep.
    rewrite wl_link_try_unfold in Hstep.
    destruct (wl_full w1) eqn:Hfull.
    - destruct (negb (invariants_ok w1)); [discriminate|]. cbn [after_link] in Hstep.
      lstep0 H HL Ht; rewrite ?Hwn; lauto.
      right; right. split; [auto | left; exact Hhd].
    - destruct (negb (invariants_ok (link_new w1 (WInput i)))); [discriminate|].
      cbn [after_link] in Hstep.
      lstep0 H HL Ht; rewrite ?Hwn; lauto.
      right; right. split; [auto | left; exact Hhd].
  Qed.

  Lemma live_PIdle : forall (g g' : gstate) lo cov ld t th c,
    InvR progs g lo cov ld -> LInv g -> nth_error (g_threads g) t = Some th ->
    t_pc th = PIdle -> TSTEP g t c = SOk g' -> LInv g'.
  Proof.
    intros g g' lo cov ld t th c H HL Ht Hpc Hstep. open_live Ht Hpc Hstep.
    destruct (t_todo th) as [|i rest]; [discriminate|].
    eapply (live_link_try g g' lo cov ld t th _ i (g_wl g) H HL Ht); try reflexivity; try eassumption.
    rewrite Hpc. reflexivity.
  Qed.

  Lemma live_PLinkSleep : forall (g g' : gstate) lo cov ld t th c i b,
    InvR progs g lo cov ld -> LInv g -> nth_error (g_threads g) t = Some th ->
    t_pc th = PLinkSleep i b -> TSTEP g t c = SOk g' -> LInv g'.
  Proof.
    intros g g' lo cov ld t th c i b H HL Ht Hpc Hstep. open_live Ht Hpc Hstep.
    destruct b; [|discriminate].
    unfold wl_link_wake in Hstep.
    destruct (w_waiting (g_wl g)) as [|n]; [discriminate|].
    destruct (negb (invariants_ok (with_waiting (g_wl g) n))); [discriminate|].
    eapply (live_link_try g g' lo cov ld t th _ i (with_waiting (g_wl g) n) H HL Ht);
      try reflexivity; try eassumption.
    rewrite Hpc. reflexivity.
  Qed.

  (* ---- unlink *)
  Lemma live_unlink : forall (g g' : gstate) lo cov ld t th idx (pa pb : pc),
    InvR progs g lo cov ld -> LInv g -> nth_error (g_threads g) t = Some th ->
    pc_idx (t_pc th) = Some idx ->
    (holdsS (t_pc th) = true \/ g_dw g = true) ->
    wa_witness pa = true ->
    (will_notify_head pa = true /\ will_notify_head pb = true) \/ g_dw g = true ->
    (will_notify_head (t_pc th) = true -> will_notify_head pa = true /\ will_notify_head pb = true) ->
    (forall j, pa <> PLoad j /\ pa <> PWait j /\ pb <> PLoad j /\ pb <> PWait j) ->
    (forall j b, pa <> PSleep j b /\ pb <> PSleep j b) ->
    (forall i b, pa <> PLinkSleep i b /\ pb <> PLinkSleep i b) ->
    match wl_unlink (g_wl g) idx with
    | Ok (w, true) => SOk (set_thread (with_wl g w) t (set_pc th pa))
    | Ok (w, false) => SOk (set_thread (with_wl g w) t (set_pc th pb))
    | _ => SPanic
    end = SOk g' -> LInv g'.
  Proof.
    intros g g' lo cov ld t th idx pa pb H HL Ht Hidx HSdw Hwa Hwn Hwn' Hnl Hns Hnls Hstep.
    assert (Hl : In idx (live (g_wl g))) by (eapply (i_idx_live _ _ _ _ _ H); eassumption).
    destruct (unlink_spec (g_wl g) idx (i_wf _ _ _ _ _ H) Hl)
      as (w' & Hu & Hwf' & Hn' & Ht' & Hw' & Hl' & Hs' & _ & Hh').
    rewrite Hu in Hstep.
    assert (Hnosl : (0 <? w_waiting (g_wl g)) = false ->
              (exists u a i, u <> t /\ nth_error (g_threads g) u = Some a /\
                             t_pc a = PLinkSleep i false) -> False).
    { intros Hz (u & a & i & _ & Ha & Hpa). apply Nat.ltb_ge in Hz.
      assert (E := i_waiting _ _ _ _ _ H).
      assert (Hf := count_sel_zero is_ls (g_threads g) u a ltac:(lia) Ha).
      rewrite Hpa in Hf. discriminate. }
    assert (C1a : holdsS (t_pc th) = true \/ g_S g = None \/
              ((g_dw g = true -> g_dw g = true) /\ (w_head w' = w_head (g_wl g) \/ g_dw g = true))).
    { destruct HSdw as [E | E]; [left; exact E | right; right; auto]. }
    destruct (0 <? w_waiting (g_wl g)) eqn:Hz.
    - lstep0 H HL Ht; lauto.
      + intros j [E | E]; exfalso; destruct (Hnl j) as (N1 & N2 & _); congruence.
      + intros j E. exfalso. destruct (Hns j false) as (N1 & _). congruence.
      + destruct Hwn as [[E _] | E]; auto.
      + intro Hw. left. apply Hwn'. exact Hw.
      + intros j E. exfalso. destruct (Hnls j false) as (N1 & _). congruence.
      + intros _. right; right. exact Hwa.
    - lstep0 H HL Ht; lauto.
      + intros j [E | E]; exfalso; destruct (Hnl j) as (_ & _ & N1 & N2); congruence.
      + intros j E. exfalso. destruct (Hns j false) as (_ & N1). congruence.
      + destruct Hwn as [[_ E] | E]; auto.
      + intro Hw. left. apply Hwn'. exact Hw.
      + intros j E. exfalso. destruct (Hnls j false) as (_ & N1). congruence.
  Qed.
  Lemma live_PExitUnlink : forall (g g' : gstate) lo cov ld t th c idx o,
    InvR progs g lo cov ld -> LInv g -> nth_error (g_threads g) t = Some th ->
    t_pc th = PExitUnlink idx o -> TSTEP g t c = SOk g' -> LInv g'.
  Proof.
    intros g g' lo cov ld t th c idx o H HL Ht Hpc Hstep. open_live Ht Hpc Hstep.
    eapply (live_unlink g g' lo cov ld t th idx (PExitWA idx o) (PExitNotify idx o) H HL Ht);
      try exact Hstep; rewrite ?Hpc; try reflexivity; auto.
    - intros j. repeat split; discriminate.
    - intros j b. repeat split; discriminate.
    - intros j b. repeat split; discriminate.
  Qed.

  Lemma live_PLeaderUnlink : forall (g g' : gstate) lo cov ld t th c idx o,
    InvR progs g lo cov ld -> LInv g -> nth_error (g_threads g) t = Some th ->
    t_pc th = PLeaderUnlink idx o -> TSTEP g t c = SOk g' -> LInv g'.
  Proof.
    intros g g' lo cov ld t th c idx o H HL Ht Hpc Hstep. open_live Ht Hpc Hstep.
    assert (Hdw : g_dw g = true).
    { rewrite (i_dw _ _ _ _ _ H).
      rewrite (leader_is progs g lo cov ld t th H Ht ltac:(rewrite Hpc; reflexivity)). reflexivity. }
    eapply (live_unlink g g' lo cov ld t th idx (PLeaderWA idx o) (PLeaderClear idx o) H HL Ht);
      try exact Hstep; rewrite ?Hpc; try reflexivity; auto.
    - intros j. repeat split; discriminate.
    - intros j b. repeat split; discriminate.
    - intros j b. repeat split; discriminate.
  Qed.

  (* ---- wait_waiter_available.notify_one *)
  Lemma live_wa : forall (g : gstate) lo cov ld t th c p',
    InvR progs g lo cov ld -> LInv g -> nth_error (g_threads g) t = Some th ->
    is_ls (t_pc th) = false ->
    (will_notify_head (t_pc th) = true -> will_notify_head p' = true) ->
    (forall j, p' <> PLoad j /\ p' <> PWait j) -> (forall j, p' <> PSleep j false) ->
    (forall i, p' <> PLinkSleep i false) ->
    LInv (set_thread (notify_wa g c) t (set_pc th p')).
  Proof.
    intros g lo cov ld t th c p' H HL Ht Hls Hwn Hn1 Hn2 Hn3.
    assert (Ht1 : nth_error (notify_one sleeps_wa c (g_threads g)) t = Some th).
    { apply notify_one_unsel; [exact Ht | apply sleeps_wa_false; exact Hls]. }
    eapply (LInv_step progs g _ lo cov ld t th _ _ H HL Ht);
      [apply notify_one_tokrel | exact Ht1 | reflexivity | ..]; lauto.
    - intros j [E | E]; exfalso; destruct (Hn1 j); congruence.
    - intros j E. exfalso. eapply Hn2; eassumption.
    - intro Hw. left. apply Hwn. exact Hw.
    - intros i E. exfalso. eapply Hn3; eassumption.
    - intros (u & a & i & Hne & Ha & Hpa) _. right; right.
      destruct (notify_wa_wakes (g_threads g) c u a i Ha Hpa) as (v & b & i' & Hv & Hb).
      exists v, b, i'. split; [exact Hv|]. split; [|exact Hb].
      intro E. subst v. rewrite Ht1 in Hv. injection Hv as E. subst b. rewrite Hb in Hls. discriminate.
  Qed.

  Lemma live_PExitWA : forall (g g' : gstate) lo cov ld t th c idx o,
    InvR progs g lo cov ld -> LInv g -> nth_error (g_threads g) t = Some th ->
    t_pc th = PExitWA idx o -> TSTEP g t c = SOk g' -> LInv g'.
  Proof.
    intros g g' lo cov ld t th c idx o H HL Ht Hpc Hstep. open_live Ht Hpc Hstep.
    injection Hstep as <-.
    eapply live_wa; try eassumption; rewrite ?Hpc; try reflexivity; try (intros; discriminate).
    intros j. split; discriminate.
  Qed.

  Lemma live_PLeaderWA : forall (g g' : gstate) lo cov ld t th c idx o,
    InvR progs g lo cov ld -> LInv g -> nth_error (g_threads g) t = Some th ->
    t_pc th = PLeaderWA idx o -> TSTEP g t c = SOk g' -> LInv g'.
  Proof.
    intros g g' lo cov ld t th c idx o H HL Ht Hpc Hstep. open_live Ht Hpc Hstep.
    injection Hstep as <-.
    eapply live_wa; try eassumption; rewrite ?Hpc; try reflexivity; try (intros; discriminate).
    intros j. split; discriminate.
  Qed.

  (* ---- notify_head and return *)
  Lemma notify_head_props : forall (g : gstate) lo cov ld t th c,
    InvR progs g lo cov ld -> nth_error (g_threads g) t = Some th ->
    (holdsS (t_pc th) = true \/ holdsC (t_pc th) = true) ->
    let g1 := match wl_notify_head (g_wl g) with Some h => notify_cond g h c | None => g end in
    tokrel (g_threads g) (g_threads g1) /\ nth_error (g_threads g1) t = Some th /\
    g_wl g1 = g_wl g /\ g_dw g1 = g_dw g /\
    (forall u b idx, nth_error (g_threads g1) u = Some b -> t_pc b = PSleep idx false ->
                     w_head (g_wl g) <> idx).
  Proof.
    intros g lo cov ld t th c H Ht Hh.
    destruct (notify_head_inv progs g lo cov ld t th c H Ht Hh) as (_ & Ht1 & Ew & _ & _ & Edw & _).
    unfold wl_notify_head in *.
    destruct (Nat.ltb_spec (w_head (g_wl g)) (w_tail (g_wl g))) as [Hlt | Hge]; cbv zeta in *.
    - split; [unfold notify_cond, with_threads; gproj; apply notify_one_tokrel|].
      split; [exact Ht1|]. split; [exact Ew|]. split; [exact Edw|].
      intros u b idx Hb Hpc E. subst idx.
      unfold notify_cond, with_threads in Hb. gproj.
      eapply (notify_head_wakes progs g lo cov ld c u b H); eassumption.
    - split; [apply tokrel_refl|]. split; [exact Ht|]. split; [reflexivity|]. split; [reflexivity|].
      intros u b idx Hb Hpc E.
      assert (Hl : In idx (live (g_wl g))).
      { eapply (i_idx_live _ _ _ _ _ H); [exact Hb | rewrite Hpc; reflexivity]. }
      apply in_live in Hl. lia.
  Qed.

  Lemma live_PExitNotify : forall (g g' : gstate) lo cov ld t th c idx o,
    InvR progs g lo cov ld -> LInv g -> nth_error (g_threads g) t = Some th ->
    t_pc th = PExitNotify idx o -> TSTEP g t c = SOk g' -> LInv g'.
  Proof.
    intros g g' lo cov ld t th c idx o H HL Ht Hpc Hstep. open_live Ht Hpc Hstep.
    destruct (notify_head_props g lo cov ld t th c H Ht ltac:(rewrite Hpc; left; reflexivity))
      as (Htok & Ht1 & Ew & Edw & Hsp).
    set (g1 := match wl_notify_head (g_wl g) with Some h => notify_cond g h c | None => g end) in *.
    injection Hstep as <-.
    eapply (LInv_step progs g _ lo cov ld t th _ _ H HL Ht);
      [exact Htok | exact Ht1 | reflexivity | ..]; rewrite ?Hpc; lauto; rewrite ?Ew, ?Edw; lauto.
    intros _. right. intros u b j Hb Hpb. eapply Hsp; eassumption.
  Qed.

  Lemma live_PLeaderNotify : forall (g g' : gstate) lo cov ld t th c idx o,
    InvR progs g lo cov ld -> LInv g -> nth_error (g_threads g) t = Some th ->
    t_pc th = PLeaderNotify idx o -> TSTEP g t c = SOk g' -> LInv g'.
  Proof.
    intros g g' lo cov ld t th c idx o H HL Ht Hpc Hstep. open_live Ht Hpc Hstep.
    destruct (notify_head_props g lo cov ld t th c H Ht ltac:(rewrite Hpc; right; reflexivity))
      as (Htok & Ht1 & Ew & Edw & Hsp).
    set (g1 := match wl_notify_head (g_wl g) with Some h => notify_cond g h c | None => g end) in *.
    injection Hstep as <-.
    eapply (LInv_step progs g _ lo cov ld t th _ _ H HL Ht);
      [exact Htok | exact Ht1 | reflexivity | ..]; rewrite ?Hpc; lauto; rewrite ?Ew, ?Edw; lauto.
    intros _. right. intros u b j Hb Hpb. eapply Hsp; eassumption.
  Qed.
  (* ---- the leader's stores *)
  Lemma wl_full_store : forall (w : wl wst) i v, wl_full (wl_store w i v) = wl_full w.
  Proof.
    intros w i v. unfold wl_full, wl_store. rewrite (nslots_set_slot wst). reflexivity.
  Qed.

  Lemma live_PBatch : forall (g g' : gstate) lo cov ld t th c idx cur taken acc,
    InvR progs g lo cov ld -> LInv g -> nth_error (g_threads g) t = Some th ->
    t_pc th = PBatch idx cur taken acc -> TSTEP g t c = SOk g' -> LInv g'.
  Proof.
    intros g g' lo cov ld t th c idx cur taken acc H HL Ht Hpc Hstep. open_live Ht Hpc Hstep.
    destruct (wl_iter_next (g_wl g) cur).
    - destruct (wl_load (g_wl g) cur) as [[inp | | o] | | |]; try discriminate.
      destruct ((taken =? 0) || can_batch (g_core g) acc inp).
      + destruct (batch (g_core g) acc inp) as [core' acc']. injection Hstep as <-.
        eapply (LInv_step progs g _ lo cov ld t th _ _ H HL Ht);
          [apply notify_one_tokrel | | reflexivity | ..].
        * unfold notify_cond, with_threads. gproj. apply notify_one_unsel; [exact Ht|].
          apply sleeps_on_false. apply pc_not_sleep. rewrite Hpc. left; reflexivity.
        * rewrite Hpc. lauto.
        * lauto.
        * lauto.
        * lauto.
        * lauto.
        * rewrite Hpc. lauto.
        * lauto.
        * intros _. left. unfold notify_cond, with_threads. gproj. apply wl_full_store.
        * rewrite Hpc. lauto.
      + lstep0 H HL Ht; rewrite ?Hpc; lauto.
    - lstep0 H HL Ht; rewrite ?Hpc; lauto.
  Qed.

  Lemma live_PDist : forall (g g' : gstate) lo cov ld t th c idx cur rem outs,
    InvR progs g lo cov ld -> LInv g -> nth_error (g_threads g) t = Some th ->
    t_pc th = PDist idx cur rem outs -> TSTEP g t c = SOk g' -> LInv g'.
  Proof.
    intros g g' lo cov ld t th c idx cur rem outs H HL Ht Hpc Hstep. open_live Ht Hpc Hstep.
    destruct rem as [|rem']; [lstep0 H HL Ht; rewrite ?Hpc; lauto|].
    destruct (wl_iter_next (g_wl g) cur); [|lstep0 H HL Ht; rewrite ?Hpc; lauto].
    destruct outs as [|o outs']; [lstep0 H HL Ht; rewrite ?Hpc; lauto|].
    injection Hstep as <-.
    set (sel := @sleeps_on Inp Outp Acc (nslots (wl_store (g_wl g) cur (WOutput o))) cur).
    assert (Hsel : sel (t_pc th) = false).
    { apply sleeps_on_false. apply pc_not_sleep. rewrite Hpc. right; reflexivity. }
    eapply (LInv_step progs g _ lo cov ld t th _ _ H HL Ht);
      [ | | reflexivity | ..].
    - unfold notify_cond, with_threads, with_wl. gproj.
      eapply tokrel_trans; apply notify_one_tokrel.
    - unfold notify_cond, with_threads, with_wl. gproj.
      apply notify_one_unsel; [|exact Hsel]. apply notify_one_unsel; [exact Ht | exact Hsel].
    - rewrite Hpc. lauto.
    - lauto.
    - lauto.
    - lauto.
    - lauto.
    - rewrite Hpc. lauto.
    - lauto.
    - intros _. left. unfold notify_cond, with_threads, with_wl. gproj. apply wl_full_store.
    - rewrite Hpc. lauto.
  Qed.

  (* ---- all steps *)
  Theorem tstep_live : forall (g g' : gstate) t c,
    Inv progs g -> LInv g -> TSTEP g t c = SOk g' -> LInv g'.
  Proof.
    intros g g' t c (lo & cov & ld & H) HL Hstep.
    destruct (nth_error (g_threads g) t) as [th|] eqn:Ht;
      [|unfold tstep in Hstep; rewrite Ht in Hstep; discriminate].
    destruct (t_pc th) eqn:Hpc.
    - eapply live_PIdle; eassumption.
    - eapply live_PLinkSleep; eassumption.
    - eapply live_PEnter; eassumption.
    - eapply live_PTest; eassumption.
    - eapply live_PLoad; eassumption.
    - eapply live_PWait; eassumption.
    - eapply live_PSleep; eassumption.
    - eapply live_PExitUnlink; eassumption.
    - eapply live_PExitWA; eassumption.
    - eapply live_PExitNotify; eassumption.
    - eapply live_PHead; eassumption.
    - eapply live_PLockCore; eassumption.
    - eapply live_PBatch; eassumption.
    - eapply live_PWork; eassumption.
    - eapply live_PDist; eassumption.
    - eapply live_PLeaderLoad; eassumption.
    - eapply live_PLeaderUnlink; eassumption.
    - eapply live_PLeaderWA; eassumption.
    - eapply live_PLeaderClear; eassumption.
    - eapply live_PLeaderNotify; eassumption.
  Qed.

  Lemma spurious_live : forall (g : gstate) t, Inv progs g -> LInv g -> LInv (spurious g t).
  Proof.
    intros g t (lo & cov & ld & H) HL. unfold spurious.
    destruct (nth_error (g_threads g) t) as [th|] eqn:Ht; [|exact HL].
    eapply (LInv_step progs g _ lo cov ld t th _ _ H HL Ht);
      [apply tokrel_refl | exact Ht | reflexivity | ..]; lauto.
    - intros idx Hp Hhd. apply (l_p1 _ HL t th idx Ht); [|exact Hhd].
      destruct (t_pc th) as [| i [|] | | | | | j [|] | | | | | | | | | | | | | ]; cbn [tokenize] in Hp;
        destruct Hp as [Hp | Hp]; try discriminate; auto.
    - intros idx Hp. exfalso.
      destruct (t_pc th) as [| i [|] | | | | | j [|] | | | | | | | | | | | | | ]; cbn [tokenize] in Hp;
        discriminate.
    - rewrite will_notify_tok. auto.
    - intros i Hp. exfalso.
      destruct (t_pc th) as [| i' [|] | | | | | j [|] | | | | | | | | | | | | | ]; cbn [tokenize] in Hp;
        discriminate.
    - intros _ Hw. left. apply wa_witness_tok. exact Hw.
  Qed.

  Lemma exec_live : forall (g g' : gstate) a, Inv progs g -> LInv g ->
    exec Inp Outp Acc CS acc0 can_batch batch work g a = Ok g' -> LInv g'.
  Proof.
    intros g g' [t c | t] HI HL He; cbn [exec] in He.
    - destruct (TSTEP g t c) as [g1 | | |] eqn:Hs; try discriminate; injection He as <-;
        [eapply tstep_live; eassumption | exact HL | exact HL].
    - injection He as <-. apply spurious_live; assumption.
  Qed.
End Live2.
