(* Sync42/ModelWaitList.v — executable model of sync42/src/wait_list.rs (WaitList / WaitGuard /
   WaitIterator).  Definitions only.

   Every public operation of the wait list is one critical section of the mutex `state`
   (WaitListState {head, tail, waiting_for_available}); the per-slot `linked` flag and `value`
   cell are only touched inside such a section, so each operation is modelled as one atomic
   function on the record below.  The ring has `length w_slots` slots (MAX_CONCURRENCY in the
   code); an index i lives in slot i mod that length (fn index_waitlist).  u64 indices are
   unbounded naturals (2^64 links are out of reach).  `assert!` failures and `unwrap()` on None are
   Panic.  Condition variables are not part of this record: an operation that notifies returns who
   is notified; blocking in `link` is the result MustWait (see ModelWcq.v for the threads). *)
From Coq Require Import Arith List Bool.
From Blue Require Import Sync42.ModelLru.   (* the result monad *)
Import ListNotations.

Section WaitList.
  Variable T : Type.

  Record slot := mkSlot { s_linked : bool; s_value : option T }.   (* struct Waiter *)
  Definition empty_slot := mkSlot false None.

  Record wl := mkWl {
    w_head : nat; w_tail : nat; w_waiting : nat;   (* WaitListState *)
    w_slots : list slot }.                          (* waiters: Vec<Waiter<T>> *)

  Definition nslots (w : wl) : nat := length (w_slots w).

  (* WaitList::new with n = MAX_CONCURRENCY *)
  Definition wl_new (n : nat) : wl := mkWl 0 0 0 (repeat empty_slot n).

  Fixpoint upd {A} (i : nat) (x : A) (l : list A) : list A :=
    match l, i with
    | [], _ => []
    | _ :: r, O => x :: r
    | y :: r, S i' => y :: upd i' x r
    end.

  (* fn index_waitlist *)
  Definition slot_at (w : wl) (i : nat) : slot := nth (i mod nslots w) (w_slots w) empty_slot.
  Definition set_slot (w : wl) (i : nat) (s : slot) : wl :=
    mkWl (w_head w) (w_tail w) (w_waiting w) (upd (i mod nslots w) s (w_slots w)).
  Definition with_head (w : wl) (h : nat) := mkWl h (w_tail w) (w_waiting w) (w_slots w).
  Definition with_tail (w : wl) (t : nat) := mkWl (w_head w) t (w_waiting w) (w_slots w).
  Definition with_waiting (w : wl) (n : nat) := mkWl (w_head w) (w_tail w) n (w_slots w).

  (* fn assert_invariants *)
  Definition invariants_ok (w : wl) : bool :=
    (w_head w =? w_tail w) || s_linked (slot_at w (w_head w)).

  (* the `while state.head + waiters.len() <= state.tail` test of link *)
  Definition wl_full (w : wl) : bool := w_head w + nslots w <=? w_tail w.

  Inductive link_res :=
  | Linked (w : wl) (index : nat)
  | MustWait (w : wl).     (* waiting_for_available was incremented; the caller now sleeps on
                              wait_waiter_available *)

  (* link, from the loop test on (the caller holds the mutex) *)
  Definition wl_link_try (w : wl) (t : T) : res link_res :=
    if wl_full w then
      if negb (invariants_ok w) then Panic else
      Ok (MustWait (with_waiting w (S (w_waiting w))))
    else
      let index := w_tail w in
      let w1 := with_tail w (S (w_tail w)) in
      (* Waiter::initialize: store the value, then linked = true *)
      let w2 := set_slot w1 index (mkSlot true (Some t)) in
      if negb (invariants_ok w2) then Panic else
      Ok (Linked w2 index).

  (* link, when wait_waiter_available.wait returns (notified or spuriously), mutex re-acquired *)
  Definition wl_link_wake (w : wl) (t : T) : res link_res :=
    match w_waiting w with
    | O => Panic                                   (* waiting_for_available -= 1 underflow *)
    | S n =>
        let w1 := with_waiting w n in
        if negb (invariants_ok w1) then Panic else
        wl_link_try w1 t
    end.

  (* the head-advance loop of _unlink; fuel = tail - head *)
  Fixpoint wl_advance (fuel : nat) (w : wl) : wl :=
    match fuel with
    | O => w
    | S f =>
        if (w_head w <? w_tail w) && negb (s_linked (slot_at w (w_head w))) then
          (* Waiter::deinitialize: value.take() *)
          let w1 := set_slot w (w_head w) (mkSlot (s_linked (slot_at w (w_head w))) None) in
          wl_advance f (with_head w1 (S (w_head w)))
        else w
    end.

  (* fn _unlink; returns the new state and whether wait_waiter_available is notified after the
     mutex is released *)
  Definition wl_unlink (w : wl) (index : nat) : res (wl * bool) :=
    if negb (invariants_ok w) then Panic else
    if negb (s_linked (slot_at w index)) then Panic else     (* assert!(waiter.linked) *)
    let w1 := set_slot w index (mkSlot false (s_value (slot_at w index))) in
    let w2 := wl_advance (w_tail w1 - w_head w1) w1 in
    if negb (invariants_ok w2) then Panic else
    Ok (w2, 0 <? w_waiting w2).

  (* fn notify_head: the index whose condition variable gets notify_one *)
  Definition wl_notify_head (w : wl) : option nat :=
    if w_head w <? w_tail w then Some (w_head w) else None.

  (* WaitGuard::store / load / is_head / count / get_waiter; WaitIterator::next *)
  Definition wl_store (w : wl) (index : nat) (t : T) : wl :=
    set_slot w index (mkSlot (s_linked (slot_at w index)) (Some t)).
  Definition wl_load (w : wl) (index : nat) : res T :=
    match s_value (slot_at w index) with Some t => Ok t | None => Panic end.
  Definition wl_is_head (w : wl) (index : nat) : res bool :=
    if negb (invariants_ok w) then Panic else Ok (w_head w =? index).
  Definition wl_count (w : wl) : nat := w_tail w - w_head w.
  Definition wl_get_waiter (w : wl) (self_index index : nat) : option nat :=
    if (index <? self_index) || (w_tail w <=? index) || negb (s_linked (slot_at w index))
    then None else Some index.
  Definition wl_iter_next (w : wl) (index : nat) : option nat :=
    if w_tail w <=? index then None else Some index.

  (* ------------------------------------------------------------ a sequential client
     Every list of these operations is a legal use of the API: guards are named by their position
     in the list of guards the client currently owns, blocked calls to link are kept in a queue
     and may be retried (woken) at any time. *)
  Inductive wop :=
  | WLink (t : T)            (* a new call to link: links or blocks *)
  | WWake (j : nat)          (* the j-th blocked call (mod their number) wakes and re-tests *)
  | WUnlink (k : nat)        (* unlink the k-th owned guard (mod their number) *)
  | WNotifyHead
  | WStore (k : nat) (t : T)
  | WLoad (k : nat)
  | WIsHead (k : nat)
  | WCount.

  Inductive wout :=
  | WoNone
  | WoLinked (index : nat)
  | WoBlocked
  | WoUnlinked (index : nat) (notify_available : bool)
  | WoNotified (index : option nat)
  | WoValue (t : T)
  | WoBool (b : bool)
  | WoNat (n : nat).

  Record client := mkClient {
    c_wl : wl;
    c_owned : list nat;        (* indices of the guards held, in the order they were linked *)
    c_blocked : list T }.      (* values of the calls to link that are waiting for a slot *)

  Fixpoint remove_nth {A} (n : nat) (l : list A) : list A :=
    match l, n with
    | [], _ => []
    | _ :: r, O => r
    | x :: r, S n' => x :: remove_nth n' r
    end.

  Definition pick {A} (k : nat) (l : list A) : option (nat * A) :=
    match l with
    | [] => None
    | x :: _ => let j := k mod length l in Some (j, nth j l x)
    end.

  Definition link_outcome (c : client) (r : link_res) (blocked' : list T) (t : T)
    : client * wout :=
    match r with
    | Linked w i => (mkClient w (c_owned c ++ [i]) blocked', WoLinked i)
    | MustWait w => (mkClient w (c_owned c) (blocked' ++ [t]), WoBlocked)
    end.

  Definition wstep (c : client) (o : wop) : res (client * wout) :=
    match o with
    | WLink t =>
        r <- wl_link_try (c_wl c) t ;; Ok (link_outcome c r (c_blocked c) t)
    | WWake j =>
        match pick j (c_blocked c) with
        | None => Ok (c, WoNone)
        | Some (j', t) =>
            r <- wl_link_wake (c_wl c) t ;;
            Ok (link_outcome c r (remove_nth j' (c_blocked c)) t)
        end
    | WUnlink k =>
        match pick k (c_owned c) with
        | None => Ok (c, WoNone)
        | Some (k', i) =>
            r <- wl_unlink (c_wl c) i ;;
            Ok (mkClient (fst r) (remove_nth k' (c_owned c)) (c_blocked c), WoUnlinked i (snd r))
        end
    | WNotifyHead => Ok (c, WoNotified (wl_notify_head (c_wl c)))
    | WStore k t =>
        match pick k (c_owned c) with
        | None => Ok (c, WoNone)
        | Some (_, i) => Ok (mkClient (wl_store (c_wl c) i t) (c_owned c) (c_blocked c), WoNone)
        end
    | WLoad k =>
        match pick k (c_owned c) with
        | None => Ok (c, WoNone)
        | Some (_, i) => t <- wl_load (c_wl c) i ;; Ok (c, WoValue t)
        end
    | WIsHead k =>
        match pick k (c_owned c) with
        | None => Ok (c, WoNone)
        | Some (_, i) => b <- wl_is_head (c_wl c) i ;; Ok (c, WoBool b)
        end
    | WCount => Ok (c, WoNat (wl_count (c_wl c)))
    end.

  Fixpoint wrun (c : client) (ops : list wop) : res (client * list wout) :=
    match ops with
    | [] => Ok (c, [])
    | o :: r =>
        x <- wstep c o ;;
        y <- wrun (fst x) r ;;
        Ok (fst y, snd x :: snd y)
    end.

  Definition client_new (n : nat) : client := mkClient (wl_new n) [] [].

  (* ------------------------------------------------------------ the specification
     A wait list is the set of linked waiters with their values, in the order they were linked
     (indices are handed out consecutively); the head is the oldest linked waiter; a call to link
     blocks while the span from the head to the next index is the whole ring. *)
  Record wspec := mkWspec {
    sp_n : nat;                    (* number of slots *)
    sp_next : nat;                 (* next index to hand out *)
    sp_live : list (nat * T);      (* linked waiters, oldest first *)
    sp_blocked : list T }.

  Definition sp_head (s : wspec) : nat :=
    match sp_live s with (i, _) :: _ => i | [] => sp_next s end.
  Definition sp_full (s : wspec) : bool := sp_head s + sp_n s <=? sp_next s.

  Definition sp_link_try (s : wspec) (t : T) (blocked' : list T) : wspec * wout :=
    if sp_full s then (mkWspec (sp_n s) (sp_next s) (sp_live s) (blocked' ++ [t]), WoBlocked)
    else (mkWspec (sp_n s) (S (sp_next s)) (sp_live s ++ [(sp_next s, t)]) blocked',
          WoLinked (sp_next s)).

  Definition sp_step (s : wspec) (o : wop) : wspec * wout :=
    match o with
    | WLink t => sp_link_try s t (sp_blocked s)
    | WWake j =>
        match pick j (sp_blocked s) with
        | None => (s, WoNone)
        | Some (j', t) => sp_link_try s t (remove_nth j' (sp_blocked s))
        end
    | WUnlink k =>
        match pick k (sp_live s) with
        | None => (s, WoNone)
        | Some (k', (i, _)) =>
            (mkWspec (sp_n s) (sp_next s) (remove_nth k' (sp_live s)) (sp_blocked s),
             WoUnlinked i (0 <? length (sp_blocked s)))
        end
    | WNotifyHead =>
        (s, WoNotified (match sp_live s with (i, _) :: _ => Some i | [] => None end))
    | WStore k t =>
        match pick k (sp_live s) with
        | None => (s, WoNone)
        | Some (k', (i, _)) =>
            (mkWspec (sp_n s) (sp_next s) (upd k' (i, t) (sp_live s)) (sp_blocked s), WoNone)
        end
    | WLoad k =>
        match pick k (sp_live s) with
        | None => (s, WoNone)
        | Some (_, (_, v)) => (s, WoValue v)
        end
    | WIsHead k =>
        match pick k (sp_live s) with
        | None => (s, WoNone)
        | Some (k', _) => (s, WoBool (k' =? 0))     (* only the oldest linked waiter is the head *)
        end
    | WCount => (s, WoNat (sp_next s - sp_head s))
    end.

  Fixpoint sp_run (s : wspec) (ops : list wop) : wspec * list wout :=
    match ops with
    | [] => (s, [])
    | o :: r =>
        let x := sp_step s o in
        let y := sp_run (fst x) r in
        (fst y, snd x :: snd y)
    end.

  Definition spec_new (n : nat) : wspec := mkWspec n 0 [] [].

  (* ------------------------------------------------------------ specification vocabulary *)
  (* the indices of the linked waiters, ascending *)
  Definition live (w : wl) : list nat :=
    filter (fun i => s_linked (slot_at w i)) (seq (w_head w) (w_tail w - w_head w)).
  (* is_head without the assertion *)
  Definition is_head (w : wl) (i : nat) : bool := w_head w =? i.

End WaitList.

Arguments mkSlot {T}.
Arguments WLink {T}.
Arguments WWake {T}.
Arguments WUnlink {T}.
Arguments WNotifyHead {T}.
Arguments WStore {T}.
Arguments WLoad {T}.
Arguments WIsHead {T}.
Arguments WCount {T}.
Arguments WoNone {T}.
Arguments WoLinked {T}.
Arguments WoBlocked {T}.
Arguments WoUnlinked {T}.
Arguments WoNotified {T}.
Arguments WoValue {T}.
Arguments WoBool {T}.
Arguments WoNat {T}.

Definition wl_case_nat (n : nat) (ops : list (wop nat)) := wrun nat (client_new nat n) ops.
