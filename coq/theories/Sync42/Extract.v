(* Extraction of the executable Sync42 models for the correspondence check.
   Directives in force: those of ExtrOcamlBasic only (bool, option, unit, list, prod, sumbool,
   sumor extracted to OCaml's own; N, positive, nat stay inductive).  No Extract Constant of ours. *)
From Coq Require Import NArith List.
From Blue Require Import Sync42.ModelLru Sync42.ModelWaitList Sync42.ModelWcq Sync42.AcceptWcq.
Require Import ExtrOcamlBasic.
Extraction Language OCaml.
Extraction "../ocaml/sync42/gen_sync42.ml" lru_case_N lru_spec_N wl_case_nat accept N.of_nat N.to_nat.
