(* Sync42/ProofsWcqLive1.v — the liveness invariant (no lost wake-up) of ModelWcq.v and the generic
   lemma that reduces its preservation by a step to a few local conditions on the step. *)
From Coq Require Import Arith List Bool Lia Sorted.
From Blue Require Import Sync42.ModelLru Sync42.ModelWaitList Sync42.ModelWcq Sync42.ProofsWaitList
  Sync42.ProofsWcqBase Sync42.ProofsWcqInv Sync42.ProofsWcqStep1.
Import ListNotations.
Open Scope nat_scope.

Local Arguments Nat.modulo : simpl never.
Local Arguments Nat.div : simpl never.

(* ---- implicit type arguments, local to this file (the same block opens every ProofsWcq* file) *)
Local Arguments s_linked {T}. Local Arguments s_value {T}. Local Arguments w_head {T}. Local Arguments w_tail {T}.
Local Arguments w_waiting {T}. Local Arguments w_slots {T}. Local Arguments mkWl {T}. Local Arguments nslots {T}.
Local Arguments slot_at {T}. Local Arguments set_slot {T}. Local Arguments with_head {T}. Local Arguments with_tail {T}.
Local Arguments with_waiting {T}. Local Arguments invariants_ok {T}. Local Arguments wl_full {T}.
Local Arguments Linked {T}. Local Arguments MustWait {T}. Local Arguments wl_link_try {T}. Local Arguments wl_link_wake {T}.
Local Arguments wl_unlink {T}. Local Arguments wl_notify_head {T}. Local Arguments wl_store {T}. Local Arguments wl_load {T}.
Local Arguments wl_is_head {T}. Local Arguments wl_iter_next {T}. Local Arguments live {T}. Local Arguments wl_new {T}.
Local Arguments wl_wf {T}. Local Arguments link_new {T}.
Local Arguments in_live {T}. Local Arguments live_sorted {T}. Local Arguments live_nodup {T}. Local Arguments live_hd {T}.
Local Arguments live_nil_head {T}. Local Arguments slot_at_set_same {T}. Local Arguments slot_at_set_other {T}.
Local Arguments wf_invariants_ok {T}. Local Arguments unlink_spec {T}. Local Arguments link_new_spec {T}.
Local Arguments wl_link_try_unfold {T}. Local Arguments store_spec {T}. Local Arguments nslots_link_new {T}.
Local Arguments wl_wf_split {T}.

Local Arguments PIdle {Inp Outp Acc}. Local Arguments PLinkSleep {Inp Outp Acc}. Local Arguments PEnter {Inp Outp Acc}.
Local Arguments PTest {Inp Outp Acc}. Local Arguments PLoad {Inp Outp Acc}. Local Arguments PWait {Inp Outp Acc}.
Local Arguments PSleep {Inp Outp Acc}. Local Arguments PExitUnlink {Inp Outp Acc}.
Local Arguments PExitWA {Inp Outp Acc}. Local Arguments PExitNotify {Inp Outp Acc}.
Local Arguments PHead {Inp Outp Acc}. Local Arguments PLockCore {Inp Outp Acc}. Local Arguments PBatch {Inp Outp Acc}.
Local Arguments PWork {Inp Outp Acc}. Local Arguments PDist {Inp Outp Acc}. Local Arguments PLeaderLoad {Inp Outp Acc}.
Local Arguments PLeaderUnlink {Inp Outp Acc}. Local Arguments PLeaderWA {Inp Outp Acc}.
Local Arguments PLeaderClear {Inp Outp Acc}. Local Arguments PLeaderNotify {Inp Outp Acc}.
Local Arguments mkThread {Inp Outp Acc}. Local Arguments t_pc {Inp Outp Acc}. Local Arguments t_todo {Inp Outp Acc}.
Local Arguments t_done {Inp Outp Acc}.
Local Arguments mkG {Inp Outp Acc CS}. Local Arguments g_wl {Inp Outp Acc CS}. Local Arguments g_S {Inp Outp Acc CS}.
Local Arguments g_C {Inp Outp Acc CS}. Local Arguments g_dw {Inp Outp Acc CS}. Local Arguments g_core {Inp Outp Acc CS}.
Local Arguments g_threads {Inp Outp Acc CS}. Local Arguments g_links {Inp Outp Acc CS}.
Local Arguments g_seen {Inp Outp Acc CS}. Local Arguments g_batches {Inp Outp Acc CS}.
Local Arguments with_threads {Inp Outp Acc CS}. Local Arguments with_wl {Inp Outp Acc CS}.
Local Arguments with_S {Inp Outp Acc CS}. Local Arguments with_C {Inp Outp Acc CS}.
Local Arguments with_dw {Inp Outp Acc CS}. Local Arguments set_pc {Inp Outp Acc}.
Local Arguments set_thread {Inp Outp Acc CS}. Local Arguments tokenize {Inp Outp Acc}.
Local Arguments wake_nth {Inp Outp Acc}. Local Arguments count_sel {Inp Outp Acc}.
Local Arguments notify_one {Inp Outp Acc}. Local Arguments sleeps_on {Inp Outp Acc}.
Local Arguments sleeps_wa {Inp Outp Acc}. Local Arguments notify_cond {Inp Outp Acc CS}.
Local Arguments notify_wa {Inp Outp Acc CS}.
Local Arguments SOk {Inp Outp Acc CS}. Local Arguments SBlocked {Inp Outp Acc CS}.
Local Arguments SDone {Inp Outp Acc CS}. Local Arguments SPanic {Inp Outp Acc CS}.
Local Arguments after_link {Inp Outp Acc CS}. Local Arguments finish {Inp Outp Acc}.
Local Arguments spurious {Inp Outp Acc CS}. Local Arguments thread_finished {Inp Outp Acc}.
Local Arguments all_finished {Inp Outp Acc CS}.

Section Live1.
  Context {Inp Outp Acc CS : Type}.
  Notation pc := (pc Inp Outp Acc).
  Notation thread := (thread Inp Outp Acc).
  Notation gstate := (gstate Inp Outp Acc CS).
  Notation wst := (wstate Inp Outp).
  Variable progs : list (list Inp).

  (* the thread is on its way to notify_head *)
  Definition will_notify_head (p : pc) : bool :=
    match p with
    | PExitUnlink _ _ | PExitWA _ _ | PExitNotify _ _ | PLeaderNotify _ _ => true
    | _ => false
    end.
  (* the thread will make room in the ring and notify wait_waiter_available, or is a linker that
     has been notified *)
  Definition wa_witness (p : pc) : bool :=
    match p with
    | PExitWA _ _ | PLeaderWA _ _ | PLinkSleep _ true => true
    | _ => isSome (pc_idx p)
    end.

  Lemma will_notify_tok : forall p, will_notify_head (tokenize p) = will_notify_head p.
  Proof. intros [| i [|] | | | | | idx [|] | | | | | | | | | | | | | ]; reflexivity. Qed.
  Lemma wa_witness_tok : forall p, wa_witness p = true -> wa_witness (tokenize p) = true.
  Proof. intros [| i [|] | | | | | idx [|] | | | | | | | | | | | | | ] H; cbn in *; congruence. Qed.

  Lemma tok1_untok : forall a b : thread, tok1 a b ->
    (forall j, t_pc b <> PSleep j true) -> (forall i, t_pc b <> PLinkSleep i true) ->
    t_pc a = t_pc b.
  Proof.
    intros a b [E | E] H1 H2; subst b; [reflexivity|].
    cbn [set_pc t_pc] in *.
    destruct (t_pc a) as [| i [|] | | | | | idx [|] | | | | | | | | | | | | | ]; cbn [tokenize] in *;
      try reflexivity.
    - exfalso. eapply H2. reflexivity.
    - exfalso. eapply H1. reflexivity.
  Qed.

  Lemma tok1_will_notify : forall a b : thread, tok1 a b ->
    will_notify_head (t_pc b) = will_notify_head (t_pc a).
  Proof.
    intros a b [E | E]; subst b; [reflexivity|]. cbn [set_pc t_pc]. apply will_notify_tok.
  Qed.

  Lemma tok1_wa_witness : forall a b : thread, tok1 a b ->
    wa_witness (t_pc a) = true -> wa_witness (t_pc b) = true.
  Proof.
    intros a b [E | E] H; subst b; [exact H|]. cbn [set_pc t_pc]. apply wa_witness_tok. exact H.
  Qed.

  Record LInv (g : gstate) : Prop := mkLInv {
    l_p1 : forall u thu idx, nth_error (g_threads g) u = Some thu ->
       (t_pc thu = PLoad idx \/ t_pc thu = PWait idx) -> w_head (g_wl g) = idx -> g_dw g = true;
    l_p2 : forall u thu idx, nth_error (g_threads g) u = Some thu ->
       t_pc thu = PSleep idx false -> w_head (g_wl g) = idx ->
       g_dw g = true \/
       exists v thv, nth_error (g_threads g) v = Some thv /\ will_notify_head (t_pc thv) = true;
    l_p3 : (exists u thu i, nth_error (g_threads g) u = Some thu /\ t_pc thu = PLinkSleep i false) ->
       wl_full (g_wl g) = false ->
       exists v thv, nth_error (g_threads g) v = Some thv /\ wa_witness (t_pc thv) = true
  }.

  Lemma LInv_init : forall n core, LInv (ginit Inp Outp Acc CS n core progs).
  Proof.
    intros n core.
    assert (Hth : forall u thu,
              nth_error (map (fun p => mkThread (@PIdle Inp Outp Acc) p []) progs) u = Some thu ->
              t_pc thu = PIdle).
    { intros u thu Hu. rewrite nth_error_map in Hu.
      destruct (nth_error progs u) as [p|]; [|discriminate]. injection Hu as E. subst thu. reflexivity. }
    constructor; unfold ginit; gproj.
    - intros u thu idx Hu [E | E]; rewrite (Hth u thu Hu) in E; discriminate.
    - intros u thu idx Hu E; rewrite (Hth u thu Hu) in E; discriminate.
    - intros (u & thu & i & Hu & E). rewrite (Hth u thu Hu) in E; discriminate.
  Qed.

  (* ---- the generic step lemma *)
  Lemma LInv_step : forall (g g' : gstate) lo cov ld t th th' ths1,
    InvR progs g lo cov ld -> LInv g ->
    nth_error (g_threads g) t = Some th -> tokrel (g_threads g) ths1 ->
    nth_error ths1 t = Some th -> g_threads g' = upd t th' ths1 ->
    (* P1 *)
    (holdsS (t_pc th) = true \/ g_S g = None \/
     ((g_dw g = true -> g_dw g' = true) /\
      (w_head (g_wl g') = w_head (g_wl g) \/ g_dw g' = true))) ->
    (forall idx, t_pc th' = PLoad idx \/ t_pc th' = PWait idx ->
                 w_head (g_wl g') = idx -> g_dw g' = true) ->
    (* P2 *)
    (forall idx, t_pc th' = PSleep idx false -> w_head (g_wl g') = idx -> g_dw g' = true) ->
    (w_head (g_wl g') = w_head (g_wl g) \/ g_dw g' = true \/ will_notify_head (t_pc th') = true) ->
    (g_dw g = true -> g_dw g' = true \/ will_notify_head (t_pc th') = true) ->
    (will_notify_head (t_pc th) = true ->
     will_notify_head (t_pc th') = true \/
     (forall u b idx, nth_error ths1 u = Some b -> t_pc b = PSleep idx false ->
                      w_head (g_wl g') <> idx)) ->
    (* P3 *)
    (forall i, t_pc th' = PLinkSleep i false -> wl_full (g_wl g') = true) ->
    ((exists u a i, u <> t /\ nth_error (g_threads g) u = Some a /\ t_pc a = PLinkSleep i false) ->
     wl_full (g_wl g') = wl_full (g_wl g) \/ wl_full (g_wl g') = true \/
     wa_witness (t_pc th') = true) ->
    ((exists u a i, u <> t /\ nth_error (g_threads g) u = Some a /\ t_pc a = PLinkSleep i false) ->
     wa_witness (t_pc th) = true ->
     wa_witness (t_pc th') = true \/ wl_full (g_wl g') = true \/
     exists v b i, nth_error ths1 v = Some b /\ v <> t /\ t_pc b = PLinkSleep i true) ->
    LInv g'.
  Proof.
    intros g g' lo cov ld t th th' ths1 H HL Ht Htok Ht1 Hths'
           C1a C1b C2a C2b C2c C2d C3a C3b C3c.
    assert (T1 : forall u b, nth_error (g_threads g') u = Some b ->
              (u = t /\ b = th') \/
              (u <> t /\ nth_error ths1 u = Some b /\
               exists a, nth_error (g_threads g) u = Some a /\ tok1 a b)).
    { intros u b Hb. rewrite Hths' in Hb.
      destruct (nth_error_upd_inv _ _ _ _ _ _ Ht1 Hb) as [[E1 E2] | [E1 E2]]; [left; auto|].
      right. split; [exact E1|]. split; [exact E2|].
      exact (Forall2_nth_r _ _ _ _ _ Htok E2). }
    assert (T2 : forall u a, u <> t -> nth_error (g_threads g) u = Some a ->
              exists b, nth_error (g_threads g') u = Some b /\ tok1 a b).
    { intros u a Hne Ha. destruct (Forall2_nth_l _ _ _ _ _ Htok Ha) as (b & Hb & Hab).
      exists b. split; [|exact Hab]. rewrite Hths', nth_error_upd_other by congruence. exact Hb. }
    assert (Tt : nth_error (g_threads g') t = Some th').
    { rewrite Hths'. eapply nth_error_upd_same. exact Ht1. }
    destruct HL as [P1 P2 P3].
    constructor.
    - (* P1 *)
      intros u b idx Hb Hpc Hhd.
      destruct (T1 u b Hb) as [[E1 E2] | (Hne & Hb1 & a & Ha & Hab)].
      + subst u b. eapply C1b; eassumption.
      + assert (Epc : t_pc a = t_pc b).
        { apply tok1_untok; [exact Hab | |]; intros j E; destruct Hpc as [Hp | Hp];
            rewrite Hp in E; discriminate. }
        assert (HSa : holdsS (t_pc a) = true).
        { rewrite Epc. destruct Hpc as [Hp | Hp]; rewrite Hp; reflexivity. }
        assert (HSu := lockinv_holder _ _ _ _ _ (i_S _ _ _ _ _ H) Ha HSa).
        destruct C1a as [C | [C | [Cdw Chd]]].
        * assert (HSt := lockinv_holder _ _ _ _ _ (i_S _ _ _ _ _ H) Ht C). congruence.
        * congruence.
        * destruct Chd as [Chd | Chd]; [|exact Chd].
          apply Cdw. apply (P1 u a idx Ha); [rewrite Epc; exact Hpc | congruence].
    - (* P2 *)
      intros u b idx Hb Hpc Hhd.
      destruct (T1 u b Hb) as [[E1 E2] | (Hne & Hb1 & a & Ha & Hab)].
      + subst u b. left. eapply C2a; eassumption.
      + assert (Epc : t_pc a = t_pc b).
        { apply tok1_untok; [exact Hab | |]; intros j E; rewrite Hpc in E; discriminate. }
        destruct C2b as [Chd | [Cdw | Cw]].
        * destruct (P2 u a idx Ha ltac:(congruence) ltac:(congruence)) as [Hdw | (v & thv & Hv & Hw)].
          -- destruct (C2c Hdw) as [C | C]; [left; exact C | right; exists t, th'; auto].
          -- destruct (Nat.eq_dec v t) as [E | E].
             ++ subst v. assert (thv = th) by congruence. subst thv.
                destruct (C2d Hw) as [C | C]; [right; exists t, th'; auto|].
                exfalso. eapply C; eassumption.
             ++ destruct (T2 v thv E Hv) as (b' & Hb' & Hab').
                right. exists v, b'. split; [exact Hb'|].
                rewrite (tok1_will_notify _ _ Hab'). exact Hw.
        * left; exact Cdw.
        * right. exists t, th'. auto.
    - (* P3 *)
      intros (u & b & i & Hb & Hpc) Hfull.
      destruct (T1 u b Hb) as [[E1 E2] | (Hne & Hb1 & a & Ha & Hab)].
      + subst u b. rewrite (C3a i Hpc) in Hfull. discriminate.
      + assert (Epc : t_pc a = t_pc b).
        { apply tok1_untok; [exact Hab | |]; intros j E; rewrite Hpc in E; discriminate. }
        assert (Sl : exists u a i, u <> t /\ nth_error (g_threads g) u = Some a /\
                                   t_pc a = PLinkSleep i false).
        { exists u, a, i. split; [exact Hne|]. split; [exact Ha | congruence]. }
        destruct (wl_full (g_wl g)) eqn:Hf.
        * destruct (C3b Sl) as [C | [C | C]]; [congruence | congruence | exists t, th'; auto].
        * destruct (P3 ltac:(exists u, a, i; split; [exact Ha | congruence]) eq_refl)
            as (v & thv & Hv & Hw).
          destruct (Nat.eq_dec v t) as [E | E].
          -- subst v. assert (thv = th) by congruence. subst thv.
             destruct (C3c Sl Hw) as [C | [C | (v' & b' & i' & Hv' & Hne' & Hpc')]].
             ++ exists t, th'. auto.
             ++ congruence.
             ++ exists v', b'. split.
                ** rewrite Hths', nth_error_upd_other by congruence. exact Hv'.
                ** rewrite Hpc'. reflexivity.
          -- destruct (T2 v thv E Hv) as (b' & Hb' & Hab').
             exists v, b'. split; [exact Hb' | eapply tok1_wa_witness; eassumption].
  Qed.

  (* ---- what the notifications achieve *)
  (* after notify_head nobody sleeps un-notified on the head's condition variable *)
  Lemma notify_head_wakes : forall (g : gstate) lo cov ld c u b,
    InvR progs g lo cov ld ->
    nth_error (notify_one (sleeps_on (nslots (g_wl g)) (w_head (g_wl g))) c (g_threads g)) u = Some b ->
    t_pc b <> PSleep (w_head (g_wl g)) false.
  Proof.
    intros g lo cov ld c u b H Hb Hpc.
    set (h := w_head (g_wl g)) in *. set (n := nslots (g_wl g)) in *.
    destruct (Forall2_nth_r _ _ _ _ _ (notify_one_tokrel (sleeps_on n h) c (g_threads g)) Hb)
      as (a & Ha & Hab).
    assert (Epc : t_pc a = t_pc b).
    { apply tok1_untok; [exact Hab | |]; intros j E; rewrite Hpc in E; discriminate. }
    assert (Hsel : sleeps_on n h (t_pc a) = true).
    { rewrite Epc, Hpc. cbn [sleeps_on]. apply Nat.eqb_refl. }
    assert (Hwf := i_wf _ _ _ _ _ H).
    destruct (wl_wf_split _ Hwf) as [(Hn & Hht & Hsz & _) _]. fold n in Hn, Hsz.
    assert (Hlive : forall v thv j, nth_error (g_threads g) v = Some thv ->
              t_pc thv = PSleep j false -> h <= j < h + n).
    { intros v thv j Hv Hj.
      assert (Hl : In j (live (g_wl g))).
      { eapply (i_idx_live _ _ _ _ _ H); [exact Hv | rewrite Hj; reflexivity]. }
      apply in_live in Hl. fold h in Hl. lia. }
    assert (Huniq : forall v thv, nth_error (g_threads g) v = Some thv ->
              sleeps_on n h (t_pc thv) = true -> v = u).
    { intros v thv Hv Hs.
      destruct (t_pc thv) as [| | | | | | j [|] | | | | | | | | | | | | | ] eqn:Hj; try discriminate.
      cbn [sleeps_on] in Hs. apply Nat.eqb_eq in Hs.
      assert (j = h).
      { apply (mod_window_inj n h); [exact Hn | eapply Hlive; eassumption | lia | exact Hs]. }
      subst j.
      eapply (own_unique progs g lo cov ld v u thv a h H Hv Ha);
        [rewrite Hj; reflexivity | rewrite Epc, Hpc; reflexivity]. }
    assert (E := notify_one_unique (sleeps_on n h) c (g_threads g) u a Ha Hsel Huniq).
    rewrite E in Hb. injection Hb as Eb. subst b.
    cbn [set_pc t_pc] in Hpc, Epc.
    destruct (t_pc a) as [| | | | | | j [|] | | | | | | | | | | | | | ]; cbn [tokenize] in Hpc, Epc;
      congruence.
  Qed.

  (* after notify_one on wait_waiter_available some blocked linker holds a token, if any is blocked *)
  Lemma notify_wa_wakes : forall (ths : list thread) c u a i,
    nth_error ths u = Some a -> t_pc a = PLinkSleep i false ->
    exists v b i', nth_error (notify_one sleeps_wa c ths) v = Some b /\ t_pc b = PLinkSleep i' true.
  Proof.
    intros ths c u a i Ha Hpc.
    destruct (notify_one_some sleeps_wa c ths u a Ha ltac:(rewrite Hpc; reflexivity))
      as (v & thv & Hv & Hs & Hw).
    destruct (t_pc thv) as [| i' [|] | | | | | | | | | | | | | | | | | | ] eqn:Hj; try discriminate.
    exists v, (set_pc thv (tokenize (PLinkSleep i' false))), i'. split; [exact Hw | reflexivity].
  Qed.
End Live1.
