(* Sync42/ProofsWcqInv.v — the inductive safety invariant of the work coalescing queue model
   (ModelWcq.v), its stability under wake-up tokens, and the initial state.  Proofs only. *)
From Coq Require Import Arith List Bool Lia Sorted.
From Blue Require Import Sync42.ModelLru Sync42.ModelWaitList Sync42.ModelWcq Sync42.ProofsWaitList
  Sync42.ProofsWcqBase.
Import ListNotations.
Open Scope nat_scope.

Local Arguments Nat.modulo : simpl never.
Local Arguments Nat.div : simpl never.

(* ---- implicit type arguments, local to this file (the same block opens every ProofsWcq* file) *)
Local Arguments s_linked {T}. Local Arguments s_value {T}. Local Arguments w_head {T}. Local Arguments w_tail {T}.
Local Arguments w_waiting {T}. Local Arguments w_slots {T}. Local Arguments mkWl {T}. Local Arguments nslots {T}.
Local Arguments slot_at {T}. Local Arguments set_slot {T}. Local Arguments with_head {T}. Local Arguments with_tail {T}.
Local Arguments with_waiting {T}. Local Arguments invariants_ok {T}. Local Arguments wl_full {T}.
Local Arguments Linked {T}. Local Arguments MustWait {T}. Local Arguments wl_link_try {T}. Local Arguments wl_link_wake {T}.
Local Arguments wl_unlink {T}. Local Arguments wl_notify_head {T}. Local Arguments wl_store {T}. Local Arguments wl_load {T}.
Local Arguments wl_is_head {T}. Local Arguments wl_iter_next {T}. Local Arguments live {T}. Local Arguments wl_new {T}.
Local Arguments wl_wf {T}. Local Arguments link_new {T}.
Local Arguments in_live {T}. Local Arguments live_sorted {T}. Local Arguments live_nodup {T}. Local Arguments live_hd {T}.
Local Arguments live_nil_head {T}. Local Arguments slot_at_set_same {T}. Local Arguments slot_at_set_other {T}.
Local Arguments wf_invariants_ok {T}. Local Arguments unlink_spec {T}. Local Arguments link_new_spec {T}.
Local Arguments wl_link_try_unfold {T}. Local Arguments store_spec {T}. Local Arguments nslots_link_new {T}.
Local Arguments wl_wf_split {T}.

Local Arguments PIdle {Inp Outp Acc}. Local Arguments PLinkSleep {Inp Outp Acc}. Local Arguments PEnter {Inp Outp Acc}.
Local Arguments PTest {Inp Outp Acc}. Local Arguments PLoad {Inp Outp Acc}. Local Arguments PWait {Inp Outp Acc}.
Local Arguments PSleep {Inp Outp Acc}. Local Arguments PExitUnlink {Inp Outp Acc}.
Local Arguments PExitWA {Inp Outp Acc}. Local Arguments PExitNotify {Inp Outp Acc}.
Local Arguments PHead {Inp Outp Acc}. Local Arguments PLockCore {Inp Outp Acc}. Local Arguments PBatch {Inp Outp Acc}.
Local Arguments PWork {Inp Outp Acc}. Local Arguments PDist {Inp Outp Acc}. Local Arguments PLeaderLoad {Inp Outp Acc}.
Local Arguments PLeaderUnlink {Inp Outp Acc}. Local Arguments PLeaderWA {Inp Outp Acc}.
Local Arguments PLeaderClear {Inp Outp Acc}. Local Arguments PLeaderNotify {Inp Outp Acc}.
Local Arguments mkThread {Inp Outp Acc}. Local Arguments t_pc {Inp Outp Acc}. Local Arguments t_todo {Inp Outp Acc}.
Local Arguments t_done {Inp Outp Acc}.
Local Arguments mkG {Inp Outp Acc CS}. Local Arguments g_wl {Inp Outp Acc CS}. Local Arguments g_S {Inp Outp Acc CS}.
Local Arguments g_C {Inp Outp Acc CS}. Local Arguments g_dw {Inp Outp Acc CS}. Local Arguments g_core {Inp Outp Acc CS}.
Local Arguments g_threads {Inp Outp Acc CS}. Local Arguments g_links {Inp Outp Acc CS}.
Local Arguments g_seen {Inp Outp Acc CS}. Local Arguments g_batches {Inp Outp Acc CS}.
Local Arguments with_threads {Inp Outp Acc CS}. Local Arguments with_wl {Inp Outp Acc CS}.
Local Arguments with_S {Inp Outp Acc CS}. Local Arguments with_C {Inp Outp Acc CS}.
Local Arguments with_dw {Inp Outp Acc CS}. Local Arguments set_pc {Inp Outp Acc}.
Local Arguments set_thread {Inp Outp Acc CS}. Local Arguments tokenize {Inp Outp Acc}.
Local Arguments wake_nth {Inp Outp Acc}. Local Arguments count_sel {Inp Outp Acc}.
Local Arguments notify_one {Inp Outp Acc}. Local Arguments sleeps_on {Inp Outp Acc}.
Local Arguments sleeps_wa {Inp Outp Acc}. Local Arguments notify_cond {Inp Outp Acc CS}.
Local Arguments notify_wa {Inp Outp Acc CS}.
Local Arguments SOk {Inp Outp Acc CS}. Local Arguments SBlocked {Inp Outp Acc CS}.
Local Arguments SDone {Inp Outp Acc CS}. Local Arguments SPanic {Inp Outp Acc CS}.
Local Arguments after_link {Inp Outp Acc CS}. Local Arguments finish {Inp Outp Acc}.
Local Arguments spurious {Inp Outp Acc CS}. Local Arguments thread_finished {Inp Outp Acc}.
Local Arguments all_finished {Inp Outp Acc CS}.

Section Inv.
  Context {Inp Outp Acc CS : Type}.
  Notation pc := (pc Inp Outp Acc).
  Notation thread := (thread Inp Outp Acc).
  Notation gstate := (gstate Inp Outp Acc CS).
  Notation wst := (wstate Inp Outp).

  (* ---- classification of program counters *)
  (* the index of the linked waiter the thread holds *)
  Definition pc_idx (p : pc) : option nat :=
    match p with
    | PEnter i | PTest i | PLoad i | PWait i | PSleep i _ | PExitUnlink i _ | PHead i
    | PLockCore i | PBatch i _ _ _ | PWork i _ _ | PDist i _ _ _ | PLeaderLoad i
    | PLeaderUnlink i _ => Some i
    | _ => None
    end.
  (* the ghost index of the call in progress (also after the unlink) *)
  Definition pc_gidx (p : pc) : option nat :=
    match p with
    | PIdle | PLinkSleep _ _ => None
    | PEnter i | PTest i | PLoad i | PWait i | PSleep i _ | PExitUnlink i _ | PHead i
    | PLockCore i | PBatch i _ _ _ | PWork i _ _ | PDist i _ _ _ | PLeaderLoad i
    | PLeaderUnlink i _ | PExitWA i _ | PExitNotify i _ | PLeaderWA i _ | PLeaderClear i _
    | PLeaderNotify i _ => Some i
    end.
  Definition holdsS (p : pc) : bool :=
    match p with
    | PTest _ | PLoad _ | PWait _ | PExitUnlink _ _ | PExitWA _ _ | PExitNotify _ _ | PHead _
    | PLockCore _ | PBatch _ _ _ _ => true
    | _ => false
    end.
  Definition holdsC (p : pc) : bool :=
    match p with
    | PBatch _ _ _ _ | PWork _ _ _ | PDist _ _ _ _ | PLeaderLoad _ | PLeaderUnlink _ _
    | PLeaderWA _ _ | PLeaderClear _ _ | PLeaderNotify _ _ => true
    | _ => false
    end.
  (* the leader while doing_work is set *)
  Definition inLP (p : pc) : bool :=
    match p with
    | PLockCore _ | PBatch _ _ _ _ | PWork _ _ _ | PDist _ _ _ _ | PLeaderLoad _
    | PLeaderUnlink _ _ | PLeaderWA _ _ | PLeaderClear _ _ => true
    | _ => false
    end.
  Definition is_ls (p : pc) : bool := match p with PLinkSleep _ _ => true | _ => false end.
  (* the input of a call that has not linked yet *)
  Definition pend (p : pc) : list Inp := match p with PLinkSleep i _ => [i] | _ => [] end.
  Definition olist (o : option nat) : list nat := match o with Some i => [i] | None => [] end.
  Definition isSome {A} (o : option A) : bool := match o with Some _ => true | None => false end.

  Lemma pc_idx_tok : forall p, pc_idx (tokenize p) = pc_idx p.
  Proof. intros [| i [|] | | | | | idx [|] | | | | | | | | | | | | | ]; reflexivity. Qed.
  Lemma pc_gidx_tok : forall p, pc_gidx (tokenize p) = pc_gidx p.
  Proof. intros [| i [|] | | | | | idx [|] | | | | | | | | | | | | | ]; reflexivity. Qed.
  Lemma holdsS_tok : forall p, holdsS (tokenize p) = holdsS p.
  Proof. intros [| i [|] | | | | | idx [|] | | | | | | | | | | | | | ]; reflexivity. Qed.
  Lemma holdsC_tok : forall p, holdsC (tokenize p) = holdsC p.
  Proof. intros [| i [|] | | | | | idx [|] | | | | | | | | | | | | | ]; reflexivity. Qed.
  Lemma inLP_tok : forall p, inLP (tokenize p) = inLP p.
  Proof. intros [| i [|] | | | | | idx [|] | | | | | | | | | | | | | ]; reflexivity. Qed.
  Lemma is_ls_tok : forall p, is_ls (tokenize p) = is_ls p.
  Proof. intros [| i [|] | | | | | idx [|] | | | | | | | | | | | | | ]; reflexivity. Qed.
  Lemma pend_tok : forall p, pend (tokenize p) = pend p.
  Proof. intros [| i [|] | | | | | idx [|] | | | | | | | | | | | | | ]; reflexivity. Qed.

  Lemma pc_idx_gidx : forall p i, pc_idx p = Some i -> pc_gidx p = Some i.
  Proof. intros p j H; destruct p; cbn [pc_idx pc_gidx] in *; congruence. Qed.

  (* ---- the batch log *)
  Fixpoint batches_from (f : nat) (bs : list (nat * nat * list Outp)) : option nat :=
    match bs with
    | [] => Some f
    | (f', k, outs) :: r =>
        if (f' =? f) && (1 <=? k) && (k <=? length outs) then batches_from (f + k) r else None
    end.

  Definition designatedB (bs : list (nat * nat * list Outp)) (idx : nat) (o : Outp) : Prop :=
    exists f k outs, In (f, k, outs) bs /\ f <= idx < f + k /\ nth_error outs (idx - f) = Some o.

  Lemma batches_from_snoc : forall bs f e k outs,
    batches_from f bs = Some e -> 1 <= k -> k <= length outs ->
    batches_from f (bs ++ [(e, k, outs)]) = Some (e + k).
  Proof.
    induction bs as [|[[f' k'] o'] r IH]; intros f e k outs H Hk Ho; cbn [batches_from app] in *.
    - injection H as E. subst e. rewrite Nat.eqb_refl.
      destruct (Nat.leb_spec 1 k); [|lia]. destruct (Nat.leb_spec k (length outs)); [|lia].
      reflexivity.
    - destruct ((f' =? f) && (1 <=? k') && (k' <=? length o')); [|discriminate].
      apply IH; assumption.
  Qed.

  Lemma designatedB_mono : forall bs b idx o, designatedB bs idx o -> designatedB (bs ++ [b]) idx o.
  Proof.
    intros bs b idx o (f & k & outs & H1 & H2 & H3). exists f, k, outs.
    split; [apply in_or_app; left; exact H1 | auto].
  Qed.

  (* ---- mutex / flag consistency: m names the thread whose pc satisfies P, if any *)
  Definition lockinv (P : pc -> bool) (m : option nat) (ths : list thread) : Prop :=
    (forall u thu, nth_error ths u = Some thu -> P (t_pc thu) = true -> m = Some u) /\
    (forall u, m = Some u -> exists thu, nth_error ths u = Some thu /\ P (t_pc thu) = true).

  Lemma lockinv_upd_keep : forall P m ths t th th',
    lockinv P m ths -> nth_error ths t = Some th -> P (t_pc th') = P (t_pc th) ->
    lockinv P m (upd t th' ths).
  Proof.
    intros P m ths t th th' [H1 H2] Ht HP. split.
    - intros u thu Hu Hp.
      destruct (nth_error_upd_inv _ _ _ _ _ _ Ht Hu) as [[E1 E2] | [E1 E2]].
      + subst u thu. apply (H1 t th Ht). congruence.
      + eapply H1; eassumption.
    - intros u Hm. destruct (H2 u Hm) as (thu & Hu & Hp).
      destruct (Nat.eq_dec u t) as [E | E].
      + subst u. exists th'. split; [eapply nth_error_upd_same; exact Ht|].
        assert (thu = th) by congruence. subst thu. congruence.
      + exists thu. split; [rewrite nth_error_upd_other by congruence; exact Hu | exact Hp].
  Qed.

  Lemma lockinv_upd_acq : forall P ths t th th',
    lockinv P None ths -> nth_error ths t = Some th -> P (t_pc th') = true ->
    lockinv P (Some t) (upd t th' ths).
  Proof.
    intros P ths t th th' [H1 H2] Ht HP. split.
    - intros u thu Hu Hp.
      destruct (nth_error_upd_inv _ _ _ _ _ _ Ht Hu) as [[E1 E2] | [E1 E2]].
      + subst u. reflexivity.
      + specialize (H1 u thu E2 Hp). discriminate.
    - intros u Hm. injection Hm as E. subst u. exists th'.
      split; [eapply nth_error_upd_same; exact Ht | exact HP].
  Qed.

  Lemma lockinv_upd_rel : forall P m ths t th th',
    lockinv P m ths -> nth_error ths t = Some th -> P (t_pc th) = true -> P (t_pc th') = false ->
    lockinv P None (upd t th' ths).
  Proof.
    intros P m ths t th th' [H1 H2] Ht HP HP'. split.
    - intros u thu Hu Hp.
      destruct (nth_error_upd_inv _ _ _ _ _ _ Ht Hu) as [[E1 E2] | [E1 E2]].
      + subst u thu. congruence.
      + assert (Ea := H1 u thu E2 Hp). assert (Eb := H1 t th Ht HP). congruence.
    - intros u Hm. discriminate.
  Qed.

  Lemma lockinv_tokrel : forall P m ths ths',
    (forall p, P (tokenize p) = P p) -> lockinv P m ths -> tokrel ths ths' -> lockinv P m ths'.
  Proof.
    intros P m ths ths' HP [H1 H2] Htok. split.
    - intros u b Hu Hp.
      destruct (Forall2_nth_r _ _ _ _ _ Htok Hu) as (a & Ha & Hab).
      apply (H1 u a Ha). destruct Hab as [E | E]; subst b; [exact Hp|].
      cbn [set_pc t_pc] in Hp. rewrite HP in Hp. exact Hp.
    - intros u Hm. destruct (H2 u Hm) as (a & Ha & Hp).
      destruct (Forall2_nth_l _ _ _ _ _ Htok Ha) as (b & Hb & Hab).
      exists b. split; [exact Hb|]. destruct Hab as [E | E]; subst b; [exact Hp|].
      cbn [set_pc t_pc]. rewrite HP. exact Hp.
  Qed.

  Lemma lockinv_holder : forall P m ths t th,
    lockinv P m ths -> nth_error ths t = Some th -> P (t_pc th) = true -> m = Some t.
  Proof. intros P m ths t th [H1 _] Ht Hp. eapply H1; eassumption. Qed.

  Lemma lockinv_none : forall P ths t th,
    lockinv P None ths -> nth_error ths t = Some th -> P (t_pc th) = false.
  Proof.
    intros P ths t th [H1 _] Ht. destruct (P (t_pc th)) eqn:E; [|reflexivity].
    specialize (H1 t th Ht E). discriminate.
  Qed.

  Lemma lockinv_unique : forall P m ths t1 t2 th1 th2,
    lockinv P m ths -> nth_error ths t1 = Some th1 -> nth_error ths t2 = Some th2 ->
    P (t_pc th1) = true -> P (t_pc th2) = true -> t1 = t2.
  Proof.
    intros P m ths t1 t2 th1 th2 [H1 _] Ha Hb Pa Pb.
    assert (Ea := H1 _ _ Ha Pa). assert (Eb := H1 _ _ Hb Pb). congruence.
  Qed.

  (* ---- per-thread facts *)
  Definition tinv (hd : nat) (dw : bool) (served : nat) (bs : list (nat * nat * list Outp))
             (lo cov : nat) (p : pc) : Prop :=
    match p with
    | PExitUnlink idx o => idx < lo /\ designatedB bs idx o
    | PExitWA idx o | PExitNotify idx o | PLeaderNotify idx o => designatedB bs idx o
    | PHead idx => dw = false /\ hd = idx
    | PLockCore idx => hd = idx /\ idx = served /\ lo = served /\ cov = served
    | PBatch idx cur taken acc =>
        hd = idx /\ lo = idx /\ cov = idx /\ cur = idx + taken /\ cur = served
    | PWork idx taken acc =>
        hd = idx /\ lo = idx /\ cov = idx /\ idx + taken = served /\ 1 <= taken
    | PDist idx cur rem outs =>
        hd = idx /\ lo = cur /\ cov = served /\ cur + rem = served /\ idx <= cur /\ idx < served /\
        exists allouts, In (idx, served - idx, allouts) bs /\ outs = skipn (cur - idx) allouts /\
                        served - idx <= length allouts
    | PLeaderLoad idx => hd = idx /\ lo = served /\ cov = served /\ idx < served
    | PLeaderUnlink idx o =>
        hd = idx /\ lo = served /\ cov = served /\ idx < served /\ designatedB bs idx o
    | PLeaderWA idx o | PLeaderClear idx o => lo = served /\ cov = served /\ designatedB bs idx o
    | _ => True
    end.

  Lemma tinv_tok : forall hd dw served bs lo cov p,
    tinv hd dw served bs lo cov p -> tinv hd dw served bs lo cov (tokenize p).
  Proof.
    intros hd dw served bs lo cov p H.
    destruct p as [| i [|] | | | | | idx [|] | | | | | | | | | | | | | ]; exact H || exact I.
  Qed.

  Variable progs : list (list Inp).

  Record InvR (g : gstate) (lo cov : nat) (ld : option nat) : Prop := mkInvR {
    i_wf : wl_wf (g_wl g);
    i_links_len : length (g_links g) = w_tail (g_wl g);
    i_served : length (g_seen g) <= w_tail (g_wl g);
    i_seen : g_seen g = map snd (firstn (length (g_seen g)) (g_links g));
    i_lo : lo <= length (g_seen g);
    i_cov : cov <= length (g_seen g);
    i_live_hi : forall i, lo <= i < w_tail (g_wl g) -> In i (live (g_wl g));
    i_input : forall i, length (g_seen g) <= i < w_tail (g_wl g) ->
       exists t inp, nth_error (g_links g) i = Some (t, inp) /\
                     s_value (slot_at (g_wl g) i) = Some (WInput inp);
    i_stolen : forall i, lo <= i < length (g_seen g) ->
       s_value (slot_at (g_wl g) i) = Some WStolen;
    i_output : forall i, In i (live (g_wl g)) -> i < lo ->
       exists o, s_value (slot_at (g_wl g) i) = Some (WOutput o) /\ designatedB (g_batches g) i o;
    i_batches : batches_from 0 (g_batches g) = Some cov;
    i_waiting : w_waiting (g_wl g) = count_sel is_ls (g_threads g);
    i_S : lockinv holdsS (g_S g) (g_threads g);
    i_C : lockinv holdsC (g_C g) (g_threads g);
    i_L : lockinv inLP ld (g_threads g);
    i_dw : g_dw g = isSome ld;
    i_noleader : ld = None -> lo = length (g_seen g) /\ cov = length (g_seen g);
    i_idx_live : forall u thu idx, nth_error (g_threads g) u = Some thu ->
       pc_idx (t_pc thu) = Some idx -> In idx (live (g_wl g));
    i_live_idx : forall idx, In idx (live (g_wl g)) ->
       exists u thu, nth_error (g_threads g) u = Some thu /\ pc_idx (t_pc thu) = Some idx;
    i_own : forall u thu, nth_error (g_threads g) u = Some thu ->
       map fst (rev (t_done thu)) ++ olist (pc_gidx (t_pc thu)) = owned_from 0 u (g_links g);
    i_tinv : forall u thu, nth_error (g_threads g) u = Some thu ->
       tinv (w_head (g_wl g)) (g_dw g) (length (g_seen g)) (g_batches g) lo cov (t_pc thu);
    i_done : forall u thu idx o, nth_error (g_threads g) u = Some thu ->
       In (idx, o) (t_done thu) -> designatedB (g_batches g) idx o;
    i_prog : forall u thu, nth_error (g_threads g) u = Some thu ->
       map snd (filter (fun p => fst p =? u) (g_links g)) ++ pend (t_pc thu) ++ t_todo thu
       = nth u progs [];
    i_nthreads : length (g_threads g) = length progs;
    i_links_thr : forall idx u inp, nth_error (g_links g) idx = Some (u, inp) ->
       u < length (g_threads g)
  }.

  Definition Inv (g : gstate) : Prop := exists lo cov ld, InvR g lo cov ld.

  (* ---- wake-up tokens do not matter *)
  Lemma tok1_pc_cases : forall a b : thread, tok1 a b ->
    t_todo b = t_todo a /\ t_done b = t_done a /\
    pc_idx (t_pc b) = pc_idx (t_pc a) /\ pc_gidx (t_pc b) = pc_gidx (t_pc a) /\
    is_ls (t_pc b) = is_ls (t_pc a) /\ pend (t_pc b) = pend (t_pc a) /\
    (t_pc b = t_pc a \/ t_pc b = tokenize (t_pc a)).
  Proof.
    intros a b [E | E]; subst b; cbn [set_pc t_pc t_todo t_done].
    - repeat split; auto.
    - rewrite pc_idx_tok, pc_gidx_tok, is_ls_tok, pend_tok. repeat split; auto.
  Qed.

  Lemma InvR_tokrel : forall g lo cov ld ths',
    InvR g lo cov ld -> tokrel (g_threads g) ths' -> InvR (with_threads g ths') lo cov ld.
  Proof.
    intros g lo cov ld ths' H Htok. destruct H.
    constructor; unfold with_threads;
      cbn [g_wl g_S g_C g_dw g_core g_threads g_links g_seen g_batches]; try assumption.
    - rewrite (count_sel_tokrel is_ls _ _ is_ls_tok Htok). assumption.
    - eapply lockinv_tokrel; [exact holdsS_tok | eassumption | exact Htok].
    - eapply lockinv_tokrel; [exact holdsC_tok | eassumption | exact Htok].
    - eapply lockinv_tokrel; [exact inLP_tok | eassumption | exact Htok].
    - intros u b idx Hu Hp.
      destruct (Forall2_nth_r _ _ _ _ _ Htok Hu) as (a & Ha & Hab).
      destruct (tok1_pc_cases a b Hab) as (_ & _ & E & _).
      eapply i_idx_live0; [exact Ha | congruence].
    - intros idx Hin. destruct (i_live_idx0 idx Hin) as (u & a & Ha & Hp).
      destruct (Forall2_nth_l _ _ _ _ _ Htok Ha) as (b & Hb & Hab).
      destruct (tok1_pc_cases a b Hab) as (_ & _ & E & _).
      exists u, b. split; [exact Hb | congruence].
    - intros u b Hu.
      destruct (Forall2_nth_r _ _ _ _ _ Htok Hu) as (a & Ha & Hab).
      destruct (tok1_pc_cases a b Hab) as (_ & E1 & _ & E2 & _).
      rewrite E1, E2. apply i_own0. exact Ha.
    - intros u b Hu.
      destruct (Forall2_nth_r _ _ _ _ _ Htok Hu) as (a & Ha & Hab).
      destruct (tok1_pc_cases a b Hab) as (_ & _ & _ & _ & _ & _ & [E | E]); rewrite E.
      + apply (i_tinv0 u a Ha).
      + apply tinv_tok. apply (i_tinv0 u a Ha).
    - intros u b idx o Hu Hin.
      destruct (Forall2_nth_r _ _ _ _ _ Htok Hu) as (a & Ha & Hab).
      destruct (tok1_pc_cases a b Hab) as (_ & E1 & _).
      rewrite E1 in Hin. eapply i_done0; eassumption.
    - intros u b Hu.
      destruct (Forall2_nth_r _ _ _ _ _ Htok Hu) as (a & Ha & Hab).
      destruct (tok1_pc_cases a b Hab) as (E0 & _ & _ & _ & _ & E1 & _).
      rewrite E0, E1. apply i_prog0. exact Ha.
    - rewrite <- (Forall2_len _ _ _ Htok). assumption.
    - intros idx u inp Hl. rewrite <- (Forall2_len _ _ _ Htok). eapply i_links_thr0; eassumption.
  Qed.

  Lemma Inv_tokrel : forall g ths',
    Inv g -> tokrel (g_threads g) ths' -> Inv (with_threads g ths').
  Proof.
    intros g ths' (lo & cov & ld & H) Htok. exists lo, cov, ld. apply InvR_tokrel; assumption.
  Qed.

  (* ---- the initial state *)
  Lemma wl_new_wf : forall n, 0 < n -> wl_wf (@wl_new wst n).
  Proof.
    intros n Hn. destruct (wl_rel_new wst n Hn) as [H _]. exact H.
  Qed.

  Lemma Inv_init : forall n core, 0 < n -> Inv (ginit Inp Outp Acc CS n core progs).
  Proof.
    intros n core Hn. exists 0, 0, None.
    assert (Hth : forall u thu,
              nth_error (map (fun p => mkThread (@PIdle Inp Outp Acc) p []) progs) u = Some thu ->
              exists p, nth_error progs u = Some p /\ thu = mkThread PIdle p []).
    { intros u thu Hu. rewrite nth_error_map in Hu.
      destruct (nth_error progs u) as [p|]; [|discriminate].
      injection Hu as E. exists p. auto. }
    constructor; unfold ginit;
      cbn [g_wl g_S g_C g_dw g_core g_threads g_links g_seen g_batches length firstn map].
    - apply wl_new_wf. exact Hn.
    - reflexivity.
    - lia.
    - reflexivity.
    - lia.
    - lia.
    - intros i Hi. cbn [wl_new w_tail] in Hi. lia.
    - intros i Hi. cbn [wl_new w_tail] in Hi. lia.
    - intros i Hi. lia.
    - intros i Hi. cbn in Hi. destruct Hi.
    - reflexivity.
    - cbn [wl_new w_waiting]. unfold count_sel.
      assert (Hz : forall l : list (list Inp),
                0 = length (filter (fun th : thread => is_ls (t_pc th))
                                   (map (fun p => mkThread PIdle p []) l))).
      { induction l as [|p r IH]; cbn [map filter t_pc is_ls length]; auto. }
      apply Hz.
    - split; [|discriminate]. intros u thu Hu Hp.
      destruct (Hth u thu Hu) as (p & _ & E). subst thu. discriminate.
    - split; [|discriminate]. intros u thu Hu Hp.
      destruct (Hth u thu Hu) as (p & _ & E). subst thu. discriminate.
    - split; [|discriminate]. intros u thu Hu Hp.
      destruct (Hth u thu Hu) as (p & _ & E). subst thu. discriminate.
    - reflexivity.
    - auto.
    - intros u thu idx Hu Hp. destruct (Hth u thu Hu) as (p & _ & E). subst thu. discriminate.
    - intros idx Hin. cbn in Hin. destruct Hin.
    - intros u thu Hu. destruct (Hth u thu Hu) as (p & _ & E). subst thu. reflexivity.
    - intros u thu Hu. destruct (Hth u thu Hu) as (p & _ & E). subst thu. exact I.
    - intros u thu idx o Hu Hin. destruct (Hth u thu Hu) as (p & _ & E). subst thu.
      destruct Hin.
    - intros u thu Hu. destruct (Hth u thu Hu) as (p & Hp & E). subst thu.
      cbn [filter map app pend t_pc t_todo]. symmetry. apply nth_error_nth. exact Hp.
    - apply map_length.
    - intros idx u inp Hl. destruct idx; discriminate.
  Qed.
End Inv.
