(* Sync42/ProofsWcqBase.v — generic lemmas for the proofs about ModelWcq.v: thread-list updates,
   condition-variable notification (tokenization), counting, small list facts, and the ghost
   "indices owned by a thread" function.  Proofs only; no axioms. *)
From Coq Require Import Arith List Bool Lia Sorted Permutation.
From Blue Require Import Sync42.ModelLru Sync42.ModelWaitList Sync42.ModelWcq Sync42.ProofsWaitList.
Import ListNotations.
Open Scope nat_scope.

Local Arguments Nat.modulo : simpl never.
Local Arguments Nat.div : simpl never.

(* ---- implicit type arguments, local to this file (the same block opens every ProofsWcq* file) *)
Local Arguments s_linked {T}. Local Arguments s_value {T}. Local Arguments w_head {T}. Local Arguments w_tail {T}.
Local Arguments w_waiting {T}. Local Arguments w_slots {T}. Local Arguments mkWl {T}. Local Arguments nslots {T}.
Local Arguments slot_at {T}. Local Arguments set_slot {T}. Local Arguments with_head {T}. Local Arguments with_tail {T}.
Local Arguments with_waiting {T}. Local Arguments invariants_ok {T}. Local Arguments wl_full {T}.
Local Arguments Linked {T}. Local Arguments MustWait {T}. Local Arguments wl_link_try {T}. Local Arguments wl_link_wake {T}.
Local Arguments wl_unlink {T}. Local Arguments wl_notify_head {T}. Local Arguments wl_store {T}. Local Arguments wl_load {T}.
Local Arguments wl_is_head {T}. Local Arguments wl_iter_next {T}. Local Arguments live {T}. Local Arguments wl_new {T}.
Local Arguments wl_wf {T}. Local Arguments link_new {T}.
Local Arguments in_live {T}. Local Arguments live_sorted {T}. Local Arguments live_nodup {T}. Local Arguments live_hd {T}.
Local Arguments live_nil_head {T}. Local Arguments slot_at_set_same {T}. Local Arguments slot_at_set_other {T}.
Local Arguments wf_invariants_ok {T}. Local Arguments unlink_spec {T}. Local Arguments link_new_spec {T}.
Local Arguments wl_link_try_unfold {T}. Local Arguments store_spec {T}. Local Arguments nslots_link_new {T}.
Local Arguments wl_wf_split {T}.

Local Arguments PIdle {Inp Outp Acc}. Local Arguments PLinkSleep {Inp Outp Acc}. Local Arguments PEnter {Inp Outp Acc}.
Local Arguments PTest {Inp Outp Acc}. Local Arguments PLoad {Inp Outp Acc}. Local Arguments PWait {Inp Outp Acc}.
Local Arguments PSleep {Inp Outp Acc}. Local Arguments PExitUnlink {Inp Outp Acc}.
Local Arguments PExitWA {Inp Outp Acc}. Local Arguments PExitNotify {Inp Outp Acc}.
Local Arguments PHead {Inp Outp Acc}. Local Arguments PLockCore {Inp Outp Acc}. Local Arguments PBatch {Inp Outp Acc}.
Local Arguments PWork {Inp Outp Acc}. Local Arguments PDist {Inp Outp Acc}. Local Arguments PLeaderLoad {Inp Outp Acc}.
Local Arguments PLeaderUnlink {Inp Outp Acc}. Local Arguments PLeaderWA {Inp Outp Acc}.
Local Arguments PLeaderClear {Inp Outp Acc}. Local Arguments PLeaderNotify {Inp Outp Acc}.
Local Arguments mkThread {Inp Outp Acc}. Local Arguments t_pc {Inp Outp Acc}. Local Arguments t_todo {Inp Outp Acc}.
Local Arguments t_done {Inp Outp Acc}.
Local Arguments mkG {Inp Outp Acc CS}. Local Arguments g_wl {Inp Outp Acc CS}. Local Arguments g_S {Inp Outp Acc CS}.
Local Arguments g_C {Inp Outp Acc CS}. Local Arguments g_dw {Inp Outp Acc CS}. Local Arguments g_core {Inp Outp Acc CS}.
Local Arguments g_threads {Inp Outp Acc CS}. Local Arguments g_links {Inp Outp Acc CS}.
Local Arguments g_seen {Inp Outp Acc CS}. Local Arguments g_batches {Inp Outp Acc CS}.
Local Arguments with_threads {Inp Outp Acc CS}. Local Arguments with_wl {Inp Outp Acc CS}.
Local Arguments with_S {Inp Outp Acc CS}. Local Arguments with_C {Inp Outp Acc CS}.
Local Arguments with_dw {Inp Outp Acc CS}. Local Arguments set_pc {Inp Outp Acc}.
Local Arguments set_thread {Inp Outp Acc CS}. Local Arguments tokenize {Inp Outp Acc}.
Local Arguments wake_nth {Inp Outp Acc}. Local Arguments count_sel {Inp Outp Acc}.
Local Arguments notify_one {Inp Outp Acc}. Local Arguments sleeps_on {Inp Outp Acc}.
Local Arguments sleeps_wa {Inp Outp Acc}. Local Arguments notify_cond {Inp Outp Acc CS}.
Local Arguments notify_wa {Inp Outp Acc CS}.
Local Arguments SOk {Inp Outp Acc CS}. Local Arguments SBlocked {Inp Outp Acc CS}.
Local Arguments SDone {Inp Outp Acc CS}. Local Arguments SPanic {Inp Outp Acc CS}.
Local Arguments after_link {Inp Outp Acc CS}. Local Arguments finish {Inp Outp Acc}.
Local Arguments spurious {Inp Outp Acc CS}. Local Arguments thread_finished {Inp Outp Acc}.
Local Arguments all_finished {Inp Outp Acc CS}.

(* ------------------------------------------------------------------ upd / nth_error *)
Section UpdLemmas.
  Context {A : Type}.

  Lemma nth_error_upd : forall t (x : A) l u,
    nth_error (upd t x l) u =
    if t =? u then (if t <? length l then Some x else None) else nth_error l u.
  Proof.
    intros t x l. revert t.
    induction l as [|y r IH]; intros [|t] [|u]; cbn [upd nth_error length Nat.eqb Nat.ltb Nat.leb];
      auto.
    - destruct (t =? u); reflexivity.
    - rewrite IH. reflexivity.
  Qed.

  Lemma nth_error_upd_same : forall t (x y : A) l,
    nth_error l t = Some y -> nth_error (upd t x l) t = Some x.
  Proof.
    intros t x y l H. rewrite nth_error_upd, Nat.eqb_refl.
    assert (t < length l) by (apply nth_error_Some; congruence).
    destruct (Nat.ltb_spec t (length l)); [reflexivity | lia].
  Qed.

  Lemma nth_error_upd_other : forall t (x : A) l u,
    t <> u -> nth_error (upd t x l) u = nth_error l u.
  Proof.
    intros t x l u H. rewrite nth_error_upd.
    destruct (Nat.eqb_spec t u); [contradiction | reflexivity].
  Qed.

  Lemma nth_error_upd_inv : forall t (x y z : A) l u,
    nth_error l t = Some y -> nth_error (upd t x l) u = Some z ->
    (u = t /\ z = x) \/ (u <> t /\ nth_error l u = Some z).
  Proof.
    intros t x y z l u Ht Hu.
    destruct (Nat.eq_dec t u) as [E | E].
    - subst u. rewrite (nth_error_upd_same t x y l Ht) in Hu. left. split; congruence.
    - rewrite nth_error_upd_other in Hu by exact E. right. split; [congruence | exact Hu].
  Qed.

  Lemma upd_same_id : forall t (x : A) l, nth_error l t = Some x -> upd t x l = l.
  Proof.
    intros t x l. revert t.
    induction l as [|y r IH]; intros [|t] H; cbn [upd nth_error] in *; try discriminate; auto.
    - congruence.
    - f_equal. apply IH. exact H.
  Qed.
End UpdLemmas.

(* ------------------------------------------------------------------ Forall2 / nth_error *)
Section F2.
  Context {A B : Type}.
  Variable R : A -> B -> Prop.

  Lemma Forall2_nth_l : forall l l' u a,
    Forall2 R l l' -> nth_error l u = Some a -> exists b, nth_error l' u = Some b /\ R a b.
  Proof.
    intros l l' u a H. revert u.
    induction H as [|x y l l' Hxy H IH]; intros [|u] Hu; cbn [nth_error] in *; try discriminate.
    - injection Hu as E. subst. eauto.
    - apply IH. exact Hu.
  Qed.

  Lemma Forall2_nth_r : forall l l' u b,
    Forall2 R l l' -> nth_error l' u = Some b -> exists a, nth_error l u = Some a /\ R a b.
  Proof.
    intros l l' u b H. revert u.
    induction H as [|x y l l' Hxy H IH]; intros [|u] Hu; cbn [nth_error] in *; try discriminate.
    - injection Hu as E. subst. eauto.
    - apply IH. exact Hu.
  Qed.

  Lemma Forall2_len : forall l l', Forall2 R l l' -> length l = length l'.
  Proof. intros l l' H. induction H; cbn [length]; auto. Qed.
End F2.

Lemma Forall2_refl_all : forall {A} (R : A -> A -> Prop) l, (forall a, R a a) -> Forall2 R l l.
Proof. intros A R l H. induction l; constructor; auto. Qed.

Lemma Forall2_upd_r : forall {A} (R : A -> A -> Prop) t x y l,
  (forall a, R a a) -> nth_error l t = Some x -> R x y -> Forall2 R l (upd t y l).
Proof.
  intros A R t x y l Hr. revert t.
  induction l as [|z r IH]; intros [|t] Ht Hxy; cbn [upd nth_error] in *; try discriminate.
  - injection Ht as E. subst z. constructor; [exact Hxy | apply Forall2_refl_all; exact Hr].
  - constructor; [apply Hr | apply IH; assumption].
Qed.

(* ------------------------------------------------------------------ tokenization *)
Section Tok.
  Context {Inp Outp Acc : Type}.
  Notation pc := (pc Inp Outp Acc).
  Notation thread := (thread Inp Outp Acc).

  (* b is a, possibly with a wake-up token added *)
  Definition tok1 (a b : thread) : Prop :=
    b = a \/ b = set_pc a (tokenize (t_pc a)).
  Definition tokrel (ths ths' : list thread) : Prop := Forall2 tok1 ths ths'.

  Lemma tok1_refl : forall a, tok1 a a.
  Proof. intro a. left. reflexivity. Qed.

  Lemma tokrel_refl : forall ths, tokrel ths ths.
  Proof. intro ths. apply Forall2_refl_all. exact tok1_refl. Qed.

  Lemma tok1_fields : forall a b, tok1 a b ->
    t_todo b = t_todo a /\ t_done b = t_done a /\
    (t_pc b = t_pc a \/ t_pc b = tokenize (t_pc a)).
  Proof.
    intros a b [E | E]; subst b; cbn [set_pc t_todo t_done t_pc]; auto.
  Qed.

  Lemma tokenize_idem : forall p : pc, tokenize (tokenize p) = tokenize p.
  Proof. intros [| i [|] | | | | | idx [|] | | | | | | | | | | | | | ]; reflexivity. Qed.

  Lemma set_pc_same : forall a : thread, set_pc a (t_pc a) = a.
  Proof. intros [p td dn]. reflexivity. Qed.

  Lemma tokrel_trans : forall a b c : list thread, tokrel a b -> tokrel b c -> tokrel a c.
  Proof.
    intros a b c H. revert c.
    induction H as [|x y l l' Hxy H IH]; intros c Hc; inversion Hc; subst; constructor.
    - match goal with H1 : tok1 y ?z |- _ => rename H1 into Hyz end.
      destruct Hxy as [E | E]; destruct Hyz as [F | F]; subst.
      + left; reflexivity.
      + right; reflexivity.
      + right; reflexivity.
      + right. cbn [set_pc t_pc t_todo t_done]. rewrite tokenize_idem. reflexivity.
    - apply IH. assumption.
  Qed.

  Lemma wake_nth_tokrel : forall sel k (ths : list thread), tokrel ths (wake_nth sel k ths).
  Proof.
    intros sel k ths. revert k.
    induction ths as [|th r IH]; intro k; cbn [wake_nth]; [constructor|].
    destruct (sel (t_pc th)).
    - destruct k as [|k'].
      + constructor; [right; reflexivity | apply tokrel_refl].
      + constructor; [apply tok1_refl | apply IH].
    - constructor; [apply tok1_refl | apply IH].
  Qed.

  Lemma notify_one_tokrel : forall sel c (ths : list thread), tokrel ths (notify_one sel c ths).
  Proof.
    intros sel c ths. unfold notify_one.
    destruct (count_sel sel ths); [apply tokrel_refl | apply wake_nth_tokrel].
  Qed.

  Lemma spurious_tokrel : forall t th (ths : list thread),
    nth_error ths t = Some th -> tokrel ths (upd t (set_pc th (tokenize (t_pc th))) ths).
  Proof.
    intros t th ths H. eapply Forall2_upd_r; [exact tok1_refl | exact H | right; reflexivity].
  Qed.

  (* a thread that is not selected is untouched *)
  Lemma wake_nth_unsel : forall sel k (ths : list thread) t th,
    nth_error ths t = Some th -> sel (t_pc th) = false ->
    nth_error (wake_nth sel k ths) t = Some th.
  Proof.
    intros sel k ths. revert k.
    induction ths as [|x r IH]; intros k [|t] th Ht Hs; cbn [wake_nth nth_error] in *;
      try discriminate.
    - injection Ht as E. subst x. rewrite Hs. reflexivity.
    - destruct (sel (t_pc x)).
      + destruct k; cbn [nth_error]; [exact Ht | apply IH; assumption].
      + cbn [nth_error]. apply IH; assumption.
  Qed.

  Lemma notify_one_unsel : forall sel c (ths : list thread) t th,
    nth_error ths t = Some th -> sel (t_pc th) = false ->
    nth_error (notify_one sel c ths) t = Some th.
  Proof.
    intros sel c ths t th Ht Hs. unfold notify_one.
    destruct (count_sel sel ths); [exact Ht | apply wake_nth_unsel; assumption].
  Qed.

  (* every changed thread was selected *)
  Lemma wake_nth_changed : forall sel k (ths : list thread) t th th',
    nth_error ths t = Some th -> nth_error (wake_nth sel k ths) t = Some th' ->
    th' = th \/ (sel (t_pc th) = true /\ th' = set_pc th (tokenize (t_pc th))).
  Proof.
    intros sel k ths t th th' Ht Hw.
    destruct (sel (t_pc th)) eqn:Hs.
    - destruct (Forall2_nth_l _ _ _ _ _ (wake_nth_tokrel sel k ths) Ht) as (b & Hb & Hab).
      assert (b = th') by congruence. subst b.
      destruct Hab as [E | E]; [left; exact E | right; split; [reflexivity | exact E]].
    - left. rewrite (wake_nth_unsel sel k ths t th Ht Hs) in Hw. congruence.
  Qed.

  Lemma notify_one_changed : forall sel c (ths : list thread) t th th',
    nth_error ths t = Some th -> nth_error (notify_one sel c ths) t = Some th' ->
    th' = th \/ (sel (t_pc th) = true /\ th' = set_pc th (tokenize (t_pc th))).
  Proof.
    intros sel c ths t th th' Ht Hw. unfold notify_one in Hw.
    destruct (count_sel sel ths).
    - left. congruence.
    - eapply wake_nth_changed; eassumption.
  Qed.

  (* if somebody is selected, somebody selected gets the token *)
  Lemma wake_nth_some : forall sel k (ths : list thread),
    k < count_sel sel ths ->
    exists v thv, nth_error ths v = Some thv /\ sel (t_pc thv) = true /\
      nth_error (wake_nth sel k ths) v = Some (set_pc thv (tokenize (t_pc thv))).
  Proof.
    intros sel k ths. revert k. unfold count_sel.
    induction ths as [|x r IH]; intros k Hk; cbn [filter length wake_nth] in *; [lia|].
    destruct (sel (t_pc x)) eqn:Hs.
    - destruct k as [|k'].
      + exists 0, x. cbn [nth_error]. auto.
      + cbn [length] in Hk. destruct (IH k' ltac:(lia)) as (v & thv & H1 & H2 & H3).
        exists (S v), thv. cbn [nth_error]. auto.
    - destruct (IH k Hk) as (v & thv & H1 & H2 & H3).
      exists (S v), thv. cbn [nth_error]. auto.
  Qed.

  Lemma count_sel_pos : forall sel (ths : list thread) v thv,
    nth_error ths v = Some thv -> sel (t_pc thv) = true -> 0 < count_sel sel ths.
  Proof.
    intros sel ths. unfold count_sel.
    induction ths as [|x r IH]; intros [|v] thv Hv Hs; cbn [nth_error filter] in *;
      try discriminate.
    - injection Hv as E. subst x. rewrite Hs. cbn [length]. lia.
    - destruct (sel (t_pc x)); cbn [length]; [lia | eapply IH; eassumption].
  Qed.

  Lemma notify_one_some : forall sel c (ths : list thread) u thu,
    nth_error ths u = Some thu -> sel (t_pc thu) = true ->
    exists v thv, nth_error ths v = Some thv /\ sel (t_pc thv) = true /\
      nth_error (notify_one sel c ths) v = Some (set_pc thv (tokenize (t_pc thv))).
  Proof.
    intros sel c ths u thu Hu Hs.
    assert (Hpos := count_sel_pos sel ths u thu Hu Hs).
    unfold notify_one. destruct (count_sel sel ths) as [|n] eqn:Hc; [lia|].
    apply wake_nth_some. rewrite Hc. apply Nat.mod_upper_bound. lia.
  Qed.

  (* the only selected thread gets the token *)
  Lemma notify_one_unique : forall sel c (ths : list thread) u thu,
    nth_error ths u = Some thu -> sel (t_pc thu) = true ->
    (forall v thv, nth_error ths v = Some thv -> sel (t_pc thv) = true -> v = u) ->
    nth_error (notify_one sel c ths) u = Some (set_pc thu (tokenize (t_pc thu))).
  Proof.
    intros sel c ths u thu Hu Hs Huniq.
    destruct (notify_one_some sel c ths u thu Hu Hs) as (v & thv & H1 & H2 & H3).
    assert (v = u) by (eapply Huniq; eassumption). subst v.
    assert (thv = thu) by congruence. subst thv. exact H3.
  Qed.

  (* ---- counting *)
  Lemma count_sel_upd : forall sel t (th th' : thread) ths,
    nth_error ths t = Some th ->
    count_sel sel (upd t th' ths) + (if sel (t_pc th) then 1 else 0) =
    count_sel sel ths + (if sel (t_pc th') then 1 else 0).
  Proof.
    intros sel t th th' ths. revert t. unfold count_sel.
    induction ths as [|x r IH]; intros [|t] Ht; cbn [nth_error upd filter] in *; try discriminate.
    - injection Ht as E. subst x.
      destruct (sel (t_pc th)); destruct (sel (t_pc th')); cbn [length]; lia.
    - specialize (IH t Ht). destruct (sel (t_pc x)); cbn [length]; lia.
  Qed.

  Lemma count_sel_tokrel : forall sel (ths ths' : list thread),
    (forall p, sel (tokenize p) = sel p) ->
    tokrel ths ths' -> count_sel sel ths' = count_sel sel ths.
  Proof.
    intros sel ths ths' Hsel H. unfold count_sel.
    induction H as [|x y l l' Hxy H IH]; cbn [filter]; [reflexivity|].
    assert (E : sel (t_pc y) = sel (t_pc x)).
    { destruct Hxy as [E | E]; subst y; [reflexivity|]. cbn [set_pc t_pc]. apply Hsel. }
    rewrite E. destruct (sel (t_pc x)); cbn [length]; rewrite IH; reflexivity.
  Qed.

  Lemma count_sel_zero : forall sel (ths : list thread) v thv,
    count_sel sel ths = 0 -> nth_error ths v = Some thv -> sel (t_pc thv) = false.
  Proof.
    intros sel ths v thv Hc Hv.
    destruct (sel (t_pc thv)) eqn:Hs; [|reflexivity].
    assert (H := count_sel_pos sel ths v thv Hv Hs). lia.
  Qed.
End Tok.

(* ------------------------------------------------------------------ small list facts *)
Section ListFacts.
  Context {A : Type}.

  Lemma firstn_snoc_nth : forall (l : list A) n x,
    nth_error l n = Some x -> firstn (S n) l = firstn n l ++ [x].
  Proof.
    induction l as [|y r IH]; intros [|n] x H; cbn [nth_error firstn app] in *; try discriminate.
    - congruence.
    - f_equal. apply IH. exact H.
  Qed.

  Lemma firstn_app_le : forall (l r : list A) n, n <= length l -> firstn n (l ++ r) = firstn n l.
  Proof.
    intros l r n H. rewrite firstn_app.
    replace (n - length l) with 0 by lia. cbn [firstn]. apply app_nil_r.
  Qed.

  Lemma skipn_cons_nth : forall (l : list A) k x r,
    skipn k l = x :: r -> nth_error l k = Some x /\ skipn (S k) l = r.
  Proof.
    induction l as [|y l' IH]; intros [|k] x r H; cbn [skipn nth_error] in *; try discriminate.
    - injection H as E1 E2. subst. auto.
    - apply IH in H. exact H.
  Qed.

  Lemma nth_error_app_l : forall (l r : list A) n x,
    nth_error l n = Some x -> nth_error (l ++ r) n = Some x.
  Proof.
    intros l r n x H. rewrite nth_error_app1; [exact H|]. apply nth_error_Some. congruence.
  Qed.

  Lemma nth_error_app_len : forall (l : list A) x, nth_error (l ++ [x]) (length l) = Some x.
  Proof.
    intros l x. rewrite nth_error_app2 by lia. rewrite Nat.sub_diag. reflexivity.
  Qed.
End ListFacts.

(* ------------------------------------------------------------------ indices owned by a thread
   owned_from k t links = the positions (offset k) of the entries of `links` made by thread t *)
Section Owned.
  Context {B : Type}.

  Fixpoint owned_from (k t : nat) (links : list (nat * B)) : list nat :=
    match links with
    | [] => []
    | (u, _) :: r => (if u =? t then [k] else []) ++ owned_from (S k) t r
    end.

  Lemma owned_from_app : forall links k t r,
    owned_from k t (links ++ r) = owned_from k t links ++ owned_from (k + length links) t r.
  Proof.
    induction links as [|[u i] l IH]; intros k t r; cbn [owned_from app length].
    - rewrite Nat.add_0_r. reflexivity.
    - rewrite IH, <- app_assoc. do 3 f_equal. lia.
  Qed.

  Lemma owned_from_snoc : forall links k t u i,
    owned_from k t (links ++ [(u, i)]) =
    owned_from k t links ++ (if u =? t then [k + length links] else []).
  Proof.
    intros links k t u i. rewrite owned_from_app. cbn [owned_from]. rewrite app_nil_r. reflexivity.
  Qed.

  Lemma in_owned_from : forall links k t idx,
    In idx (owned_from k t links) <->
    (k <= idx /\ exists i, nth_error links (idx - k) = Some (t, i)).
  Proof.
    induction links as [|[u i] l IH]; intros k t idx; cbn [owned_from].
    - split; [intros [] | intros [_ [i H]]]. destruct (idx - k); discriminate.
    - rewrite in_app_iff, IH. split.
      + intros [H | [H1 [j H2]]].
        * destruct (Nat.eqb_spec u t) as [E | E]; [|destruct H].
          destruct H as [H | []]. subst idx u. split; [lia|]. exists i.
          rewrite Nat.sub_diag. reflexivity.
        * split; [lia|]. exists j. replace (idx - k) with (S (idx - S k)) by lia. exact H2.
      + intros [H1 [j H2]].
        destruct (Nat.eq_dec idx k) as [E | E].
        * subst idx. rewrite Nat.sub_diag in H2. cbn [nth_error] in H2.
          injection H2 as E1 E2. subst u. rewrite Nat.eqb_refl. left. left. reflexivity.
        * right. split; [lia|]. exists j.
          replace (idx - k) with (S (idx - S k)) in H2 by lia. exact H2.
  Qed.

  Lemma in_owned0 : forall links t idx,
    In idx (owned_from 0 t links) <-> exists i, nth_error links idx = Some (t, i).
  Proof.
    intros links t idx. rewrite in_owned_from, Nat.sub_0_r. split; [tauto | split; [lia | assumption]].
  Qed.

  Lemma owned_from_sorted : forall links k t, StronglySorted lt (owned_from k t links).
  Proof.
    induction links as [|[u i] l IH]; intros k t; cbn [owned_from]; [constructor|].
    destruct (u =? t); cbn [app]; [|apply IH].
    constructor; [apply IH|]. apply Forall_forall. intros x Hx.
    apply in_owned_from in Hx. lia.
  Qed.

  Lemma owned_from_nodup : forall links k t, NoDup (owned_from k t links).
  Proof. intros. apply SSorted_NoDup, owned_from_sorted. Qed.

  (* the inputs at the owned positions, in order, are the entries of the thread *)
  Lemma owned_from_inputs : forall links pre t,
    map (fun idx => option_map snd (nth_error (pre ++ links) idx)) (owned_from (length pre) t links) =
    map Some (map snd (filter (fun p => fst p =? t) links)).
  Proof.
    induction links as [|[u i] l IH]; intros pre t; cbn [owned_from filter map fst]; [reflexivity|].
    rewrite map_app.
    replace (pre ++ (u, i) :: l) with ((pre ++ [(u, i)]) ++ l) by (rewrite <- app_assoc; reflexivity).
    specialize (IH (pre ++ [(u, i)]) t). rewrite app_length in IH. cbn [length] in IH.
    rewrite Nat.add_1_r in IH. rewrite IH.
    destruct (u =? t); cbn [map app]; [|reflexivity].
    f_equal. rewrite <- app_assoc. cbn [app].
    rewrite nth_error_app2 by lia. rewrite Nat.sub_diag. reflexivity.
  Qed.
End Owned.
