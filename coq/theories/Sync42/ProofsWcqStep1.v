(* Sync42/ProofsWcqStep1.v — consequences of the invariant and preservation by the steps that only
   change a program counter, a mutex or the flag, and by the steps that finish a call. *)
From Coq Require Import Arith List Bool Lia Sorted.
From Blue Require Import Sync42.ModelLru Sync42.ModelWaitList Sync42.ModelWcq Sync42.ProofsWaitList
  Sync42.ProofsWcqBase Sync42.ProofsWcqInv.
Import ListNotations.
Open Scope nat_scope.

Local Arguments Nat.modulo : simpl never.
Local Arguments Nat.div : simpl never.

(* ---- implicit type arguments, local to this file (the same block opens every ProofsWcq* file) *)
Local Arguments s_linked {T}. Local Arguments s_value {T}. Local Arguments w_head {T}. Local Arguments w_tail {T}.
Local Arguments w_waiting {T}. Local Arguments w_slots {T}. Local Arguments mkWl {T}. Local Arguments nslots {T}.
Local Arguments slot_at {T}. Local Arguments set_slot {T}. Local Arguments with_head {T}. Local Arguments with_tail {T}.
Local Arguments with_waiting {T}. Local Arguments invariants_ok {T}. Local Arguments wl_full {T}.
Local Arguments Linked {T}. Local Arguments MustWait {T}. Local Arguments wl_link_try {T}. Local Arguments wl_link_wake {T}.
Local Arguments wl_unlink {T}. Local Arguments wl_notify_head {T}. Local Arguments wl_store {T}. Local Arguments wl_load {T}.
Local Arguments wl_is_head {T}. Local Arguments wl_iter_next {T}. Local Arguments live {T}. Local Arguments wl_new {T}.
Local Arguments wl_wf {T}. Local Arguments link_new {T}.
Local Arguments in_live {T}. Local Arguments live_sorted {T}. Local Arguments live_nodup {T}. Local Arguments live_hd {T}.
Local Arguments live_nil_head {T}. Local Arguments slot_at_set_same {T}. Local Arguments slot_at_set_other {T}.
Local Arguments wf_invariants_ok {T}. Local Arguments unlink_spec {T}. Local Arguments link_new_spec {T}.
Local Arguments wl_link_try_unfold {T}. Local Arguments store_spec {T}. Local Arguments nslots_link_new {T}.
Local Arguments wl_wf_split {T}.

Local Arguments PIdle {Inp Outp Acc}. Local Arguments PLinkSleep {Inp Outp Acc}. Local Arguments PEnter {Inp Outp Acc}.
Local Arguments PTest {Inp Outp Acc}. Local Arguments PLoad {Inp Outp Acc}. Local Arguments PWait {Inp Outp Acc}.
Local Arguments PSleep {Inp Outp Acc}. Local Arguments PExitUnlink {Inp Outp Acc}.
Local Arguments PExitWA {Inp Outp Acc}. Local Arguments PExitNotify {Inp Outp Acc}.
Local Arguments PHead {Inp Outp Acc}. Local Arguments PLockCore {Inp Outp Acc}. Local Arguments PBatch {Inp Outp Acc}.
Local Arguments PWork {Inp Outp Acc}. Local Arguments PDist {Inp Outp Acc}. Local Arguments PLeaderLoad {Inp Outp Acc}.
Local Arguments PLeaderUnlink {Inp Outp Acc}. Local Arguments PLeaderWA {Inp Outp Acc}.
Local Arguments PLeaderClear {Inp Outp Acc}. Local Arguments PLeaderNotify {Inp Outp Acc}.
Local Arguments mkThread {Inp Outp Acc}. Local Arguments t_pc {Inp Outp Acc}. Local Arguments t_todo {Inp Outp Acc}.
Local Arguments t_done {Inp Outp Acc}.
Local Arguments mkG {Inp Outp Acc CS}. Local Arguments g_wl {Inp Outp Acc CS}. Local Arguments g_S {Inp Outp Acc CS}.
Local Arguments g_C {Inp Outp Acc CS}. Local Arguments g_dw {Inp Outp Acc CS}. Local Arguments g_core {Inp Outp Acc CS}.
Local Arguments g_threads {Inp Outp Acc CS}. Local Arguments g_links {Inp Outp Acc CS}.
Local Arguments g_seen {Inp Outp Acc CS}. Local Arguments g_batches {Inp Outp Acc CS}.
Local Arguments with_threads {Inp Outp Acc CS}. Local Arguments with_wl {Inp Outp Acc CS}.
Local Arguments with_S {Inp Outp Acc CS}. Local Arguments with_C {Inp Outp Acc CS}.
Local Arguments with_dw {Inp Outp Acc CS}. Local Arguments set_pc {Inp Outp Acc}.
Local Arguments set_thread {Inp Outp Acc CS}. Local Arguments tokenize {Inp Outp Acc}.
Local Arguments wake_nth {Inp Outp Acc}. Local Arguments count_sel {Inp Outp Acc}.
Local Arguments notify_one {Inp Outp Acc}. Local Arguments sleeps_on {Inp Outp Acc}.
Local Arguments sleeps_wa {Inp Outp Acc}. Local Arguments notify_cond {Inp Outp Acc CS}.
Local Arguments notify_wa {Inp Outp Acc CS}.
Local Arguments SOk {Inp Outp Acc CS}. Local Arguments SBlocked {Inp Outp Acc CS}.
Local Arguments SDone {Inp Outp Acc CS}. Local Arguments SPanic {Inp Outp Acc CS}.
Local Arguments after_link {Inp Outp Acc CS}. Local Arguments finish {Inp Outp Acc}.
Local Arguments spurious {Inp Outp Acc CS}. Local Arguments thread_finished {Inp Outp Acc}.
Local Arguments all_finished {Inp Outp Acc CS}.

Tactic Notation "upd_inv" constr(Ht) hyp(Hu) ident(Hne) :=
  let Hu' := fresh Hu in
  destruct (nth_error_upd_inv _ _ _ _ _ _ Ht Hu) as [[-> ->] | [Hne Hu']];
  [clear Hu | clear Hu; rename Hu' into Hu].

Ltac gproj :=
  cbn [g_wl g_S g_C g_dw g_core g_threads g_links g_seen g_batches set_pc t_pc t_todo t_done].

Section Step1.
  Context {Inp Outp Acc CS : Type}.
  Notation pc := (pc Inp Outp Acc).
  Notation thread := (thread Inp Outp Acc).
  Notation gstate := (gstate Inp Outp Acc CS).
  Variable progs : list (list Inp).

  (* ---- consequences *)
  Lemma own_gidx_links : forall (g : gstate) lo cov ld u thu j,
    InvR progs g lo cov ld -> nth_error (g_threads g) u = Some thu ->
    pc_gidx (t_pc thu) = Some j -> exists i, nth_error (g_links g) j = Some (u, i).
  Proof.
    intros g lo cov ld u thu j H Hu Hj.
    apply in_owned0. rewrite <- (i_own _ _ _ _ _ H u thu Hu), Hj.
    apply in_or_app. right. left. reflexivity.
  Qed.

  Lemma own_unique : forall (g : gstate) lo cov ld u v thu thv j,
    InvR progs g lo cov ld -> nth_error (g_threads g) u = Some thu ->
    nth_error (g_threads g) v = Some thv ->
    pc_gidx (t_pc thu) = Some j -> pc_gidx (t_pc thv) = Some j -> u = v.
  Proof.
    intros g lo cov ld u v thu thv j H Hu Hv Hju Hjv.
    destruct (own_gidx_links g lo cov ld u thu j H Hu Hju) as [i1 E1].
    destruct (own_gidx_links g lo cov ld v thv j H Hv Hjv) as [i2 E2].
    congruence.
  Qed.

  Lemma done_links : forall (g : gstate) lo cov ld u thu idx o,
    InvR progs g lo cov ld -> nth_error (g_threads g) u = Some thu ->
    In (idx, o) (t_done thu) -> exists i, nth_error (g_links g) idx = Some (u, i).
  Proof.
    intros g lo cov ld u thu idx o H Hu Hin.
    apply in_owned0. rewrite <- (i_own _ _ _ _ _ H u thu Hu).
    apply in_or_app. left. rewrite map_rev, <- in_rev.
    apply in_map_iff. exists (idx, o). auto.
  Qed.

  Lemma cell_cases : forall (g : gstate) lo cov ld idx,
    InvR progs g lo cov ld -> In idx (live (g_wl g)) ->
    (idx < lo /\ exists o, s_value (slot_at (g_wl g) idx) = Some (WOutput o) /\
                           designatedB (g_batches g) idx o) \/
    (lo <= idx < length (g_seen g) /\ s_value (slot_at (g_wl g) idx) = Some WStolen) \/
    (length (g_seen g) <= idx < w_tail (g_wl g) /\
     exists t inp, nth_error (g_links g) idx = Some (t, inp) /\
                   s_value (slot_at (g_wl g) idx) = Some (WInput inp)).
  Proof.
    intros g lo cov ld idx H Hin.
    assert (Hr := proj1 (in_live _ _) Hin).
    destruct (lt_dec idx lo) as [L | L].
    - left. split; [exact L|]. apply (i_output _ _ _ _ _ H); assumption.
    - right. destruct (lt_dec idx (length (g_seen g))) as [L2 | L2].
      + left. split; [lia|]. apply (i_stolen _ _ _ _ _ H). lia.
      + right. split; [lia|]. apply (i_input _ _ _ _ _ H). lia.
  Qed.

  (* the head is held by somebody when the list is not empty *)
  Lemma head_live : forall (g : gstate) lo cov ld idx,
    InvR progs g lo cov ld -> In idx (live (g_wl g)) -> In (w_head (g_wl g)) (live (g_wl g)).
  Proof.
    intros g lo cov ld idx H Hin.
    assert (Hhd := live_hd (g_wl g) (i_wf _ _ _ _ _ H)).
    destruct (live (g_wl g)) as [|a r] eqn:E; [destruct Hin|].
    cbn [hd] in Hhd. rewrite Hhd. left. reflexivity.
  Qed.

  (* ---- tinv frame lemmas *)
  Lemma tinv_hd_change : forall hd hd' dw sv bs lo cov (p : pc),
    tinv hd dw sv bs lo cov p -> (forall j, pc_idx p = Some j -> j <> hd) ->
    tinv hd' dw sv bs lo cov p.
  Proof.
    intros hd hd' dw sv bs lo cov p H Hne.
    destruct p; cbn [tinv pc_idx] in *; try exact H;
      try (exfalso; eapply Hne; [reflexivity|]; intuition congruence).
  Qed.

  Lemma tinv_dw_false : forall hd dw sv bs lo cov (p : pc),
    tinv hd dw sv bs lo cov p -> tinv hd false sv bs lo cov p.
  Proof.
    intros hd dw sv bs lo cov p H. destruct p; cbn [tinv] in *; try exact H. tauto.
  Qed.

  Lemma tinv_dw_nonS : forall hd dw dw' sv bs lo cov (p : pc),
    holdsS p = false -> tinv hd dw sv bs lo cov p -> tinv hd dw' sv bs lo cov p.
  Proof.
    intros hd dw dw' sv bs lo cov p HS H. destruct p; cbn [tinv holdsS] in *; try exact H.
    discriminate.
  Qed.

  Lemma tinv_bs_mono : forall hd dw sv (bs bs' : list (nat * nat * list Outp)) lo cov (p : pc),
    (forall b, In b bs -> In b bs') ->
    tinv hd dw sv bs lo cov p -> tinv hd dw sv bs' lo cov p.
  Proof.
    intros hd dw sv bs bs' lo cov p Hsub H.
    assert (Hd : forall idx o, designatedB bs idx o -> designatedB bs' idx o).
    { intros idx o (f & k & outs & H1 & H2). exists f, k, outs. split; [apply Hsub; exact H1 | exact H2]. }
    destruct p; cbn [tinv] in *; try exact H; try (apply Hd; exact H);
      try (intuition auto; fail).
    destruct H as (H1 & H2 & H3 & H4 & H5 & H6 & ao & H7 & H8).
    repeat (split; [assumption|]). exists ao. split; [apply Hsub; exact H7 | exact H8].
  Qed.

  (* ---- steps that only change the pc of thread t, the mutexes and the flag *)
  Lemma InvR_pcstep : forall (g : gstate) lo cov ld t th p' s' c' dw' ld',
    InvR progs g lo cov ld -> nth_error (g_threads g) t = Some th ->
    pc_idx p' = pc_idx (t_pc th) -> pc_gidx p' = pc_gidx (t_pc th) ->
    is_ls p' = is_ls (t_pc th) -> pend p' = pend (t_pc th) ->
    lockinv holdsS s' (upd t (set_pc th p') (g_threads g)) ->
    lockinv holdsC c' (upd t (set_pc th p') (g_threads g)) ->
    lockinv inLP ld' (upd t (set_pc th p') (g_threads g)) ->
    dw' = isSome ld' ->
    (ld' = None -> lo = length (g_seen g) /\ cov = length (g_seen g)) ->
    (forall u thu, nth_error (upd t (set_pc th p') (g_threads g)) u = Some thu ->
       tinv (w_head (g_wl g)) dw' (length (g_seen g)) (g_batches g) lo cov (t_pc thu)) ->
    InvR progs (mkG (g_wl g) s' c' dw' (g_core g) (upd t (set_pc th p') (g_threads g))
                    (g_links g) (g_seen g) (g_batches g)) lo cov ld'.
  Proof.
    intros g lo cov ld t th p' s' c' dw' ld' H Ht Eidx Egidx Els Epend HS HC HL Hdw Hnl Htinv.
    destruct H. constructor; gproj; try assumption.
    - assert (E := count_sel_upd is_ls t th (set_pc th p') (g_threads g) Ht).
      cbn [set_pc t_pc] in E. rewrite Els in E. lia.
    - intros u thu idx Hu Hp; upd_inv Ht Hu Hne.
      + cbn [set_pc t_pc] in Hp. rewrite Eidx in Hp. eapply i_idx_live; eassumption.
      + eapply i_idx_live; eassumption.
    - intros idx Hin. destruct (i_live_idx idx Hin) as (u & thu & Hu & Hp).
      destruct (Nat.eq_dec u t) as [E | E].
      + subst u. assert (thu = th) by congruence. subst thu.
        exists t, (set_pc th p'). split; [eapply nth_error_upd_same; exact Ht|].
        cbn [set_pc t_pc]. congruence.
      + exists u, thu. split; [rewrite nth_error_upd_other by congruence; exact Hu | exact Hp].
    - intros u thu Hu; upd_inv Ht Hu Hne.
      + cbn [set_pc t_pc t_done]. rewrite Egidx. apply i_own. exact Ht.
      + apply i_own. assumption.
    - intros u thu idx o Hu Hin; upd_inv Ht Hu Hne.
      + cbn [set_pc t_done] in Hin. eapply i_done; eassumption.
      + eapply i_done; eassumption.
    - intros u thu Hu; upd_inv Ht Hu Hne.
      + cbn [set_pc t_pc t_todo]. rewrite Epend. apply i_prog. exact Ht.
      + apply i_prog. assumption.
    - rewrite upd_length. assumption.
    - intros idx u inp Hl. rewrite upd_length. eapply i_links_thr; eassumption.
  Qed.

  (* the common case: same lock classes *)
  Lemma tinv_upd : forall hd dw sv bs lo cov (ths : list thread) t th p',
    (forall u thu, nth_error ths u = Some thu -> tinv hd dw sv bs lo cov (t_pc thu)) ->
    nth_error ths t = Some th -> tinv hd dw sv bs lo cov p' ->
    forall u thu, nth_error (upd t (set_pc th p') ths) u = Some thu ->
      tinv hd dw sv bs lo cov (t_pc thu).
  Proof.
    intros hd dw sv bs lo cov ths t th p' Hall Ht Hp'.
    intros u thu Hu; upd_inv Ht Hu Hne; [exact Hp' | eapply Hall; eassumption].
  Qed.

  Lemma InvR_pcstep_same : forall (g : gstate) lo cov ld t th p',
    InvR progs g lo cov ld -> nth_error (g_threads g) t = Some th ->
    pc_idx p' = pc_idx (t_pc th) -> pc_gidx p' = pc_gidx (t_pc th) ->
    is_ls p' = is_ls (t_pc th) -> pend p' = pend (t_pc th) ->
    holdsS p' = holdsS (t_pc th) -> holdsC p' = holdsC (t_pc th) -> inLP p' = inLP (t_pc th) ->
    tinv (w_head (g_wl g)) (g_dw g) (length (g_seen g)) (g_batches g) lo cov p' ->
    InvR progs (set_thread g t (set_pc th p')) lo cov ld.
  Proof.
    intros g lo cov ld t th p' H Ht E1 E2 E3 E4 E5 E6 E7 Hp'.
    unfold set_thread, with_threads.
    apply (InvR_pcstep g lo cov ld t th p' (g_S g) (g_C g) (g_dw g) ld H Ht E1 E2 E3 E4).
    - eapply lockinv_upd_keep; [apply (i_S _ _ _ _ _ H) | exact Ht | exact E5].
    - eapply lockinv_upd_keep; [apply (i_C _ _ _ _ _ H) | exact Ht | exact E6].
    - eapply lockinv_upd_keep; [apply (i_L _ _ _ _ _ H) | exact Ht | exact E7].
    - apply (i_dw _ _ _ _ _ H).
    - apply (i_noleader _ _ _ _ _ H).
    - apply tinv_upd; [apply (i_tinv _ _ _ _ _ H) | exact Ht | exact Hp'].
  Qed.

  (* acquiring S: PEnter / PSleep true -> PTest *)
  Lemma InvR_acquire_S : forall (g : gstate) lo cov ld t th p',
    InvR progs g lo cov ld -> nth_error (g_threads g) t = Some th -> g_S g = None ->
    pc_idx p' = pc_idx (t_pc th) -> pc_gidx p' = pc_gidx (t_pc th) ->
    is_ls p' = is_ls (t_pc th) -> pend p' = pend (t_pc th) ->
    holdsS p' = true -> holdsC p' = holdsC (t_pc th) -> inLP p' = inLP (t_pc th) ->
    tinv (w_head (g_wl g)) (g_dw g) (length (g_seen g)) (g_batches g) lo cov p' ->
    InvR progs (set_thread (with_S g (Some t)) t (set_pc th p')) lo cov ld.
  Proof.
    intros g lo cov ld t th p' H Ht HS E1 E2 E3 E4 E5 E6 E7 Hp'.
    unfold set_thread, with_threads, with_S. gproj.
    apply (InvR_pcstep g lo cov ld t th p' (Some t) (g_C g) (g_dw g) ld H Ht E1 E2 E3 E4).
    - eapply lockinv_upd_acq; [rewrite <- HS; apply (i_S _ _ _ _ _ H) | exact Ht | exact E5].
    - eapply lockinv_upd_keep; [apply (i_C _ _ _ _ _ H) | exact Ht | exact E6].
    - eapply lockinv_upd_keep; [apply (i_L _ _ _ _ _ H) | exact Ht | exact E7].
    - apply (i_dw _ _ _ _ _ H).
    - apply (i_noleader _ _ _ _ _ H).
    - apply tinv_upd; [apply (i_tinv _ _ _ _ _ H) | exact Ht | exact Hp'].
  Qed.

  (* releasing S: PWait -> PSleep, PBatch -> PWork *)
  Lemma InvR_release_S : forall (g : gstate) lo cov ld t th p',
    InvR progs g lo cov ld -> nth_error (g_threads g) t = Some th ->
    pc_idx p' = pc_idx (t_pc th) -> pc_gidx p' = pc_gidx (t_pc th) ->
    is_ls p' = is_ls (t_pc th) -> pend p' = pend (t_pc th) ->
    holdsS (t_pc th) = true -> holdsS p' = false ->
    holdsC p' = holdsC (t_pc th) -> inLP p' = inLP (t_pc th) ->
    tinv (w_head (g_wl g)) (g_dw g) (length (g_seen g)) (g_batches g) lo cov p' ->
    InvR progs (set_thread (with_S g None) t (set_pc th p')) lo cov ld.
  Proof.
    intros g lo cov ld t th p' H Ht E1 E2 E3 E4 E5 E5' E6 E7 Hp'.
    unfold set_thread, with_threads, with_S. gproj.
    apply (InvR_pcstep g lo cov ld t th p' None (g_C g) (g_dw g) ld H Ht E1 E2 E3 E4).
    - eapply lockinv_upd_rel; [apply (i_S _ _ _ _ _ H) | exact Ht | exact E5 | exact E5'].
    - eapply lockinv_upd_keep; [apply (i_C _ _ _ _ _ H) | exact Ht | exact E6].
    - eapply lockinv_upd_keep; [apply (i_L _ _ _ _ _ H) | exact Ht | exact E7].
    - apply (i_dw _ _ _ _ _ H).
    - apply (i_noleader _ _ _ _ _ H).
    - apply tinv_upd; [apply (i_tinv _ _ _ _ _ H) | exact Ht | exact Hp'].
  Qed.

  (* ---- finishing a call: PExitNotify / PLeaderNotify -> PIdle with a result *)
  Lemma InvR_finish : forall (g : gstate) lo cov ld t th idx o s' c',
    InvR progs g lo cov ld -> nth_error (g_threads g) t = Some th ->
    pc_gidx (t_pc th) = Some idx -> pc_idx (t_pc th) = None ->
    is_ls (t_pc th) = false -> pend (t_pc th) = [] -> inLP (t_pc th) = false ->
    designatedB (g_batches g) idx o ->
    lockinv holdsS s' (upd t (finish th idx o) (g_threads g)) ->
    lockinv holdsC c' (upd t (finish th idx o) (g_threads g)) ->
    InvR progs (mkG (g_wl g) s' c' (g_dw g) (g_core g) (upd t (finish th idx o) (g_threads g))
                    (g_links g) (g_seen g) (g_batches g)) lo cov ld.
  Proof.
    intros g lo cov ld t th idx o s' c' H Ht Egidx Eidx Els Epend ELP Hdes HS HC.
    destruct H. constructor; gproj; try assumption.
    - assert (E := count_sel_upd is_ls t th (finish th idx o) (g_threads g) Ht).
      cbn [finish t_pc is_ls] in E. rewrite Els in E. lia.
    - eapply lockinv_upd_keep; [eassumption | exact Ht | cbn [finish t_pc inLP]; congruence].
    - intros u thu j Hu Hp; upd_inv Ht Hu Hne.
      + cbn [finish t_pc pc_idx] in Hp. discriminate.
      + eapply i_idx_live; eassumption.
    - intros j Hin. destruct (i_live_idx j Hin) as (u & thu & Hu & Hp).
      destruct (Nat.eq_dec u t) as [E | E].
      + subst u. assert (thu = th) by congruence. subst thu. congruence.
      + exists u, thu. split; [rewrite nth_error_upd_other by congruence; exact Hu | exact Hp].
    - intros u thu Hu; upd_inv Ht Hu Hne.
      + cbn [finish t_pc t_done pc_gidx olist rev map]. rewrite app_nil_r.
        rewrite map_app. cbn [map fst]. rewrite <- (i_own t th Ht), Egidx. reflexivity.
      + apply i_own. assumption.
    - intros u thu Hu; upd_inv Ht Hu Hne.
      + cbn [finish t_pc tinv]. exact I.
      + eapply i_tinv; eassumption.
    - intros u thu j o' Hu Hin; upd_inv Ht Hu Hne.
      + cbn [finish t_done] in Hin. destruct Hin as [E | Hin].
        * injection E as E1 E2. subst j o'. exact Hdes.
        * eapply i_done; eassumption.
      + eapply i_done; eassumption.
    - intros u thu Hu; upd_inv Ht Hu Hne.
      + cbn [finish t_pc t_todo pend]. rewrite <- (i_prog t th Ht), Epend. reflexivity.
      + apply i_prog. assumption.
    - rewrite upd_length. assumption.
    - intros j u inp Hl. rewrite upd_length. eapply i_links_thr; eassumption.
  Qed.
End Step1.
