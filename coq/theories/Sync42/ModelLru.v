(* Sync42/ModelLru.v — executable model of sync42/src/lru.rs (LeastRecentlyUsedCache), at the
   level of the raw pointers the Rust code manipulates, and the specification it is compared with.
   Definitions only.

   The heap is an association list from addresses to nodes; `Node::new` allocates at a fresh
   address (never reused), `Node::drop` removes the binding; dereferencing null or an address that
   is not allocated is the explicit result UB; a failed assert! / usize underflow is Panic.
   `HashMap<K, *mut Node>` is an association list with at most one binding per key.
   usize additions are unbounded (the property is not about wrap-around of the byte count);
   subtractions are checked.  The model is of the code AFTER the fix for the overwrite defect
   (insert over an existing key calls move_lru_to_front). *)
From Coq Require Import NArith List Bool.
Import ListNotations.
Open Scope N_scope.

Inductive res (A : Type) : Type :=
| Ok (a : A)
| Panic        (* assert!/assert_ne!/expect failed, or checked arithmetic overflowed *)
| UB           (* null or dangling pointer dereferenced *)
| OutOfFuel.   (* a loop of the model ran out of fuel (excluded by the theorems) *)
Arguments Ok {A} a.
Arguments Panic {A}.
Arguments UB {A}.
Arguments OutOfFuel {A}.

Definition bind {A B} (r : res A) (f : A -> res B) : res B :=
  match r with Ok a => f a | Panic => Panic | UB => UB | OutOfFuel => OutOfFuel end.
Notation "x <- r ;; k" := (bind r (fun x => k)) (at level 61, r at next level, right associativity).

Section Lru.
  Variables K V : Type.
  Variable keqb : K -> K -> bool.      (* K: Eq + Hash *)
  Variable vsize : V -> N.             (* Value::approximate_size *)

  Definition ptr := N.
  Definition null : ptr := 0.

  Record node := mkNode { n_next : ptr; n_prev : ptr; n_key : K; n_val : V }.
  Definition set_next (n : node) (p : ptr) := mkNode p (n_prev n) (n_key n) (n_val n).
  Definition set_prev (n : node) (p : ptr) := mkNode (n_next n) p (n_key n) (n_val n).
  Definition set_val (n : node) (v : V) := mkNode (n_next n) (n_prev n) (n_key n) v.

  Definition heap := list (ptr * node).

  Fixpoint hget (h : heap) (p : ptr) : option node :=
    match h with
    | [] => None
    | (q, n) :: r => if q =? p then Some n else hget r p
    end.
  Fixpoint hset (h : heap) (p : ptr) (n : node) : heap :=
    match h with
    | [] => []
    | (q, m) :: r => if q =? p then (q, n) :: r else (q, m) :: hset r p n
    end.
  Fixpoint hfree (h : heap) (p : ptr) : heap :=
    match h with
    | [] => []
    | (q, m) :: r => if q =? p then r else (q, m) :: hfree r p
    end.

  (* `&mut *p` *)
  Definition rd (h : heap) (p : ptr) : res node :=
    if p =? null then UB else match hget h p with Some n => Ok n | None => UB end.
  (* a store through the pointer: p->field = x *)
  Definition wr (h : heap) (p : ptr) (f : node -> node) : res heap :=
    n <- rd h p ;; Ok (hset h p (f n)).

  (* HashMap<K, *mut Node<K, V>> *)
  Definition kmap := list (K * ptr).
  Fixpoint kget (m : kmap) (k : K) : option ptr :=
    match m with
    | [] => None
    | (k', p) :: r => if keqb k' k then Some p else kget r k
    end.
  Fixpoint kremove (m : kmap) (k : K) : kmap :=
    match m with
    | [] => []
    | (k', p) :: r => if keqb k' k then r else (k', p) :: kremove r k
    end.

  Record state := mkState {
    st_size : N; st_head : ptr; st_tail : ptr; st_keys : kmap;
    st_heap : heap; st_fresh : ptr (* allocator: next address, never 0 *) }.

  Definition init : state := mkState 0 null null [] [] 1.

  Definition with_heap (st : state) (h : heap) :=
    mkState (st_size st) (st_head st) (st_tail st) (st_keys st) h (st_fresh st).
  Definition with_head (st : state) (p : ptr) :=
    mkState (st_size st) p (st_tail st) (st_keys st) (st_heap st) (st_fresh st).
  Definition with_tail (st : state) (p : ptr) :=
    mkState (st_size st) (st_head st) p (st_keys st) (st_heap st) (st_fresh st).
  Definition with_size (st : state) (s : N) :=
    mkState s (st_head st) (st_tail st) (st_keys st) (st_heap st) (st_fresh st).
  Definition with_keys (st : state) (m : kmap) :=
    mkState (st_size st) (st_head st) (st_tail st) m (st_heap st) (st_fresh st).

  (* Node::new: Box::leak(Box::new(..)) with null links *)
  Definition node_new (st : state) (k : K) (v : V) : state * ptr :=
    let p := st_fresh st in
    (mkState (st_size st) (st_head st) (st_tail st) (st_keys st)
             ((p, mkNode null null k v) :: st_heap st) (p + 1), p).

  (* unsafe fn move_lru_to_front *)
  Definition move_lru_to_front (st : state) (p : ptr) : res state :=
    if p =? st_head st then Ok st else
    node <- rd (st_heap st) p ;;
    if n_prev node =? null then Panic else                   (* assert_ne!(null, node.prev) *)
    h1 <- wr (st_heap st) (n_prev node) (fun prev => set_next prev (n_next node)) ;;
    st1 <- (if negb (n_next node =? null) then
              h2 <- wr h1 (n_next node) (fun next => set_prev next (n_prev node)) ;;
              Ok (with_heap st h2)
            else
              if negb (st_tail st =? p) then Panic else      (* assert_eq!(state.tail, ptr) *)
              Ok (with_tail (with_heap st h1) (n_prev node))) ;;
    h3 <- wr (st_heap st1) p (fun n => set_prev (set_next n (st_head st1)) null) ;;
    h4 <- wr h3 (st_head st1) (fun hd => set_prev hd p) ;;
    Ok (with_head (with_heap st1 h4) p).

  (* unsafe fn move_lru_to_back *)
  Definition move_lru_to_back (st : state) (p : ptr) : res state :=
    if p =? st_tail st then Ok st else
    node <- rd (st_heap st) p ;;
    if n_next node =? null then Panic else                   (* assert_ne!(null, node.next) *)
    h1 <- wr (st_heap st) (n_next node) (fun next => set_prev next (n_prev node)) ;;
    st1 <- (if negb (n_prev node =? null) then
              h2 <- wr h1 (n_prev node) (fun prev => set_next prev (n_next node)) ;;
              Ok (with_heap st h2)
            else
              if negb (st_head st =? p) then Panic else      (* assert_eq!(state.head, ptr) *)
              Ok (with_head (with_heap st h1) (n_next node))) ;;
    h3 <- wr (st_heap st1) p (fun n => set_next (set_prev n (st_tail st1)) null) ;;
    h4 <- wr h3 (st_tail st1) (fun tl => set_next tl p) ;;
    Ok (with_tail (with_heap st1 h4) p).

  (* unsafe fn remove_lru *)
  Definition remove_lru (st : state) : res state :=
    if st_tail st =? null then Ok st else
    if st_head st =? null then Panic else                    (* assert_ne!(null, state.head) *)
    let p := st_tail st in
    tail <- rd (st_heap st) p ;;
    h1 <- (if negb (n_prev tail =? null)
           then wr (st_heap st) (n_prev tail) (fun nt => set_next nt null)
           else Ok (st_heap st)) ;;
    if st_size st <? vsize (n_val tail) then Panic else      (* usize underflow *)
    let size' := st_size st - vsize (n_val tail) in
    let tail' := n_prev tail in
    let head' := if tail' =? null then null else st_head st in
    h2 <- wr h1 p (fun n => set_prev n null) ;;
    let keys' := kremove (st_keys st) (n_key tail) in
    Ok (mkState size' head' tail' keys' (hfree h2 p) (st_fresh st)).   (* Node::drop(ptr) *)

  (* fn insert_helper; `p` is the node just made by Node::new(key.clone(), value) *)
  Definition insert_helper (st : state) (p : ptr) (key : K) : res state :=
    match kget (st_keys st) key with
    | Some existing =>
        node <- rd (st_heap st) p ;;
        enode <- rd (st_heap st) existing ;;
        (* std::mem::swap(&mut node.value, &mut existing_node.value) *)
        let h1 := hset (hset (st_heap st) p (set_val node (n_val enode)))
                       existing (set_val enode (n_val node)) in
        let size1 := st_size st + vsize (n_val node) in      (* += existing_node.value (the new one) *)
        if size1 <? vsize (n_val enode) then Panic else      (* -= node.value (the old one) *)
        let size2 := size1 - vsize (n_val enode) in
        let st1 := with_size (with_heap st (hfree h1 p)) size2 in   (* Node::drop(ptr) *)
        move_lru_to_front st1 existing
    | None =>
        node <- rd (st_heap st) p ;;
        let keys' := (key, p) :: st_keys st in               (* entry.insert(ptr) *)
        let size' := st_size st + vsize (n_val node) in
        if st_head st =? null then
          if negb (st_tail st =? null) then Panic else       (* assert_eq!(null, state.tail) *)
          h1 <- wr (st_heap st) p (fun n => set_prev (set_next n null) null) ;;
          Ok (mkState size' p p keys' h1 (st_fresh st))
        else
          h1 <- wr (st_heap st) p (fun n => set_prev (set_next n (st_head st)) null) ;;
          h2 <- wr h1 (st_head st) (fun hd => set_prev hd p) ;;
          Ok (mkState size' p (st_tail st) keys' h2 (st_fresh st))
    end.

  (* `while state.size > self.capacity && !state.head.is_null() { remove_lru }` *)
  Fixpoint evict (fuel : nat) (cap : N) (st : state) : res state :=
    if (cap <? st_size st) && negb (st_head st =? null) then
      match fuel with
      | O => OutOfFuel
      | S f => st' <- remove_lru st ;; evict f cap st'
      end
    else Ok st.

  Definition insert (cap : N) (st : state) (k : K) (v : V) : res state :=
    let (st0, p) := node_new st k v in
    st1 <- insert_helper st0 p k ;;
    evict (S (length (st_keys st1))) cap st1.

  Definition insert_no_evict (st : state) (k : K) (v : V) : res state :=
    let (st0, p) := node_new st k v in
    insert_helper st0 p k.

  Definition approximate_size (st : state) : N := st_size st.

  Definition remove (st : state) (k : K) : res state :=
    match kget (st_keys st) k with
    | Some p => st1 <- move_lru_to_back st p ;; remove_lru st1
    | None => Ok st
    end.

  Definition lookup (st : state) (k : K) : res (state * option V) :=
    match kget (st_keys st) k with
    | None => Ok (st, None)
    | Some p =>
        node <- rd (st_heap st) p ;;
        st1 <- move_lru_to_front st p ;;
        Ok (st1, Some (n_val node))
    end.

  Definition pop (st : state) : res (state * option (K * V)) :=
    if negb (st_tail st =? null) then
      tail <- rd (st_heap st) (st_tail st) ;;
      st1 <- remove_lru st ;;
      Ok (st1, Some (n_key tail, n_val tail))
    else Ok (st, None).

  (* ---------------------------------------------------------------- operations and runs *)
  Inductive op :=
  | OInsert (k : K) (v : V)
  | OInsertNoEvict (k : K) (v : V)
  | OLookup (k : K)
  | ORemove (k : K)
  | OPop
  | OSize.

  Inductive out :=
  | OutUnit
  | OutValue (v : option V)
  | OutPopped (kv : option (K * V))
  | OutSize (n : N).

  Definition step (cap : N) (st : state) (o : op) : res (state * out) :=
    match o with
    | OInsert k v => st' <- insert cap st k v ;; Ok (st', OutUnit)
    | OInsertNoEvict k v => st' <- insert_no_evict st k v ;; Ok (st', OutUnit)
    | OLookup k => r <- lookup st k ;; Ok (fst r, OutValue (snd r))
    | ORemove k => st' <- remove st k ;; Ok (st', OutUnit)
    | OPop => r <- pop st ;; Ok (fst r, OutPopped (snd r))
    | OSize => Ok (st, OutSize (approximate_size st))
    end.

  Fixpoint run (cap : N) (st : state) (ops : list op) : res (state * list out) :=
    match ops with
    | [] => Ok (st, [])
    | o :: r =>
        x <- step cap st o ;;
        y <- run cap (fst x) r ;;
        Ok (fst y, snd x :: snd y)
    end.

  (* ================================================================ the specification *)
  (* A least-recently-used map: the entries, most recently used first.  Inserting or looking up
     a key makes it the most recently used; eviction removes least recently used entries until
     the total size is within the capacity (or nothing is left). *)
  Definition entries := list (K * V).

  Definition total (l : entries) : N := fold_right (fun e a => vsize (snd e) + a) 0 l.

  Fixpoint s_find (l : entries) (k : K) : option V :=
    match l with
    | [] => None
    | (k', v) :: r => if keqb k' k then Some v else s_find r k
    end.
  Fixpoint s_del (l : entries) (k : K) : entries :=
    match l with
    | [] => []
    | (k', v) :: r => if keqb k' k then r else (k', v) :: s_del r k
    end.

  Fixpoint s_evict_n (n : nat) (cap : N) (l : entries) : entries :=
    match n with
    | O => l
    | S n' => if cap <? total l then s_evict_n n' cap (removelast l) else l
    end.
  Definition s_evict (cap : N) (l : entries) : entries := s_evict_n (length l) cap l.

  Definition s_step (cap : N) (l : entries) (o : op) : entries * out :=
    match o with
    | OInsert k v => (s_evict cap ((k, v) :: s_del l k), OutUnit)
    | OInsertNoEvict k v => ((k, v) :: s_del l k, OutUnit)
    | OLookup k =>
        match s_find l k with
        | Some v => ((k, v) :: s_del l k, OutValue (Some v))
        | None => (l, OutValue None)
        end
    | ORemove k => (s_del l k, OutUnit)
    | OPop =>
        match l with
        | [] => (l, OutPopped None)
        | e :: r => (removelast l, OutPopped (Some (last l e)))
        end
    | OSize => (l, OutSize (total l))
    end.

  Fixpoint s_run (cap : N) (l : entries) (ops : list op) : entries * list out :=
    match ops with
    | [] => (l, [])
    | o :: r =>
        let x := s_step cap l o in
        let y := s_run cap (fst x) r in
        (fst y, snd x :: snd y)
    end.

  (* entries whose most recent write was insert_no_evict, tracked alongside the specification:
     `ne` is the list of such keys among the present entries *)
  Definition ne_keep (l : entries) (ne : list K) : list K :=
    filter (fun k => match s_find l k with Some _ => true | None => false end) ne.
  Definition ne_del (ne : list K) (k : K) : list K := filter (fun k' => negb (keqb k' k)) ne.

  Definition ne_step (cap : N) (l : entries) (ne : list K) (o : op) : list K :=
    let l' := fst (s_step cap l o) in
    match o with
    | OInsert k v => ne_keep l' (ne_del ne k)
    | OInsertNoEvict k v => k :: ne_del ne k
    | _ => ne_keep l' ne
    end.

  Fixpoint ne_run (cap : N) (l : entries) (ne : list K) (ops : list op) : list K :=
    match ops with
    | [] => ne
    | o :: r => ne_run cap (fst (s_step cap l o)) (ne_step cap l ne o) r
    end.

  (* total size of the present entries whose most recent write had eviction disabled *)
  Definition ne_total (l : entries) (ne : list K) : N :=
    fold_right (fun e a => if existsb (keqb (fst e)) ne then vsize (snd e) + a else a) 0 l.

End Lru.

Arguments mkNode {K V}.
Arguments OInsert {K V}.
Arguments OInsertNoEvict {K V}.
Arguments OLookup {K V}.
Arguments ORemove {K V}.
Arguments OPop {K V}.
Arguments OSize {K V}.
Arguments OutUnit {K V}.
Arguments OutValue {K V}.
Arguments OutPopped {K V}.
Arguments OutSize {K V}.

(* ------------------------------------------------------------------ instance used by the check:
   keys are numbers, a value is (id, size) *)
Definition nv_size (v : N * N) : N := snd v.
Definition lru_run_N (cap : N) (ops : list (op N (N * N))) :=
  run N (N * N) N.eqb nv_size cap (init N (N * N)) ops.
(* drain with pop, least recently used first (what the harness does after the ops) *)
Fixpoint lru_drain_N (fuel : nat) (st : state N (N * N)) : res (list (N * (N * N))) :=
  match fuel with
  | O => Ok []
  | S f =>
      r <- pop N (N * N) N.eqb nv_size st ;;
      match snd r with
      | None => Ok []
      | Some kv => l <- lru_drain_N f (fst r) ;; Ok (kv :: l)
      end
  end.
Definition lru_case_N (cap : N) (ops : list (op N (N * N)))
  : res (list (out N (N * N)) * N * list (N * (N * N))) :=
  x <- lru_run_N cap ops ;;
  d <- lru_drain_N (S (length (st_keys N (N * N) (fst x)))) (fst x) ;;
  Ok (snd x, st_size N (N * N) (fst x), d).
Definition lru_spec_N (cap : N) (ops : list (op N (N * N))) :=
  s_run N (N * N) N.eqb nv_size cap [] ops.
