(* Sync42/PropsPrelude.v — implicit-argument declarations that make the statements of
   Props_C18.v readable (the type parameters of the models are inferred).  Nothing else. *)
From Blue Require Import Sync42.ModelLru Sync42.ModelWaitList Sync42.ModelWcq.

Global Arguments g_wl {Inp Outp Acc CS}.
Global Arguments g_dw {Inp Outp Acc CS}.
Global Arguments g_threads {Inp Outp Acc CS}.
Global Arguments g_links {Inp Outp Acc CS}.
Global Arguments g_seen {Inp Outp Acc CS}.
Global Arguments g_batches {Inp Outp Acc CS}.
Global Arguments all_finished {Inp Outp Acc CS}.
Global Arguments t_pc {Inp Outp Acc}.
Global Arguments t_todo {Inp Outp Acc}.
Global Arguments t_done {Inp Outp Acc}.
Global Arguments PSleep {Inp Outp Acc}.
Global Arguments PLinkSleep {Inp Outp Acc}.
Global Arguments PExitWA {Inp Outp Acc}.
Global Arguments PLeaderWA {Inp Outp Acc}.
Global Arguments w_head {T}.
Global Arguments w_tail {T}.
Global Arguments wl_full {T}.
