(* Sync42/ProofsAccept.v — the trace acceptor only ever moves the model by its own steps:
   every accepted trace ends in a state that some schedule of the small-step model reaches.
   Hence whatever Props_C18 proves of all schedules holds of the state an accepted trace ends in. *)
From Coq Require Import NArith Arith List Bool.
From Blue Require Import Sync42.ModelLru Sync42.ModelWaitList Sync42.ModelWcq Sync42.AcceptWcq.
Import ListNotations.
Open Scope nat_scope.

Definition h_run : hg -> list action -> res hg :=
  ModelWcq.run N hout hacc hcore [] h_can_batch h_batch h_work.

Lemma h_run_app : forall s1 s2 g g1,
  h_run g s1 = Ok g1 -> h_run g (s1 ++ s2) = h_run g1 s2.
Proof.
  induction s1 as [|a s1 IH]; intros s2 g g1 H.
  - cbn in H. injection H as ->. reflexivity.
  - cbn [app]. unfold h_run in *. cbn [ModelWcq.run] in *.
    destruct (exec N hout hacc hcore [] h_can_batch h_batch h_work g a) as [g'| | |]; cbn [bind] in *;
      try discriminate.
    exact (IH s2 g' g1 H).
Qed.

Lemma step_chk_sound : forall g t chk g',
  step_chk g t chk = Some g' -> h_run g [ARun t 0] = Ok g'.
Proof.
  intros g t chk g' H. unfold step_chk in H. unfold h_run. cbn [ModelWcq.run exec].
  unfold h_tstep in H.
  destruct (tstep N hout hacc hcore [] h_can_batch h_batch h_work g t 0) as [g1| | |];
    try discriminate.
  destruct (pc_of g1 t) as [p|]; try discriminate.
  destruct (chk g1 p); try discriminate.
  injection H as ->. reflexivity.
Qed.

Lemma spurious_sound : forall g t, h_run g [ASpurious t] = Ok (spurious N hout hacc hcore g t).
Proof. reflexivity. Qed.

Definition reaches (g g' : hg) : Prop := exists sched, h_run g sched = Ok g'.

Lemma reaches_refl : forall g, reaches g g.
Proof. intro g. exists []. reflexivity. Qed.

Lemma reaches_trans : forall g1 g2 g3, reaches g1 g2 -> reaches g2 g3 -> reaches g1 g3.
Proof.
  intros g1 g2 g3 (s1 & H1) (s2 & H2). exists (s1 ++ s2).
  rewrite (h_run_app s1 s2 g1 g2 H1). exact H2.
Qed.

Lemma opt_sound : forall g t chk g', opt (step_chk g t chk) = VStep g' -> reaches g g'.
Proof.
  intros g t chk g' H. unfold opt in H.
  destruct (step_chk g t chk) as [g1|] eqn:E; try discriminate.
  injection H as ->. exists [ARun t 0]. exact (step_chk_sound g t chk g' E).
Qed.

Lemma guard_opt_sound : forall b g t chk g',
  guard b (opt (step_chk g t chk)) = VStep g' -> reaches g g'.
Proof.
  intros b g t chk g' H. unfold guard in H. destruct b; try discriminate.
  exact (opt_sound g t chk g' H).
Qed.

Ltac close_handle :=
  match goal with
  | H : VSkip = VStep _ |- _ => discriminate H
  | H : VSilent = VStep _ |- _ => discriminate H
  | H : VReject = VStep _ |- _ => discriminate H
  | H : guard _ VSkip = VStep _ |- _ => unfold guard in H; destruct_guard H
  | H : opt (step_chk ?g ?t ?c) = VStep ?g' |- reaches ?g ?g' => exact (opt_sound g t c g' H)
  | H : guard ?b (opt (step_chk ?g ?t ?c)) = VStep ?g' |- reaches ?g ?g' =>
      exact (guard_opt_sound b g t c g' H)
  end
with destruct_guard H :=
  match type of H with
  | (if ?b then _ else _) = _ => destruct b; discriminate H
  end.

Lemma handle_sound : forall g e g', handle g e = VStep g' -> reaches g g'.
Proof.
  intros g e g' H. unfold handle in H.
  destruct (pc_of g (e_tid e)) as [p|]; [|discriminate H].
  destruct p; destruct (e_kind e); try discriminate H; try close_handle.
  all: repeat match type of H with
       | (if ?b then _ else _) = _ => destruct b
       | match ?x with _ => _ end = _ => destruct x
       end; try discriminate H; try close_handle.
  all: try (injection H as <-; eexists [ASpurious _]; reflexivity).
  all: try (unfold guard in H;
            match type of H with (if ?b then _ else _) = _ => destruct b; [|discriminate H] end;
            match type of H with
            | opt (step_chk (spurious _ _ _ _ ?g ?t) ?t ?c) = VStep ?g' =>
                apply (reaches_trans g (spurious N hout hacc hcore g t) g');
                [ exists [ASpurious t]; reflexivity | exact (opt_sound _ t c g' H) ]
            end).
  unfold guard in H.
  destruct ((cur =? e_a e) && (tail_of g =? e_c e)); [|discriminate H].
  destruct (cur <? tail_of g); [discriminate H|].
  exact (opt_sound _ _ _ _ H).
Qed.

Lemma accept_event_sound : forall fuel g e g', accept_event fuel g e = Some g' -> reaches g g'.
Proof.
  induction fuel as [|f IH]; intros g e g' H; cbn [accept_event] in H.
  - destruct (handle g e) eqn:E; try discriminate H.
    + injection H as <-. exact (handle_sound g e g0 E).
    + injection H as <-. apply reaches_refl.
  - destruct (handle g e) eqn:E; try discriminate H.
    + injection H as <-. exact (handle_sound g e g0 E).
    + injection H as <-. apply reaches_refl.
    + destruct (h_tstep g (e_tid e) 0) as [g1| | |] eqn:E1; try discriminate H.
      apply (reaches_trans g g1 g').
      * exists [ARun (e_tid e) 0]. unfold h_run. cbn [ModelWcq.run exec].
        unfold h_tstep in E1. rewrite E1. reflexivity.
      * exact (IH g1 e g' H).
Qed.

(* an accepted trace is a run of the model *)
Theorem accept_trace_sound : forall tr g n g',
  accept_trace g n tr = inl g' -> reaches g g'.
Proof.
  induction tr as [|e tr IH]; intros g n g' H; cbn [accept_trace] in H.
  - injection H as <-. apply reaches_refl.
  - destruct (accept_event 2 g e) as [g1|] eqn:E; try discriminate H.
    apply (reaches_trans g g1 g').
    + exact (accept_event_sound 2 g e g1 E).
    + exact (IH g1 (S n) g' H).
Qed.

(* the strict acceptor moves the model state only through the plain one *)
Lemma accept_event_s_sound : forall strict st e st',
  accept_event_s strict st e = Some st' -> reaches (a_g st) (a_g st').
Proof.
  intros strict st e st' H. unfold accept_event_s in H.
  cbv zeta in H.
  match type of H with (match ?p with _ => _ end) = _ => destruct p as [[early waflag]|]; [|discriminate H] end.
  repeat match type of H with (let '(_, _) := ?p in _) = _ => destruct p end.
  destruct (accept_event 2 (a_g st) e) as [g'|] eqn:E; [|discriminate H].
  injection H as <-. cbn [a_g]. exact (accept_event_sound 2 (a_g st) e g' E).
Qed.

Theorem accept_trace_s_sound : forall strict tr st n st',
  accept_trace_s strict st n tr = inl st' -> reaches (a_g st) (a_g st').
Proof.
  induction tr as [|e tr IH]; intros st n st' H; cbn [accept_trace_s] in H.
  - injection H as <-. apply reaches_refl.
  - destruct (accept_event_s strict st e) as [st1|] eqn:E; try discriminate H.
    apply (reaches_trans (a_g st) (a_g st1) (a_g st')).
    + exact (accept_event_s_sound strict st e st1 E).
    + exact (IH st1 (S n) st' H).
Qed.
