(* Sync42/ProofsWcqLive3.v — deadlock freedom of ModelWcq.v: in every state satisfying the safety
   and liveness invariants in which some thread has not finished, some thread can take a step. *)
From Coq Require Import Arith List Bool Lia Sorted.
From Blue Require Import Sync42.ModelLru Sync42.ModelWaitList Sync42.ModelWcq Sync42.ProofsWaitList
  Sync42.ProofsWcqBase Sync42.ProofsWcqInv Sync42.ProofsWcqStep1 Sync42.ProofsWcqStep3
  Sync42.ProofsWcqSafe Sync42.ProofsWcqLive1 Sync42.ProofsWcqLive2.
Import ListNotations.
Open Scope nat_scope.

Local Arguments Nat.modulo : simpl never.
Local Arguments Nat.div : simpl never.

(* ---- implicit type arguments, local to this file (the same block opens every ProofsWcq* file) *)
Local Arguments s_linked {T}. Local Arguments s_value {T}. Local Arguments w_head {T}. Local Arguments w_tail {T}.
Local Arguments w_waiting {T}. Local Arguments w_slots {T}. Local Arguments mkWl {T}. Local Arguments nslots {T}.
Local Arguments slot_at {T}. Local Arguments set_slot {T}. Local Arguments with_head {T}. Local Arguments with_tail {T}.
Local Arguments with_waiting {T}. Local Arguments invariants_ok {T}. Local Arguments wl_full {T}.
Local Arguments Linked {T}. Local Arguments MustWait {T}. Local Arguments wl_link_try {T}. Local Arguments wl_link_wake {T}.
Local Arguments wl_unlink {T}. Local Arguments wl_notify_head {T}. Local Arguments wl_store {T}. Local Arguments wl_load {T}.
Local Arguments wl_is_head {T}. Local Arguments wl_iter_next {T}. Local Arguments live {T}. Local Arguments wl_new {T}.
Local Arguments wl_wf {T}. Local Arguments link_new {T}.
Local Arguments in_live {T}. Local Arguments live_sorted {T}. Local Arguments live_nodup {T}. Local Arguments live_hd {T}.
Local Arguments live_nil_head {T}. Local Arguments slot_at_set_same {T}. Local Arguments slot_at_set_other {T}.
Local Arguments wf_invariants_ok {T}. Local Arguments unlink_spec {T}. Local Arguments link_new_spec {T}.
Local Arguments wl_link_try_unfold {T}. Local Arguments store_spec {T}. Local Arguments nslots_link_new {T}.
Local Arguments wl_wf_split {T}.

Local Arguments PIdle {Inp Outp Acc}. Local Arguments PLinkSleep {Inp Outp Acc}. Local Arguments PEnter {Inp Outp Acc}.
Local Arguments PTest {Inp Outp Acc}. Local Arguments PLoad {Inp Outp Acc}. Local Arguments PWait {Inp Outp Acc}.
Local Arguments PSleep {Inp Outp Acc}. Local Arguments PExitUnlink {Inp Outp Acc}.
Local Arguments PExitWA {Inp Outp Acc}. Local Arguments PExitNotify {Inp Outp Acc}.
Local Arguments PHead {Inp Outp Acc}. Local Arguments PLockCore {Inp Outp Acc}. Local Arguments PBatch {Inp Outp Acc}.
Local Arguments PWork {Inp Outp Acc}. Local Arguments PDist {Inp Outp Acc}. Local Arguments PLeaderLoad {Inp Outp Acc}.
Local Arguments PLeaderUnlink {Inp Outp Acc}. Local Arguments PLeaderWA {Inp Outp Acc}.
Local Arguments PLeaderClear {Inp Outp Acc}. Local Arguments PLeaderNotify {Inp Outp Acc}.
Local Arguments mkThread {Inp Outp Acc}. Local Arguments t_pc {Inp Outp Acc}. Local Arguments t_todo {Inp Outp Acc}.
Local Arguments t_done {Inp Outp Acc}.
Local Arguments mkG {Inp Outp Acc CS}. Local Arguments g_wl {Inp Outp Acc CS}. Local Arguments g_S {Inp Outp Acc CS}.
Local Arguments g_C {Inp Outp Acc CS}. Local Arguments g_dw {Inp Outp Acc CS}. Local Arguments g_core {Inp Outp Acc CS}.
Local Arguments g_threads {Inp Outp Acc CS}. Local Arguments g_links {Inp Outp Acc CS}.
Local Arguments g_seen {Inp Outp Acc CS}. Local Arguments g_batches {Inp Outp Acc CS}.
Local Arguments with_threads {Inp Outp Acc CS}. Local Arguments with_wl {Inp Outp Acc CS}.
Local Arguments with_S {Inp Outp Acc CS}. Local Arguments with_C {Inp Outp Acc CS}.
Local Arguments with_dw {Inp Outp Acc CS}. Local Arguments set_pc {Inp Outp Acc}.
Local Arguments set_thread {Inp Outp Acc CS}. Local Arguments tokenize {Inp Outp Acc}.
Local Arguments wake_nth {Inp Outp Acc}. Local Arguments count_sel {Inp Outp Acc}.
Local Arguments notify_one {Inp Outp Acc}. Local Arguments sleeps_on {Inp Outp Acc}.
Local Arguments sleeps_wa {Inp Outp Acc}. Local Arguments notify_cond {Inp Outp Acc CS}.
Local Arguments notify_wa {Inp Outp Acc CS}.
Local Arguments SOk {Inp Outp Acc CS}. Local Arguments SBlocked {Inp Outp Acc CS}.
Local Arguments SDone {Inp Outp Acc CS}. Local Arguments SPanic {Inp Outp Acc CS}.
Local Arguments after_link {Inp Outp Acc CS}. Local Arguments finish {Inp Outp Acc}.
Local Arguments spurious {Inp Outp Acc CS}. Local Arguments thread_finished {Inp Outp Acc}.
Local Arguments all_finished {Inp Outp Acc CS}.

Section Live3.
  Context {Inp Outp Acc CS : Type}.
  Context {acc0 : Acc} {can_batch : CS -> Acc -> Inp -> bool} {batch : CS -> Acc -> Inp -> CS * Acc}
          {work : CS -> nat -> Acc -> CS * list Outp}.
  Notation pc := (pc Inp Outp Acc).
  Notation thread := (thread Inp Outp Acc).
  Notation gstate := (gstate Inp Outp Acc CS).
  Notation wst := (wstate Inp Outp).
  Notation TSTEP := (tstep Inp Outp Acc CS acc0 can_batch batch work).
  Notation ENABLED := (enabled Inp Outp Acc CS acc0 can_batch batch work).
  Variable progs : list (list Inp).
  Hypothesis work_len : forall cs n acc, n <= length (snd (work cs n acc)).

  (* why a thread cannot move *)
  Inductive stuck (g : gstate) (th : thread) : Prop :=
  | StFinished : thread_finished th = true -> stuck g th
  | StLinkSleep : forall i, t_pc th = PLinkSleep i false -> stuck g th
  | StSleep : forall j, t_pc th = PSleep j false -> stuck g th
  | StNeedS : g_S g <> None ->
      (exists j, t_pc th = PEnter j) \/ (exists j, t_pc th = PSleep j true) \/
      (exists j o, t_pc th = PLeaderClear j o) -> stuck g th
  | StNeedC : g_C g <> None -> forall j, t_pc th = PLockCore j -> stuck g th.

  Lemma enabled_or_stuck : forall (g : gstate) u th,
    Inv progs g -> nth_error (g_threads g) u = Some th -> ENABLED g u = true \/ stuck g th.
  Proof.
    intros g u th HI Hu.
    assert (Hs := tstep_safe (acc0:=acc0) (can_batch:=can_batch) (batch:=batch) progs work_len g u 0 HI). unfold safe_res in Hs.
    unfold enabled.
    destruct (TSTEP g u 0) as [g1 | | |] eqn:E; [left; reflexivity | right | right | destruct Hs].
    - (* SBlocked *)
      unfold tstep in E. rewrite Hu in E.
      destruct (t_pc th) eqn:Hpc.
      + destruct (t_todo th); [discriminate|].
        unfold after_link in E.
        destruct (wl_link_try (g_wl g) (WInput i)) as [[w idx | w] | | |]; discriminate.
      + destruct tok; [|eapply StLinkSleep; exact Hpc].
        unfold after_link in E.
        destruct (wl_link_wake (g_wl g) (WInput i)) as [[w idx | w] | | |]; discriminate.
      + destruct (g_S g) eqn:HS; cbn [free] in E; [|discriminate].
        apply StNeedS; [congruence | left; eauto].
      + destruct (g_dw g); [discriminate|].
        destruct (wl_is_head (g_wl g) idx) as [[|] | | |]; discriminate.
      + destruct (wl_load (g_wl g) idx) as [[|  |] | | |]; discriminate.
      + discriminate.
      + destruct tok; [|eapply StSleep; exact Hpc].
        destruct (g_S g) eqn:HS; cbn [free] in E; [|discriminate].
        apply StNeedS; [congruence | right; left; eauto].
      + destruct (wl_unlink (g_wl g) idx) as [[w [|]] | | |]; discriminate.
      + discriminate.
      + discriminate.
      + destruct (g_dw g); [discriminate|].
        destruct (wl_is_head (g_wl g) idx) as [[|] | | |]; try discriminate.
        destruct (wl_load (g_wl g) idx) as [[|  |] | | |]; discriminate.
      + destruct (g_C g) eqn:HC; cbn [free] in E; [|discriminate].
        eapply StNeedC; [congruence | exact Hpc].
      + destruct (wl_iter_next (g_wl g) cur); [|discriminate].
        destruct (wl_load (g_wl g) cur) as [[inp |  |] | | |]; try discriminate.
        destruct ((taken =? 0) || can_batch (g_core g) acc inp); [|discriminate].
        destruct (batch (g_core g) acc inp). discriminate.
      + destruct (work (g_core g) taken acc). discriminate.
      + destruct rem; [discriminate|].
        destruct (wl_iter_next (g_wl g) cur); [|discriminate].
        destruct outs; discriminate.
      + destruct (wl_load (g_wl g) idx) as [[|  |] | | |]; discriminate.
      + destruct (wl_unlink (g_wl g) idx) as [[w [|]] | | |]; discriminate.
      + discriminate.
      + destruct (g_S g) eqn:HS; cbn [free] in E; [|discriminate].
        apply StNeedS; [congruence | right; right; eauto].
      + discriminate.
    - (* SDone *)
      unfold tstep in E. rewrite Hu in E.
      destruct (t_pc th) eqn:Hpc.
      + destruct (t_todo th) eqn:Htd.
        * apply StFinished. unfold thread_finished. rewrite Hpc, Htd. reflexivity.
        * unfold after_link in E.
          destruct (wl_link_try (g_wl g) (WInput i)) as [[w idx | w] | | |]; discriminate.
      + destruct tok; [|discriminate].
        unfold after_link in E.
        destruct (wl_link_wake (g_wl g) (WInput i)) as [[w idx | w] | | |]; discriminate.
      + destruct (free (g_S g)); discriminate.
      + destruct (g_dw g); [discriminate|].
        destruct (wl_is_head (g_wl g) idx) as [[|] | | |]; discriminate.
      + destruct (wl_load (g_wl g) idx) as [[|  |] | | |]; discriminate.
      + discriminate.
      + destruct tok; [|discriminate]. destruct (free (g_S g)); discriminate.
      + destruct (wl_unlink (g_wl g) idx) as [[w [|]] | | |]; discriminate.
      + discriminate.
      + discriminate.
      + destruct (g_dw g); [discriminate|].
        destruct (wl_is_head (g_wl g) idx) as [[|] | | |]; try discriminate.
        destruct (wl_load (g_wl g) idx) as [[|  |] | | |]; discriminate.
      + destruct (free (g_C g)); discriminate.
      + destruct (wl_iter_next (g_wl g) cur); [|discriminate].
        destruct (wl_load (g_wl g) cur) as [[inp |  |] | | |]; try discriminate.
        destruct ((taken =? 0) || can_batch (g_core g) acc inp); [|discriminate].
        destruct (batch (g_core g) acc inp). discriminate.
      + destruct (work (g_core g) taken acc). discriminate.
      + destruct rem; [discriminate|].
        destruct (wl_iter_next (g_wl g) cur); [|discriminate].
        destruct outs; discriminate.
      + destruct (wl_load (g_wl g) idx) as [[|  |] | | |]; discriminate.
      + destruct (wl_unlink (g_wl g) idx) as [[w [|]] | | |]; discriminate.
      + discriminate.
      + destruct (free (g_S g)); discriminate.
      + discriminate.
  Qed.

  Lemma finished_pc : forall th : thread, thread_finished th = true -> t_pc th = PIdle.
  Proof.
    intros th H. unfold thread_finished in H. destruct (t_pc th); try discriminate. reflexivity.
  Qed.

  (* with S free, a stuck thread is finished or asleep without a token *)
  Lemma stuck_S_free : forall (g : gstate) lo cov ld u th,
    InvR progs g lo cov ld -> g_S g = None -> nth_error (g_threads g) u = Some th -> stuck g th ->
    thread_finished th = true \/ (exists i, t_pc th = PLinkSleep i false) \/
    (exists j, t_pc th = PSleep j false).
  Proof.
    intros g lo cov ld u th H HS Hu Hst.
    destruct Hst as [Hf | i Hp | j Hp | HnS _ | HnC j Hp]; eauto; try congruence.
    exfalso.
    assert (E := lockinv_holder _ _ _ _ _ (i_S _ _ _ _ _ H) Hu ltac:(rewrite Hp; reflexivity)).
    congruence.
  Qed.

  Lemma not_all_finished : forall ths : list thread,
    forallb thread_finished ths = false ->
    exists u th, nth_error ths u = Some th /\ thread_finished th = false.
  Proof.
    induction ths as [|a r IH]; cbn [forallb]; intro Hf; [discriminate|].
    destruct (thread_finished a) eqn:Ea.
    - destruct (IH Hf) as (u & th & Hu & Hth). exists (S u), th. auto.
    - exists 0, a. auto.
  Qed.

  Theorem no_deadlock : forall (g : gstate),
    Inv progs g -> LInv g -> all_finished g = false -> exists t, ENABLED g t = true.
  Proof.
    intros g HI HL Hnf.
    assert (HI' := HI). destruct HI' as (lo & cov & ld & H).
    destruct (g_S g) as [s|] eqn:HS.
    - (* the holder of S can move, or the holder of C can *)
      destruct (proj2 (i_S _ _ _ _ _ H) s HS) as (ths & Hs & HhS).
      destruct (enabled_or_stuck g s ths HI Hs) as [En | Hst]; [eauto|].
      destruct Hst as [Hf | i Hp | j Hp | _ [[j Hp] | [[j Hp] | [j [o Hp]]]] | HnC j Hp];
        try (rewrite Hp in HhS; discriminate).
      + rewrite (finished_pc _ Hf) in HhS. discriminate.
      + destruct (g_C g) as [c'|] eqn:HC; [|congruence].
        destruct (proj2 (i_C _ _ _ _ _ H) c' HC) as (thc & Hc & HhC).
        destruct (enabled_or_stuck g c' thc HI Hc) as [En | Hst]; [eauto|].
        destruct Hst as [Hf | i Hp' | j' Hp' | _ [[j' Hp'] | [[j' Hp'] | [j' [o Hp']]]] | _ j' Hp'];
          try (rewrite Hp' in HhC; discriminate).
        * rewrite (finished_pc _ Hf) in HhC. discriminate.
        * exfalso.
          assert (E : c' = s).
          { eapply lockinv_unique; [apply (i_L _ _ _ _ _ H) | exact Hc | exact Hs | |].
            - rewrite Hp'. reflexivity.
            - rewrite Hp. reflexivity. }
          subst c'. congruence.
    - (* S is free *)
      destruct (existsb (ENABLED g) (seq 0 (length (g_threads g)))) eqn:Hex.
      + apply existsb_exists in Hex. destruct Hex as (t & _ & Ht). eauto.
      + exfalso.
        assert (Hall : forall u th, nth_error (g_threads g) u = Some th ->
                  thread_finished th = true \/ (exists i, t_pc th = PLinkSleep i false) \/
                  (exists j, t_pc th = PSleep j false)).
        { intros u th Hu.
          destruct (enabled_or_stuck g u th HI Hu) as [En | Hst].
          - assert (Hin : In u (seq 0 (length (g_threads g)))).
            { apply in_seq. split; [lia|]. apply nth_error_Some. congruence. }
            assert (Hc : existsb (ENABLED g) (seq 0 (length (g_threads g))) = true).
            { apply existsb_exists. eauto. }
            congruence.
          - eapply stuck_S_free; eassumption. }
        (* nobody is the leader, nobody is on the way to a notify *)
        assert (Hdw : g_dw g = false).
        { rewrite (i_dw _ _ _ _ _ H). destruct ld as [l|]; [|reflexivity]. exfalso.
          destruct (proj2 (i_L _ _ _ _ _ H) l eq_refl) as (thl & Hl & HLP).
          destruct (Hall l thl Hl) as [Hf | [[i Hp] | [j Hp]]];
            [rewrite (finished_pc _ Hf) in HLP | rewrite Hp in HLP | rewrite Hp in HLP]; discriminate. }
        assert (CaseA : forall v thv j, nth_error (g_threads g) v = Some thv ->
                  t_pc thv = PSleep j false -> False).
        { intros v thv j Hv Hpv.
          assert (Hjl : In j (live (g_wl g))).
          { eapply (i_idx_live _ _ _ _ _ H); [exact Hv | rewrite Hpv; reflexivity]. }
          assert (Hhl := head_live progs g lo cov ld j H Hjl).
          destruct (i_live_idx _ _ _ _ _ H _ Hhl) as (x & thx & Hx & Hpx).
          destruct (Hall x thx Hx) as [Hf | [[i Hp] | [j' Hp]]];
            [rewrite (finished_pc _ Hf) in Hpx; discriminate | rewrite Hp in Hpx; discriminate|].
          rewrite Hp in Hpx. cbn [pc_idx] in Hpx. injection Hpx as Ej. subst j'.
          destruct (l_p2 _ HL x thx _ Hx Hp eq_refl) as [Hd | (y & thy & Hy & Hwy)]; [congruence|].
          destruct (Hall y thy Hy) as [Hf | [[i Hp'] | [j' Hp']]];
            [rewrite (finished_pc _ Hf) in Hwy | rewrite Hp' in Hwy | rewrite Hp' in Hwy];
            discriminate. }
        (* some thread is not finished *)
        assert (Hnf' := not_all_finished _ Hnf).
        destruct Hnf' as (u & th & Hu & Hfu).
        destruct (Hall u th Hu) as [Hf | [[i Hp] | [j Hp]]]; [congruence | | eapply CaseA; eassumption].
        (* u sleeps in link; the list is empty *)
        assert (Hlive : live (g_wl g) = []).
        { destruct (live (g_wl g)) as [|a r] eqn:El; [reflexivity | exfalso].
          destruct (i_live_idx _ _ _ _ _ H a ltac:(rewrite El; left; reflexivity)) as (x & thx & Hx & Hpx).
          destruct (Hall x thx Hx) as [Hf | [[i' Hp'] | [j' Hp']]];
            [rewrite (finished_pc _ Hf) in Hpx; discriminate | rewrite Hp' in Hpx; discriminate|].
          eapply CaseA; eassumption. }
        assert (Hwf := i_wf _ _ _ _ _ H).
        assert (Hht := live_nil_head _ Hwf Hlive).
        destruct (wl_wf_split _ Hwf) as [(Hn & _) _].
        assert (Hfull : wl_full (g_wl g) = false).
        { unfold wl_full. apply Nat.leb_gt. lia. }
        destruct (l_p3 _ HL ltac:(exists u, th, i; auto) Hfull) as (y & thy & Hy & Hwy).
        destruct (Hall y thy Hy) as [Hf | [[i' Hp'] | [j' Hp']]].
        * rewrite (finished_pc _ Hf) in Hwy. discriminate.
        * rewrite Hp' in Hwy. discriminate.
        * eapply CaseA; eassumption.
  Qed.
End Live3.
