(* Sync42/ProofsWcq.v — the theorems about the small-step interleaving model ModelWcq.v of
   sync42/src/work_coalescing_queue.rs, for ALL schedules (every interleaving of the threads, every
   resolution of notify_one, spurious wake-ups at any time), any number of threads and calls, any
   ring size n > 0, any core whose `work` returns at least `taken` outputs.
   Safety: no panic; the core sees the inputs exactly once, in link order, in contiguous batches;
   every call returns the output at its own position of the batch that contains it; calls are made
   in program order.  Liveness: no deadlock, no lost wake-up.
   Proofs: ProofsWcqBase (lists, notification), ProofsWcqInv (the invariant), ProofsWcqStep1-3 and
   ProofsWcqSafe (preservation, no panic), ProofsWcqLive1-3 (liveness invariant, deadlock freedom),
   ProofsWcqProg (consequences).  Nothing is assumed beyond the hypothesis on `work`. *)
From Coq Require Import Arith List Bool Lia Permutation.
From Blue Require Import Sync42.ModelLru Sync42.ModelWaitList Sync42.ModelWcq Sync42.ProofsWaitList
  Sync42.ProofsWcqBase Sync42.ProofsWcqInv Sync42.ProofsWcqStep1 Sync42.ProofsWcqSafe
  Sync42.ProofsWcqLive1 Sync42.ProofsWcqLive2 Sync42.ProofsWcqLive3 Sync42.ProofsWcqProg.
Import ListNotations.
Open Scope nat_scope.

Local Arguments Nat.modulo : simpl never.
Local Arguments Nat.div : simpl never.

(* ---- implicit type arguments, local to this file (the same block opens every ProofsWcq* file) *)
Local Arguments s_linked {T}. Local Arguments s_value {T}. Local Arguments w_head {T}. Local Arguments w_tail {T}.
Local Arguments w_waiting {T}. Local Arguments w_slots {T}. Local Arguments mkWl {T}. Local Arguments nslots {T}.
Local Arguments slot_at {T}. Local Arguments set_slot {T}. Local Arguments with_head {T}. Local Arguments with_tail {T}.
Local Arguments with_waiting {T}. Local Arguments invariants_ok {T}. Local Arguments wl_full {T}.
Local Arguments Linked {T}. Local Arguments MustWait {T}. Local Arguments wl_link_try {T}. Local Arguments wl_link_wake {T}.
Local Arguments wl_unlink {T}. Local Arguments wl_notify_head {T}. Local Arguments wl_store {T}. Local Arguments wl_load {T}.
Local Arguments wl_is_head {T}. Local Arguments wl_iter_next {T}. Local Arguments live {T}. Local Arguments wl_new {T}.
Local Arguments wl_wf {T}. Local Arguments link_new {T}.
Local Arguments in_live {T}. Local Arguments live_sorted {T}. Local Arguments live_nodup {T}. Local Arguments live_hd {T}.
Local Arguments live_nil_head {T}. Local Arguments slot_at_set_same {T}. Local Arguments slot_at_set_other {T}.
Local Arguments wf_invariants_ok {T}. Local Arguments unlink_spec {T}. Local Arguments link_new_spec {T}.
Local Arguments wl_link_try_unfold {T}. Local Arguments store_spec {T}. Local Arguments nslots_link_new {T}.
Local Arguments wl_wf_split {T}.

Local Arguments PIdle {Inp Outp Acc}. Local Arguments PLinkSleep {Inp Outp Acc}. Local Arguments PEnter {Inp Outp Acc}.
Local Arguments PTest {Inp Outp Acc}. Local Arguments PLoad {Inp Outp Acc}. Local Arguments PWait {Inp Outp Acc}.
Local Arguments PSleep {Inp Outp Acc}. Local Arguments PExitUnlink {Inp Outp Acc}.
Local Arguments PExitWA {Inp Outp Acc}. Local Arguments PExitNotify {Inp Outp Acc}.
Local Arguments PHead {Inp Outp Acc}. Local Arguments PLockCore {Inp Outp Acc}. Local Arguments PBatch {Inp Outp Acc}.
Local Arguments PWork {Inp Outp Acc}. Local Arguments PDist {Inp Outp Acc}. Local Arguments PLeaderLoad {Inp Outp Acc}.
Local Arguments PLeaderUnlink {Inp Outp Acc}. Local Arguments PLeaderWA {Inp Outp Acc}.
Local Arguments PLeaderClear {Inp Outp Acc}. Local Arguments PLeaderNotify {Inp Outp Acc}.
Local Arguments mkThread {Inp Outp Acc}. Local Arguments t_pc {Inp Outp Acc}. Local Arguments t_todo {Inp Outp Acc}.
Local Arguments t_done {Inp Outp Acc}.
Local Arguments mkG {Inp Outp Acc CS}. Local Arguments g_wl {Inp Outp Acc CS}. Local Arguments g_S {Inp Outp Acc CS}.
Local Arguments g_C {Inp Outp Acc CS}. Local Arguments g_dw {Inp Outp Acc CS}. Local Arguments g_core {Inp Outp Acc CS}.
Local Arguments g_threads {Inp Outp Acc CS}. Local Arguments g_links {Inp Outp Acc CS}.
Local Arguments g_seen {Inp Outp Acc CS}. Local Arguments g_batches {Inp Outp Acc CS}.
Local Arguments with_threads {Inp Outp Acc CS}. Local Arguments with_wl {Inp Outp Acc CS}.
Local Arguments with_S {Inp Outp Acc CS}. Local Arguments with_C {Inp Outp Acc CS}.
Local Arguments with_dw {Inp Outp Acc CS}. Local Arguments set_pc {Inp Outp Acc}.
Local Arguments set_thread {Inp Outp Acc CS}. Local Arguments tokenize {Inp Outp Acc}.
Local Arguments wake_nth {Inp Outp Acc}. Local Arguments count_sel {Inp Outp Acc}.
Local Arguments notify_one {Inp Outp Acc}. Local Arguments sleeps_on {Inp Outp Acc}.
Local Arguments sleeps_wa {Inp Outp Acc}. Local Arguments notify_cond {Inp Outp Acc CS}.
Local Arguments notify_wa {Inp Outp Acc CS}.
Local Arguments SOk {Inp Outp Acc CS}. Local Arguments SBlocked {Inp Outp Acc CS}.
Local Arguments SDone {Inp Outp Acc CS}. Local Arguments SPanic {Inp Outp Acc CS}.
Local Arguments after_link {Inp Outp Acc CS}. Local Arguments finish {Inp Outp Acc}.
Local Arguments spurious {Inp Outp Acc CS}. Local Arguments thread_finished {Inp Outp Acc}.
Local Arguments all_finished {Inp Outp Acc CS}.

Section WcqTheorems.
  Variables Inp Outp Acc CS : Type.
  Variable acc0 : Acc.
  Variable can_batch : CS -> Acc -> Inp -> bool.
  Variable batch : CS -> Acc -> Inp -> CS * Acc.
  Variable work : CS -> nat -> Acc -> CS * list Outp.
  (* the core returns at least `taken` outputs *)
  Hypothesis work_len : forall cs n acc, n <= length (snd (work cs n acc)).

  Notation RUN := (run Inp Outp Acc CS acc0 can_batch batch work).
  Notation INIT := (ginit Inp Outp Acc CS).
  Notation ENABLED := (enabled Inp Outp Acc CS acc0 can_batch batch work).
  Notation gstate := (gstate Inp Outp Acc CS).

  (* every reachable state satisfies both invariants *)
  Lemma run_invariants : forall sched progs (g g' : gstate),
    Inv progs g -> LInv g -> RUN g sched = Ok g' -> Inv progs g' /\ LInv g'.
  Proof.
    induction sched as [|a r IH]; intros progs g g' HI HL Hr; cbn [run] in Hr.
    - injection Hr as <-. auto.
    - destruct (exec_safe (acc0:=acc0) (can_batch:=can_batch) (batch:=batch) progs work_len g a HI)
        as (g1 & E1 & HI1).
      rewrite E1 in Hr. cbn [bind] in Hr.
      apply (IH progs g1 g' HI1); [|exact Hr].
      exact (exec_live (acc0:=acc0) (can_batch:=can_batch) (batch:=batch) (work:=work) progs g g1 a HI HL E1).
  Qed.

  Lemma reachable_invariants : forall n core progs sched g,
    0 < n -> RUN (INIT n core progs) sched = Ok g -> Inv progs g /\ LInv g.
  Proof.
    intros n core progs sched g Hn Hr.
    eapply run_invariants; [apply Inv_init; exact Hn | apply LInv_init | exact Hr].
  Qed.

  (* T1: no schedule makes the queue panic *)
  Theorem wcq_no_panic : forall n core progs sched,
    0 < n -> exists g, RUN (INIT n core progs) sched = Ok g.
  Proof.
    intros n core progs sched Hn.
    destruct (run_safe (acc0:=acc0) (can_batch:=can_batch) (batch:=batch) progs work_len sched
                (INIT n core progs) (Inv_init progs n core Hn)) as (g & E & _).
    exists g. exact E.
  Qed.

  (* T2: the core is handed the linked inputs exactly once, in link (index) order, and the batch
     log covers the handed-over prefix by consecutive non-empty index ranges with enough outputs *)
  Theorem wcq_exactly_once_in_order : forall n core progs sched g,
    0 < n -> RUN (INIT n core progs) sched = Ok g ->
    length (g_seen g) <= length (g_links g) /\
    g_seen g = map snd (firstn (length (g_seen g)) (g_links g)) /\
    exists e, batches_from 0 (g_batches g) = Some e /\ e <= length (g_seen g) /\
      ((forall t th, nth_error (g_threads g) t = Some th -> mid_batch (t_pc th) = false) ->
       e = length (g_seen g)) /\
      (all_finished g = true -> e = length (g_seen g) /\ length (g_seen g) = length (g_links g)).
  Proof.
    intros n core progs sched g Hn Hr.
    destruct (reachable_invariants n core progs sched g Hn Hr) as [HI _].
    apply (inv_exactly_once_in_order progs g HI).
  Qed.

  (* T3: a finished call (ghost index idx) of thread t was linked by t at index idx and returned
     the output at position idx - f of the batch [f, f+k) that contains idx; finished calls have
     distinct indices *)
  Theorem wcq_own_output : forall n core progs sched g,
    0 < n -> RUN (INIT n core progs) sched = Ok g ->
    (forall t th idx o, nth_error (g_threads g) t = Some th -> In (idx, o) (t_done th) ->
       (exists i, nth_error (g_links g) idx = Some (t, i)) /\ designated g idx o) /\
    (forall t1 t2 th1 th2 idx o1 o2,
       nth_error (g_threads g) t1 = Some th1 -> nth_error (g_threads g) t2 = Some th2 ->
       In (idx, o1) (t_done th1) -> In (idx, o2) (t_done th2) -> t1 = t2) /\
    (forall t th, nth_error (g_threads g) t = Some th -> NoDup (map fst (t_done th))).
  Proof.
    intros n core progs sched g Hn Hr.
    destruct (reachable_invariants n core progs sched g Hn Hr) as [HI _].
    apply (inv_own_output progs g HI).
  Qed.

  (* T4: each thread submits its inputs in program order: the inputs linked at the indices of its
     finished calls (oldest first), then the input of the call in progress (if any), then the
     inputs still to be submitted, are its program *)
  Theorem wcq_program_order : forall n core progs sched g,
    0 < n -> RUN (INIT n core progs) sched = Ok g ->
    forall t th, nth_error (g_threads g) t = Some th ->
    exists cur, length cur <= 1 /\
      map (fun io => option_map snd (nth_error (g_links g) (fst io))) (rev (t_done th))
        ++ map Some cur ++ map Some (t_todo th) = map Some (nth t progs []).
  Proof.
    intros n core progs sched g Hn Hr t th Ht.
    destruct (reachable_invariants n core progs sched g Hn Hr) as [HI _].
    apply (inv_program_order progs g t th HI Ht).
  Qed.

  (* T5: when every thread has finished, the core has seen exactly the submitted inputs *)
  Theorem wcq_all_done : forall n core progs sched g,
    0 < n -> RUN (INIT n core progs) sched = Ok g -> all_finished g = true ->
    Permutation (g_seen g) (concat progs).
  Proof.
    intros n core progs sched g Hn Hr Hf.
    destruct (reachable_invariants n core progs sched g Hn Hr) as [HI _].
    apply (inv_all_done progs g HI Hf).
  Qed.

  (* T6: no deadlock (spurious wake-ups are not counted as progress) *)
  Theorem wcq_no_deadlock : forall n core progs sched g,
    0 < n -> RUN (INIT n core progs) sched = Ok g -> all_finished g = false ->
    exists t, ENABLED g t = true.
  Proof.
    intros n core progs sched g Hn Hr Hf.
    destruct (reachable_invariants n core progs sched g Hn Hr) as [HI HL].
    apply (no_deadlock (acc0:=acc0) (can_batch:=can_batch) (batch:=batch) progs work_len g HI HL Hf).
  Qed.

  (* T7: no lost wake-up.  (a) a head waiter asleep without a notification has a notifier on the
     way (or the leader is still working and will notify);  (b) a linker asleep without a
     notification while the ring has room has somebody on the way to notify it *)
  Theorem wcq_no_lost_wakeup : forall n core progs sched g,
    0 < n -> RUN (INIT n core progs) sched = Ok g ->
    (forall t th idx, nth_error (g_threads g) t = Some th -> t_pc th = PSleep idx false ->
       w_head (g_wl g) = idx ->
       g_dw g = true \/
       exists t' th', nth_error (g_threads g) t' = Some th' /\ will_notify_head (t_pc th') = true) /\
    ((exists t th i, nth_error (g_threads g) t = Some th /\ t_pc th = PLinkSleep i false) ->
     wl_full (g_wl g) = false ->
     exists t' th', nth_error (g_threads g) t' = Some th' /\
       ((exists idx, pc_idx (t_pc th') = Some idx) \/
        (exists idx o, t_pc th' = PExitWA idx o) \/ (exists idx o, t_pc th' = PLeaderWA idx o) \/
        (exists i, t_pc th' = PLinkSleep i true))).
  Proof.
    intros n core progs sched g Hn Hr.
    destruct (reachable_invariants n core progs sched g Hn Hr) as [HI HL].
    split.
    - intros t th idx Ht Hp Hh. exact (l_p2 g HL t th idx Ht Hp Hh).
    - intros Hsl Hfull. destruct (l_p3 g HL Hsl Hfull) as (t' & th' & Ht' & Hw).
      exists t', th'. split; [exact Ht'|].
      destruct (t_pc th') as [| i [|] | | | | | j b | | | | | | | | | | | | | ]; cbn in Hw;
        try discriminate; try (left; eexists; reflexivity); eauto 8.
  Qed.
End WcqTheorems.

(* The hypothesis on the core is satisfiable: a core that batches everything and answers each
   input with its batch size.  A concrete run of two threads (ring of one slot, so the second
   link must wait) reaches a finished state, and the theorems apply to it. *)
Definition ex_work (cs : unit) (n : nat) (acc : list nat) : unit * list nat := (tt, repeat n n).

Lemma ex_work_len : forall cs n acc, n <= length (snd (ex_work cs n acc)).
Proof. intros cs n acc. unfold ex_work. cbn [snd]. rewrite repeat_length. apply le_n. Qed.

Example ex_no_deadlock : forall n progs sched g,
  0 < n ->
  run nat nat (list nat) unit [] (fun _ _ _ => true) (fun cs acc i => (cs, acc ++ [i])) ex_work
      (ginit nat nat (list nat) unit n tt progs) sched = Ok g ->
  all_finished g = false ->
  exists t, enabled nat nat (list nat) unit [] (fun _ _ _ => true)
              (fun cs acc i => (cs, acc ++ [i])) ex_work g t = true.
Proof.
  intros n progs sched g. apply (wcq_no_deadlock nat nat (list nat) unit [] _ _ ex_work ex_work_len).
Qed.

Example ex_run_finishes :
  match run nat nat (list nat) unit [] (fun _ _ _ => true) (fun cs acc i => (cs, acc ++ [i])) ex_work
            (ginit nat nat (list nat) unit 1 tt [[7; 8]; [9]])
            (concat (repeat [ARun 0 0; ARun 1 0] 60)) with
  | Ok g => all_finished g = true /\ g_seen g = [7; 9; 8] /\
            g_batches g = [(0, 1, [1]); (1, 1, [1]); (2, 1, [1])] /\
            map t_done (g_threads g) = [[(2, 1); (0, 1)]; [(1, 1)]]
  | _ => False
  end.
Proof. vm_compute. repeat split. Qed.
