(* Sync42/ProofsWcqStep2.v — preservation of the invariant by the steps that link, block in link,
   and unlink. *)
From Coq Require Import Arith List Bool Lia Sorted.
From Blue Require Import Sync42.ModelLru Sync42.ModelWaitList Sync42.ModelWcq Sync42.ProofsWaitList
  Sync42.ProofsWcqBase Sync42.ProofsWcqInv Sync42.ProofsWcqStep1.
Import ListNotations.
Open Scope nat_scope.

Local Arguments Nat.modulo : simpl never.
Local Arguments Nat.div : simpl never.

(* ---- implicit type arguments, local to this file (the same block opens every ProofsWcq* file) *)
Local Arguments s_linked {T}. Local Arguments s_value {T}. Local Arguments w_head {T}. Local Arguments w_tail {T}.
Local Arguments w_waiting {T}. Local Arguments w_slots {T}. Local Arguments mkWl {T}. Local Arguments nslots {T}.
Local Arguments slot_at {T}. Local Arguments set_slot {T}. Local Arguments with_head {T}. Local Arguments with_tail {T}.
Local Arguments with_waiting {T}. Local Arguments invariants_ok {T}. Local Arguments wl_full {T}.
Local Arguments Linked {T}. Local Arguments MustWait {T}. Local Arguments wl_link_try {T}. Local Arguments wl_link_wake {T}.
Local Arguments wl_unlink {T}. Local Arguments wl_notify_head {T}. Local Arguments wl_store {T}. Local Arguments wl_load {T}.
Local Arguments wl_is_head {T}. Local Arguments wl_iter_next {T}. Local Arguments live {T}. Local Arguments wl_new {T}.
Local Arguments wl_wf {T}. Local Arguments link_new {T}.
Local Arguments in_live {T}. Local Arguments live_sorted {T}. Local Arguments live_nodup {T}. Local Arguments live_hd {T}.
Local Arguments live_nil_head {T}. Local Arguments slot_at_set_same {T}. Local Arguments slot_at_set_other {T}.
Local Arguments wf_invariants_ok {T}. Local Arguments unlink_spec {T}. Local Arguments link_new_spec {T}.
Local Arguments wl_link_try_unfold {T}. Local Arguments store_spec {T}. Local Arguments nslots_link_new {T}.
Local Arguments wl_wf_split {T}.

Local Arguments PIdle {Inp Outp Acc}. Local Arguments PLinkSleep {Inp Outp Acc}. Local Arguments PEnter {Inp Outp Acc}.
Local Arguments PTest {Inp Outp Acc}. Local Arguments PLoad {Inp Outp Acc}. Local Arguments PWait {Inp Outp Acc}.
Local Arguments PSleep {Inp Outp Acc}. Local Arguments PExitUnlink {Inp Outp Acc}.
Local Arguments PExitWA {Inp Outp Acc}. Local Arguments PExitNotify {Inp Outp Acc}.
Local Arguments PHead {Inp Outp Acc}. Local Arguments PLockCore {Inp Outp Acc}. Local Arguments PBatch {Inp Outp Acc}.
Local Arguments PWork {Inp Outp Acc}. Local Arguments PDist {Inp Outp Acc}. Local Arguments PLeaderLoad {Inp Outp Acc}.
Local Arguments PLeaderUnlink {Inp Outp Acc}. Local Arguments PLeaderWA {Inp Outp Acc}.
Local Arguments PLeaderClear {Inp Outp Acc}. Local Arguments PLeaderNotify {Inp Outp Acc}.
Local Arguments mkThread {Inp Outp Acc}. Local Arguments t_pc {Inp Outp Acc}. Local Arguments t_todo {Inp Outp Acc}.
Local Arguments t_done {Inp Outp Acc}.
Local Arguments mkG {Inp Outp Acc CS}. Local Arguments g_wl {Inp Outp Acc CS}. Local Arguments g_S {Inp Outp Acc CS}.
Local Arguments g_C {Inp Outp Acc CS}. Local Arguments g_dw {Inp Outp Acc CS}. Local Arguments g_core {Inp Outp Acc CS}.
Local Arguments g_threads {Inp Outp Acc CS}. Local Arguments g_links {Inp Outp Acc CS}.
Local Arguments g_seen {Inp Outp Acc CS}. Local Arguments g_batches {Inp Outp Acc CS}.
Local Arguments with_threads {Inp Outp Acc CS}. Local Arguments with_wl {Inp Outp Acc CS}.
Local Arguments with_S {Inp Outp Acc CS}. Local Arguments with_C {Inp Outp Acc CS}.
Local Arguments with_dw {Inp Outp Acc CS}. Local Arguments set_pc {Inp Outp Acc}.
Local Arguments set_thread {Inp Outp Acc CS}. Local Arguments tokenize {Inp Outp Acc}.
Local Arguments wake_nth {Inp Outp Acc}. Local Arguments count_sel {Inp Outp Acc}.
Local Arguments notify_one {Inp Outp Acc}. Local Arguments sleeps_on {Inp Outp Acc}.
Local Arguments sleeps_wa {Inp Outp Acc}. Local Arguments notify_cond {Inp Outp Acc CS}.
Local Arguments notify_wa {Inp Outp Acc CS}.
Local Arguments SOk {Inp Outp Acc CS}. Local Arguments SBlocked {Inp Outp Acc CS}.
Local Arguments SDone {Inp Outp Acc CS}. Local Arguments SPanic {Inp Outp Acc CS}.
Local Arguments after_link {Inp Outp Acc CS}. Local Arguments finish {Inp Outp Acc}.
Local Arguments spurious {Inp Outp Acc CS}. Local Arguments thread_finished {Inp Outp Acc}.
Local Arguments all_finished {Inp Outp Acc CS}.

Lemma in_filter_neq : forall (l : list nat) i j,
  In j (filter (fun x => negb (x =? i)) l) <-> (In j l /\ j <> i).
Proof.
  intros l i j. rewrite filter_In, negb_true_iff, Nat.eqb_neq. tauto.
Qed.

Section Step2.
  Context {Inp Outp Acc CS : Type}.
  Notation pc := (pc Inp Outp Acc).
  Notation thread := (thread Inp Outp Acc).
  Notation gstate := (gstate Inp Outp Acc CS).
  Notation wst := (wstate Inp Outp).
  Variable progs : list (list Inp).

  Lemma gidx_none_cases : forall p : pc, pc_gidx p = None ->
    pc_idx p = None /\ holdsS p = false /\ holdsC p = false /\ inLP p = false.
  Proof. intros p H. destruct p; cbn in *; try discriminate; auto. Qed.

  (* ---- a successful link *)
  Lemma InvR_link : forall (g : gstate) lo cov ld t th nw i th',
    InvR progs g lo cov ld -> nth_error (g_threads g) t = Some th ->
    pc_gidx (t_pc th) = None -> wl_full (g_wl g) = false ->
    nw + (if is_ls (t_pc th) then 1 else 0) = w_waiting (g_wl g) ->
    pend (t_pc th) ++ t_todo th = i :: t_todo th' -> t_done th' = t_done th ->
    t_pc th' = PEnter (w_tail (g_wl g)) ->
    InvR progs (mkG (link_new (with_waiting (g_wl g) nw) (WInput i)) (g_S g) (g_C g) (g_dw g)
                    (g_core g) (upd t th' (g_threads g)) (g_links g ++ [(t, i)]) (g_seen g)
                    (g_batches g)) lo cov ld.
  Proof.
    intros g lo cov ld t th nw i th' H Ht Hgidx Hfull Hnw Htodo Hdone Hpc'.
    destruct (gidx_none_cases _ Hgidx) as (Hidx & HhS & HhC & HhL).
    assert (H' := H). destruct H'.
    set (w := g_wl g) in *. set (w1 := with_waiting w nw).
    assert (Hwf1 : wl_wf w1) by exact i_wf.
    assert (Hfull1 : wl_full w1 = false) by exact Hfull.
    destruct (link_new_spec w1 (WInput i) Hwf1 Hfull1) as (Hwf' & Hlive' & Hnew & Hold).
    set (w' := link_new w1 (WInput i)) in *.
    change (live w1) with (live w) in Hlive'. change (w_tail w1) with (w_tail w) in *.
    change (w_head w1) with (w_head w) in Hold.
    assert (Hold' : forall j, w_head w <= j < w_tail w -> slot_at w' j = slot_at w j)
      by (intros j Hj; rewrite Hold by exact Hj; reflexivity).
    assert (Htail' : w_tail w' = S (w_tail w)) by reflexivity.
    assert (Hhead' : w_head w' = w_head w) by reflexivity.
    assert (Hwait' : w_waiting w' = nw) by reflexivity.
    assert (Hlive_old : forall j, In j (live w) -> w_head w <= j < w_tail w)
      by (intros j Hj; apply in_live in Hj; tauto).
    assert (Hpc'ls : is_ls (t_pc th') = false) by (rewrite Hpc'; reflexivity).
    constructor; gproj.
    - exact Hwf'.
    - rewrite app_length, Htail'. cbn [length]. lia.
    - rewrite Htail'. lia.
    - rewrite firstn_app_le by lia. exact i_seen.
    - exact i_lo.
    - exact i_cov.
    - intros j Hj. rewrite Hlive'. apply in_or_app. rewrite Htail' in Hj.
      destruct (Nat.eq_dec j (w_tail w)) as [E | E]; [right; left; auto|].
      left. apply i_live_hi. lia.
    - intros j Hj. rewrite Htail' in Hj.
      destruct (Nat.eq_dec j (w_tail w)) as [E | E].
      + subst j. exists t, i. split.
        * rewrite <- i_links_len. apply nth_error_app_len.
        * rewrite Hnew. reflexivity.
      + assert (Hjl : In j (live w)) by (apply i_live_hi; lia).
        destruct (i_input j ltac:(lia)) as (t0 & inp & E1 & E2).
        exists t0, inp. split; [apply nth_error_app_l; exact E1|].
        rewrite Hold' by (apply Hlive_old; exact Hjl). exact E2.
    - intros j Hj. assert (Hjl : In j (live w)) by (apply i_live_hi; lia).
      rewrite Hold' by (apply Hlive_old; exact Hjl). apply i_stolen. exact Hj.
    - intros j Hj Hlt. rewrite Hlive' in Hj. apply in_app_or in Hj.
      destruct Hj as [Hj | [Hj | []]]; [|lia].
      rewrite Hold' by (apply Hlive_old; exact Hj). apply i_output; assumption.
    - exact i_batches.
    - rewrite Hwait'.
      assert (E := count_sel_upd is_ls t th th' (g_threads g) Ht). rewrite Hpc'ls in E. lia.
    - eapply lockinv_upd_keep; [exact i_S | exact Ht | rewrite Hpc'; cbn [holdsS]; congruence].
    - eapply lockinv_upd_keep; [exact i_C | exact Ht | rewrite Hpc'; cbn [holdsC]; congruence].
    - eapply lockinv_upd_keep; [exact i_L | exact Ht | rewrite Hpc'; cbn [inLP]; congruence].
    - exact i_dw.
    - exact i_noleader.
    - intros u thu j Hu Hp. rewrite Hlive'. apply in_or_app. upd_inv Ht Hu Hne.
      + rewrite Hpc' in Hp. cbn [pc_idx] in Hp. injection Hp as E. right. left. exact E.
      + left. eapply i_idx_live; eassumption.
    - intros j Hj. rewrite Hlive' in Hj. apply in_app_or in Hj. destruct Hj as [Hj | [Hj | []]].
      + destruct (i_live_idx j Hj) as (u & thu & Hu & Hp).
        assert (u <> t) by (intro E; subst u; congruence).
        exists u, thu. split; [rewrite nth_error_upd_other by congruence; exact Hu | exact Hp].
      + exists t, th'. split; [eapply nth_error_upd_same; exact Ht|].
        rewrite Hpc'. cbn [pc_idx]. congruence.
    - intros u thu Hu. rewrite owned_from_snoc. cbn [Nat.add]. upd_inv Ht Hu Hne.
      + rewrite Nat.eqb_refl, Hdone, Hpc'. cbn [pc_gidx olist].
        rewrite <- (i_own t th Ht), Hgidx. cbn [olist]. rewrite app_nil_r, i_links_len. reflexivity.
      + destruct (Nat.eqb_spec t u) as [E | E]; [congruence|]. rewrite app_nil_r.
        apply i_own. exact Hu.
    - intros u thu Hu. rewrite Hhead'. upd_inv Ht Hu Hne.
      + rewrite Hpc'. exact I.
      + eapply i_tinv; eassumption.
    - intros u thu j o Hu Hin. upd_inv Ht Hu Hne.
      + rewrite Hdone in Hin. eapply i_done; eassumption.
      + eapply i_done; eassumption.
    - intros u thu Hu. rewrite filter_app, map_app. cbn [filter fst]. upd_inv Ht Hu Hne.
      + rewrite Nat.eqb_refl, Hpc'. cbn [map snd pend app].
        rewrite <- app_assoc. cbn [app]. rewrite <- Htodo. apply i_prog. exact Ht.
      + destruct (Nat.eqb_spec t u) as [E | E]; [congruence|]. cbn [map]. rewrite app_nil_r.
        apply i_prog. exact Hu.
    - rewrite upd_length. exact i_nthreads.
    - intros j u inp Hl. rewrite upd_length.
      destruct (lt_dec j (length (g_links g))) as [L | L].
      + rewrite nth_error_app1 in Hl by exact L. eapply i_links_thr; exact Hl.
      + rewrite nth_error_app2 in Hl by lia.
        destruct (j - length (g_links g)) as [|k]; [|destruct k; discriminate].
        injection Hl as E1 E2. subst u. apply nth_error_Some. congruence.
  Qed.

  (* ---- a link that must wait *)
  Lemma InvR_mustwait : forall (g : gstate) lo cov ld t th nw i th',
    InvR progs g lo cov ld -> nth_error (g_threads g) t = Some th ->
    pc_gidx (t_pc th) = None ->
    nw + (if is_ls (t_pc th) then 1 else 0) = S (w_waiting (g_wl g)) ->
    pend (t_pc th) ++ t_todo th = i :: t_todo th' -> t_done th' = t_done th ->
    t_pc th' = PLinkSleep i false ->
    InvR progs (mkG (with_waiting (g_wl g) nw) (g_S g) (g_C g) (g_dw g)
                    (g_core g) (upd t th' (g_threads g)) (g_links g) (g_seen g)
                    (g_batches g)) lo cov ld.
  Proof.
    intros g lo cov ld t th nw i th' H Ht Hgidx Hnw Htodo Hdone Hpc'.
    destruct (gidx_none_cases _ Hgidx) as (Hidx & HhS & HhC & HhL).
    destruct H.
    constructor; gproj; try assumption.
    - cbn [with_waiting w_waiting].
      assert (E := count_sel_upd is_ls t th th' (g_threads g) Ht).
      rewrite Hpc' in E. cbn [is_ls] in E. lia.
    - eapply lockinv_upd_keep; [exact i_S | exact Ht | rewrite Hpc'; cbn [holdsS]; congruence].
    - eapply lockinv_upd_keep; [exact i_C | exact Ht | rewrite Hpc'; cbn [holdsC]; congruence].
    - eapply lockinv_upd_keep; [exact i_L | exact Ht | rewrite Hpc'; cbn [inLP]; congruence].
    - intros u thu j Hu Hp. change (live (with_waiting (g_wl g) nw)) with (live (g_wl g)).
      upd_inv Ht Hu Hne.
      + rewrite Hpc' in Hp. discriminate.
      + eapply i_idx_live; eassumption.
    - intros j Hj. change (live (with_waiting (g_wl g) nw)) with (live (g_wl g)) in Hj.
      destruct (i_live_idx j Hj) as (u & thu & Hu & Hp).
      assert (u <> t) by (intro E; subst u; congruence).
      exists u, thu. split; [rewrite nth_error_upd_other by congruence; exact Hu | exact Hp].
    - intros u thu Hu. upd_inv Ht Hu Hne.
      + rewrite Hdone, Hpc'. cbn [pc_gidx]. rewrite <- (i_own t th Ht), Hgidx. reflexivity.
      + apply i_own. exact Hu.
    - intros u thu Hu. change (w_head (with_waiting (g_wl g) nw)) with (w_head (g_wl g)).
      upd_inv Ht Hu Hne.
      + rewrite Hpc'. exact I.
      + eapply i_tinv; eassumption.
    - intros u thu j o Hu Hin. upd_inv Ht Hu Hne.
      + rewrite Hdone in Hin. eapply i_done; eassumption.
      + eapply i_done; eassumption.
    - intros u thu Hu. upd_inv Ht Hu Hne.
      + rewrite Hpc'. cbn [pend app]. rewrite <- Htodo. apply i_prog. exact Ht.
      + apply i_prog. exact Hu.
    - rewrite upd_length. exact i_nthreads.
    - intros j u inp Hl. rewrite upd_length. eapply i_links_thr; exact Hl.
  Qed.

  (* ---- unlink of a waiter whose cell holds an output *)
  Lemma InvR_unlink : forall (g : gstate) lo cov ld t th idx p' w',
    InvR progs g lo cov ld -> nth_error (g_threads g) t = Some th ->
    pc_idx (t_pc th) = Some idx -> idx < lo ->
    pc_idx p' = None -> pc_gidx p' = Some idx ->
    holdsS p' = holdsS (t_pc th) -> holdsC p' = holdsC (t_pc th) -> inLP p' = inLP (t_pc th) ->
    is_ls p' = is_ls (t_pc th) -> pend p' = pend (t_pc th) ->
    wl_wf w' -> w_tail w' = w_tail (g_wl g) -> w_waiting w' = w_waiting (g_wl g) ->
    live w' = filter (fun j => negb (j =? idx)) (live (g_wl g)) ->
    (forall j, In j (live w') -> slot_at w' j = slot_at (g_wl g) j) ->
    (idx <> w_head (g_wl g) -> w_head w' = w_head (g_wl g)) ->
    tinv (w_head w') (g_dw g) (length (g_seen g)) (g_batches g) lo cov p' ->
    InvR progs (mkG w' (g_S g) (g_C g) (g_dw g) (g_core g)
                    (upd t (set_pc th p') (g_threads g)) (g_links g) (g_seen g) (g_batches g))
         lo cov ld.
  Proof.
    intros g lo cov ld t th idx p' w' H Ht Hidx Hlt Hidx' Hgidx' ES EC EL Els Epend
           Hwf' Htail' Hwait' Hlive' Hslot' Hhead' Htinv'.
    assert (Hgidx := pc_idx_gidx _ _ Hidx).
    assert (Huniq : forall u thu j, nth_error (g_threads g) u = Some thu -> u <> t ->
                      pc_idx (t_pc thu) = Some j -> j <> idx).
    { intros u thu j Hu Hne Hj E. subst j. apply Hne.
      eapply (own_unique progs g lo cov ld u t thu th idx H Hu Ht);
        [apply pc_idx_gidx; exact Hj | exact Hgidx]. }
    destruct H.
    constructor; gproj; try assumption.
    - congruence.
    - congruence.
    - intros j Hj. rewrite Htail' in Hj. rewrite Hlive'. apply in_filter_neq.
      split; [apply i_live_hi; exact Hj | lia].
    - intros j Hj. rewrite Htail' in Hj.
      assert (Hjl : In j (live w')).
      { rewrite Hlive'. apply in_filter_neq. split; [apply i_live_hi; lia | lia]. }
      rewrite Hslot' by exact Hjl. apply i_input. exact Hj.
    - intros j Hj.
      assert (Hjl : In j (live w')).
      { rewrite Hlive'. apply in_filter_neq. split; [apply i_live_hi; lia | lia]. }
      rewrite Hslot' by exact Hjl. apply i_stolen. exact Hj.
    - intros j Hj Hjlo. rewrite Hslot' by exact Hj.
      rewrite Hlive' in Hj. apply in_filter_neq in Hj. apply i_output; tauto.
    - rewrite Hwait'.
      assert (E := count_sel_upd is_ls t th (set_pc th p') (g_threads g) Ht).
      cbn [set_pc t_pc] in E. rewrite Els in E. lia.
    - eapply lockinv_upd_keep; [exact i_S | exact Ht | exact ES].
    - eapply lockinv_upd_keep; [exact i_C | exact Ht | exact EC].
    - eapply lockinv_upd_keep; [exact i_L | exact Ht | exact EL].
    - intros u thu j Hu Hp. upd_inv Ht Hu Hne.
      + cbn [set_pc t_pc] in Hp. congruence.
      + rewrite Hlive'. apply in_filter_neq.
        split; [eapply i_idx_live; eassumption | eapply Huniq; eassumption].
    - intros j Hj. rewrite Hlive' in Hj. apply in_filter_neq in Hj. destruct Hj as [Hj Hne].
      destruct (i_live_idx j Hj) as (u & thu & Hu & Hp).
      assert (u <> t).
      { intro E; subst u. assert (thu = th) by congruence. subst thu. congruence. }
      exists u, thu. split; [rewrite nth_error_upd_other by congruence; exact Hu | exact Hp].
    - intros u thu Hu. upd_inv Ht Hu Hne.
      + cbn [set_pc t_pc t_done]. rewrite Hgidx', <- Hgidx. apply i_own. exact Ht.
      + apply i_own. exact Hu.
    - intros u thu Hu. upd_inv Ht Hu Hne.
      + exact Htinv'.
      + destruct (Nat.eq_dec idx (w_head (g_wl g))) as [E | E].
        * eapply tinv_hd_change; [eapply i_tinv; exact Hu|].
          intros j Hj. rewrite <- E. eapply Huniq; eassumption.
        * rewrite (Hhead' E). eapply i_tinv; exact Hu.
    - intros u thu j o Hu Hin. upd_inv Ht Hu Hne.
      + cbn [set_pc t_done] in Hin. eapply i_done; eassumption.
      + eapply i_done; eassumption.
    - intros u thu Hu. upd_inv Ht Hu Hne.
      + cbn [set_pc t_pc t_todo]. rewrite Epend. apply i_prog. exact Ht.
      + apply i_prog. exact Hu.
    - rewrite upd_length. exact i_nthreads.
    - intros j u inp Hl. rewrite upd_length. eapply i_links_thr; exact Hl.
  Qed.
End Step2.
