(* Sync42/ProofsLru2.v — the representation invariant of the LRU model (with the node list explicit)
   and its preservation by the pointer-level operations. *)
From Coq Require Import NArith PeanoNat List Bool Lia Permutation.
From Blue Require Import Sync42.ModelLru Sync42.ProofsLru1.
Import ListNotations.
Open Scope N_scope.
#[local] Arguments N.add : simpl never.
#[local] Arguments N.sub : simpl never.
#[local] Arguments N.mul : simpl never.
#[local] Arguments N.div : simpl never.
#[local] Arguments N.modulo : simpl never.
#[local] Arguments N.leb : simpl never.
#[local] Arguments N.ltb : simpl never.
#[local] Arguments N.eqb : simpl never.

Section Ops.
  Variables K V : Type.
  Variable keqb : K -> K -> bool.
  Variable vsize : V -> N.
  Hypothesis keqb_spec : forall a b, keqb a b = true <-> a = b.

  #[local] Arguments hget {K V}.
  #[local] Arguments hset {K V}.
  #[local] Arguments hfree {K V}.
  #[local] Arguments hupd {K V}.
  #[local] Arguments rd {K V}.
  #[local] Arguments wr {K V}.
  #[local] Arguments n_next {K V}.
  #[local] Arguments n_prev {K V}.
  #[local] Arguments n_key {K V}.
  #[local] Arguments n_val {K V}.
  #[local] Arguments set_next {K V}.
  #[local] Arguments set_prev {K V}.
  #[local] Arguments set_val {K V}.
  #[local] Arguments kget {K}.
  #[local] Arguments kremove {K}.
  #[local] Arguments mkState {K V}.
  #[local] Arguments st_size {K V}.
  #[local] Arguments st_head {K V}.
  #[local] Arguments st_tail {K V}.
  #[local] Arguments st_keys {K V}.
  #[local] Arguments st_heap {K V}.
  #[local] Arguments st_fresh {K V}.
  #[local] Arguments with_heap {K V}.
  #[local] Arguments with_head {K V}.
  #[local] Arguments with_tail {K V}.
  #[local] Arguments with_size {K V}.
  #[local] Arguments with_keys {K V}.
  #[local] Arguments move_lru_to_front {K V}.
  #[local] Arguments move_lru_to_back {K V}.
  #[local] Arguments remove_lru {K V}.
  #[local] Arguments insert_helper {K V}.
  #[local] Arguments evict {K V}.
  #[local] Arguments insert {K V}.
  #[local] Arguments insert_no_evict {K V}.
  #[local] Arguments node_new {K V}.
  #[local] Arguments approximate_size {K V}.
  #[local] Arguments remove {K V}.
  #[local] Arguments lookup {K V}.
  #[local] Arguments pop {K V}.
  #[local] Arguments step {K V}.
  #[local] Arguments s_evict {K V}.
  #[local] Arguments s_step {K V}.
  #[local] Arguments total {K V}.
  #[local] Arguments s_find {K V}.
  #[local] Arguments s_del {K V}.
  #[local] Arguments s_evict_n {K V}.
  #[local] Arguments eadr {K V}.
  #[local] Arguments ekey {K V}.
  #[local] Arguments evl {K V}.
  #[local] Arguments chain {K V}.

  #[local] Arguments hget_hset {K V}.
  #[local] Arguments map_fst_hset {K V}.
  #[local] Arguments hget_none {K V}.
  #[local] Arguments hget_in {K V}.
  #[local] Arguments hget_hfree {K V}.
  #[local] Arguments in_hfree {K V}.
  #[local] Arguments nodup_hfree {K V}.
  #[local] Arguments hget_hupd {K V}.
  #[local] Arguments map_fst_hupd {K V}.
  #[local] Arguments rd_ok {K V}.
  #[local] Arguments wr_ok {K V}.
  #[local] Arguments chain_app {K V}.
  #[local] Arguments chain_frame {K V}.
  #[local] Arguments chain_get {K V}.
  #[local] Arguments chain_set_last {K V}.
  #[local] Arguments chain_set_first {K V}.
  #[local] Arguments unlink_spec {K V}.

  Ltac eqb_false H := rewrite (proj2 (N.eqb_neq _ _) H); cbv iota.
  Ltac eqb_true := rewrite N.eqb_refl; cbv iota.

  (* ---------------------------------------------------------------- the key map *)
  Lemma keqb_refl k : keqb k k = true.
  Proof. apply keqb_spec. reflexivity. Qed.

  Lemma kget_some (m : kmap K) k p : kget keqb m k = Some p -> In (k, p) m.
  Proof.
    induction m as [|[k' p'] r IH]; cbn [kget In]; [discriminate|].
    destruct (keqb k' k) eqn:E.
    - intros [= ->]. apply keqb_spec in E. subst k'. left. reflexivity.
    - intros H. right. apply IH. exact H.
  Qed.

  Lemma kget_none (m : kmap K) k : kget keqb m k = None -> ~ In k (map fst m).
  Proof.
    induction m as [|[k' p'] r IH]; cbn [kget map fst In]; [tauto|].
    destruct (keqb k' k) eqn:E; [discriminate|].
    intros H [E1|H1].
    - subst k'. rewrite keqb_refl in E. discriminate.
    - exact (IH H H1).
  Qed.

  Lemma in_kremove (m : kmap K) k k' p' :
    NoDup (map fst m) -> (In (k', p') (kremove keqb m k) <-> In (k', p') m /\ k' <> k).
  Proof.
    induction m as [|[k0 p0] r IH]; cbn [kremove map fst In]; intros ND; [tauto|].
    apply NoDup_cons_iff in ND. destruct ND as [Hn ND].
    destruct (keqb k0 k) eqn:E.
    - apply keqb_spec in E. subst k0. split.
      + intros H. split; [right; exact H|]. intros ->. apply Hn.
        apply in_map_iff. exists (k, p'). split; [reflexivity|exact H].
      + intros [[H|H] Hne]; [inversion H; congruence|exact H].
    - cbn [In]. rewrite (IH ND). split.
      + intros [H|[H1 H2]]; [|tauto]. inversion H; subst k0 p0.
        split; [left; reflexivity|]. intros ->. rewrite keqb_refl in E. discriminate.
      + intros [[H|H] Hne]; [left; exact H|right; tauto].
  Qed.

  Lemma nodup_kremove (m : kmap K) k : NoDup (map fst m) -> NoDup (map fst (kremove keqb m k)).
  Proof.
    induction m as [|[k0 p0] r IH]; cbn [kremove map fst]; intros ND; [constructor|].
    apply NoDup_cons_iff in ND. destruct ND as [Hn ND].
    destruct (keqb k0 k); [exact ND|].
    cbn [map fst]. constructor; [|apply IH; exact ND].
    intros H. apply in_map_iff in H. destruct H as ([k1 p1] & E1 & H). cbn [fst] in E1. subst k1.
    apply (in_kremove r k k0 p1 ND) in H. destruct H as [H _].
    apply Hn. apply in_map_iff. exists (k0, p1). split; [reflexivity|exact H].
  Qed.

  (* ---------------------------------------------------------------- the specification *)
  Lemma total_nil : @total K V vsize [] = 0.
  Proof. reflexivity. Qed.

  Lemma total_cons (e : K * V) (l : entries K V) : total vsize (e :: l) = vsize (snd e) + total vsize l.
  Proof. reflexivity. Qed.

  Lemma total_app (l1 l2 : entries K V) : total vsize (l1 ++ l2) = total vsize l1 + total vsize l2.
  Proof.
    induction l1 as [|e l1 IH]; [rewrite total_nil; cbn [app]; lia|].
    cbn [app]. rewrite !total_cons, IH. lia.
  Qed.

  Lemma total_perm (l l' : entries K V) : Permutation l l' -> total vsize l = total vsize l'.
  Proof.
    induction 1 as [|e l l' _ IH|e1 e2 l|l1 l2 l3 _ IH1 _ IH2].
    - reflexivity.
    - rewrite !total_cons, IH. reflexivity.
    - rewrite !total_cons. lia.
    - congruence.
  Qed.

  Lemma s_del_notin (l : entries K V) k : ~ In k (map fst l) -> s_del keqb l k = l.
  Proof.
    induction l as [|[k' v'] r IH]; cbn [s_del map fst In]; intros H; [reflexivity|].
    destruct (keqb k' k) eqn:E; [apply keqb_spec in E; tauto|].
    rewrite IH by tauto. reflexivity.
  Qed.

  Lemma s_find_notin (l : entries K V) k : ~ In k (map fst l) -> s_find keqb l k = None.
  Proof.
    induction l as [|[k' v'] r IH]; cbn [s_find map fst In]; intros H; [reflexivity|].
    destruct (keqb k' k) eqn:E; [apply keqb_spec in E; tauto|].
    apply IH. tauto.
  Qed.

  Lemma s_del_split (l1 : entries K V) k v l2 :
    ~ In k (map fst l1) -> s_del keqb (l1 ++ (k, v) :: l2) k = l1 ++ l2.
  Proof.
    induction l1 as [|[k' v'] r IH]; cbn [app s_del map fst In]; intros H.
    - rewrite keqb_refl. reflexivity.
    - destruct (keqb k' k) eqn:E; [apply keqb_spec in E; tauto|].
      rewrite IH by tauto. reflexivity.
  Qed.

  Lemma s_find_split (l1 : entries K V) k v l2 :
    ~ In k (map fst l1) -> s_find keqb (l1 ++ (k, v) :: l2) k = Some v.
  Proof.
    induction l1 as [|[k' v'] r IH]; cbn [app s_find map fst In]; intros H.
    - rewrite keqb_refl. reflexivity.
    - destruct (keqb k' k) eqn:E; [apply keqb_spec in E; tauto|].
      apply IH. tauto.
  Qed.

  (* ---------------------------------------------------------------- the invariant *)
  Notation elt := (ptr * (K * V))%type.
  Definition padr_key (x : elt) : ptr * K := (eadr x, ekey x).

  Record RepN (st : state K V) (ns : list elt) : Prop := mkRepN {
    rn_nodup : NoDup (map eadr ns);
    rn_nonnull : ~ In 0 (map eadr ns);
    rn_chain : chain (st_heap st) 0 ns 0;
    rn_head : st_head st = hd 0 (map eadr ns);
    rn_tail : st_tail st = last (map eadr ns) 0;
    rn_hnodup : NoDup (map fst (st_heap st));
    rn_hdom : forall q, In q (map fst (st_heap st)) <-> In q (map eadr ns);
    rn_knodup : NoDup (map fst (st_keys st));
    rn_keys : forall k p, In (k, p) (st_keys st) <-> In (p, k) (map padr_key ns);
    rn_kdistinct : NoDup (map fst (map snd ns));
    rn_size : st_size st = total vsize (map snd ns);
    rn_fresh : forall q, In q (map eadr ns) -> q < st_fresh st;
    rn_fresh_pos : 0 < st_fresh st }.

  Lemma in_padr_key_key (ns : list elt) p k :
    In (p, k) (map padr_key ns) -> In k (map fst (map snd ns)).
  Proof.
    intros H. apply in_map_iff in H. destruct H as ([p' [k' v']] & E & H).
    unfold padr_key, eadr, ekey in E. cbn [fst snd] in E. inversion E; subst p' k'.
    apply in_map_iff. exists (k, v'). split; [reflexivity|].
    apply in_map_iff. exists (p, (k, v')). split; [reflexivity|exact H].
  Qed.

  Lemma in_key_padr_key (ns : list elt) k :
    In k (map fst (map snd ns)) -> exists p, In (p, k) (map padr_key ns).
  Proof.
    intros H. apply in_map_iff in H. destruct H as ([k' v'] & E & H). cbn [fst] in E. subst k'.
    apply in_map_iff in H. destruct H as ([p' [k' v'']] & E & H). cbn [snd] in E.
    inversion E; subst k' v''. exists p'.
    apply in_map_iff. exists (p', (k, v')). split; [reflexivity|exact H].
  Qed.

  Lemma map_nonnil A B (f : A -> B) (l : list A) : l <> [] -> map f l <> [].
  Proof. destruct l; [congruence|discriminate]. Qed.

  Lemma last_default A (l : list A) d d' : l <> [] -> last l d = last l d'.
  Proof.
    destruct l as [|x l]; [congruence|]. intros _. rewrite !last_cons. reflexivity.
  Qed.

  Lemma repN_perm st st' ns ns' :
    RepN st ns -> Permutation ns ns' ->
    st_keys st' = st_keys st -> st_size st' = st_size st -> st_fresh st' = st_fresh st ->
    map fst (st_heap st') = map fst (st_heap st) ->
    chain (st_heap st') 0 ns' 0 ->
    st_head st' = hd 0 (map eadr ns') -> st_tail st' = last (map eadr ns') 0 ->
    RepN st' ns'.
  Proof.
    intros R HP Hk Hs Hf Hm Hc Hh Ht.
    pose proof (Permutation_map eadr HP) as HPa.
    pose proof (Permutation_map padr_key HP) as HPk.
    pose proof (Permutation_map fst (Permutation_map snd HP)) as HPs.
    constructor.
    - exact (Permutation_NoDup HPa (rn_nodup _ _ R)).
    - intros H. apply (rn_nonnull _ _ R). exact (Permutation_in _ (Permutation_sym HPa) H).
    - exact Hc.
    - exact Hh.
    - exact Ht.
    - rewrite Hm. exact (rn_hnodup _ _ R).
    - intros q. rewrite Hm, (rn_hdom _ _ R). split; apply Permutation_in; [|apply Permutation_sym]; exact HPa.
    - rewrite Hk. exact (rn_knodup _ _ R).
    - intros k p. rewrite Hk, (rn_keys _ _ R). split; apply Permutation_in; [|apply Permutation_sym]; exact HPk.
    - exact (Permutation_NoDup HPs (rn_kdistinct _ _ R)).
    - rewrite Hs, (rn_size _ _ R). apply total_perm. apply Permutation_map. exact HP.
    - intros q Hq. rewrite Hf. apply (rn_fresh _ _ R). exact (Permutation_in _ (Permutation_sym HPa) Hq).
    - rewrite Hf. exact (rn_fresh_pos _ _ R).
  Qed.

  Lemma repN_in st ns q :
    RepN st ns -> In q (map eadr ns) -> q <> 0 /\ In q (map fst (st_heap st)).
  Proof.
    intros R Hq. split.
    - intros ->. exact (rn_nonnull _ _ R Hq).
    - apply (rn_hdom _ _ R). exact Hq.
  Qed.

  Lemma split_facts st n1 x n2 :
    RepN st (n1 ++ x :: n2) ->
    hget (st_heap st) (eadr x) =
      Some (mkNode (hd 0 (map eadr n2)) (last (map eadr n1) 0) (ekey x) (evl x)) /\
    NoDup (map eadr n1) /\ NoDup (map eadr n2) /\
    ~ In (eadr x) (map eadr n1) /\ ~ In (eadr x) (map eadr n2) /\
    (forall q, In q (map eadr n1) -> In q (map eadr n2) -> False) /\
    (forall q, q = eadr x \/ In q (map eadr n1) \/ In q (map eadr n2) ->
               q <> 0 /\ In q (map fst (st_heap st))).
  Proof.
    intros R.
    pose proof (rn_nodup _ _ R) as ND. pose proof (rn_chain _ _ R) as C.
    rewrite map_app in ND. cbn [map] in ND.
    apply NoDup_app_iff in ND. destruct ND as (ND1 & ND2 & Dj).
    apply NoDup_cons_iff in ND2. destruct ND2 as [Hx ND2].
    apply chain_app in C. destruct C as [_ C2]. cbn [chain] in C2. destruct C2 as [Cx _].
    repeat split; try assumption.
    - intros H. apply (Dj _ H). left. reflexivity.
    - intros q H1 H2. apply (Dj _ H1). right. exact H2.
    - apply (repN_in st _ q R). rewrite map_app. cbn [map]. apply in_or_app.
      destruct H as [->|[H|H]]; [right; left; reflexivity|left; exact H|right; right; exact H].
    - apply (repN_in st _ q R). rewrite map_app. cbn [map]. apply in_or_app.
      destruct H as [->|[H|H]]; [right; left; reflexivity|left; exact H|right; right; exact H].
  Qed.

  Lemma repN_find st ns k p :
    RepN st ns -> In (k, p) (st_keys st) -> exists n1 v n2, ns = n1 ++ (p, (k, v)) :: n2.
  Proof.
    intros R H. apply (rn_keys _ _ R) in H. apply in_map_iff in H.
    destruct H as ([p' [k' v]] & E & Hin).
    unfold padr_key, eadr, ekey in E. cbn [fst snd] in E. inversion E; subst p' k'.
    apply in_split in Hin. destruct Hin as (n1 & n2 & ->). eauto.
  Qed.

  Lemma repN_nokey st ns k :
    RepN st ns -> ~ In k (map fst (st_keys st)) -> ~ In k (map fst (map snd ns)).
  Proof.
    intros R H Hin. apply H. apply in_key_padr_key in Hin. destruct Hin as [p Hp].
    apply (rn_keys _ _ R) in Hp. apply in_map_iff. exists (k, p). split; [reflexivity|exact Hp].
  Qed.

  Lemma split_spec (n1 : list elt) p k v n2 :
    NoDup (map fst (map snd (n1 ++ (p, (k, v)) :: n2))) ->
    s_del keqb (map snd (n1 ++ (p, (k, v)) :: n2)) k = map snd (n1 ++ n2) /\
    s_find keqb (map snd (n1 ++ (p, (k, v)) :: n2)) k = Some v.
  Proof.
    intros ND. rewrite !map_app in *. cbn [map snd fst] in *.
    apply NoDup_app_iff in ND. destruct ND as (_ & _ & Dj).
    assert (Hn : ~ In k (map fst (map snd n1))).
    { intros H. apply (Dj _ H). left. reflexivity. }
    split; [apply s_del_split|apply s_find_split]; exact Hn.
  Qed.

  (* ---------------------------------------------------------------- pushing a node *)
  Lemma nil_dec A (l : list A) : l = [] \/ l <> [].
  Proof. destruct l; [left; reflexivity|right; discriminate]. Qed.

  Lemma hd_default A (l : list A) d d' : l <> [] -> hd d l = hd d' l.
  Proof. destruct l; [congruence|reflexivity]. Qed.

  Lemma push_front_chain hu (ns : list elt) p k v a b :
    ns <> [] -> chain hu 0 ns 0 -> ~ In p (map eadr ns) -> NoDup (map eadr ns) ->
    hget hu p = Some (mkNode a b k v) ->
    chain (hupd (hupd hu p (fun n => set_prev (set_next n (hd 0 (map eadr ns))) null))
                (hd 0 (map eadr ns)) (fun n => set_prev n p))
          0 ((p, (k, v)) :: ns) 0.
  Proof.
    intros Hne C Hp ND Hg.
    assert (Hhd : In (hd 0 (map eadr ns)) (map eadr ns)) by (apply hd_in, map_nonnil, Hne).
    assert (Hhp : hd 0 (map eadr ns) <> p) by (intros E; apply Hp; rewrite <- E; exact Hhd).
    cbn [chain]. change (eadr (p, (k, v))) with p. split.
    - rewrite !hget_hupd. eqb_false Hhp. eqb_true. rewrite Hg. reflexivity.
    - apply (chain_set_first hu _ ns 0 p 0 ND C).
      + intros q Hq Hq'. rewrite !hget_hupd.
        assert (E1 : hd 0 (map eadr ns) <> q) by congruence.
        assert (E2 : p <> q) by (intros ->; contradiction).
        eqb_false E1. eqb_false E2. reflexivity.
      + intros _. rewrite !hget_hupd. eqb_true.
        assert (E2 : p <> hd 0 (map eadr ns)) by congruence.
        eqb_false E2. reflexivity.
  Qed.

  Lemma push_back_chain hu (ns : list elt) p k v a b :
    ns <> [] -> chain hu 0 ns 0 -> ~ In p (map eadr ns) -> NoDup (map eadr ns) ->
    hget hu p = Some (mkNode a b k v) ->
    chain (hupd (hupd hu p (fun n => set_next (set_prev n (last (map eadr ns) 0)) null))
                (last (map eadr ns) 0) (fun n => set_next n p))
          0 (ns ++ [(p, (k, v))]) 0.
  Proof.
    intros Hne C Hp ND Hg.
    assert (Htl : In (last (map eadr ns) 0) (map eadr ns)) by (apply last_in, map_nonnil, Hne).
    assert (Htp : last (map eadr ns) 0 <> p) by (intros E; apply Hp; rewrite <- E; exact Htl).
    apply chain_app. cbn [map hd chain]. change (eadr (p, (k, v))) with p.
    split; [|split; [|exact I]].
    - apply (chain_set_last hu _ ns 0 0 p ND C).
      + intros q Hq Hq'. rewrite !hget_hupd.
        assert (E1 : last (map eadr ns) 0 <> q) by congruence.
        assert (E2 : p <> q) by (intros ->; contradiction).
        eqb_false E1. eqb_false E2. reflexivity.
      + intros _. rewrite !hget_hupd. eqb_true.
        assert (E2 : p <> last (map eadr ns) 0) by congruence.
        eqb_false E2. reflexivity.
    - rewrite !hget_hupd. eqb_false Htp. eqb_true. rewrite Hg. reflexivity.
  Qed.

  Lemma front_finish st st1 full x ns a b :
    RepN st full -> Permutation full (x :: ns) -> ns <> [] ->
    st_keys st1 = st_keys st -> st_size st1 = st_size st -> st_fresh st1 = st_fresh st ->
    map fst (st_heap st1) = map fst (st_heap st) ->
    chain (st_heap st1) 0 ns 0 ->
    hget (st_heap st1) (eadr x) = Some (mkNode a b (ekey x) (evl x)) ->
    st_head st1 = hd 0 (map eadr ns) -> st_tail st1 = last (map eadr ns) 0 ->
    exists st',
      (h3 <- wr (st_heap st1) (eadr x) (fun n => set_prev (set_next n (st_head st1)) null) ;;
       h4 <- wr h3 (st_head st1) (fun hd => set_prev hd (eadr x)) ;;
       Ok (with_head (with_heap st1 h4) (eadr x))) = Ok st' /\
      RepN st' (x :: ns).
  Proof.
    intros R HP Hne Hk Hs Hf Hm Hc Hg Hh Ht.
    destruct x as [p [k v]].
    change (eadr (p, (k, v))) with p in *. change (ekey (p, (k, v))) with k in *.
    change (evl (p, (k, v))) with v in *.
    pose proof (Permutation_map eadr HP) as HPa. cbn [map] in HPa.
    change (eadr (p, (k, v))) with p in HPa.
    pose proof (Permutation_NoDup HPa (rn_nodup _ _ R)) as ND.
    apply NoDup_cons_iff in ND. destruct ND as [Hp ND].
    assert (Hall : forall q, In q (p :: map eadr ns) -> q <> 0 /\ In q (map fst (st_heap st1))).
    { intros q Hq. rewrite Hm. apply (repN_in st full q R).
      exact (Permutation_in _ (Permutation_sym HPa) Hq). }
    assert (Hhd : In (hd 0 (map eadr ns)) (map eadr ns)) by (apply hd_in, map_nonnil, Hne).
    destruct (Hall p (or_introl eq_refl)) as [Hp0 Hpd].
    destruct (Hall _ (or_intror Hhd)) as [Hh0 Hhdd].
    rewrite Hh. rewrite (wr_ok _ p _ Hp0 Hpd). cbn [bind].
    rewrite (wr_ok _ (hd 0 (map eadr ns)) _ Hh0) by (rewrite map_fst_hupd; exact Hhdd).
    cbn [bind]. eexists. split; [reflexivity|].
    apply (repN_perm st _ full _ R HP);
      cbn [st_keys st_size st_fresh st_heap st_head st_tail with_head with_heap]; try assumption.
    - rewrite !map_fst_hupd. exact Hm.
    - exact (push_front_chain _ ns p k v a b Hne Hc Hp ND Hg).
    - reflexivity.
    - cbn [map]. rewrite last_cons, Ht. apply last_default. apply map_nonnil, Hne.
  Qed.

  Lemma back_finish st st1 full x ns a b :
    RepN st full -> Permutation full (x :: ns) -> ns <> [] ->
    st_keys st1 = st_keys st -> st_size st1 = st_size st -> st_fresh st1 = st_fresh st ->
    map fst (st_heap st1) = map fst (st_heap st) ->
    chain (st_heap st1) 0 ns 0 ->
    hget (st_heap st1) (eadr x) = Some (mkNode a b (ekey x) (evl x)) ->
    st_head st1 = hd 0 (map eadr ns) -> st_tail st1 = last (map eadr ns) 0 ->
    exists st',
      (h3 <- wr (st_heap st1) (eadr x) (fun n => set_next (set_prev n (st_tail st1)) null) ;;
       h4 <- wr h3 (st_tail st1) (fun tl => set_next tl (eadr x)) ;;
       Ok (with_tail (with_heap st1 h4) (eadr x))) = Ok st' /\
      RepN st' (ns ++ [x]).
  Proof.
    intros R HP Hne Hk Hs Hf Hm Hc Hg Hh Ht.
    destruct x as [p [k v]].
    change (eadr (p, (k, v))) with p in *. change (ekey (p, (k, v))) with k in *.
    change (evl (p, (k, v))) with v in *.
    pose proof (Permutation_map eadr HP) as HPa. cbn [map] in HPa.
    change (eadr (p, (k, v))) with p in HPa.
    pose proof (Permutation_NoDup HPa (rn_nodup _ _ R)) as ND.
    apply NoDup_cons_iff in ND. destruct ND as [Hp ND].
    assert (Hall : forall q, In q (p :: map eadr ns) -> q <> 0 /\ In q (map fst (st_heap st1))).
    { intros q Hq. rewrite Hm. apply (repN_in st full q R).
      exact (Permutation_in _ (Permutation_sym HPa) Hq). }
    assert (Htl : In (last (map eadr ns) 0) (map eadr ns)) by (apply last_in, map_nonnil, Hne).
    destruct (Hall p (or_introl eq_refl)) as [Hp0 Hpd].
    destruct (Hall _ (or_intror Htl)) as [Ht0 Htd].
    rewrite Ht. rewrite (wr_ok _ p _ Hp0 Hpd). cbn [bind].
    rewrite (wr_ok _ (last (map eadr ns) 0) _ Ht0) by (rewrite map_fst_hupd; exact Htd).
    cbn [bind]. eexists. split; [reflexivity|].
    apply (repN_perm st _ full _ R (perm_trans HP (Permutation_cons_append ns (p, (k, v)))));
      cbn [st_keys st_size st_fresh st_heap st_head st_tail with_tail with_heap]; try assumption.
    - rewrite !map_fst_hupd. exact Hm.
    - exact (push_back_chain _ ns p k v a b Hne Hc Hp ND Hg).
    - rewrite map_app, hd_app, Hh. apply hd_default. apply map_nonnil, Hne.
    - rewrite map_app, last_app. reflexivity.
  Qed.

  (* ---------------------------------------------------------------- move_lru_to_front *)
  Lemma tail_skip (n1 : list elt) x n2 :
    n2 <> [] -> last (map eadr (n1 ++ x :: n2)) 0 = last (map eadr (n1 ++ n2)) 0.
  Proof.
    intros Hn2. rewrite !map_app, !last_app. cbn [map]. rewrite last_cons.
    apply last_default. apply map_nonnil, Hn2.
  Qed.

  Lemma head_skip (n1 : list elt) x n2 :
    n1 <> [] -> hd 0 (map eadr (n1 ++ x :: n2)) = hd 0 (map eadr (n1 ++ n2)).
  Proof.
    intros Hn1. rewrite !map_app, !hd_app. apply hd_default. apply map_nonnil, Hn1.
  Qed.

  Lemma move_front_ok st n1 x n2 :
    RepN st (n1 ++ x :: n2) ->
    exists st', move_lru_to_front st (eadr x) = Ok st' /\ RepN st' (x :: n1 ++ n2).
  Proof.
    intros R.
    destruct (split_facts st n1 x n2 R) as (Hg & ND1 & ND2 & Hx1 & Hx2 & Dj & Hall).
    destruct x as [p [k v]].
    change (eadr (p, (k, v))) with p in *. change (ekey (p, (k, v))) with k in *.
    change (evl (p, (k, v))) with v in *.
    destruct (nil_dec _ n1) as [->|Hn1].
    - exists st. split; [|exact R]. unfold move_lru_to_front. rewrite (rn_head _ _ R).
      cbn [app map hd]. change (eadr (p, (k, v))) with p. rewrite N.eqb_refl. reflexivity.
    - set (pv := last (map eadr n1) 0) in *.
      assert (Hpv : In pv (map eadr n1)) by (apply last_in, map_nonnil, Hn1).
      destruct (Hall p (or_introl eq_refl)) as [Hp0 Hpd].
      destruct (Hall pv (or_intror (or_introl Hpv))) as [Hpv0 Hpvd].
      assert (Hpvp : pv <> p) by (intros E; apply Hx1; rewrite <- E; exact Hpv).
      assert (Hhead : p <> st_head st).
      { rewrite (rn_head _ _ R), map_app, hd_app. intros E. apply Hx1. rewrite E.
        apply hd_in, map_nonnil, Hn1. }
      assert (HP : Permutation (n1 ++ (p, (k, v)) :: n2) ((p, (k, v)) :: n1 ++ n2))
        by (apply Permutation_sym, Permutation_middle).
      assert (Hne : n1 ++ n2 <> []) by (destruct n1; [congruence|discriminate]).
      unfold move_lru_to_front, null. eqb_false Hhead.
      rewrite (rd_ok _ p _ Hp0 Hg). cbn [bind n_prev n_next].
      eqb_false Hpv0.
      rewrite (wr_ok _ pv _ Hpv0 Hpvd). cbn [bind].
      destruct (nil_dec _ n2) as [->|Hn2].
      + (* the node is the tail *)
        cbn [map hd] in *. eqb_true. cbn [negb]. cbv iota.
        assert (Htail : st_tail st = p).
        { rewrite (rn_tail _ _ R), map_app, last_app. reflexivity. }
        rewrite Htail. eqb_true. cbn [negb]. cbv iota. cbn [bind].
        apply (front_finish st _ (n1 ++ [(p, (k, v))]) (p, (k, v)) (n1 ++ []) 0 pv R HP Hne);
          cbn [st_keys st_size st_fresh st_heap st_head st_tail with_tail with_heap];
          try reflexivity.
        * rewrite map_fst_hupd. reflexivity.
        * apply (unlink_spec (st_heap st) _ n1 (p, (k, v)) []
                   (rn_nodup _ _ R) (rn_nonnull _ _ R) (rn_chain _ _ R)).
          -- intros q _ Hq1 _. fold pv in Hq1. rewrite hget_hupd.
             assert (E1 : pv <> q) by congruence. eqb_false E1. reflexivity.
          -- intros _. fold pv. rewrite hget_hupd. eqb_true. reflexivity.
          -- intros H. congruence.
        * change (eadr (p, (k, v))) with p. rewrite hget_hupd. eqb_false Hpvp. exact Hg.
        * rewrite (rn_head _ _ R). apply head_skip. exact Hn1.
        * rewrite app_nil_r. reflexivity.
      + set (nx := hd 0 (map eadr n2)) in *.
        assert (Hnx : In nx (map eadr n2)) by (apply hd_in, map_nonnil, Hn2).
        destruct (Hall nx (or_intror (or_intror Hnx))) as [Hnx0 Hnxd].
        assert (Hnxp : nx <> p) by (intros E; apply Hx2; rewrite <- E; exact Hnx).
        assert (Hpvnx : pv <> nx) by (intros E; apply (Dj pv Hpv); rewrite E; exact Hnx).
        eqb_false Hnx0. cbn [negb]. cbv iota.
        rewrite (wr_ok _ nx _ Hnx0) by (rewrite map_fst_hupd; exact Hnxd). cbn [bind].
        apply (front_finish st _ (n1 ++ (p, (k, v)) :: n2) (p, (k, v)) (n1 ++ n2) nx pv R HP Hne);
          cbn [st_keys st_size st_fresh st_heap st_head st_tail with_tail with_heap];
          try reflexivity.
        * rewrite !map_fst_hupd. reflexivity.
        * apply (unlink_spec (st_heap st) _ n1 (p, (k, v)) n2
                   (rn_nodup _ _ R) (rn_nonnull _ _ R) (rn_chain _ _ R)).
          -- intros q _ Hq1 Hq2. fold pv in Hq1. fold nx in Hq2. rewrite !hget_hupd.
             assert (E1 : pv <> q) by congruence. assert (E2 : nx <> q) by congruence.
             eqb_false E1. eqb_false E2. reflexivity.
          -- intros _. fold pv. fold nx. rewrite !hget_hupd.
             assert (E : nx <> pv) by congruence. eqb_false E. eqb_true. reflexivity.
          -- intros _. fold pv. fold nx. rewrite !hget_hupd. eqb_true. eqb_false Hpvnx.
             reflexivity.
        * change (eadr (p, (k, v))) with p. rewrite !hget_hupd.
          eqb_false Hnxp. eqb_false Hpvp. exact Hg.
        * rewrite (rn_head _ _ R). apply head_skip. exact Hn1.
        * rewrite (rn_tail _ _ R). apply tail_skip. exact Hn2.
  Qed.

  (* ---------------------------------------------------------------- move_lru_to_back *)
  Lemma move_back_ok st n1 x n2 :
    RepN st (n1 ++ x :: n2) ->
    exists st', move_lru_to_back st (eadr x) = Ok st' /\ RepN st' ((n1 ++ n2) ++ [x]).
  Proof.
    intros R.
    destruct (split_facts st n1 x n2 R) as (Hg & ND1 & ND2 & Hx1 & Hx2 & Dj & Hall).
    destruct x as [p [k v]].
    change (eadr (p, (k, v))) with p in *. change (ekey (p, (k, v))) with k in *.
    change (evl (p, (k, v))) with v in *.
    destruct (nil_dec _ n2) as [->|Hn2].
    - exists st. split; [|rewrite app_nil_r; exact R]. unfold move_lru_to_back.
      rewrite (rn_tail _ _ R), map_app, last_app. cbn [map last].
      change (eadr (p, (k, v))) with p. rewrite N.eqb_refl. reflexivity.
    - set (nx := hd 0 (map eadr n2)) in *.
      assert (Hnx : In nx (map eadr n2)) by (apply hd_in, map_nonnil, Hn2).
      destruct (Hall p (or_introl eq_refl)) as [Hp0 Hpd].
      destruct (Hall nx (or_intror (or_intror Hnx))) as [Hnx0 Hnxd].
      assert (Hnxp : nx <> p) by (intros E; apply Hx2; rewrite <- E; exact Hnx).
      assert (Htail : p <> st_tail st).
      { rewrite (rn_tail _ _ R), map_app, last_app. cbn [map]. rewrite last_cons.
        intros E. apply Hx2. rewrite E. apply last_in, map_nonnil, Hn2. }
      assert (HP : Permutation (n1 ++ (p, (k, v)) :: n2) ((p, (k, v)) :: n1 ++ n2))
        by (apply Permutation_sym, Permutation_middle).
      assert (Hne : n1 ++ n2 <> []) by (destruct n1; [exact Hn2|discriminate]).
      unfold move_lru_to_back, null. eqb_false Htail.
      rewrite (rd_ok _ p _ Hp0 Hg). cbn [bind n_prev n_next].
      eqb_false Hnx0.
      rewrite (wr_ok _ nx _ Hnx0 Hnxd). cbn [bind].
      destruct (nil_dec _ n1) as [->|Hn1].
      + (* the node is the head *)
        cbn [map last app] in *. eqb_true. cbn [negb]. cbv iota.
        assert (Hhead : st_head st = p).
        { rewrite (rn_head _ _ R). reflexivity. }
        rewrite Hhead. eqb_true. cbn [negb]. cbv iota. cbn [bind].
        apply (back_finish st _ ((p, (k, v)) :: n2) (p, (k, v)) n2 nx 0 R HP Hne);
          cbn [st_keys st_size st_fresh st_heap st_head st_tail with_head with_heap];
          try reflexivity.
        * rewrite map_fst_hupd. reflexivity.
        * apply (unlink_spec (st_heap st) _ [] (p, (k, v)) n2
                   (rn_nodup _ _ R) (rn_nonnull _ _ R) (rn_chain _ _ R)).
          -- intros q _ _ Hq2. fold nx in Hq2. rewrite hget_hupd.
             assert (E1 : nx <> q) by congruence. eqb_false E1. reflexivity.
          -- intros H. congruence.
          -- intros _. fold nx. rewrite hget_hupd. eqb_true. reflexivity.
        * change (eadr (p, (k, v))) with p. rewrite hget_hupd. eqb_false Hnxp. exact Hg.
        * rewrite (rn_tail _ _ R). apply (tail_skip [] (p, (k, v)) n2 Hn2).
      + set (pv := last (map eadr n1) 0) in *.
        assert (Hpv : In pv (map eadr n1)) by (apply last_in, map_nonnil, Hn1).
        destruct (Hall pv (or_intror (or_introl Hpv))) as [Hpv0 Hpvd].
        assert (Hpvp : pv <> p) by (intros E; apply Hx1; rewrite <- E; exact Hpv).
        assert (Hpvnx : pv <> nx) by (intros E; apply (Dj pv Hpv); rewrite E; exact Hnx).
        eqb_false Hpv0. cbn [negb]. cbv iota.
        rewrite (wr_ok _ pv _ Hpv0) by (rewrite map_fst_hupd; exact Hpvd). cbn [bind].
        apply (back_finish st _ (n1 ++ (p, (k, v)) :: n2) (p, (k, v)) (n1 ++ n2) nx pv R HP Hne);
          cbn [st_keys st_size st_fresh st_heap st_head st_tail with_head with_heap];
          try reflexivity.
        * rewrite !map_fst_hupd. reflexivity.
        * apply (unlink_spec (st_heap st) _ n1 (p, (k, v)) n2
                   (rn_nodup _ _ R) (rn_nonnull _ _ R) (rn_chain _ _ R)).
          -- intros q _ Hq1 Hq2. fold pv in Hq1. fold nx in Hq2. rewrite !hget_hupd.
             assert (E1 : pv <> q) by congruence. assert (E2 : nx <> q) by congruence.
             eqb_false E1. eqb_false E2. reflexivity.
          -- intros _. fold pv. fold nx. rewrite !hget_hupd. eqb_true.
             assert (E : nx <> pv) by congruence. eqb_false E. reflexivity.
          -- intros _. fold pv. fold nx. rewrite !hget_hupd. eqb_false Hpvnx. eqb_true.
             reflexivity.
        * change (eadr (p, (k, v))) with p. rewrite !hget_hupd.
          eqb_false Hpvp. eqb_false Hnxp. exact Hg.
        * rewrite (rn_head _ _ R). apply head_skip. exact Hn1.
        * rewrite (rn_tail _ _ R). apply tail_skip. exact Hn2.
  Qed.

  (* ---------------------------------------------------------------- remove_lru *)
  Lemma remove_lru_ok st n1 x :
    RepN st (n1 ++ [x]) ->
    exists st', remove_lru keqb vsize st = Ok st' /\ RepN st' n1.
  Proof.
    intros R.
    destruct (split_facts st n1 x [] R) as (Hg & ND1 & _ & Hx1 & _ & _ & Hall).
    destruct x as [p [k v]].
    change (eadr (p, (k, v))) with p in *. change (ekey (p, (k, v))) with k in *.
    change (evl (p, (k, v))) with v in *.
    cbn [map hd] in Hg.
    destruct (Hall p (or_introl eq_refl)) as [Hp0 Hpd].
    assert (Htail : st_tail st = p).
    { rewrite (rn_tail _ _ R), map_app, last_app. reflexivity. }
    assert (Hhead : st_head st <> 0).
    { rewrite (rn_head _ _ R). intros E. apply (rn_nonnull _ _ R). rewrite <- E.
      apply hd_in, map_nonnil. destruct n1; discriminate. }
    set (pv := last (map eadr n1) 0) in *.
    assert (H1 : exists h1,
       (if negb (pv =? 0) then wr (st_heap st) pv (fun nt => set_next nt 0)
        else Ok (st_heap st)) = Ok h1 /\
       map fst h1 = map fst (st_heap st) /\
       (forall q, q <> pv -> hget h1 q = hget (st_heap st) q) /\
       (n1 <> [] -> hget h1 pv = option_map (fun n => set_next n 0) (hget (st_heap st) pv))).
    { destruct (nil_dec _ n1) as [E|Hn1].
      - exists (st_heap st). subst n1. cbn [map last] in pv. subst pv. rewrite N.eqb_refl.
        cbn [negb]. repeat split; try reflexivity. intros H; congruence.
      - assert (Hpv : In pv (map eadr n1)) by (apply last_in, map_nonnil, Hn1).
        destruct (Hall pv (or_intror (or_introl Hpv))) as [Hpv0 Hpvd].
        exists (hupd (st_heap st) pv (fun nt => set_next nt 0)).
        eqb_false Hpv0. cbn [negb]. cbv iota.
        rewrite (wr_ok _ pv _ Hpv0 Hpvd). repeat split.
        + apply map_fst_hupd.
        + intros q Hq. rewrite hget_hupd. assert (E : pv <> q) by congruence.
          eqb_false E. reflexivity.
        + intros _. rewrite hget_hupd. eqb_true. reflexivity. }
    destruct H1 as (h1 & E1 & Hm1 & Hs1 & Hl1).
    assert (Hsz : st_size st = total vsize (map snd n1) + vsize v).
    { rewrite (rn_size _ _ R), map_app, total_app. cbn [map snd].
      rewrite total_cons, total_nil. cbn [snd]. lia. }
    assert (NDh : NoDup (map fst (hupd h1 p (fun n => set_prev n 0)))).
    { rewrite map_fst_hupd, Hm1. exact (rn_hnodup _ _ R). }
    unfold remove_lru, null. rewrite Htail. eqb_false Hp0. eqb_false Hhead.
    rewrite (rd_ok _ p _ Hp0 Hg). cbn [bind n_prev n_val n_key].
    fold pv. rewrite E1. cbn [bind].
    destruct (N.ltb_spec (st_size st) (vsize v)) as [Hlt|_]; [lia|].
    rewrite (wr_ok _ p _ Hp0) by (rewrite Hm1; exact Hpd). cbn [bind].
    eexists. split; [reflexivity|].
    pose proof (rn_kdistinct _ _ R) as NDk. rewrite !map_app in NDk. cbn [map snd fst] in NDk.
    apply NoDup_app_iff in NDk. destruct NDk as (NDk1 & _ & Djk).
    constructor; cbn [st_keys st_size st_fresh st_heap st_head st_tail].
    - exact ND1.
    - intros H. destruct (Hall 0 (or_intror (or_introl H))) as [H0 _]. congruence.
    - pose proof (unlink_spec (st_heap st) (hfree (hupd h1 p (fun n => set_prev n 0)) p)
                    n1 (p, (k, v)) [] (rn_nodup _ _ R) (rn_nonnull _ _ R) (rn_chain _ _ R)) as U.
      rewrite app_nil_r in U. apply U.
      + intros q Hq Hq1 _. fold pv in Hq1.
        assert (E : p <> q) by (intros ->; contradiction).
        rewrite (hget_hfree _ p q NDh). eqb_false E. rewrite hget_hupd. eqb_false E.
        apply Hs1. exact Hq1.
      + intros Hn1. fold pv.
        assert (Hpv : In pv (map eadr n1)) by (apply last_in, map_nonnil, Hn1).
        assert (E : p <> pv) by (intros E; apply Hx1; rewrite E; exact Hpv).
        rewrite (hget_hfree _ p pv NDh). eqb_false E. rewrite hget_hupd. eqb_false E.
        apply Hl1. exact Hn1.
      + intros H. congruence.
    - destruct (nil_dec _ n1) as [E|Hn1].
      + subst n1. cbn [map last] in pv. subst pv. rewrite N.eqb_refl. reflexivity.
      + assert (Hpv : In pv (map eadr n1)) by (apply last_in, map_nonnil, Hn1).
        destruct (Hall pv (or_intror (or_introl Hpv))) as [Hpv0 _].
        eqb_false Hpv0. rewrite (rn_head _ _ R), map_app, hd_app.
        apply hd_default. apply map_nonnil, Hn1.
    - reflexivity.
    - apply nodup_hfree. exact NDh.
    - intros q. rewrite (in_hfree _ p q NDh), map_fst_hupd, Hm1, (rn_hdom _ _ R), map_app, in_app_iff.
      cbn [map In]. change (eadr (p, (k, v))) with p. split.
      + intros [[H|[H|[]]] Hne]; [exact H|congruence].
      + intros H. split; [left; exact H|]. intros ->. contradiction.
    - apply nodup_kremove. exact (rn_knodup _ _ R).
    - intros k' p'. rewrite (in_kremove _ k k' p' (rn_knodup _ _ R)), (rn_keys _ _ R), map_app, in_app_iff.
      cbn [map In]. change (padr_key (p, (k, v))) with (p, k). split.
      + intros [[H|[H|[]]] Hne]; [exact H|inversion H; congruence].
      + intros H. split; [left; exact H|]. intros ->.
        apply in_padr_key_key in H. apply (Djk k H). left. reflexivity.
    - exact NDk1.
    - lia.
    - intros q Hq. apply (rn_fresh _ _ R). rewrite map_app. apply in_or_app. left. exact Hq.
    - exact (rn_fresh_pos _ _ R).
  Qed.

  (* ---------------------------------------------------------------- insert_helper *)
  Lemma repN_set_val st n1 e k v0 v n2 :
    RepN st (n1 ++ (e, (k, v0)) :: n2) ->
    RepN (mkState (st_size st + vsize v - vsize v0) (st_head st) (st_tail st) (st_keys st)
            (hset (st_heap st) e (mkNode (hd 0 (map eadr n2)) (last (map eadr n1) 0) k v))
            (st_fresh st + 1))
         (n1 ++ (e, (k, v)) :: n2).
  Proof.
    intros R.
    destruct (split_facts st n1 (e, (k, v0)) n2 R) as (Hg & ND1 & ND2 & Hx1 & Hx2 & Dj & Hall).
    change (eadr (e, (k, v0))) with e in *. change (ekey (e, (k, v0))) with k in *.
    change (evl (e, (k, v0))) with v0 in *.
    assert (Ea : map eadr (n1 ++ (e, (k, v)) :: n2) = map eadr (n1 ++ (e, (k, v0)) :: n2))
      by (rewrite !map_app; reflexivity).
    assert (Ek : map padr_key (n1 ++ (e, (k, v)) :: n2) = map padr_key (n1 ++ (e, (k, v0)) :: n2))
      by (rewrite !map_app; reflexivity).
    assert (Es : map fst (map snd (n1 ++ (e, (k, v)) :: n2)) =
                 map fst (map snd (n1 ++ (e, (k, v0)) :: n2)))
      by (rewrite !map_app; reflexivity).
    constructor; cbn [st_keys st_size st_fresh st_heap st_head st_tail]; rewrite ?Ea, ?Ek, ?Es.
    - exact (rn_nodup _ _ R).
    - exact (rn_nonnull _ _ R).
    - pose proof (rn_chain _ _ R) as C. apply chain_app in C. destruct C as [C1 C2].
      cbn [chain] in C2. destruct C2 as [_ C2].
      apply chain_app. split; [|cbn [chain]; split].
      + apply (chain_frame (st_heap st)); [|exact C1].
        intros q Hq. rewrite hget_hset. assert (E : e <> q) by (intros ->; contradiction).
        eqb_false E. reflexivity.
      + change (eadr (e, (k, v))) with e. rewrite hget_hset. eqb_true. rewrite Hg. reflexivity.
      + apply (chain_frame (st_heap st)); [|exact C2].
        intros q Hq. rewrite hget_hset. assert (E : e <> q) by (intros ->; contradiction).
        eqb_false E. reflexivity.
    - exact (rn_head _ _ R).
    - exact (rn_tail _ _ R).
    - rewrite map_fst_hset. exact (rn_hnodup _ _ R).
    - intros q. rewrite map_fst_hset. exact (rn_hdom _ _ R q).
    - exact (rn_knodup _ _ R).
    - exact (rn_keys _ _ R).
    - exact (rn_kdistinct _ _ R).
    - pose proof (rn_size _ _ R) as Hs. rewrite map_app, total_app in *. cbn [map snd] in *.
      rewrite total_cons in *. cbn [snd] in *. lia.
    - intros q Hq. pose proof (rn_fresh _ _ R q Hq). lia.
    - pose proof (rn_fresh_pos _ _ R). lia.
  Qed.

  Lemma repN_push_new st ns k v h' tl' :
    RepN st ns -> ~ In k (map fst (st_keys st)) ->
    chain h' 0 ((st_fresh st, (k, v)) :: ns) 0 ->
    map fst h' = st_fresh st :: map fst (st_heap st) ->
    tl' = last (map eadr ((st_fresh st, (k, v)) :: ns)) 0 ->
    RepN (mkState (st_size st + vsize v) (st_fresh st) tl' ((k, st_fresh st) :: st_keys st) h'
                  (st_fresh st + 1))
         ((st_fresh st, (k, v)) :: ns).
  Proof.
    intros R Hk Hc Hm Ht.
    pose proof (rn_fresh_pos _ _ R) as Hpos.
    assert (Hp : ~ In (st_fresh st) (map eadr ns)).
    { intros H. pose proof (rn_fresh _ _ R _ H). lia. }
    constructor; cbn [st_keys st_size st_fresh st_heap st_head st_tail].
    - cbn [map]. constructor; [exact Hp|exact (rn_nodup _ _ R)].
    - cbn [map In]. change (eadr (st_fresh st, (k, v))) with (st_fresh st).
      intros [H|H]; [lia|exact (rn_nonnull _ _ R H)].
    - exact Hc.
    - reflexivity.
    - exact Ht.
    - rewrite Hm. constructor; [|exact (rn_hnodup _ _ R)].
      intros H. apply Hp. apply (rn_hdom _ _ R). exact H.
    - intros q. rewrite Hm. cbn [map In]. rewrite (rn_hdom _ _ R). reflexivity.
    - cbn [map fst]. constructor; [exact Hk|exact (rn_knodup _ _ R)].
    - intros k' p'. cbn [map In]. change (padr_key (st_fresh st, (k, v))) with (st_fresh st, k).
      rewrite (rn_keys _ _ R). split; (intros [H|H]; [left; inversion H; reflexivity|right; exact H]).
    - cbn [map snd fst]. constructor; [|exact (rn_kdistinct _ _ R)].
      exact (repN_nokey st ns k R Hk).
    - cbn [map snd]. rewrite total_cons. cbn [snd]. rewrite (rn_size _ _ R). lia.
    - cbn [map In]. change (eadr (st_fresh st, (k, v))) with (st_fresh st).
      intros q [H|H]; [lia|]. pose proof (rn_fresh _ _ R q H). lia.
    - lia.
  Qed.

  Lemma swap_heap (h : heap K V) p nn e X Y :
    p <> e -> hfree (hset (hset ((p, nn) :: h) p X) e Y) p = hset h e Y.
  Proof.
    intros Hpe. cbn [hset]. eqb_true. cbn [hset]. eqb_false Hpe. cbn [hfree]. eqb_true.
    reflexivity.
  Qed.

  Lemma insert_helper_ok st ns k v :
    RepN st ns ->
    exists st1 ns1,
      insert_helper keqb vsize
        (mkState (st_size st) (st_head st) (st_tail st) (st_keys st)
                 ((st_fresh st, mkNode null null k v) :: st_heap st) (st_fresh st + 1))
        (st_fresh st) k = Ok st1 /\
      RepN st1 ns1 /\ map snd ns1 = (k, v) :: s_del keqb (map snd ns) k.
  Proof.
    intros R. unfold null.
    pose proof (rn_fresh_pos _ _ R) as Hpos.
    assert (Hp0 : st_fresh st <> 0) by lia.
    assert (Hgp : hget ((st_fresh st, mkNode 0 0 k v) :: st_heap st) (st_fresh st)
                  = Some (mkNode 0 0 k v)) by (cbn [hget]; rewrite N.eqb_refl; reflexivity).
    unfold insert_helper, null. cbn [st_keys st_heap st_size st_head st_tail st_fresh].
    destruct (kget keqb (st_keys st) k) as [e|] eqn:Ek.
    - apply kget_some in Ek. destruct (repN_find st ns k e R Ek) as (n1 & v0 & n2 & ->).
      destruct (split_facts st n1 (e, (k, v0)) n2 R) as (Hg & ND1 & ND2 & Hx1 & Hx2 & Dj & Hall).
      change (eadr (e, (k, v0))) with e in *. change (ekey (e, (k, v0))) with k in *.
      change (evl (e, (k, v0))) with v0 in *.
      destruct (Hall e (or_introl eq_refl)) as [He0 Hed].
      assert (Hpe : st_fresh st <> e).
      { intros E. pose proof (rn_fresh _ _ R e) as H. rewrite map_app in H.
        assert (e < st_fresh st) by (apply H; apply in_or_app; right; left; reflexivity). lia. }
      rewrite (rd_ok _ _ _ Hp0 Hgp). cbn [bind].
      assert (Hge : hget ((st_fresh st, mkNode 0 0 k v) :: st_heap st) e =
                    Some (mkNode (hd 0 (map eadr n2)) (last (map eadr n1) 0) k v0))
        by (cbn [hget]; eqb_false Hpe; exact Hg).
      rewrite (rd_ok _ _ _ He0 Hge). cbn [bind n_val].
      assert (Hsz : vsize v0 <= st_size st).
      { rewrite (rn_size _ _ R), map_app, total_app. cbn [map snd]. rewrite total_cons.
        cbn [snd]. lia. }
      destruct (N.ltb_spec (st_size st + vsize v) (vsize v0)) as [Hlt|_]; [lia|].
      rewrite (swap_heap _ _ _ _ _ _ Hpe).
      destruct (move_front_ok _ n1 (e, (k, v)) n2 (repN_set_val st n1 e k v0 v n2 R))
        as (st' & E & R').
      exists st', ((e, (k, v)) :: n1 ++ n2). split; [exact E|]. split; [exact R'|].
      cbn [map snd]. f_equal. symmetry. apply (split_spec n1 e k v0 n2). exact (rn_kdistinct _ _ R).
    - apply kget_none in Ek.
      rewrite (rd_ok _ _ _ Hp0 Hgp). cbn [bind n_val].
      rewrite (s_del_notin _ k (repN_nokey st ns k R Ek)).
      destruct (nil_dec _ ns) as [->|Hne].
      + rewrite (rn_head _ _ R), (rn_tail _ _ R). cbn [map hd last]. eqb_true. cbn [negb]. cbv iota.
        rewrite (wr_ok _ _ _ Hp0) by (left; reflexivity). cbn [bind].
        eexists. exists [(st_fresh st, (k, v))]. split; [reflexivity|]. split; [|reflexivity].
        apply (repN_push_new st [] k v _ _ R Ek).
        * cbn [chain map hd]. split; [|exact I].
          change (eadr (st_fresh st, (k, v))) with (st_fresh st).
          rewrite hget_hupd. eqb_true. rewrite Hgp. reflexivity.
        * rewrite map_fst_hupd. reflexivity.
        * reflexivity.
      + assert (Hhd : In (hd 0 (map eadr ns)) (map eadr ns)) by (apply hd_in, map_nonnil, Hne).
        destruct (repN_in st ns _ R Hhd) as [Hhd0 Hhdd].
        assert (Hp : ~ In (st_fresh st) (map eadr ns)).
        { intros H. pose proof (rn_fresh _ _ R _ H). lia. }
        rewrite (rn_head _ _ R). eqb_false Hhd0.
        rewrite (wr_ok _ _ _ Hp0) by (left; reflexivity). cbn [bind].
        rewrite (wr_ok _ _ _ Hhd0) by (rewrite map_fst_hupd; right; exact Hhdd). cbn [bind].
        eexists. exists ((st_fresh st, (k, v)) :: ns). split; [reflexivity|]. split; [|reflexivity].
        apply (repN_push_new st ns k v _ _ R Ek).
        * apply (push_front_chain _ ns (st_fresh st) k v 0 0 Hne); try assumption.
          -- apply (chain_frame (st_heap st)); [|exact (rn_chain _ _ R)].
             intros q Hq. cbn [hget]. assert (E : st_fresh st <> q) by (intros <-; contradiction).
             eqb_false E. reflexivity.
          -- exact (rn_nodup _ _ R).
        * rewrite !map_fst_hupd. reflexivity.
        * cbn [map]. rewrite last_cons, (rn_tail _ _ R). apply last_default, map_nonnil, Hne.
  Qed.

  (* ---------------------------------------------------------------- the eviction loop *)
  Lemma evict_ok cap : forall fuel st ns,
    RepN st ns -> (length ns < fuel)%nat ->
    exists st' ns',
      evict keqb vsize fuel cap st = Ok st' /\ RepN st' ns' /\
      map snd ns' = s_evict_n vsize (length ns) cap (map snd ns).
  Proof.
    induction fuel as [|f IH]; intros st ns R Hlen; [lia|].
    cbn [evict]. unfold null.
    destruct (list_rev_cases ns) as [->|(n1 & x & ->)].
    - rewrite (rn_head _ _ R). cbn [map hd]. rewrite N.eqb_refl. cbn [negb].
      rewrite andb_false_r. exists st, []. split; [reflexivity|]. split; [exact R|reflexivity].
    - assert (Hhead : st_head st <> 0).
      { rewrite (rn_head _ _ R). intros E. apply (rn_nonnull _ _ R). rewrite <- E.
        apply hd_in, map_nonnil. destruct n1; discriminate. }
      eqb_false Hhead. cbn [negb]. rewrite andb_true_r.
      rewrite app_length, Nat.add_1_r. cbn [s_evict_n].
      rewrite <- (rn_size _ _ R).
      destruct (cap <? st_size st) eqn:E.
      + destruct (remove_lru_ok st n1 x R) as (st1 & E1 & R1). rewrite E1. cbn [bind].
        rewrite app_length in Hlen. cbn [length] in Hlen.
        destruct (IH st1 n1 R1 ltac:(lia)) as (st' & ns' & E2 & R2 & E3).
        exists st', ns'. split; [exact E2|]. split; [exact R2|].
        rewrite E3, map_app. cbn [map]. rewrite removelast_last. reflexivity.
      + exists st, (n1 ++ [x]). split; [reflexivity|]. split; [exact R|reflexivity].
  Qed.

  (* ---------------------------------------------------------------- sizes of the maps *)
  Lemma repN_len st ns :
    RepN st ns -> length (st_heap st) = length ns /\ length (st_keys st) = length ns.
  Proof.
    intros R. split.
    - rewrite <- (map_length fst (st_heap st)), <- (map_length eadr ns).
      apply Nat.le_antisymm; apply NoDup_incl_length.
      + exact (rn_hnodup _ _ R).
      + intros q Hq. apply (rn_hdom _ _ R). exact Hq.
      + exact (rn_nodup _ _ R).
      + intros q Hq. apply (rn_hdom _ _ R). exact Hq.
    - rewrite <- (map_length fst (st_keys st)), <- (map_length snd ns),
        <- (map_length fst (map snd ns)).
      apply Nat.le_antisymm; apply NoDup_incl_length.
      + exact (rn_knodup _ _ R).
      + intros k Hk. apply in_map_iff in Hk. destruct Hk as ([k' p] & E & Hk). cbn [fst] in E.
        subst k'. apply (rn_keys _ _ R) in Hk. exact (in_padr_key_key ns p k Hk).
      + exact (rn_kdistinct _ _ R).
      + intros k Hk. apply in_key_padr_key in Hk. destruct Hk as [p Hp].
        apply (rn_keys _ _ R) in Hp. apply in_map_iff. exists (k, p). split; [reflexivity|exact Hp].
  Qed.

  Lemma repN_empty_iff st ns :
    RepN st ns -> (ns = [] <-> st_head st = 0) /\ (ns = [] <-> st_tail st = 0).
  Proof.
    intros R. split; split.
    - intros ->. exact (rn_head _ _ R).
    - intros H. destruct (nil_dec _ ns) as [E|Hne]; [exact E|]. exfalso.
      apply (rn_nonnull _ _ R). rewrite <- H, (rn_head _ _ R). apply hd_in, map_nonnil, Hne.
    - intros ->. exact (rn_tail _ _ R).
    - intros H. destruct (nil_dec _ ns) as [E|Hne]; [exact E|]. exfalso.
      apply (rn_nonnull _ _ R). rewrite <- H, (rn_tail _ _ R). apply last_in, map_nonnil, Hne.
  Qed.

  Lemma repN_init : RepN (init K V) [].
  Proof.
    constructor; cbn; try constructor; try tauto; try reflexivity.
  Qed.

  (* ---------------------------------------------------------------- one operation *)
  Lemma step_ok cap st ns o :
    RepN st ns ->
    exists st' ns',
      step keqb vsize cap st o = Ok (st', snd (s_step keqb vsize cap (map snd ns) o)) /\
      RepN st' ns' /\ map snd ns' = fst (s_step keqb vsize cap (map snd ns) o).
  Proof.
    intros R. destruct o as [k v|k v|k|k| |].
    - (* insert *)
      unfold step, insert, node_new. cbv beta zeta iota.
      destruct (insert_helper_ok st ns k v R) as (st1 & ns1 & E1 & R1 & M1).
      rewrite E1. cbn [bind].
      assert (Hlen : (length ns1 < S (length (st_keys st1)))%nat).
      { destruct (repN_len st1 ns1 R1) as [_ ->]. lia. }
      destruct (evict_ok cap _ st1 ns1 R1 Hlen) as (st2 & ns2 & E2 & R2 & M2).
      rewrite E2. cbn [bind s_step fst snd].
      exists st2, ns2. split; [reflexivity|]. split; [exact R2|].
      rewrite M2. unfold s_evict. rewrite <- M1, map_length. reflexivity.
    - (* insert_no_evict *)
      unfold step, insert_no_evict, node_new. cbv beta zeta iota.
      destruct (insert_helper_ok st ns k v R) as (st1 & ns1 & E1 & R1 & M1).
      rewrite E1. cbn [bind s_step fst snd].
      exists st1, ns1. split; [reflexivity|]. split; [exact R1|exact M1].
    - (* lookup *)
      unfold step, lookup. cbn [s_step].
      destruct (kget keqb (st_keys st) k) as [p|] eqn:Ek.
      + apply kget_some in Ek. destruct (repN_find st ns k p R Ek) as (n1 & v & n2 & ->).
        destruct (split_facts st n1 (p, (k, v)) n2 R) as (Hg & _ & _ & _ & _ & _ & Hall).
        change (eadr (p, (k, v))) with p in *. change (ekey (p, (k, v))) with k in *.
        change (evl (p, (k, v))) with v in *.
        destruct (Hall p (or_introl eq_refl)) as [Hp0 _].
        destruct (move_front_ok st n1 (p, (k, v)) n2 R) as (st' & E & R').
        change (eadr (p, (k, v))) with p in E.
        destruct (split_spec n1 p k v n2 (rn_kdistinct _ _ R)) as [Hdel Hfind].
        rewrite (rd_ok _ p _ Hp0 Hg). cbn [bind n_val]. rewrite E. cbn [bind fst snd].
        rewrite Hfind, Hdel. cbn [fst snd].
        exists st', ((p, (k, v)) :: n1 ++ n2). split; [reflexivity|]. split; [exact R'|reflexivity].
      + apply kget_none in Ek.
        rewrite (s_find_notin _ k (repN_nokey st ns k R Ek)). cbn [bind fst snd].
        exists st, ns. split; [reflexivity|]. split; [exact R|reflexivity].
    - (* remove *)
      unfold step, remove. cbn [s_step fst snd].
      destruct (kget keqb (st_keys st) k) as [p|] eqn:Ek.
      + apply kget_some in Ek. destruct (repN_find st ns k p R Ek) as (n1 & v & n2 & ->).
        destruct (move_back_ok st n1 (p, (k, v)) n2 R) as (st1 & E1 & R1).
        change (eadr (p, (k, v))) with p in E1.
        destruct (remove_lru_ok st1 (n1 ++ n2) (p, (k, v)) R1) as (st2 & E2 & R2).
        destruct (split_spec n1 p k v n2 (rn_kdistinct _ _ R)) as [Hdel _].
        rewrite E1. cbn [bind]. rewrite E2. cbn [bind]. rewrite Hdel.
        exists st2, (n1 ++ n2). split; [reflexivity|]. split; [exact R2|reflexivity].
      + apply kget_none in Ek.
        rewrite (s_del_notin _ k (repN_nokey st ns k R Ek)). cbn [bind].
        exists st, ns. split; [reflexivity|]. split; [exact R|reflexivity].
    - (* pop *)
      unfold step, pop, null.
      destruct (list_rev_cases ns) as [->|(n1 & [p [k v]] & ->)].
      + rewrite (rn_tail _ _ R). cbn [map last]. rewrite N.eqb_refl. cbn [negb bind s_step fst snd].
        exists st, []. split; [reflexivity|]. split; [exact R|reflexivity].
      + destruct (split_facts st n1 (p, (k, v)) [] R) as (Hg & _ & _ & _ & _ & _ & Hall).
        change (eadr (p, (k, v))) with p in *. change (ekey (p, (k, v))) with k in *.
        change (evl (p, (k, v))) with v in *.
        destruct (Hall p (or_introl eq_refl)) as [Hp0 _].
        assert (Htail : st_tail st = p).
        { rewrite (rn_tail _ _ R), map_app, last_app. reflexivity. }
        destruct (remove_lru_ok st n1 (p, (k, v)) R) as (st' & E & R').
        rewrite Htail. eqb_false Hp0. cbn [negb]. cbv iota.
        rewrite (rd_ok _ p _ Hp0 Hg). cbn [bind n_key n_val]. rewrite E. cbn [bind fst snd].
        exists st', n1. rewrite map_app. cbn [map snd s_step].
        destruct (map snd n1 ++ [(k, v)]) as [|e r] eqn:El.
        * apply app_eq_nil in El. destruct El as [_ El]. discriminate.
        * rewrite <- El. cbn [fst snd]. rewrite removelast_last, last_last.
          split; [reflexivity|]. split; [exact R'|reflexivity].
    - (* size *)
      unfold step, approximate_size. cbn [s_step fst snd].
      exists st, ns. rewrite (rn_size _ _ R). split; [reflexivity|]. split; [exact R|reflexivity].
  Qed.

End Ops.
