(* Sync42/ProofsLru.v — the pointer-level model of the LRU cache (ModelLru.v, section Lru) refines
   its list specification (same file, "the specification"), and the capacity properties of the
   specification.  Heap/chain lemmas are in ProofsLru1.v, the invariant (with the list of nodes
   explicit, `RepN`) and the per-function lemmas in ProofsLru2.v. *)
From Coq Require Import NArith PeanoNat List Bool Lia Permutation.
From Blue Require Import Sync42.ModelLru Sync42.ProofsLru1 Sync42.ProofsLru2.
Import ListNotations.
Open Scope N_scope.
#[local] Arguments N.add : simpl never.
#[local] Arguments N.sub : simpl never.
#[local] Arguments N.mul : simpl never.
#[local] Arguments N.div : simpl never.
#[local] Arguments N.modulo : simpl never.
#[local] Arguments N.leb : simpl never.
#[local] Arguments N.ltb : simpl never.
#[local] Arguments N.eqb : simpl never.

Section LruProofs.
  Variables K V : Type.
  Variable keqb : K -> K -> bool.
  Variable vsize : V -> N.
  Hypothesis keqb_spec : forall a b, keqb a b = true <-> a = b.

  (* ================================================================ 1. the invariant *)
  (* `ns` lists the nodes, most recently used first, as (address, (key, value)).  RepN (see
     ProofsLru2.v) says: the addresses are pairwise distinct and not null; in the heap each address
     holds exactly the node (next, prev, key, value) whose next/prev are the neighbouring
     addresses of the list (null at the two ends); head/tail are the first/last address (null when
     the list is empty); the heap has pairwise distinct addresses and its domain is exactly these
     addresses; the key map has one binding per key and binds exactly each node's key to its
     address; the keys are pairwise distinct; the size is the total of the values; all addresses
     are below the (non-zero) allocation pointer. *)
  Definition Rep (st : state K V) (l : entries K V) : Prop :=
    exists ns : list (ptr * (K * V)), l = map snd ns /\ RepN K V vsize st ns.

  (* ================================================================ 2, 3 *)
  Lemma rep_init : Rep (init K V) [].
  Proof. exists []. split; [reflexivity|apply repN_init]. Qed.

  Lemma rep_size : forall st l, Rep st l -> st_size K V st = total K V vsize l.
  Proof. intros st l (ns & -> & R). exact (rn_size _ _ _ _ _ R). Qed.

  Lemma rep_nodup_keys : forall st l, Rep st l -> NoDup (map fst l).
  Proof. intros st l (ns & -> & R). exact (rn_kdistinct _ _ _ _ _ R). Qed.

  Lemma rep_no_leak : forall st l, Rep st l ->
    length (st_heap K V st) = length l /\ length (st_keys K V st) = length l.
  Proof. intros st l (ns & -> & R). rewrite map_length. exact (repN_len _ _ _ _ _ R). Qed.

  Lemma rep_head_tail : forall st l, Rep st l ->
    (l = [] <-> st_head K V st = null) /\ (l = [] <-> st_tail K V st = null).
  Proof.
    intros st l (ns & -> & R). destruct (repN_empty_iff _ _ _ _ _ R) as [H1 H2].
    assert (E : map snd ns = [] <-> ns = []).
    { split; [apply map_eq_nil|intros ->; reflexivity]. }
    unfold null. rewrite E. split; assumption.
  Qed.

  (* ================================================================ 4. one operation *)
  Lemma step_refines : forall cap st l o, Rep st l ->
    exists st', step K V keqb vsize cap st o = Ok (st', snd (s_step K V keqb vsize cap l o)) /\
                Rep st' (fst (s_step K V keqb vsize cap l o)).
  Proof.
    intros cap st l o (ns & -> & R).
    destruct (step_ok K V keqb vsize keqb_spec cap st ns o R) as (st' & ns' & E & R' & M).
    exists st'. split; [exact E|]. exists ns'. split; [symmetry; exact M|exact R'].
  Qed.

  (* ================================================================ 5. runs *)
  Lemma run_refines : forall cap ops st l, Rep st l ->
    exists st', run K V keqb vsize cap st ops = Ok (st', snd (s_run K V keqb vsize cap l ops)) /\
                Rep st' (fst (s_run K V keqb vsize cap l ops)).
  Proof.
    intros cap ops. induction ops as [|o r IH]; intros st l R.
    - exists st. split; [reflexivity|exact R].
    - cbn [run s_run].
      destruct (step_refines cap st l o R) as (st1 & E1 & R1). rewrite E1. cbn [bind fst snd].
      destruct (IH st1 _ R1) as (st2 & E2 & R2). rewrite E2. cbn [bind fst snd].
      exists st2. split; [reflexivity|exact R2].
  Qed.

  Theorem lru_run_refines : forall cap ops,
    exists st, run K V keqb vsize cap (init K V) ops
               = Ok (st, snd (s_run K V keqb vsize cap [] ops)) /\
               Rep st (fst (s_run K V keqb vsize cap [] ops)).
  Proof. intros cap ops. exact (run_refines cap ops (init K V) [] rep_init). Qed.

  (* ================================================================ properties of the spec *)
  #[local] Arguments total {K V}.
  #[local] Arguments s_find {K V}.
  #[local] Arguments s_del {K V}.
  #[local] Arguments s_evict_n {K V}.
  #[local] Arguments s_evict {K V}.
  #[local] Arguments s_step {K V}.
  #[local] Arguments s_run {K V}.
  #[local] Arguments ne_keep {K V}.
  #[local] Arguments ne_del {K}.
  #[local] Arguments ne_step {K V}.
  #[local] Arguments ne_run {K V}.
  #[local] Arguments ne_total {K V}.
  #[local] Arguments total_nil {K V}.
  #[local] Arguments total_cons {K V}.
  #[local] Arguments total_app {K V}.

  (* ---------------------------------------------------------------- 8. eviction *)
  Lemma s_evict_n_char cap : forall n (l : entries K V), length l = n ->
    exists j, (j <= length l)%nat /\
      s_evict_n vsize n cap l = firstn j l /\
      total vsize (firstn j l) <= cap /\
      ((j < length l)%nat -> cap < total vsize (firstn (S j) l)).
  Proof.
    induction n as [|n IH]; intros l Hl.
    - destruct l; [|discriminate]. exists 0%nat. cbn [s_evict_n firstn length].
      split; [lia|]. split; [reflexivity|]. split; [rewrite total_nil; lia|]. intros H. lia.
    - cbn [s_evict_n]. destruct (N.ltb_spec cap (total vsize l)) as [Hlt|Hge].
      + destruct (list_rev_cases l) as [->|(l' & x & ->)]; [discriminate|].
        rewrite removelast_last. rewrite app_length in Hl. cbn [length] in Hl.
        destruct (IH l' ltac:(lia)) as (j & Hj & E & Ht & Hn).
        exists j. rewrite app_length. cbn [length].
        assert (Hf : firstn j (l' ++ [x]) = firstn j l').
        { rewrite firstn_app. replace (j - length l')%nat with 0%nat by lia.
          cbn [firstn]. apply app_nil_r. }
        rewrite Hf. split; [lia|]. split; [exact E|]. split; [exact Ht|].
        intros Hlt'. destruct (Nat.eq_dec j (length l')) as [->|Hne].
        * rewrite firstn_all2 by (rewrite app_length; cbn [length]; lia). exact Hlt.
        * rewrite firstn_app. replace (S j - length l')%nat with 0%nat by lia.
          cbn [firstn]. rewrite app_nil_r. apply Hn. lia.
      + exists (length l). split; [lia|]. rewrite firstn_all.
        split; [reflexivity|]. split; [exact Hge|]. intros H. lia.
  Qed.

  Theorem s_evict_char : forall cap l, exists j,
    @s_evict K V vsize cap l = firstn j l /\
    (@total K V vsize (firstn j l) <= cap)%N /\
    (j < length l -> (cap < @total K V vsize (firstn (S j) l))%N)%nat.
  Proof.
    intros cap l. unfold s_evict.
    destruct (s_evict_n_char cap (length l) l eq_refl) as (j & _ & E & Ht & Hn).
    exists j. split; [exact E|]. split; [exact Ht|exact Hn].
  Qed.

  (* ---------------------------------------------------------------- 7. within the capacity *)
  Theorem lru_insert_within_capacity : forall cap l k v,
    (@total K V vsize (fst (@s_step K V keqb vsize cap l (OInsert k v))) <= cap)%N.
  Proof.
    intros cap l k v. cbn [s_step fst].
    destruct (s_evict_char cap ((k, v) :: s_del keqb l k)) as (j & E & Ht & _).
    rewrite E. exact Ht.
  Qed.

  Lemma total_s_del_le (l : entries K V) k : total vsize (s_del keqb l k) <= total vsize l.
  Proof.
    induction l as [|[k' v'] r IH]; cbn [s_del]; [lia|].
    destruct (keqb k' k); rewrite !total_cons; cbn [snd]; lia.
  Qed.

  Lemma total_lookup (l : entries K V) k v :
    s_find keqb l k = Some v -> total vsize ((k, v) :: s_del keqb l k) = total vsize l.
  Proof.
    induction l as [|[k' v'] r IH]; cbn [s_find s_del]; [discriminate|].
    destruct (keqb k' k) eqn:E.
    - intros [= ->]. rewrite !total_cons. reflexivity.
    - intros H. specialize (IH H). rewrite !total_cons in *. cbn [snd] in *. lia.
  Qed.

  Lemma total_removelast_le (l : entries K V) : total vsize (removelast l) <= total vsize l.
  Proof.
    destruct (list_rev_cases l) as [->|(l' & x & ->)]; [cbn [removelast]; lia|].
    rewrite removelast_last, total_app. lia.
  Qed.

  Lemma step_within cap (l : entries K V) o :
    (forall k v, o <> OInsertNoEvict k v) ->
    total vsize l <= cap -> total vsize (fst (s_step keqb vsize cap l o)) <= cap.
  Proof.
    intros Hno Hl. destruct o as [k v|k v|k|k| |].
    - apply lru_insert_within_capacity.
    - exfalso. exact (Hno k v eq_refl).
    - cbn [s_step]. destruct (s_find keqb l k) as [v|] eqn:E; cbn [fst].
      + rewrite (total_lookup l k v E). exact Hl.
      + exact Hl.
    - cbn [s_step fst]. pose proof (total_s_del_le l k). lia.
    - cbn [s_step]. destruct l as [|e r]; cbn [fst]; [exact Hl|].
      pose proof (total_removelast_le (e :: r)). lia.
    - exact Hl.
  Qed.

  Lemma run_within cap : forall ops (l : entries K V),
    (forall k v, ~ In (OInsertNoEvict k v) ops) ->
    total vsize l <= cap -> total vsize (fst (s_run keqb vsize cap l ops)) <= cap.
  Proof.
    induction ops as [|o r IH]; intros l Hno Hl; [exact Hl|].
    cbn [s_run fst]. apply IH.
    - intros k v H. apply (Hno k v). right. exact H.
    - apply step_within; [|exact Hl]. intros k v ->. apply (Hno k v). left. reflexivity.
  Qed.

  Theorem lru_within_capacity_without_no_evict : forall cap ops,
    (forall k v, ~ In (OInsertNoEvict k v) ops) ->
    (@total K V vsize (fst (@s_run K V keqb vsize cap [] ops)) <= cap)%N.
  Proof.
    intros cap ops Hno. apply run_within; [exact Hno|]. rewrite total_nil. lia.
  Qed.

  (* ---------------------------------------------------------------- 6. the capacity bound *)
  (* total size of the entries whose key is NOT in `ne` *)
  Definition nne_total (l : entries K V) (ne : list K) : N :=
    fold_right (fun e a => if existsb (keqb (fst e)) ne then a else vsize (snd e) + a) 0 l.

  Lemma nne_cons e (l : entries K V) ne :
    nne_total (e :: l) ne =
    if existsb (keqb (fst e)) ne then nne_total l ne else vsize (snd e) + nne_total l ne.
  Proof. reflexivity. Qed.

  Lemma ne_cons e (l : entries K V) ne :
    ne_total keqb vsize (e :: l) ne =
    if existsb (keqb (fst e)) ne then vsize (snd e) + ne_total keqb vsize l ne
    else ne_total keqb vsize l ne.
  Proof. reflexivity. Qed.

  Lemma total_split (l : entries K V) ne :
    total vsize l = ne_total keqb vsize l ne + nne_total l ne.
  Proof.
    induction l as [|e l IH]; [reflexivity|].
    rewrite total_cons, ne_cons, nne_cons, IH. destruct (existsb (keqb (fst e)) ne); lia.
  Qed.

  Lemma nne_le_total (l : entries K V) ne : nne_total l ne <= total vsize l.
  Proof. rewrite (total_split l ne). lia. Qed.

  (* the more keys are excluded, the smaller the rest *)
  Lemma nne_mono (l : entries K V) ne1 ne2 :
    (forall e, In e l -> existsb (keqb (fst e)) ne1 = true -> existsb (keqb (fst e)) ne2 = true) ->
    nne_total l ne2 <= nne_total l ne1.
  Proof.
    induction l as [|e l IH]; intros H; [cbn; lia|].
    rewrite !nne_cons.
    assert (IH' : nne_total l ne2 <= nne_total l ne1).
    { apply IH. intros e' He'. apply H. right. exact He'. }
    pose proof (H e (or_introl eq_refl)) as He.
    destruct (existsb (keqb (fst e)) ne1); [rewrite (He eq_refl); exact IH'|].
    destruct (existsb (keqb (fst e)) ne2); lia.
  Qed.

  Lemma nne_s_del_le (l : entries K V) k ne : nne_total (s_del keqb l k) ne <= nne_total l ne.
  Proof.
    induction l as [|[k' v'] r IH]; cbn [s_del]; [lia|].
    destruct (keqb k' k); rewrite !nne_cons; cbn [fst snd]; destruct (existsb (keqb k') ne); lia.
  Qed.

  Lemma nne_lookup (l : entries K V) k v ne :
    s_find keqb l k = Some v -> nne_total ((k, v) :: s_del keqb l k) ne = nne_total l ne.
  Proof.
    induction l as [|[k' v'] r IH]; cbn [s_find s_del]; [discriminate|].
    destruct (keqb k' k) eqn:E.
    - intros [= ->]. apply keqb_spec in E. subst k'. reflexivity.
    - intros H. specialize (IH H). rewrite !nne_cons in *. cbn [fst snd] in *.
      destruct (existsb (keqb k) ne); destruct (existsb (keqb k') ne); lia.
  Qed.

  Lemma nne_removelast_le (l : entries K V) ne : nne_total (removelast l) ne <= nne_total l ne.
  Proof.
    induction l as [|e l IH]; [cbn; lia|].
    destruct l as [|e' l'].
    - cbn [removelast]. rewrite nne_cons. cbn [nne_total fold_right].
      destruct (existsb (keqb (fst e)) ne); lia.
    - change (removelast (e :: e' :: l')) with (e :: removelast (e' :: l')).
      rewrite (nne_cons e (removelast (e' :: l'))), (nne_cons e (e' :: l')).
      destruct (existsb (keqb (fst e)) ne); lia.
  Qed.

  Lemma s_find_in (l : entries K V) e : In e l -> s_find keqb l (fst e) <> None.
  Proof.
    induction l as [|[k' v'] r IH]; cbn [s_find In]; [tauto|].
    intros [<-|H]; cbn [fst].
    - rewrite (proj2 (keqb_spec k' k') eq_refl). discriminate.
    - destruct (keqb k' (fst e)); [discriminate|]. apply IH. exact H.
  Qed.

  Lemma nne_keep_le (l : entries K V) ne : nne_total l (ne_keep keqb l ne) <= nne_total l ne.
  Proof.
    apply nne_mono. intros e He H.
    apply existsb_exists in H. destruct H as (k0 & Hk0 & Hk).
    apply existsb_exists. exists k0. split; [|exact Hk].
    unfold ne_keep. apply filter_In. split; [exact Hk0|].
    apply keqb_spec in Hk. subst k0.
    pose proof (s_find_in l e He) as Hf. destruct (s_find keqb l (fst e)); [reflexivity|congruence].
  Qed.

  Lemma ne_step_inv cap (l : entries K V) ne o :
    nne_total l ne <= cap ->
    nne_total (fst (s_step keqb vsize cap l o)) (ne_step keqb vsize cap l ne o) <= cap.
  Proof.
    intros Hl. destruct o as [k v|k v|k|k| |]; unfold ne_step.
    - pose proof (lru_insert_within_capacity cap l k v) as H.
      pose proof (nne_le_total (fst (s_step keqb vsize cap l (OInsert k v)))
                    (ne_keep keqb (fst (s_step keqb vsize cap l (OInsert k v))) (ne_del keqb ne k))).
      lia.
    - cbn [s_step fst]. rewrite nne_cons. cbn [fst existsb].
      rewrite (proj2 (keqb_spec k k) eq_refl). cbn [orb].
      pose proof (nne_s_del_le l k ne) as H1.
      assert (H2 : nne_total (s_del keqb l k) (k :: ne_del keqb ne k) <= nne_total (s_del keqb l k) ne).
      { apply nne_mono. intros e _ H.
        apply existsb_exists in H. destruct H as (k0 & Hk0 & Hk).
        cbn [existsb]. destruct (keqb (fst e) k) eqn:Ek; [reflexivity|]. cbn [orb].
        apply existsb_exists. exists k0. split; [|exact Hk].
        unfold ne_del. apply filter_In. split; [exact Hk0|].
        apply keqb_spec in Hk. subst k0. rewrite Ek. reflexivity. }
      lia.
    - pose proof (nne_keep_le (fst (s_step keqb vsize cap l (OLookup k))) ne) as H1.
      assert (H2 : nne_total (fst (s_step keqb vsize cap l (OLookup k))) ne = nne_total l ne).
      { cbn [s_step]. destruct (s_find keqb l k) as [v|] eqn:E; cbn [fst]; [|reflexivity].
        apply nne_lookup. exact E. }
      lia.
    - pose proof (nne_keep_le (fst (s_step keqb vsize cap l (ORemove k))) ne) as H1.
      cbn [s_step fst] in *. pose proof (nne_s_del_le l k ne). lia.
    - pose proof (nne_keep_le (fst (s_step keqb vsize cap l OPop)) ne) as H1.
      assert (H2 : nne_total (fst (s_step keqb vsize cap l OPop)) ne <= nne_total l ne).
      { cbn [s_step]. destruct l as [|e r]; cbn [fst]; [lia|]. apply nne_removelast_le. }
      lia.
    - pose proof (nne_keep_le (fst (s_step keqb vsize cap l OSize)) ne) as H1.
      cbn [s_step fst] in *. lia.
  Qed.

  Lemma ne_run_inv cap : forall ops (l : entries K V) ne,
    nne_total l ne <= cap ->
    nne_total (fst (s_run keqb vsize cap l ops)) (ne_run keqb vsize cap l ne ops) <= cap.
  Proof.
    induction ops as [|o r IH]; intros l ne Hl; [exact Hl|].
    cbn [s_run ne_run fst]. apply IH. apply ne_step_inv. exact Hl.
  Qed.

  Theorem lru_capacity_bound : forall cap ops,
    let l := fst (@s_run K V keqb vsize cap [] ops) in
    (@total K V vsize l <= cap + @ne_total K V keqb vsize l (@ne_run K V keqb vsize cap [] [] ops))%N.
  Proof.
    intros cap ops l. subst l.
    pose proof (ne_run_inv cap ops [] [] ltac:(cbn; lia)) as H.
    rewrite (total_split _ (ne_run keqb vsize cap [] [] ops)). lia.
  Qed.

End LruProofs.
