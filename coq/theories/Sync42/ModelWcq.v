(* Sync42/ModelWcq.v — small-step interleaving model of sync42/src/work_coalescing_queue.rs
   (WorkCoalescingQueue::do_work) over the wait list of ModelWaitList.v.  Definitions only.

   Shared state: the wait list (every wait-list operation is one critical section of its own
   mutex, hence one atomic function of ModelWaitList), the mutex `state` (S below; g_S = who
   holds it) protecting `doing_work`, the mutex `core` (C; g_C) protecting the core, and the
   threads.  A thread is a program counter with locals plus the inputs it still has to submit and
   the results it got.  One step of a thread = one critical section of the wait-list mutex (or a
   lock/unlock of S or C), with these mergers, each justified by the lock discipline:
     - acquiring S is its own step (PEnter; re-acquisition after a wait is the PSleep step);
       releasing S is merged into the last step of the section that holds it;
     - the leader's `iter.next()`, `w.load()`, `can_batch`, `batch`, `w.store(Stolen)` for one
       waiter are one step (only the leader writes cells while doing_work is set; the cell's owner
       only reads it);  likewise `iter.next()`, `w.store(Output)`, `w.notify()` for one waiter;
     - `assert!(!doing_work); assert!(is_head()); load()` after the loop are one step.
   Condition variables: a sleeping thread is `PSleep idx false` (on the waiter's cond) or
   `PLinkSleep i false` (on wait_waiter_available); a notify_one turns ONE sleeper of that
   condition variable into `.. true` (which one: the schedule's `choice`); a spurious wake-up
   (action ASpurious) does the same at any time.  A woken thread proceeds when it can re-acquire
   the mutex it waited with.
   The core is a parameter: state CS, accumulator Acc, `can_batch`, `batch`, `work`.
   Ghost state (never read by the program): g_links (who linked with what, in index order),
   g_seen (inputs handed to `batch`, in order), g_batches (first index, count, outputs of every
   `work` call), and the wait-list index kept in some program counters. *)
From Coq Require Import Arith List Bool.
From Blue Require Import Sync42.ModelLru Sync42.ModelWaitList.
Import ListNotations.

Section Wcq.
  Variables Inp Outp Acc CS : Type.
  Variable acc0 : Acc.                                   (* InputAccumulator::default() *)
  Variable can_batch : CS -> Acc -> Inp -> bool.
  Variable batch : CS -> Acc -> Inp -> CS * Acc.
  Variable work : CS -> nat -> Acc -> CS * list Outp.       (* the OutputIterator, as a list *)

  Inductive wstate := WInput (i : Inp) | WStolen | WOutput (o : Outp).     (* enum WaitState *)

  Inductive pc :=
  | PIdle                                     (* not in do_work *)
  | PLinkSleep (i : Inp) (tok : bool)           (* in link(): asleep on wait_waiter_available *)
  | PEnter (idx : nat)                        (* linked; about to lock `state` *)
  | PTest (idx : nat)                         (* S held: `while doing_work || !is_head()` *)
  | PLoad (idx : nat)                         (* S held: loop body, waiter.load() *)
  | PWait (idx : nat)                         (* S held: about to naked_wait(state) *)
  | PSleep (idx : nat) (tok : bool)           (* asleep on the waiter's cond; S released *)
  | PExitUnlink (idx : nat) (o : Outp)           (* S held: saw Output: wait_list.unlink *)
  | PExitWA (idx : nat) (o : Outp)               (* S held: unlink's wait_waiter_available.notify_one *)
  | PExitNotify (idx : nat) (o : Outp)           (* S held: notify_head; return o *)
  | PHead (idx : nat)                         (* S held: loop left; asserts, load *)
  | PLockCore (idx : nat)                     (* S held, doing_work set: core.lock() *)
  | PBatch (idx cur taken : nat) (acc : Acc)  (* S, C held: 'waiters loop at index cur *)
  | PWork (idx taken : nat) (acc : Acc)       (* C held: core.work(taken, work) *)
  | PDist (idx cur rem : nat) (outs : list Outp)  (* C held: zip(iter.take(taken), outputs) *)
  | PLeaderLoad (idx : nat)                   (* C held: `if let Output(o) = waiter.load()` *)
  | PLeaderUnlink (idx : nat) (o : Outp)         (* C held: wait_list.unlink(waiter) *)
  | PLeaderWA (idx : nat) (o : Outp)             (* C held: unlink's notify_one *)
  | PLeaderClear (idx : nat) (o : Outp)          (* C held: lock S; doing_work = false; unlock *)
  | PLeaderNotify (idx : nat) (o : Outp).        (* C held: notify_head; return o (drops core) *)

  Record thread := mkThread {
    t_pc : pc;
    t_todo : list Inp;               (* inputs of the calls still to be made, in program order *)
    t_done : list (nat * Outp) }.     (* (ghost index, returned output) of finished calls, newest first *)

  Record gstate := mkG {
    g_wl : wl wstate;
    g_S : option nat;              (* holder of the mutex `state` *)
    g_C : option nat;              (* holder of the mutex `core` *)
    g_dw : bool;                   (* ConcurrentState::doing_work *)
    g_core : CS;
    g_threads : list thread;
    g_links : list (nat * Inp);      (* ghost: (thread, input) of every link, in index order *)
    g_seen : list Inp;               (* ghost: inputs passed to core.batch, oldest first *)
    g_batches : list (nat * nat * list Outp) }.  (* ghost: (first index, taken, outputs), oldest first *)

  Definition with_threads (g : gstate) (ths : list thread) :=
    mkG (g_wl g) (g_S g) (g_C g) (g_dw g) (g_core g) ths (g_links g) (g_seen g) (g_batches g).
  Definition with_wl (g : gstate) (w : wl wstate) :=
    mkG w (g_S g) (g_C g) (g_dw g) (g_core g) (g_threads g) (g_links g) (g_seen g) (g_batches g).
  Definition with_S (g : gstate) (s : option nat) :=
    mkG (g_wl g) s (g_C g) (g_dw g) (g_core g) (g_threads g) (g_links g) (g_seen g) (g_batches g).
  Definition with_C (g : gstate) (c : option nat) :=
    mkG (g_wl g) (g_S g) c (g_dw g) (g_core g) (g_threads g) (g_links g) (g_seen g) (g_batches g).
  Definition with_dw (g : gstate) (b : bool) :=
    mkG (g_wl g) (g_S g) (g_C g) b (g_core g) (g_threads g) (g_links g) (g_seen g) (g_batches g).

  Definition set_pc (th : thread) (p : pc) := mkThread p (t_todo th) (t_done th).
  Definition set_thread (g : gstate) (t : nat) (th : thread) :=
    with_threads g (upd t th (g_threads g)).

  (* ---- condition variables *)
  Definition tokenize (p : pc) : pc :=
    match p with
    | PSleep idx false => PSleep idx true
    | PLinkSleep i false => PLinkSleep i true
    | _ => p
    end.

  (* wake the k-th thread (counting from 0) whose pc satisfies `sel` *)
  Fixpoint wake_nth (sel : pc -> bool) (k : nat) (ths : list thread) : list thread :=
    match ths with
    | [] => []
    | th :: r =>
        if sel (t_pc th) then
          match k with
          | O => set_pc th (tokenize (t_pc th)) :: r
          | S k' => th :: wake_nth sel k' r
          end
        else th :: wake_nth sel k r
    end.
  Definition count_sel (sel : pc -> bool) (ths : list thread) : nat :=
    length (filter (fun th => sel (t_pc th)) ths).
  (* Condvar::notify_one: no sleeper -> nothing happens; else one of them, by `choice` *)
  Definition notify_one (sel : pc -> bool) (choice : nat) (ths : list thread) : list thread :=
    match count_sel sel ths with
    | O => ths
    | S n => wake_nth sel (choice mod S n) ths
    end.

  (* sleepers of the condition variable of the slot of index idx *)
  Definition sleeps_on (n idx : nat) (p : pc) : bool :=
    match p with PSleep j false => (j mod n =? idx mod n) | _ => false end.
  (* sleepers of wait_waiter_available *)
  Definition sleeps_wa (p : pc) : bool :=
    match p with PLinkSleep _ false => true | _ => false end.

  Definition notify_cond (g : gstate) (idx choice : nat) : gstate :=
    with_threads g (notify_one (sleeps_on (nslots wstate (g_wl g)) idx) choice (g_threads g)).
  Definition notify_wa (g : gstate) (choice : nat) : gstate :=
    with_threads g (notify_one sleeps_wa choice (g_threads g)).

  Inductive sres :=
  | SOk (g : gstate)
  | SBlocked          (* the thread cannot move now (asleep, or the mutex it needs is held) *)
  | SDone             (* the thread has finished its program *)
  | SPanic.           (* an assert!/panic!/unwrap fired *)

  Definition free (m : option nat) : bool := match m with None => true | Some _ => false end.

  (* result of a link attempt for thread t with input i *)
  Definition after_link (g : gstate) (t : nat) (th : thread) (i : Inp)
             (r : res (link_res wstate)) : sres :=
    match r with
    | Ok (Linked _ w idx) =>
        let g1 := with_wl g w in
        let g2 := mkG (g_wl g1) (g_S g1) (g_C g1) (g_dw g1) (g_core g1) (g_threads g1)
                      (g_links g1 ++ [(t, i)]) (g_seen g1) (g_batches g1) in
        SOk (set_thread g2 t (set_pc th (PEnter idx)))
    | Ok (MustWait _ w) =>
        SOk (set_thread (with_wl g w) t (set_pc th (PLinkSleep i false)))
    | _ => SPanic
    end.

  Definition finish (th : thread) (idx : nat) (o : Outp) : thread :=
    mkThread PIdle (t_todo th) ((idx, o) :: t_done th).

  (* one step of thread t; `choice` resolves notify_one *)
  Definition tstep (g : gstate) (t : nat) (choice : nat) : sres :=
    match nth_error (g_threads g) t with
    | None => SDone
    | Some th =>
      match t_pc th with
      | PIdle =>
          match t_todo th with
          | [] => SDone
          | i :: rest =>                       (* do_work(i): self.wait_list.link(Input(i)) *)
              let th1 := mkThread PIdle rest (t_done th) in
              after_link g t th1 i (wl_link_try wstate (g_wl g) (WInput i))
          end
      | PLinkSleep i false => SBlocked
      | PLinkSleep i true =>                   (* wait_waiter_available.wait returned *)
          after_link g t th i (wl_link_wake wstate (g_wl g) (WInput i))
      | PEnter idx =>                          (* self.state.lock() *)
          if free (g_S g) then SOk (set_thread (with_S g (Some t)) t (set_pc th (PTest idx)))
          else SBlocked
      | PTest idx =>                           (* while state.doing_work || !waiter.is_head() *)
          if g_dw g then SOk (set_thread g t (set_pc th (PLoad idx)))
          else match wl_is_head wstate (g_wl g) idx with
               | Ok true => SOk (set_thread g t (set_pc th (PHead idx)))
               | Ok false => SOk (set_thread g t (set_pc th (PLoad idx)))
               | _ => SPanic
               end
      | PLoad idx =>                           (* match waiter.load() *)
          match wl_load wstate (g_wl g) idx with
          | Ok (WInput _) | Ok WStolen => SOk (set_thread g t (set_pc th (PWait idx)))
          | Ok (WOutput o) => SOk (set_thread g t (set_pc th (PExitUnlink idx o)))
          | _ => SPanic
          end
      | PWait idx =>                           (* waiter.naked_wait(state): unlock S and sleep *)
          SOk (set_thread (with_S g None) t (set_pc th (PSleep idx false)))
      | PSleep idx false => SBlocked
      | PSleep idx true =>                     (* woken: re-acquire S *)
          if free (g_S g) then SOk (set_thread (with_S g (Some t)) t (set_pc th (PTest idx)))
          else SBlocked
      | PExitUnlink idx o =>                   (* self.wait_list.unlink(waiter) *)
          match wl_unlink wstate (g_wl g) idx with
          | Ok (w, true) => SOk (set_thread (with_wl g w) t (set_pc th (PExitWA idx o)))
          | Ok (w, false) => SOk (set_thread (with_wl g w) t (set_pc th (PExitNotify idx o)))
          | _ => SPanic
          end
      | PExitWA idx o =>                       (* wait_waiter_available.notify_one() *)
          SOk (set_thread (notify_wa g choice) t (set_pc th (PExitNotify idx o)))
      | PExitNotify idx o =>                   (* self.wait_list.notify_head(); return o *)
          let g1 := match wl_notify_head wstate (g_wl g) with
                    | Some h => notify_cond g h choice
                    | None => g
                    end in
          SOk (set_thread (with_S g1 None) t (finish th idx o))
      | PHead idx =>
          if g_dw g then SPanic else           (* assert!(!state.doing_work) *)
          match wl_is_head wstate (g_wl g) idx with
          | Ok true =>                         (* assert!(waiter.is_head()) *)
              match wl_load wstate (g_wl g) idx with
              | Ok (WInput _) =>               (* state.doing_work = true *)
                  SOk (set_thread (with_dw g true) t (set_pc th (PLockCore idx)))
              | Ok (WOutput o) => SOk (set_thread g t (set_pc th (PExitUnlink idx o)))
              | _ => SPanic                    (* "stolen at head of line" *)
              end
          | _ => SPanic
          end
      | PLockCore idx =>                       (* self.core.lock(); waiter.iter() *)
          if free (g_C g) then
            SOk (set_thread (with_C g (Some t)) t (set_pc th (PBatch idx idx 0 acc0)))
          else SBlocked
      | PBatch idx cur taken acc =>
          match wl_iter_next wstate (g_wl g) cur with
          | None =>                            (* iterator exhausted: block ends, S released *)
              SOk (set_thread (with_S g None) t (set_pc th (PWork idx taken acc)))
          | Some _ =>
              match wl_load wstate (g_wl g) cur with
              | Ok (WInput i) =>
                  if (taken =? 0) || can_batch (g_core g) acc i then
                    let (core', acc') := batch (g_core g) acc i in
                    let w' := wl_store wstate (g_wl g) cur WStolen in
                    let g1 := mkG w' (g_S g) (g_C g) (g_dw g) core' (g_threads g)
                                  (g_links g) (g_seen g ++ [i]) (g_batches g) in
                    let g2 := notify_cond g1 cur choice in      (* Waiter::store notifies *)
                    SOk (set_thread g2 t (set_pc th (PBatch idx (S cur) (S taken) acc')))
                  else                         (* break 'waiters *)
                    SOk (set_thread (with_S g None) t (set_pc th (PWork idx taken acc)))
              | _ => SPanic                    (* "head should never witness stolen or output" *)
              end
          end
      | PWork idx taken acc =>                 (* core.work(taken, work) *)
          let (core', outs) := work (g_core g) taken acc in
          let g1 := mkG (g_wl g) (g_S g) (g_C g) (g_dw g) core' (g_threads g)
                        (g_links g) (g_seen g) (g_batches g ++ [(idx, taken, outs)]) in
          SOk (set_thread g1 t (set_pc th (PDist idx idx taken outs)))
      | PDist idx cur rem outs =>             (* zip(waiter.iter().take(taken), outputs) *)
          match rem with
          | O => SOk (set_thread g t (set_pc th (PLeaderLoad idx)))
          | S rem' =>
              match wl_iter_next wstate (g_wl g) cur with
              | None => SOk (set_thread g t (set_pc th (PLeaderLoad idx)))
              | Some _ =>
                  match outs with
                  | [] => SOk (set_thread g t (set_pc th (PLeaderLoad idx)))
                  | o :: outs' =>              (* w.store(Output(out)); w.notify() *)
                      let g1 := with_wl g (wl_store wstate (g_wl g) cur (WOutput o)) in
                      let g2 := notify_cond (notify_cond g1 cur choice) cur choice in
                      SOk (set_thread g2 t (set_pc th (PDist idx (S cur) rem' outs')))
                  end
              end
          end
      | PLeaderLoad idx =>
          match wl_load wstate (g_wl g) idx with
          | Ok (WOutput o) => SOk (set_thread g t (set_pc th (PLeaderUnlink idx o)))
          | _ => SPanic                        (* "Thread gave everyone except itself an output." *)
          end
      | PLeaderUnlink idx o =>
          match wl_unlink wstate (g_wl g) idx with
          | Ok (w, true) => SOk (set_thread (with_wl g w) t (set_pc th (PLeaderWA idx o)))
          | Ok (w, false) => SOk (set_thread (with_wl g w) t (set_pc th (PLeaderClear idx o)))
          | _ => SPanic
          end
      | PLeaderWA idx o =>
          SOk (set_thread (notify_wa g choice) t (set_pc th (PLeaderClear idx o)))
      | PLeaderClear idx o =>                  (* { lock S; doing_work = false; } *)
          if free (g_S g) then SOk (set_thread (with_dw g false) t (set_pc th (PLeaderNotify idx o)))
          else SBlocked
      | PLeaderNotify idx o =>                 (* notify_head(); o   -- `core` guard dropped *)
          let g1 := match wl_notify_head wstate (g_wl g) with
                    | Some h => notify_cond g h choice
                    | None => g
                    end in
          SOk (set_thread (with_C g1 None) t (finish th idx o))
      end
    end.

  (* ---- schedules *)
  Inductive action :=
  | ARun (t : nat) (choice : nat)    (* thread t takes its next step, if it can *)
  | ASpurious (t : nat).             (* a spurious wake-up of thread t, if it is asleep *)

  Definition spurious (g : gstate) (t : nat) : gstate :=
    match nth_error (g_threads g) t with
    | Some th => set_thread g t (set_pc th (tokenize (t_pc th)))
    | None => g
    end.

  (* a blocked or finished thread stutters; a panic ends the run *)
  Definition exec (g : gstate) (a : action) : res gstate :=
    match a with
    | ARun t c => match tstep g t c with
                  | SOk g' => Ok g'
                  | SBlocked | SDone => Ok g
                  | SPanic => Panic
                  end
    | ASpurious t => Ok (spurious g t)
    end.

  Fixpoint run (g : gstate) (sched : list action) : res gstate :=
    match sched with
    | [] => Ok g
    | a :: r => g' <- exec g a ;; run g' r
    end.

  (* initial state: n slots, thread k is to submit the inputs `nth k progs` one after the other *)
  Definition ginit (n : nat) (core : CS) (progs : list (list Inp)) : gstate :=
    mkG (wl_new wstate n) None None false core
        (map (fun p => mkThread PIdle p []) progs) [] [] [].

  (* ---- observation vocabulary used by the theorems *)
  Definition enabled (g : gstate) (t : nat) : bool :=
    match tstep g t 0 with SOk _ => true | _ => false end.
  Definition thread_finished (th : thread) : bool :=
    match t_pc th, t_todo th with PIdle, [] => true | _, _ => false end.
  Definition all_finished (g : gstate) : bool := forallb thread_finished (g_threads g).

End Wcq.

Arguments WInput {Inp Outp}.
Arguments WStolen {Inp Outp}.
Arguments WOutput {Inp Outp}.
