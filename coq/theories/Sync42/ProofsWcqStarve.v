(* Sync42/ProofsWcqStarve.v — the work-coalescing queue is not starvation-free for a call asleep
   in link(): a concrete family of schedules of the model ModelWcq.v (ring of one slot) in which
   thread 1 calls link while the ring is full and is then scheduled once in every cycle, each time
   after a notification on wait_waiter_available, and never gets the slot, while thread 0 completes
   k calls that all entered the queue AFTER thread 1 called link (barging: the notified sleeper
   competes for the ring with new arrivals and there is no hand-off).
   starve_40 is the instance k = 40 by computation; starve_all is the statement for every k.
   Proofs only; no axioms. *)
From Coq Require Import Arith List Bool Lia.
From Blue Require Import Sync42.ModelLru Sync42.ModelWaitList Sync42.ModelWcq Sync42.ProofsWaitList
  Sync42.ProofsWcqBase Sync42.ProofsWcqInv Sync42.ProofsWcqProg Sync42.ProofsWcq Sync42.ProofsWcqTerm.
Import ListNotations.
Open Scope nat_scope.

Local Arguments Nat.modulo : simpl never.
Local Arguments Nat.div : simpl never.

(* ---- implicit type arguments, local to this file (the same block opens every ProofsWcq* file) *)
Local Arguments s_linked {T}. Local Arguments s_value {T}. Local Arguments w_head {T}. Local Arguments w_tail {T}.
Local Arguments w_waiting {T}. Local Arguments w_slots {T}. Local Arguments mkWl {T}. Local Arguments nslots {T}.
Local Arguments slot_at {T}. Local Arguments set_slot {T}. Local Arguments with_head {T}. Local Arguments with_tail {T}.
Local Arguments with_waiting {T}. Local Arguments invariants_ok {T}. Local Arguments wl_full {T}.
Local Arguments Linked {T}. Local Arguments MustWait {T}. Local Arguments wl_link_try {T}. Local Arguments wl_link_wake {T}.
Local Arguments wl_unlink {T}. Local Arguments wl_notify_head {T}. Local Arguments wl_store {T}. Local Arguments wl_load {T}.
Local Arguments wl_is_head {T}. Local Arguments wl_iter_next {T}. Local Arguments live {T}. Local Arguments wl_new {T}.
Local Arguments wl_wf {T}. Local Arguments link_new {T}.
Local Arguments in_live {T}. Local Arguments live_sorted {T}. Local Arguments live_nodup {T}. Local Arguments live_hd {T}.
Local Arguments live_nil_head {T}. Local Arguments slot_at_set_same {T}. Local Arguments slot_at_set_other {T}.
Local Arguments wf_invariants_ok {T}. Local Arguments unlink_spec {T}. Local Arguments link_new_spec {T}.
Local Arguments wl_link_try_unfold {T}. Local Arguments store_spec {T}. Local Arguments nslots_link_new {T}.
Local Arguments wl_wf_split {T}.

Local Arguments PIdle {Inp Outp Acc}. Local Arguments PLinkSleep {Inp Outp Acc}. Local Arguments PEnter {Inp Outp Acc}.
Local Arguments PTest {Inp Outp Acc}. Local Arguments PLoad {Inp Outp Acc}. Local Arguments PWait {Inp Outp Acc}.
Local Arguments PSleep {Inp Outp Acc}. Local Arguments PExitUnlink {Inp Outp Acc}.
Local Arguments PExitWA {Inp Outp Acc}. Local Arguments PExitNotify {Inp Outp Acc}.
Local Arguments PHead {Inp Outp Acc}. Local Arguments PLockCore {Inp Outp Acc}. Local Arguments PBatch {Inp Outp Acc}.
Local Arguments PWork {Inp Outp Acc}. Local Arguments PDist {Inp Outp Acc}. Local Arguments PLeaderLoad {Inp Outp Acc}.
Local Arguments PLeaderUnlink {Inp Outp Acc}. Local Arguments PLeaderWA {Inp Outp Acc}.
Local Arguments PLeaderClear {Inp Outp Acc}. Local Arguments PLeaderNotify {Inp Outp Acc}.
Local Arguments mkThread {Inp Outp Acc}. Local Arguments t_pc {Inp Outp Acc}. Local Arguments t_todo {Inp Outp Acc}.
Local Arguments t_done {Inp Outp Acc}.
Local Arguments mkG {Inp Outp Acc CS}. Local Arguments g_wl {Inp Outp Acc CS}. Local Arguments g_S {Inp Outp Acc CS}.
Local Arguments g_C {Inp Outp Acc CS}. Local Arguments g_dw {Inp Outp Acc CS}. Local Arguments g_core {Inp Outp Acc CS}.
Local Arguments g_threads {Inp Outp Acc CS}. Local Arguments g_links {Inp Outp Acc CS}.
Local Arguments g_seen {Inp Outp Acc CS}. Local Arguments g_batches {Inp Outp Acc CS}.
Local Arguments with_threads {Inp Outp Acc CS}. Local Arguments with_wl {Inp Outp Acc CS}.
Local Arguments with_S {Inp Outp Acc CS}. Local Arguments with_C {Inp Outp Acc CS}.
Local Arguments with_dw {Inp Outp Acc CS}. Local Arguments set_pc {Inp Outp Acc}.
Local Arguments set_thread {Inp Outp Acc CS}. Local Arguments tokenize {Inp Outp Acc}.
Local Arguments wake_nth {Inp Outp Acc}. Local Arguments count_sel {Inp Outp Acc}.
Local Arguments notify_one {Inp Outp Acc}. Local Arguments sleeps_on {Inp Outp Acc}.
Local Arguments sleeps_wa {Inp Outp Acc}. Local Arguments notify_cond {Inp Outp Acc CS}.
Local Arguments notify_wa {Inp Outp Acc CS}.
Local Arguments SOk {Inp Outp Acc CS}. Local Arguments SBlocked {Inp Outp Acc CS}.
Local Arguments SDone {Inp Outp Acc CS}. Local Arguments SPanic {Inp Outp Acc CS}.
Local Arguments after_link {Inp Outp Acc CS}. Local Arguments finish {Inp Outp Acc}.
Local Arguments spurious {Inp Outp Acc CS}. Local Arguments thread_finished {Inp Outp Acc}.
Local Arguments all_finished {Inp Outp Acc CS}.

(* ------------------------------------------------------------------ the instance *)
Definition sv_can (cs : unit) (acc : list nat) (i : nat) : bool := true.
Definition sv_batch (cs : unit) (acc : list nat) (i : nat) : unit * list nat := (cs, acc ++ [i]).
Definition sv_work (cs : unit) (n : nat) (acc : list nat) : unit * list nat := (cs, acc).

Local Notation SRUN := (run nat nat (list nat) unit [] sv_can sv_batch sv_work).
Local Notation SEXEC := (exec nat nat (list nat) unit [] sv_can sv_batch sv_work).
Local Notation SESTEPS := (esteps nat nat (list nat) unit [] sv_can sv_batch sv_work).
Local Notation SINIT := (ginit nat nat (list nat) unit).
Local Notation sgstate := (gstate nat nat (list nat) unit).
Local Notation sthread := (thread nat nat (list nat)).

(* one cycle: thread 0 takes 15 steps — 14 to finish its current call (the 12th is the
   notify_one on wait_waiter_available that wakes thread 1), the 15th links its next call into the
   slot just freed — then thread 1 takes its step: it re-tests, finds the ring full and sleeps again *)
Definition starve_cycle : list action := repeat (ARun 0 0) 15 ++ [ARun 1 0].
(* thread 0 links, thread 1 calls link (full: sleeps), then k cycles *)
Definition starve_sched (k : nat) : list action :=
  [ARun 0 0; ARun 1 0] ++ concat (repeat starve_cycle k).

(* what the theorems say about the final state: thread 0 has finished k calls and linked k + 1,
   every link so far is its own; thread 1 is still asleep in link() with nothing done *)
Definition starved (k : nat) (g : sgstate) : Prop :=
  map t_pc (g_threads g) = [PEnter k; PLinkSleep 9 false] /\
  map t_done (g_threads g) = [map (fun j => (j, 7)) (rev (seq 0 k)); []] /\
  map t_todo (g_threads g) = [[]; []] /\
  length (g_links g) = S k /\
  forallb (fun l => fst l =? 0) (g_links g) = true /\
  g_seen g = repeat 7 k /\
  w_waiting (g_wl g) = 1 /\ w_head (g_wl g) = k /\ w_tail (g_wl g) = S k.

Example starve_40 :
  match SRUN (SINIT 1 tt [repeat 7 41; [9]]) (starve_sched 40) with
  | Ok g => starved 40 g /\
            (* every scheduled action was an effective step, thread 1's 41 steps included *)
            SESTEPS (SINIT 1 tt [repeat 7 41; [9]]) (starve_sched 40) = length (starve_sched 40)
  | _ => False
  end.
Proof. vm_compute. repeat split. Qed.

(* had thread 1 been scheduled right after the notification, it would have got the slot *)
Example prompt_wakeup_links :
  match SRUN (SINIT 1 tt [repeat 7 2; [9]]) ([ARun 0 0; ARun 1 0] ++ repeat (ARun 0 0) 12 ++ [ARun 1 0]) with
  | Ok g => map t_pc (g_threads g) = [PLeaderClear 0 7; PEnter 1] /\ g_links g = [(0, 7); (1, 9)]
  | _ => False
  end.
Proof. vm_compute. repeat split. Qed.

(* ------------------------------------------------------------------ every k *)
(* the state at the start of a cycle: thread 0 has linked index j (the ring is full again) *)
Definition St (j : nat) (td : list nat) (dn : list (nat * nat)) (links : list (nat * nat))
           (seen : list nat) (batches : list (nat * nat * list nat)) : sgstate :=
  mkG (mkWl j (S j) 1 [mkSlot true (Some (WInput 7))]) None None false tt
      [mkThread (PEnter j) td dn; mkThread (PLinkSleep 9 false) [] []]
      links seen batches.

Lemma srun_cons : forall (g : sgstate) a r, SRUN g (a :: r) = bind (SEXEC g a) (fun g' => SRUN g' r).
Proof. reflexivity. Qed.

Local Ltac arith1 :=
  match goal with
  | |- context [?a mod 1] => rewrite (Nat.mod_1_r a)
  | |- context [?a =? ?b] =>
      first [ replace (a =? b) with true by (symmetry; apply Nat.eqb_eq; lia)
            | replace (a =? b) with false by (symmetry; apply Nat.eqb_neq; lia) ]
  | |- context [?a <=? ?b] =>
      first [ replace (a <=? b) with true by (symmetry; apply Nat.leb_le; lia)
            | replace (a <=? b) with false by (symmetry; apply Nat.leb_gt; lia) ]
  | |- context [?a <? ?b] =>
      first [ replace (a <? b) with true by (symmetry; apply Nat.ltb_lt; lia)
            | replace (a <? b) with false by (symmetry; apply Nat.ltb_ge; lia) ]
  | |- context [S ?a - ?a] => replace (S a - a) with 1 by lia
  end.
Local Ltac crunch :=
  repeat (progress (cbv -[run Nat.modulo Nat.eqb Nat.leb Nat.ltb Nat.sub Nat.add]; repeat arith1)).
Local Ltac step := rewrite srun_cons; crunch.

(* the first 14 steps of a cycle: thread 0 finishes its call; thread 1 has been notified and the
   ring is empty — a slot is available to the woken sleeper *)
Lemma cycle_notified : forall j td dn links seen batches,
  SRUN (St j td dn links seen batches) (repeat (ARun 0 0) 14) =
  Ok (mkG (mkWl (S j) (S j) 1 [mkSlot false None]) None None false tt
          [mkThread PIdle td ((j, 7) :: dn); mkThread (PLinkSleep 9 true) [] []]
          links (seen ++ [7]) (batches ++ [(j, 1, [7])])).
Proof.
  intros. unfold St. cbv [repeat].
  do 14 step. reflexivity.
Qed.

(* the whole cycle: thread 0's next call takes the slot, thread 1 wakes to a full ring *)
Lemma cycle_step : forall j td dn links seen batches,
  SRUN (St j (7 :: td) dn links seen batches) starve_cycle =
  Ok (St (S j) td ((j, 7) :: dn) (links ++ [(0, 7)]) (seen ++ [7]) (batches ++ [(j, 1, [7])])).
Proof.
  intros. unfold St. cbv [starve_cycle repeat app].
  do 16 step. reflexivity.
Qed.

Lemma start_steps : forall td,
  SRUN (SINIT 1 tt [7 :: td; [9]]) [ARun 0 0; ARun 1 0] = Ok (St 0 td [] [(0, 7)] [] []).
Proof. intro td. reflexivity. Qed.

Lemma cycles : forall k j m dn links seen batches,
  exists batches',
    SRUN (St j (repeat 7 (k + m)) dn links seen batches) (concat (repeat starve_cycle k)) =
    Ok (St (k + j) (repeat 7 m) (map (fun i => (i, 7)) (rev (seq j k)) ++ dn)
           (links ++ repeat (0, 7) k) (seen ++ repeat 7 k) batches').
Proof.
  induction k as [|k IH]; intros j m dn links seen batches.
  - exists batches. cbn [repeat concat run plus seq rev map app]. rewrite !app_nil_r. reflexivity.
  - cbn [repeat concat plus]. rewrite (run_app nat nat (list nat) unit [] sv_can sv_batch sv_work).
    rewrite cycle_step. cbn [bind].
    destruct (IH (S j) m ((j, 7) :: dn) (links ++ [(0, 7)]) (seen ++ [7]) (batches ++ [(j, 1, [7])]))
      as [b' E].
    exists b'. rewrite E. f_equal.
    rewrite <- !app_assoc. cbn [app seq rev map].
    rewrite map_app, <- app_assoc. cbn [map app].
    replace (k + S j) with (S (k + j)) by lia. reflexivity.
Qed.

Lemma forallb_repeat : forall {A} (f : A -> bool) x n, f x = true -> forallb f (repeat x n) = true.
Proof. intros A f x n H. induction n as [|n IH]; cbn [repeat forallb]; [reflexivity|]. rewrite H, IH. reflexivity. Qed.

Theorem starve_all : forall k,
  match SRUN (SINIT 1 tt [repeat 7 (S k); [9]]) (starve_sched k) with
  | Ok g => starved k g
  | _ => False
  end.
Proof.
  intro k. unfold starve_sched.
  rewrite (run_app nat nat (list nat) unit [] sv_can sv_batch sv_work).
  cbn [repeat]. rewrite start_steps. cbn [bind].
  destruct (cycles k 0 0 [] [(0, 7)] [] []) as [b' E].
  rewrite Nat.add_0_r in E. rewrite E.
  unfold starved, St. cbn [g_threads g_links g_seen g_wl map t_pc t_done t_todo w_waiting w_head w_tail repeat app].
  rewrite ?Nat.add_0_r, ?app_nil_r.
  repeat split.
  - cbn [length]. rewrite repeat_length. reflexivity.
  - cbn [forallb fst Nat.eqb andb]. apply forallb_repeat. reflexivity.
Qed.
