(* Sync42/ProofsWcqStep3.v — preservation of the invariant by the leader's steps: setting and
   clearing doing_work, locking the core, stealing an input, the work call, handing out an
   output. *)
From Coq Require Import Arith List Bool Lia Sorted.
From Blue Require Import Sync42.ModelLru Sync42.ModelWaitList Sync42.ModelWcq Sync42.ProofsWaitList
  Sync42.ProofsWcqBase Sync42.ProofsWcqInv Sync42.ProofsWcqStep1.
Import ListNotations.
Open Scope nat_scope.

Local Arguments Nat.modulo : simpl never.
Local Arguments Nat.div : simpl never.

(* ---- implicit type arguments, local to this file (the same block opens every ProofsWcq* file) *)
Local Arguments s_linked {T}. Local Arguments s_value {T}. Local Arguments w_head {T}. Local Arguments w_tail {T}.
Local Arguments w_waiting {T}. Local Arguments w_slots {T}. Local Arguments mkWl {T}. Local Arguments nslots {T}.
Local Arguments slot_at {T}. Local Arguments set_slot {T}. Local Arguments with_head {T}. Local Arguments with_tail {T}.
Local Arguments with_waiting {T}. Local Arguments invariants_ok {T}. Local Arguments wl_full {T}.
Local Arguments Linked {T}. Local Arguments MustWait {T}. Local Arguments wl_link_try {T}. Local Arguments wl_link_wake {T}.
Local Arguments wl_unlink {T}. Local Arguments wl_notify_head {T}. Local Arguments wl_store {T}. Local Arguments wl_load {T}.
Local Arguments wl_is_head {T}. Local Arguments wl_iter_next {T}. Local Arguments live {T}. Local Arguments wl_new {T}.
Local Arguments wl_wf {T}. Local Arguments link_new {T}.
Local Arguments in_live {T}. Local Arguments live_sorted {T}. Local Arguments live_nodup {T}. Local Arguments live_hd {T}.
Local Arguments live_nil_head {T}. Local Arguments slot_at_set_same {T}. Local Arguments slot_at_set_other {T}.
Local Arguments wf_invariants_ok {T}. Local Arguments unlink_spec {T}. Local Arguments link_new_spec {T}.
Local Arguments wl_link_try_unfold {T}. Local Arguments store_spec {T}. Local Arguments nslots_link_new {T}.
Local Arguments wl_wf_split {T}.

Local Arguments PIdle {Inp Outp Acc}. Local Arguments PLinkSleep {Inp Outp Acc}. Local Arguments PEnter {Inp Outp Acc}.
Local Arguments PTest {Inp Outp Acc}. Local Arguments PLoad {Inp Outp Acc}. Local Arguments PWait {Inp Outp Acc}.
Local Arguments PSleep {Inp Outp Acc}. Local Arguments PExitUnlink {Inp Outp Acc}.
Local Arguments PExitWA {Inp Outp Acc}. Local Arguments PExitNotify {Inp Outp Acc}.
Local Arguments PHead {Inp Outp Acc}. Local Arguments PLockCore {Inp Outp Acc}. Local Arguments PBatch {Inp Outp Acc}.
Local Arguments PWork {Inp Outp Acc}. Local Arguments PDist {Inp Outp Acc}. Local Arguments PLeaderLoad {Inp Outp Acc}.
Local Arguments PLeaderUnlink {Inp Outp Acc}. Local Arguments PLeaderWA {Inp Outp Acc}.
Local Arguments PLeaderClear {Inp Outp Acc}. Local Arguments PLeaderNotify {Inp Outp Acc}.
Local Arguments mkThread {Inp Outp Acc}. Local Arguments t_pc {Inp Outp Acc}. Local Arguments t_todo {Inp Outp Acc}.
Local Arguments t_done {Inp Outp Acc}.
Local Arguments mkG {Inp Outp Acc CS}. Local Arguments g_wl {Inp Outp Acc CS}. Local Arguments g_S {Inp Outp Acc CS}.
Local Arguments g_C {Inp Outp Acc CS}. Local Arguments g_dw {Inp Outp Acc CS}. Local Arguments g_core {Inp Outp Acc CS}.
Local Arguments g_threads {Inp Outp Acc CS}. Local Arguments g_links {Inp Outp Acc CS}.
Local Arguments g_seen {Inp Outp Acc CS}. Local Arguments g_batches {Inp Outp Acc CS}.
Local Arguments with_threads {Inp Outp Acc CS}. Local Arguments with_wl {Inp Outp Acc CS}.
Local Arguments with_S {Inp Outp Acc CS}. Local Arguments with_C {Inp Outp Acc CS}.
Local Arguments with_dw {Inp Outp Acc CS}. Local Arguments set_pc {Inp Outp Acc}.
Local Arguments set_thread {Inp Outp Acc CS}. Local Arguments tokenize {Inp Outp Acc}.
Local Arguments wake_nth {Inp Outp Acc}. Local Arguments count_sel {Inp Outp Acc}.
Local Arguments notify_one {Inp Outp Acc}. Local Arguments sleeps_on {Inp Outp Acc}.
Local Arguments sleeps_wa {Inp Outp Acc}. Local Arguments notify_cond {Inp Outp Acc CS}.
Local Arguments notify_wa {Inp Outp Acc CS}.
Local Arguments SOk {Inp Outp Acc CS}. Local Arguments SBlocked {Inp Outp Acc CS}.
Local Arguments SDone {Inp Outp Acc CS}. Local Arguments SPanic {Inp Outp Acc CS}.
Local Arguments after_link {Inp Outp Acc CS}. Local Arguments finish {Inp Outp Acc}.
Local Arguments spurious {Inp Outp Acc CS}. Local Arguments thread_finished {Inp Outp Acc}.
Local Arguments all_finished {Inp Outp Acc CS}.

Section Step3.
  Context {Inp Outp Acc CS : Type}.
  Notation pc := (pc Inp Outp Acc).
  Notation thread := (thread Inp Outp Acc).
  Notation gstate := (gstate Inp Outp Acc CS).
  Notation wst := (wstate Inp Outp).
  Variable progs : list (list Inp).

  (* a thread that is not the leader only depends on lo growing and the log growing *)
  Lemma tinv_nonLP : forall hd dw sv sv' (bs bs' : list (nat * nat * list Outp)) lo lo' cov cov'
                            (p : pc),
    inLP p = false -> lo <= lo' -> (forall b, In b bs -> In b bs') ->
    tinv hd dw sv bs lo cov p -> tinv hd dw sv' bs' lo' cov' p.
  Proof.
    intros hd dw sv sv' bs bs' lo lo' cov cov' p HLP Hlo Hsub H.
    assert (Hd : forall idx o, designatedB bs idx o -> designatedB bs' idx o).
    { intros idx o (f & k & outs & H1 & H2). exists f, k, outs. split; [apply Hsub; exact H1 | exact H2]. }
    destruct p; cbn [tinv inLP] in *; try discriminate; try exact H; try (apply Hd; exact H).
    destruct H as [H1 H2]. split; [lia | apply Hd; exact H2].
  Qed.

  Lemma leader_is : forall (g : gstate) lo cov ld t th,
    InvR progs g lo cov ld -> nth_error (g_threads g) t = Some th -> inLP (t_pc th) = true ->
    ld = Some t.
  Proof.
    intros g lo cov ld t th H Ht HLP.
    eapply lockinv_holder; [apply (i_L _ _ _ _ _ H) | exact Ht | exact HLP].
  Qed.

  Lemma others_nonLP : forall (g : gstate) lo cov ld t th u thu,
    InvR progs g lo cov ld -> nth_error (g_threads g) t = Some th -> inLP (t_pc th) = true ->
    nth_error (g_threads g) u = Some thu -> u <> t -> inLP (t_pc thu) = false.
  Proof.
    intros g lo cov ld t th u thu H Ht HLP Hu Hne.
    destruct (inLP (t_pc thu)) eqn:E; [|reflexivity]. exfalso. apply Hne.
    eapply lockinv_unique; [apply (i_L _ _ _ _ _ H) | exact Hu | exact Ht | exact E | exact HLP].
  Qed.

  Lemma others_nonS : forall (g : gstate) lo cov ld t th u thu,
    InvR progs g lo cov ld -> nth_error (g_threads g) t = Some th -> holdsS (t_pc th) = true ->
    nth_error (g_threads g) u = Some thu -> u <> t -> holdsS (t_pc thu) = false.
  Proof.
    intros g lo cov ld t th u thu H Ht HLP Hu Hne.
    destruct (holdsS (t_pc thu)) eqn:E; [|reflexivity]. exfalso. apply Hne.
    eapply lockinv_unique; [apply (i_S _ _ _ _ _ H) | exact Hu | exact Ht | exact E | exact HLP].
  Qed.

  (* ---- PHead -> PLockCore : doing_work = true *)
  Lemma InvR_set_dw : forall (g : gstate) lo cov ld t th idx,
    InvR progs g lo cov ld -> nth_error (g_threads g) t = Some th -> t_pc th = PHead idx ->
    idx = length (g_seen g) ->
    InvR progs (set_thread (with_dw g true) t (set_pc th (PLockCore idx))) lo cov (Some t).
  Proof.
    intros g lo cov ld t th idx H Ht Hpc Hidx.
    assert (Htv := i_tinv _ _ _ _ _ H t th Ht). rewrite Hpc in Htv. cbn [tinv] in Htv.
    destruct Htv as [Hdw Hhd].
    assert (Hld : ld = None).
    { assert (E := i_dw _ _ _ _ _ H). rewrite Hdw in E. destruct ld; [discriminate | reflexivity]. }
    subst ld. destruct (i_noleader _ _ _ _ _ H eq_refl) as [Elo Ecov].
    unfold set_thread, with_threads, with_dw. gproj.
    apply (InvR_pcstep progs g lo cov None t th (PLockCore idx) (g_S g) (g_C g) true (Some t) H Ht);
      try (rewrite Hpc; reflexivity).
    - eapply lockinv_upd_keep; [apply (i_S _ _ _ _ _ H) | exact Ht | rewrite Hpc; reflexivity].
    - eapply lockinv_upd_keep; [apply (i_C _ _ _ _ _ H) | exact Ht | rewrite Hpc; reflexivity].
    - eapply lockinv_upd_acq; [apply (i_L _ _ _ _ _ H) | exact Ht | reflexivity].
    - reflexivity.
    - discriminate.
    - intros u thu Hu. upd_inv Ht Hu Hne.
      + cbn [set_pc t_pc tinv]. auto.
      + eapply tinv_dw_nonS; [|eapply (i_tinv _ _ _ _ _ H); exact Hu].
        eapply (others_nonS g lo cov None t th u thu H Ht); [rewrite Hpc; reflexivity | exact Hu | exact Hne].
  Qed.

  (* ---- PLockCore -> PBatch : core.lock() *)
  Lemma InvR_lock_core : forall (g : gstate) lo cov ld t th idx (acc0 : Acc),
    InvR progs g lo cov ld -> nth_error (g_threads g) t = Some th -> t_pc th = PLockCore idx ->
    g_C g = None ->
    InvR progs (set_thread (with_C g (Some t)) t (set_pc th (PBatch idx idx 0 acc0))) lo cov ld.
  Proof.
    intros g lo cov ld t th idx acc0 H Ht Hpc HC.
    assert (Htv := i_tinv _ _ _ _ _ H t th Ht). rewrite Hpc in Htv. cbn [tinv] in Htv.
    destruct Htv as (Hhd & Hidx & Hlo & Hcov).
    unfold set_thread, with_threads, with_C. gproj.
    apply (InvR_pcstep progs g lo cov ld t th (PBatch idx idx 0 acc0) (g_S g) (Some t) (g_dw g) ld H Ht);
      try (rewrite Hpc; reflexivity).
    - eapply lockinv_upd_keep; [apply (i_S _ _ _ _ _ H) | exact Ht | rewrite Hpc; reflexivity].
    - eapply lockinv_upd_acq; [rewrite <- HC; apply (i_C _ _ _ _ _ H) | exact Ht | reflexivity].
    - eapply lockinv_upd_keep; [apply (i_L _ _ _ _ _ H) | exact Ht | rewrite Hpc; reflexivity].
    - apply (i_dw _ _ _ _ _ H).
    - apply (i_noleader _ _ _ _ _ H).
    - apply tinv_upd; [apply (i_tinv _ _ _ _ _ H) | exact Ht|].
      cbn [tinv]. repeat split; lia.
  Qed.

  (* ---- PLeaderClear -> PLeaderNotify : doing_work = false *)
  Lemma InvR_clear_dw : forall (g : gstate) lo cov ld t th idx o,
    InvR progs g lo cov ld -> nth_error (g_threads g) t = Some th -> t_pc th = PLeaderClear idx o ->
    InvR progs (set_thread (with_dw g false) t (set_pc th (PLeaderNotify idx o))) lo cov None.
  Proof.
    intros g lo cov ld t th idx o H Ht Hpc.
    assert (Htv := i_tinv _ _ _ _ _ H t th Ht). rewrite Hpc in Htv. cbn [tinv] in Htv.
    destruct Htv as (Hlo & Hcov & Hdes).
    unfold set_thread, with_threads, with_dw. gproj.
    apply (InvR_pcstep progs g lo cov ld t th (PLeaderNotify idx o) (g_S g) (g_C g) false None H Ht);
      try (rewrite Hpc; reflexivity).
    - eapply lockinv_upd_keep; [apply (i_S _ _ _ _ _ H) | exact Ht | rewrite Hpc; reflexivity].
    - eapply lockinv_upd_keep; [apply (i_C _ _ _ _ _ H) | exact Ht | rewrite Hpc; reflexivity].
    - eapply lockinv_upd_rel; [apply (i_L _ _ _ _ _ H) | exact Ht | rewrite Hpc; reflexivity | reflexivity].
    - reflexivity.
    - auto.
    - intros u thu Hu. upd_inv Ht Hu Hne.
      + cbn [set_pc t_pc tinv]. exact Hdes.
      + eapply tinv_dw_false. eapply (i_tinv _ _ _ _ _ H); exact Hu.
  Qed.

  (* ---- PBatch: steal the input of waiter cur *)
  Lemma InvR_steal : forall (g : gstate) lo cov ld t th idx cur taken acc (acc' : Acc) (core' : CS) inp,
    InvR progs g lo cov ld -> nth_error (g_threads g) t = Some th ->
    t_pc th = PBatch idx cur taken acc -> cur < w_tail (g_wl g) ->
    s_value (slot_at (g_wl g) cur) = Some (WInput inp) ->
    InvR progs (mkG (wl_store (g_wl g) cur WStolen) (g_S g) (g_C g) (g_dw g) core'
                    (upd t (set_pc th (PBatch idx (S cur) (S taken) acc')) (g_threads g))
                    (g_links g) (g_seen g ++ [inp]) (g_batches g)) lo cov ld.
  Proof.
    intros g lo cov ld t th idx cur taken acc acc' core' inp H Ht Hpc Hcur Hval.
    assert (Htv := i_tinv _ _ _ _ _ H t th Ht). rewrite Hpc in Htv. cbn [tinv] in Htv.
    destruct Htv as (Hhd & Hlo & Hcov & Hcur1 & Hcur2).
    assert (Hld := leader_is g lo cov ld t th H Ht ltac:(rewrite Hpc; reflexivity)).
    assert (Hoth := fun u thu => others_nonLP g lo cov ld t th u thu H Ht ltac:(rewrite Hpc; reflexivity)).
    destruct H.
    set (w := g_wl g) in *.
    assert (Hcl : In cur (live w)) by (apply i_live_hi; lia).
    destruct (store_spec w cur WStolen i_wf Hcl) as (Hwf' & Hn' & Hlive' & Hv' & Hoth').
    set (w' := wl_store w cur WStolen) in *.
    assert (Hrng : forall j, In j (live w) -> w_head w <= j < w_tail w)
      by (intros j Hj; apply in_live in Hj; tauto).
    constructor; gproj; try rewrite app_length; cbn [length]; try rewrite Nat.add_1_r;
      try assumption.
    - change (w_tail w') with (w_tail w). lia.
    - destruct (i_input cur ltac:(lia)) as (t0 & inp0 & E1 & E2).
      assert (inp0 = inp) by congruence. subst inp0.
      rewrite <- Hcur2, (firstn_snoc_nth _ _ _ E1), map_app, Hcur2, <- i_seen. reflexivity.
    - lia.
    - lia.
    - intros j Hj. rewrite Hlive'. apply i_live_hi. exact Hj.
    - intros j Hj. change (w_tail w') with (w_tail w) in Hj.
      rewrite Hoth' by (try apply Hrng; try apply i_live_hi; lia). apply i_input. lia.
    - intros j Hj. destruct (Nat.eq_dec j cur) as [E | E]; [subst j; exact Hv'|].
      rewrite Hoth' by (try apply Hrng; try apply i_live_hi; lia). apply i_stolen. lia.
    - intros j Hj Hjlo. rewrite Hlive' in Hj.
      rewrite Hoth' by (try apply Hrng; try assumption; lia). apply i_output; assumption.
    - change (w_waiting w') with (w_waiting w).
      assert (E := count_sel_upd is_ls t th (set_pc th (PBatch idx (S cur) (S taken) acc')) (g_threads g) Ht).
      cbn [set_pc t_pc] in E. rewrite Hpc in E. cbn [is_ls] in E. lia.
    - eapply lockinv_upd_keep; [exact i_S | exact Ht | rewrite Hpc; reflexivity].
    - eapply lockinv_upd_keep; [exact i_C | exact Ht | rewrite Hpc; reflexivity].
    - eapply lockinv_upd_keep; [exact i_L | exact Ht | rewrite Hpc; reflexivity].
    - intro E. congruence.
    - intros u thu j Hu Hp. rewrite Hlive'. upd_inv Ht Hu Hne.
      + cbn [set_pc t_pc pc_idx] in Hp. eapply i_idx_live; [exact Ht | rewrite Hpc; exact Hp].
      + eapply i_idx_live; eassumption.
    - intros j Hj. rewrite Hlive' in Hj. destruct (i_live_idx j Hj) as (u & thu & Hu & Hp).
      destruct (Nat.eq_dec u t) as [E | E].
      + subst u. assert (thu = th) by congruence. subst thu.
        eexists t, _. split; [eapply nth_error_upd_same; exact Ht|].
        rewrite Hpc in Hp. exact Hp.
      + exists u, thu. split; [rewrite nth_error_upd_other by congruence; exact Hu | exact Hp].
    - intros u thu Hu. upd_inv Ht Hu Hne.
      + cbn [set_pc t_pc t_done pc_gidx]. rewrite <- (i_own t th Ht), Hpc. reflexivity.
      + apply i_own. exact Hu.
    - intros u thu Hu. change (w_head w') with (w_head w). upd_inv Ht Hu Hne.
      + cbn [set_pc t_pc tinv]. repeat split; lia.
      + eapply tinv_nonLP; [eapply Hoth; eassumption | apply le_n | | eapply i_tinv; exact Hu]; intros b Hb; exact Hb.
    - intros u thu j o Hu Hin. upd_inv Ht Hu Hne; eapply i_done; eassumption.
    - intros u thu Hu. upd_inv Ht Hu Hne.
      + cbn [set_pc t_pc t_todo pend]. rewrite <- (i_prog t th Ht), Hpc. reflexivity.
      + apply i_prog. exact Hu.
    - rewrite upd_length. exact i_nthreads.
    - intros j u i0 Hl. rewrite upd_length. eapply i_links_thr; exact Hl.
  Qed.

  (* ---- PWork: the work call *)
  Lemma InvR_work : forall (g : gstate) lo cov ld t th idx taken acc (core' : CS) outs,
    InvR progs g lo cov ld -> nth_error (g_threads g) t = Some th ->
    t_pc th = PWork idx taken acc -> taken <= length outs ->
    InvR progs (mkG (g_wl g) (g_S g) (g_C g) (g_dw g) core'
                    (upd t (set_pc th (PDist idx idx taken outs)) (g_threads g))
                    (g_links g) (g_seen g) (g_batches g ++ [(idx, taken, outs)]))
         lo (length (g_seen g)) ld.
  Proof.
    intros g lo cov ld t th idx taken acc core' outs H Ht Hpc Hlen.
    assert (Htv := i_tinv _ _ _ _ _ H t th Ht). rewrite Hpc in Htv. cbn [tinv] in Htv.
    destruct Htv as (Hhd & Hlo & Hcov & Hsv & Htk).
    assert (Hld := leader_is g lo cov ld t th H Ht ltac:(rewrite Hpc; reflexivity)).
    assert (Hoth := fun u thu => others_nonLP g lo cov ld t th u thu H Ht ltac:(rewrite Hpc; reflexivity)).
    destruct H.
    assert (Hsub : forall b, In b (g_batches g) -> In b (g_batches g ++ [(idx, taken, outs)]))
      by (intros b Hb; apply in_or_app; left; exact Hb).
    constructor; gproj; try assumption.
    - lia.
    - intros j Hj Hjlo. destruct (i_output j Hj Hjlo) as (o & E1 & E2).
      exists o. split; [exact E1 | apply designatedB_mono; exact E2].
    - rewrite <- Hsv. subst cov. apply batches_from_snoc; assumption.
    - assert (E := count_sel_upd is_ls t th (set_pc th (PDist idx idx taken outs)) (g_threads g) Ht).
      cbn [set_pc t_pc] in E. rewrite Hpc in E. cbn [is_ls] in E. lia.
    - eapply lockinv_upd_keep; [exact i_S | exact Ht | rewrite Hpc; reflexivity].
    - eapply lockinv_upd_keep; [exact i_C | exact Ht | rewrite Hpc; reflexivity].
    - eapply lockinv_upd_keep; [exact i_L | exact Ht | rewrite Hpc; reflexivity].
    - intro E. congruence.
    - intros u thu j Hu Hp. upd_inv Ht Hu Hne.
      + cbn [set_pc t_pc pc_idx] in Hp. eapply i_idx_live; [exact Ht | rewrite Hpc; exact Hp].
      + eapply i_idx_live; eassumption.
    - intros j Hj. destruct (i_live_idx j Hj) as (u & thu & Hu & Hp).
      destruct (Nat.eq_dec u t) as [E | E].
      + subst u. assert (thu = th) by congruence. subst thu.
        eexists t, _. split; [eapply nth_error_upd_same; exact Ht|].
        rewrite Hpc in Hp. exact Hp.
      + exists u, thu. split; [rewrite nth_error_upd_other by congruence; exact Hu | exact Hp].
    - intros u thu Hu. upd_inv Ht Hu Hne.
      + cbn [set_pc t_pc t_done pc_gidx]. rewrite <- (i_own t th Ht), Hpc. reflexivity.
      + apply i_own. exact Hu.
    - intros u thu Hu. upd_inv Ht Hu Hne.
      + cbn [set_pc t_pc tinv]. repeat (split; [lia|]).
        exists outs. replace (length (g_seen g) - idx) with taken by lia.
        rewrite Nat.sub_diag. cbn [skipn]. split; [|split; [reflexivity | exact Hlen]].
        apply in_or_app. right. left. reflexivity.
      + eapply tinv_nonLP; [eapply Hoth; eassumption | apply le_n | exact Hsub | eapply i_tinv; exact Hu].
    - intros u thu j o Hu Hin. apply designatedB_mono. upd_inv Ht Hu Hne; eapply i_done; eassumption.
    - intros u thu Hu. upd_inv Ht Hu Hne.
      + cbn [set_pc t_pc t_todo pend]. rewrite <- (i_prog t th Ht), Hpc. reflexivity.
      + apply i_prog. exact Hu.
    - rewrite upd_length. exact i_nthreads.
    - intros j u i0 Hl. rewrite upd_length. eapply i_links_thr; exact Hl.
  Qed.

  (* ---- PDist: hand an output to waiter cur *)
  Lemma InvR_dist : forall (g : gstate) lo cov ld t th idx cur rem o outs,
    InvR progs g lo cov ld -> nth_error (g_threads g) t = Some th ->
    t_pc th = PDist idx cur (S rem) (o :: outs) ->
    InvR progs (mkG (wl_store (g_wl g) cur (WOutput o)) (g_S g) (g_C g) (g_dw g) (g_core g)
                    (upd t (set_pc th (PDist idx (S cur) rem outs)) (g_threads g))
                    (g_links g) (g_seen g) (g_batches g)) (S cur) cov ld.
  Proof.
    intros g lo cov ld t th idx cur rem o outs H Ht Hpc.
    assert (Htv := i_tinv _ _ _ _ _ H t th Ht). rewrite Hpc in Htv. cbn [tinv] in Htv.
    destruct Htv as (Hhd & Hlo & Hcov & Hsv & Hic & Hisv & ao & Hao1 & Hao2 & Hao3).
    assert (Hld := leader_is g lo cov ld t th H Ht ltac:(rewrite Hpc; reflexivity)).
    assert (Hoth := fun u thu => others_nonLP g lo cov ld t th u thu H Ht ltac:(rewrite Hpc; reflexivity)).
    destruct H.
    set (w := g_wl g) in *.
    assert (Hcl : In cur (live w)) by (apply i_live_hi; lia).
    destruct (store_spec w cur (WOutput o) i_wf Hcl) as (Hwf' & Hn' & Hlive' & Hv' & Hoth').
    set (w' := wl_store w cur (WOutput o)) in *.
    assert (Hrng : forall j, In j (live w) -> w_head w <= j < w_tail w)
      by (intros j Hj; apply in_live in Hj; tauto).
    symmetry in Hao2. destruct (skipn_cons_nth _ _ _ _ Hao2) as [Hnth Hskip].
    constructor; gproj; try assumption.
    - lia.
    - intros j Hj. rewrite Hlive'. apply i_live_hi. change (w_tail w') with (w_tail w) in Hj. lia.
    - intros j Hj. change (w_tail w') with (w_tail w) in Hj.
      rewrite Hoth' by (try apply Hrng; try apply i_live_hi; lia). apply i_input. lia.
    - intros j Hj.
      rewrite Hoth' by (try apply Hrng; try apply i_live_hi; lia). apply i_stolen. lia.
    - intros j Hj Hjlo. rewrite Hlive' in Hj.
      destruct (Nat.eq_dec j cur) as [E | E].
      + subst j. exists o. split; [exact Hv'|].
        exists idx, (length (g_seen g) - idx), ao. split; [exact Hao1|]. split; [lia | exact Hnth].
      + rewrite Hoth' by (try apply Hrng; try assumption; lia). apply i_output; [assumption | lia].
    - change (w_waiting w') with (w_waiting w).
      assert (E := count_sel_upd is_ls t th (set_pc th (PDist idx (S cur) rem outs)) (g_threads g) Ht).
      cbn [set_pc t_pc] in E. rewrite Hpc in E. cbn [is_ls] in E. lia.
    - eapply lockinv_upd_keep; [exact i_S | exact Ht | rewrite Hpc; reflexivity].
    - eapply lockinv_upd_keep; [exact i_C | exact Ht | rewrite Hpc; reflexivity].
    - eapply lockinv_upd_keep; [exact i_L | exact Ht | rewrite Hpc; reflexivity].
    - intro E. congruence.
    - intros u thu j Hu Hp. rewrite Hlive'. upd_inv Ht Hu Hne.
      + cbn [set_pc t_pc pc_idx] in Hp. eapply i_idx_live; [exact Ht | rewrite Hpc; exact Hp].
      + eapply i_idx_live; eassumption.
    - intros j Hj. rewrite Hlive' in Hj. destruct (i_live_idx j Hj) as (u & thu & Hu & Hp).
      destruct (Nat.eq_dec u t) as [E | E].
      + subst u. assert (thu = th) by congruence. subst thu.
        eexists t, _. split; [eapply nth_error_upd_same; exact Ht|].
        rewrite Hpc in Hp. exact Hp.
      + exists u, thu. split; [rewrite nth_error_upd_other by congruence; exact Hu | exact Hp].
    - intros u thu Hu. upd_inv Ht Hu Hne.
      + cbn [set_pc t_pc t_done pc_gidx]. rewrite <- (i_own t th Ht), Hpc. reflexivity.
      + apply i_own. exact Hu.
    - intros u thu Hu. change (w_head w') with (w_head w). upd_inv Ht Hu Hne.
      + cbn [set_pc t_pc tinv]. repeat (split; [lia|]).
        exists ao. split; [exact Hao1|]. split; [|exact Hao3].
        replace (S cur - idx) with (S (cur - idx)) by lia. symmetry. exact Hskip.
      + eapply tinv_nonLP; [eapply Hoth; eassumption | | | eapply i_tinv; exact Hu]; [lia | intros b Hb; exact Hb].
    - intros u thu j o' Hu Hin. upd_inv Ht Hu Hne; eapply i_done; eassumption.
    - intros u thu Hu. upd_inv Ht Hu Hne.
      + cbn [set_pc t_pc t_todo pend]. rewrite <- (i_prog t th Ht), Hpc. reflexivity.
      + apply i_prog. exact Hu.
    - rewrite upd_length. exact i_nthreads.
    - intros j u i0 Hl. rewrite upd_length. eapply i_links_thr; exact Hl.
  Qed.
End Step3.
