(* Sync42/ProofsC18.v — corollaries that put the results of ProofsLru.v and ProofsWaitList.v in
   the form "for every reachable state", used by Props_C18.v. *)
From Coq Require Import NArith Arith List Bool Lia.
From Blue Require Import Sync42.ModelLru Sync42.ModelWaitList Sync42.ProofsLru Sync42.ProofsWaitList.
Import ListNotations.
Open Scope nat_scope.

(* ------------------------------------------------------------------ LRU *)
Section LruCor.
  Variables K V : Type.
  Variable keqb : K -> K -> bool.
  Variable vsize : V -> N.
  Hypothesis keqb_spec : forall a b, keqb a b = true <-> a = b.

  Lemma lru_run_det : forall cap ops st outs,
    run K V keqb vsize cap (init K V) ops = Ok (st, outs) ->
    outs = snd (s_run K V keqb vsize cap [] ops) /\
    Rep K V vsize st (fst (s_run K V keqb vsize cap [] ops)).
  Proof.
    intros cap ops st outs H.
    destruct (lru_run_refines K V keqb vsize keqb_spec cap ops) as (st' & Hr & HR).
    rewrite Hr in H. injection H as E1 E2. subst st' outs. split; [reflexivity | exact HR].
  Qed.

  (* no operation sequence panics, dereferences a dangling pointer or runs out of fuel, and the
     outputs (lookups, pops, sizes) are those of the sequential LRU map *)
  Lemma lru_outputs : forall cap ops,
    exists st, run K V keqb vsize cap (init K V) ops
               = Ok (st, snd (s_run K V keqb vsize cap [] ops)).
  Proof.
    intros cap ops. destruct (lru_run_refines K V keqb vsize keqb_spec cap ops) as (st & Hr & _).
    exists st. exact Hr.
  Qed.

  (* accounted size = sum of the entries' sizes; nothing leaks; the index has one entry per node *)
  Lemma lru_size_exact : forall cap ops st outs,
    run K V keqb vsize cap (init K V) ops = Ok (st, outs) ->
    let l := fst (s_run K V keqb vsize cap [] ops) in
    st_size K V st = total K V vsize l /\
    length (st_heap K V st) = length l /\ length (st_keys K V st) = length l /\
    NoDup (map fst l) /\
    (l = [] <-> st_head K V st = null) /\ (l = [] <-> st_tail K V st = null).
  Proof.
    intros cap ops st outs H l.
    destruct (lru_run_det cap ops st outs H) as (_ & HR). fold l in HR.
    split; [exact (rep_size K V vsize st l HR)|].
    destruct (rep_no_leak K V vsize st l HR) as (H1 & H2).
    split; [exact H1|]. split; [exact H2|].
    split; [exact (rep_nodup_keys K V vsize st l HR)|].
    exact (rep_head_tail K V vsize st l HR).
  Qed.

  (* the implementation's accounted size obeys the capacity bound *)
  Lemma lru_size_capacity : forall cap ops st outs,
    run K V keqb vsize cap (init K V) ops = Ok (st, outs) ->
    let l := fst (s_run K V keqb vsize cap [] ops) in
    (st_size K V st <= cap + ne_total K V keqb vsize l (ne_run K V keqb vsize cap [] [] ops))%N.
  Proof.
    intros cap ops st outs H l.
    destruct (lru_run_det cap ops st outs H) as (_ & HR). fold l in HR.
    rewrite (rep_size K V vsize st l HR).
    exact (lru_capacity_bound K V keqb vsize keqb_spec cap ops).
  Qed.
End LruCor.

(* ------------------------------------------------------------------ wait list *)
Section WlCor.
  Variable T : Type.

  Lemma wl_run_det : forall n ops c outs, 0 < n ->
    wrun T (client_new T n) ops = Ok (c, outs) ->
    outs = snd (sp_run T (spec_new T n) ops) /\
    wl_rel T c (fst (sp_run T (spec_new T n) ops)).
  Proof.
    intros n ops c outs Hn H.
    destruct (wl_run_refines T n ops Hn) as (c' & Hr & HR).
    rewrite Hr in H. injection H as E1 E2. subst c' outs. split; [reflexivity | exact HR].
  Qed.

  (* in every reachable state: the guards held are exactly the linked waiters; if there is one,
     exactly one of them is the head and it is the oldest; otherwise head = tail *)
  Lemma wl_reachable_one_head : forall n ops c outs, 0 < n ->
    wrun T (client_new T n) ops = Ok (c, outs) ->
    live T (c_wl T c) = c_owned T c /\
    (c_owned T c <> [] ->
       exists h, In h (c_owned T c) /\ is_head T (c_wl T c) h = true /\
         (forall i, In i (c_owned T c) -> is_head T (c_wl T c) i = true -> i = h) /\
         (forall i, In i (c_owned T c) -> h <= i)) /\
    (c_owned T c = [] -> w_head T (c_wl T c) = w_tail T (c_wl T c)).
  Proof.
    intros n ops c outs Hn H.
    destruct (wl_run_det n ops c outs Hn H) as (_ & HR).
    split.
    - destruct HR as (_ & _ & _ & _ & _ & Hl & _). exact Hl.
    - split.
      + intro Hne. exact (wl_one_head T c _ HR Hne).
      + intro He. exact (wl_no_head_when_empty T c _ HR He).
  Qed.

  (* when the head leaves, the oldest remaining linked waiter becomes the head *)
  Lemma wl_reachable_handover : forall n ops c outs h rest, 0 < n ->
    wrun T (client_new T n) ops = Ok (c, outs) -> c_owned T c = h :: rest ->
    exists w' b, wl_unlink T (c_wl T c) h = Ok (w', b) /\ live T w' = rest /\
      w_head T w' = hd (w_tail T (c_wl T c)) rest /\
      (forall i, In i rest -> is_head T w' i = true <-> i = hd 0 rest).
  Proof.
    intros n ops c outs h rest Hn H Ho.
    destruct (wl_run_det n ops c outs Hn H) as (_ & HR).
    exact (wl_handover T c _ h rest HR Ho).
  Qed.

  (* a waiter that is not the head may leave at any time without disturbing the head *)
  Lemma wl_reachable_unlink_other : forall n ops c outs i, 0 < n ->
    wrun T (client_new T n) ops = Ok (c, outs) ->
    In i (c_owned T c) -> i <> w_head T (c_wl T c) ->
    exists w' b, wl_unlink T (c_wl T c) i = Ok (w', b) /\ w_head T w' = w_head T (c_wl T c) /\
      live T w' = filter (fun j => negb (j =? i)) (c_owned T c).
  Proof.
    intros n ops c outs i Hn H Hi Hne.
    destruct (wl_run_det n ops c outs Hn H) as (_ & HR).
    exact (wl_unlink_non_head_keeps_head T c _ i HR Hi Hne).
  Qed.

  (* link blocks exactly when the window from the head to the next index spans the whole ring;
     otherwise it hands out the next index, so index order is the order of entry *)
  Lemma wl_reachable_link : forall n ops c outs t, 0 < n ->
    wrun T (client_new T n) ops = Ok (c, outs) ->
    ((exists w', wl_link_try T (c_wl T c) t = Ok (MustWait T w')) <->
     w_tail T (c_wl T c) - w_head T (c_wl T c) = nslots T (c_wl T c)) /\
    (forall w' i, wl_link_try T (c_wl T c) t = Ok (Linked T w' i) ->
       i = w_tail T (c_wl T c) /\ live T w' = live T (c_wl T c) ++ [i] /\ wl_load T w' i = Ok t).
  Proof.
    intros n ops c outs t Hn H.
    destruct (wl_run_det n ops c outs Hn H) as (_ & HR).
    split.
    - exact (wl_link_blocks_iff_full T c _ t HR).
    - intros w' i Hl. exact (wl_link_index T c _ t w' i HR Hl).
  Qed.
End WlCor.

(* ------------------------------------------------------------------ link() can be overtaken *)
From Blue Require Import Sync42.ModelWcq Sync42.ProofsWcqTerm Sync42.ProofsWcqStarve.

Lemma starve_exists : forall k, exists g,
  ModelWcq.run nat nat (list nat) unit [] sv_can sv_batch sv_work
    (ginit nat nat (list nat) unit 1 tt [repeat 7 (S k); [9]]) (starve_sched k) = Ok g /\
  starved k g.
Proof.
  intro k. pose proof (starve_all k) as H.
  destruct (ModelWcq.run nat nat (list nat) unit [] sv_can sv_batch sv_work
              (ginit nat nat (list nat) unit 1 tt [repeat 7 (S k); [9]]) (starve_sched k))
    as [g| | |]; try contradiction.
  exists g. split; [reflexivity | exact H].
Qed.

(* in that schedule thread 1 takes a step in every cycle of 16 *)
Lemma starve_sched_fair : forall k,
  length (starve_sched k) = 2 + 16 * k /\
  length (filter (fun a => match a with ARun 1 _ => true | _ => false end) (starve_sched k)) = S k.
Proof.
  intro k.
  assert (L : length (concat (repeat starve_cycle k)) = 16 * k).
  { induction k as [|k IH]; [reflexivity|].
    cbn [repeat concat]. rewrite app_length, IH. change (length starve_cycle) with 16. lia. }
  assert (F : length (filter (fun a => match a with ARun 1 _ => true | _ => false end)
                             (concat (repeat starve_cycle k))) = k).
  { clear L. induction k as [|k IH]; [reflexivity|].
    cbn [repeat concat]. rewrite filter_app, app_length, IH. reflexivity. }
  unfold starve_sched. split.
  - rewrite app_length, L. reflexivity.
  - rewrite filter_app, app_length, F. reflexivity.
Qed.
