(* Sync42/ProofsWcqTerm.v — bounded work for the small-step model ModelWcq.v: a measure on global
   states that every effective thread step strictly decreases and a spurious wake-up raises by at
   most 4; hence every run makes at most 33 * (number of calls) + 4 * (number of spurious wake-ups)
   effective steps, a run with that many effective steps has finished every call, and a run that no
   thread can extend has finished every call.  Also: linked calls are served in link order (FIFO).
   Proofs only; no axioms. *)
From Coq Require Import Arith List Bool Lia Permutation.
From Blue Require Import Sync42.ModelLru Sync42.ModelWaitList Sync42.ModelWcq Sync42.ProofsWaitList
  Sync42.ProofsWcqBase Sync42.ProofsWcqInv Sync42.ProofsWcqProg Sync42.ProofsWcq.
Import ListNotations.
Open Scope nat_scope.

Local Arguments Nat.modulo : simpl never.
Local Arguments Nat.div : simpl never.

(* ---- implicit type arguments, local to this file (the same block opens every ProofsWcq* file) *)
Local Arguments s_linked {T}. Local Arguments s_value {T}. Local Arguments w_head {T}. Local Arguments w_tail {T}.
Local Arguments w_waiting {T}. Local Arguments w_slots {T}. Local Arguments mkWl {T}. Local Arguments nslots {T}.
Local Arguments slot_at {T}. Local Arguments set_slot {T}. Local Arguments with_head {T}. Local Arguments with_tail {T}.
Local Arguments with_waiting {T}. Local Arguments invariants_ok {T}. Local Arguments wl_full {T}.
Local Arguments Linked {T}. Local Arguments MustWait {T}. Local Arguments wl_link_try {T}. Local Arguments wl_link_wake {T}.
Local Arguments wl_unlink {T}. Local Arguments wl_notify_head {T}. Local Arguments wl_store {T}. Local Arguments wl_load {T}.
Local Arguments wl_is_head {T}. Local Arguments wl_iter_next {T}. Local Arguments live {T}. Local Arguments wl_new {T}.
Local Arguments wl_wf {T}. Local Arguments link_new {T}.
Local Arguments in_live {T}. Local Arguments live_sorted {T}. Local Arguments live_nodup {T}. Local Arguments live_hd {T}.
Local Arguments live_nil_head {T}. Local Arguments slot_at_set_same {T}. Local Arguments slot_at_set_other {T}.
Local Arguments wf_invariants_ok {T}. Local Arguments unlink_spec {T}. Local Arguments link_new_spec {T}.
Local Arguments wl_link_try_unfold {T}. Local Arguments store_spec {T}. Local Arguments nslots_link_new {T}.
Local Arguments wl_wf_split {T}.

Local Arguments PIdle {Inp Outp Acc}. Local Arguments PLinkSleep {Inp Outp Acc}. Local Arguments PEnter {Inp Outp Acc}.
Local Arguments PTest {Inp Outp Acc}. Local Arguments PLoad {Inp Outp Acc}. Local Arguments PWait {Inp Outp Acc}.
Local Arguments PSleep {Inp Outp Acc}. Local Arguments PExitUnlink {Inp Outp Acc}.
Local Arguments PExitWA {Inp Outp Acc}. Local Arguments PExitNotify {Inp Outp Acc}.
Local Arguments PHead {Inp Outp Acc}. Local Arguments PLockCore {Inp Outp Acc}. Local Arguments PBatch {Inp Outp Acc}.
Local Arguments PWork {Inp Outp Acc}. Local Arguments PDist {Inp Outp Acc}. Local Arguments PLeaderLoad {Inp Outp Acc}.
Local Arguments PLeaderUnlink {Inp Outp Acc}. Local Arguments PLeaderWA {Inp Outp Acc}.
Local Arguments PLeaderClear {Inp Outp Acc}. Local Arguments PLeaderNotify {Inp Outp Acc}.
Local Arguments mkThread {Inp Outp Acc}. Local Arguments t_pc {Inp Outp Acc}. Local Arguments t_todo {Inp Outp Acc}.
Local Arguments t_done {Inp Outp Acc}.
Local Arguments mkG {Inp Outp Acc CS}. Local Arguments g_wl {Inp Outp Acc CS}. Local Arguments g_S {Inp Outp Acc CS}.
Local Arguments g_C {Inp Outp Acc CS}. Local Arguments g_dw {Inp Outp Acc CS}. Local Arguments g_core {Inp Outp Acc CS}.
Local Arguments g_threads {Inp Outp Acc CS}. Local Arguments g_links {Inp Outp Acc CS}.
Local Arguments g_seen {Inp Outp Acc CS}. Local Arguments g_batches {Inp Outp Acc CS}.
Local Arguments with_threads {Inp Outp Acc CS}. Local Arguments with_wl {Inp Outp Acc CS}.
Local Arguments with_S {Inp Outp Acc CS}. Local Arguments with_C {Inp Outp Acc CS}.
Local Arguments with_dw {Inp Outp Acc CS}. Local Arguments set_pc {Inp Outp Acc}.
Local Arguments set_thread {Inp Outp Acc CS}. Local Arguments tokenize {Inp Outp Acc}.
Local Arguments wake_nth {Inp Outp Acc}. Local Arguments count_sel {Inp Outp Acc}.
Local Arguments notify_one {Inp Outp Acc}. Local Arguments sleeps_on {Inp Outp Acc}.
Local Arguments sleeps_wa {Inp Outp Acc}. Local Arguments notify_cond {Inp Outp Acc CS}.
Local Arguments notify_wa {Inp Outp Acc CS}.
Local Arguments SOk {Inp Outp Acc CS}. Local Arguments SBlocked {Inp Outp Acc CS}.
Local Arguments SDone {Inp Outp Acc CS}. Local Arguments SPanic {Inp Outp Acc CS}.
Local Arguments after_link {Inp Outp Acc CS}. Local Arguments finish {Inp Outp Acc}.
Local Arguments spurious {Inp Outp Acc CS}. Local Arguments thread_finished {Inp Outp Acc}.
Local Arguments all_finished {Inp Outp Acc CS}.

(* ------------------------------------------------------------------ the measure *)
Section Measure.
  Context {Inp Outp Acc CS : Type}.
  Notation pc := (pc Inp Outp Acc).
  Notation thread := (thread Inp Outp Acc).
  Notation gstate := (gstate Inp Outp Acc CS).
  Notation wst := (wstate Inp Outp).

  (* weight of a program counter *)
  Definition pcw (p : pc) : nat :=
    match p with
    | PIdle => 0
    | PLinkSleep _ false => 32
    | PLinkSleep _ true => 34
    | PEnter _ => 18
    | PTest _ => 17
    | PLoad _ => 16
    | PWait _ => 15
    | PSleep _ false => 14
    | PSleep _ true => 18
    | PExitUnlink _ _ => 9
    | PExitWA _ _ => 8
    | PExitNotify _ _ => 5
    | PHead _ => 16
    | PLockCore _ => 15
    | PBatch _ _ taken _ => 14 + 9 * taken
    | PWork _ taken _ => 13 + 9 * taken
    | PDist _ _ rem _ => 12 + 9 * rem
    | PLeaderLoad _ => 11
    | PLeaderUnlink _ _ => 10
    | PLeaderWA _ _ => 9
    | PLeaderClear _ _ => 6
    | PLeaderNotify _ _ => 5
    end.

  Definition thw (th : thread) : nat := 33 * length (t_todo th) + pcw (t_pc th).

  Definition is_input (s : slot wst) : bool :=
    match s_value s with Some (WInput _) => true | _ => false end.

  Definition inputs_w (w : wl wst) : nat := 14 * length (filter is_input (w_slots w)).

  Definition measure (g : gstate) : nat :=
    list_sum (map thw (g_threads g)) + inputs_w (g_wl g).

  (* ---- the thread part *)
  Definition wsum (ths : list thread) : nat := list_sum (map thw ths).

  Lemma wsum_cons : forall (x : thread) r, wsum (x :: r) = thw x + wsum r.
  Proof. reflexivity. Qed.

  Lemma wsum_upd : forall t (th th' : thread) ths,
    nth_error ths t = Some th -> wsum (upd t th' ths) + thw th = wsum ths + thw th'.
  Proof.
    intros t th th' ths. revert t.
    induction ths as [|x r IH]; intros [|t] Ht; cbn [nth_error upd] in *;
      try discriminate; rewrite !wsum_cons.
    - injection Ht as E. subst x. lia.
    - specialize (IH t Ht). lia.
  Qed.

  (* sel-sleepers gain at most K when they get a token *)
  Definition tokb (sel : pc -> bool) (K : nat) : Prop :=
    forall p, sel p = true -> pcw (tokenize p) <= pcw p + K.

  Lemma tokb_wa : tokb sleeps_wa 2.
  Proof. intros [| i [|] | | | | | idx [|] | | | | | | | | | | | | | ] H; cbn in *; try discriminate; lia. Qed.

  Lemma tokb_on : forall n idx, tokb (sleeps_on n idx) 4.
  Proof.
    intros n idx [| i [|] | | | | | j [|] | | | | | | | | | | | | | ] H;
      cbn [sleeps_on tokenize pcw] in *; try discriminate; lia.
  Qed.

  Lemma tokenize_pcw : forall p : pc, pcw (tokenize p) <= pcw p + 4.
  Proof. intros [| i [|] | | | | | idx [|] | | | | | | | | | | | | | ]; cbn [tokenize pcw]; lia. Qed.

  Lemma wsum_wake_nth : forall sel K k (ths : list thread),
    tokb sel K -> wsum (wake_nth sel k ths) <= wsum ths + K.
  Proof.
    intros sel K k ths HK. revert k.
    induction ths as [|x r IH]; intro k; cbn [wake_nth]; [lia|].
    destruct (sel (t_pc x)) eqn:Hs.
    - destruct k as [|k'].
      + rewrite !wsum_cons. unfold thw at 1. cbn [set_pc t_todo t_pc].
        specialize (HK _ Hs). unfold thw. lia.
      + rewrite !wsum_cons. specialize (IH k'). lia.
    - rewrite !wsum_cons. specialize (IH k). lia.
  Qed.

  Lemma wsum_notify_one : forall sel K c (ths : list thread),
    tokb sel K -> wsum (notify_one sel c ths) <= wsum ths + K.
  Proof.
    intros sel K c ths HK. unfold notify_one.
    destruct (count_sel sel ths); [lia | apply wsum_wake_nth; exact HK].
  Qed.

  (* ---- the ring part *)
  Definition b2n (b : bool) : nat := if b then 1 else 0.
  Definition cnt (l : list (slot wst)) : nat := length (filter is_input l).

  Lemma cnt_upd : forall j s (l : list (slot wst)),
    j < length l ->
    cnt (upd j s l) + b2n (is_input (nth j l (empty_slot wst))) = cnt l + b2n (is_input s).
  Proof.
    intros j s l. revert j. unfold cnt.
    induction l as [|x r IH]; intros [|j] Hj; cbn [length upd nth filter] in *; try lia.
    - destruct (is_input s); destruct (is_input x); cbn [length b2n]; lia.
    - specialize (IH j ltac:(lia)). destruct (is_input x); cbn [length]; lia.
  Qed.

  Lemma upd_oob : forall {A} j (s : A) l, length l <= j -> upd j s l = l.
  Proof.
    intros A j s l. revert j.
    induction l as [|x r IH]; intros [|j] Hj; cbn [length upd] in *; try reflexivity; try lia.
    f_equal. apply IH. lia.
  Qed.

  Lemma is_input_nth_lt : forall j (l : list (slot wst)),
    is_input (nth j l (empty_slot wst)) = true -> j < length l.
  Proof.
    intros j l H. destruct (Nat.lt_ge_cases j (length l)) as [L | L]; [exact L|].
    rewrite nth_overflow in H by exact L. discriminate.
  Qed.

  Lemma inputs_set_slot : forall (w : wl wst) i s,
    inputs_w (set_slot w i s) + 14 * b2n (is_input (slot_at w i)) <=
    inputs_w w + 14 * b2n (is_input s) /\
    (is_input (slot_at w i) = true ->
     inputs_w (set_slot w i s) + 14 = inputs_w w + 14 * b2n (is_input s)) /\
    (is_input s = is_input (slot_at w i) -> inputs_w (set_slot w i s) = inputs_w w) /\
    inputs_w (set_slot w i s) <= inputs_w w + 14 * b2n (is_input s).
  Proof.
    intros w i s. unfold inputs_w, set_slot, slot_at. cbn [w_slots].
    fold (cnt (upd (i mod nslots w) s (w_slots w))). fold (cnt (w_slots w)).
    destruct (Nat.lt_ge_cases (i mod nslots w) (length (w_slots w))) as [L | L].
    - assert (H := cnt_upd (i mod nslots w) s (w_slots w) L).
      repeat split.
      + lia.
      + intro E. rewrite E in H. cbn [b2n] in H. lia.
      + intro E. rewrite E in H. lia.
      + lia.
    - rewrite (upd_oob _ _ _ L). rewrite (nth_overflow _ _ L).
      change (is_input (empty_slot wst)) with false. cbn [b2n].
      repeat split.
      + lia.
      + discriminate.
      + lia.
  Qed.

  Lemma inputs_set_slot_le : forall (w : wl wst) i s,
    inputs_w (set_slot w i s) <= inputs_w w + 14.
  Proof.
    intros w i s. destruct (inputs_set_slot w i s) as (_ & _ & _ & H).
    destruct (is_input s); cbn [b2n] in H; lia.
  Qed.

  Lemma inputs_set_slot_non : forall (w : wl wst) i s,
    is_input s = false -> inputs_w (set_slot w i s) <= inputs_w w.
  Proof.
    intros w i s E. destruct (inputs_set_slot w i s) as (_ & _ & _ & H).
    rewrite E in H. cbn [b2n] in H. lia.
  Qed.

  Lemma inputs_set_slot_same : forall (w : wl wst) i s,
    is_input s = is_input (slot_at w i) -> inputs_w (set_slot w i s) = inputs_w w.
  Proof. intros w i s E. apply (inputs_set_slot w i s). exact E. Qed.

  Lemma inputs_set_slot_steal : forall (w : wl wst) i s,
    is_input (slot_at w i) = true -> is_input s = false ->
    inputs_w (set_slot w i s) + 14 = inputs_w w.
  Proof.
    intros w i s E1 E2. destruct (inputs_set_slot w i s) as (_ & H & _).
    specialize (H E1). rewrite E2 in H. cbn [b2n] in H. lia.
  Qed.

  Lemma inputs_advance : forall fuel (w : wl wst), inputs_w (wl_advance wst fuel w) <= inputs_w w.
  Proof.
    induction fuel as [|f IH]; intro w; cbn [wl_advance]; [lia|].
    destruct ((w_head w <? w_tail w) && negb (s_linked (slot_at w (w_head w)))); [|lia].
    eapply Nat.le_trans; [apply IH|].
    change (inputs_w (with_head (set_slot w (w_head w) (mkSlot (s_linked (slot_at w (w_head w))) None))
                                (S (w_head w))))
      with (inputs_w (set_slot w (w_head w) (mkSlot (s_linked (slot_at w (w_head w))) None))).
    apply inputs_set_slot_non. reflexivity.
  Qed.

  Lemma inputs_unlink : forall (w w' : wl wst) idx b,
    wl_unlink w idx = Ok (w', b) -> inputs_w w' <= inputs_w w.
  Proof.
    intros w w' idx b H. unfold wl_unlink in H.
    destruct (negb (invariants_ok w)); [discriminate|].
    destruct (negb (s_linked (slot_at w idx))); [discriminate|].
    match type of H with (if negb (invariants_ok ?W2) then _ else _) = _ =>
      destruct (negb (invariants_ok W2)); [discriminate|] end.
    injection H as E _. subst w'.
    eapply Nat.le_trans; [apply inputs_advance|].
    rewrite inputs_set_slot_same; [lia | reflexivity].
  Qed.

  Lemma inputs_link_try : forall (w : wl wst) v r,
    wl_link_try w v = Ok r ->
    match r with
    | Linked w' _ => inputs_w w' <= inputs_w w + 14
    | MustWait w' => inputs_w w' = inputs_w w
    end.
  Proof.
    intros w v r H. unfold wl_link_try in H.
    destruct (wl_full w).
    - destruct (negb (invariants_ok w)); [discriminate|]. injection H as <-. reflexivity.
    - match type of H with (if negb (invariants_ok ?W2) then _ else _) = _ =>
        destruct (negb (invariants_ok W2)); [discriminate|] end.
      injection H as <-.
      eapply Nat.le_trans; [apply inputs_set_slot_le|]. apply Nat.le_refl.
  Qed.

  Lemma inputs_link_wake : forall (w : wl wst) v r,
    wl_link_wake w v = Ok r ->
    match r with
    | Linked w' _ => inputs_w w' <= inputs_w w + 14
    | MustWait w' => inputs_w w' = inputs_w w
    end.
  Proof.
    intros w v r H. unfold wl_link_wake in H.
    destruct (w_waiting w) as [|n]; [discriminate|].
    destruct (negb (invariants_ok (with_waiting w n))); [discriminate|].
    apply inputs_link_try in H. exact H.
  Qed.

  Lemma inputs_store_non : forall (w : wl wst) idx v,
    (forall i, v <> WInput i) -> inputs_w (wl_store w idx v) <= inputs_w w.
  Proof.
    intros w idx v Hv. unfold wl_store. apply inputs_set_slot_non.
    unfold is_input. cbn [s_value]. destruct v; try reflexivity. exfalso. eapply Hv. reflexivity.
  Qed.

  Lemma inputs_store_steal : forall (w : wl wst) idx v i,
    wl_load w idx = Ok (WInput i) -> (forall i, v <> WInput i) ->
    inputs_w (wl_store w idx v) + 14 = inputs_w w.
  Proof.
    intros w idx v i Hl Hv. unfold wl_store. apply inputs_set_slot_steal.
    - unfold wl_load in Hl. unfold is_input.
      destruct (s_value (slot_at w idx)) as [x|]; [|discriminate].
      injection Hl as E. subst x. reflexivity.
    - unfold is_input. cbn [s_value]. destruct v; try reflexivity. exfalso. eapply Hv. reflexivity.
  Qed.

  (* ---- one step *)
  Lemma dec_gen : forall (g g0 : gstate) t th th' K,
    nth_error (g_threads g0) t = Some th ->
    wsum (g_threads g0) <= wsum (g_threads g) + K ->
    thw th' + K + inputs_w (g_wl g0) < thw th + inputs_w (g_wl g) ->
    measure (set_thread g0 t th') < measure g.
  Proof.
    intros g g0 t th th' K Ht Hs Hlt. unfold measure, set_thread, with_threads.
    cbn [g_threads g_wl]. fold (wsum (upd t th' (g_threads g0))). fold (wsum (g_threads g)).
    assert (H := wsum_upd t th th' (g_threads g0) Ht). lia.
  Qed.

  Lemma sleeps_on_awake : forall n idx (p : pc),
    (forall j, p <> PSleep j false) -> sleeps_on n idx p = false.
  Proof.
    intros n idx p H. destruct p as [| i [|] | | | | | j [|] | | | | | | | | | | | | | ];
      try reflexivity. exfalso. eapply H. reflexivity.
  Qed.
End Measure.

(* ------------------------------------------------------------------ every step decreases *)
Section Step.
  Variables Inp Outp Acc CS : Type.
  Variable acc0 : Acc.
  Variable can_batch : CS -> Acc -> Inp -> bool.
  Variable batch : CS -> Acc -> Inp -> CS * Acc.
  Variable work : CS -> nat -> Acc -> CS * list Outp.
  Notation pc := (pc Inp Outp Acc).
  Notation thread := (thread Inp Outp Acc).
  Notation gstate := (gstate Inp Outp Acc CS).
  Notation wst := (wstate Inp Outp).
  Notation TSTEP := (tstep Inp Outp Acc CS acc0 can_batch batch work).
  Notation EXEC := (exec Inp Outp Acc CS acc0 can_batch batch work).
  Notation RUN := (run Inp Outp Acc CS acc0 can_batch batch work).
  Notation INIT := (ginit Inp Outp Acc CS).
  Notation ENABLED := (enabled Inp Outp Acc CS acc0 can_batch batch work).

  Ltac gsimp :=
    cbn [g_threads g_wl g_S g_C g_dw g_core g_links g_seen g_batches
         with_S with_C with_dw with_wl with_threads set_pc finish t_todo t_pc t_done pcw].

  Lemma dec_after_link : forall (g : gstate) t th th1 i r g',
    nth_error (g_threads g) t = Some th ->
    (forall w' idx, r = Ok (Linked w' idx) -> inputs_w w' <= inputs_w (g_wl g) + 14) ->
    (forall w', r = Ok (MustWait w') -> inputs_w w' = inputs_w (g_wl g)) ->
    33 * length (t_todo th1) + 32 < thw th ->
    after_link g t th1 i r = SOk g' -> measure g' < measure g.
  Proof.
    intros g t th th1 i r g' Ht HL HM Hw H. unfold after_link in H.
    destruct r as [[w' idx | w'] | | |]; try discriminate.
    - injection H as <-. specialize (HL w' idx eq_refl).
      eapply (dec_gen g _ t th _ 0); gsimp; [exact Ht | lia |].
      unfold thw at 1. gsimp. lia.
    - injection H as <-. specialize (HM w' eq_refl).
      eapply (dec_gen g _ t th _ 0); gsimp; [exact Ht | lia |].
      unfold thw at 1. gsimp. lia.
  Qed.

  (* a step that only moves the program counter (and may touch the mutexes / the flag) *)
  Lemma dec_plain : forall (g g0 : gstate) t th th',
    nth_error (g_threads g) t = Some th ->
    g_threads g0 = g_threads g -> g_wl g0 = g_wl g ->
    thw th' < thw th -> measure (set_thread g0 t th') < measure g.
  Proof.
    intros g g0 t th th' Ht E1 E2 Hw.
    eapply (dec_gen g g0 t th th' 0); rewrite ?E1, ?E2; [exact Ht | lia | lia].
  Qed.

  (* the unlink steps *)
  Lemma dec_unlink : forall (g : gstate) t th idx pa pb g',
    nth_error (g_threads g) t = Some th ->
    pcw pa < pcw (t_pc th) -> pcw pb < pcw (t_pc th) ->
    match wl_unlink (g_wl g) idx with
    | Ok (w, true) => SOk (set_thread (with_wl g w) t (set_pc th pa))
    | Ok (w, false) => SOk (set_thread (with_wl g w) t (set_pc th pb))
    | _ => SPanic
    end = SOk g' -> measure g' < measure g.
  Proof.
    intros g t th idx pa pb g' Ht Ha Hb H.
    destruct (wl_unlink (g_wl g) idx) as [[w b] | | |] eqn:Hu; try discriminate.
    apply inputs_unlink in Hu.
    destruct b; injection H as <-;
      (eapply (dec_gen g _ t th _ 0); gsimp; [exact Ht | lia |]);
      unfold thw; gsimp; lia.
  Qed.

  (* notify_head, then leave *)
  Lemma dec_notify_head : forall (g : gstate) t th th' c,
    nth_error (g_threads g) t = Some th ->
    (forall j, t_pc th <> PSleep j false) ->
    thw th' + 4 < thw th ->
    forall g1 g2 : gstate,
    g1 = match wl_notify_head (g_wl g) with Some h => notify_cond g h c | None => g end ->
    g_threads g2 = g_threads g1 -> g_wl g2 = g_wl g1 ->
    measure (set_thread g2 t th') < measure g.
  Proof.
    intros g t th th' c Ht Hns Hw g1 g2 E1 E2 E3.
    destruct (wl_notify_head (g_wl g)) as [h|]; subst g1.
    - eapply (dec_gen g g2 t th th' 4); rewrite ?E2, ?E3; unfold notify_cond; gsimp.
      + apply notify_one_unsel; [exact Ht | apply sleeps_on_awake; exact Hns].
      + apply wsum_notify_one. apply tokb_on.
      + lia.
    - eapply (dec_gen g g2 t th th' 0); rewrite ?E2, ?E3; [exact Ht | lia | lia].
  Qed.

  Lemma sleeps_wa_awake : forall p : pc, (forall i, p <> PLinkSleep i false) -> sleeps_wa p = false.
  Proof.
    intros p H. destruct p as [| i [|] | | | | | j [|] | | | | | | | | | | | | | ];
      try reflexivity. exfalso. eapply H. reflexivity.
  Qed.

  (* unlink's notify_one on wait_waiter_available *)
  Lemma dec_notify_wa : forall (g : gstate) t th th' c,
    nth_error (g_threads g) t = Some th ->
    (forall i, t_pc th <> PLinkSleep i false) ->
    thw th' + 2 < thw th ->
    measure (set_thread (notify_wa g c) t th') < measure g.
  Proof.
    intros g t th th' c Ht Hns Hw.
    eapply (dec_gen g _ t th th' 2); unfold notify_wa; gsimp.
    - apply notify_one_unsel; [exact Ht | apply sleeps_wa_awake; exact Hns].
    - apply wsum_notify_one. apply tokb_wa.
    - lia.
  Qed.

  Theorem tstep_decreases : forall (g : gstate) t c g',
    TSTEP g t c = SOk g' -> measure g' < measure g.
  Proof.
    intros g t c g' H. unfold tstep in H.
    destruct (nth_error (g_threads g) t) as [th|] eqn:Ht; [|discriminate].
    destruct th as [p td dn]. cbn [t_pc t_todo t_done] in H.
    destruct p as [| i [|] | idx | idx | idx | idx | idx [|] | idx o | idx o | idx o | idx | idx
                   | idx cur taken acc | idx taken acc | idx cur rem outs | idx | idx o | idx o
                   | idx o | idx o].
    - (* PIdle *)
      destruct td as [|i rest]; [discriminate|].
      eapply (dec_after_link g t _ _ i _ g' Ht); [| | | exact H].
      + intros w' idx E. exact (inputs_link_try _ _ _ E).
      + intros w' E. exact (inputs_link_try _ _ _ E).
      + unfold thw. cbn [t_todo t_pc pcw length]. lia.
    - (* PLinkSleep true *)
      eapply (dec_after_link g t _ _ i _ g' Ht); [| | | exact H].
      + intros w' idx E. exact (inputs_link_wake _ _ _ E).
      + intros w' E. exact (inputs_link_wake _ _ _ E).
      + unfold thw. cbn [t_todo t_pc pcw length]. lia.
    - discriminate.
    - (* PEnter *)
      destruct (free (g_S g)); [|discriminate]. injection H as <-.
      apply (dec_plain g _ t _ _ Ht); try reflexivity. unfold thw; gsimp; lia.
    - (* PTest *)
      destruct (g_dw g).
      + injection H as <-. apply (dec_plain g _ t _ _ Ht); try reflexivity. unfold thw; gsimp; lia.
      + destruct (wl_is_head (g_wl g) idx) as [[|] | | |]; try discriminate; injection H as <-;
          apply (dec_plain g _ t _ _ Ht); try reflexivity; unfold thw; gsimp; lia.
    - (* PLoad *)
      destruct (wl_load (g_wl g) idx) as [[i | | o] | | |]; try discriminate; injection H as <-;
        apply (dec_plain g _ t _ _ Ht); try reflexivity; unfold thw; gsimp; lia.
    - (* PWait *)
      injection H as <-. apply (dec_plain g _ t _ _ Ht); try reflexivity. unfold thw; gsimp; lia.
    - (* PSleep true *)
      destruct (free (g_S g)); [|discriminate]. injection H as <-.
      apply (dec_plain g _ t _ _ Ht); try reflexivity. unfold thw; gsimp; lia.
    - discriminate.
    - (* PExitUnlink *)
      eapply (dec_unlink g t _ idx _ _ g' Ht); [| | exact H]; gsimp; lia.
    - (* PExitWA *)
      injection H as <-. apply (dec_notify_wa g t _ _ c Ht).
      + intros i E. discriminate.
      + unfold thw; gsimp; lia.
    - (* PExitNotify *)
      injection H as <-.
      eapply (dec_notify_head g t _ _ c Ht); [| | reflexivity | reflexivity | reflexivity].
      + intros j E. discriminate.
      + unfold thw; gsimp; lia.
    - (* PHead *)
      destruct (g_dw g); [discriminate|].
      destruct (wl_is_head (g_wl g) idx) as [[|] | | |]; try discriminate.
      destruct (wl_load (g_wl g) idx) as [[i | | o] | | |]; try discriminate; injection H as <-;
        apply (dec_plain g _ t _ _ Ht); try reflexivity; unfold thw; gsimp; lia.
    - (* PLockCore *)
      destruct (free (g_C g)); [|discriminate]. injection H as <-.
      apply (dec_plain g _ t _ _ Ht); try reflexivity. unfold thw; gsimp; lia.
    - (* PBatch *)
      destruct (wl_iter_next (g_wl g) cur).
      + destruct (wl_load (g_wl g) cur) as [[i | | o] | | |] eqn:Hl; try discriminate.
        destruct ((taken =? 0) || can_batch (g_core g) acc i).
        * destruct (batch (g_core g) acc i) as [core' acc'].
          injection H as <-.
          assert (Hst := inputs_store_steal (g_wl g) cur WStolen i Hl ltac:(discriminate)).
          eapply (dec_gen g _ t _ _ 4); unfold notify_cond; gsimp.
          -- apply notify_one_unsel; [exact Ht | reflexivity].
          -- apply wsum_notify_one. apply tokb_on.
          -- unfold thw; gsimp. lia.
        * injection H as <-.
          apply (dec_plain g _ t _ _ Ht); try reflexivity. unfold thw; gsimp; lia.
      + injection H as <-.
        apply (dec_plain g _ t _ _ Ht); try reflexivity. unfold thw; gsimp; lia.
    - (* PWork *)
      destruct (work (g_core g) taken acc) as [core' outs]. injection H as <-.
      apply (dec_plain g _ t _ _ Ht); try reflexivity. unfold thw; gsimp; lia.
    - (* PDist *)
      destruct rem as [|rem'].
      { injection H as <-. apply (dec_plain g _ t _ _ Ht); try reflexivity. unfold thw; gsimp; lia. }
      destruct (wl_iter_next (g_wl g) cur).
      2:{ injection H as <-. apply (dec_plain g _ t _ _ Ht); try reflexivity. unfold thw; gsimp; lia. }
      destruct outs as [|o outs'].
      { injection H as <-. apply (dec_plain g _ t _ _ Ht); try reflexivity. unfold thw; gsimp; lia. }
      injection H as <-.
      assert (Hst := inputs_store_non (g_wl g) cur (WOutput o) ltac:(discriminate)).
      eapply (dec_gen g _ t _ _ 8); unfold notify_cond; gsimp.
      + apply notify_one_unsel; [apply notify_one_unsel; [exact Ht | reflexivity] | reflexivity].
      + eapply Nat.le_trans; [apply wsum_notify_one; apply tokb_on|].
        assert (Hn := wsum_notify_one (sleeps_on (nslots (wl_store (g_wl g) cur (WOutput o))) cur)
                        4 c (g_threads g) (tokb_on _ _)). lia.
      + unfold thw; gsimp. lia.
    - (* PLeaderLoad *)
      destruct (wl_load (g_wl g) idx) as [[i | | o] | | |]; try discriminate; injection H as <-.
      apply (dec_plain g _ t _ _ Ht); try reflexivity. unfold thw; gsimp; lia.
    - (* PLeaderUnlink *)
      eapply (dec_unlink g t _ idx _ _ g' Ht); [| | exact H]; gsimp; lia.
    - (* PLeaderWA *)
      injection H as <-. apply (dec_notify_wa g t _ _ c Ht).
      + intros i E. discriminate.
      + unfold thw; gsimp; lia.
    - (* PLeaderClear *)
      destruct (free (g_S g)); [|discriminate]. injection H as <-.
      apply (dec_plain g _ t _ _ Ht); try reflexivity. unfold thw; gsimp; lia.
    - (* PLeaderNotify *)
      injection H as <-.
      eapply (dec_notify_head g t _ _ c Ht); [| | reflexivity | reflexivity | reflexivity].
      + intros j E. discriminate.
      + unfold thw; gsimp; lia.
  Qed.
End Step.

(* ------------------------------------------------------------------ bounded work *)
Section Bound.
  Variables Inp Outp Acc CS : Type.
  Variable acc0 : Acc.
  Variable can_batch : CS -> Acc -> Inp -> bool.
  Variable batch : CS -> Acc -> Inp -> CS * Acc.
  Variable work : CS -> nat -> Acc -> CS * list Outp.
  Notation pc := (pc Inp Outp Acc).
  Notation thread := (thread Inp Outp Acc).
  Notation gstate := (gstate Inp Outp Acc CS).
  Notation wst := (wstate Inp Outp).
  Notation TSTEP := (tstep Inp Outp Acc CS acc0 can_batch batch work).
  Notation RUN := (run Inp Outp Acc CS acc0 can_batch batch work).
  Notation INIT := (ginit Inp Outp Acc CS).

  Lemma spurious_bound : forall (g : gstate) t, measure (spurious g t) <= measure g + 4.
  Proof.
    intros g t. unfold spurious.
    destruct (nth_error (g_threads g) t) as [th|] eqn:Ht; [|lia].
    unfold measure, set_thread, with_threads. cbn [g_threads g_wl].
    fold (wsum (upd t (set_pc th (tokenize (t_pc th))) (g_threads g))). fold (wsum (g_threads g)).
    assert (H := wsum_upd t th (set_pc th (tokenize (t_pc th))) (g_threads g) Ht).
    assert (Hp := tokenize_pcw (t_pc th)).
    unfold thw in H. cbn [set_pc t_todo t_pc] in H. lia.
  Qed.

  (* the number of effective thread steps of a run (blocked / finished threads stutter) *)
  Fixpoint esteps (g : gstate) (sched : list action) : nat :=
    match sched with
    | [] => 0
    | ARun t c :: r =>
        match TSTEP g t c with
        | SOk g' => S (esteps g' r)
        | SBlocked | SDone => esteps g r
        | SPanic => 0
        end
    | ASpurious t :: r => esteps (spurious g t) r
    end.

  Fixpoint nspurious (sched : list action) : nat :=
    match sched with
    | [] => 0
    | ARun _ _ :: r => nspurious r
    | ASpurious _ :: r => S (nspurious r)
    end.

  Theorem wcq_bounded_work : forall sched (g g' : gstate),
    RUN g sched = Ok g' -> esteps g sched + measure g' <= measure g + 4 * nspurious sched.
  Proof.
    induction sched as [|a r IH]; intros g g' H; cbn [run esteps nspurious] in *.
    - injection H as <-. lia.
    - destruct a as [t c | t]; cbn [exec] in H.
      + destruct (TSTEP g t c) as [g1 | | |] eqn:Hs; cbn [bind] in H; try discriminate.
        * apply IH in H. apply (tstep_decreases Inp Outp Acc CS acc0 can_batch batch work) in Hs. lia.
        * apply IH in H. exact H.
        * apply IH in H. exact H.
      + cbn [bind] in H. apply IH in H. assert (Hb := spurious_bound g t). lia.
  Qed.

  Lemma inputs_new : forall n, inputs_w (@wl_new wst n) = 0.
  Proof.
    intro n. unfold inputs_w, wl_new. cbn [w_slots].
    induction n as [|n IH]; cbn [repeat filter]; [reflexivity|].
    change (is_input (empty_slot wst)) with false. cbv iota. exact IH.
  Qed.

  Lemma measure_init : forall n core (progs : list (list Inp)),
    measure (INIT n core progs) = 33 * length (concat progs).
  Proof.
    intros n core progs. unfold measure, ginit. cbn [g_threads g_wl]. rewrite inputs_new.
    rewrite Nat.add_0_r.
    induction progs as [|p r IH]; [reflexivity|].
    cbn [map concat]. rewrite app_length.
    change (list_sum (?x :: ?l)) with (x + list_sum l). rewrite IH.
    unfold thw. cbn [t_todo t_pc pcw]. lia.
  Qed.

  Theorem wcq_bounded_work_init : forall n core (progs : list (list Inp)) sched g',
    0 < n -> RUN (INIT n core progs) sched = Ok g' ->
    esteps (INIT n core progs) sched + measure g' <= 33 * length (concat progs) + 4 * nspurious sched.
  Proof.
    intros n core progs sched g' _ H. apply wcq_bounded_work in H. rewrite measure_init in H. exact H.
  Qed.

  Lemma list_sum_zero : forall l x, list_sum l = 0 -> In x l -> x = 0.
  Proof.
    induction l as [|y r IH]; intros x H Hin; [destruct Hin|].
    change (list_sum (y :: r)) with (y + list_sum r) in H.
    destruct Hin as [E | Hin]; [lia | apply IH; [lia | exact Hin]].
  Qed.

  Lemma measure_zero_finished : forall g : gstate, measure g = 0 -> all_finished g = true.
  Proof.
    intros g H. unfold all_finished. apply forallb_forall. intros th Hin.
    assert (Hz : thw th = 0).
    { apply (list_sum_zero (map thw (g_threads g))); [unfold measure in H; lia|].
      apply in_map. exact Hin. }
    unfold thw in Hz. unfold thread_finished.
    destruct (t_todo th) as [|i rest]; [|cbn [length] in Hz; lia].
    destruct (t_pc th) as [| i [|] | | | | | j [|] | | | | | | | | | | | | | ]; cbn [pcw] in Hz;
      try reflexivity; lia.
  Qed.

  Theorem wcq_enough_steps_finish : forall n core (progs : list (list Inp)) sched g',
    0 < n -> RUN (INIT n core progs) sched = Ok g' ->
    33 * length (concat progs) + 4 * nspurious sched <= esteps (INIT n core progs) sched ->
    all_finished g' = true.
  Proof.
    intros n core progs sched g' Hn H Hle.
    assert (Hb := wcq_bounded_work_init n core progs sched g' Hn H).
    apply measure_zero_finished. lia.
  Qed.

  (* ---- the ghost list of links only grows, at its end *)
  Lemma after_link_links : forall (g : gstate) t th i r g',
    after_link g t th i r = SOk g' -> exists l, g_links g' = g_links g ++ l.
  Proof.
    intros g t th i r g' H. unfold after_link in H.
    destruct r as [[w' idx | w'] | | |]; try discriminate; injection H as <-.
    - exists [(t, i)]. reflexivity.
    - exists []. cbn. rewrite app_nil_r. reflexivity.
  Qed.

  Lemma tstep_links : forall (g : gstate) t c g',
    TSTEP g t c = SOk g' -> exists l, g_links g' = g_links g ++ l.
  Proof.
    intros g t c g' H. unfold tstep in H.
    destruct (nth_error (g_threads g) t) as [th|] eqn:Ht; [|discriminate].
    destruct (t_pc th) as [| i [|] | idx | idx | idx | idx | idx [|] | idx o | idx o | idx o | idx | idx
                   | idx cur taken acc | idx taken acc | idx cur rem outs | idx | idx o | idx o
                   | idx o | idx o].
    - destruct (t_todo th) as [|i rest]; [discriminate|]. eapply after_link_links; exact H.
    - eapply after_link_links; exact H.
    - discriminate.
    - destruct (free (g_S g)); [|discriminate]. injection H as <-. exists []. cbn. rewrite app_nil_r. reflexivity.
    - destruct (g_dw g).
      + injection H as <-. exists []. cbn. rewrite app_nil_r. reflexivity.
      + destruct (wl_is_head (g_wl g) idx) as [[|] | | |]; try discriminate; injection H as <-;
          exists []; cbn; rewrite app_nil_r; reflexivity.
    - destruct (wl_load (g_wl g) idx) as [[i | | o] | | |]; try discriminate; injection H as <-;
        exists []; cbn; rewrite app_nil_r; reflexivity.
    - injection H as <-. exists []. cbn. rewrite app_nil_r. reflexivity.
    - destruct (free (g_S g)); [|discriminate]. injection H as <-. exists []. cbn. rewrite app_nil_r. reflexivity.
    - discriminate.
    - destruct (wl_unlink (g_wl g) idx) as [[w [|]] | | |]; try discriminate; injection H as <-;
        exists []; cbn; rewrite app_nil_r; reflexivity.
    - injection H as <-. exists []. cbn. rewrite app_nil_r. reflexivity.
    - injection H as <-. exists [].
      destruct (wl_notify_head (g_wl g)); cbn; rewrite app_nil_r; reflexivity.
    - destruct (g_dw g); [discriminate|].
      destruct (wl_is_head (g_wl g) idx) as [[|] | | |]; try discriminate.
      destruct (wl_load (g_wl g) idx) as [[i | | o] | | |]; try discriminate; injection H as <-;
        exists []; cbn; rewrite app_nil_r; reflexivity.
    - destruct (free (g_C g)); [|discriminate]. injection H as <-. exists []. cbn. rewrite app_nil_r. reflexivity.
    - destruct (wl_iter_next (g_wl g) cur).
      + destruct (wl_load (g_wl g) cur) as [[i | | o] | | |]; try discriminate.
        destruct ((taken =? 0) || can_batch (g_core g) acc i).
        * destruct (batch (g_core g) acc i) as [core' acc']. injection H as <-.
          exists []. cbn. rewrite app_nil_r. reflexivity.
        * injection H as <-. exists []. cbn. rewrite app_nil_r. reflexivity.
      + injection H as <-. exists []. cbn. rewrite app_nil_r. reflexivity.
    - destruct (work (g_core g) taken acc) as [core' outs]. injection H as <-.
      exists []. cbn. rewrite app_nil_r. reflexivity.
    - destruct rem as [|rem'].
      { injection H as <-. exists []. cbn. rewrite app_nil_r. reflexivity. }
      destruct (wl_iter_next (g_wl g) cur).
      2:{ injection H as <-. exists []. cbn. rewrite app_nil_r. reflexivity. }
      destruct outs as [|o outs']; injection H as <-; exists []; cbn; rewrite app_nil_r; reflexivity.
    - destruct (wl_load (g_wl g) idx) as [[i | | o] | | |]; try discriminate; injection H as <-.
      exists []. cbn. rewrite app_nil_r. reflexivity.
    - destruct (wl_unlink (g_wl g) idx) as [[w [|]] | | |]; try discriminate; injection H as <-;
        exists []; cbn; rewrite app_nil_r; reflexivity.
    - injection H as <-. exists []. cbn. rewrite app_nil_r. reflexivity.
    - destruct (free (g_S g)); [|discriminate]. injection H as <-. exists []. cbn. rewrite app_nil_r. reflexivity.
    - injection H as <-. exists [].
      destruct (wl_notify_head (g_wl g)); cbn; rewrite app_nil_r; reflexivity.
  Qed.

  Lemma spurious_links : forall (g : gstate) t, g_links (spurious g t) = g_links g.
  Proof. intros g t. unfold spurious. destruct (nth_error (g_threads g) t); reflexivity. Qed.

  Lemma run_links : forall sched (g g' : gstate),
    RUN g sched = Ok g' -> exists l, g_links g' = g_links g ++ l.
  Proof.
    induction sched as [|a r IH]; intros g g' H; cbn [run] in H.
    - injection H as <-. exists []. rewrite app_nil_r. reflexivity.
    - destruct a as [t c | t]; cbn [exec] in H.
      + destruct (TSTEP g t c) as [g1 | | |] eqn:Hs; cbn [bind] in H; try discriminate.
        * apply IH in H. destruct H as [l2 E2]. apply tstep_links in Hs. destruct Hs as [l1 E1].
          exists (l1 ++ l2). rewrite E2, E1, app_assoc. reflexivity.
        * apply IH in H. exact H.
        * apply IH in H. exact H.
      + cbn [bind] in H. apply IH in H. rewrite spurious_links in H. exact H.
  Qed.

  Lemma run_app : forall s1 s2 (g : gstate),
    RUN g (s1 ++ s2) = bind (RUN g s1) (fun g1 => RUN g1 s2).
  Proof.
    induction s1 as [|a r IH]; intros s2 g; cbn [app run]; [reflexivity|].
    destruct (exec Inp Outp Acc CS acc0 can_batch batch work g a) as [g1 | | |]; cbn [bind];
      [apply IH | reflexivity | reflexivity | reflexivity].
  Qed.

  (* ---- consequences that need the invariant *)
  Hypothesis work_len : forall cs n acc, n <= length (snd (work cs n acc)).

  Theorem wcq_maximal_run_finished : forall n core (progs : list (list Inp)) sched g',
    0 < n -> RUN (INIT n core progs) sched = Ok g' ->
    (forall t, enabled Inp Outp Acc CS acc0 can_batch batch work g' t = false) ->
    all_finished g' = true.
  Proof.
    intros n core progs sched g' Hn H Hno.
    destruct (all_finished g') eqn:Hf; [reflexivity|].
    destruct (wcq_no_deadlock Inp Outp Acc CS acc0 can_batch batch work work_len
                n core progs sched g' Hn H Hf) as [t Ht].
    rewrite Hno in Ht. discriminate.
  Qed.

  (* FIFO for linked calls: a call linked at index idx in g1 and not yet handed to the core is
     handed over after exactly the calls linked before it, in index order *)
  Theorem wcq_linked_fifo : forall n core (progs : list (list Inp)) sched1 g1 sched2 g2,
    0 < n -> RUN (INIT n core progs) sched1 = Ok g1 -> RUN g1 sched2 = Ok g2 ->
    forall idx, idx < length (g_links g1) -> length (g_seen g1) <= idx -> idx < length (g_seen g2) ->
    firstn (S idx) (g_links g2) = firstn (S idx) (g_links g1) /\
    firstn (S idx) (g_seen g2) = map snd (firstn (S idx) (g_links g1)).
  Proof.
    intros n core progs sched1 g1 sched2 g2 Hn H1 H2 idx Hl1 _ Hs2.
    assert (H12 : RUN (INIT n core progs) (sched1 ++ sched2) = Ok g2).
    { rewrite run_app, H1. cbn [bind]. exact H2. }
    destruct (wcq_exactly_once_in_order Inp Outp Acc CS acc0 can_batch batch work work_len
                n core progs (sched1 ++ sched2) g2 Hn H12) as (_ & Hseen & _).
    destruct (run_links sched2 g1 g2 H2) as [l El].
    assert (Hf : firstn (S idx) (g_links g2) = firstn (S idx) (g_links g1)).
    { rewrite El. apply firstn_app_le. lia. }
    split; [exact Hf|].
    rewrite Hseen, firstn_map, firstn_firstn.
    replace (Init.Nat.min (S idx) (length (g_seen g2))) with (S idx) by lia.
    rewrite Hf. reflexivity.
  Qed.
End Bound.

(* The bound on a concrete run (the run of ProofsWcq.ex_run_finishes): 3 calls, bound 99, the
   schedule of 120 actions makes 46 effective steps and ends with measure 0, i.e. finished. *)
Example ex_bounded_work :
  let g0 := ginit nat nat (list nat) unit 1 tt [[7; 8]; [9]] in
  let sched := concat (repeat [ARun 0 0; ARun 1 0] 60) in
  measure g0 = 99 /\
  esteps nat nat (list nat) unit [] (fun _ _ _ => true) (fun cs acc i => (cs, acc ++ [i])) ex_work
         g0 sched = 46 /\
  match run nat nat (list nat) unit [] (fun _ _ _ => true) (fun cs acc i => (cs, acc ++ [i])) ex_work
            g0 sched with
  | Ok g => measure g = 0 /\ all_finished g = true
  | _ => False
  end.
Proof. vm_compute. repeat split. Qed.
